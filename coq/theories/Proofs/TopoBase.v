(** C09 — base algebra of the unrooted-topology specification
    ([Spec/TreeTopoSpec.v]): complements, [cut_eq] as an equivalence,
    [nontrivial], [splits_incl]/[splits_eq], structural facts about [cuts],
    and [same_topology] as an equivalence. *)
From Coq Require Import Permutation.
From CG3 Require Import Lib.PyZ Lib.Val Lib.Rose Model.Tree Model.TreeDist Spec.TreeTopoSpec Proofs.TreeDistProofs.

(* ------------------------------------------------------------------ *)
(** * (0) set equality helpers *)

Lemma seteq_sym (a b : list name) : seteq a b -> seteq b a.
Proof. intros H x. symmetry. apply H. Qed.

Lemma seteq_trans (a b c : list name) : seteq a b -> seteq b c -> seteq a c.
Proof. intros H1 H2 x. rewrite (H1 x). apply H2. Qed.

Lemma perm_seteq (A B : list name) : Permutation A B -> seteq A B.
Proof.
  intros HP x. split; intros Hx.
  - eapply Permutation_in; eauto.
  - eapply Permutation_in; [apply Permutation_sym|]; eauto.
Qed.

Lemma seteq_incl_l (a b U : list name) : seteq a b -> incl a U -> incl b U.
Proof. intros H Ha x Hx. apply Ha. apply H. exact Hx. Qed.

Lemma seteq_incl_r (c U U' : list name) : seteq U U' -> incl c U -> incl c U'.
Proof. intros H Hc x Hx. apply H. apply Hc. exact Hx. Qed.

Lemma memb_seteq x (a b : list name) : seteq a b -> memb x a = memb x b.
Proof.
  intros H. apply bool_eq_iff. rewrite !memb_In. apply H.
Qed.

Lemma set_eqb_true_sym a b : set_eqb a b = true -> set_eqb b a = true.
Proof. intros H. rewrite set_eqb_sym. exact H. Qed.

Lemma NoDup_app_disjoint (A B : list name) x : NoDup (A ++ B) -> In x A -> In x B -> False.
Proof.
  induction A as [|a A IH]; intros HN HA HB; simpl in *; [contradiction|].
  inversion HN as [|? ? Hna HN']; subst.
  destruct HA as [->|HA].
  - apply Hna. apply in_or_app. right. exact HB.
  - apply IH; assumption.
Qed.

(* ------------------------------------------------------------------ *)
(** * (1) complement *)

Lemma memb_filter x (p : name -> bool) (l : list name) :
  memb x (filter p l) = memb x l && p x.
Proof.
  apply bool_eq_iff. rewrite andb_true_iff, !memb_In, filter_In. reflexivity.
Qed.

Lemma memb_other_side U c x : memb x (other_side U c) = memb x U && negb (memb x c).
Proof. unfold other_side. apply memb_filter. Qed.

Lemma other_side_incl U c : incl (other_side U c) U.
Proof. intros x Hx. apply other_side_In in Hx. tauto. Qed.

Lemma other_side_invol_seteq U c : incl c U -> seteq (other_side U (other_side U c)) c.
Proof.
  intros Hc x. rewrite !other_side_In. split.
  - intros [HU Hn]. destruct (in_name_dec x c) as [Hx|Hx]; [exact Hx|].
    exfalso. apply Hn. auto.
  - intros Hx. split; [apply Hc; exact Hx|]. intros [_ Hn]. auto.
Qed.

Lemma other_side_invol U c : incl c U -> set_eqb (other_side U (other_side U c)) c = true.
Proof. intros Hc. apply set_eqb_iff. apply other_side_invol_seteq. exact Hc. Qed.

Lemma other_side_compat U c c' :
  set_eqb c c' = true -> set_eqb (other_side U c) (other_side U c') = true.
Proof.
  intros H. apply set_eqb_iff. apply other_side_seteq; [apply seteq_refl|].
  apply set_eqb_iff. exact H.
Qed.

Lemma other_side_seteq_U U U' c :
  seteq U U' -> set_eqb (other_side U c) (other_side U' c) = true.
Proof.
  intros H. apply set_eqb_iff. apply other_side_seteq; [exact H|apply seteq_refl].
Qed.

Lemma other_side_disjoint_union_seteq U A B :
  NoDup (A ++ B) -> seteq U (A ++ B) -> seteq (other_side U A) B.
Proof.
  intros HN HU x. rewrite other_side_In, (HU x), in_app_iff. split.
  - intros [[HA|HB] Hn]; [contradiction|exact HB].
  - intros HB. split; [right; exact HB|].
    intros HA. eapply NoDup_app_disjoint; eauto.
Qed.

Lemma other_side_disjoint_union U A B :
  NoDup (A ++ B) -> seteq U (A ++ B) -> set_eqb (other_side U A) B = true.
Proof.
  intros HN HU. apply set_eqb_iff. apply other_side_disjoint_union_seteq; assumption.
Qed.

Lemma other_side_disjoint_union_r_seteq U A B :
  NoDup (A ++ B) -> seteq U (A ++ B) -> seteq (other_side U B) A.
Proof.
  intros HN HU x. rewrite other_side_In, (HU x), in_app_iff. split.
  - intros [[HA|HB] Hn]; [exact HA|contradiction].
  - intros HA. split; [left; exact HA|].
    intros HB. eapply NoDup_app_disjoint; eauto.
Qed.

Lemma other_side_disjoint_union_r U A B :
  NoDup (A ++ B) -> seteq U (A ++ B) -> set_eqb (other_side U B) A = true.
Proof.
  intros HN HU. apply set_eqb_iff. apply other_side_disjoint_union_r_seteq; assumption.
Qed.

(* ------------------------------------------------------------------ *)
(** * (2) [cut_eq] *)

Lemma cut_eq_true_iff U c c' :
  cut_eq U c c' = true <-> set_eqb c c' = true \/ set_eqb c (other_side U c') = true.
Proof. unfold cut_eq. apply orb_true_iff. Qed.

Lemma cut_eq_of_set_eqb U c c' : set_eqb c c' = true -> cut_eq U c c' = true.
Proof. intros H. unfold cut_eq. rewrite H. reflexivity. Qed.

Lemma cut_eq_refl U c : cut_eq U c c = true.
Proof. apply cut_eq_of_set_eqb. apply set_eqb_refl. Qed.

Lemma cut_eq_sym U c c' : incl c U -> incl c' U -> cut_eq U c c' = cut_eq U c' c.
Proof.
  intros Hc Hc'. unfold cut_eq. rewrite (set_eqb_sym c c'). f_equal.
  rewrite <- (set_eqb_other_side_swap U c c' Hc Hc'). apply set_eqb_sym.
Qed.

Lemma cut_eq_compat_l U a a' b : set_eqb a a' = true -> cut_eq U a b = cut_eq U a' b.
Proof.
  intros H. unfold cut_eq. rewrite !(set_eqb_compat_l a a' _ H). reflexivity.
Qed.

Lemma cut_eq_compat_r U a b b' : set_eqb b b' = true -> cut_eq U a b = cut_eq U a b'.
Proof.
  intros H. unfold cut_eq. rewrite (set_eqb_compat_r a b b' H).
  rewrite (set_eqb_compat_r a (other_side U b) (other_side U b')); [reflexivity|].
  apply other_side_compat. exact H.
Qed.

Lemma cut_eq_seteq_U U U' a b : seteq U U' -> cut_eq U a b = cut_eq U' a b.
Proof.
  intros H. unfold cut_eq. f_equal. apply set_eqb_compat_r.
  apply other_side_seteq_U. exact H.
Qed.

Lemma cut_eq_trans U a b c :
  incl a U -> incl b U -> incl c U ->
  cut_eq U a b = true -> cut_eq U b c = true -> cut_eq U a c = true.
Proof.
  intros Ha Hb Hc Hab Hbc.
  apply cut_eq_true_iff in Hab. apply cut_eq_true_iff in Hbc. apply cut_eq_true_iff.
  destruct Hab as [Hab|Hab]; destruct Hbc as [Hbc|Hbc].
  - left. eapply set_eqb_trans; eauto.
  - right. eapply set_eqb_trans; eauto.
  - right. eapply set_eqb_trans; [exact Hab|]. apply other_side_compat. exact Hbc.
  - left. eapply set_eqb_trans; [exact Hab|].
    eapply set_eqb_trans; [apply other_side_compat; exact Hbc|].
    apply other_side_invol. exact Hc.
Qed.

Lemma cut_eq_complement U A B :
  NoDup (A ++ B) -> seteq U (A ++ B) -> cut_eq U A B = true.
Proof.
  intros HN HU. apply cut_eq_true_iff. right. apply set_eqb_true_sym.
  apply other_side_disjoint_union_r; assumption.
Qed.

Lemma cut_eq_other_side U c : incl c U -> cut_eq U c (other_side U c) = true.
Proof.
  intros Hc. apply cut_eq_true_iff. right. apply set_eqb_true_sym.
  apply other_side_invol. exact Hc.
Qed.

Lemma cut_eq_other_side_l U c : cut_eq U (other_side U c) c = true.
Proof. apply cut_eq_true_iff. right. apply set_eqb_refl. Qed.

(** [cut_mem] *)

Lemma cut_mem_ex U L c :
  cut_mem U L c = true <-> exists c', In c' L /\ cut_eq U c c' = true.
Proof. unfold cut_mem. apply existsb_exists. Qed.

Lemma cut_mem_In U L c c' : In c' L -> cut_eq U c c' = true -> cut_mem U L c = true.
Proof. intros Hi He. apply cut_mem_ex. exists c'. auto. Qed.

Lemma cut_mem_self U L c : In c L -> cut_mem U L c = true.
Proof. intros Hi. apply cut_mem_In with c; [exact Hi|apply cut_eq_refl]. Qed.

Lemma cut_mem_app U L1 L2 c : cut_mem U (L1 ++ L2) c = cut_mem U L1 c || cut_mem U L2 c.
Proof. unfold cut_mem. apply existsb_app. Qed.

Lemma cut_mem_cons U x L c : cut_mem U (x :: L) c = cut_eq U c x || cut_mem U L c.
Proof. reflexivity. Qed.

Lemma cut_mem_nil U c : cut_mem U [] c = false.
Proof. reflexivity. Qed.

Lemma cut_mem_compat U L c d : set_eqb c d = true -> cut_mem U L c = cut_mem U L d.
Proof.
  intros H. unfold cut_mem. apply existsb_ext_in. intros x _.
  apply cut_eq_compat_l. exact H.
Qed.

Lemma cut_mem_seteq_U U U' L c : seteq U U' -> cut_mem U L c = cut_mem U' L c.
Proof.
  intros H. unfold cut_mem. apply existsb_ext_in. intros x _.
  apply cut_eq_seteq_U. exact H.
Qed.

Lemma cut_mem_incl U L1 L2 c : incl L1 L2 -> cut_mem U L1 c = true -> cut_mem U L2 c = true.
Proof.
  intros Hi H. apply cut_mem_ex in H. destruct H as (c' & Hc' & He).
  apply cut_mem_In with c'; [apply Hi; exact Hc'|exact He].
Qed.

(* ------------------------------------------------------------------ *)
(** * (3) [nontrivial] *)

Lemma two_in_iff U c :
  two_in U c = true <->
  exists a b, In a U /\ In b U /\ a <> b /\ In a c /\ In b c.
Proof.
  unfold two_in. rewrite existsb_exists. split.
  - intros (a & Ha & H). apply existsb_exists in H. destruct H as (b & Hb & H).
    rewrite !andb_true_iff, negb_true_iff, !memb_In in H. destruct H as [[Hne Hac] Hbc].
    exists a, b. repeat split; try assumption.
    intros ->. rewrite str_eqb_refl in Hne. discriminate.
  - intros (a & b & Ha & Hb & Hne & Hac & Hbc). exists a. split; [exact Ha|].
    apply existsb_exists. exists b. split; [exact Hb|].
    rewrite !andb_true_iff, negb_true_iff, !memb_In. repeat split; try assumption.
    destruct (str_eqb a b) eqn:E; [|reflexivity]. apply str_eqb_eq in E. contradiction.
Qed.

Lemma two_out_iff U c :
  two_out U c = true <->
  exists a b, In a U /\ In b U /\ a <> b /\ ~ In a c /\ ~ In b c.
Proof.
  unfold two_out. rewrite existsb_exists. split.
  - intros (a & Ha & H). apply existsb_exists in H. destruct H as (b & Hb & H).
    rewrite !andb_true_iff, !negb_true_iff, !memb_false_In in H. destruct H as [[Hne Hac] Hbc].
    exists a, b. repeat split; try assumption.
    intros ->. rewrite str_eqb_refl in Hne. discriminate.
  - intros (a & b & Ha & Hb & Hne & Hac & Hbc). exists a. split; [exact Ha|].
    apply existsb_exists. exists b. split; [exact Hb|].
    rewrite !andb_true_iff, !negb_true_iff, !memb_false_In. repeat split; try assumption.
    destruct (str_eqb a b) eqn:E; [|reflexivity]. apply str_eqb_eq in E. contradiction.
Qed.

Lemma nontrivial_iff U c :
  nontrivial U c = true <->
  (exists a b, In a U /\ In b U /\ a <> b /\ In a c /\ In b c) /\
  (exists a b, In a U /\ In b U /\ a <> b /\ ~ In a c /\ ~ In b c).
Proof. unfold nontrivial. rewrite andb_true_iff, two_in_iff, two_out_iff. reflexivity. Qed.

(** the general congruence: only membership of tips of [U] matters *)
Lemma two_in_ext U U' c d :
  seteq U U' -> (forall x, In x U -> (In x c <-> In x d)) -> two_in U c = two_in U' d.
Proof.
  intros HU H. apply bool_eq_iff. rewrite !two_in_iff. split.
  - intros (a & b & Ha & Hb & Hne & Hac & Hbc). exists a, b.
    repeat split; try (apply HU; assumption); try assumption; apply H; assumption.
  - intros (a & b & Ha & Hb & Hne & Hac & Hbc). apply HU in Ha. apply HU in Hb. exists a, b.
    repeat split; try assumption; apply H; assumption.
Qed.

Lemma two_out_ext U U' c d :
  seteq U U' -> (forall x, In x U -> (In x c <-> In x d)) -> two_out U c = two_out U' d.
Proof.
  intros HU H. apply bool_eq_iff. rewrite !two_out_iff. split.
  - intros (a & b & Ha & Hb & Hne & Hac & Hbc). exists a, b.
    repeat split; try (apply HU; assumption); try assumption.
    + intros Hx. apply Hac. apply H; assumption.
    + intros Hx. apply Hbc. apply H; assumption.
  - intros (a & b & Ha & Hb & Hne & Hac & Hbc). apply HU in Ha. apply HU in Hb. exists a, b.
    repeat split; try assumption.
    + intros Hx. apply Hac. apply H; assumption.
    + intros Hx. apply Hbc. apply H; assumption.
Qed.

Lemma nontrivial_ext U U' c d :
  seteq U U' -> (forall x, In x U -> (In x c <-> In x d)) -> nontrivial U c = nontrivial U' d.
Proof.
  intros HU H. unfold nontrivial.
  rewrite (two_in_ext U U' c d HU H), (two_out_ext U U' c d HU H). reflexivity.
Qed.

Lemma nontrivial_compat U c d : set_eqb c d = true -> nontrivial U c = nontrivial U d.
Proof.
  intros H. apply set_eqb_iff in H. apply nontrivial_ext; [apply seteq_refl|].
  intros x _. apply H.
Qed.

Lemma nontrivial_seteq_U U U' c : seteq U U' -> nontrivial U c = nontrivial U' c.
Proof. intros H. apply nontrivial_ext; [exact H|]. intros x _. reflexivity. Qed.

Lemma two_in_other_side U c : two_in U (other_side U c) = two_out U c.
Proof.
  apply bool_eq_iff. rewrite two_in_iff, two_out_iff. split.
  - intros (a & b & Ha & Hb & Hne & Hac & Hbc).
    apply other_side_In in Hac. apply other_side_In in Hbc.
    exists a, b. tauto.
  - intros (a & b & Ha & Hb & Hne & Hac & Hbc). exists a, b.
    rewrite !other_side_In. tauto.
Qed.

Lemma two_out_other_side U c : two_out U (other_side U c) = two_in U c.
Proof.
  apply bool_eq_iff. rewrite two_in_iff, two_out_iff. split.
  - intros (a & b & Ha & Hb & Hne & Hac & Hbc).
    rewrite other_side_In in Hac, Hbc.
    exists a, b. repeat split; try assumption.
    + destruct (in_name_dec a c) as [Hx|Hx]; [exact Hx|]. exfalso. tauto.
    + destruct (in_name_dec b c) as [Hx|Hx]; [exact Hx|]. exfalso. tauto.
  - intros (a & b & Ha & Hb & Hne & Hac & Hbc). exists a, b.
    rewrite !other_side_In. tauto.
Qed.

Lemma nontrivial_other_side U c : nontrivial U (other_side U c) = nontrivial U c.
Proof.
  unfold nontrivial. rewrite two_in_other_side, two_out_other_side. apply andb_comm.
Qed.

Lemma nontrivial_cut_eq U c c' : cut_eq U c c' = true -> nontrivial U c = nontrivial U c'.
Proof.
  intros H. apply cut_eq_true_iff in H. destruct H as [H|H].
  - apply nontrivial_compat. exact H.
  - rewrite (nontrivial_compat U c _ H). apply nontrivial_other_side.
Qed.

Lemma nontrivial_restrict_U U c :
  nontrivial U (filter (fun x => memb x U) c) = nontrivial U c.
Proof.
  apply nontrivial_ext; [apply seteq_refl|].
  intros x Hx. rewrite filter_In, memb_In. tauto.
Qed.

Lemma trivial_full U c : incl U c -> nontrivial U c = false.
Proof.
  intros H. destruct (nontrivial U c) eqn:E; [|reflexivity].
  apply nontrivial_iff in E. destruct E as [_ (a & b & Ha & Hb & Hne & Hac & Hbc)].
  exfalso. apply Hac. apply H. exact Ha.
Qed.

Lemma trivial_single U x : nontrivial U [x] = false.
Proof.
  destruct (nontrivial U [x]) eqn:E; [|reflexivity].
  apply nontrivial_iff in E. destruct E as [(a & b & Ha & Hb & Hne & Hac & Hbc) _].
  exfalso. simpl in Hac, Hbc. destruct Hac as [<-|[]]. destruct Hbc as [<-|[]].
  apply Hne. reflexivity.
Qed.

Lemma trivial_nil U : nontrivial U [] = false.
Proof.
  destruct (nontrivial U []) eqn:E; [|reflexivity].
  apply nontrivial_iff in E. destruct E as [(a & b & Ha & Hb & Hne & Hac & Hbc) _].
  destruct Hac.
Qed.

(** a cut missing at most the complement of one tip is trivial too *)
Lemma trivial_other_side_single U x : nontrivial U (other_side U [x]) = false.
Proof. rewrite nontrivial_other_side. apply trivial_single. Qed.

(* ------------------------------------------------------------------ *)
(** * (4) [splits_incl] / [splits_eq] *)

Definition inU (U : list name) (L : list (list name)) : Prop := Forall (fun c => incl c U) L.

Lemma inU_In U L c : inU U L -> In c L -> incl c U.
Proof. intros H Hc. unfold inU in H. rewrite Forall_forall in H. apply H. exact Hc. Qed.

Lemma inU_app U L1 L2 : inU U (L1 ++ L2) <-> inU U L1 /\ inU U L2.
Proof. unfold inU. apply Forall_app. Qed.

Lemma inU_seteq_U U U' L : seteq U U' -> inU U L -> inU U' L.
Proof.
  intros HU H. unfold inU in *. rewrite Forall_forall in *. intros c Hc.
  apply seteq_incl_r with U; [exact HU|apply H; exact Hc].
Qed.

Lemma inU_weaken U U' L : incl U U' -> inU U L -> inU U' L.
Proof.
  intros HU H. unfold inU in *. rewrite Forall_forall in *. intros c Hc x Hx.
  apply HU. apply (H c Hc). exact Hx.
Qed.

Lemma splits_incl_refl U L : splits_incl U L L.
Proof. intros c Hc _. apply cut_mem_self. exact Hc. Qed.

Lemma splits_incl_trans U L1 L2 L3 :
  inU U L1 -> inU U L2 -> inU U L3 ->
  splits_incl U L1 L2 -> splits_incl U L2 L3 -> splits_incl U L1 L3.
Proof.
  intros H1 H2 H3 H12 H23 c Hc Hnt.
  pose proof (H12 c Hc Hnt) as Hm. apply cut_mem_ex in Hm. destruct Hm as (c2 & Hc2 & He12).
  assert (Hnt2 : nontrivial U c2 = true).
  { rewrite <- (nontrivial_cut_eq U c c2 He12). exact Hnt. }
  pose proof (H23 c2 Hc2 Hnt2) as Hm. apply cut_mem_ex in Hm. destruct Hm as (c3 & Hc3 & He23).
  apply cut_mem_In with c3; [exact Hc3|].
  apply cut_eq_trans with c2; try assumption.
  - apply inU_In with L1; assumption.
  - apply inU_In with L2; assumption.
  - apply inU_In with L3; assumption.
Qed.

Lemma splits_incl_app_l U A B L :
  splits_incl U A L -> splits_incl U B L -> splits_incl U (A ++ B) L.
Proof.
  intros HA HB c Hc Hnt. apply in_app_or in Hc. destruct Hc as [Hc|Hc].
  - apply HA; assumption.
  - apply HB; assumption.
Qed.

Lemma splits_incl_app_r1 U A L1 L2 : splits_incl U A L1 -> splits_incl U A (L1 ++ L2).
Proof.
  intros H c Hc Hnt. rewrite cut_mem_app. rewrite (H c Hc Hnt). reflexivity.
Qed.

Lemma splits_incl_app_r2 U A L1 L2 : splits_incl U A L2 -> splits_incl U A (L1 ++ L2).
Proof.
  intros H c Hc Hnt. rewrite cut_mem_app. rewrite (H c Hc Hnt). apply orb_true_r.
Qed.

Lemma splits_incl_incl U L1 L2 : incl L1 L2 -> splits_incl U L1 L2.
Proof. intros H c Hc _. apply cut_mem_self. apply H. exact Hc. Qed.

Lemma splits_incl_perm U L1 L2 : Permutation L1 L2 -> splits_incl U L1 L2.
Proof.
  intros HP. apply splits_incl_incl. intros c Hc. eapply Permutation_in; eauto.
Qed.

Lemma splits_incl_seteq_U U U' L1 L2 :
  seteq U U' -> splits_incl U L1 L2 -> splits_incl U' L1 L2.
Proof.
  intros HU H c Hc Hnt.
  rewrite <- (cut_mem_seteq_U U U' L2 c HU). apply H; [exact Hc|].
  rewrite (nontrivial_seteq_U U U' c HU). exact Hnt.
Qed.

Lemma splits_incl_nil U L : splits_incl U [] L.
Proof. intros c []. Qed.

Lemma splits_incl_cons_trivial U c L1 L2 :
  nontrivial U c = false -> splits_incl U L1 L2 -> splits_incl U (c :: L1) L2.
Proof.
  intros Ht H d Hd Hnt. destruct Hd as [<-|Hd].
  - rewrite Ht in Hnt. discriminate.
  - apply H; assumption.
Qed.

Lemma splits_incl_cons_mem U c L1 L2 :
  cut_mem U L2 c = true -> splits_incl U L1 L2 -> splits_incl U (c :: L1) L2.
Proof.
  intros Hm H d Hd Hnt. destruct Hd as [<-|Hd].
  - exact Hm.
  - apply H; assumption.
Qed.

Lemma splits_incl_cons_inv U c L1 L2 : splits_incl U (c :: L1) L2 -> splits_incl U L1 L2.
Proof. intros H d Hd Hnt. apply H; [right; exact Hd|exact Hnt]. Qed.

Lemma splits_incl_app U A A' B B' :
  splits_incl U A A' -> splits_incl U B B' -> splits_incl U (A ++ B) (A' ++ B').
Proof.
  intros HA HB. apply splits_incl_app_l.
  - apply splits_incl_app_r1. exact HA.
  - apply splits_incl_app_r2. exact HB.
Qed.

Lemma splits_eq_refl U L : splits_eq U L L.
Proof. split; apply splits_incl_refl. Qed.

Lemma splits_eq_sym U L1 L2 : splits_eq U L1 L2 -> splits_eq U L2 L1.
Proof. intros [H1 H2]. split; assumption. Qed.

Lemma splits_eq_trans U L1 L2 L3 :
  inU U L1 -> inU U L2 -> inU U L3 ->
  splits_eq U L1 L2 -> splits_eq U L2 L3 -> splits_eq U L1 L3.
Proof.
  intros H1 H2 H3 [H12 H21] [H23 H32]. split.
  - apply splits_incl_trans with L2; assumption.
  - apply splits_incl_trans with L2; assumption.
Qed.

Lemma splits_eq_perm U L1 L2 : Permutation L1 L2 -> splits_eq U L1 L2.
Proof.
  intros HP. split; apply splits_incl_perm; [exact HP|apply Permutation_sym; exact HP].
Qed.

Lemma splits_eq_app U A A' B B' :
  splits_eq U A A' -> splits_eq U B B' -> splits_eq U (A ++ B) (A' ++ B').
Proof.
  intros [HA HA'] [HB HB']. split; apply splits_incl_app; assumption.
Qed.

Lemma splits_eq_seteq_U U U' L1 L2 : seteq U U' -> splits_eq U L1 L2 -> splits_eq U' L1 L2.
Proof.
  intros HU [H1 H2]. split; apply splits_incl_seteq_U with U; assumption.
Qed.

Lemma Forall2_In_l {A B} (R : A -> B -> Prop) L L' c :
  Forall2 R L L' -> In c L -> exists c', In c' L' /\ R c c'.
Proof.
  intros H. induction H as [|x y L L' Hxy H IH]; intros Hc; simpl in *; [contradiction|].
  destruct Hc as [<-|Hc].
  - exists y. auto.
  - destruct (IH Hc) as (c' & Hc' & HR). exists c'. auto.
Qed.

Lemma Forall2_In_r {A B} (R : A -> B -> Prop) L L' c' :
  Forall2 R L L' -> In c' L' -> exists c, In c L /\ R c c'.
Proof.
  intros H. induction H as [|x y L L' Hxy H IH]; intros Hc; simpl in *; [contradiction|].
  destruct Hc as [<-|Hc].
  - exists x. auto.
  - destruct (IH Hc) as (c & Hc0 & HR). exists c. auto.
Qed.

Lemma splits_eq_pointwise U L L' :
  Forall2 (fun c c' => set_eqb c c' = true) L L' -> splits_eq U L L'.
Proof.
  intros H. split; intros c Hc _.
  - destruct (Forall2_In_l _ _ _ _ H Hc) as (c' & Hc' & He).
    apply cut_mem_In with c'; [exact Hc'|apply cut_eq_of_set_eqb; exact He].
  - destruct (Forall2_In_r _ _ _ _ H Hc) as (c' & Hc' & He).
    apply cut_mem_In with c'; [exact Hc'|apply cut_eq_of_set_eqb].
    apply set_eqb_true_sym. exact He.
Qed.

(* ------------------------------------------------------------------ *)
(** * (5) [cuts] *)

Lemma cuts_node n l cs : cuts (Node n l cs) = cuts_of cs.
Proof. reflexivity. Qed.

Lemma cuts_kids t : cuts t = cuts_of (kids t).
Proof. destruct t; reflexivity. Qed.

Lemma cuts_of_app a b : cuts_of (a ++ b) = cuts_of a ++ cuts_of b.
Proof. unfold cuts_of. apply flat_map_app. Qed.

Lemma cuts_of_cons c cs : cuts_of (c :: cs) = tips c :: cuts c ++ cuts_of cs.
Proof. reflexivity. Qed.

Lemma cuts_of_nil : cuts_of [] = [].
Proof. reflexivity. Qed.

Lemma cuts_of_perm a b : Permutation a b -> Permutation (cuts_of a) (cuts_of b).
Proof.
  intros HP. induction HP as [|x a b HP IH|x y a|a b c H1 IH1 H2 IH2].
  - apply Permutation_refl.
  - rewrite !cuts_of_cons. apply perm_skip. apply Permutation_app_head. exact IH.
  - rewrite !cuts_of_cons.
    change (Permutation ((tips y :: cuts y) ++ (tips x :: cuts x) ++ cuts_of a)
                        ((tips x :: cuts x) ++ (tips y :: cuts y) ++ cuts_of a)).
    rewrite !app_assoc. apply Permutation_app_tail. apply Permutation_app_comm.
  - eapply Permutation_trans; eauto.
Qed.

Lemma tips_of_perm a b : Permutation a b -> Permutation (tips_of a) (tips_of b).
Proof.
  intros HP. induction HP as [|x a b HP IH|x y a|a b c H1 IH1 H2 IH2].
  - apply Permutation_refl.
  - rewrite !tips_of_cons. apply Permutation_app_head. exact IH.
  - rewrite !tips_of_cons. rewrite !app_assoc. apply Permutation_app_tail. apply Permutation_app_comm.
  - eapply Permutation_trans; eauto.
Qed.

Lemma cuts_of_incl_aux cs :
  Forall (fun t => inU (tips t) (cuts t)) cs -> inU (tips_of cs) (cuts_of cs).
Proof.
  induction cs as [|c cs IH]; intros H.
  - constructor.
  - inversion H as [|? ? Hc Hcs]; subst. rewrite cuts_of_cons, tips_of_cons.
    constructor.
    + apply incl_appl. apply incl_refl.
    + apply inU_app. split.
      * apply inU_weaken with (tips c); [apply incl_appl; apply incl_refl|exact Hc].
      * apply inU_weaken with (tips_of cs); [apply incl_appr; apply incl_refl|apply IH; exact Hcs].
Qed.

Lemma cuts_incl t : Forall (fun c => incl c (tips t)) (cuts t).
Proof.
  induction t as [n l cs IH] using tree_ind'.
  destruct cs as [|c cs].
  - constructor.
  - rewrite cuts_node. rewrite tips_node by discriminate.
    apply cuts_of_incl_aux. exact IH.
Qed.

Lemma cuts_of_incl cs : Forall (fun c => incl c (tips_of cs)) (cuts_of cs).
Proof.
  apply cuts_of_incl_aux. apply Forall_forall. intros t _. apply cuts_incl.
Qed.

Lemma cuts_inU t : inU (tips t) (cuts t).
Proof. apply cuts_incl. Qed.

Lemma cuts_relabel n l n' l' cs : cuts (Node n l cs) = cuts (Node n' l' cs).
Proof. reflexivity. Qed.

(* ------------------------------------------------------------------ *)
(** * (6) [same_topology] *)

Lemma same_topology_refl t : same_topology t t.
Proof. apply splits_eq_refl. Qed.

Lemma same_topology_sym t1 t2 :
  seteq (tips t1) (tips t2) -> same_topology t1 t2 -> same_topology t2 t1.
Proof.
  intros HU H. unfold same_topology in *.
  apply splits_eq_seteq_U with (tips t1); [exact HU|]. apply splits_eq_sym. exact H.
Qed.

Lemma same_topology_trans t1 t2 t3 :
  seteq (tips t1) (tips t2) -> seteq (tips t2) (tips t3) ->
  same_topology t1 t2 -> same_topology t2 t3 -> same_topology t1 t3.
Proof.
  intros H12 H23 S12 S23. unfold same_topology in *.
  apply splits_eq_trans with (cuts t2).
  - apply cuts_inU.
  - apply inU_seteq_U with (tips t2); [apply seteq_sym; exact H12|apply cuts_inU].
  - apply inU_seteq_U with (tips t3); [|apply cuts_inU].
    apply seteq_sym. apply seteq_trans with (tips t2); assumption.
  - exact S12.
  - apply splits_eq_seteq_U with (tips t2); [apply seteq_sym; exact H12|exact S23].
Qed.
