(** C18 — the whole linear-space recursion (model [hirsch]) returns the optimal
    score of the full dynamic programme and a path with that score, for every
    score table and every pair of sequences, by induction on the fuel. *)
From CG3 Require Import Lib.PyZ Lib.Val Lib.MaxPlus Model.PairAlign Spec.AlignSpec Spec.AlignFwdSpec
  Model.Hirschberg Proofs.AlignProofs Proofs.AlignLocalProofs Proofs.AlignFwdProofs Proofs.HirschbergProofs.

(** ------------------------------------------------------------------ scores under the modified tables *)

Lemma rscore_with_end P s : forall q rx ry, rscore (with_end P s) false q rx ry = rscore P false q rx ry.
Proof.
  induction q as [|s1 q IH]; intros rx ry; [reflexivity|].
  destruct s1; cbn [rscore]; try reflexivity.
  - destruct rx; [reflexivity|]. rewrite IH. reflexivity.
  - destruct ry; [reflexivity|]. rewrite IH. reflexivity.
  - destruct rx; [reflexivity|]. destruct ry; [reflexivity|]. rewrite IH. reflexivity.
Qed.

Lemma fscore_with_begin_nonSB P s : forall p prev xs ys, prev <> SB ->
  fscore (with_begin P s) prev p xs ys = fscore P prev p xs ys.
Proof.
  induction p as [|s1 p IH]; intros prev xs ys Hp.
  - cbn [fscore]. destruct xs, ys; try reflexivity. destruct prev; try reflexivity. congruence.
  - destruct s1; cbn [fscore]; try reflexivity.
    + destruct xs; [reflexivity|]. rewrite IH by discriminate. destruct prev; try reflexivity. congruence.
    + destruct ys; [reflexivity|]. rewrite IH by discriminate. destruct prev; try reflexivity. congruence.
    + destruct xs; [reflexivity|]. destruct ys; [reflexivity|]. rewrite IH by discriminate. destruct prev; try reflexivity. congruence.
Qed.

Lemma fscore_with_begin P s p xs ys : fscore (with_begin P s) SB p xs ys = fscore P s p xs ys.
Proof.
  destruct p as [|s1 p]; cbn [fscore].
  - destruct xs, ys; reflexivity.
  - destruct s1; try reflexivity.
    + destruct xs; [reflexivity|]. rewrite fscore_with_begin_nonSB by discriminate. reflexivity.
    + destruct ys; [reflexivity|]. rewrite fscore_with_begin_nonSB by discriminate. reflexivity.
    + destruct xs; [reflexivity|]. destruct ys; [reflexivity|]. rewrite fscore_with_begin_nonSB by discriminate. reflexivity.
Qed.

(** ------------------------------------------------------------------ backward values: attained and maximal *)

Lemma bwd_ge P xs ys k j s p2 :
  (k <= length xs)%nat -> (j <= length ys)%nat ->
  ele (fscore P s p2 (skipn k xs) (skipn j ys)) (bwd_val P xs ys k j s).
Proof.
  intros Hk Hj. rewrite fscore_mirror, bwd_val_unfold.
  destruct (emaxl_spec (map (fun prev => eplus (fst (cget (cell_at (table (mirror P) false (rev xs) (rev ys)) (length xs - k) (length ys - j)) prev))
                                                (trans_to P s prev)) source_states)) as (Hall & _).
  eapply ele_trans; [| apply Hall; apply in_map_iff; exists (prev_of p2); split; [reflexivity | apply all_states]].
  rewrite (eplus_comm (fst _)). apply eplus_mono_r.
  apply (cell_opt_R (mirror P) _ _ _ p2 (back_cell_OK P xs ys k j Hk Hj)).
Qed.

Lemma bwd_att P xs ys k j s b :
  (k <= length xs)%nat -> (j <= length ys)%nat -> bwd_val P xs ys k j s = Some b ->
  exists p2, fscore P s p2 (skipn k xs) (skipn j ys) = Some b.
Proof.
  intros Hk Hj Hb. rewrite bwd_val_unfold in Hb.
  destruct (emaxl_spec (map (fun prev => eplus (fst (cget (cell_at (table (mirror P) false (rev xs) (rev ys)) (length xs - k) (length ys - j)) prev))
                                                (trans_to P s prev)) source_states)) as (_ & [Hn | Hin]).
  { rewrite Hn in Hb. discriminate. }
  rewrite Hb in Hin. apply in_map_iff in Hin. destruct Hin as (prev & Hprev & _).
  apply eplus_some_inv in Hprev. destruct Hprev as (w & t & Hw & Ht & Eb).
  destruct (cell_att _ _ _ _ (back_cell_OK P xs ys k j Hk Hj) Hw) as (p2 & Hp2 & Hprev2).
  exists p2. rewrite fscore_mirror, Hprev2. unfold R in Hp2. rewrite Hp2, Ht. cbn. f_equal. lia.
Qed.

(** ------------------------------------------------------------------ the two sub-problems *)

Lemma left_opt P xs ys k j s :
  (k <= length xs)%nat -> (j <= length ys)%nat ->
  fst (align_global (with_end P s) (firstn k xs) (firstn j ys)) = fwd_val P xs ys k j s.
Proof.
  intros Hk Hj.
  pose proof (cell_at_OK P false xs ys k j Hk Hj) as Hcell.
  destruct (align_global_sound (with_end P s) (firstn k xs) (firstn j ys)) as (Hatt & Hopt).
  apply ele_antisym.
  - destruct (fst (align_global (with_end P s) (firstn k xs) (firstn j ys))) as [z|] eqn:E; [|exact I].
    specialize (Hatt z eq_refl). unfold gscore in Hatt. rewrite rscore_with_end in Hatt.
    apply eplus_some_inv in Hatt. destruct Hatt as (t & r0 & Ht & Hr & ->).
    cbn [te with_end] in Ht.
    set (q := rev (snd (align_global (with_end P s) (firstn k xs) (firstn j ys)))) in *.
    destruct (st_eqb (prev_of q) s) eqn:Es; [|discriminate]. injection Ht as <-.
    assert (Eq : prev_of q = s) by (destruct (prev_of q), s; try discriminate; reflexivity).
    pose proof (cell_opt_R P _ _ _ q Hcell) as H. unfold R in H at 1. rewrite Hr, Eq in H.
    unfold fwd_val, fwd_of. replace (0 + r0) with r0 by lia. exact H.
  - unfold fwd_val, fwd_of. destruct (fst (cget (cell_at (table P false xs ys) k j) s)) as [f|] eqn:Ef; [|exact I].
    destruct (cell_att _ _ _ _ Hcell Ef) as (q0 & Hq0 & Hs).
    specialize (Hopt q0). unfold gscore in Hopt. rewrite rscore_with_end in Hopt. unfold R in Hq0. rewrite Hq0 in Hopt.
    cbn [te with_end] in Hopt. rewrite Hs in Hopt.
    replace (st_eqb s s) with true in Hopt by (destruct s; reflexivity). cbn [eplus] in Hopt.
    replace (0 + f) with f in Hopt by lia. exact Hopt.
Qed.

Lemma right_opt P xs ys k j s :
  (k <= length xs)%nat -> (j <= length ys)%nat ->
  fst (align_global (with_begin P s) (skipn k xs) (skipn j ys)) = bwd_val P xs ys k j s.
Proof.
  intros Hk Hj. apply ele_antisym.
  - destruct (align_global (with_begin P s) (skipn k xs) (skipn j ys)) as [v p] eqn:E. cbn [fst].
    destruct v as [z|]; [|exact I].
    destruct (global_forward _ _ _ _ _ E) as (Hs & _). rewrite fscore_with_begin in Hs.
    rewrite <- Hs. apply bwd_ge; assumption.
  - destruct (bwd_val P xs ys k j s) as [b|] eqn:Eb; [|exact I].
    destruct (bwd_att P xs ys k j s b Hk Hj Eb) as (p2 & Hp2).
    rewrite <- Hp2, <- fscore_with_begin, fscore_is_gscore. apply global_alignment_optimal.
Qed.

(** ------------------------------------------------------------------ the first maximal entry of the middle row *)

Lemma argfold_spec (l : list (nat * st * ez)) : forall init,
  let r := fold_left (fun best c => if egtb (snd c) (snd best) then c else best) l init in
  (r = init \/ In r l) /\ ele (snd init) (snd r) /\ (forall c, In c l -> ele (snd c) (snd r)).
Proof.
  induction l as [|c l IH]; intros init; cbn [fold_left].
  - split; [left; reflexivity|]. split; [apply ele_refl | intros c []].
  - destruct (egtb (snd c) (snd init)) eqn:E.
    + destruct (IH c) as (Hin & Hge & Hall). apply egtb_true in E. destruct E as [E _].
      split; [|split].
      * destruct Hin as [-> | Hin]; [right; left; reflexivity | right; right; exact Hin].
      * eapply ele_trans; eauto.
      * intros c' [<- | Hc']; auto.
    + destruct (IH init) as (Hin & Hge & Hall). apply egtb_false in E.
      split; [|split].
      * destruct Hin as [-> | Hin]; [left; reflexivity | right; right; exact Hin].
      * exact Hge.
      * intros c' [<- | Hc']; auto. eapply ele_trans; eauto.
Qed.

Lemma argmax_spec l :
  let r := argmax_first l in
  (r = (0%nat, SB, None) \/ In r l) /\ (forall c, In c l -> ele (snd c) (snd r)).
Proof. unfold argmax_first. destruct (argfold_spec l (0%nat, SB, None)) as (H1 & _ & H3). split; assumption. Qed.

Lemma In_middle_idx P xs ys k j s v :
  In (j, s, v) (middle_idx P xs ys k) <->
  (j <= length ys)%nat /\ v = eplus (fwd_val P xs ys k j s) (bwd_val P xs ys k j s).
Proof.
  unfold middle_idx. cbv zeta. rewrite in_flat_map. split.
  - intros (j' & Hj & Hin). apply in_seq in Hj. apply in_map_iff in Hin. destruct Hin as (s' & E & _).
    injection E as -> -> <-. split; [lia | reflexivity].
  - intros (Hj & ->). exists j. split; [apply in_seq; lia|]. apply in_map_iff. exists s. split; [reflexivity | apply all_states].
Qed.

(** ------------------------------------------------------------------ the recursion *)

Theorem hirsch_correct : forall fuel P xs ys,
  (length xs < fuel)%nat ->
  fst (hirsch fuel P xs ys) = fst (align_global P xs ys) /\
  (forall z, fst (hirsch fuel P xs ys) = Some z -> fscore P SB (snd (hirsch fuel P xs ys)) xs ys = Some z).
Proof.
  induction fuel as [|fuel IH]; intros P xs ys Hf; [lia|].
  cbn [hirsch]. destruct (length xs <? 3)%nat eqn:E3.
  - split; [reflexivity|]. intros z Hz.
    destruct (align_global P xs ys) as [v p] eqn:E. cbn [fst snd] in *. subst v.
    apply (global_forward _ _ _ _ _ E).
  - apply Nat.ltb_ge in E3.
    set (k := Nat.div (length xs) 2).
    assert (Hk : (1 <= k /\ k < length xs)%nat).
    { unfold k. split; [apply (Nat.div_le_lower_bound _ 2 1); lia | apply Nat.div_lt; lia]. }
    destruct (argmax_spec (middle_idx P xs ys k)) as (Hin & Hall).
    destruct (argmax_first (middle_idx P xs ys k)) as [[j s] v] eqn:Ea. cbn [snd] in Hall.
    (* the reported value is the optimum *)
    assert (Hv : v = fst (align_global P xs ys)).
    { apply ele_antisym.
      - destruct Hin as [Hin | Hin]; [injection Hin as _ _ ->; exact I|].
        apply In_middle_idx in Hin. destruct Hin as (Hj & ->).
        destruct (eplus (fwd_val P xs ys k j s) (bwd_val P xs ys k j s)) as [v'|] eqn:Ev; [|exact I].
        destruct (middle_entry_path P xs ys k j s v' ltac:(lia) Hj Ev) as (q0 & p2 & r0 & _ & _ & G).
        rewrite <- G. apply global_alignment_optimal.
      - destruct (align_global P xs ys) as [o p] eqn:Eo. cbn [fst]. destruct o as [z|]; [|exact I].
        destruct (opt_through_row P xs ys k z p ltac:(lia) Eo) as (j' & s' & Hj' & Hle).
        eapply ele_trans; [exact Hle|].
        apply (Hall (j', s', eplus (fwd_val P xs ys k j' s') (bwd_val P xs ys k j' s'))).
        apply In_middle_idx. auto. }
    cbn [fst snd]. split; [exact Hv|].
    intros z Hz.
    destruct Hin as [Hin | Hin]; [injection Hin as _ _ Hn; rewrite Hn in Hz; discriminate|].
    apply In_middle_idx in Hin. destruct Hin as (Hj & Ev). rewrite Hz in Ev. symmetry in Ev.
    apply eplus_some_inv in Ev. destruct Ev as (f & b & Hfv & Hbv & ->).
    (* left half *)
    destruct (IH (with_end P s) (firstn k xs) (firstn j ys)) as (HL1 & HL2).
    { rewrite firstn_length. lia. }
    rewrite (left_opt P xs ys k j s ltac:(lia) Hj), Hfv in HL1. specialize (HL2 f HL1).
    set (pL := snd (hirsch fuel (with_end P s) (firstn k xs) (firstn j ys))) in *.
    (* right half *)
    destruct (IH (with_begin P s) (skipn k xs) (skipn j ys)) as (HR1 & HR2).
    { rewrite skipn_length. lia. }
    rewrite (right_opt P xs ys k j s ltac:(lia) Hj), Hbv in HR1. specialize (HR2 b HR1).
    set (pR := snd (hirsch fuel (with_begin P s) (skipn k xs) (skipn j ys))) in *.
    rewrite fscore_with_begin in HR2.
    (* the left path ends in the anchor state and has the forward score *)
    rewrite fscore_is_gscore in HL2. unfold gscore in HL2. rewrite rscore_with_end in HL2.
    apply eplus_some_inv in HL2. destruct HL2 as (t & r0 & Ht & Hr & Ef).
    cbn [te with_end] in Ht. destruct (st_eqb (prev_of (rev pL)) s) eqn:Es; [|discriminate]. injection Ht as <-.
    assert (Eprev : prev_of (rev pL) = s) by (destruct (prev_of (rev pL)), s; try discriminate; reflexivity).
    (* concatenate *)
    pose proof (fscore_gscore_gen P pR (rev pL) _ _ r0 (skipn k xs) (skipn j ys) Hr) as G.
    rewrite Eprev, HR2 in G.
    rewrite fscore_is_gscore, rev_app_distr.
    replace (rev xs) with (rev (skipn k xs) ++ rev (firstn k xs)) by (rewrite <- rev_app_distr, firstn_skipn; reflexivity).
    replace (rev ys) with (rev (skipn j ys) ++ rev (firstn j ys)) by (rewrite <- rev_app_distr, firstn_skipn; reflexivity).
    rewrite <- G. cbn [eplus]. f_equal. lia.
Qed.

(** with the fuel the model supplies *)
Theorem hirsch_align_correct P xs ys :
  fst (hirsch_align P xs ys) = fst (align_global P xs ys) /\
  (forall z, fst (hirsch_align P xs ys) = Some z -> fscore P SB (snd (hirsch_align P xs ys)) xs ys = Some z).
Proof. unfold hirsch_align. apply hirsch_correct. lia. Qed.
