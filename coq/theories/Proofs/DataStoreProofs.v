(** C13 — the directory data store model (variant [repaired]) refines the
    dictionary specification. *)
From Coq Require Import ZArith List Bool Lia.
From CG3 Require Import Lib.PyZ Lib.Val Lib.Chars Model.DataStore Spec.DataStoreSpec.
From CG3 Require Import Proofs.SqlStoreProofs.   (* list-of-strings lemmas, [splits] *)
Import ListNotations.

(** ------------------------------------------------------------------ strings *)

Lemma startswith_app p s : startswith (p ++ s) p = true.
Proof. induction p as [|c p IH]; cbn; [destruct s; reflexivity|]. now rewrite Z.eqb_refl. Qed.

Lemma skipn_app_len {A} (p s : list A) : skipn (length p) (p ++ s) = s.
Proof. induction p; cbn; auto. Qed.

Lemma endswith_app a b : endswith (a ++ b) b = true.
Proof.
  induction a as [|c a IH]; cbn [app].
  - destruct b; cbn; [reflexivity|]. rewrite Z.eqb_refl, str_eqb_refl. reflexivity.
  - cbn [endswith]. rewrite IH. apply orb_true_r.
Qed.

Lemma endswith_split s b : endswith s b = true -> exists a, s = a ++ b.
Proof.
  induction s as [|c s IH]; cbn [endswith]; intros H.
  - apply orb_true_iff in H. destruct H as [H|H]; [|discriminate].
    apply str_eqb_eq in H. exists []. now subst.
  - apply orb_true_iff in H. destruct H as [H|H].
    + apply str_eqb_eq in H. exists []. now subst.
    + destruct (IH H) as [a ->]. exists (c :: a). reflexivity.
Qed.

Lemma startswith_split s p : startswith s p = true -> exists t, s = p ++ t.
Proof.
  revert s. induction p as [|c p IH]; intros s H; [exists s; reflexivity|].
  destruct s as [|x s]; cbn in H; [discriminate|].
  apply andb_true_iff in H. destruct H as [H1 H2]. apply Z.eqb_eq in H1. subst.
  destruct (IH s H2) as [t ->]. exists t. reflexivity.
Qed.

(** ------------------------------------------------------------------ finite maps *)

Lemma fm_get_insert m k v x :
  fm_get m k = None ->
  fm_get (fm_insert m k v) x = if str_eqb x k then Some v else fm_get m x.
Proof.
  induction m as [|[k' v'] t IH]; cbn [fm_insert fm_get]; intros Hk; [reflexivity|].
  destruct (str_eqb_spec k k') as [->|Hkk]; [discriminate|].
  destruct (str_ltb k k'); cbn [fm_get]; [reflexivity|].
  rewrite (IH Hk). destruct (str_eqb_spec x k') as [->|]; [|reflexivity].
  destruct (str_eqb_spec k' k) as [->|]; [congruence|reflexivity].
Qed.

Lemma fm_get_map_other m k v x :
  x <> k -> fm_get (map (fun p : str * str => if str_eqb (fst p) k then (k, v) else p) m) x = fm_get m x.
Proof.
  intros Hx. induction m as [|[k' v'] t IH]; cbn [map fm_get fst]; [reflexivity|].
  destruct (str_eqb_spec k' k) as [->|Hn]; cbn [fm_get].
  - destruct (str_eqb_spec x k); [contradiction|apply IH].
  - rewrite IH. reflexivity.
Qed.

Lemma fm_get_map_same m k v :
  fm_get m k <> None ->
  fm_get (map (fun p : str * str => if str_eqb (fst p) k then (k, v) else p) m) k = Some v.
Proof.
  induction m as [|[k' v'] t IH]; cbn [map fm_get fst]; [congruence|].
  destruct (str_eqb_spec k k') as [<-|Hn].
  - rewrite str_eqb_refl. cbn [fm_get]. now rewrite str_eqb_refl.
  - intros H. destruct (str_eqb_spec k' k); [congruence|]. cbn [fm_get].
    destruct (str_eqb_spec k k'); [congruence|]. now apply IH.
Qed.

Lemma fm_get_set m k v x :
  fm_get (fm_set m k v) x = if str_eqb x k then Some v else fm_get m x.
Proof.
  unfold fm_set. destruct (fm_mem m k) eqn:M;
    [|apply fm_get_insert; unfold fm_mem in M; destruct (fm_get m k); congruence].
  destruct (str_eqb_spec x k) as [->|Hn].
  - apply fm_get_map_same. unfold fm_mem in M. destruct (fm_get m k); congruence.
  - now apply fm_get_map_other.
Qed.

Lemma fm_get_del m k x :
  fm_get (fm_del m k) x = if str_eqb x k then None else fm_get m x.
Proof.
  unfold fm_del. induction m as [|[k' v'] t IH]; cbn [filter fm_get fst].
  - destruct (str_eqb x k); reflexivity.
  - destruct (str_eqb_spec k' k) as [->|Hn]; cbn [negb fm_get].
    + rewrite IH. destruct (str_eqb_spec x k); reflexivity.
    + rewrite IH. destruct (str_eqb_spec x k') as [->|]; [|reflexivity].
      destruct (str_eqb_spec k' k); [contradiction|reflexivity].
Qed.

Lemma fm_keys_get m x : In x (fm_keys m) <-> fm_get m x <> None.
Proof.
  unfold fm_keys. induction m as [|[k' v'] t IH]; cbn [map In fm_get fst]; [tauto|].
  destruct (str_eqb_spec x k') as [->|Hn].
  - split; [congruence|auto].
  - rewrite <- IH. split; [intros [E|H]; [congruence|assumption]|auto].
Qed.

Lemma fm_mem_get m x : fm_mem m x = true <-> fm_get m x <> None.
Proof. unfold fm_mem. destruct (fm_get m x); split; congruence. Qed.

Lemma fm_keys_insert m k v x : In x (fm_keys (fm_insert m k v)) <-> x = k \/ In x (fm_keys m).
Proof.
  unfold fm_keys. induction m as [|[k' v'] t IH]; cbn [fm_insert map In fst]; [intuition|].
  destruct (str_ltb k k'); cbn [map In fst]; [intuition|]. rewrite IH. intuition.
Qed.

Lemma NoDup_insert_keys m k v :
  NoDup (fm_keys m) -> ~ In k (fm_keys m) -> NoDup (fm_keys (fm_insert m k v)).
Proof.
  unfold fm_keys. induction m as [|[k' v'] t IH]; cbn [fm_insert map fst]; intros Hnd Hk.
  - constructor; [intros []|constructor].
  - destruct (str_ltb k k'); cbn [map fst].
    + constructor; assumption.
    + inversion Hnd; subst. constructor.
      * intros Hin. apply (fm_keys_insert t k v k') in Hin. destruct Hin as [->|Hin]; [apply Hk; now left|contradiction].
      * apply IH; [assumption|]. intros Hin. apply Hk. now right.
Qed.

Lemma fm_keys_set_present m k v :
  fm_mem m k = true -> fm_keys (fm_set m k v) = fm_keys m.
Proof.
  intros M. unfold fm_set. rewrite M. unfold fm_keys. rewrite map_map.
  apply map_ext_in. intros [k' v'] _. cbn [fst]. destruct (str_eqb_spec k' k); cbn; congruence.
Qed.

Lemma NoDup_set_keys m k v : NoDup (fm_keys m) -> NoDup (fm_keys (fm_set m k v)).
Proof.
  intros Hnd. destruct (fm_mem m k) eqn:M.
  - now rewrite fm_keys_set_present.
  - unfold fm_set. rewrite M. apply NoDup_insert_keys; [assumption|].
    rewrite fm_keys_get. unfold fm_mem in M. destruct (fm_get m k); congruence.
Qed.

Lemma NoDup_del_keys m k : NoDup (fm_keys m) -> NoDup (fm_keys (fm_del m k)).
Proof.
  unfold fm_keys, fm_del. induction m as [|[k' v'] t IH]; cbn [filter map fst]; intros Hnd; [constructor|].
  inversion Hnd; subst. destruct (negb (str_eqb k' k)); cbn [map fst]; [|auto].
  constructor; [|auto]. intros Hin. apply in_map_iff in Hin. destruct Hin as [[a b] [E Hin]].
  apply filter_In in Hin. cbn in E. subst. apply H1. apply in_map_iff. exists (k', b). tauto.
Qed.

Lemma fm_keys_set m k v x : In x (fm_keys (fm_set m k v)) <-> x = k \/ In x (fm_keys m).
Proof.
  rewrite !fm_keys_get, fm_get_set. destruct (str_eqb_spec x k) as [->|Hn].
  - split; [auto|congruence].
  - split; [auto|intros [?|?]; [contradiction|assumption]].
Qed.

Lemma fm_keys_del m k x : In x (fm_keys (fm_del m k)) <-> In x (fm_keys m) /\ x <> k.
Proof.
  rewrite !fm_keys_get, fm_get_del. destruct (str_eqb_spec x k) as [->|Hn]; split; try tauto; congruence.
Qed.

Lemma fm_empty_of_no_keys (m : fmap) : (forall x, ~ In x (fm_keys m)) -> m = [].
Proof. destruct m as [|[k v] t]; [reflexivity|]. intros H. exfalso. apply (H k). now left. Qed.

Lemma NoDup_map_inj {A B} (f : A -> B) l :
  (forall a b, f a = f b -> a = b) -> NoDup l -> NoDup (map f l).
Proof.
  intros Hf Hnd. induction Hnd as [|a l Ha Hl IH]; cbn; constructor; [|assumption].
  intros Hin. apply in_map_iff in Hin. destruct Hin as [b [E Hb]]. apply Hf in E. now subst.
Qed.

(** ------------------------------------------------------------------ names, well-formedness, abstraction *)

Section Dir.
Variable sfx : str.

Definition cfile (k : str) : str := k ++ ch_dot :: sfx.           (* member file of a completed record *)
Definition nfile (k : str) : str := k ++ s_dot_json.               (* file of a not-completed record *)
Definition mfile (k : str) : str := k ++ s_dot_txt.                (* its md5 side file *)
Definition nmem (k : str) : str := s_nc_prefix ++ nfile k.         (* unique_id of a not-completed member *)

(** the suffix of the store *)
Definition wf_sfx : bool := nonempty sfx && negb (str_eqb sfx s_log).

(** a record NAME on which the name computations of the (repaired) code are canonical *)
Definition wf_name (k : str) : bool :=
  str_eqb (md5_write_name repaired sfx (cfile k)) (mfile k) &&
  str_eqb (md5_write_name repaired s_json (nfile k)) (mfile k) &&
  str_eqb (path_name (nmem k)) (nfile k) &&
  str_eqb (path_stem (nfile k) ++ s_dot_txt) (mfile k) &&
  str_eqb (md5_lookup_name sfx (cfile k)) (mfile k) &&
  str_eqb (md5_lookup_name sfx (nmem k)) (mfile k) &&
  negb (startswith (cfile k) s_nc_prefix) && negb (startswith (cfile k) s_logs_prefix).

(** an IDENTIFIER whose normalisations all lead to its record name *)
Definition wf_id (x : str) : bool :=
  let k := dir_lid sfx x in
  wf_name k &&
  (let '(f, c) := write_name repaired sfx sfx x in str_eqb f (cfile k) && negb (present c)) &&
  (let '(f, c) := write_name repaired sfx s_json x in str_eqb f (nfile k) && negb (present c)) &&
  str_eqb (drop_pattern sfx x) (nfile k) &&
  str_eqb (contains_key repaired sfx x) (cfile k).

Definition dir_wf_op (o : op) : bool :=
  match o with
  | OWrite id _ | OWriteNC id _ | ODrop id => wf_id id
  | _ => true
  end.

Record wf_name_facts (k : str) : Prop := {
  wn_md5c : md5_write_name repaired sfx (cfile k) = mfile k;
  wn_md5n : md5_write_name repaired s_json (nfile k) = mfile k;
  wn_pname : path_name (nmem k) = nfile k;
  wn_stem : path_stem (nfile k) ++ s_dot_txt = mfile k;
  wn_lookc : md5_lookup_name sfx (cfile k) = mfile k;
  wn_lookn : md5_lookup_name sfx (nmem k) = mfile k;
  wn_notnc : startswith (cfile k) s_nc_prefix = false;
  wn_notlog : startswith (cfile k) s_logs_prefix = false }.

Lemma wf_name_unpack k : wf_name k = true -> wf_name_facts k.
Proof.
  unfold wf_name. intros H. repeat (apply andb_true_iff in H; destruct H as [H ?]).
  repeat match goal with E : str_eqb _ _ = true |- _ => apply str_eqb_eq in E end.
  repeat match goal with E : negb _ = true |- _ => apply negb_true_iff in E end.
  constructor; assumption.
Qed.

Record wf_id_facts (x : str) : Prop := {
  wi_name : wf_name (dir_lid sfx x) = true;
  wi_wc : write_name repaired sfx sfx x = (cfile (dir_lid sfx x), None);
  wi_wn : write_name repaired sfx s_json x = (nfile (dir_lid sfx x), None);
  wi_drop : drop_pattern sfx x = nfile (dir_lid sfx x);
  wi_key : contains_key repaired sfx x = cfile (dir_lid sfx x) }.

Lemma wf_id_unpack x : wf_id x = true -> wf_id_facts x.
Proof.
  unfold wf_id. cbn zeta.
  destruct (write_name repaired sfx sfx x) as [f1 c1] eqn:E1.
  destruct (write_name repaired sfx s_json x) as [f2 c2] eqn:E2.
  intros H.
  apply andb_true_iff in H; destruct H as [H H5].
  apply andb_true_iff in H; destruct H as [H H4].
  apply andb_true_iff in H; destruct H as [H H3].
  apply andb_true_iff in H; destruct H as [H1 H2].
  apply andb_true_iff in H2; destruct H2 as [H2a H2b].
  apply andb_true_iff in H3; destruct H3 as [H3a H3b].
  apply str_eqb_eq in H2a, H3a, H4, H5.
  destruct c1; [discriminate|]. destruct c2; [discriminate|]. subst f1 f2.
  constructor; auto.
Qed.

Lemma cfile_inj a b : cfile a = cfile b -> a = b.
Proof. unfold cfile. apply app_inv_tail. Qed.
Lemma nfile_inj a b : nfile a = nfile b -> a = b.
Proof. unfold nfile. apply app_inv_tail. Qed.
Lemma mfile_inj a b : mfile a = mfile b -> a = b.
Proof. unfold mfile. apply app_inv_tail. Qed.
Lemma nmem_inj a b : nmem a = nmem b -> a = b.
Proof. unfold nmem. intros H. apply app_inv_head in H. now apply nfile_inj. Qed.

Definition Pc (d : dict) (x : str) : Prop := exists k, x = cfile k /\ present (dc d k) = true.
Definition Pn (d : dict) (x : str) : Prop := exists k, x = nmem k /\ present (dn d k) = true.

Definition cfull (c : list str) (P : str -> Prop) : Prop := NoDup c /\ forall x, In x c <-> P x.
Definition cok (c : list str) (P : str -> Prop) : Prop := c = [] \/ cfull c P.

Record Rcore (s : dstore) (d : dict) : Prop := mkRcore {
  rc_sfx : d_suffix s = sfx;
  rc_mode : d_mode s = dm d;
  rc_root : forall k, fm_get (d_root s) (cfile k) = dc d k;
  rc_rootk : forall f, In f (fm_keys (d_root s)) -> endswith f (ch_dot :: sfx) = true;
  rc_rootnd : NoDup (fm_keys (d_root s));
  rc_nc : match d_nc s with
          | Some m => (forall k, fm_get m (nfile k) = dn d k) /\
                      (forall f, In f (fm_keys m) -> endswith f s_dot_json = true) /\
                      NoDup (fm_keys m)
          | None => forall k, dn d k = None
          end;
  rc_md5 : forall k, fm_get (d_md5 s) (mfile k) = match dc d k with Some v => Some v | None => dn d k end;
  rc_excl : forall k, present (dc d k) = true -> dn d k = None;
  rc_wf : forall k, present (dc d k) = true \/ present (dn d k) = true -> wf_name k = true }.

Definition R (s : dstore) (d : dict) : Prop :=
  Rcore s d /\ cok (d_completed s) (Pc d) /\ cok (d_ncache s) (Pn d).

Definition set_caches (s : dstore) (c n : list str) : dstore :=
  mkD (d_suffix s) (d_mode s) (d_root s) (d_nc s) (d_logs s) (d_md5 s) c n.

Lemma Rcore_caches s d c n : Rcore s d -> Rcore (set_caches s c n) d.
Proof. intros [H1 H2 H3 H4 H5 H6 H7 H8 H9]. constructor; cbn; assumption. Qed.

Lemma cfull_ok c P : cfull c P -> cok c P.
Proof. intros; now right. Qed.

Lemma present_ne (o : option str) : present o = true <-> o <> None.
Proof. destruct o; cbn; split; congruence. Qed.

Lemma glob_c_full s d : Rcore s d -> cfull (glob_completed s) (Pc d).
Proof.
  intros H. unfold glob_completed. rewrite (rc_sfx _ _ H). split.
  - apply NoDup_filter. apply (rc_rootnd _ _ H).
  - intros x. rewrite filter_In. split.
    + intros [Hin He]. destruct (endswith_split _ _ He) as [k ->]. exists k. split; [reflexivity|].
      apply present_ne. rewrite <- (rc_root _ _ H). now apply fm_keys_get.
    + intros [k [-> Hp]]. split; [|apply endswith_app].
      apply fm_keys_get. fold (cfile k). rewrite (rc_root _ _ H). now apply present_ne.
Qed.

Lemma glob_n_full s d : Rcore s d -> cfull (glob_nc s) (Pn d).
Proof.
  intros H. unfold glob_nc. pose proof (rc_nc _ _ H) as Hn. destruct (d_nc s) as [m|].
  - destruct Hn as [Hg [Hk Hnd]]. split.
    + apply NoDup_map_inj; [intros a b E; now apply app_inv_head in E|]. now apply NoDup_filter.
    + intros x. rewrite in_map_iff. split.
      * intros [f [<- Hf]]. apply filter_In in Hf. destruct Hf as [Hin He].
        destruct (endswith_split _ _ He) as [k ->]. exists k. split; [reflexivity|].
        apply present_ne. rewrite <- Hg. now apply fm_keys_get.
      * intros [k [-> Hp]]. exists (nfile k). split; [reflexivity|]. apply filter_In.
        split; [|apply endswith_app]. apply fm_keys_get. rewrite Hg. now apply present_ne.
  - split; [constructor|]. intros x. split; [intros []|]. intros [k [_ Hp]]. rewrite Hn in Hp. discriminate.
Qed.

Lemma cfull_nil_all c P l : cfull c P -> c = [] -> cfull l P -> l = [].
Proof.
  intros [_ H] -> [_ Hl]. destruct l as [|y l']; [reflexivity|].
  exfalso. assert (In y []) by (apply H, Hl; now left). contradiction.
Qed.

(** the two member properties leave complete caches *)
Lemma members_spec s d :
  R s d ->
  exists c n,
    completed_prop s = (set_caches s c (d_ncache s), c) /\
    nc_prop (set_caches s c (d_ncache s)) = (set_caches s c n, n) /\
    members s = (set_caches s c n, c ++ n) /\
    cfull c (Pc d) /\ cfull n (Pn d).
Proof.
  intros [Hc [Hcc Hnc]]. pose proof (glob_c_full s d Hc) as Gc. pose proof (glob_n_full s d Hc) as Gn.
  unfold members, completed_prop, nc_prop.
  destruct s as [sf md root nc logs md5 cc ncache].
  unfold glob_completed, glob_nc, set_caches, with_completed, with_ncache in *.
  cbn [d_suffix d_mode d_root d_nc d_logs d_md5 d_completed d_ncache] in *.
  destruct cc as [|c0 cc]; destruct ncache as [|n0 ncache];
    cbn [d_suffix d_mode d_root d_nc d_logs d_md5 d_completed d_ncache].
  - eexists _, _. splits; try reflexivity; assumption.
  - destruct Hnc as [Hnc|Hnc]; [discriminate|]. eexists _, _. splits; try reflexivity; assumption.
  - destruct Hcc as [Hcc|Hcc]; [discriminate|]. eexists _, _. splits; try reflexivity; assumption.
  - destruct Hcc as [Hcc|Hcc]; [discriminate|]. destruct Hnc as [Hnc|Hnc]; [discriminate|].
    eexists _, _. splits; try reflexivity; assumption.
Qed.

Lemma R_refreshed s d c n : R s d -> cfull c (Pc d) -> cfull n (Pn d) -> R (set_caches s c n) d.
Proof.
  intros [Hc _] H1 H2. split; [now apply Rcore_caches|]. split; apply cfull_ok; assumption.
Qed.

Lemma mem_cfile d c n k :
  cfull c (Pc d) -> cfull n (Pn d) -> startswith (cfile k) s_nc_prefix = false ->
  mem_str (cfile k) (c ++ n) = present (dc d k).
Proof.
  intros [_ Hc] [_ Hn] Hs. destruct (mem_str (cfile k) (c ++ n)) eqn:E.
  - apply mem_str_In in E. apply in_app_iff in E. destruct E as [E|E].
    + apply Hc in E. destruct E as [k' [E P]]. apply cfile_inj in E. now subst.
    + apply Hn in E. destruct E as [k' [E _]]. rewrite E in Hs. unfold nmem in Hs.
      rewrite startswith_app in Hs. discriminate.
  - apply mem_str_false in E. destruct (present (dc d k)) eqn:P; [|reflexivity].
    exfalso. apply E. apply in_app_iff. left. apply Hc. exists k. auto.
Qed.

Lemma mem_nmem d c n k :
  cfull c (Pc d) -> cfull n (Pn d) ->
  (forall k', present (dc d k') = true -> startswith (cfile k') s_nc_prefix = false) ->
  mem_str (nmem k) (c ++ n) = present (dn d k).
Proof.
  intros [_ Hc] [_ Hn] Hs. destruct (mem_str (nmem k) (c ++ n)) eqn:E.
  - apply mem_str_In in E. apply in_app_iff in E. destruct E as [E|E].
    + apply Hc in E. destruct E as [k' [E P]]. specialize (Hs k' P). rewrite <- E in Hs. unfold nmem in Hs.
      rewrite startswith_app in Hs. discriminate.
    + apply Hn in E. destruct E as [k' [E P]]. apply nmem_inj in E. now subst.
  - apply mem_str_false in E. destruct (present (dn d k)) eqn:P; [|reflexivity].
    exfalso. apply E. apply in_app_iff. right. apply Hn. exists k. auto.
Qed.

Lemma check_writable_spec s d x :
  R s d -> wf_id x = true ->
  let k := dir_lid sfx x in
  (d_mode s = MR /\ check_writable repaired s x = (s, Some E_IO)) \/
  (d_mode s <> MR /\ exists c n,
     cfull c (Pc d) /\ cfull n (Pn d) /\
     check_writable repaired s x =
       (set_caches s c n, if present (dc d k) && mode_eqb (d_mode s) MA then Some E_IO else None)).
Proof.
  intros HR Hx k. pose proof (wf_id_unpack x Hx) as Wx.
  pose proof (wf_name_unpack _ (wi_name _ Wx)) as Wk. fold k in Wx, Wk.
  destruct (members_spec s d HR) as [c [n [_ [_ [Em [Hc Hn]]]]]].
  unfold check_writable, contains_item. destruct HR as [Hcore _]. rewrite (rc_sfx _ _ Hcore).
  rewrite (wi_key _ Wx). fold k. rewrite Em. rewrite (mem_cfile d c n k Hc Hn (wn_notnc _ Wk)).
  destruct (d_mode s) eqn:M.
  - left. auto.
  - right. split; [congruence|]. exists c, n. cbn [mode_eqb]. rewrite andb_false_r. auto.
  - right. split; [congruence|]. exists c, n. cbn [mode_eqb]. rewrite andb_true_r.
    destruct (present (dc d k)); auto.
Qed.

(** ------------------------------------------------------------------ drop_not_completed *)

Lemma Rcore_ext s d d' :
  Rcore s d -> dm d' = dm d -> (forall k, dc d' k = dc d k) -> (forall k, dn d' k = dn d k) -> Rcore s d'.
Proof.
  intros [H1 H2 H3 H4 H5 H6 H7 H8 H9] Em Ec En. constructor; auto.
  - congruence.
  - intros k. rewrite Ec. apply H3.
  - destruct (d_nc s) as [m|].
    + destruct H6 as [A [B C]]. splits; auto. intros k. rewrite En. apply A.
    + intros k. rewrite En. apply H6.
  - intros k. rewrite Ec, En. apply H7.
  - intros k. rewrite Ec, En. apply H8.
  - intros k. rewrite Ec, En. apply H9.
Qed.

Lemma Pc_ext d d' x : (forall k, dc d' k = dc d k) -> (Pc d x <-> Pc d' x).
Proof. intros E. unfold Pc. split; intros [k [A B]]; exists k; (split; [assumption|]); [rewrite E|rewrite <- E]; assumption. Qed.

Lemma Pn_ext d d' x : (forall k, dn d' k = dn d k) -> (Pn d x <-> Pn d' x).
Proof. intros E. unfold Pn. split; intros [k [A B]]; exists k; (split; [assumption|]); [rewrite E|rewrite <- E]; assumption. Qed.

Lemma cfull_iff c (P Q : str -> Prop) : (forall x, P x <-> Q x) -> cfull c P -> cfull c Q.
Proof. intros E [A B]. split; [assumption|]. intros x. rewrite <- E. apply B. Qed.

Definition d_dropn (d : dict) (k : str) : dict := mkDict (dm d) (dc d) (t_set (dn d) k None).

Lemma str_eqb_inj (f : str -> str) a b :
  (forall a b, f a = f b -> a = b) -> str_eqb (f a) (f b) = str_eqb a b.
Proof.
  intros Hf. destruct (str_eqb_spec a b) as [->|Hn]; [apply str_eqb_refl|].
  apply str_eqb_neq. intros E. apply Hn. now apply Hf.
Qed.

Lemma nfile_nonempty k : nfile k <> [].
Proof. unfold nfile. destruct k; discriminate. Qed.

(** the loop body on one member that is not skipped *)
Lemma drop_body s d k pat rest :
  Rcore s d -> cfull (d_ncache s) (Pn d) -> present (dn d k) = true ->
  nonempty pat && negb (str_eqb (nfile k) pat) = false ->
  exists s1,
    drop_loop repaired pat (nmem k :: rest) s = drop_loop repaired pat rest s1 /\
    Rcore s1 (d_dropn d k) /\ cfull (d_ncache s1) (Pn (d_dropn d k)) /\
    d_completed s1 = d_completed s /\ d_mode s1 = d_mode s.
Proof.
  intros Hc Hn Hk Hpat. pose proof Hc as [H1 H2 H3 H4 H5 H6 H7 H8 H9].
  pose proof (wf_name_unpack k (H9 k (or_intror Hk))) as Wk.
  assert (Hdc : dc d k = None).
  { destruct (dc d k) eqn:E; [|reflexivity]. rewrite (H8 k) in Hk; [discriminate|]. now rewrite E. }
  destruct (dn d k) as [v|] eqn:Ednk; [|discriminate].
  cbn [drop_loop]. cbn [v_exact repaired]. rewrite (wn_pname _ Wk), Hpat.
  destruct (d_nc s) as [ncm|] eqn:Enc; [|rewrite H6 in Ednk; discriminate].
  destruct H6 as [G [K ND]].
  assert (M1 : fm_mem ncm (nfile k) = true) by (apply fm_mem_get; rewrite G; congruence).
  rewrite M1. cbn [with_nc d_md5]. rewrite (wn_stem _ Wk).
  assert (M2 : fm_mem (d_md5 s) (mfile k) = true) by (apply fm_mem_get; rewrite H7, Hdc; congruence).
  rewrite M2.
  assert (Hin : In (nmem k) (d_ncache s)) by (apply Hn; exists k; split; [reflexivity|now rewrite Ednk]).
  unfold nc_prop. cbn [with_md5 with_nc d_ncache].
  destruct (d_ncache s) as [|n0 ncur] eqn:Ecur; [contradiction|].
  assert (Mm : mem_str (nmem k) (n0 :: ncur) = true) by now apply mem_str_In.
  rewrite Mm. eexists. split; [reflexivity|].
  destruct Hn as [Hnd Hn].
  unfold with_ncache, with_md5, with_nc.
  cbn [d_suffix d_mode d_root d_nc d_logs d_md5 d_completed d_ncache].
  splits; try reflexivity.
  - constructor; cbn [d_suffix d_mode d_root d_nc d_logs d_md5 d_completed d_ncache d_dropn dm dc dn]; auto.
    + splits.
      * intros k'. rewrite fm_get_del, G. unfold t_set. now rewrite (str_eqb_inj nfile k' k nfile_inj).
      * intros f Hf. apply fm_keys_del in Hf. apply K. tauto.
      * now apply NoDup_del_keys.
    + intros k'. rewrite fm_get_del, H7. unfold t_set. rewrite (str_eqb_inj mfile k' k mfile_inj).
      destruct (str_eqb_spec k' k) as [->|]; [now rewrite Hdc|reflexivity].
    + intros k' Hp. unfold t_set. destruct (str_eqb k' k); [reflexivity|now apply H8].
    + intros k' [Hp|Hp]; apply H9; [now left|right]. revert Hp. unfold t_set. destruct (str_eqb k' k); intros Hp; [discriminate|assumption].
  - split; [now apply remove_first_NoDup|]. intros x. rewrite remove_first_In by assumption. rewrite Hn.
    unfold Pn, d_dropn. cbn [dn]. split.
    + intros [[k' [-> Hp]] Hne]. exists k'. split; [reflexivity|]. unfold t_set.
      destruct (str_eqb_spec k' k) as [->|]; [congruence|assumption].
    + intros [k' [-> Hp]]. revert Hp. unfold t_set. destruct (str_eqb_spec k' k) as [->|Hne]; intros Hp; [discriminate|].
      split; [exists k'; auto|]. intros E. apply nmem_inj in E. contradiction.
Qed.

Lemma drop_loop_skip pat todo s :
  pat <> [] -> (forall m, In m todo -> str_eqb (path_name m) pat = false) ->
  drop_loop repaired pat todo s = (s, None).
Proof.
  intros Hp. induction todo as [|m rest IH]; intros H; cbn [drop_loop]; [reflexivity|].
  cbn [v_exact repaired]. rewrite (H m (or_introl eq_refl)). destruct pat; [congruence|]. cbn [nonempty negb andb].
  apply IH. intros m' Hm'. apply H. now right.
Qed.

Lemma member_name s d m : Rcore s d -> Pn d m -> exists k', m = nmem k' /\ present (dn d k') = true /\ path_name m = nfile k'.
Proof.
  intros Hc [k' [-> Hp]]. exists k'. splits; auto.
  apply wn_pname. apply wf_name_unpack. apply (rc_wf _ _ Hc). now right.
Qed.

(** drop_not_completed(unique_id=x): exactly the record named like x goes *)
Lemma drop_loop_one k : forall todo s d,
  Rcore s d -> cfull (d_ncache s) (Pn d) -> (forall m, In m todo -> Pn d m) -> NoDup todo ->
  (In (nmem k) todo /\ exists s',
     drop_loop repaired (nfile k) todo s = (s', None) /\
     Rcore s' (d_dropn d k) /\ cfull (d_ncache s') (Pn (d_dropn d k)) /\
     d_completed s' = d_completed s /\ d_mode s' = d_mode s)
  \/ (~ In (nmem k) todo /\ drop_loop repaired (nfile k) todo s = (s, None)).
Proof.
  induction todo as [|m rest IH]; intros s d Hc Hn Hsub Hnd.
  - right. split; [intros []|reflexivity].
  - inversion Hnd as [|? ? Hm Hrest]; subst.
    destruct (member_name s d m Hc (Hsub m (or_introl eq_refl))) as [k' [-> [Hp Hpn]]].
    destruct (str_eqb_spec k' k) as [->|Hne].
    + left. split; [now left|].
      destruct (drop_body s d k (nfile k) rest Hc Hn Hp) as [s1 [E [Hc1 [Hn1 [C1 M1]]]]].
      { rewrite str_eqb_refl. apply andb_false_r. }
      exists s1. rewrite E. rewrite drop_loop_skip; [splits; auto|apply nfile_nonempty|].
      intros m' Hm'. destruct (member_name s d m' Hc (Hsub m' (or_intror Hm'))) as [k'' [-> [_ Hpn']]].
      rewrite Hpn'. apply str_eqb_neq. intros E'. apply nfile_inj in E'. subst. contradiction.
    + assert (Hskip : drop_loop repaired (nfile k) (nmem k' :: rest) s = drop_loop repaired (nfile k) rest s).
      { cbn [drop_loop]. cbn [v_exact repaired]. rewrite Hpn.
        rewrite (str_eqb_inj nfile k' k nfile_inj). destruct (str_eqb_spec k' k); [contradiction|].
        pose proof (nfile_nonempty k). destruct (nfile k); [congruence|reflexivity]. }
      rewrite Hskip.
      destruct (IH s d Hc Hn (fun m' Hm' => Hsub m' (or_intror Hm')) Hrest) as [[Hin H]|[Hnin H]].
      * left. split; [now right|exact H].
      * right. split; [|exact H]. intros [E|Hin]; [apply nmem_inj in E; contradiction|contradiction].
Qed.

(** drop_not_completed(): every listed record goes *)
Lemma drop_loop_all : forall todo s d,
  Rcore s d -> cfull (d_ncache s) (Pn d) -> (forall m, In m todo -> Pn d m) -> NoDup todo ->
  exists s',
    drop_loop repaired [] todo s = (s', None) /\ d_completed s' = d_completed s /\ d_mode s' = d_mode s /\
    forall d', dm d' = dm d -> (forall k, dc d' k = dc d k) ->
               (forall k, dn d' k = if mem_str (nmem k) todo then None else dn d k) ->
               Rcore s' d' /\ cfull (d_ncache s') (Pn d').
Proof.
  induction todo as [|m rest IH]; intros s d Hc Hn Hsub Hnd.
  - exists s. cbn [drop_loop]. splits; auto. intros d' Em Ec En. cbn [mem_str existsb] in En. split.
    + now apply (Rcore_ext s d d').
    + eapply cfull_iff; [|exact Hn]. intros x. now apply Pn_ext.
  - inversion Hnd as [|? ? Hm Hrest]; subst.
    destruct (member_name s d m Hc (Hsub m (or_introl eq_refl))) as [k' [-> [Hp Hpn]]].
    destruct (drop_body s d k' [] rest Hc Hn Hp eq_refl) as [s1 [E [Hc1 [Hn1 [C1 M1]]]]].
    rewrite E.
    destruct (IH s1 (d_dropn d k') Hc1 Hn1) as [s' [E' [C' [M' H']]]]; [|assumption|].
    { intros m' Hm'. destruct (Hsub m' (or_intror Hm')) as [k'' [-> Hp'']]. exists k''. split; [reflexivity|].
      cbn [d_dropn dn]. unfold t_set. destruct (str_eqb_spec k'' k') as [->|]; [contradiction|assumption]. }
    exists s'. splits; [assumption|congruence|congruence|].
    intros d' Em Ec En. apply H'; cbn [d_dropn dm dc dn]; auto.
    intros k. rewrite En. cbn [mem_str existsb]. fold (mem_str (nmem k) rest). unfold t_set.
    rewrite (str_eqb_inj nmem k k' nmem_inj). destruct (str_eqb k k'); cbn [orb]; [|reflexivity].
    destruct (mem_str (nmem k) rest); reflexivity.
Qed.

Lemma drop_pattern_nil : drop_pattern sfx [] = [].
Proof. reflexivity. Qed.

(** the whole method, one record *)
Lemma drop_nc_one s d x :
  R s d -> wf_id x = true -> d_mode s <> MR ->
  exists s', fst (drop_nc repaired s x) = s' /\ snd (drop_nc repaired s x) = None /\
             R s' (d_dropn d (dir_lid sfx x)) /\ d_mode s' = d_mode s.
Proof.
  intros HR Hx Hm. pose proof (wf_id_unpack x Hx) as Wx. set (k := dir_lid sfx x) in *.
  destruct (members_spec s d HR) as [c [n [_ [_ [_ [Hc Hn]]]]]].
  pose proof HR as [Hcore [Hcc Hnc]].
  unfold drop_nc. cbn [v_rodrop repaired andb].
  destruct (mode_eqb (d_mode s) MR) eqn:Em; [destruct (d_mode s); try discriminate; congruence|].
  rewrite (rc_sfx _ _ Hcore), (wi_drop _ Wx). fold k.
  assert (Enc : exists n', nc_prop s = (set_caches s (d_completed s) n', n') /\ cfull n' (Pn d)).
  { unfold nc_prop. destruct (d_ncache s) as [|n0 nn] eqn:E.
    - exists (glob_nc s). split; [destruct s; reflexivity|]. now apply glob_n_full.
    - exists (n0 :: nn). split; [destruct s; cbn in *; now subst|]. destruct Hnc as [?|?]; [discriminate|assumption]. }
  destruct Enc as [n' [Enc Hn']]. rewrite Enc.
  set (s1 := set_caches s (d_completed s) n').
  assert (Hc1 : Rcore s1 d) by now apply Rcore_caches.
  destruct (drop_loop_one k n' s1 d Hc1 Hn') as [[Hin [s' [E [Hc' [Hn'' [C' M']]]]]]|[Hnin E]];
    [intros m Hm'; now apply Hn'|apply Hn'| |]; rewrite E.
  - pose proof (nfile_nonempty k). destruct (nfile k) eqn:Enf; [congruence|].
    exists s'. cbn [fst snd]. splits; auto.
    split; [assumption|]. split; [|now apply cfull_ok].
    rewrite C'. cbn [s1 set_caches d_completed]. destruct Hcc as [->|Hcc]; [now left|right].
    eapply cfull_iff; [|exact Hcc]. intros y. now apply Pc_ext.
  - pose proof (nfile_nonempty k). destruct (nfile k) eqn:Enf; [congruence|].
    exists s1. cbn [fst snd]. splits; auto.
    assert (Hk : dn d k = None).
    { destruct (dn d k) eqn:Ek; [|reflexivity]. exfalso. apply Hnin. apply Hn'. exists k. rewrite Ek. auto. }
    assert (En : forall k', dn (d_dropn d k) k' = dn d k').
    { intros k'. cbn [d_dropn dn]. unfold t_set. destruct (str_eqb_spec k' k) as [->|]; [now rewrite Hk|reflexivity]. }
    split; [eapply Rcore_ext; [exact Hc1|reflexivity|reflexivity|exact En]|].
    split.
    + cbn [s1 set_caches d_completed]. destruct Hcc as [->|Hcc]; [now left|right].
      eapply cfull_iff; [|exact Hcc]. intros y. now apply Pc_ext.
    + right. cbn [s1 set_caches d_ncache]. eapply cfull_iff; [|exact Hn']. intros y. apply Pn_ext. exact En.
Qed.

(** the whole method, every record *)
Definition d_dropall (d : dict) : dict := mkDict (dm d) (dc d) t_empty.

Lemma drop_nc_all s d :
  R s d -> d_mode s <> MR ->
  exists s', fst (drop_nc repaired s []) = s' /\ R s' (d_dropall d) /\ d_mode s' = d_mode s.
Proof.
  intros HR Hm. pose proof HR as [Hcore [Hcc Hnc]].
  unfold drop_nc. cbn [v_rodrop repaired andb].
  destruct (mode_eqb (d_mode s) MR) eqn:Em; [destruct (d_mode s); try discriminate; congruence|].
  rewrite (rc_sfx _ _ Hcore), drop_pattern_nil.
  assert (Enc : exists n', nc_prop s = (set_caches s (d_completed s) n', n') /\ cfull n' (Pn d)).
  { unfold nc_prop. destruct (d_ncache s) as [|n0 nn] eqn:E.
    - exists (glob_nc s). split; [destruct s; reflexivity|]. now apply glob_n_full.
    - exists (n0 :: nn). split; [destruct s; cbn in *; now subst|]. destruct Hnc as [?|?]; [discriminate|assumption]. }
  destruct Enc as [n' [Enc Hn']]. rewrite Enc.
  set (s1 := set_caches s (d_completed s) n').
  assert (Hc1 : Rcore s1 d) by now apply Rcore_caches.
  destruct (drop_loop_all n' s1 d Hc1 Hn') as [s' [E [C' [M' H']]]]; [intros m Hm'; now apply Hn'|apply Hn'|].
  rewrite E.
  destruct (H' (d_dropall d)) as [Hc' Hn'']; [reflexivity|reflexivity| |].
  { intros k. cbn [d_dropall dn t_empty]. destruct (mem_str (nmem k) n') eqn:Mk; [reflexivity|].
    apply mem_str_false in Mk. destruct (dn d k) eqn:Ek; [|reflexivity]. exfalso. apply Mk, Hn'.
    exists k. rewrite Ek. auto. }
  assert (Hcc' : cok (d_completed s') (Pc (d_dropall d))).
  { rewrite C'. cbn [s1 set_caches d_completed]. destruct Hcc as [->|Hcc]; [now left|right].
    eapply cfull_iff; [|exact Hcc]. intros y. now apply Pc_ext. }
  pose proof (rc_nc _ _ Hc') as Hnc'.
  destruct (d_nc s') as [m|] eqn:Enc'.
  - destruct Hnc' as [G [K ND]].
    assert (m = []).
    { apply fm_empty_of_no_keys. intros f Hf. pose proof (K f Hf) as He.
      destruct (endswith_split _ _ He) as [k ->]. apply fm_keys_get in Hf. fold (nfile k) in Hf. now rewrite G in Hf. }
    subst m. eexists. split; [reflexivity|]. cbn [fst].
    destruct Hc' as [H1 H2 H3 H4 H5 H6 H7 H8 H9]. destruct s' as [sf md root nc logs md5 cc ncache].
    unfold with_ncache, with_nc. cbn [d_suffix d_mode d_root d_nc d_logs d_md5 d_completed d_ncache] in *.
    split; [|assumption]. split; [|split; [assumption|now left]].
    constructor; cbn [d_suffix d_mode d_root d_nc d_logs d_md5 d_completed d_ncache d_dropall dm dc dn]; auto.
  - eexists. split; [reflexivity|]. cbn [fst]. split; [|assumption].
    split; [assumption|]. split; [assumption|now apply cfull_ok].
Qed.

(** ------------------------------------------------------------------ _write *)

Lemma wf_sfx_unpack : wf_sfx = true -> nonempty sfx = true /\ str_eqb sfx s_log = false.
Proof. unfold wf_sfx. intros H. apply andb_true_iff in H. destruct H as [A B]. apply negb_true_iff in B. auto. Qed.

Lemma R_core s d : R s d -> Rcore s d.
Proof. now intros [H _]. Qed.

Definition d_setc (d : dict) (k v : str) : dict := mkDict (dm d) (t_set (dc d) k (Some v)) (dn d).
Definition d_setn (d : dict) (k v : str) : dict := mkDict (dm d) (dc d) (t_set (dn d) k (Some v)).

(** writing the member file of a completed record (after its not-completed twin is gone) *)
Lemma write_root_spec s d x data :
  wf_sfx = true -> R s d -> wf_id x = true -> d_mode s <> MR ->
  let k := dir_lid sfx x in
  present (dc d k) && mode_eqb (d_mode s) MA = false -> dn d k = None ->
  exists s',
    write_ repaired s SRoot x sfx data = (s', ROk (Some (cfile k))) /\
    Rcore s' (d_setc d k data) /\ cfull (d_completed s') (Pc d) /\ cfull (d_ncache s') (Pn d) /\
    d_mode s' = d_mode s.
Proof.
  intros Hsfx HR Hx Hm k Hpres Hdn. pose proof (wf_id_unpack x Hx) as Wx. fold k in Wx.
  pose proof (wf_name_unpack _ (wi_name _ Wx)) as Wk. fold k in Wk.
  destruct (wf_sfx_unpack Hsfx) as [Hne Hlog].
  destruct (check_writable_spec s d x HR Hx) as [[M _]|[_ [c [n [Hc [Hn E]]]]]]; [congruence|].
  fold k in E. rewrite Hpres in E.
  unfold write_. rewrite E. rewrite Hne. cbn [negb]. cbn [set_caches d_suffix].
  rewrite (rc_sfx _ _ (R_core _ _ HR)). rewrite (wi_wc _ Wx). rewrite Hlog.
  cbn [v_presence repaired orb].
  eexists. split; [reflexivity|].
  unfold with_md5, with_root, set_caches. cbn [d_suffix d_mode d_root d_nc d_logs d_md5 d_completed d_ncache].
  fold k. rewrite (wn_md5c _ Wk).
  destruct (R_core _ _ HR) as [H1 H2 H3 H4 H5 H6 H7 H8 H9].
  splits; auto.
  constructor; cbn [d_suffix d_mode d_root d_nc d_logs d_md5 d_completed d_ncache d_setc dm dc dn]; auto.
  - intros k'. rewrite fm_get_set, H3. unfold t_set. now rewrite (str_eqb_inj cfile k' k cfile_inj).
  - intros f Hf. apply fm_keys_set in Hf. destruct Hf as [->|Hf]; [apply endswith_app|now apply H4].
  - now apply NoDup_set_keys.
  - intros k'. rewrite fm_get_set, H7. unfold t_set. rewrite (str_eqb_inj mfile k' k mfile_inj).
    destruct (str_eqb k' k); reflexivity.
  - intros k'. unfold t_set. destruct (str_eqb_spec k' k) as [->|]; [auto|apply H8].
  - intros k'. unfold t_set. destruct (str_eqb_spec k' k) as [->|]; [intros _; apply (wi_name _ Wx)|apply H9].
Qed.

(** writing a not-completed record (the name is not completed) *)
Lemma write_nc_spec s d x data :
  R s d -> wf_id x = true -> d_mode s <> MR -> d_nc s <> None ->
  let k := dir_lid sfx x in
  dc d k = None ->
  exists s',
    write_ repaired s SNC x s_json data = (s', ROk (Some (nmem k))) /\
    Rcore s' (d_setn d k data) /\ cfull (d_completed s') (Pc d) /\ cfull (d_ncache s') (Pn d) /\
    d_mode s' = d_mode s.
Proof.
  intros HR Hx Hm Hdir k Hdc. pose proof (wf_id_unpack x Hx) as Wx.
  pose proof (wf_name_unpack _ (wi_name _ Wx)) as Wk.
  subst k. set (k := dir_lid sfx x) in *.
  destruct (check_writable_spec s d x HR Hx) as [[M _]|[_ [c [n [Hc [Hn E]]]]]]; [congruence|].
  fold k in E. rewrite Hdc in E. cbn [present andb] in E.
  unfold write_. rewrite E. cbn [nonempty s_json negb]. cbn [set_caches d_suffix].
  rewrite (rc_sfx _ _ (R_core _ _ HR)). rewrite (wi_wn _ Wx).
  replace (str_eqb s_json s_log) with false by reflexivity.
  cbn [v_presence repaired orb]. fold k.
  cbn [set_caches d_nc]. destruct (d_nc s) as [ncm|] eqn:Enc; [|congruence].
  eexists. split; [reflexivity|].
  unfold with_md5, with_nc, set_caches. cbn [d_suffix d_mode d_root d_nc d_logs d_md5 d_completed d_ncache].
  fold k. rewrite (wn_md5n _ Wk).
  destruct (R_core _ _ HR) as [H1 H2 H3 H4 H5 H6 H7 H8 H9]. rewrite Enc in H6. destruct H6 as [G [K ND]].
  splits; auto.
  constructor; cbn [d_suffix d_mode d_root d_nc d_logs d_md5 d_completed d_ncache d_setn dm dc dn]; auto.
  - splits.
    + intros k'. rewrite fm_get_set, G. unfold t_set. now rewrite (str_eqb_inj nfile k' k nfile_inj).
    + intros f Hf. apply fm_keys_set in Hf. destruct Hf as [->|Hf]; [apply endswith_app|now apply K].
    + now apply NoDup_set_keys.
  - intros k'. rewrite fm_get_set, H7. unfold t_set. rewrite (str_eqb_inj mfile k' k mfile_inj).
    destruct (str_eqb_spec k' k) as [->|]; [now rewrite Hdc|reflexivity].
  - intros k' Hp. unfold t_set. destruct (str_eqb_spec k' k) as [->|]; [rewrite Hdc in Hp; discriminate|now apply H8].
  - intros k'. unfold t_set. destruct (str_eqb_spec k' k) as [->|]; [intros _; apply (wi_name _ Wx)|apply H9].
Qed.

Lemma check_writable_state s d x :
  R s d -> exists s1 e, check_writable repaired s x = (s1, e) /\ R s1 d.
Proof.
  intros HR. unfold check_writable, contains_item.
  destruct (members_spec s d HR) as [c [n [_ [_ [Em [Hc Hn]]]]]]. rewrite Em.
  destruct (d_mode s); [eexists _, _; split; [reflexivity|assumption]| |];
    destruct (mem_str _ _ && _); eexists _, _; (split; [reflexivity|now apply R_refreshed]).
Qed.

(** write_log never touches the records *)
Lemma write_log_spec s d x data :
  R s d -> exists s', fst (write_ repaired s SLogs x s_log data) = s' /\ R s' d.
Proof.
  intros HR. unfold write_.
  destruct (check_writable_state s d x HR) as [s1 [e [E HR1]]]. rewrite E.
  destruct e; [eexists; split; [reflexivity|exact HR1]|].
  cbn [nonempty s_log negb].
  destruct (write_name repaired (d_suffix s1) s_log x) as [fname cmp].
  replace (str_eqb s_log s_log) with true by reflexivity. cbn [orb].
  destruct cmp; [eexists; split; [reflexivity|exact HR1]|].
  eexists. split; [reflexivity|]. cbn [fst].
  destruct HR1 as [[H1 H2 H3 H4 H5 H6 H7 H8 H9] [Hcc Hnc]].
  destruct s1 as [sf md root nc logs md5 cc ncache]. unfold with_logs.
  cbn [d_suffix d_mode d_root d_nc d_logs d_md5 d_completed d_ncache] in *.
  split; [constructor; cbn; assumption|]. split; assumption.
Qed.

(** ------------------------------------------------------------------ one step preserves the abstraction *)

Lemma cadd_c_full d c k v :
  cfull c (Pc d) -> cfull (if mem_str (cfile k) c then c else c ++ [cfile k]) (Pc (d_setc d k v)).
Proof.
  intros [Hnd H]. assert (E : forall x, Pc (d_setc d k v) x <-> Pc d x \/ x = cfile k).
  { intros x. unfold Pc, d_setc. cbn [dc]. unfold t_set. split.
    - intros [k' [-> Hp]]. revert Hp. destruct (str_eqb_spec k' k) as [->|]; intros Hp; [now right|left; eauto].
    - intros [[k' [-> Hp]] | ->].
      + exists k'. split; [reflexivity|]. destruct (str_eqb k' k); auto.
      + exists k. split; [reflexivity|]. now rewrite str_eqb_refl. }
  destruct (mem_str (cfile k) c) eqn:M.
  - apply mem_str_In in M. split; [assumption|]. intros x. rewrite E, H. split; [auto|].
    intros [? | ->]; [assumption|now apply H].
  - apply mem_str_false in M. split; [now apply NoDup_snoc|]. intros x. rewrite E, in_app_iff, H. cbn [In].
    split; [intros [?|[<-|[]]]; auto|intros [? | ->]; auto].
Qed.

Lemma cadd_n_full d c k v :
  cfull c (Pn d) -> cfull (if mem_str (nmem k) c then c else c ++ [nmem k]) (Pn (d_setn d k v)).
Proof.
  intros [Hnd H]. assert (E : forall x, Pn (d_setn d k v) x <-> Pn d x \/ x = nmem k).
  { intros x. unfold Pn, d_setn. cbn [dn]. unfold t_set. split.
    - intros [k' [-> Hp]]. revert Hp. destruct (str_eqb_spec k' k) as [->|]; intros Hp; [now right|left; eauto].
    - intros [[k' [-> Hp]] | ->].
      + exists k'. split; [reflexivity|]. destruct (str_eqb k' k); auto.
      + exists k. split; [reflexivity|]. now rewrite str_eqb_refl. }
  destruct (mem_str (nmem k) c) eqn:M.
  - apply mem_str_In in M. split; [assumption|]. intros x. rewrite E, H. split; [auto|].
    intros [? | ->]; [assumption|now apply H].
  - apply mem_str_false in M. split; [now apply NoDup_snoc|]. intros x. rewrite E, in_app_iff, H. cbn [In].
    split; [intros [?|[<-|[]]]; auto|intros [? | ->]; auto].
Qed.

Lemma R_set_completed s d c :
  Rcore s d -> cfull c (Pc d) -> cok (d_ncache s) (Pn d) -> R (with_completed s c) d.
Proof.
  intros [H1 H2 H3 H4 H5 H6 H7 H8 H9] Hc Hn. destruct s. unfold with_completed. cbn in *.
  split; [constructor; cbn; assumption|]. split; [now right|assumption].
Qed.

Lemma R_set_ncache s d n :
  Rcore s d -> cok (d_completed s) (Pc d) -> cfull n (Pn d) -> R (with_ncache s n) d.
Proof.
  intros [H1 H2 H3 H4 H5 H6 H7 H8 H9] Hc Hn. destruct s. unfold with_ncache. cbn in *.
  split; [constructor; cbn; assumption|]. split; [assumption|now right].
Qed.

Lemma step_write s d x data :
  wf_sfx = true -> R s d -> wf_id x = true ->
  R (fst (ds_write repaired s x data)) (sp_step dir_policy d (AWrite (dir_lid sfx x) data)).
Proof.
  intros Hsfx HR Hx. set (k := dir_lid sfx x). unfold ds_write. cbn [v_dropfirst repaired].
  pose proof (rc_mode _ _ (R_core _ _ HR)) as Hmode.
  destruct (check_writable_spec s d x HR Hx) as [[M E]|[M [c [n [Hc [Hn E]]]]]]; rewrite E.
  - cbn [fst sp_step]. rewrite <- Hmode, M. exact HR.
  - fold k. pose proof (R_refreshed s d c n HR Hc Hn) as HR1.
    destruct (present (dc d k) && mode_eqb (d_mode s) MA) eqn:B.
    + cbn [fst sp_step]. apply andb_true_iff in B. destruct B as [B1 B2].
      destruct (d_mode s) eqn:M'; try discriminate. rewrite <- Hmode. rewrite B1. exact HR1.
    + set (s1 := set_caches s c n) in *.
      destruct (drop_nc_one s1 d x HR1 Hx M) as [s2 [E2 [E2' [HR2 M2]]]].
      destruct (drop_nc repaired s1 x) as [s2' e2]. cbn [fst snd] in E2, E2'. subst s2' e2.
      assert (M2' : d_mode s2 = d_mode s) by (rewrite M2; reflexivity).
      rewrite (rc_sfx _ _ (R_core _ _ HR2)).
      destruct (write_root_spec s2 (d_dropn d k) x data Hsfx HR2 Hx) as [s3 [E3 [Hc3 [Hcc3 [Hnc3 M3]]]]].
      * congruence.
      * cbn [d_dropn dc]. fold k. now rewrite M2'.
      * cbn [d_dropn dn]. fold k. unfold t_set. now rewrite str_eqb_refl.
      * fold k in E3, Hc3. rewrite E3. cbn [fst]. unfold cache_add. cbn [v_presence repaired andb].
        assert (D : sp_step dir_policy d (AWrite k data) = d_setc (d_dropn d k) k data).
        { cbn [sp_step]. unfold d_setc, d_dropn. cbn [dm dc dn]. rewrite <- Hmode.
          destruct (d_mode s) eqn:M'; [congruence|reflexivity|].
          cbn [mode_eqb] in B. rewrite andb_true_r in B. rewrite B.
          cbn [dir_policy append_completes_nc negb orb]. rewrite andb_false_r. reflexivity. }
        rewrite D. apply R_set_completed; [assumption| |].
        -- apply cadd_c_full. exact Hcc3.
        -- apply cfull_ok. exact Hnc3.
Qed.

Lemma R_mkdir s d : R s d -> R (mkdir_nc s) d.
Proof.
  intros HR. unfold mkdir_nc. destruct (d_nc s) eqn:E; [assumption|].
  destruct HR as [[H1 H2 H3 H4 H5 H6 H7 H8 H9] [Hc Hn]]. rewrite E in H6.
  destruct s. unfold with_nc. cbn in *. split; [|split; assumption].
  constructor; cbn; auto. splits; [intros k; now rewrite H6|intros f []|constructor].
Qed.

Lemma mkdir_has s : d_nc (mkdir_nc s) <> None.
Proof. unfold mkdir_nc. destruct (d_nc s) eqn:E; [congruence|]. destruct s; cbn; congruence. Qed.

Lemma mkdir_mode s : d_mode (mkdir_nc s) = d_mode s.
Proof. unfold mkdir_nc. destruct (d_nc s); [reflexivity|]. destruct s; reflexivity. Qed.

Lemma step_write_nc s d x data :
  R s d -> wf_id x = true ->
  mode_eqb (dm d) MW && present (dc d (dir_lid sfx x)) = false ->
  R (fst (ds_write_nc repaired s x data)) (sp_step dir_policy d (AWriteNC (dir_lid sfx x) data)).
Proof.
  intros HR0 Hx Hok. set (k := dir_lid sfx x) in *. unfold ds_write_nc.
  pose proof (R_mkdir s d HR0) as HR. pose proof (mkdir_has s) as Hdir. pose proof (mkdir_mode s) as Hmk.
  set (s0 := mkdir_nc s) in *.
  pose proof (rc_mode _ _ (R_core _ _ HR)) as Hmode.
  destruct (d_mode s0) eqn:M.
  - (* read-only *)
    unfold write_, check_writable. rewrite M. cbn [fst sp_step]. rewrite <- Hmode. exact HR.
  - (* overwrite *)
    rewrite <- Hmode in Hok. cbn [mode_eqb andb] in Hok.
    assert (Hdc : dc d k = None) by (destruct (dc d k); [discriminate|reflexivity]).
    destruct (write_nc_spec s0 d x data HR Hx) as [s1 [E1 [Hc1 [Hcc1 [Hnc1 M1]]]]]; [congruence|assumption|exact Hdc|].
    fold k in E1, Hc1. rewrite E1.
    cbn [fst sp_step]. rewrite <- Hmode. cbn [dir_policy nc_retires_completed].
    unfold cache_add. cbn [v_presence repaired andb].
    replace (mkDict MW (dc d) (t_set (dn d) k (Some data))) with (d_setn d k data)
      by (unfold d_setn; now rewrite <- Hmode).
    apply R_set_ncache; [assumption|now apply cfull_ok|now apply cadd_n_full].
  - (* append *)
    destruct (dc d k) as [v|] eqn:Hdc.
    + (* present as completed: refused by _check_writable *)
      destruct (check_writable_spec s0 d x HR Hx) as [[M' _]|[_ [c [n [Hc [Hn E]]]]]]; [congruence|].
      fold k in E. rewrite Hdc, M in E. cbn [present mode_eqb andb] in E.
      unfold write_. rewrite E. cbn [fst sp_step]. rewrite <- Hmode, Hdc. cbn [present orb].
      now apply R_refreshed.
    + destruct (write_nc_spec s0 d x data HR Hx) as [s1 [E1 [Hc1 [Hcc1 [Hnc1 M1]]]]]; [congruence|assumption|exact Hdc|].
      fold k in E1, Hc1. rewrite E1.
      cbn [fst sp_step]. rewrite <- Hmode, Hdc. cbn [present orb dir_policy append_rewrites_nc negb].
      rewrite andb_false_r.
      unfold cache_add. cbn [v_presence repaired andb].
      replace (mkDict MA (dc d) (t_set (dn d) k (Some data))) with (d_setn d k data)
        by (unfold d_setn; now rewrite <- Hmode).
      apply R_set_ncache; [assumption|now apply cfull_ok|now apply cadd_n_full].
Qed.

Lemma step_drop s d x :
  R s d -> wf_id x = true ->
  R (fst (ds_drop repaired s x)) (sp_step dir_policy d (ADrop (dir_lid sfx x))).
Proof.
  intros HR Hx. unfold ds_drop. pose proof (rc_mode _ _ (R_core _ _ HR)) as Hmode.
  destruct (d_mode s) eqn:M.
  - unfold drop_nc. cbn [v_rodrop repaired andb]. rewrite M. cbn [mode_eqb fst sp_step]. rewrite <- Hmode. exact HR.
  - destruct (drop_nc_one s d x HR Hx) as [s' [E [_ [HR' _]]]]; [congruence|].
    destruct (drop_nc repaired s x) as [s2 e]. cbn [fst] in *. subst s2.
    cbn [sp_step]. rewrite <- Hmode. unfold d_dropn in HR'. now rewrite <- Hmode in HR'.
  - destruct (drop_nc_one s d x HR Hx) as [s' [E [_ [HR' _]]]]; [congruence|].
    destruct (drop_nc repaired s x) as [s2 e]. cbn [fst] in *. subst s2.
    cbn [sp_step]. rewrite <- Hmode. unfold d_dropn in HR'. now rewrite <- Hmode in HR'.
Qed.

Lemma step_drop_all s d :
  R s d -> R (fst (ds_drop repaired s [])) (sp_step dir_policy d ADropAll).
Proof.
  intros HR. unfold ds_drop. pose proof (rc_mode _ _ (R_core _ _ HR)) as Hmode.
  destruct (d_mode s) eqn:M.
  - unfold drop_nc. cbn [v_rodrop repaired andb]. rewrite M. cbn [mode_eqb fst sp_step]. rewrite <- Hmode. exact HR.
  - destruct (drop_nc_all s d HR) as [s' [E [HR' _]]]; [congruence|].
    destruct (drop_nc repaired s []) as [s2 e]. cbn [fst] in *. subst s2.
    cbn [sp_step]. rewrite <- Hmode. unfold d_dropall in HR'. now rewrite <- Hmode in HR'.
  - destruct (drop_nc_all s d HR) as [s' [E [HR' _]]]; [congruence|].
    destruct (drop_nc repaired s []) as [s2 e]. cbn [fst] in *. subst s2.
    cbn [sp_step]. rewrite <- Hmode. unfold d_dropall in HR'. now rewrite <- Hmode in HR'.
Qed.

Lemma step_reopen s d m : R s d -> R (ds_reopen s m) (sp_step dir_policy d (AReopen m)).
Proof.
  intros [[H1 H2 H3 H4 H5 H6 H7 H8 H9] _]. unfold ds_reopen. cbn [sp_step].
  split; [|split; now left].
  constructor; cbn [d_suffix d_mode d_root d_nc d_logs d_md5 d_completed d_ncache dm dc dn]; auto.
  destruct m; [exact H6| |]; (destruct (d_nc s); [exact H6|]; splits; [intros k; now rewrite H6|intros f []|constructor]).
Qed.

Lemma step_R s d o :
  wf_sfx = true -> R s d -> dir_wf_op o = true ->
  no_nc_over_completed dir_policy d [dir_aop sfx o] = true ->
  R (fst (ds_step repaired s o)) (sp_step dir_policy d (dir_aop sfx o)).
Proof.
  intros Hsfx HR Hwf Hok. destruct o as [id data|id data|id data|id| |m]; cbn [ds_step dir_aop dir_wf_op] in *.
  - now apply step_write.
  - apply step_write_nc; [assumption|assumption|].
    cbn [no_nc_over_completed] in Hok. rewrite andb_true_r in Hok. now apply negb_true_iff in Hok.
  - unfold ds_write_log. destruct (write_log_spec s d id data HR) as [s' [E HR']]. rewrite E. exact HR'.
  - now apply step_drop.
  - now apply step_drop_all.
  - now apply step_reopen.
Qed.

(** ------------------------------------------------------------------ every history; observations *)

Definition ds_run (s : dstore) (ops : list op) : dstore :=
  fold_left (fun s o => fst (ds_step repaired s o)) ops s.

Lemma R_new m : R (ds_new sfx m) (d_new m).
Proof.
  split; [|split; now left]. constructor; cbn; auto; try constructor; try discriminate.
  - reflexivity.
  - split; [intros f []|constructor].
  - intros k [H|H]; discriminate.
Qed.

Lemma run_R ops : forall s d,
  wf_sfx = true -> forallb dir_wf_op ops = true ->
  no_nc_over_completed dir_policy d (map (dir_aop sfx) ops) = true ->
  R s d -> R (ds_run s ops) (sp_run dir_policy d (map (dir_aop sfx) ops)).
Proof.
  induction ops as [|o ops IH]; intros s d Hsfx Hwf Hok HR; [exact HR|].
  cbn [forallb] in Hwf. apply andb_true_iff in Hwf. destruct Hwf as [Ho Hops].
  cbn [map no_nc_over_completed] in Hok. apply andb_true_iff in Hok. destruct Hok as [Hok1 Hok2].
  cbn [ds_run sp_run fold_left map]. apply IH; [assumption|assumption|assumption|].
  apply step_R; [assumption|assumption|assumption|].
  cbn [no_nc_over_completed]. now rewrite Hok1.
Qed.

(** what a client observes: the two member listings (after the lazy refresh),
    content and checksum of every member *)
Definition dir_obs_match (s : dstore) (d : dict) : Prop :=
  let '(s1, c) := ds_completed_ids s in
  let '(s2, n) := ds_not_completed_ids s1 in
  d_mode s2 = dm d /\
  NoDup c /\ NoDup n /\
  (forall x, In x c <-> exists k, x = cfile k /\ present (dc d k) = true) /\
  (forall x, In x n <-> exists k, x = nmem k /\ present (dn d k) = true) /\
  (forall k v, dc d k = Some v -> ds_read s2 (cfile k) = Some v /\ ds_md5 s2 (cfile k) = Some v) /\
  (forall k v, dn d k = Some v -> ds_read s2 (nmem k) = Some v /\ ds_md5 s2 (nmem k) = Some v).

Lemma obs_R s d : R s d -> dir_obs_match s d.
Proof.
  intros HR. destruct (members_spec s d HR) as [c [n [E1 [E2 [_ [Hc Hn]]]]]].
  unfold dir_obs_match, ds_completed_ids, ds_not_completed_ids. rewrite E1, E2.
  pose proof (R_core _ _ HR) as [H1 H2 H3 H4 H5 H6 H7 H8 H9].
  destruct Hc as [Hc1 Hc2]. destruct Hn as [Hn1 Hn2].
  splits; auto.
  - intros k v Hk. assert (Hp : present (dc d k) = true) by now rewrite Hk.
    pose proof (wf_name_unpack k (H9 k (or_introl Hp))) as Wk.
    unfold ds_read, ds_md5. cbn [set_caches d_nc d_root d_logs d_md5 d_suffix].
    rewrite (wn_notnc _ Wk), (wn_notlog _ Wk), H3, H1, (wn_lookc _ Wk), H7, Hk. auto.
  - intros k v Hk. assert (Hp : present (dn d k) = true) by now rewrite Hk.
    pose proof (wf_name_unpack k (H9 k (or_intror Hp))) as Wk.
    assert (Hdc : dc d k = None).
    { destruct (dc d k) eqn:E; [|reflexivity]. rewrite (H8 k) in Hk; [discriminate|]. now rewrite E. }
    unfold ds_read, ds_md5. cbn [set_caches d_nc d_root d_logs d_md5 d_suffix].
    assert (Es : startswith (nmem k) s_nc_prefix = true) by apply startswith_app.
    assert (Ek : skipn (length s_nc_prefix) (nmem k) = nfile k) by apply skipn_app_len.
    rewrite Es, Ek.
    destruct (d_nc s) as [m|]; [|rewrite H6 in Hk; discriminate].
    destruct H6 as [G _]. rewrite G, H1, (wn_lookn _ Wk), H7, Hdc, Hk. auto.
Qed.

(** the headline for the directory store *)
Theorem dir_refines_dict_all m ops :
  wf_sfx = true -> forallb dir_wf_op ops = true ->
  no_nc_over_completed dir_policy (d_new m) (map (dir_aop sfx) ops) = true ->
  dir_obs_match (ds_run (ds_new sfx m) ops) (sp_run dir_policy (d_new m) (map (dir_aop sfx) ops)).
Proof.
  intros Hsfx Hwf Hok. apply obs_R. apply run_R; [assumption|assumption|assumption|apply R_new].
Qed.

End Dir.

(** ------------------------------------------------------------------ non-vacuity and refutations *)

Definition s_fasta : str := [102;97;115;116;97].

Definition ds_runv (v : variant) (s : dstore) (ops : list op) : dstore :=
  fold_left (fun s o => fst (ds_step v s o)) ops s.

(** identifiers that are suffixes / prefixes of one another, with and without the
    format suffix, even containing the suffix text, satisfy the well-formedness condition *)
Example dir_wf_example :
  wf_sfx s_fasta = true /\
  forallb (wf_id s_fasta) [[97]; [98;97]; [97;98]; [97;46;102;97;115;116;97]; [97;98;46;102;97;115;116;97]; [102;97;115;116;97;95;97]; [106;115;111;110;95;97];
                          [102;97;115;116;97;95;115;101;113;46;102;97;115;116;97]; [99;49]; [120;95;121;45;122]] = true.
Proof. split; vm_compute; reflexivity. Qed.

Definition example_history : list op :=
  [OWriteNC [98;97] [100;48]; OWrite [97] [100;49]; OWriteNC [97;98;46;102;97;115;116;97] [100;50] ; OReopen MA;
   OWrite [102;97;115;116;97;95;97] [100;51]; OWrite [98;97] [100;52]; OWriteNC [97;98] [100;53]; OReopen MR; ODrop [97;98];
   OReopen MW; OWrite [102;97;115;116;97;95;97] [100;54]; ODropAll; OWriteLog [108;46;108;111;103] [100;55]].

Example dir_hist_example :
  forallb (dir_wf_op s_fasta) example_history = true /\
  no_nc_over_completed dir_policy (d_new MW) (map (dir_aop s_fasta) example_history) = true.
Proof. split; vm_compute; reflexivity. Qed.

(** dotted record names are NOT well-formed: Path.stem cuts them *)
Example dir_wf_dotted : wf_id s_fasta [103;46;118;49] = false.
Proof. vm_compute. reflexivity. Qed.

Definition only (f : nat) : variant :=   (* every patch except number f (1-based) *)
  mkV (negb (Nat.eqb f 1)) (negb (Nat.eqb f 2)) (negb (Nat.eqb f 3)) (negb (Nat.eqb f 4)) (negb (Nat.eqb f 5)) (negb (Nat.eqb f 6)).

Definition nc_ids (s : dstore) : list str := snd (ds_not_completed_ids (fst (ds_completed_ids s))).
Definition c_ids (s : dstore) : list str := snd (ds_completed_ids s).

(** C13-1 missing (pinned behaviour): completing 'a' deletes the not-completed record 'ba' *)
Lemma dir_endswith_refuted :
  exists ops, forallb (dir_wf_op s_fasta) ops = true /\
    let s := ds_runv (only 1) (ds_new s_fasta MW) ops in
    let d := sp_run dir_policy (d_new MW) (map (dir_aop s_fasta) ops) in
    dn d [98;97] = Some [100;48] /\ nc_ids s = [].
Proof. exists [OWriteNC [98;97] [100;48]; OWrite [97] [100;49]]. vm_compute. auto. Qed.

(** C13-2 missing: an identifier containing the suffix text loses its checksum / is stored under another name *)
Lemma dir_suffix_text_refuted :
  (exists ops, forallb (dir_wf_op s_fasta) ops = true /\
    let s := ds_runv (only 2) (ds_new s_fasta MW) ops in
    let d := sp_run dir_policy (d_new MW) (map (dir_aop s_fasta) ops) in
    dc d [102;97;115;116;97;95;115;101;113] = Some [100;48] /\ c_ids s = [[102;97;115;116;97;95;115;101;113;46;102;97;115;116;97]] /\ ds_md5 s [102;97;115;116;97;95;115;101;113;46;102;97;115;116;97] = None) /\
  (exists ops, forallb (dir_wf_op s_fasta) ops = true /\
    let s := ds_runv (only 2) (ds_new s_fasta MW) ops in
    let d := sp_run dir_policy (d_new MW) (map (dir_aop s_fasta) ops) in
    dn d [102;97;115;116;97;95;97] = Some [100;48] /\ nc_ids s = [[110;111;116;95;99;111;109;112;108;101;116;101;100;47;106;115;111;110;95;97;46;106;115;111;110]]).
Proof.
  split.
  - exists [OWrite [102;97;115;116;97;95;115;101;113;46;102;97;115;116;97] [100;48]]. vm_compute. auto.
  - exists [OWriteNC [102;97;115;116;97;95;97] [100;48]]. vm_compute. auto.
Qed.

(** C13-3 missing: completing a record that failed before deletes the checksum just written *)
Lemma dir_write_over_nc_refuted :
  exists ops, forallb (dir_wf_op s_fasta) ops = true /\
    no_nc_over_completed dir_policy (d_new MW) (map (dir_aop s_fasta) ops) = true /\
    let s := ds_runv (only 3) (ds_new s_fasta MW) ops in
    let d := sp_run dir_policy (d_new MW) (map (dir_aop s_fasta) ops) in
    dc d [97] = Some [100;49] /\ ds_read s [97;46;102;97;115;116;97] = Some [100;49] /\ ds_md5 s [97;46;102;97;115;116;97] = None.
Proof. exists [OWriteNC [97] [100;48]; OWrite [97] [100;49]]. vm_compute. auto. Qed.

(** C13-4 missing: a read-only store deletes records *)
Lemma dir_readonly_drop_refuted :
  exists ops, forallb (dir_wf_op s_fasta) ops = true /\
    let s := ds_runv (only 4) (ds_new s_fasta MW) ops in
    let d := sp_run dir_policy (d_new MW) (map (dir_aop s_fasta) ops) in
    dm d = MR /\ dn d [97] = Some [100;48] /\ nc_ids s = [].
Proof. exists [OWriteNC [97] [100;48]; OReopen MR; ODrop [97]]. vm_compute. auto. Qed.

(** C13-5 missing: overwrite mode silently keeps the old content *)
Lemma dir_presence_refuted :
  exists ops, forallb (dir_wf_op s_fasta) ops = true /\
    let s := ds_runv (only 5) (ds_new s_fasta MW) ops in
    let d := sp_run dir_policy (d_new MW) (map (dir_aop s_fasta) ops) in
    dc d [97] = Some [100;49] /\ ds_read s [97;46;102;97;115;116;97] = Some [100;48].
Proof. exists [OWrite [97] [100;48]; OWrite [97] [100;49]]. vm_compute. auto. Qed.

(** C13-5 missing: a second not-completed write of a name lists the member twice *)
Lemma dir_duplicate_member_refuted :
  exists ops, forallb (dir_wf_op s_fasta) ops = true /\
    nc_ids (ds_runv (only 5) (ds_new s_fasta MW) ops) = [[110;111;116;95;99;111;109;112;108;101;116;101;100;47;97;46;106;115;111;110]; [110;111;116;95;99;111;109;112;108;101;116;101;100;47;97;46;106;115;111;110]].
Proof. exists [OWriteNC [97] [100;48]; OWriteNC [97] [100;49]]. vm_compute. auto. Qed.

(** with every patch: the hypothesis [no_nc_over_completed] is necessary — the md5
    side file is shared by the completed and the not-completed record of a name *)
Lemma dir_nc_over_completed_refuted :
  exists ops, forallb (dir_wf_op s_fasta) ops = true /\
    let s := ds_runv repaired (ds_new s_fasta MW) ops in
    let d := sp_run dir_policy (d_new MW) (map (dir_aop s_fasta) ops) in
    dc d [97] = Some [100;48] /\ ds_read s [97;46;102;97;115;116;97] = Some [100;48] /\ ds_md5 s [97;46;102;97;115;116;97] = Some [100;49].
Proof. exists [OWrite [97] [100;48]; OWriteNC [97] [100;49]]. vm_compute. auto. Qed.

(** with every patch: the hypothesis [wf_id] is necessary — two identifiers that
    differ after the last dot are one file *)
Lemma dir_dotted_ids_refuted :
  exists ops,
    let s := ds_runv repaired (ds_new s_fasta MW) ops in
    let d := sp_run dir_policy (d_new MW) (map (dir_aop s_fasta) ops) in
    dc d [103;46;118;49] = Some [100;48] /\ dc d [103;46;118;50] = Some [100;49] /\ c_ids s = [[103;46;102;97;115;116;97]].
Proof. exists [OWrite [103;46;118;49] [100;48]; OWrite [103;46;118;50] [100;49]]. vm_compute. auto. Qed.

(** the same runs on the repaired variant agree with the dictionary (sanity of the witnesses) *)
Example dir_repaired_on_witnesses :
  nc_ids (ds_runv repaired (ds_new s_fasta MW) [OWriteNC [98;97] [100;48]; OWrite [97] [100;49]]) = [[110;111;116;95;99;111;109;112;108;101;116;101;100;47;98;97;46;106;115;111;110]] /\
  ds_md5 (ds_runv repaired (ds_new s_fasta MW) [OWrite [102;97;115;116;97;95;115;101;113;46;102;97;115;116;97] [100;48]]) [102;97;115;116;97;95;115;101;113;46;102;97;115;116;97] = Some [100;48] /\
  ds_md5 (ds_runv repaired (ds_new s_fasta MW) [OWriteNC [97] [100;48]; OWrite [97] [100;49]]) [97;46;102;97;115;116;97] = Some [100;49] /\
  ds_read (ds_runv repaired (ds_new s_fasta MW) [OWrite [97] [100;48]; OWrite [97] [100;49]]) [97;46;102;97;115;116;97] = Some [100;49].
Proof. vm_compute. auto. Qed.

Lemma ds_runv_repaired s ops : ds_runv repaired s ops = ds_run s ops.
Proof. reflexivity. Qed.

(** ------------------------------------------------------------------ the three sentences about single operations, on the store *)

Lemma hist_ok_app p l1 : forall d l2,
  no_nc_over_completed p d (l1 ++ l2) = true -> no_nc_over_completed p d l1 = true.
Proof.
  induction l1 as [|o l1 IH]; intros d l2 H; [reflexivity|].
  cbn [app no_nc_over_completed] in *. apply andb_true_iff in H. destruct H as [H1 H2].
  rewrite H1. cbn [andb]. now apply (IH _ l2).
Qed.

Lemma dir_aop_reopen sfx o : (forall m, o <> OReopen m) -> forall m, dir_aop sfx o <> AReopen m.
Proof. intros H m E. destruct o; cbn in E; try discriminate. inversion E; subst. now apply (H m). Qed.

Lemma dir_store_step_facts sfx m ops o :
  wf_sfx sfx = true -> forallb (dir_wf_op sfx) (ops ++ [o]) = true ->
  no_nc_over_completed dir_policy (d_new m) (map (dir_aop sfx) (ops ++ [o])) = true ->
  let d := sp_run dir_policy (d_new m) (map (dir_aop sfx) ops) in
  let d' := sp_step dir_policy d (dir_aop sfx o) in
  dir_obs_match sfx (ds_run (ds_new sfx m) ops) d /\
  dir_obs_match sfx (ds_run (ds_new sfx m) (ops ++ [o])) d' /\
  (forall x, ~ In x (names_of (dir_aop sfx o)) ->
     dc d' x = dc d x /\ (dir_aop sfx o <> ADropAll -> dn d' x = dn d x)) /\
  (dm d = MA -> (forall m', o <> OReopen m') -> forall x v, dc d x = Some v -> dc d' x = Some v) /\
  (dm d = MR -> (forall m', o <> OReopen m') -> d' = d).
Proof.
  intros Hsfx Hwf Hok d d'.
  assert (Hwf1 : forallb (dir_wf_op sfx) ops = true).
  { rewrite forallb_app in Hwf. apply andb_true_iff in Hwf. tauto. }
  assert (Hok1 : no_nc_over_completed dir_policy (d_new m) (map (dir_aop sfx) ops) = true).
  { rewrite map_app in Hok. now apply hist_ok_app in Hok. }
  splits.
  - now apply dir_refines_dict_all.
  - replace d' with (sp_run dir_policy (d_new m) (map (dir_aop sfx) (ops ++ [o]))).
    + now apply dir_refines_dict_all.
    + unfold sp_run. rewrite map_app, fold_left_app. reflexivity.
  - intros x Hx. now apply sp_others_untouched.
  - intros Hm Hre x v Hx. eapply (proj1 (sp_append_never_overwrites dir_policy d (dir_aop sfx o) x v Hm (dir_aop_reopen sfx o Hre))). exact Hx.
  - intros Hm Hre. apply sp_readonly_never_mutates; [assumption|now apply dir_aop_reopen].
Qed.

(** ------------------------------------------------------------------ the well-formedness condition on a completely enumerated scope *)

Fixpoint words (alpha : list Z) (n : nat) : list str :=
  match n with
  | O => [[]]
  | S k => [] :: flat_map (fun w => map (fun c => c :: w) alpha) (words alpha k)
  end.

Definition nonempty_words (alpha : list Z) (n : nat) : list str :=
  filter (fun w => nonempty w) (words alpha n).

Definition alpha1 : list Z := [97;98;102;115;116;106;95;49].       (* a b f s t j _ 1 *)
Definition alpha2 : list Z := [97;106;115;111;110;116;120].        (* a j s o n t x *)

(** every non-empty identifier of length <= 5 over {a,b,f,s,t,j,_,1} (this includes
    "fasta", "fast", "a_b" ...) and of length <= 4 over {a,j,s,o,n,t,x} (includes
    "json", "txt"), with or without ".fasta" appended, is well-formed for a fasta store *)
Lemma wf_small_scope_all :
  forallb (fun w => wf_id s_fasta w && wf_id s_fasta (w ++ ch_dot :: s_fasta)) (nonempty_words alpha1 5) = true /\
  forallb (fun w => wf_id s_fasta w && wf_id s_fasta (w ++ ch_dot :: s_fasta)) (nonempty_words alpha2 4) = true.
Proof. split; vm_compute; reflexivity. Qed.

Lemma wf_small_scope w :
  In w (nonempty_words alpha1 5) \/ In w (nonempty_words alpha2 4) ->
  wf_id s_fasta w = true /\ wf_id s_fasta (w ++ ch_dot :: s_fasta) = true.
Proof.
  destruct wf_small_scope_all as [H1 H2]. rewrite forallb_forall in H1, H2.
  intros [H|H]; [apply H1 in H|apply H2 in H]; now apply andb_true_iff in H.
Qed.

(** ------------------------------------------------------------------ the unguarded statement about the code as found is false *)

Lemma obs_match_nc sfx s d k :
  dir_obs_match sfx s d -> present (dn d k) = true -> In (nmem k) (nc_ids s).
Proof.
  unfold dir_obs_match, nc_ids. destruct (ds_completed_ids s) as [s1 c]. cbn [fst].
  destruct (ds_not_completed_ids s1) as [s2 n]. cbn [snd]. intros H Hp. apply H. eauto.
Qed.

Definition w_ops : list op := [OWriteNC [98;97] [100;48]; OWrite [97] [100;49]].

Lemma w_facts :
  wf_sfx s_fasta = true /\ forallb (dir_wf_op s_fasta) w_ops = true /\
  no_nc_over_completed dir_policy (d_new MW) (map (dir_aop s_fasta) w_ops) = true /\
  nc_ids (ds_runv pinned (ds_new s_fasta MW) w_ops) = [] /\
  present (dn (sp_run dir_policy (d_new MW) (map (dir_aop s_fasta) w_ops)) [98;97]) = true.
Proof. vm_compute. auto. Qed.

Lemma pinned_statement_false :
  ~ (forall sfx m ops,
       wf_sfx sfx = true -> forallb (dir_wf_op sfx) ops = true ->
       no_nc_over_completed dir_policy (d_new m) (map (dir_aop sfx) ops) = true ->
       dir_obs_match sfx (ds_runv pinned (ds_new sfx m) ops) (sp_run dir_policy (d_new m) (map (dir_aop sfx) ops))).
Proof.
  intros H. destruct w_facts as [F1 [F2 [F3 [F4 F5]]]].
  pose proof (obs_match_nc _ _ _ _ (H s_fasta MW w_ops F1 F2 F3) F5) as Hin.
  rewrite F4 in Hin. exact Hin.
Qed.
