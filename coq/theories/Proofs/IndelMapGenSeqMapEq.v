(** C08 — translator tie for [IndelMap.make_seq_feature_map]. *)
From CG3 Require Import Lib.PyZ Lib.Val Model.IndelMap Model.IndelMapFixed Model.NumpyPrims Model.FeatureMap Model.FeatureMapPrims.
From CG3 Require Import Proofs.IndelMapProofs Proofs.IndelMapGenEq Proofs.IndelMapGenCoordsEq.
From CG3gen Require Import IndelMapGen.
Import G.

Local Open Scope Z_scope.

(** the generated loop, restated (same fix arity), tied by conversion *)
Definition msfm_loop (self : imap) :=
  fix loop (i : Z) (xs : list fspan) (spans : list fspan) {struct xs} : res fmap :=
    match xs with
    | [] => Ok (mk_fmap spans (parent_length self))
    | span :: xs =>
        if is_lost span then loop (i + 1) xs spans
        else bind (g_get_seq_index self (sp_start span)) (fun r2 =>
             bind (g_get_seq_index self (sp_end span)) (fun r3 =>
             loop (i + 1) xs (spans ++ [mk_span r2 r3 false])))
    end.

Lemma g_make_seq_feature_map_unfold m afm : g_make_seq_feature_map m afm = msfm_loop m 0 (fspans afm) [].
Proof. reflexivity. Qed.

Definition spans_pairs (xs : list fspan) : list (Z * Z) :=
  flat_map (fun sp => match sp with FS s e _ => [(s, e)] | FL _ => [] end) xs.

Lemma msfm_loop_inv m : forall xs i acc,
  msfm_loop m i xs acc =
  bind (make_seq_coords m (spans_pairs xs)) (fun cs =>
    Ok (mk_fmap (acc ++ map (fun se : Z * Z => mk_span (fst se) (snd se) false) cs) (parent_length m))).
Proof.
  induction xs as [|sp xs IH]; intros i acc.
  - cbn [msfm_loop spans_pairs flat_map make_seq_coords bind map]. now rewrite app_nil_r.
  - destruct sp as [s e r|n].
    + cbn [msfm_loop is_lost sp_start sp_end spans_pairs flat_map app make_seq_coords].
      rewrite !get_seq_index_eq_all.
      destruct (get_seq_index m s) as [s'|err]; cbn [bind]; [|reflexivity].
      destruct (get_seq_index m e) as [e'|err]; cbn [bind]; [|reflexivity].
      rewrite IH. fold (spans_pairs xs).
      destruct (make_seq_coords m (spans_pairs xs)) as [cs|err]; cbn [bind map fst snd]; [|reflexivity].
      now rewrite <- app_assoc.
    + cbn [msfm_loop is_lost spans_pairs flat_map app]. apply IH.
Qed.

Theorem make_seq_feature_map_eq m afm : g_make_seq_feature_map m afm = make_seq_feature_map m afm.
Proof. rewrite g_make_seq_feature_map_unfold, msfm_loop_inv. reflexivity. Qed.
