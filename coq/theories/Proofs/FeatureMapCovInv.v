(** C08 — general (unbounded) proofs for [FeatureMap.inverse], [shadow] and
    [covered] against Spec/FeatureMapSpec.v.  The statements are the ones
    checked by enumeration in Proofs/FeatureMapBounded.v. *)
From CG3 Require Import Lib.PyZ Lib.Val Model.IndelMap Model.FeatureMap Spec.FeatureMapSpec Proofs.IndelMapProofs Proofs.IndelMapJoin Proofs.FeatureMapBounded Proofs.FeatureMapProofs.

Local Open Scope Z_scope.

(** * Part A: [inverse] *)

(** ** [index_of] on concatenations and on the cells of one span *)

Lemma index_of_app p a : forall i b,
  index_of p i (a ++ b) = match index_of p i a with Some x => Some x | None => index_of p (i + zlen a) b end.
Proof.
  induction a as [|o a IH]; intros i b.
  - cbn [app index_of]. change (zlen (@nil (option Z))) with 0. now rewrite Z.add_0_r.
  - cbn [app index_of]. rewrite zlen_cons. replace (i + (1 + zlen a)) with (i + 1 + zlen a) by lia.
    destruct o as [q|]; [destruct (q =? p); [reflexivity|]|]; apply IH.
Qed.

Lemma index_of_absent p d : (forall o, In o d -> o <> Some p) -> forall i, index_of p i d = None.
Proof.
  induction d as [|o d IH]; intros H i; [reflexivity|]. cbn [index_of].
  assert (Hd : forall o', In o' d -> o' <> Some p) by (intros o' Ho; apply H; now right).
  destruct o as [q|]; [|now apply IH].
  destruct (q =? p) eqn:E; [|now apply IH].
  exfalso. apply (H (Some q)); [now left|]. f_equal. lia.
Qed.

Lemma index_of_first p d : forall i k, 0 <= k < zlen d -> znth None d k = Some p ->
  (forall j, 0 <= j < k -> znth None d j <> Some p) -> index_of p i d = Some (i + k).
Proof.
  induction d as [|o d IH]; intros i k Hk Hn Hb.
  - change (zlen (@nil (option Z))) with 0 in Hk. lia.
  - rewrite zlen_cons in Hk. cbn [index_of]. destruct (Z.eq_dec k 0) as [->|Hne].
    + rewrite znth_0 in Hn. subst o. rewrite Z.eqb_refl. f_equal. lia.
    + assert (Ho : o <> Some p) by (specialize (Hb 0 ltac:(lia)); now rewrite znth_0 in Hb).
      rewrite znth_pos in Hn by lia.
      assert (E : index_of p (i + 1) d = Some (i + 1 + (k - 1))).
      { apply IH; [lia|exact Hn|]. intros j Hj. specialize (Hb (j + 1) ltac:(lia)).
        rewrite znth_pos in Hb by lia. now replace (j + 1 - 1) with j in Hb by lia. }
      replace (i + 1 + (k - 1)) with (i + k) in E by lia.
      destruct o as [q|]; [|exact E]. destruct (q =? p) eqn:Eq; [|exact E].
      exfalso. apply Ho. f_equal. lia.
Qed.

(** a quadruple [(s, e, cs, ce)] of [inverse]'s [temp]: parent interval [s, e),
    map interval [min cs ce, max cs ce), reversed iff [cs > ce] *)
Definition qval (q : quad) (p : Z) : Z :=
  let '(s, e, cs, ce) := q in if cs <=? ce then cs + (p - s) else ce + (e - 1 - p).
Definition qin (q : quad) (p : Z) : bool :=
  let '(s, e, _, _) := q in (s <=? p) && (p <? e).

(** the first quadruple whose parent interval contains [p] *)
Fixpoint qlook (p : Z) (Q : list quad) : option Z :=
  match Q with
  | [] => None
  | q :: t => if qin q p then Some (qval q p) else qlook p t
  end.

Lemma znth_fwd_cells s e k : 0 <= k < e - s -> znth None (map Some (zrange s e)) k = Some (s + k).
Proof.
  intros Hk. rewrite (znth_map Some 0 None) by (rewrite zlen_zrange; lia). now rewrite znth_zrange by lia.
Qed.

Lemma znth_rev_cells s e k : 0 <= k < e - s -> znth None (rev (map Some (zrange s e))) k = Some (e - 1 - k).
Proof.
  intros Hk. rewrite znth_rev by (rewrite zlen_map, zlen_zrange; lia).
  rewrite zlen_map, zlen_zrange by lia. rewrite znth_fwd_cells by lia. f_equal. lia.
Qed.

Lemma index_of_span plen p i s e r : span_in plen (FS s e r) = true ->
  index_of p i (den_span (FS s e r)) =
  if (s <=? p) && (p <? e) then Some (if r then i + (e - 1 - p) else i + (p - s)) else None.
Proof.
  cbn [span_in]. intros Hin. destruct ((s <=? p) && (p <? e)) eqn:E.
  - destruct r; cbn [den_span].
    + apply index_of_first.
      * rewrite zlen_rev, zlen_map, zlen_zrange; lia.
      * rewrite znth_rev_cells by lia. f_equal. lia.
      * intros j Hj. rewrite znth_rev_cells by lia. intros Hc. injection Hc as Hc. lia.
    + apply index_of_first.
      * rewrite zlen_map, zlen_zrange; lia.
      * rewrite znth_fwd_cells by lia. f_equal. lia.
      * intros j Hj. rewrite znth_fwd_cells by lia. intros Hc. injection Hc as Hc. lia.
  - apply index_of_absent. intros o Ho Hc. subst o.
    assert (Hi : In (Some p) (map Some (zrange s e))) by (destruct r; cbn [den_span] in Ho; [now apply in_rev|exact Ho]).
    apply in_map_iff in Hi. destruct Hi as (x & Hx & Hr). injection Hx as ->. apply zrange_In in Hr. lia.
Qed.

Lemma index_of_lost p i n : index_of p i (den_span (FL n)) = None.
Proof.
  apply index_of_absent. intros o Ho. cbn [den_span] in Ho. apply repeat_spec in Ho. subst o. discriminate.
Qed.

(** [index_of] on the whole map is [qlook] on the unsorted [temp] *)
Lemma index_of_temp plen p l : forallb (span_in plen) l = true -> forall cum,
  index_of p cum (flat_map den_span l) = qlook p (inv_temp cum l).
Proof.
  induction l as [|sp l IH]; cbn [forallb]; intros H cum; [reflexivity|].
  apply andb_prop in H. destruct H as (Hsp & Hl). cbn [flat_map]. rewrite index_of_app.
  rewrite (zlen_den_span plen) by exact Hsp. destruct sp as [s e r|n].
  - rewrite (index_of_span plen) by exact Hsp. cbn [inv_temp slen]. cbn [span_in] in Hsp.
    destruct r; cbn [qlook qin qval].
    + destruct ((s <=? p) && (p <? e)) eqn:E; [|now apply IH].
      destruct (cum + (e - s) <=? cum) eqn:E2; f_equal; lia.
    + destruct ((s <=? p) && (p <? e)) eqn:E; [|now apply IH].
      destruct (cum <=? cum + (e - s)) eqn:E2; f_equal; lia.
  - rewrite index_of_lost. cbn [inv_temp slen]. now apply IH.
Qed.

(** ** [sort_quads] against the [ins_pair] sort of the [(start, end)] pairs *)

Definition se (q : quad) : Z * Z := let '(s, e, _, _) := q in (s, e).

Definition ple (x y : Z * Z) : bool := (fst x <? fst y) || ((fst x =? fst y) && (snd x <=? snd y)).

Fixpoint psorted (l : list (Z * Z)) : Prop :=
  match l with
  | [] => True
  | x :: t => match t with [] => True | y :: _ => ple x y = true end /\ psorted t
  end.

Lemma ins_pair_cons x y t : ins_pair x (y :: t) = if ple x y then x :: y :: t else y :: ins_pair x t.
Proof. reflexivity. Qed.

Lemma ins_pair_sorted x l : psorted l -> psorted (ins_pair x l).
Proof.
  induction l as [|y t IH]; intros H; [cbn [ins_pair psorted]; auto|].
  rewrite ins_pair_cons. destruct (ple x y) eqn:E.
  - cbn [psorted] in *. auto.
  - cbn [psorted] in H. destruct H as (Hy & Ht). specialize (IH Ht).
    assert (Hyx : ple y x = true) by (unfold ple in *; lia).
    destruct t as [|z t'].
    + cbn [ins_pair psorted]. auto.
    + rewrite ins_pair_cons in *. destruct (ple x z) eqn:E2.
      * cbn [psorted] in *. auto.
      * split; [exact Hy|exact IH].
Qed.

Lemma sort_pairs_psorted l : psorted (fold_right ins_pair [] l).
Proof. induction l as [|x l IH]; [exact I|]. cbn [fold_right]. now apply ins_pair_sorted. Qed.

Lemma proj_insert x L : psorted (map se L) -> map se (insert_quad x L) = ins_pair (se x) (map se L).
Proof.
  induction L as [|y t IH]; intros H; [reflexivity|].
  cbn [map] in H |- *. rewrite ins_pair_cons. cbn [psorted] in H. destruct H as (Hy & Ht). specialize (IH Ht).
  cbn [insert_quad]. destruct (quad_le x y) eqn:E.
  - assert (E2 : ple (se x) (se y) = true).
    { destruct x as (((s, e), cs), ce). destruct y as (((s', e'), cs'), ce'). cbn [quad_le] in E.
      unfold ple. cbn [se fst snd]. lia. }
    rewrite E2. reflexivity.
  - cbn [map]. rewrite IH. destruct (ple (se x) (se y)) eqn:E2; [|reflexivity].
    assert (Exy : se x = se y).
    { destruct x as (((s, e), cs), ce). destruct y as (((s', e'), cs'), ce'). cbn [quad_le] in E.
      unfold ple in E2. cbn [se fst snd] in *. f_equal; lia. }
    destruct t as [|z t']; cbn [map] in *.
    + cbn [ins_pair]. now rewrite Exy.
    + rewrite ins_pair_cons. rewrite Exy. rewrite Hy. reflexivity.
Qed.

Lemma sort_quads_proj Q : map se (sort_quads Q) = fold_right ins_pair [] (map se Q).
Proof.
  induction Q as [|x Q IH]; [reflexivity|]. unfold sort_quads in *. cbn [fold_right map].
  rewrite proj_insert; [now rewrite IH|]. rewrite IH. apply sort_pairs_psorted.
Qed.

Lemma insert_quad_In q x L : In q (insert_quad x L) <-> q = x \/ In q L.
Proof.
  induction L as [|y t IH]; cbn [insert_quad In]; [intuition|].
  destruct (quad_le x y); cbn [In]; [intuition|]. rewrite IH. intuition.
Qed.

Lemma sort_quads_In q Q : In q (sort_quads Q) <-> In q Q.
Proof.
  induction Q as [|x Q IH]; [reflexivity|]. unfold sort_quads in *. cbn [fold_right In].
  rewrite insert_quad_In, IH. intuition.
Qed.

Lemma inv_temp_proj l : forall cum,
  map se (inv_temp cum l) = flat_map (fun sp => match sp with FS s e _ => [(s, e)] | FL _ => [] end) l.
Proof.
  induction l as [|sp l IH]; intros cum; [reflexivity|]. destruct sp as [s e r|n]; cbn [inv_temp flat_map].
  - cbn [map app]. rewrite IH. destruct r; reflexivity.
  - apply IH.
Qed.

(** ** the sorted quadruples form a chain *)

Fixpoint chained (lo : Z) (S : list quad) : Prop :=
  match S with
  | [] => True
  | (s, e, _, _) :: t => lo <= s /\ s <= e /\ chained e t
  end.

Lemma chained_weaken lo lo' S : chained lo S -> lo' <= lo -> chained lo' S.
Proof. destruct S as [|(((s, e), cs), ce) t]; cbn [chained]; intros; [exact I|]. intuition lia. Qed.

Lemma chain_chained S : Forall (fun q => fst (se q) <= snd (se q)) S -> chain_ok (map se S) = true ->
  match S with [] => True | q :: _ => chained (fst (se q)) S end.
Proof.
  induction S as [|q t IH]; intros Hf Hc; [exact I|].
  inversion Hf as [|? ? Hq Ht]; subst. destruct q as (((s, e), cs), ce). cbn [se fst snd] in *.
  cbn [chained]. split; [lia|]. split; [exact Hq|].
  destruct t as [|q' t']; [exact I|]. specialize (IH Ht).
  destruct q' as (((s', e'), cs'), ce'). cbn [map se chain_ok] in Hc. cbn [se fst] in IH.
  apply andb_prop in Hc. destruct Hc as (H1 & H2).
  apply (chained_weaken s'); [|lia]. apply IH. exact H2.
Qed.

Lemma qlook_below lo S : chained lo S -> forall p, p < lo -> qlook p S = None.
Proof.
  revert lo. induction S as [|(((s, e), cs), ce) t IH]; intros lo H p Hp; [reflexivity|].
  cbn [chained] in H. destruct H as (H1 & H2 & H3). cbn [qlook qin].
  destruct ((s <=? p) && (p <? e)) eqn:E; [lia|]. apply (IH e H3). lia.
Qed.

(** ** the cells emitted by [inv_loop] *)

Definition quad_ok (plen L : Z) (q : quad) : Prop :=
  let '(s, e, cs, ce) := q in
  0 <= s /\ s <= e /\ e <= plen /\ 0 <= cs <= L /\ 0 <= ce <= L /\ Z.abs (ce - cs) = e - s.

Lemma map_none_range_aux (f : Z -> option Z) n : forall a,
  (forall p, a <= p < a + Z.of_nat n -> f p = None) -> map f (zrange_aux a n) = repeat None n.
Proof.
  induction n as [|n IH]; intros a H; [reflexivity|]. cbn [zrange_aux map repeat].
  rewrite H by lia. f_equal. apply IH. intros p Hp. apply H. lia.
Qed.

Lemma map_none_range (f : Z -> option Z) a b : a <= b ->
  (forall p, a <= p < b -> f p = None) -> map f (zrange a b) = repeat None (Z.to_nat (b - a)).
Proof. intros Hab H. unfold zrange. apply map_none_range_aux. intros p Hp. apply H. lia. Qed.

Lemma quad_cells s e cs ce : s <= e -> Z.abs (ce - cs) = e - s ->
  den_span (mk_span cs ce (cs >? ce)) = map (fun p => Some (qval (s, e, cs, ce) p)) (zrange s e).
Proof.
  intros Hse Habs. unfold mk_span. destruct (cs >? ce) eqn:E; cbn [den_span].
  - apply (list_ext_znth None).
    + rewrite zlen_rev, !zlen_map, !zlen_zrange; lia.
    + intros i Hi. rewrite zlen_rev, zlen_map, zlen_zrange in Hi by lia.
      rewrite znth_rev_cells by lia.
      rewrite (znth_map _ 0 None) by (rewrite zlen_zrange; lia). rewrite znth_zrange by lia.
      cbn [qval]. destruct (cs <=? ce) eqn:E2; [lia|]. f_equal. lia.
  - apply (list_ext_znth None).
    + rewrite !zlen_map, !zlen_zrange; lia.
    + intros i Hi. rewrite zlen_map, zlen_zrange in Hi by lia.
      rewrite znth_fwd_cells by lia.
      rewrite (znth_map _ 0 None) by (rewrite zlen_zrange; lia). rewrite znth_zrange by lia.
      cbn [qval]. destruct (cs <=? ce) eqn:E2; [|lia]. f_equal. lia.
Qed.

Lemma mk_span_in L cs ce r : 0 <= cs <= L -> 0 <= ce <= L -> span_in L (mk_span cs ce r) = true.
Proof. intros H1 H2. unfold mk_span. destruct (cs >? ce) eqn:E; cbn [span_in]; lia. Qed.

Lemma inv_loop_spec plen L S : Forall (quad_ok plen L) S -> forall ls, 0 <= ls -> chained ls S ->
  exists sp last, inv_loop S ls = Ok (sp, last) /\ ls <= last <= Z.max ls plen /\
    forallb (span_in L) sp = true /\
    flat_map den_span sp = map (fun p => qlook p S) (zrange ls last) /\
    (forall p, last <= p -> qlook p S = None).
Proof.
  induction S as [|q t IH]; intros Hf ls Hls Hc.
  - exists [], ls. split; [reflexivity|]. split; [lia|]. split; [reflexivity|].
    split; [now rewrite zrange_nil by lia|reflexivity].
  - inversion Hf as [|? ? Hq Ht]; subst. destruct q as (((s, e), cs), ce).
    cbn [quad_ok] in Hq. destruct Hq as (Q1 & Q2 & Q3 & Q4 & Q5 & Q6).
    cbn [chained] in Hc. destruct Hc as (C1 & C2 & C3).
    destruct (IH Ht e ltac:(lia) C3) as (tl & last & Htl & Hlast & Hin & Hden & Hnone).
    cbn [inv_loop]. destruct (s <? ls) eqn:E; [lia|]. rewrite Htl. cbn [bind].
    eexists. exists last. split; [reflexivity|]. split; [lia|]. split; [|split].
    + rewrite forallb_app. cbn [forallb]. rewrite Hin, mk_span_in by lia.
      destruct (s >? ls) eqn:E2; cbn [forallb span_in]; lia.
    + rewrite flat_map_app. cbn [flat_map]. rewrite Hden.
      rewrite (zrange_split ls s last), (zrange_split s e last), !map_app by lia.
      f_equal; [|f_equal].
      * rewrite (map_none_range _ ls s); [|lia|].
        2:{ intros p Hp. cbn [qlook qin]. destruct ((s <=? p) && (p <? e)) eqn:E2; [lia|].
            apply (qlook_below e); [exact C3|lia]. }
        destruct (s >? ls) eqn:E2.
        -- cbn [flat_map den_span]. now rewrite app_nil_r.
        -- replace (s - ls) with 0 by lia. reflexivity.
      * rewrite (quad_cells s e) by assumption. apply map_ext_in. intros p Hp. apply zrange_In in Hp.
        cbn [qlook qin]. destruct ((s <=? p) && (p <? e)) eqn:E2; [reflexivity|lia].
      * apply map_ext_in. intros p Hp. apply zrange_In in Hp.
        cbn [qlook qin]. destruct ((s <=? p) && (p <? e)) eqn:E2; [lia|reflexivity].
    + intros p Hp. cbn [qlook qin]. destruct ((s <=? p) && (p <? e)) eqn:E2; [lia|]. apply Hnone. lia.
Qed.

(** ** the unsorted and the sorted [temp] answer every lookup alike *)

Lemma qlook_some p Q v : qlook p Q = Some v -> exists q, In q Q /\ qin q p = true /\ qval q p = v.
Proof.
  induction Q as [|q t IH]; cbn [qlook]; intros H; [discriminate|].
  destruct (qin q p) eqn:E.
  - exists q. split; [now left|]. split; [exact E|]. congruence.
  - destruct (IH H) as (q' & H1 & H2 & H3). exists q'. split; [now right|auto].
Qed.

Lemma qlook_none p Q : qlook p Q = None -> forall q, In q Q -> qin q p = false.
Proof.
  induction Q as [|q t IH]; cbn [qlook]; intros H q' Hq'; [contradiction|].
  destruct (qin q p) eqn:E; [discriminate|]. destruct Hq' as [<-|Hq']; [exact E|now apply IH].
Qed.

Lemma qlook_same p Q1 Q2 : (forall q, In q Q1 <-> In q Q2) ->
  (forall q1 q2, In q1 Q2 -> In q2 Q2 -> qin q1 p = true -> qin q2 p = true -> q1 = q2) ->
  qlook p Q1 = qlook p Q2.
Proof.
  intros Hiff Huniq. destruct (qlook p Q1) as [v|] eqn:E1; destruct (qlook p Q2) as [w|] eqn:E2; try reflexivity.
  - destruct (qlook_some _ _ _ E1) as (q1 & A1 & A2 & A3). destruct (qlook_some _ _ _ E2) as (q2 & B1 & B2 & B3).
    apply Hiff in A1. rewrite (Huniq q1 q2 A1 B1 A2 B2) in A3. congruence.
  - destruct (qlook_some _ _ _ E1) as (q1 & A1 & A2 & A3). apply Hiff in A1.
    rewrite (qlook_none _ _ E2 q1 A1) in A2. discriminate.
  - destruct (qlook_some _ _ _ E2) as (q2 & B1 & B2 & B3). apply Hiff in B1.
    rewrite (qlook_none _ _ E1 q2 B1) in B2. discriminate.
Qed.

Lemma chained_in lo S : chained lo S -> forall q p, In q S -> qin q p = true -> lo <= p.
Proof.
  revert lo. induction S as [|(((s, e), cs), ce) t IH]; intros lo H q p Hq Hp; [contradiction|].
  cbn [chained] in H. destruct H as (H1 & H2 & H3). destruct Hq as [<-|Hq].
  - cbn [qin] in Hp. lia.
  - specialize (IH e H3 q p Hq Hp). lia.
Qed.

Lemma chained_uniq lo S p : chained lo S ->
  forall q1 q2, In q1 S -> In q2 S -> qin q1 p = true -> qin q2 p = true -> q1 = q2.
Proof.
  revert lo. induction S as [|q t IH]; intros lo H q1 q2 H1 H2 P1 P2; [contradiction|].
  destruct q as (((s, e), cs), ce). cbn [chained] in H. destruct H as (A1 & A2 & A3).
  destruct H1 as [<-|H1]; destruct H2 as [<-|H2].
  - reflexivity.
  - pose proof (chained_in e t A3 q2 p H2 P2). cbn [qin] in P1. lia.
  - pose proof (chained_in e t A3 q1 p H1 P1). cbn [qin] in P2. lia.
  - now apply (IH e A3).
Qed.

Lemma inv_temp_ok plen l : forallb (span_in plen) l = true -> forall cum, 0 <= cum ->
  Forall (quad_ok plen (cum + dlen l)) (inv_temp cum l).
Proof.
  induction l as [|sp l IH]; cbn [forallb]; intros H cum Hc; [constructor|].
  apply andb_prop in H. destruct H as (Hsp & Hl). rewrite (dlen_cons plen) by exact Hsp.
  pose proof (dlen_nonneg l) as Hd. destruct sp as [s e r|n]; cbn [inv_temp slen span_in] in *.
  - constructor.
    + destruct r; cbn [quad_ok]; lia.
    + replace (cum + (e - s + dlen l)) with (cum + (e - s) + dlen l) by lia. apply IH; [exact Hl|lia].
  - replace (cum + (n + dlen l)) with (cum + n + dlen l) by lia. apply IH; [exact Hl|lia].
Qed.

(** ** [inverse]: for EVERY in-parent map whose real spans do not overlap
    (reversed, zero-length and lost spans included) *)
Theorem fm_inverse_spec fm : in_parent fm = true -> disjoint_spans fm = true ->
  exists c, fm_inverse fm = Ok c /\ den c = inverse_den (fplen fm) (den fm) /\
            fplen c = zlen (den fm) /\ in_parent c = true.
Proof.
  intros Hin Hdis. pose proof (flen_dlen fm Hin) as HL. unfold in_parent in Hin.
  set (plen := fplen fm) in *. set (l := fspans fm) in *.
  set (T := inv_temp 0 l). set (S := sort_quads T).
  assert (HokT : Forall (quad_ok plen (flen fm)) T).
  { rewrite HL. change (zlen (den fm)) with (0 + dlen l). apply inv_temp_ok; [exact Hin|lia]. }
  assert (HokS : Forall (quad_ok plen (flen fm)) S).
  { rewrite Forall_forall in *. intros q Hq. apply HokT. now apply sort_quads_In. }
  assert (Hchain : chain_ok (map se S) = true).
  { unfold S, T. rewrite sort_quads_proj, inv_temp_proj. exact Hdis. }
  assert (Hch : chained 0 S).
  { assert (Hse : Forall (fun q => fst (se q) <= snd (se q)) S).
    { eapply Forall_impl; [|exact HokS]. intros (((s, e), cs), ce). cbn [quad_ok se fst snd]. lia. }
    pose proof (chain_chained S Hse Hchain) as Hc. destruct S as [|q t] eqn:ES; [exact I|].
    apply (chained_weaken (fst (se q))); [exact Hc|].
    inversion HokS as [|? ? Hq _]; subst. destruct q as (((s, e), cs), ce). cbn [quad_ok se fst] in *. lia. }
  destruct (inv_loop_spec plen (flen fm) S HokS 0 ltac:(lia) Hch) as (sp & last & Hloop & Hlast & Hsp & Hden & Hnone).
  unfold fm_inverse. fold plen l T S. rewrite Hloop. cbn [bind].
  eexists. split; [reflexivity|]. cbn [fplen]. split; [|split; [exact HL|]].
  - unfold den at 1. cbn [fspans]. rewrite flat_map_app, Hden. unfold inverse_den.
    assert (Hq : forall p, qlook p S = index_of p 0 (den fm)).
    { intros p. unfold den. fold l. rewrite (index_of_temp plen) by exact Hin. fold T.
      symmetry. apply qlook_same; [intros q; symmetry; apply sort_quads_In|]. now apply (chained_uniq 0). }
    destruct (plen >? last) eqn:E.
    + cbn [flat_map den_span]. rewrite app_nil_r. rewrite (zrange_split 0 last plen), map_app by lia.
      f_equal; [apply map_ext; exact Hq|].
      rewrite <- (map_none_range (fun p => index_of p 0 (den fm))); [reflexivity|lia|].
      intros p Hp. rewrite <- Hq. apply Hnone. lia.
    + cbn [flat_map]. rewrite app_nil_r.
      assert (Hz : zrange 0 last = zrange 0 plen).
      { destruct (Z_le_gt_dec 0 plen); [f_equal; lia|]. rewrite !zrange_nil by lia. reflexivity. }
      rewrite Hz. apply map_ext. exact Hq.
  - unfold in_parent. cbn [fspans fplen]. rewrite forallb_app, Hsp.
    destruct (plen >? last) eqn:E; cbn [forallb span_in]; lia.
Qed.

Example fm_inverse_spec_example :
  let fm := mk_fmap [FS 4 6 true; FL 1; FS 2 2 false; FS 1 2 false; FS 6 6 true] 7 in
  in_parent fm = true /\ disjoint_spans fm = true /\
  exists c, fm_inverse fm = Ok c /\ den c = [None; Some 3; None; None; Some 1; Some 0; None].
Proof. cbn zeta. split; [reflexivity|]. split; [reflexivity|]. eexists. split; vm_compute; reflexivity. Qed.

(** ** [shadow]: the complement of the covered positions.  [0 <= fplen fm] is
    needed: with a negative parent length (and hence no real span) [shadow]
    answers a map over a parent of length 0. *)
Theorem fm_shadow_spec fm : 0 <= fplen fm -> in_parent fm = true -> disjoint_spans fm = true ->
  exists g, fm_shadow fm = Ok g /\ den g = map Some (complement (fplen fm) (positions fm)) /\
            fplen g = fplen fm /\ in_parent g = true /\ all_forward g = true.
Proof.
  intros Hp Hin Hdis. destruct (fm_inverse_spec fm Hin Hdis) as (c & Hc & Hd & _ & Hic).
  exact (shadow_of_inverse fm c Hp Hc Hd Hic).
Qed.

Example fm_shadow_negative_plen :
  let fm := mk_fmap [] (-1) in
  in_parent fm = true /\ disjoint_spans fm = true /\
  exists g, fm_shadow fm = Ok g /\ fplen g <> fplen fm.
Proof. cbn zeta. split; [reflexivity|]. split; [reflexivity|]. eexists. split; [vm_compute; reflexivity|]. cbn. lia. Qed.

(** a map with at least one real span inside its parent has a non-negative parent length *)
Lemma useful_plen_nonneg fm : in_parent fm = true -> fuseful fm = true -> 0 <= fplen fm.
Proof.
  unfold in_parent, fuseful. intros Hin Hu. apply existsb_exists in Hu. destruct Hu as (sp & Hsp & Hl).
  rewrite forallb_forall in Hin. specialize (Hin sp Hsp). destruct sp as [s e r|n]; [|discriminate].
  cbn [span_in] in Hin. lia.
Qed.

Corollary fm_shadow_spec_useful fm : fuseful fm = true -> in_parent fm = true -> disjoint_spans fm = true ->
  exists g, fm_shadow fm = Ok g /\ den g = map Some (complement (fplen fm) (positions fm)) /\
            fplen g = fplen fm /\ in_parent g = true /\ all_forward g = true.
Proof. intros Hu Hin Hdis. apply fm_shadow_spec; auto. now apply useful_plen_nonneg. Qed.

(** * Part B: [covered] *)

(** * 1. weighted sums over association lists *)

Fixpoint wsum (p : Z) (D : list (Z * Z)) : Z :=
  match D with [] => 0 | (k, v) :: t => (if k <=? p then v else 0) + wsum p t end.
Fixpoint wtotal (D : list (Z * Z)) : Z :=
  match D with [] => 0 | (_, v) :: t => v + wtotal t end.

Lemma wsum_dict_add p k v D : wsum p (dict_add k 0 v D) = wsum p D + (if k <=? p then v else 0).
Proof.
  induction D as [|[k' x] t IH]; cbn [dict_add wsum].
  - destruct (k <=? p); lia.
  - destruct (k' =? k) eqn:E.
    + cbn [wsum]. assert (k' = k) by lia. subst k'. destruct (k <=? p); lia.
    + cbn [wsum]. rewrite IH. lia.
Qed.

Lemma wtotal_dict_add k v D : wtotal (dict_add k 0 v D) = wtotal D + v.
Proof.
  induction D as [|[k' x] t IH]; cbn [dict_add wtotal]; [lia|].
  destruct (k' =? k) eqn:E; cbn [wtotal]; [lia|]. rewrite IH. lia.
Qed.

Lemma wsum_insert p a L : wsum p (insert_pair a L) = wsum p (a :: L).
Proof.
  destruct a as [k v]. induction L as [|[k' v'] t IH]; [reflexivity|]. cbn [insert_pair].
  destruct ((fst (k, v) <? fst (k', v')) || ((fst (k, v) =? fst (k', v')) && (snd (k, v) <=? snd (k', v')))) eqn:E; [reflexivity|].
  cbn [wsum] in *. rewrite IH. lia.
Qed.

Lemma wtotal_insert a L : wtotal (insert_pair a L) = wtotal (a :: L).
Proof.
  destruct a as [k v]. induction L as [|[k' v'] t IH]; [reflexivity|]. cbn [insert_pair].
  destruct ((fst (k, v) <? fst (k', v')) || ((fst (k, v) =? fst (k', v')) && (snd (k, v) <=? snd (k', v')))) eqn:E; [reflexivity|].
  cbn [wtotal] in *. rewrite IH. lia.
Qed.

Lemma wsum_sort p D : wsum p (sort_pairs D) = wsum p D.
Proof.
  unfold sort_pairs. induction D as [|[k v] t IH]; [reflexivity|]. cbn [fold_right].
  rewrite wsum_insert. cbn [wsum]. now rewrite IH.
Qed.

Lemma wtotal_sort D : wtotal (sort_pairs D) = wtotal D.
Proof.
  unfold sort_pairs. induction D as [|[k v] t IH]; [reflexivity|]. cbn [fold_right].
  rewrite wtotal_insert. cbn [wtotal]. now rewrite IH.
Qed.

Fixpoint cnt (p : Z) (l : list fspan) : Z :=
  match l with
  | [] => 0
  | FS s e _ :: t => (if s <=? p then 1 else 0) - (if e <=? p then 1 else 0) + cnt p t
  | FL _ :: t => cnt p t
  end.

Lemma wsum_cov_delta p l : forall D0, wsum p (cov_delta l D0) = wsum p D0 + cnt p l.
Proof.
  induction l as [|[s e r|n] t IH]; intros D0; cbn [cov_delta cnt]; [lia| |apply IH].
  rewrite IH, !wsum_dict_add. destruct (s <=? p), (e <=? p); lia.
Qed.

Lemma wtotal_cov_delta l : forall D0, wtotal (cov_delta l D0) = wtotal D0.
Proof.
  induction l as [|[s e r|n] t IH]; intros D0; cbn [cov_delta]; [reflexivity| |apply IH].
  rewrite IH, !wtotal_dict_add. lia.
Qed.

Definition covp (l : list fspan) (p : Z) : Prop := exists s e r, In (FS s e r) l /\ s <= p < e.

Lemma cnt_spec plen p l : forallb (span_in plen) l = true -> 0 <= cnt p l /\ (0 < cnt p l <-> covp l p).
Proof.
  induction l as [|[s e r|n] t IH]; cbn [forallb cnt]; intros H.
  - split; [lia|]. split; [lia|]. intros (s & e & r & [] & _).
  - apply andb_prop in H. destruct H as (Hx & Ht). cbn [span_in] in Hx.
    destruct (IH Ht) as (IH0 & IH1). assert (Hse : s <= e) by lia.
    destruct (s <=? p) eqn:E1; destruct (e <=? p) eqn:E2; (split; [lia|]).
    + split.
      * intros Hc. assert (Hc' : 0 < cnt p t) by lia. apply IH1 in Hc'.
        destruct Hc' as (s' & e' & r' & Hin & Hp). exists s', e', r'. split; [now right|exact Hp].
      * intros (s' & e' & r' & [Heq|Hin] & Hp).
        { injection Heq as -> -> ->. lia. }
        { assert (0 < cnt p t) by (apply IH1; exists s', e', r'; auto). lia. }
    + split; [|intros _; lia]. intros _. exists s, e, r. split; [now left|lia].
    + lia.
    + split.
      * intros Hc. assert (Hc' : 0 < cnt p t) by lia. apply IH1 in Hc'.
        destruct Hc' as (s' & e' & r' & Hin & Hp). exists s', e', r'. split; [now right|exact Hp].
      * intros (s' & e' & r' & [Heq|Hin] & Hp).
        { injection Heq as -> -> ->. lia. }
        { assert (0 < cnt p t) by (apply IH1; exists s', e', r'; auto). lia. }
  - apply andb_prop in H. destruct H as (Hx & Ht). destruct (IH Ht) as (IH0 & IH1). split; [exact IH0|].
    split.
    + intros Hc. apply IH1 in Hc. destruct Hc as (s' & e' & r' & Hin & Hp). exists s', e', r'. split; [now right|exact Hp].
    + intros (s' & e' & r' & [Heq|Hin] & Hp); [discriminate|]. apply IH1. exists s', e', r'. auto.
Qed.

(** * 2. keys, sortedness *)

Lemma dict_add_keys k pos d v D : In k (map fst (dict_add pos d v D)) <-> k = pos \/ In k (map fst D).
Proof.
  induction D as [|[k' x] t IH]; cbn [dict_add map fst In].
  - intuition congruence.
  - destruct (k' =? pos) eqn:E; cbn [map fst In].
    + assert (k' = pos) by lia. subst k'. intuition congruence.
    + rewrite IH. intuition congruence.
Qed.

Lemma dict_add_nodup pos d v D : NoDup (map fst D) -> NoDup (map fst (dict_add pos d v D)).
Proof.
  induction D as [|[k' x] t IH]; cbn [dict_add map fst]; intros H.
  - constructor; [intros []|constructor].
  - inversion H as [|a b Hn Ht]; subst. destruct (k' =? pos) eqn:E; cbn [map fst].
    + constructor; assumption.
    + constructor; [|now apply IH]. rewrite dict_add_keys. intros [Heq|Hin]; [lia|contradiction].
Qed.

Lemma cov_delta_nodup l : forall D0, NoDup (map fst D0) -> NoDup (map fst (cov_delta l D0)).
Proof.
  induction l as [|[s e r|n] t IH]; intros D0 H; cbn [cov_delta]; [exact H| |now apply IH].
  apply IH. now apply dict_add_nodup, dict_add_nodup.
Qed.

Lemma cov_delta_keys k l : forall D0, In k (map fst (cov_delta l D0)) ->
  In k (map fst D0) \/ exists s e r, In (FS s e r) l /\ (k = s \/ k = e).
Proof.
  induction l as [|[s e r|n] t IH]; intros D0 H; cbn [cov_delta] in H.
  - now left.
  - apply IH in H. destruct H as [H|(s' & e' & r' & Hin & Hk)].
    + rewrite !dict_add_keys in H. destruct H as [->|[->|H]].
      * right. exists s, e, r. split; [now left|now right].
      * right. exists s, e, r. split; [now left|now left].
      * now left.
    + right. exists s', e', r'. split; [now right|exact Hk].
  - apply IH in H. destruct H as [H|(s' & e' & r' & Hin & Hk)]; [now left|].
    right. exists s', e', r'. split; [now right|exact Hk].
Qed.

Lemma insert_pair_in x a L : In x (insert_pair a L) <-> x = a \/ In x L.
Proof.
  induction L as [|y t IH]; cbn [insert_pair In].
  - intuition congruence.
  - destruct ((fst a <? fst y) || ((fst a =? fst y) && (snd a <=? snd y))); cbn [In].
    + intuition congruence.
    + rewrite IH. intuition congruence.
Qed.

Lemma sort_pairs_in x D : In x (sort_pairs D) <-> In x D.
Proof.
  unfold sort_pairs. induction D as [|a t IH]; cbn [fold_right In]; [tauto|].
  rewrite insert_pair_in, IH. intuition congruence.
Qed.

Lemma fsorted_insert a L : forall lo, fsorted lo L -> lo < fst a -> ~ In (fst a) (map fst L) ->
  fsorted lo (insert_pair a L).
Proof.
  induction L as [|y t IH]; intros lo Hs Hlo Hn.
  - cbn [insert_pair fsorted]. split; [exact Hlo|exact I].
  - cbn [fsorted] in Hs. destruct Hs as (Hy & Ht). cbn [map In] in Hn. cbn [insert_pair].
    assert (Hne : fst y <> fst a) by (intros E; apply Hn; now left).
    destruct ((fst a <? fst y) || ((fst a =? fst y) && (snd a <=? snd y))) eqn:E.
    + cbn [fsorted]. split; [exact Hlo|]. split; [lia|exact Ht].
    + cbn [fsorted]. split; [exact Hy|]. apply IH; [exact Ht|lia|]. intros Hin. apply Hn. now right.
Qed.

Lemma sort_pairs_fsorted lo D : NoDup (map fst D) -> (forall x, In x D -> lo < fst x) ->
  fsorted lo (sort_pairs D).
Proof.
  unfold sort_pairs. induction D as [|a t IH]; cbn [map fold_right]; intros Hn Hlo; [exact I|].
  inversion Hn as [|a' b' Hna Hnt]; subst. apply fsorted_insert.
  - apply IH; [exact Hnt|]. intros x Hx. apply Hlo. now right.
  - apply Hlo. now left.
  - intros Hin. apply Hna. apply in_map_iff in Hin. destruct Hin as (x & Hfx & Hx).
    apply (sort_pairs_in x t) in Hx. apply in_map_iff. exists x. auto.
Qed.

Lemma fsorted_wsum0 t : forall x p, fsorted x t -> p <= x -> wsum p t = 0.
Proof.
  induction t as [|[k v] t IH]; intros x p Hs Hp; [reflexivity|].
  cbn [fsorted fst] in Hs. destruct Hs as (Hk & Ht). cbn [wsum].
  destruct (k <=? p) eqn:E; [lia|]. rewrite (IH k p Ht) by lia. lia.
Qed.

(** * 3. the sweep *)

Definition flat (L : list (Z * Z)) : list Z := flat_map (fun x => zrange (fst x) (snd x)) L.

Fixpoint sep (prev : Z) (L : list (Z * Z)) : Prop :=
  match L with [] => True | (a, b) :: t => prev < a /\ a < b /\ sep b t end.

Lemma sep_weaken L lo lo' : sep lo L -> lo' <= lo -> sep lo' L.
Proof. destruct L as [|[a b] t]; cbn [sep]; [auto|]. intros (H1 & H2 & H3) Hl. split; [lia|]. split; assumption. Qed.

Lemma sep_in L : forall lo a b, sep lo L -> In (a, b) L -> lo < a /\ a < b.
Proof.
  induction L as [|[a' b'] t IH]; intros lo a b Hs Hin; [contradiction|].
  cbn [sep] in Hs. destruct Hs as (H1 & H2 & H3). destruct Hin as [Heq|Hin].
  - injection Heq as -> ->. lia.
  - specialize (IH _ _ _ H3 Hin). lia.
Qed.

Lemma flat_in p L : In p (flat L) <-> exists a b, In (a, b) L /\ a <= p < b.
Proof.
  unfold flat. rewrite in_flat_map. split.
  - intros ([a b] & Hin & Hp). cbn [fst snd] in Hp. apply zrange_In in Hp. exists a, b. auto.
  - intros (a & b & Hin & Hp). exists (a, b). split; [exact Hin|]. cbn [fst snd]. now apply zrange_In.
Qed.

Lemma sep_flat L lo p : sep lo L -> In p (flat L) -> lo < p.
Proof.
  intros Hs Hin. apply flat_in in Hin. destruct Hin as (a & b & Hin & Hp).
  pose proof (sep_in L lo a b Hs Hin). lia.
Qed.

Lemma flat_cons a b t p : In p (flat ((a, b) :: t)) <-> a <= p < b \/ In p (flat t).
Proof. unfold flat. cbn [flat_map fst snd]. rewrite in_app_iff, zrange_In. tauto. Qed.

Lemma cov_sweep_cons x dx t y ly start :
  cov_sweep ((x, dx) :: t) y ly start =
  if negb (y + dx =? 0) && (ly =? 0) then
    match start with Some _ => Err E_Other | None => cov_sweep t (y + dx) (y + dx) (Some x) end
  else if negb (ly =? 0) && (y + dx =? 0) then
    bind (cov_sweep t (y + dx) (y + dx) None) (fun tl =>
      match start with Some s => Ok ((s, x) :: tl) | None => Err E_Type end)
  else cov_sweep t (y + dx) (y + dx) start.
Proof. reflexivity. Qed.

Lemma sweep_spec items : forall lo y start,
  fsorted lo items ->
  (forall p, 0 <= y + wsum p items) ->
  y + wtotal items = 0 ->
  ((y = 0 /\ start = None) \/ (0 < y /\ exists a, start = Some a /\ a <= lo)) ->
  exists locs, cov_sweep items y y start = Ok locs /\
    (forall p, lo <= p -> (In p (flat locs) <-> 0 < y + wsum p items)) /\
    match start with
    | None => sep lo locs
    | Some a => exists b rest, locs = (a, b) :: rest /\ lo < b /\ sep b rest
    end.
Proof.
  induction items as [|[x dx] t IH]; intros lo y start Hs Hnn Htot Hst.
  - cbn [wtotal] in Htot. assert (y = 0) by lia. subst y. cbn [cov_sweep Z.eqb].
    exists []. split; [reflexivity|]. split.
    + intros p _. cbn [flat flat_map wsum In]. lia.
    + destruct Hst as [(_ & ->)|(Hy & _)]; [exact I|lia].
  - cbn [fsorted fst] in Hs. destruct Hs as (Hlx & Hst').
    assert (W0 : forall p, p <= x -> wsum p t = 0) by (intros p Hp; now apply (fsorted_wsum0 t x p)).
    assert (Hlow : forall p, p < x -> wsum p ((x, dx) :: t) = 0).
    { intros p Hp. cbn [wsum]. destruct (x <=? p) eqn:E; [lia|]. rewrite W0 by lia. lia. }
    assert (Hhigh : forall p, x <= p -> y + wsum p ((x, dx) :: t) = y + dx + wsum p t).
    { intros p Hp. cbn [wsum]. destruct (x <=? p) eqn:E; lia. }
    assert (Hy' : 0 <= y + dx).
    { pose proof (Hnn x) as Hx. rewrite Hhigh, W0 in Hx by lia. lia. }
    assert (Hnn' : forall p, 0 <= y + dx + wsum p t).
    { intros p. destruct (Z_lt_le_dec p x) as [Hp|Hp].
      - rewrite W0 by lia. lia.
      - rewrite <- Hhigh by lia. apply Hnn. }
    assert (Htot' : y + dx + wtotal t = 0) by (cbn [wtotal] in Htot; lia).
    rewrite cov_sweep_cons.
    destruct (negb (y + dx =? 0) && (y =? 0)) eqn:C1.
    + (* a block opens at x *)
      assert (Hy0 : y = 0) by lia. assert (Hdx : 0 < y + dx) by lia.
      destruct Hst as [(_ & ->)|(Hy & _)]; [|lia].
      destruct (IH x (y + dx) (Some x) Hst' Hnn' Htot') as (locs & Hrun & Hmem & b & rest & Hlocs & Hxb & Hsep).
      { right. split; [exact Hdx|]. exists x. split; [reflexivity|lia]. }
      exists locs. split; [exact Hrun|]. split.
      * intros p Hp. destruct (Z_lt_le_dec p x) as [Hpx|Hpx].
        { rewrite Hlow by lia. split; [|lia]. intros Hin. rewrite Hlocs in Hin. apply flat_cons in Hin.
          destruct Hin as [Hin|Hin]; [lia|]. pose proof (sep_flat rest b p Hsep Hin). lia. }
        { rewrite Hhigh by lia. apply Hmem. lia. }
      * rewrite Hlocs. cbn [sep]. split; [lia|]. split; [lia|exact Hsep].
    + destruct (negb (y =? 0) && (y + dx =? 0)) eqn:C2.
      * (* a block closes at x *)
        assert (Hy0 : y <> 0) by lia. assert (Hdx : y + dx = 0) by lia.
        destruct Hst as [(Hy & _)|(Hy & a & -> & Ha)]; [lia|].
        destruct (IH x (y + dx) None Hst' Hnn' Htot') as (tl & Hrun & Hmem & Hsep).
        { left. split; [exact Hdx|reflexivity]. }
        rewrite Hrun. cbn [bind]. exists ((a, x) :: tl). split; [reflexivity|]. split.
        { intros p Hp. rewrite flat_cons. destruct (Z_lt_le_dec p x) as [Hpx|Hpx].
          - rewrite Hlow by lia. split; [lia|]. intros _. left. lia.
          - rewrite Hhigh by lia. rewrite <- Hmem by lia. split; [|tauto]. intros [Hin|Hin]; [lia|exact Hin]. }
        { exists x, tl. split; [reflexivity|]. split; [lia|exact Hsep]. }
      * destruct Hst as [(Hy & ->)|(Hy & a & -> & Ha)].
        { (* outside a block *)
          assert (Hdx : y + dx = 0) by lia.
          destruct (IH x (y + dx) None Hst' Hnn' Htot') as (locs & Hrun & Hmem & Hsep).
          { left. split; [exact Hdx|reflexivity]. }
          exists locs. split; [exact Hrun|]. split.
          - intros p Hp. destruct (Z_lt_le_dec p x) as [Hpx|Hpx].
            + rewrite Hlow by lia. split; [|lia]. intros Hin. pose proof (sep_flat locs x p Hsep Hin). lia.
            + rewrite Hhigh by lia. apply Hmem. lia.
          - apply (sep_weaken locs x lo Hsep). lia. }
        { (* inside a block *)
          assert (Hdx : 0 < y + dx) by lia.
          destruct (IH x (y + dx) (Some a) Hst' Hnn' Htot') as (locs & Hrun & Hmem & b & rest & Hlocs & Hxb & Hsep).
          { right. split; [exact Hdx|]. exists a. split; [reflexivity|lia]. }
          exists locs. split; [exact Hrun|]. split.
          - intros p Hp. destruct (Z_lt_le_dec p x) as [Hpx|Hpx].
            + rewrite Hlow by lia. split; [lia|]. intros _. rewrite Hlocs. apply flat_cons. left. lia.
            + rewrite Hhigh by lia. apply Hmem. lia.
          - exists b, rest. split; [exact Hlocs|]. split; [lia|exact Hsep]. }
Qed.

(** * 4. strictly increasing lists, positions *)

Fixpoint ssorted (lo : Z) (l : list Z) : Prop :=
  match l with [] => True | x :: t => lo < x /\ ssorted x t end.

Lemma ssorted_weaken l lo lo' : ssorted lo l -> lo' <= lo -> ssorted lo' l.
Proof. destruct l as [|x t]; cbn [ssorted]; [auto|]. intros (H1 & H2) Hl. split; [lia|exact H2]. Qed.

Lemma ssorted_in l : forall lo x, ssorted lo l -> In x l -> lo < x.
Proof.
  induction l as [|y t IH]; intros lo x Hs Hin; [contradiction|]. cbn [ssorted] in Hs.
  destruct Hs as (H1 & H2). destruct Hin as [->|Hin]; [exact H1|]. specialize (IH _ _ H2 Hin). lia.
Qed.

Lemma strict_sorted_ext l1 : forall l2 lo, ssorted lo l1 -> ssorted lo l2 ->
  (forall x, In x l1 <-> In x l2) -> l1 = l2.
Proof.
  induction l1 as [|x t1 IH]; intros [|y t2] lo H1 H2 Hm.
  - reflexivity.
  - exfalso. apply (Hm y). now left.
  - exfalso. apply (Hm x). now left.
  - cbn [ssorted] in H1, H2. destruct H1 as (Hx & Ht1). destruct H2 as (Hy & Ht2).
    assert (Exy : x = y).
    { assert (A : In x (y :: t2)) by (apply Hm; now left).
      assert (B : In y (x :: t1)) by (apply Hm; now left).
      destruct A as [A|A]; [auto|]. destruct B as [B|B]; [auto|].
      pose proof (ssorted_in t2 y x Ht2 A). pose proof (ssorted_in t1 x y Ht1 B). lia. }
    subst y. f_equal. apply (IH t2 x Ht1 Ht2). intros z. split; intros Hz.
    + assert (A : In z (x :: t2)) by (apply Hm; now right). destruct A as [A|A]; [|exact A].
      pose proof (ssorted_in t1 x z Ht1 Hz). lia.
    + assert (A : In z (x :: t1)) by (apply Hm; now right). destruct A as [A|A]; [|exact A].
      pose proof (ssorted_in t2 x z Ht2 Hz). lia.
Qed.

Lemma ssorted_zrange_app n : forall a lo rest, lo < a -> ssorted (a + Z.of_nat n - 1) rest ->
  ssorted lo (zrange_aux a n ++ rest).
Proof.
  induction n as [|n IH]; intros a lo rest Hlo Hr.
  - cbn [zrange_aux app]. apply (ssorted_weaken rest _ lo Hr). lia.
  - cbn [zrange_aux app ssorted]. split; [exact Hlo|]. apply IH; [lia|].
    replace (a + 1 + Z.of_nat n - 1) with (a + Z.of_nat (S n) - 1) by lia. exact Hr.
Qed.

Lemma sep_ssorted L : forall lo, sep lo L -> ssorted lo (flat L).
Proof.
  induction L as [|[a b] t IH]; intros lo Hs; [exact I|]. cbn [sep] in Hs. destruct Hs as (H1 & H2 & H3).
  unfold flat. cbn [flat_map fst snd]. unfold zrange. apply ssorted_zrange_app; [exact H1|].
  apply (ssorted_weaken _ b); [apply IH; exact H3|lia].
Qed.

Lemma ins_in x y l : In x (ins y l) <-> x = y \/ In x l.
Proof.
  induction l as [|z t IH]; cbn [ins In]; [intuition congruence|].
  destruct (y <? z) eqn:E1; [cbn [In]; intuition congruence|].
  destruct (y =? z) eqn:E2.
  - assert (y = z) by lia. subst z. cbn [In]. intuition congruence.
  - cbn [In]. rewrite IH. intuition congruence.
Qed.

Lemma ssorted_ins x l : forall lo, ssorted lo l -> lo < x -> ssorted lo (ins x l).
Proof.
  induction l as [|z t IH]; intros lo Hs Hlo.
  - cbn [ins ssorted]. auto.
  - cbn [ssorted] in Hs. destruct Hs as (Hz & Ht). cbn [ins].
    destruct (x <? z) eqn:E1.
    + cbn [ssorted]. split; [exact Hlo|]. split; [lia|exact Ht].
    + destruct (x =? z) eqn:E2.
      * cbn [ssorted]. split; assumption.
      * cbn [ssorted]. split; [exact Hz|]. apply IH; [exact Ht|lia].
Qed.

Lemma pos_of_in p d : In p (pos_of d) <-> In (Some p) d.
Proof.
  induction d as [|[q|] t IH]; cbn [pos_of fold_right In]; [tauto| |].
  - fold (pos_of t). rewrite ins_in, IH. intuition congruence.
  - fold (pos_of t). rewrite IH. intuition congruence.
Qed.

Lemma pos_of_ssorted lo d : (forall p, In (Some p) d -> lo < p) -> ssorted lo (pos_of d).
Proof.
  induction d as [|[q|] t IH]; intros H; cbn [pos_of fold_right]; [exact I| |].
  - fold (pos_of t). apply ssorted_ins; [|apply H; now left]. apply IH. intros p Hp. apply H. now right.
  - fold (pos_of t). apply IH. intros p Hp. apply H. now right.
Qed.

Lemma den_span_in p sp : In (Some p) (den_span sp) <-> exists s e r, sp = FS s e r /\ s <= p < e.
Proof.
  destruct sp as [s e r|n]; cbn [den_span].
  - assert (A : In (Some p) (map Some (zrange s e)) <-> s <= p < e).
    { rewrite in_map_iff. split.
      - intros (q & Hq & Hin). injection Hq as ->. now apply zrange_In.
      - intros Hp. exists p. split; [reflexivity|]. now apply zrange_In. }
    split.
    + intros Hin. exists s, e, r. split; [reflexivity|]. apply A. destruct r; [now apply in_rev|exact Hin].
    + intros (s' & e' & r' & Heq & Hp). injection Heq as <- <- <-. apply A in Hp.
      destruct r; [now apply in_rev in Hp|exact Hp].
  - split.
    + intros Hin. apply repeat_spec in Hin. discriminate.
    + intros (s & e & r & Heq & _). discriminate.
Qed.

Lemma den_in p fm : In (Some p) (den fm) <-> covp (fspans fm) p.
Proof.
  unfold den, covp. rewrite in_flat_map. split.
  - intros (sp & Hin & Hp). apply den_span_in in Hp. destruct Hp as (s & e & r & -> & Hp). exists s, e, r. auto.
  - intros (s & e & r & Hin & Hp). exists (FS s e r). split; [exact Hin|]. apply den_span_in. exists s, e, r. auto.
Qed.

Lemma sep_separated L : forall lo, sep lo L -> separated lo (map (fun x => FS (fst x) (snd x) false) L) = true.
Proof.
  induction L as [|[a b] t IH]; intros lo Hs; [reflexivity|]. cbn [sep] in Hs. destruct Hs as (H1 & H2 & H3).
  cbn [map fst snd separated]. rewrite (IH b H3). lia.
Qed.

(** * 5. [covered] *)

Theorem fm_covered_spec fm : in_parent fm = true ->
  exists c, fm_covered fm = Ok c /\ den c = map Some (positions fm) /\
            separated (-1) (fspans c) = true /\ fplen c = fplen fm /\ in_parent c = true.
Proof.
  intros Hin. unfold in_parent in Hin. set (l := fspans fm) in *. set (plen := fplen fm) in *.
  assert (Hall : forall s e r, In (FS s e r) l -> 0 <= s /\ s <= e /\ e <= plen).
  { intros s e r Hi. rewrite forallb_forall in Hin. specialize (Hin _ Hi). cbn [span_in] in Hin. lia. }
  set (D := cov_delta l []). set (items := sort_pairs D).
  assert (Hnd : NoDup (map fst D)) by (apply cov_delta_nodup; constructor).
  assert (Hkeys : forall x, In x D -> -1 < fst x).
  { intros x Hx. assert (Hk : In (fst x) (map fst D)) by (apply in_map; exact Hx).
    apply cov_delta_keys in Hk. destruct Hk as [[]|(s & e & r & Hi & Hk)].
    pose proof (Hall s e r Hi). lia. }
  assert (Hsorted : fsorted (-1) items) by (apply sort_pairs_fsorted; assumption).
  assert (Hws : forall p, wsum p items = cnt p l).
  { intros p. unfold items, D. rewrite wsum_sort, wsum_cov_delta. cbn [wsum]. lia. }
  assert (Hwt : wtotal items = 0).
  { unfold items, D. rewrite wtotal_sort, wtotal_cov_delta. reflexivity. }
  destruct (sweep_spec items (-1) 0 None Hsorted) as (locs & Hrun & Hmem & Hsep).
  { intros p. rewrite Hws. pose proof (cnt_spec plen p l Hin). lia. }
  { lia. }
  { left. split; reflexivity. }
  assert (Hcov : forall p, In p (flat locs) <-> covp l p).
  { intros p. destruct (Z_lt_le_dec p (-1)) as [Hp|Hp].
    - split.
      + intros Hi. pose proof (sep_flat locs (-1) p Hsep Hi). lia.
      + intros (s & e & r & Hi & Hpp). pose proof (Hall s e r Hi). lia.
    - rewrite (Hmem p Hp), Hws. cbn [Z.add]. apply (cnt_spec plen p l Hin). }
  assert (Hb : forall x, In x locs -> 0 <= fst x <= snd x /\ snd x <= plen).
  { intros [a b] Hx. cbn [fst snd]. pose proof (sep_in locs (-1) a b Hsep Hx) as Hab.
    assert (Hc : covp l (b - 1)).
    { apply Hcov. apply flat_in. exists a, b. split; [exact Hx|lia]. }
    destruct Hc as (s & e & r & Hi & Hp). pose proof (Hall s e r Hi). lia. }
  assert (Hsfl : spans_from_locations locs plen = Ok (map (fun x => FS (fst x) (snd x) false) locs)).
  { unfold spans_from_locations. destruct locs as [|[s0 e0] rest] eqn:El; [reflexivity|].
    destruct (last_end_in ((s0, e0) :: rest)) as (s & Hs); [discriminate|].
    assert (Hh : s0 < last_end ((s0, e0) :: rest)).
    { cbn [sep] in Hsep. destruct Hsep as (H1 & H2 & H3). destruct Hs as [Heq|Hs].
      - injection Heq as _ <-. exact H2.
      - pose proof (sep_in rest e0 _ _ H3 Hs). lia. }
    destruct (s0 >? last_end ((s0, e0) :: rest)) eqn:E; [lia|]. now apply sfl_loop_ok. }
  unfold fm_covered. fold l. fold D. fold items. rewrite Hrun. cbn [bind]. unfold from_locations.
  fold plen. rewrite Hsfl. cbn [bind]. eexists. split; [reflexivity|]. cbn [fspans fplen].
  split; [|split; [|split]].
  - unfold den at 1. cbn [fspans]. rewrite den_forward_locs. f_equal. fold (flat locs).
    apply (strict_sorted_ext (flat locs) (positions fm) (-1)).
    + now apply sep_ssorted.
    + change (positions fm) with (pos_of (den fm)). apply pos_of_ssorted. intros p Hp.
      apply den_in in Hp. destruct Hp as (s & e & r & Hi & Hpp). pose proof (Hall s e r Hi). lia.
    + intros p. change (positions fm) with (pos_of (den fm)). rewrite pos_of_in, den_in. apply Hcov.
  - now apply sep_separated.
  - reflexivity.
  - unfold in_parent. cbn [fspans fplen]. apply forallb_forall. intros sp Hsp.
    apply in_map_iff in Hsp. destruct Hsp as (x & <- & Hx). specialize (Hb x Hx). cbn [span_in]. lia.
Qed.

Example fm_covered_example :
  let fm := mk_fmap [FS 2 5 true; FS 1 1 false; FL 2; FS 4 7 false; FS 9 10 false] 10 in
  in_parent fm = true /\
  exists c, fm_covered fm = Ok c /\ den c = [Some 2; Some 3; Some 4; Some 5; Some 6; Some 9] /\
            fspans c = [FS 2 7 false; FS 9 10 false].
Proof. cbn zeta. split; [reflexivity|]. eexists. split; [|split]; vm_compute; reflexivity. Qed.
