(** C08 — general (unbounded) proofs for [FeatureMap.inverse], [shadow] and
    [covered] against Spec/FeatureMapSpec.v.  The statements are the ones
    checked by enumeration in Proofs/FeatureMapBounded.v. *)
From CG3 Require Import Lib.PyZ Lib.Val Model.IndelMap Model.FeatureMap Spec.FeatureMapSpec Proofs.IndelMapProofs Proofs.FeatureMapBounded Proofs.FeatureMapProofs.

Local Open Scope Z_scope.

(** * Part A: [inverse] *)

(** ** [index_of] on concatenations and on the cells of one span *)

Lemma index_of_app p a : forall i b,
  index_of p i (a ++ b) = match index_of p i a with Some x => Some x | None => index_of p (i + zlen a) b end.
Proof.
  induction a as [|o a IH]; intros i b.
  - cbn [app index_of]. change (zlen (@nil (option Z))) with 0. now rewrite Z.add_0_r.
  - cbn [app index_of]. rewrite zlen_cons. replace (i + (1 + zlen a)) with (i + 1 + zlen a) by lia.
    destruct o as [q|]; [destruct (q =? p); [reflexivity|]|]; apply IH.
Qed.

Lemma index_of_absent p d : (forall o, In o d -> o <> Some p) -> forall i, index_of p i d = None.
Proof.
  induction d as [|o d IH]; intros H i; [reflexivity|]. cbn [index_of].
  assert (Hd : forall o', In o' d -> o' <> Some p) by (intros o' Ho; apply H; now right).
  destruct o as [q|]; [|now apply IH].
  destruct (q =? p) eqn:E; [|now apply IH].
  exfalso. apply (H (Some q)); [now left|]. f_equal. lia.
Qed.

Lemma index_of_first p d : forall i k, 0 <= k < zlen d -> znth None d k = Some p ->
  (forall j, 0 <= j < k -> znth None d j <> Some p) -> index_of p i d = Some (i + k).
Proof.
  induction d as [|o d IH]; intros i k Hk Hn Hb.
  - change (zlen (@nil (option Z))) with 0 in Hk. lia.
  - rewrite zlen_cons in Hk. cbn [index_of]. destruct (Z.eq_dec k 0) as [->|Hne].
    + rewrite znth_0 in Hn. subst o. rewrite Z.eqb_refl. f_equal. lia.
    + assert (Ho : o <> Some p) by (specialize (Hb 0 ltac:(lia)); now rewrite znth_0 in Hb).
      rewrite znth_pos in Hn by lia.
      assert (E : index_of p (i + 1) d = Some (i + 1 + (k - 1))).
      { apply IH; [lia|exact Hn|]. intros j Hj. specialize (Hb (j + 1) ltac:(lia)).
        rewrite znth_pos in Hb by lia. now replace (j + 1 - 1) with j in Hb by lia. }
      replace (i + 1 + (k - 1)) with (i + k) in E by lia.
      destruct o as [q|]; [|exact E]. destruct (q =? p) eqn:Eq; [|exact E].
      exfalso. apply Ho. f_equal. lia.
Qed.

(** a quadruple [(s, e, cs, ce)] of [inverse]'s [temp]: parent interval [s, e),
    map interval [min cs ce, max cs ce), reversed iff [cs > ce] *)
Definition qval (q : quad) (p : Z) : Z :=
  let '(s, e, cs, ce) := q in if cs <=? ce then cs + (p - s) else ce + (e - 1 - p).
Definition qin (q : quad) (p : Z) : bool :=
  let '(s, e, _, _) := q in (s <=? p) && (p <? e).

(** the first quadruple whose parent interval contains [p] *)
Fixpoint qlook (p : Z) (Q : list quad) : option Z :=
  match Q with
  | [] => None
  | q :: t => if qin q p then Some (qval q p) else qlook p t
  end.

Lemma znth_fwd_cells s e k : 0 <= k < e - s -> znth None (map Some (zrange s e)) k = Some (s + k).
Proof.
  intros Hk. rewrite (znth_map Some 0 None) by (rewrite zlen_zrange; lia). now rewrite znth_zrange by lia.
Qed.

Lemma znth_rev_cells s e k : 0 <= k < e - s -> znth None (rev (map Some (zrange s e))) k = Some (e - 1 - k).
Proof.
  intros Hk. rewrite znth_rev by (rewrite zlen_map, zlen_zrange; lia).
  rewrite zlen_map, zlen_zrange by lia. rewrite znth_fwd_cells by lia. f_equal. lia.
Qed.

Lemma index_of_span plen p i s e r : span_in plen (FS s e r) = true ->
  index_of p i (den_span (FS s e r)) =
  if (s <=? p) && (p <? e) then Some (if r then i + (e - 1 - p) else i + (p - s)) else None.
Proof.
  cbn [span_in]. intros Hin. destruct ((s <=? p) && (p <? e)) eqn:E.
  - destruct r; cbn [den_span].
    + apply index_of_first.
      * rewrite zlen_rev, zlen_map, zlen_zrange; lia.
      * rewrite znth_rev_cells by lia. f_equal. lia.
      * intros j Hj. rewrite znth_rev_cells by lia. intros Hc. injection Hc as Hc. lia.
    + apply index_of_first.
      * rewrite zlen_map, zlen_zrange; lia.
      * rewrite znth_fwd_cells by lia. f_equal. lia.
      * intros j Hj. rewrite znth_fwd_cells by lia. intros Hc. injection Hc as Hc. lia.
  - apply index_of_absent. intros o Ho Hc. subst o.
    assert (Hi : In (Some p) (map Some (zrange s e))) by (destruct r; cbn [den_span] in Ho; [now apply in_rev|exact Ho]).
    apply in_map_iff in Hi. destruct Hi as (x & Hx & Hr). injection Hx as ->. apply zrange_In in Hr. lia.
Qed.

Lemma index_of_lost p i n : index_of p i (den_span (FL n)) = None.
Proof.
  apply index_of_absent. intros o Ho. cbn [den_span] in Ho. apply repeat_spec in Ho. subst o. discriminate.
Qed.

(** [index_of] on the whole map is [qlook] on the unsorted [temp] *)
Lemma index_of_temp plen p l : forallb (span_in plen) l = true -> forall cum,
  index_of p cum (flat_map den_span l) = qlook p (inv_temp cum l).
Proof.
  induction l as [|sp l IH]; cbn [forallb]; intros H cum; [reflexivity|].
  apply andb_prop in H. destruct H as (Hsp & Hl). cbn [flat_map]. rewrite index_of_app.
  rewrite (zlen_den_span plen) by exact Hsp. destruct sp as [s e r|n].
  - rewrite (index_of_span plen) by exact Hsp. cbn [inv_temp slen]. cbn [span_in] in Hsp.
    destruct r; cbn [qlook qin qval].
    + destruct ((s <=? p) && (p <? e)) eqn:E; [|now apply IH].
      destruct (cum + (e - s) <=? cum) eqn:E2; f_equal; lia.
    + destruct ((s <=? p) && (p <? e)) eqn:E; [|now apply IH].
      destruct (cum <=? cum + (e - s)) eqn:E2; f_equal; lia.
  - rewrite index_of_lost. cbn [inv_temp slen]. now apply IH.
Qed.

(** ** [sort_quads] against the [ins_pair] sort of the [(start, end)] pairs *)

Definition se (q : quad) : Z * Z := let '(s, e, _, _) := q in (s, e).

Definition ple (x y : Z * Z) : bool := (fst x <? fst y) || ((fst x =? fst y) && (snd x <=? snd y)).

Fixpoint psorted (l : list (Z * Z)) : Prop :=
  match l with
  | [] => True
  | x :: t => match t with [] => True | y :: _ => ple x y = true end /\ psorted t
  end.

Lemma ins_pair_cons x y t : ins_pair x (y :: t) = if ple x y then x :: y :: t else y :: ins_pair x t.
Proof. reflexivity. Qed.

Lemma ins_pair_sorted x l : psorted l -> psorted (ins_pair x l).
Proof.
  induction l as [|y t IH]; intros H; [cbn [ins_pair psorted]; auto|].
  rewrite ins_pair_cons. destruct (ple x y) eqn:E.
  - cbn [psorted] in *. auto.
  - cbn [psorted] in H. destruct H as (Hy & Ht). specialize (IH Ht).
    assert (Hyx : ple y x = true) by (unfold ple in *; lia).
    destruct t as [|z t'].
    + cbn [ins_pair psorted]. auto.
    + rewrite ins_pair_cons in *. destruct (ple x z) eqn:E2.
      * cbn [psorted] in *. auto.
      * split; [exact Hy|exact IH].
Qed.

Lemma sort_pairs_psorted l : psorted (fold_right ins_pair [] l).
Proof. induction l as [|x l IH]; [exact I|]. cbn [fold_right]. now apply ins_pair_sorted. Qed.

Lemma proj_insert x L : psorted (map se L) -> map se (insert_quad x L) = ins_pair (se x) (map se L).
Proof.
  induction L as [|y t IH]; intros H; [reflexivity|].
  cbn [map] in H |- *. rewrite ins_pair_cons. cbn [psorted] in H. destruct H as (Hy & Ht). specialize (IH Ht).
  cbn [insert_quad]. destruct (quad_le x y) eqn:E.
  - assert (E2 : ple (se x) (se y) = true).
    { destruct x as (((s, e), cs), ce). destruct y as (((s', e'), cs'), ce'). cbn [quad_le] in E.
      unfold ple. cbn [se fst snd]. lia. }
    rewrite E2. reflexivity.
  - cbn [map]. rewrite IH. destruct (ple (se x) (se y)) eqn:E2; [|reflexivity].
    assert (Exy : se x = se y).
    { destruct x as (((s, e), cs), ce). destruct y as (((s', e'), cs'), ce'). cbn [quad_le] in E.
      unfold ple in E2. cbn [se fst snd] in *. f_equal; lia. }
    destruct t as [|z t']; cbn [map] in *.
    + cbn [ins_pair]. now rewrite Exy.
    + rewrite ins_pair_cons. rewrite Exy. rewrite Hy. reflexivity.
Qed.

Lemma sort_quads_proj Q : map se (sort_quads Q) = fold_right ins_pair [] (map se Q).
Proof.
  induction Q as [|x Q IH]; [reflexivity|]. unfold sort_quads in *. cbn [fold_right map].
  rewrite proj_insert; [now rewrite IH|]. rewrite IH. apply sort_pairs_psorted.
Qed.

Lemma insert_quad_In q x L : In q (insert_quad x L) <-> q = x \/ In q L.
Proof.
  induction L as [|y t IH]; cbn [insert_quad In]; [intuition|].
  destruct (quad_le x y); cbn [In]; [intuition|]. rewrite IH. intuition.
Qed.

Lemma sort_quads_In q Q : In q (sort_quads Q) <-> In q Q.
Proof.
  induction Q as [|x Q IH]; [reflexivity|]. unfold sort_quads in *. cbn [fold_right In].
  rewrite insert_quad_In, IH. intuition.
Qed.

Lemma inv_temp_proj l : forall cum,
  map se (inv_temp cum l) = flat_map (fun sp => match sp with FS s e _ => [(s, e)] | FL _ => [] end) l.
Proof.
  induction l as [|sp l IH]; intros cum; [reflexivity|]. destruct sp as [s e r|n]; cbn [inv_temp flat_map].
  - cbn [map app]. rewrite IH. destruct r; reflexivity.
  - apply IH.
Qed.

(** ** the sorted quadruples form a chain *)

Fixpoint chained (lo : Z) (S : list quad) : Prop :=
  match S with
  | [] => True
  | (s, e, _, _) :: t => lo <= s /\ s <= e /\ chained e t
  end.

Lemma chained_weaken lo lo' S : chained lo S -> lo' <= lo -> chained lo' S.
Proof. destruct S as [|(((s, e), cs), ce) t]; cbn [chained]; intros; [exact I|]. intuition lia. Qed.

Lemma chain_chained S : Forall (fun q => fst (se q) <= snd (se q)) S -> chain_ok (map se S) = true ->
  match S with [] => True | q :: _ => chained (fst (se q)) S end.
Proof.
  induction S as [|q t IH]; intros Hf Hc; [exact I|].
  inversion Hf as [|? ? Hq Ht]; subst. destruct q as (((s, e), cs), ce). cbn [se fst snd] in *.
  cbn [chained]. split; [lia|]. split; [exact Hq|].
  destruct t as [|q' t']; [exact I|]. specialize (IH Ht).
  destruct q' as (((s', e'), cs'), ce'). cbn [map se chain_ok] in Hc. cbn [se fst] in IH.
  apply andb_prop in Hc. destruct Hc as (H1 & H2).
  apply (chained_weaken s'); [|lia]. apply IH. exact H2.
Qed.

Lemma qlook_below lo S : chained lo S -> forall p, p < lo -> qlook p S = None.
Proof.
  revert lo. induction S as [|(((s, e), cs), ce) t IH]; intros lo H p Hp; [reflexivity|].
  cbn [chained] in H. destruct H as (H1 & H2 & H3). cbn [qlook qin].
  destruct ((s <=? p) && (p <? e)) eqn:E; [lia|]. apply (IH e H3). lia.
Qed.

(** ** the cells emitted by [inv_loop] *)

Definition quad_ok (plen L : Z) (q : quad) : Prop :=
  let '(s, e, cs, ce) := q in
  0 <= s /\ s <= e /\ e <= plen /\ 0 <= cs <= L /\ 0 <= ce <= L /\ Z.abs (ce - cs) = e - s.

Lemma map_none_range_aux (f : Z -> option Z) n : forall a,
  (forall p, a <= p < a + Z.of_nat n -> f p = None) -> map f (zrange_aux a n) = repeat None n.
Proof.
  induction n as [|n IH]; intros a H; [reflexivity|]. cbn [zrange_aux map repeat].
  rewrite H by lia. f_equal. apply IH. intros p Hp. apply H. lia.
Qed.

Lemma map_none_range (f : Z -> option Z) a b : a <= b ->
  (forall p, a <= p < b -> f p = None) -> map f (zrange a b) = repeat None (Z.to_nat (b - a)).
Proof. intros Hab H. unfold zrange. apply map_none_range_aux. intros p Hp. apply H. lia. Qed.

Lemma quad_cells s e cs ce : s <= e -> Z.abs (ce - cs) = e - s ->
  den_span (mk_span cs ce (cs >? ce)) = map (fun p => Some (qval (s, e, cs, ce) p)) (zrange s e).
Proof.
  intros Hse Habs. unfold mk_span. destruct (cs >? ce) eqn:E; cbn [den_span].
  - apply (list_ext_znth None).
    + rewrite zlen_rev, !zlen_map, !zlen_zrange; lia.
    + intros i Hi. rewrite zlen_rev, zlen_map, zlen_zrange in Hi by lia.
      rewrite znth_rev_cells by lia.
      rewrite (znth_map _ 0 None) by (rewrite zlen_zrange; lia). rewrite znth_zrange by lia.
      cbn [qval]. destruct (cs <=? ce) eqn:E2; [lia|]. f_equal. lia.
  - apply (list_ext_znth None).
    + rewrite !zlen_map, !zlen_zrange; lia.
    + intros i Hi. rewrite zlen_map, zlen_zrange in Hi by lia.
      rewrite znth_fwd_cells by lia.
      rewrite (znth_map _ 0 None) by (rewrite zlen_zrange; lia). rewrite znth_zrange by lia.
      cbn [qval]. destruct (cs <=? ce) eqn:E2; [|lia]. f_equal. lia.
Qed.

Lemma mk_span_in L cs ce r : 0 <= cs <= L -> 0 <= ce <= L -> span_in L (mk_span cs ce r) = true.
Proof. intros H1 H2. unfold mk_span. destruct (cs >? ce) eqn:E; cbn [span_in]; lia. Qed.

Lemma inv_loop_spec plen L S : Forall (quad_ok plen L) S -> forall ls, 0 <= ls -> chained ls S ->
  exists sp last, inv_loop S ls = Ok (sp, last) /\ ls <= last <= Z.max ls plen /\
    forallb (span_in L) sp = true /\
    flat_map den_span sp = map (fun p => qlook p S) (zrange ls last) /\
    (forall p, last <= p -> qlook p S = None).
Proof.
  induction S as [|q t IH]; intros Hf ls Hls Hc.
  - exists [], ls. split; [reflexivity|]. split; [lia|]. split; [reflexivity|].
    split; [now rewrite zrange_nil by lia|reflexivity].
  - inversion Hf as [|? ? Hq Ht]; subst. destruct q as (((s, e), cs), ce).
    cbn [quad_ok] in Hq. destruct Hq as (Q1 & Q2 & Q3 & Q4 & Q5 & Q6).
    cbn [chained] in Hc. destruct Hc as (C1 & C2 & C3).
    destruct (IH Ht e ltac:(lia) C3) as (tl & last & Htl & Hlast & Hin & Hden & Hnone).
    cbn [inv_loop]. destruct (s <? ls) eqn:E; [lia|]. rewrite Htl. cbn [bind].
    eexists. exists last. split; [reflexivity|]. split; [lia|]. split; [|split].
    + rewrite forallb_app. cbn [forallb]. rewrite Hin, mk_span_in by lia.
      destruct (s >? ls) eqn:E2; cbn [forallb span_in]; lia.
    + rewrite flat_map_app. cbn [flat_map]. rewrite Hden.
      rewrite (zrange_split ls s last), (zrange_split s e last), !map_app by lia.
      f_equal; [|f_equal].
      * rewrite (map_none_range _ ls s); [|lia|].
        2:{ intros p Hp. cbn [qlook qin]. destruct ((s <=? p) && (p <? e)) eqn:E2; [lia|].
            apply (qlook_below e); [exact C3|lia]. }
        destruct (s >? ls) eqn:E2.
        -- cbn [flat_map den_span]. now rewrite app_nil_r.
        -- replace (s - ls) with 0 by lia. reflexivity.
      * rewrite (quad_cells s e) by assumption. apply map_ext_in. intros p Hp. apply zrange_In in Hp.
        cbn [qlook qin]. destruct ((s <=? p) && (p <? e)) eqn:E2; [reflexivity|lia].
      * apply map_ext_in. intros p Hp. apply zrange_In in Hp.
        cbn [qlook qin]. destruct ((s <=? p) && (p <? e)) eqn:E2; [lia|reflexivity].
    + intros p Hp. cbn [qlook qin]. destruct ((s <=? p) && (p <? e)) eqn:E2; [lia|]. apply Hnone. lia.
Qed.

(** ** the unsorted and the sorted [temp] answer every lookup alike *)

Lemma qlook_some p Q v : qlook p Q = Some v -> exists q, In q Q /\ qin q p = true /\ qval q p = v.
Proof.
  induction Q as [|q t IH]; cbn [qlook]; intros H; [discriminate|].
  destruct (qin q p) eqn:E.
  - exists q. split; [now left|]. split; [exact E|]. congruence.
  - destruct (IH H) as (q' & H1 & H2 & H3). exists q'. split; [now right|auto].
Qed.

Lemma qlook_none p Q : qlook p Q = None -> forall q, In q Q -> qin q p = false.
Proof.
  induction Q as [|q t IH]; cbn [qlook]; intros H q' Hq'; [contradiction|].
  destruct (qin q p) eqn:E; [discriminate|]. destruct Hq' as [<-|Hq']; [exact E|now apply IH].
Qed.

Lemma qlook_same p Q1 Q2 : (forall q, In q Q1 <-> In q Q2) ->
  (forall q1 q2, In q1 Q2 -> In q2 Q2 -> qin q1 p = true -> qin q2 p = true -> q1 = q2) ->
  qlook p Q1 = qlook p Q2.
Proof.
  intros Hiff Huniq. destruct (qlook p Q1) as [v|] eqn:E1; destruct (qlook p Q2) as [w|] eqn:E2; try reflexivity.
  - destruct (qlook_some _ _ _ E1) as (q1 & A1 & A2 & A3). destruct (qlook_some _ _ _ E2) as (q2 & B1 & B2 & B3).
    apply Hiff in A1. rewrite (Huniq q1 q2 A1 B1 A2 B2) in A3. congruence.
  - destruct (qlook_some _ _ _ E1) as (q1 & A1 & A2 & A3). apply Hiff in A1.
    rewrite (qlook_none _ _ E2 q1 A1) in A2. discriminate.
  - destruct (qlook_some _ _ _ E2) as (q2 & B1 & B2 & B3). apply Hiff in B1.
    rewrite (qlook_none _ _ E1 q2 B1) in B2. discriminate.
Qed.

Lemma chained_in lo S : chained lo S -> forall q p, In q S -> qin q p = true -> lo <= p.
Proof.
  revert lo. induction S as [|(((s, e), cs), ce) t IH]; intros lo H q p Hq Hp; [contradiction|].
  cbn [chained] in H. destruct H as (H1 & H2 & H3). destruct Hq as [<-|Hq].
  - cbn [qin] in Hp. lia.
  - specialize (IH e H3 q p Hq Hp). lia.
Qed.

Lemma chained_uniq lo S p : chained lo S ->
  forall q1 q2, In q1 S -> In q2 S -> qin q1 p = true -> qin q2 p = true -> q1 = q2.
Proof.
  revert lo. induction S as [|q t IH]; intros lo H q1 q2 H1 H2 P1 P2; [contradiction|].
  destruct q as (((s, e), cs), ce). cbn [chained] in H. destruct H as (A1 & A2 & A3).
  destruct H1 as [<-|H1]; destruct H2 as [<-|H2].
  - reflexivity.
  - pose proof (chained_in e t A3 q2 p H2 P2). cbn [qin] in P1. lia.
  - pose proof (chained_in e t A3 q1 p H1 P1). cbn [qin] in P2. lia.
  - now apply (IH e A3).
Qed.

Lemma inv_temp_ok plen l : forallb (span_in plen) l = true -> forall cum, 0 <= cum ->
  Forall (quad_ok plen (cum + dlen l)) (inv_temp cum l).
Proof.
  induction l as [|sp l IH]; cbn [forallb]; intros H cum Hc; [constructor|].
  apply andb_prop in H. destruct H as (Hsp & Hl). rewrite (dlen_cons plen) by exact Hsp.
  pose proof (dlen_nonneg l) as Hd. destruct sp as [s e r|n]; cbn [inv_temp slen span_in] in *.
  - constructor.
    + destruct r; cbn [quad_ok]; lia.
    + replace (cum + (e - s + dlen l)) with (cum + (e - s) + dlen l) by lia. apply IH; [exact Hl|lia].
  - replace (cum + (n + dlen l)) with (cum + n + dlen l) by lia. apply IH; [exact Hl|lia].
Qed.

(** ** [inverse]: for EVERY in-parent map whose real spans do not overlap
    (reversed, zero-length and lost spans included) *)
Theorem fm_inverse_spec fm : in_parent fm = true -> disjoint_spans fm = true ->
  exists c, fm_inverse fm = Ok c /\ den c = inverse_den (fplen fm) (den fm) /\
            fplen c = zlen (den fm) /\ in_parent c = true.
Proof.
  intros Hin Hdis. pose proof (flen_dlen fm Hin) as HL. unfold in_parent in Hin.
  set (plen := fplen fm) in *. set (l := fspans fm) in *.
  set (T := inv_temp 0 l). set (S := sort_quads T).
  assert (HokT : Forall (quad_ok plen (flen fm)) T).
  { rewrite HL. change (zlen (den fm)) with (0 + dlen l). apply inv_temp_ok; [exact Hin|lia]. }
  assert (HokS : Forall (quad_ok plen (flen fm)) S).
  { rewrite Forall_forall in *. intros q Hq. apply HokT. now apply sort_quads_In. }
  assert (Hchain : chain_ok (map se S) = true).
  { unfold S, T. rewrite sort_quads_proj, inv_temp_proj. exact Hdis. }
  assert (Hch : chained 0 S).
  { assert (Hse : Forall (fun q => fst (se q) <= snd (se q)) S).
    { eapply Forall_impl; [|exact HokS]. intros (((s, e), cs), ce). cbn [quad_ok se fst snd]. lia. }
    pose proof (chain_chained S Hse Hchain) as Hc. destruct S as [|q t] eqn:ES; [exact I|].
    apply (chained_weaken (fst (se q))); [exact Hc|].
    inversion HokS as [|? ? Hq _]; subst. destruct q as (((s, e), cs), ce). cbn [quad_ok se fst] in *. lia. }
  destruct (inv_loop_spec plen (flen fm) S HokS 0 ltac:(lia) Hch) as (sp & last & Hloop & Hlast & Hsp & Hden & Hnone).
  unfold fm_inverse. fold plen l T S. rewrite Hloop. cbn [bind].
  eexists. split; [reflexivity|]. cbn [fplen]. split; [|split; [exact HL|]].
  - unfold den at 1. cbn [fspans]. rewrite flat_map_app, Hden. unfold inverse_den.
    assert (Hq : forall p, qlook p S = index_of p 0 (den fm)).
    { intros p. unfold den. fold l. rewrite (index_of_temp plen) by exact Hin. fold T.
      symmetry. apply qlook_same; [intros q; symmetry; apply sort_quads_In|]. now apply (chained_uniq 0). }
    destruct (plen >? last) eqn:E.
    + cbn [flat_map den_span]. rewrite app_nil_r. rewrite (zrange_split 0 last plen), map_app by lia.
      f_equal; [apply map_ext; exact Hq|].
      rewrite <- (map_none_range (fun p => index_of p 0 (den fm))); [reflexivity|lia|].
      intros p Hp. rewrite <- Hq. apply Hnone. lia.
    + cbn [flat_map]. rewrite app_nil_r.
      assert (Hz : zrange 0 last = zrange 0 plen).
      { destruct (Z_le_gt_dec 0 plen); [f_equal; lia|]. rewrite !zrange_nil by lia. reflexivity. }
      rewrite Hz. apply map_ext. exact Hq.
  - unfold in_parent. cbn [fspans fplen]. rewrite forallb_app, Hsp.
    destruct (plen >? last) eqn:E; cbn [forallb span_in]; lia.
Qed.

Example fm_inverse_spec_example :
  let fm := mk_fmap [FS 4 6 true; FL 1; FS 2 2 false; FS 1 2 false; FS 6 6 true] 7 in
  in_parent fm = true /\ disjoint_spans fm = true /\
  exists c, fm_inverse fm = Ok c /\ den c = [None; Some 3; None; None; Some 1; Some 0; None].
Proof. cbn zeta. split; [reflexivity|]. split; [reflexivity|]. eexists. split; vm_compute; reflexivity. Qed.

(** ** [shadow]: the complement of the covered positions.  [0 <= fplen fm] is
    needed: with a negative parent length (and hence no real span) [shadow]
    answers a map over a parent of length 0. *)
Theorem fm_shadow_spec fm : 0 <= fplen fm -> in_parent fm = true -> disjoint_spans fm = true ->
  exists g, fm_shadow fm = Ok g /\ den g = map Some (complement (fplen fm) (positions fm)) /\
            fplen g = fplen fm /\ in_parent g = true /\ all_forward g = true.
Proof.
  intros Hp Hin Hdis. destruct (fm_inverse_spec fm Hin Hdis) as (c & Hc & Hd & _ & Hic).
  exact (shadow_of_inverse fm c Hp Hc Hd Hic).
Qed.

Example fm_shadow_negative_plen :
  let fm := mk_fmap [] (-1) in
  in_parent fm = true /\ disjoint_spans fm = true /\
  exists g, fm_shadow fm = Ok g /\ fplen g <> fplen fm.
Proof. cbn zeta. split; [reflexivity|]. split; [reflexivity|]. eexists. split; [vm_compute; reflexivity|]. cbn. lia. Qed.

(** a map with at least one real span inside its parent has a non-negative parent length *)
Lemma useful_plen_nonneg fm : in_parent fm = true -> fuseful fm = true -> 0 <= fplen fm.
Proof.
  unfold in_parent, fuseful. intros Hin Hu. apply existsb_exists in Hu. destruct Hu as (sp & Hsp & Hl).
  rewrite forallb_forall in Hin. specialize (Hin sp Hsp). destruct sp as [s e r|n]; [|discriminate].
  cbn [span_in] in Hin. lia.
Qed.

Corollary fm_shadow_spec_useful fm : fuseful fm = true -> in_parent fm = true -> disjoint_spans fm = true ->
  exists g, fm_shadow fm = Ok g /\ den g = map Some (complement (fplen fm) (positions fm)) /\
            fplen g = fplen fm /\ in_parent g = true /\ all_forward g = true.
Proof. intros Hu Hin Hdis. apply fm_shadow_spec; auto. now apply useful_plen_nonneg. Qed.
