(** C04 - lemmas about Model/Annot.v *)
From CG3 Require Import Lib.PyZ Lib.Val Lib.PySlice Model.View Spec.ViewSpec Proofs.ViewProofs Proofs.ViewSeqProofs.
From CG3 Require Import Model.Annot Spec.AnnotSpec.

(** * the db clauses *)

Lemma db_partial_overlap fs fe qs qe : fs < fe -> qs < qe ->
  (db_partial fs fe qs qe = true <-> overlaps fs fe qs qe).
Proof. unfold db_partial, overlaps. lia. Qed.

Lemma db_within_inside fs fe qs qe : db_within fs fe qs qe = true <-> inside fs fe qs qe.
Proof. unfold db_within, inside. lia. Qed.

(** * the pinned make_feature raises on a span that ends at the view start *)

Definition w_parent : list Z := [67; 84; 65; 71; 65; 71; 84].      (* CTAGAGT *)
Definition w_feat : feat := mkF [(0, 2); (3, 4); (6, 7)] false.
Definition w_view : view := mkV 2 3 1 7 0.                           (* rc()[4:5].rc() *)

Lemma make_feature_raises_refuted_lemma :
  exists v f, WF v /\ Z.abs (step v) = 1 /\ feat_ok f /\
    get_features pinned v [f] None None true = Err E_Value.
Proof. exists w_view, w_feat. repeat split; try (vm_compute; lia); try discriminate.
  unfold WF. cbn. lia. Qed.
