(** C04 - lemmas about Model/Annot.v *)
From CG3 Require Import Lib.PyZ Lib.Val Lib.PySlice Model.View Spec.ViewSpec Proofs.ViewProofs Proofs.ViewSeqProofs.
From CG3 Require Import Model.Annot Spec.AnnotSpec.

(** * the db clauses *)

Lemma db_partial_overlap fs fe qs qe : fs < fe -> qs < qe ->
  (db_partial fs fe qs qe = true <-> overlaps fs fe qs qe).
Proof. unfold db_partial, overlaps. lia. Qed.

Lemma db_within_inside fs fe qs qe : db_within fs fe qs qe = true <-> inside fs fe qs qe.
Proof. unfold db_within, inside. lia. Qed.

(** * unit-step ranges *)

Definition zr (a b : Z) : list Z := prog a 1 (Z.to_nat (b - a)).

Lemma py_range_1 a b : py_range a b 1 = zr a b.
Proof.
  unfold py_range, zr. f_equal.
  destruct (Z_lt_le_dec a b) as [H|H].
  - f_equal. apply range_len_pos_char; [lia|]. right. lia.
  - rewrite range_len_pos_empty by lia. lia.
Qed.

Lemma zr_empty a b : b <= a -> zr a b = [].
Proof. intros H. unfold zr. replace (Z.to_nat (b - a)) with O by lia. reflexivity. Qed.

Lemma zr_In a b x : In x (zr a b) <-> a <= x < b.
Proof.
  unfold zr. rewrite prog_In. split.
  - intros (k & Hk & ->). lia.
  - intros H. exists (x - a). lia.
Qed.

Lemma zr_shift a b d : map (fun x => x + d) (zr a b) = zr (a + d) (b + d).
Proof.
  unfold zr. replace (b + d - (a + d)) with (b - a) by lia.
  rewrite (map_ext _ (fun i => d + i * 1)) by (intros; lia).
  rewrite prog_map_affine. f_equal; lia.
Qed.

(** filtering a unit range with an interval test = intersecting the intervals *)
Lemma filter_zr lo hi a b : filter (in_seg lo hi) (zr a b) = zr (Z.max a lo) (Z.min b hi).
Proof.
  unfold zr. remember (Z.to_nat (b - a)) as k eqn:Hk. revert a Hk.
  induction k as [|k IH]; intros a Hk.
  - cbn. replace (Z.to_nat (Z.min b hi - Z.max a lo)) with O by lia. reflexivity.
  - cbn [prog filter]. rewrite (IH (a + 1)) by lia. unfold in_seg.
    destruct ((lo <=? a) && (a <? hi)) eqn:E.
    + replace (Z.max a lo) with a by lia. replace (Z.max (a + 1) lo) with (a + 1) by lia.
      replace (Z.to_nat (Z.min b hi - a)) with (S (Z.to_nat (Z.min b hi - (a + 1)))) by lia.
      reflexivity.
    + destruct (Z_lt_le_dec a lo) as [H|H].
      * replace (Z.max a lo) with lo by lia. replace (Z.max (a + 1) lo) with lo by lia. reflexivity.
      * assert (hi <= a) by lia.
        replace (Z.to_nat (Z.min b hi - Z.max (a + 1) lo)) with O by lia.
        replace (Z.to_nat (Z.min b hi - Z.max a lo)) with O by lia. reflexivity.
Qed.

(** * contiguous views *)

Definition contig (v : view) : Prop := WF v /\ Z.abs (step v) = 1 /\ 0 <= offset v.

Lemma contig_cases v : contig v ->
  (step v = 1 /\ is_reversed v = false /\ 0 <= start v <= stop v /\ stop v <= seq_len v /\
   vlen v = stop v - start v /\ parent_start v = offset v + start v /\ parent_stop v = offset v + stop v) \/
  (step v = -1 /\ is_reversed v = true /\ - seq_len v - 1 <= stop v <= start v /\ start v <= -1 /\
   vlen v = start v - stop v /\ parent_start v = offset v + stop v + seq_len v + 1 /\
   parent_stop v = offset v + start v + seq_len v + 1).
Proof.
  intros ((Hn & [(Hs & Hb & He)|(Hs & Hb & He)]) & Habs & Hoff).
  - left. assert (E : step v = 1) by lia. unfold is_reversed, vlen, parent_start, parent_stop, is_reversed.
    rewrite E. cbn. repeat split; try lia.
  - right. assert (E : step v = -1) by lia. unfold is_reversed, vlen, parent_start, parent_stop, is_reversed.
    rewrite E. cbn. repeat split; try lia.
Qed.

Lemma vlen_contig v : contig v -> vlen v = parent_stop v - parent_start v.
Proof. intros H. destruct (contig_cases v H) as [H1|H1]; lia. Qed.

(** plus-orientation relative coordinate of an absolute coordinate *)
Lemma rel_coord_contig v x : contig v -> 0 < vlen v -> 0 <= x ->
  rel_coord v x = Ok (x - parent_start v).
Proof.
  intros Hc Hlen Hx. unfold rel_coord, relative_position, bind.
  replace (vlen v =? 0) with false by lia. replace (x <? 0) with false by lia.
  destruct (contig_cases v Hc) as [(Es & Er & H1 & H2 & H3 & H4 & H5)|(Es & Er & H1 & H2 & H3 & H4 & H5)];
    rewrite Er, Es, H4.
  - rewrite Z.mod_1_r, Z.div_1_r. cbn; f_equal; lia.
  - replace ((seq_len v - x + offset v + start v + 1) mod -1) with 0 by lia.
    cbn [Z.eqb orb Z.abs Pos.eqb]. rewrite Z.div_1_r, H3; f_equal; lia.
Qed.

Definition shift_spans (d : Z) (l : list (Z * Z)) : list (Z * Z) := map (fun p => (fst p - d, snd p - d)) l.

Lemma spans_ok_weaken lo lo' l : lo' <= lo -> spans_ok lo l -> spans_ok lo' l.
Proof. destruct l as [|[a b] r]; cbn; [tauto|]. intros H (H1 & H2 & H3). repeat split; try assumption; lia. Qed.

Lemma rel_spans_contig v l lo : contig v -> 0 < vlen v -> 0 <= lo -> spans_ok lo l ->
  rel_spans v l = Ok (shift_spans (parent_start v) l).
Proof.
  intros Hc Hlen. revert lo. induction l as [|[a b] r IH]; intros lo Hlo Hok; [reflexivity|].
  cbn in Hok. destruct Hok as (H1 & H2 & H3).
  cbn [rel_spans]. rewrite !rel_coord_contig by (try assumption; lia). cbn [bind].
  rewrite (IH b) by (try assumption; lia). reflexivity.
Qed.

(** * make_feature at the level of positions *)

(** the plus-orientation relative positions a map covers, in map order *)
Definition mpos (m : list span) : list Z :=
  flat_map (fun s => match s with SSpan a b => zr a b | SLost _ => [] end) m.

Definition span_in (n : Z) (s : span) : Prop :=
  match s with SSpan a b => 0 <= a <= b /\ b <= n | SLost _ => True end.

(** relative spans intersected with the view [0, n) *)
Definition rpositions (n : Z) (sp : list (Z * Z)) : list Z :=
  flat_map (fun ab => zr (Z.max (fst ab) 0) (Z.min (snd ab) n)) sp.

Lemma mpos_app m1 m2 : mpos (m1 ++ m2) = mpos m1 ++ mpos m2.
Proof. unfold mpos. apply flat_map_app. Qed.

Lemma sfl_step fx n s e rest m : s < e -> 0 <= n ->
  sfl_loop n (match clamp_span fx n (s, e) with Some q => q :: rest | None => rest end) = Ok m ->
  exists m1 m2, m = m1 ++ m2 /\ sfl_loop n rest = Ok m2 /\
    mpos m1 = zr (Z.max s 0) (Z.min e n) /\ Forall (span_in n) m1.
Proof.
  intros Hse Hn. unfold clamp_span.
  replace (Z.min s e) with s by lia. replace (Z.max s e) with e by lia.
  assert (Hdrop : sfl_loop n rest = Ok m -> Z.min e n <= Z.max s 0 ->
     exists m1 m2, m = m1 ++ m2 /\ sfl_loop n rest = Ok m2 /\
       mpos m1 = zr (Z.max s 0) (Z.min e n) /\ Forall (span_in n) m1).
  { intros H Hle. exists [], m. repeat split; [assumption| |constructor].
    cbn. symmetry. apply zr_empty. lia. }
  assert (Hkeep : forall s' e', 0 <= s' <= e' -> s' <= n -> s' = Z.max s 0 \/ Z.min e' n <= s' /\ Z.min e n <= Z.max s 0 ->
     Z.min e' n = Z.min e n \/ Z.min e' n <= s' /\ Z.min e n <= Z.max s 0 ->
     sfl_loop n ((s', e') :: rest) = Ok m ->
     exists m1 m2, m = m1 ++ m2 /\ sfl_loop n rest = Ok m2 /\
       mpos m1 = zr (Z.max s 0) (Z.min e n) /\ Forall (span_in n) m1).
  { intros s' e' Hs' Hsn Hs'' He''. cbn [sfl_loop].
    replace (s' >? e') with false by lia. replace (Z.min s' e' <? 0) with false by lia.
    replace (s' >? n) with false by lia. cbn [orb].
    destruct (sfl_loop n rest) as [m2|c] eqn:E2; cbn [bind]; [|discriminate].
    assert (Hz : zr s' (Z.min e' n) = zr (Z.max s 0) (Z.min e n)).
    { destruct Hs'' as [->|[H1 H2]].
      - destruct He'' as [->|[H3 H4]]; [reflexivity|]. rewrite !zr_empty by lia. reflexivity.
      - rewrite !zr_empty by lia. reflexivity. }
    destruct (e' >? n) eqn:E3; intros [= <-].
    - exists [SSpan s' (Z.min e' n); SLost (Z.abs (e' - n))], m2. repeat split.
      + cbn. rewrite app_nil_r. exact Hz.
      + repeat constructor; lia.
    - exists [SSpan s' e'], m2. repeat split.
      + cbn. rewrite app_nil_r. replace (Z.min e' n) with e' in Hz by lia. exact Hz.
      + repeat constructor; lia. }
  destruct ((s <? 0) && (0 <? e)) eqn:C1.
  { apply Hkeep; lia. }
  destruct ((s <? n) && (n <? e)) eqn:C2.
  { apply Hkeep; lia. }
  destruct (fx_bound fx).
  - destruct ((s =? e) || (s >=? n) || (e <=? 0)) eqn:C3.
    + intros H. apply Hdrop; [assumption|lia].
    + apply Hkeep; lia.
  - destruct ((s =? e) || (s >? n) || (e <? 0)) eqn:C3.
    + intros H. apply Hdrop; [assumption|lia].
    + destruct (Z_lt_le_dec s 0) as [Hneg|Hpos].
      * (* the span ends exactly at the view start: the loop raises *)
        cbn [sfl_loop]. replace (Z.min s e <? 0) with true by lia. rewrite orb_true_r. discriminate.
      * apply Hkeep; lia.
Qed.

Definition proper (sp : list (Z * Z)) : Prop := Forall (fun ab => fst ab < snd ab) sp.

Lemma sfl_clamp fx n sp : 0 <= n -> proper sp -> forall m,
  sfl_loop n (clamp_spans fx n sp) = Ok m -> mpos m = rpositions n sp /\ Forall (span_in n) m.
Proof.
  intros Hn. induction sp as [|[s e] r IH]; intros Hp m.
  - cbn. intros [= <-]. split; [reflexivity|constructor].
  - inversion Hp as [|x y Hse Hr]; subst. cbn [fst snd] in Hse.
    cbn [clamp_spans]. intros H.
    assert (H' : sfl_loop n (match clamp_span fx n (s, e) with
                             | Some q => q :: clamp_spans fx n r | None => clamp_spans fx n r end) = Ok m).
    { destruct (clamp_span fx n (s, e)); exact H. }
    destruct (sfl_step fx n s e _ m Hse Hn H') as (m1 & m2 & -> & E2 & Hpos & Hin).
    destruct (IH Hr m2 E2) as (IH1 & IH2). split.
    + rewrite mpos_app, Hpos, IH1. reflexivity.
    + apply Forall_app. split; assumption.
Qed.

Lemma without_gaps_app m1 m2 : without_gaps (m1 ++ m2) = without_gaps m1 ++ without_gaps m2.
Proof. unfold without_gaps. apply filter_app. Qed.

Lemma mpos_without_gaps m : mpos (without_gaps m) = mpos m.
Proof.
  induction m as [|[a b|k] m IH]; [reflexivity| |]; cbn.
  - f_equal. exact IH.
  - exact IH.
Qed.

Lemma without_gaps_nrev n m : without_gaps (nucleic_reversed n m) = rev (map (nrev_span n) (without_gaps m)).
Proof.
  unfold nucleic_reversed.
  induction m as [|[a b|k] m IH]; [reflexivity| |]; cbn [map rev without_gaps filter is_lost negb].
  - fold (without_gaps m). cbn [map rev]. rewrite without_gaps_app, IH. reflexivity.
  - fold (without_gaps m). rewrite without_gaps_app, IH. cbn. rewrite app_nil_r. reflexivity.
Qed.

Definition no_lost (m : list span) : Prop := forall s, In s m -> is_lost s = false.

Lemma without_gaps_no_lost m : no_lost (without_gaps m).
Proof. intros s Hs. apply filter_In in Hs. destruct Hs as [_ Hs]. destruct (is_lost s); [discriminate|reflexivity]. Qed.

Lemma Forall_without_gaps n m : Forall (span_in n) m -> Forall (span_in n) (without_gaps m).
Proof.
  intros H. apply Forall_forall. intros s Hs. apply filter_In in Hs.
  apply (proj1 (Forall_forall _ _) H). tauto.
Qed.

Lemma make_feature_pos fx n rced sp minus fv : 0 <= n -> proper sp ->
  make_feature fx n rced sp minus = Ok fv ->
  fv_minus fv = negb (Bool.eqb minus rced) /\
  exists m, Forall (span_in n) m /\ no_lost m /\ mpos m = rpositions n sp /\
    without_gaps (fv_map fv) = if rced then rev (map (nrev_span n) m) else m.
Proof.
  intros Hn Hp. unfold make_feature.
  destruct (all_coords sp) as [|x r]; [discriminate|].
  set (pre := if fold_right Z.min x r <? 0 then _ else 0).
  set (post := if fold_right Z.max x r >? n then _ else 0).
  destruct (spans_from_locations n (clamp_spans fx n sp)) as [m0|c] eqn:E; [|discriminate].
  cbn [bind]. intros [= <-]. cbn [fv_minus fv_map]. split; [reflexivity|].
  assert (E0 : sfl_loop n (clamp_spans fx n sp) = Ok m0).
  { unfold spans_from_locations in E. destruct (clamp_spans fx n sp) as [|[s0 e0] l0] eqn:El.
    - injection E as <-. reflexivity.
    - destruct (s0 >? _); [discriminate|exact E]. }
  destruct (sfl_clamp fx n sp Hn Hp m0 E0) as (Hpos & Hin).
  exists (without_gaps m0). split; [now apply Forall_without_gaps|]. split; [apply without_gaps_no_lost|].
  split; [rewrite mpos_without_gaps; exact Hpos|].
  assert (Hwg : without_gaps (if negb (pre =? 0) || negb (post =? 0)
                 then (if negb (pre =? 0) then [SLost pre] else []) ++ m0 ++ (if negb (post =? 0) then [SLost post] else [])
                 else m0) = without_gaps m0).
  { destruct (negb (pre =? 0) || negb (post =? 0)); [|reflexivity].
    rewrite !without_gaps_app.
    destruct (negb (pre =? 0)); destruct (negb (post =? 0)); cbn; rewrite ?app_nil_r; reflexivity. }
  destruct rced.
  - rewrite without_gaps_nrev, Hwg. reflexivity.
  - exact Hwg.
Qed.

(** * reading a map off a view *)

Definition orient (v : view) (s : list Z) : list Z := if is_reversed v then cmpl s else s.

Lemma cmpl_app a b : cmpl (a ++ b) = cmpl a ++ cmpl b.
Proof. unfold cmpl. apply map_app. Qed.

Lemma orient_app v a b : orient v (a ++ b) = orient v a ++ orient v b.
Proof. unfold orient. destruct (is_reversed v); [apply cmpl_app|reflexivity]. Qed.

Lemma py_slice_unit {A} (D : list A) a b : 0 <= a <= b -> b <= zlen D ->
  py_slice D (Some a) (Some b) 1 = gather D (zr a b).
Proof.
  intros Hab Hb. rewrite py_slice_unfold.
  rewrite !adj_pos_nonneg by (try apply zlen_nonneg; lia).
  replace (Z.min (zlen D) a) with a by lia. replace (Z.min (zlen D) b) with b by lia.
  fold (py_range a b 1). rewrite py_range_1. reflexivity.
Qed.

Lemma view_substr_spec v p a b : WF v -> zlen p = seq_len v -> 0 <= a <= b -> b <= vlen v ->
  exists v', view_substr v p a b = Ok (v', orient v (gather (value v p) (zr a b))).
Proof.
  intros Hwf Hp Hab Hb. unfold view_substr.
  assert (Hc : @None Z <> Some 0) by discriminate.
  destruct (getitem_slice FSeqView v (Some a) (Some b) None) as [v'|c] eqn:E.
  2:{ exfalso. exact (getitem_slice_no_err FSeqView v (Some a) (Some b) None c Hwf Hc E). }
  cbn [bind]. exists v'. f_equal. f_equal.
  pose proof (value_getitem_slice_lemma FSeqView v p (Some a) (Some b) None v' Hwf (or_intror Hp) Hc E) as Hv.
  cbn [step_of] in Hv.
  rewrite py_slice_unit in Hv by (rewrite ?(len_value_lemma v p Hwf Hp); lia).
  pose proof (wf_getitem_slice_lemma FSeqView v (Some a) (Some b) None v' Hwf E) as Hwf'.
  destruct (step_getitem_slice FSeqView v (Some a) (Some b) None v' Hwf Hc E) as [Hz|Hs].
  - assert (He : value v' p = []).
    { apply (value_empty v' p Hwf'). apply (wf_empty_iff v' Hwf'). exact Hz. }
    rewrite He in *. rewrite <- Hv. unfold orient, cmpl. destruct (is_reversed v'), (is_reversed v); reflexivity.
  - cbn [step_of] in Hs. unfold orient, is_reversed. rewrite Hs, Z.mul_1_r, Hv. reflexivity.
Qed.

Lemma segments_spec v p m : WF v -> zlen p = seq_len v -> Forall (span_in (vlen v)) m -> no_lost m ->
  segments v p m = Ok (orient v (gather (value v p) (mpos m))).
Proof.
  intros Hwf Hp. induction m as [|[a b|k] m IH]; intros Hin Hnl.
  - cbn. unfold orient, cmpl. destruct (is_reversed v); reflexivity.
  - inversion Hin as [|x y Hxy Hr]; subst. cbn [span_in] in Hxy. destruct Hxy as (Hab & Hb).
    cbn [segments]. destruct (view_substr_spec v p a b Hwf Hp Hab Hb) as (v' & ->). cbn [bind].
    rewrite IH; [|assumption|intros s Hs; apply Hnl; now right]. cbn [bind].
    cbn [mpos flat_map]. fold (mpos m). rewrite gather_app, orient_app. reflexivity.
  - specialize (Hnl (SLost k) (or_introl eq_refl)). discriminate.
Qed.
