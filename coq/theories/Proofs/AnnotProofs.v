(** C04 - lemmas about Model/Annot.v *)
From CG3 Require Import Lib.PyZ Lib.Val Lib.PySlice Model.View Spec.ViewSpec Proofs.ViewProofs Proofs.ViewSeqProofs.
From CG3 Require Import Model.Annot Spec.AnnotSpec.

(** * the db clauses *)

Lemma db_partial_overlap fs fe qs qe : fs < fe -> qs < qe ->
  (db_partial fs fe qs qe = true <-> overlaps fs fe qs qe).
Proof. unfold db_partial, overlaps. lia. Qed.

Lemma db_within_inside fs fe qs qe : db_within fs fe qs qe = true <-> inside fs fe qs qe.
Proof. unfold db_within, inside. lia. Qed.

(** * unit-step ranges *)

Definition zr (a b : Z) : list Z := prog a 1 (Z.to_nat (b - a)).

Lemma py_range_1 a b : py_range a b 1 = zr a b.
Proof.
  unfold py_range, zr. f_equal.
  destruct (Z_lt_le_dec a b) as [H|H].
  - f_equal. apply range_len_pos_char; [lia|]. right. lia.
  - rewrite range_len_pos_empty by lia. lia.
Qed.

Lemma zr_empty a b : b <= a -> zr a b = [].
Proof. intros H. unfold zr. replace (Z.to_nat (b - a)) with O by lia. reflexivity. Qed.

Lemma zr_In a b x : In x (zr a b) <-> a <= x < b.
Proof.
  unfold zr. rewrite prog_In. split.
  - intros (k & Hk & ->). lia.
  - intros H. exists (x - a). lia.
Qed.

Lemma zr_shift a b d : map (fun x => x + d) (zr a b) = zr (a + d) (b + d).
Proof.
  unfold zr. replace (b + d - (a + d)) with (b - a) by lia.
  rewrite (map_ext _ (fun i => d + i * 1)) by (intros; lia).
  rewrite prog_map_affine. f_equal; lia.
Qed.

(** filtering a unit range with an interval test = intersecting the intervals *)
Lemma filter_zr lo hi a b : filter (in_seg lo hi) (zr a b) = zr (Z.max a lo) (Z.min b hi).
Proof.
  unfold zr. remember (Z.to_nat (b - a)) as k eqn:Hk. revert a Hk.
  induction k as [|k IH]; intros a Hk.
  - cbn. replace (Z.to_nat (Z.min b hi - Z.max a lo)) with O by lia. reflexivity.
  - cbn [prog filter]. rewrite (IH (a + 1)) by lia. unfold in_seg.
    destruct ((lo <=? a) && (a <? hi)) eqn:E.
    + replace (Z.max a lo) with a by lia. replace (Z.max (a + 1) lo) with (a + 1) by lia.
      replace (Z.to_nat (Z.min b hi - a)) with (S (Z.to_nat (Z.min b hi - (a + 1)))) by lia.
      reflexivity.
    + destruct (Z_lt_le_dec a lo) as [H|H].
      * replace (Z.max a lo) with lo by lia. replace (Z.max (a + 1) lo) with lo by lia. reflexivity.
      * assert (hi <= a) by lia.
        replace (Z.to_nat (Z.min b hi - Z.max (a + 1) lo)) with O by lia.
        replace (Z.to_nat (Z.min b hi - Z.max a lo)) with O by lia. reflexivity.
Qed.

(** * contiguous views *)

Definition contig (v : view) : Prop := WF v /\ Z.abs (step v) = 1 /\ 0 <= offset v.

Lemma contig_cases v : contig v ->
  (step v = 1 /\ is_reversed v = false /\ 0 <= start v <= stop v /\ stop v <= seq_len v /\
   vlen v = stop v - start v /\ parent_start v = offset v + start v /\ parent_stop v = offset v + stop v) \/
  (step v = -1 /\ is_reversed v = true /\ - seq_len v - 1 <= stop v <= start v /\ start v <= -1 /\
   vlen v = start v - stop v /\ parent_start v = offset v + stop v + seq_len v + 1 /\
   parent_stop v = offset v + start v + seq_len v + 1).
Proof.
  intros ((Hn & [(Hs & Hb & He)|(Hs & Hb & He)]) & Habs & Hoff).
  - left. assert (E : step v = 1) by lia. unfold is_reversed, vlen, parent_start, parent_stop, is_reversed.
    rewrite E. cbn. repeat split; try lia.
  - right. assert (E : step v = -1) by lia. unfold is_reversed, vlen, parent_start, parent_stop, is_reversed.
    rewrite E. cbn. repeat split; try lia.
Qed.

Lemma vlen_contig v : contig v -> vlen v = parent_stop v - parent_start v.
Proof. intros H. destruct (contig_cases v H) as [H1|H1]; lia. Qed.

(** plus-orientation relative coordinate of an absolute coordinate *)
Lemma rel_coord_contig v x : contig v -> 0 < vlen v -> 0 <= x ->
  rel_coord v x = Ok (x - parent_start v).
Proof.
  intros Hc Hlen Hx. unfold rel_coord, relative_position, bind.
  replace (vlen v =? 0) with false by lia. replace (x <? 0) with false by lia.
  destruct (contig_cases v Hc) as [(Es & Er & H1 & H2 & H3 & H4 & H5)|(Es & Er & H1 & H2 & H3 & H4 & H5)];
    rewrite Er, Es, H4.
  - rewrite Z.mod_1_r, Z.div_1_r. cbn; f_equal; lia.
  - replace ((seq_len v - x + offset v + start v + 1) mod -1) with 0 by lia.
    cbn [Z.eqb orb Z.abs Pos.eqb]. rewrite Z.div_1_r, H3; f_equal; lia.
Qed.

Definition shift_spans (d : Z) (l : list (Z * Z)) : list (Z * Z) := map (fun p => (fst p - d, snd p - d)) l.

Lemma spans_ok_weaken lo lo' l : lo' <= lo -> spans_ok lo l -> spans_ok lo' l.
Proof. destruct l as [|[a b] r]; cbn; [tauto|]. intros H (H1 & H2 & H3). repeat split; try assumption; lia. Qed.

Lemma rel_spans_contig v l lo : contig v -> 0 < vlen v -> 0 <= lo -> spans_ok lo l ->
  rel_spans v l = Ok (shift_spans (parent_start v) l).
Proof.
  intros Hc Hlen. revert lo. induction l as [|[a b] r IH]; intros lo Hlo Hok; [reflexivity|].
  cbn in Hok. destruct Hok as (H1 & H2 & H3).
  cbn [rel_spans]. rewrite !rel_coord_contig by (try assumption; lia). cbn [bind].
  rewrite (IH b) by (try assumption; lia). reflexivity.
Qed.

(** * make_feature at the level of positions *)

(** the plus-orientation relative positions a map covers, in map order *)
Definition mpos (m : list span) : list Z :=
  flat_map (fun s => match s with SSpan a b => zr a b | SLost _ => [] end) m.

Definition span_in (n : Z) (s : span) : Prop :=
  match s with SSpan a b => 0 <= a <= b /\ b <= n | SLost _ => True end.

(** relative spans intersected with the view [0, n) *)
Definition rpositions (n : Z) (sp : list (Z * Z)) : list Z :=
  flat_map (fun ab => zr (Z.max (fst ab) 0) (Z.min (snd ab) n)) sp.

Lemma mpos_app m1 m2 : mpos (m1 ++ m2) = mpos m1 ++ mpos m2.
Proof. unfold mpos. apply flat_map_app. Qed.

Lemma sfl_step fx n s e rest m : s < e -> 0 <= n ->
  sfl_loop n (match clamp_span fx n (s, e) with Some q => q :: rest | None => rest end) = Ok m ->
  exists m1 m2, m = m1 ++ m2 /\ sfl_loop n rest = Ok m2 /\
    mpos m1 = zr (Z.max s 0) (Z.min e n) /\ Forall (span_in n) m1.
Proof.
  intros Hse Hn. unfold clamp_span.
  replace (Z.min s e) with s by lia. replace (Z.max s e) with e by lia.
  assert (Hdrop : sfl_loop n rest = Ok m -> Z.min e n <= Z.max s 0 ->
     exists m1 m2, m = m1 ++ m2 /\ sfl_loop n rest = Ok m2 /\
       mpos m1 = zr (Z.max s 0) (Z.min e n) /\ Forall (span_in n) m1).
  { intros H Hle. exists [], m. repeat split; [assumption| |constructor].
    cbn. symmetry. apply zr_empty. lia. }
  assert (Hkeep : forall s' e', 0 <= s' <= e' -> s' <= n -> s' = Z.max s 0 \/ Z.min e' n <= s' /\ Z.min e n <= Z.max s 0 ->
     Z.min e' n = Z.min e n \/ Z.min e' n <= s' /\ Z.min e n <= Z.max s 0 ->
     sfl_loop n ((s', e') :: rest) = Ok m ->
     exists m1 m2, m = m1 ++ m2 /\ sfl_loop n rest = Ok m2 /\
       mpos m1 = zr (Z.max s 0) (Z.min e n) /\ Forall (span_in n) m1).
  { intros s' e' Hs' Hsn Hs'' He''. cbn [sfl_loop].
    replace (s' >? e') with false by lia. replace (Z.min s' e' <? 0) with false by lia.
    replace (s' >? n) with false by lia. cbn [orb].
    destruct (sfl_loop n rest) as [m2|c] eqn:E2; cbn [bind]; [|discriminate].
    assert (Hz : zr s' (Z.min e' n) = zr (Z.max s 0) (Z.min e n)).
    { destruct Hs'' as [->|[H1 H2]].
      - destruct He'' as [->|[H3 H4]]; [reflexivity|]. rewrite !zr_empty by lia. reflexivity.
      - rewrite !zr_empty by lia. reflexivity. }
    destruct (e' >? n) eqn:E3; intros [= <-].
    - exists [SSpan s' (Z.min e' n); SLost (Z.abs (e' - n))], m2. repeat split.
      + cbn. rewrite app_nil_r. exact Hz.
      + repeat constructor; lia.
    - exists [SSpan s' e'], m2. repeat split.
      + cbn. rewrite app_nil_r. replace (Z.min e' n) with e' in Hz by lia. exact Hz.
      + repeat constructor; lia. }
  destruct ((s <? 0) && (0 <? e)) eqn:C1.
  { apply Hkeep; lia. }
  destruct ((s <? n) && (n <? e)) eqn:C2.
  { apply Hkeep; lia. }
  destruct (fx_bound fx).
  - destruct ((s =? e) || (s >=? n) || (e <=? 0)) eqn:C3.
    + intros H. apply Hdrop; [assumption|lia].
    + apply Hkeep; lia.
  - destruct ((s =? e) || (s >? n) || (e <? 0)) eqn:C3.
    + intros H. apply Hdrop; [assumption|lia].
    + destruct (Z_lt_le_dec s 0) as [Hneg|Hpos].
      * (* the span ends exactly at the view start: the loop raises *)
        cbn [sfl_loop]. replace (Z.min s e <? 0) with true by lia. rewrite orb_true_r. discriminate.
      * apply Hkeep; lia.
Qed.

Definition proper (sp : list (Z * Z)) : Prop := Forall (fun ab => fst ab < snd ab) sp.

Lemma sfl_clamp fx n sp : 0 <= n -> proper sp -> forall m,
  sfl_loop n (clamp_spans fx n sp) = Ok m -> mpos m = rpositions n sp /\ Forall (span_in n) m.
Proof.
  intros Hn. induction sp as [|[s e] r IH]; intros Hp m.
  - cbn. intros [= <-]. split; [reflexivity|constructor].
  - inversion Hp as [|x y Hse Hr]; subst. cbn [fst snd] in Hse.
    cbn [clamp_spans]. intros H.
    assert (H' : sfl_loop n (match clamp_span fx n (s, e) with
                             | Some q => q :: clamp_spans fx n r | None => clamp_spans fx n r end) = Ok m).
    { destruct (clamp_span fx n (s, e)); exact H. }
    destruct (sfl_step fx n s e _ m Hse Hn H') as (m1 & m2 & -> & E2 & Hpos & Hin).
    destruct (IH Hr m2 E2) as (IH1 & IH2). split.
    + rewrite mpos_app, Hpos, IH1. reflexivity.
    + apply Forall_app. split; assumption.
Qed.

Lemma without_gaps_app m1 m2 : without_gaps (m1 ++ m2) = without_gaps m1 ++ without_gaps m2.
Proof. unfold without_gaps. apply filter_app. Qed.

Lemma mpos_without_gaps m : mpos (without_gaps m) = mpos m.
Proof.
  induction m as [|[a b|k] m IH]; [reflexivity| |]; cbn.
  - f_equal. exact IH.
  - exact IH.
Qed.

Lemma without_gaps_nrev n m : without_gaps (nucleic_reversed n m) = rev (map (nrev_span n) (without_gaps m)).
Proof.
  unfold nucleic_reversed.
  induction m as [|[a b|k] m IH]; [reflexivity| |]; cbn [map rev without_gaps filter is_lost negb].
  - fold (without_gaps m). cbn [map rev]. rewrite without_gaps_app, IH. reflexivity.
  - fold (without_gaps m). rewrite without_gaps_app, IH. cbn. rewrite app_nil_r. reflexivity.
Qed.

Definition no_lost (m : list span) : Prop := forall s, In s m -> is_lost s = false.

Lemma without_gaps_no_lost m : no_lost (without_gaps m).
Proof. intros s Hs. apply filter_In in Hs. destruct Hs as [_ Hs]. destruct (is_lost s); [discriminate|reflexivity]. Qed.

Lemma Forall_without_gaps n m : Forall (span_in n) m -> Forall (span_in n) (without_gaps m).
Proof.
  intros H. apply Forall_forall. intros s Hs. apply filter_In in Hs.
  apply (proj1 (Forall_forall _ _) H). tauto.
Qed.

Lemma make_feature_pos fx n rced sp minus fv : 0 <= n -> proper sp ->
  make_feature fx n rced sp minus = Ok fv ->
  fv_minus fv = negb (Bool.eqb minus rced) /\
  exists m, Forall (span_in n) m /\ no_lost m /\ mpos m = rpositions n sp /\
    without_gaps (fv_map fv) = if rced then rev (map (nrev_span n) m) else m.
Proof.
  intros Hn Hp. unfold make_feature.
  destruct (all_coords sp) as [|x r]; [discriminate|].
  set (pre := if fold_right Z.min x r <? 0 then _ else 0).
  set (post := if fold_right Z.max x r >? n then _ else 0).
  destruct (spans_from_locations n (clamp_spans fx n sp)) as [m0|c] eqn:E; [|discriminate].
  cbn [bind]. intros [= <-]. cbn [fv_minus fv_map]. split; [reflexivity|].
  assert (E0 : sfl_loop n (clamp_spans fx n sp) = Ok m0).
  { unfold spans_from_locations in E. destruct (clamp_spans fx n sp) as [|[s0 e0] l0] eqn:El.
    - injection E as <-. reflexivity.
    - destruct (s0 >? _); [discriminate|exact E]. }
  destruct (sfl_clamp fx n sp Hn Hp m0 E0) as (Hpos & Hin).
  exists (without_gaps m0). split; [now apply Forall_without_gaps|]. split; [apply without_gaps_no_lost|].
  split; [rewrite mpos_without_gaps; exact Hpos|].
  assert (Hwg : without_gaps (if negb (pre =? 0) || negb (post =? 0)
                 then (if negb (pre =? 0) then [SLost pre] else []) ++ m0 ++ (if negb (post =? 0) then [SLost post] else [])
                 else m0) = without_gaps m0).
  { destruct (negb (pre =? 0) || negb (post =? 0)); [|reflexivity].
    rewrite !without_gaps_app.
    destruct (negb (pre =? 0)); destruct (negb (post =? 0)); cbn; rewrite ?app_nil_r; reflexivity. }
  destruct rced.
  - rewrite without_gaps_nrev, Hwg. reflexivity.
  - exact Hwg.
Qed.

(** * reading a map off a view *)

Definition orient (v : view) (s : list Z) : list Z := if is_reversed v then cmpl s else s.

Lemma cmpl_app a b : cmpl (a ++ b) = cmpl a ++ cmpl b.
Proof. unfold cmpl. apply map_app. Qed.

Lemma orient_app v a b : orient v (a ++ b) = orient v a ++ orient v b.
Proof. unfold orient. destruct (is_reversed v); [apply cmpl_app|reflexivity]. Qed.

Lemma py_slice_unit {A} (D : list A) a b : 0 <= a <= b -> b <= zlen D ->
  py_slice D (Some a) (Some b) 1 = gather D (zr a b).
Proof.
  intros Hab Hb. rewrite py_slice_unfold.
  rewrite !adj_pos_nonneg by (try apply zlen_nonneg; lia).
  replace (Z.min (zlen D) a) with a by lia. replace (Z.min (zlen D) b) with b by lia.
  fold (py_range a b 1). rewrite py_range_1. reflexivity.
Qed.

Lemma view_substr_spec v p a b : WF v -> zlen p = seq_len v -> 0 <= a <= b -> b <= vlen v ->
  exists v', view_substr v p a b = Ok (v', orient v (gather (value v p) (zr a b))).
Proof.
  intros Hwf Hp Hab Hb. unfold view_substr.
  assert (Hc : @None Z <> Some 0) by discriminate.
  destruct (getitem_slice FSeqView v (Some a) (Some b) None) as [v'|c] eqn:E.
  2:{ exfalso. exact (getitem_slice_no_err FSeqView v (Some a) (Some b) None c Hwf Hc E). }
  cbn [bind]. exists v'. f_equal. f_equal.
  pose proof (value_getitem_slice_lemma FSeqView v p (Some a) (Some b) None v' Hwf (or_intror Hp) Hc E) as Hv.
  cbn [step_of] in Hv.
  rewrite py_slice_unit in Hv by (rewrite ?(len_value_lemma v p Hwf Hp); lia).
  pose proof (wf_getitem_slice_lemma FSeqView v (Some a) (Some b) None v' Hwf E) as Hwf'.
  destruct (step_getitem_slice FSeqView v (Some a) (Some b) None v' Hwf Hc E) as [Hz|Hs].
  - assert (He : value v' p = []).
    { apply (value_empty v' p Hwf'). apply (wf_empty_iff v' Hwf'). exact Hz. }
    rewrite He in *. rewrite <- Hv. unfold orient, cmpl. destruct (is_reversed v'), (is_reversed v); reflexivity.
  - cbn [step_of] in Hs. unfold orient, is_reversed. rewrite Hs, Z.mul_1_r, Hv. reflexivity.
Qed.

Lemma segments_spec v p m : WF v -> zlen p = seq_len v -> Forall (span_in (vlen v)) m -> no_lost m ->
  segments v p m = Ok (orient v (gather (value v p) (mpos m))).
Proof.
  intros Hwf Hp. induction m as [|[a b|k] m IH]; intros Hin Hnl.
  - cbn. unfold orient, cmpl. destruct (is_reversed v); reflexivity.
  - inversion Hin as [|x y Hxy Hr]; subst. cbn [span_in] in Hxy. destruct Hxy as (Hab & Hb).
    cbn [segments]. destruct (view_substr_spec v p a b Hwf Hp Hab Hb) as (v' & ->). cbn [bind].
    rewrite IH; [|assumption|intros s Hs; apply Hnl; now right]. cbn [bind].
    cbn [mpos flat_map]. fold (mpos m). rewrite gather_app, orient_app. reflexivity.
  - specialize (Hnl (SLost k) (or_introl eq_refl)). discriminate.
Qed.

(** * positions on the displayed segment = positions on the parent *)

Lemma rev_zget {A} (l : list A) i : rev (zget l i) = zget l i.
Proof. unfold zget. destruct (i <? 0); [reflexivity|]. destruct (nth_error _ _); reflexivity. Qed.

Lemma gather_single {A} (l : list A) i : gather l [i] = zget l i.
Proof. cbn. apply app_nil_r. Qed.

Lemma gather_rev {A} (l : list A) idx : gather l (rev idx) = rev (gather l idx).
Proof.
  induction idx as [|i idx IH]; [reflexivity|].
  cbn [rev]. rewrite gather_app, gather_single, (gather_cons l i idx), rev_app_distr, IH, rev_zget.
  reflexivity.
Qed.

Lemma zget_gather_zr {A} (p : list A) lo hi i : 0 <= lo -> hi <= zlen p -> 0 <= i < hi - lo ->
  zget (gather p (zr lo hi)) i = zget p (lo + i).
Proof.
  intros Hlo Hhi Hi. rewrite <- !gather_single. unfold zr.
  change [i] with (prog i 1 1). rewrite gather_prog_prog.
  - cbn. f_equal. f_equal. lia.
  - intros j Hj. apply prog_In in Hj. destruct Hj as (k & Hk & ->). lia.
  - intros j Hj. apply prog_In in Hj. destruct Hj as (k & Hk & ->). lia.
Qed.

Lemma rev_as_gather {A} (l : list A) : rev l = gather l (prog (zlen l - 1) (-1) (length l)).
Proof.
  rewrite <- (gather_all l) at 1. rewrite <- gather_rev, prog_rev. f_equal. f_equal. unfold zlen. lia.
Qed.

Lemma zget_rev {A} (l : list A) i : 0 <= i < zlen l -> zget (rev l) i = zget l (zlen l - 1 - i).
Proof.
  intros Hi. rewrite rev_as_gather. rewrite <- !gather_single.
  change [i] with (prog i 1 1). rewrite gather_prog_prog.
  - cbn. f_equal. f_equal. lia.
  - intros j Hj. apply prog_In in Hj. destruct Hj as (k & Hk & ->). unfold zlen in *. lia.
  - intros j Hj. apply prog_In in Hj. destruct Hj as (k & Hk & ->). unfold zlen in *. lia.
Qed.

Lemma flat_map_map {A B C} (f : B -> list C) (g : A -> B) l : flat_map f (map g l) = flat_map (fun x => f (g x)) l.
Proof. induction l as [|x l IH]; [reflexivity|]. cbn. rewrite IH. reflexivity. Qed.

Lemma flat_map_ext_in {A B} (f g : A -> list B) l : (forall x, In x l -> f x = g x) -> flat_map f l = flat_map g l.
Proof.
  induction l as [|x l IH]; intros H; [reflexivity|]. cbn. rewrite (H x (or_introl eq_refl)), IH; [reflexivity|].
  intros y Hy. apply H. now right.
Qed.

Lemma mpos_in_range n m x : Forall (span_in n) m -> In x (mpos m) -> 0 <= x < n.
Proof.
  intros Hin Hx. unfold mpos in Hx. apply in_flat_map in Hx. destruct Hx as (s & Hs & Hx).
  pose proof (proj1 (Forall_forall _ _) Hin s Hs) as Hsp. destruct s as [a b|k]; [|destruct Hx].
  cbn in Hsp. apply zr_In in Hx. lia.
Qed.

(** the plus-orientation segment a view displays *)
Definition dplus (v : view) (p : list Z) : list Z := gather p (zr (seg_lo v) (seg_hi v)).

Lemma seg_is_gather (p : list Z) lo hi : 0 <= lo <= hi -> hi <= zlen p -> seg p lo hi = gather p (zr lo hi).
Proof. intros. unfold seg. now apply py_slice_unit. Qed.

Lemma value_contig v p : contig v -> zlen p = seq_len v ->
  value v p = if is_reversed v then rev (dplus v p) else dplus v p.
Proof.
  intros Hc Hp. destruct Hc as (Hwf & Habs & Hoff).
  rewrite (parent_segment_lemma v p Hwf Hp). unfold dplus.
  pose proof (seg_bounds v Hwf) as Hb. rewrite seg_is_gather by lia.
  unfold strided, is_reversed.
  destruct (Z_lt_le_dec (step v) 0) as [H|H].
  - replace (step v) with (-1) by lia. rewrite py_slice_rev. reflexivity.
  - replace (step v) with 1 by lia. rewrite py_slice_full. reflexivity.
Qed.

Lemma zlen_dplus v p : WF v -> Z.abs (step v) = 1 -> zlen p = seq_len v -> zlen (dplus v p) = vlen v.
Proof.
  intros Hwf Habs Hp. unfold dplus. pose proof (seg_bounds v Hwf) as Hb.
  rewrite <- seg_is_gather by lia. rewrite zlen_seg by lia. now apply parent_segment_exact.
Qed.

(** gathering plus-relative positions from the displayed segment reads the
    parent residues at the corresponding absolute coordinates *)
Lemma gather_dplus v p idx : WF v -> Z.abs (step v) = 1 -> zlen p = seq_len v ->
  (forall x, In x idx -> 0 <= x < vlen v) ->
  gather (dplus v p) idx = flat_map (residue p (offset v)) (map (fun x => x + parent_start v) idx).
Proof.
  intros Hwf Habs Hp Hin. rewrite flat_map_map. unfold gather. apply flat_map_ext_in.
  intros x Hx. specialize (Hin x Hx). unfold dplus, residue.
  pose proof (seg_bounds v Hwf) as Hb. pose proof (parent_segment_exact v Hwf Habs) as Hex.
  rewrite zget_gather_zr by lia. f_equal. unfold seg_lo. lia.
Qed.

(** on a reversed view the nucleic-reversed map reads the same residues backwards *)
Lemma mpos_nrev n m : Forall (span_in n) m -> no_lost m ->
  map (fun i => n - 1 - i) (mpos (rev (map (nrev_span n) m))) = rev (mpos m).
Proof.
  induction m as [|[a b|k] m IH]; intros Hin Hnl; [reflexivity| |].
  - inversion Hin as [|x y Hxy Hr]; subst. cbn [span_in] in Hxy.
    cbn [map rev]. rewrite mpos_app, map_app, IH; [|assumption|intros s Hs; apply Hnl; now right].
    cbn [mpos flat_map nrev_span]. fold (mpos m). rewrite app_nil_r, rev_app_distr. f_equal.
    replace (n - b + (b - a)) with (n - a) by lia.
    unfold zr. rewrite prog_rev.
    rewrite (map_ext _ (fun i => (n - 1) + i * (-1))) by (intros; lia).
    rewrite prog_map_affine. replace (n - a - (n - b)) with (b - a) by lia. f_equal; lia.
  - specialize (Hnl (SLost k) (or_introl eq_refl)). discriminate.
Qed.

Lemma Forall_nrev n m : Forall (span_in n) m -> Forall (span_in n) (rev (map (nrev_span n) m)).
Proof.
  intros H. apply Forall_rev. apply Forall_map. apply Forall_forall. intros s Hs.
  pose proof (proj1 (Forall_forall _ _) H s Hs) as Hsp. destruct s as [a b|k]; cbn in *; lia.
Qed.

Lemma no_lost_nrev n m : no_lost m -> no_lost (rev (map (nrev_span n) m)).
Proof.
  intros H s Hs. apply in_rev in Hs. apply in_map_iff in Hs. destruct Hs as (t & <- & Ht).
  specialize (H t Ht). destruct t; [reflexivity|discriminate].
Qed.

Lemma gather_rev_dplus (D : list Z) n m : zlen D = n -> Forall (span_in n) m -> no_lost m ->
  gather (rev D) (mpos (rev (map (nrev_span n) m))) = rev (gather D (mpos m)).
Proof.
  intros HD Hin Hnl. rewrite <- gather_rev, <- (mpos_nrev n m Hin Hnl).
  unfold gather at 2. rewrite flat_map_map. unfold gather. apply flat_map_ext_in.
  intros x Hx. pose proof (mpos_in_range n _ x (Forall_nrev n m Hin) Hx) as Hr.
  rewrite zget_rev by lia. f_equal. lia.
Qed.

(** * HEADLINE: the slice of a feature on a view *)

Lemma filter_flat_map {A B} (f : B -> bool) (g : A -> list B) l :
  filter f (flat_map g l) = flat_map (fun x => filter f (g x)) l.
Proof. induction l as [|x l IH]; [reflexivity|]. cbn. rewrite filter_app, IH. reflexivity. Qed.

Lemma map_flat_map {A B C} (f : B -> C) (g : A -> list B) l :
  map f (flat_map g l) = flat_map (fun x => map f (g x)) l.
Proof. induction l as [|x l IH]; [reflexivity|]. cbn. rewrite map_app, IH. reflexivity. Qed.

Lemma restricted_positions B n sp :
  map (fun x => x + B) (rpositions n (shift_spans B sp)) = filter (in_seg B (B + n)) (positions sp).
Proof.
  unfold rpositions, shift_spans, positions. rewrite flat_map_map, map_flat_map, filter_flat_map.
  apply flat_map_ext_in. intros [a b] _. cbn [fst snd].
  rewrite py_range_1, filter_zr, zr_shift. f_equal; lia.
Qed.

Lemma spans_ok_proper lo sp d : spans_ok lo sp -> proper (shift_spans d sp).
Proof.
  revert lo. induction sp as [|[a b] r IH]; intros lo H; [constructor|].
  cbn in H. destruct H as (H1 & H2 & H3). constructor; [cbn; lia|]. exact (IH b H3).
Qed.

Lemma cmpl_rev s : cmpl (rev s) = rev (cmpl s).
Proof. unfold cmpl. apply map_rev. Qed.

Lemma cmpl_cmpl s : cmpl (cmpl s) = s.
Proof. unfold cmpl. apply map_comp_involutive. Qed.

Lemma feature_slice_lemma fx v p f fv :
  contig v -> 0 < vlen v -> zlen p = seq_len v -> spans_ok 0 (f_spans f) ->
  feature_on_view fx v f = Ok fv ->
  fv_minus fv = xorb (f_minus f) (is_reversed v) /\
  get_slice_str v p fv = Ok (denoted p (offset v) (parent_start v) (parent_stop v) f).
Proof.
  intros Hc Hlen Hp Hok. unfold feature_on_view.
  rewrite (rel_spans_contig v (f_spans f) 0 Hc Hlen (Z.le_refl 0) Hok). cbn [bind]. intros Hmf.
  pose proof (vlen_nonneg v) as Hn.
  destruct (make_feature_pos fx (vlen v) (is_reversed v) _ (f_minus f) fv Hn
              (spans_ok_proper 0 _ (parent_start v) Hok) Hmf) as (Hminus & m & Hin & Hnl & Hpos & Hmap).
  split.
  { rewrite Hminus. destruct (f_minus f), (is_reversed v); reflexivity. }
  destruct Hc as (Hwf & Habs & Hoff).
  assert (Hplus : gather (dplus v p) (mpos m) =
                  flat_map (residue p (offset v)) (filter (in_seg (parent_start v) (parent_stop v)) (positions (f_spans f)))).
  { rewrite (gather_dplus v p (mpos m) Hwf Habs Hp) by (intros x Hx; exact (mpos_in_range _ m x Hin Hx)).
    rewrite Hpos, restricted_positions. f_equal. f_equal. f_equal.
    rewrite (vlen_contig v (conj Hwf (conj Habs Hoff))). lia. }
  unfold get_slice_str, denoted. rewrite Hmap, Hminus, <- Hplus.
  destruct (is_reversed v) eqn:Er.
  - rewrite segments_spec; [|assumption|assumption|now apply Forall_nrev|now apply no_lost_nrev].
    cbn [bind]. unfold orient. rewrite Er.
    rewrite (value_contig v p (conj Hwf (conj Habs Hoff)) Hp), Er.
    rewrite (gather_rev_dplus (dplus v p) (vlen v) m (zlen_dplus v p Hwf Habs Hp) Hin Hnl).
    destruct (f_minus f); cbn [Bool.eqb negb].
    + reflexivity.
    + rewrite cmpl_rev, cmpl_cmpl, rev_involutive. reflexivity.
  - rewrite segments_spec by assumption. cbn [bind]. unfold orient. rewrite Er.
    rewrite (value_contig v p (conj Hwf (conj Habs Hoff)) Hp), Er.
    destruct (f_minus f); reflexivity.
Qed.

(** * the query window *)

Lemma abs_pos_contig v i (bnd : bool) : contig v -> 0 < vlen v -> 0 <= i ->
  (if bnd then i <= vlen v else i < vlen v) ->
  absolute_position v i bnd = Ok (if is_reversed v then parent_stop v - i else parent_start v + i).
Proof.
  intros Hc Hlen Hi Hb. unfold absolute_position, get_index, bind.
  replace (vlen v =? 0) with false by lia. replace (i <? 0) with false by lia.
  replace ((i >? 0) && bnd && (i >? vlen v)) with false by (destruct bnd; lia).
  replace ((i >? 0) && negb bnd && (i >=? vlen v)) with false by (destruct bnd; cbn; lia).
  replace ((i <? 0) && bnd && (Z.abs i >? vlen v + 1)) with false by lia.
  replace ((i <? 0) && negb bnd && (Z.abs i >? vlen v)) with false by lia.
  replace (i >=? 0) with true by lia.
  destruct (contig_cases v Hc) as [(Es & Er & H1 & H2 & H3 & H4 & H5)|(Es & Er & H1 & H2 & H3 & H4 & H5)];
    rewrite Er, Es; cbn [Z.gtb Z.ltb Z.compare andb]; f_equal; lia.
Qed.

Definition bound_or (o : option Z) (d : Z) : Z := match o with Some x => x | None => d end.

(** a proper window [s, e) of displayed indices is turned into the absolute
    segment holding exactly those residues *)
Lemma query_window_contig v ws we : contig v -> 0 < vlen v ->
  let s := bound_or ws 0 in let e := bound_or we (vlen v) in
  0 <= s < e -> e <= vlen v ->
  query_window v ws we =
    Ok (if is_reversed v then (parent_stop v - e, parent_stop v - s) else (parent_start v + s, parent_start v + e)).
Proof.
  intros Hc Hlen s e Hse He. unfold query_window.
  assert (E1 : py_or ws 0 = s).
  { subst s. destruct ws as [x|]; cbn; [|reflexivity]. destruct (x =? 0) eqn:E; lia. }
  assert (E2 : py_or we (vlen v) = e).
  { subst e. destruct we as [x|]; cbn; [|reflexivity]. destruct (x =? 0) eqn:E; [|reflexivity]. cbn in *. lia. }
  rewrite E1, E2. replace (s <? 0) with false by lia. replace (e <? 0) with false by lia.
  replace (s <? e) with true by lia.
  rewrite (abs_pos_contig v s false Hc Hlen) by lia.
  rewrite (abs_pos_contig v e true Hc Hlen) by lia. cbn [bind].
  destruct (contig_cases v Hc) as [(Es & Er & H1 & H2 & H3 & H4 & H5)|(Es & Er & H1 & H2 & H3 & H4 & H5)];
    rewrite Er; destruct Hc as (_ & _ & Hoff); f_equal; f_equal; lia.
Qed.

(** * query membership *)

Lemma collect_fst fx v l r : collect fx v l = Ok r -> map fst r = map fst l.
Proof.
  revert r. induction l as [|[i f] l IH]; intros r; cbn [collect].
  - intros [= <-]. reflexivity.
  - destruct (feature_on_view fx v f) as [fv|c]; [|discriminate]. cbn [bind].
    destruct (collect fx v l) as [r'|c]; [|discriminate]. cbn [bind]. intros [= <-].
    cbn. f_equal. now apply IH.
Qed.

Lemma index_from_In {A} (l : list A) i k x :
  In (k, x) (index_from i l) <-> i <= k /\ nth_error l (Z.to_nat (k - i)) = Some x.
Proof.
  revert i. induction l as [|y l IH]; intros i; cbn [index_from].
  - split; [intros []|]. intros [_ H]. destruct (Z.to_nat (k - i)); discriminate.
  - cbn [In]. rewrite IH. split.
    + intros [[= <- <-]|[H1 H2]].
      * split; [lia|]. replace (Z.to_nat (i - i)) with O by lia. reflexivity.
      * split; [lia|]. replace (Z.to_nat (k - i)) with (S (Z.to_nat (k - (i + 1)))) by lia. exact H2.
    + intros [H1 H2]. destruct (Z.eq_dec k i) as [->|Hne].
      * left. replace (Z.to_nat (i - i)) with O in H2 by lia. cbn in H2. congruence.
      * right. split; [lia|]. replace (Z.to_nat (k - i)) with (S (Z.to_nat (k - (i + 1)))) in H2 by lia. exact H2.
Qed.

Lemma get_features_member fx v db ws we partial qs qe l :
  query_window v ws we = Ok (qs, qe) -> get_features fx v db ws we partial = Ok l ->
  forall k, In k (map fst l) <->
    exists f, 0 <= k /\ nth_error db (Z.to_nat k) = Some f /\ db_match partial qs qe f = true.
Proof.
  intros Hw. unfold get_features. rewrite Hw. cbn [bind]. intros Hl k.
  rewrite (collect_fst _ _ _ _ Hl). rewrite in_map_iff. split.
  - intros ([k' f] & Hk & Hin). cbn in Hk. subst k'. apply filter_In in Hin. destruct Hin as [Hin Hm].
    apply index_from_In in Hin. destruct Hin as [H0 Hn]. rewrite Z.sub_0_r in Hn. exists f. tauto.
  - intros (f & H0 & Hn & Hm). exists (k, f). split; [reflexivity|]. apply filter_In. split; [|exact Hm].
    apply index_from_In. rewrite Z.sub_0_r. tauto.
Qed.

(** the bounding box of well-formed spans is a proper interval *)
Lemma fold_min_le x r : fold_right Z.min x r <= x.
Proof. induction r as [|y r IH]; cbn; lia. Qed.
Lemma fold_max_ge x r : x <= fold_right Z.max x r.
Proof. induction r as [|y r IH]; cbn; lia. Qed.
Lemma fold_max_ge_in x r y : In y r -> y <= fold_right Z.max x r.
Proof. induction r as [|z r IH]; cbn; [intros []|]. intros [->|H]; [lia|]. specialize (IH H). lia. Qed.

Lemma bbox_proper f : feat_ok f -> bb_lo (f_spans f) < bb_hi (f_spans f).
Proof.
  intros [Hne Hok]. destruct (f_spans f) as [|[a b] r]; [congruence|].
  cbn in Hok. unfold bb_lo, bb_hi. cbn [all_coords flat_map fst snd app].
  pose proof (fold_min_le a (b :: all_coords r)).
  pose proof (fold_max_ge_in a (b :: all_coords r) b (or_introl eq_refl)). unfold all_coords in *. lia.
Qed.

Lemma db_match_spec partial qs qe f : feat_ok f -> qs < qe ->
  (db_match partial qs qe f = true <->
   if partial then overlaps (bb_lo (f_spans f)) (bb_hi (f_spans f)) qs qe
   else inside (bb_lo (f_spans f)) (bb_hi (f_spans f)) qs qe).
Proof.
  intros Hf Hq. pose proof (bbox_proper f Hf). unfold db_match. destruct partial.
  - now apply db_partial_overlap.
  - apply db_within_inside.
Qed.

(** * any history of unit-step slices and reverse complements gives a contiguous view *)

From CG3 Require Import Model.AnnotRun.

Definition unit_op (o : vop) : Prop :=
  match o with VSlice _ _ c => c = None \/ c = Some 1 | VRc => True end.

Definition vinv (p : list Z) (off : Z) (v : view) : Prop :=
  WF v /\ 0 <= offset v /\ (0 < vlen v -> Z.abs (step v) = 1 /\ zlen p = seq_len v /\ offset v = off).

Lemma offset_getitem_nonneg v a b c v' : WF v -> 0 <= offset v ->
  getitem_slice FSeqView v a b c = Ok v' -> 0 <= offset v'.
Proof.
  intros Hwf Hoff H. unfold getitem_slice in H.
  assert (Hz0 : forall w, zero_slice FSeqView v = Ok w -> 0 <= offset w).
  { intros w. rewrite zero_slice_eq. intros [= <-]. cbn. lia. }
  assert (Hr : forall s e k w, rebuild v s e k = Ok w -> 0 <= offset w).
  { intros s e k w Hw. destruct (seq_len_mk_view _ _ _ _ _ _ Hw) as [_ ->]. assumption. }
  assert (Hmain : (if vlen v =? 0 then Ok v else
    if opt_eqb a b then zero_slice FSeqView v else
    let slice_step := match c with None => 1 | Some x => x end in
    if slice_step >? 0 then View.get_slice FSeqView v a b slice_step
    else if slice_step <? 0 then get_reverse_slice FSeqView v a b slice_step
    else Err E_Value) = Ok v' -> 0 <= offset v').
  { destruct (vlen v =? 0); [intros [= <-]; assumption|].
    destruct (opt_eqb a b); [apply Hz0|]. cbv zeta.
    destruct (_ >? 0).
    - unfold View.get_slice. destruct (step v >? 0).
      + unfold get_forward_slice_from_forward.
        repeat match goal with |- (if ?x then zero_slice _ _ else _) = _ -> _ => destruct x; [apply Hz0|] end.
        apply Hr.
      + destruct (step v <? 0); [|discriminate]. unfold get_forward_slice_from_reverse.
        repeat match goal with |- (if ?x then zero_slice _ _ else _) = _ -> _ => destruct x; [apply Hz0|] end.
        apply Hr.
    - destruct (_ <? 0); [|discriminate]. unfold get_reverse_slice. destruct (step v <? 0).
      + unfold get_reverse_slice_from_reverse. cbv zeta.
        repeat match goal with |- (if ?x then zero_slice _ _ else _) = _ -> _ => destruct x; [apply Hz0|] end.
        apply Hr.
      + destruct (step v >? 0); [|discriminate]. unfold get_reverse_slice_from_forward. cbv zeta.
        repeat match goal with |- (if ?x then zero_slice _ _ else _) = _ -> _ => destruct x; [apply Hz0|] end.
        apply Hr. }
  destruct a; [exact (Hmain H)|]. destruct b; [exact (Hmain H)|]. destruct c; [exact (Hmain H)|].
  cbn [copy_view] in H. destruct (seq_len_mk_view _ _ _ _ _ _ H) as [_ ->]. assumption.
Qed.

Lemma vinv_getitem p off v a b c v' : vinv p off v -> Z.abs (step_of c) = 1 ->
  getitem_slice FSeqView v a b c = Ok v' -> vinv p off v'.
Proof.
  intros (Hwf & Hoff & Hpos) Hc H.
  assert (Hc0 : c <> Some 0) by (intros ->; cbn in Hc; lia).
  pose proof (wf_getitem_slice_lemma _ _ _ _ _ _ Hwf H) as Hwf'.
  split; [assumption|]. split; [exact (offset_getitem_nonneg _ _ _ _ _ Hwf Hoff H)|]. intros Hlen'.
  destruct (shape_getitem_slice _ _ _ _ _ _ Hwf H) as [Hsh Hz].
  assert (Hlen : 0 < vlen v).
  { pose proof (vlen_nonneg v). destruct (Z.eq_dec (vlen v) 0) as [E|E]; [specialize (Hz E); lia|lia]. }
  destruct (Hpos Hlen) as (Habs & Hp & Ho).
  destruct Hsh as [H0|[Hsl Hso]]; [lia|].
  destruct (step_getitem_slice _ _ _ _ _ _ Hwf Hc0 H) as [Hse|Hst].
  { pose proof (proj2 (wf_empty_iff v' Hwf') Hse). lia. }
  repeat split.
  - rewrite Hst, Z.abs_mul, Habs, Hc. reflexivity.
  - congruence.
  - congruence.
Qed.

Lemma apply_vop_err e o : apply_vop (Err e) o = Err e.
Proof. reflexivity. Qed.

Lemma fold_vop_err e ops : fold_left apply_vop ops (Err e) = Err e.
Proof. induction ops as [|o ops IH]; [reflexivity|]. cbn [fold_left]. rewrite apply_vop_err. exact IH. Qed.

Lemma vinv_history p off ops : forall v v', vinv p off v -> Forall unit_op ops ->
  fold_left apply_vop ops (Ok v) = Ok v' -> vinv p off v'.
Proof.
  induction ops as [|o ops IH]; intros v v' Hv Hops H.
  - cbn in H. injection H as <-. exact Hv.
  - inversion Hops as [|x y Ho Hr]; subst. cbn [fold_left] in H.
    destruct (apply_vop (Ok v) o) as [w|e] eqn:E; [|rewrite fold_vop_err in H; discriminate].
    apply (IH w v'); [|assumption|assumption].
    destruct o as [a b c|]; cbn [apply_vop bind] in E.
    + apply (vinv_getitem p off v a b c w Hv); [|exact E]. cbn in Ho. destruct Ho as [->| ->]; reflexivity.
    + apply (vinv_getitem p off v None None (Some (-1)) w Hv); [reflexivity|exact E].
Qed.

Lemma vinv_init p off : 0 <= off -> forall v0, mk_view (zlen p) None None None off = Ok v0 -> vinv p off v0.
Proof.
  intros Hoff v0 H. pose proof (wf_mk_view_lemma _ _ _ _ _ _ (zlen_nonneg p) H) as Hwf.
  destruct (seq_len_mk_view _ _ _ _ _ _ H) as [Hn Ho].
  split; [assumption|]. split; [lia|]. intros Hlen.
  rewrite mk_view_none_step in H.
  assert (H10 : 1 <> 0) by lia.
  destruct (mk_view_step_cases _ _ _ _ _ _ (zlen_nonneg p) H10 H) as [Hs|Hse].
  - repeat split; [rewrite Hs; reflexivity|congruence|assumption].
  - pose proof (proj2 (wf_empty_iff v0 Hwf) Hse). lia.
Qed.

Lemma vinv_contig p off v : vinv p off v -> 0 < vlen v -> contig v /\ zlen p = seq_len v /\ offset v = off.
Proof.
  intros (Hwf & Hoff & Hpos) Hlen. destruct (Hpos Hlen) as (Habs & Hp & Ho).
  split; [split; [assumption|split; assumption]|split; assumption].
Qed.

(** HEADLINE over histories *)
Lemma history_irrelevant_lemma fx p off ops v0 v f fv :
  0 <= off -> mk_view (zlen p) None None None off = Ok v0 ->
  Forall unit_op ops -> fold_left apply_vop ops (Ok v0) = Ok v -> 0 < vlen v ->
  spans_ok 0 (f_spans f) -> feature_on_view fx v f = Ok fv ->
  fv_minus fv = xorb (f_minus f) (is_reversed v) /\ get_slice_str v p fv = Ok (denoted p off (parent_start v) (parent_stop v) f).
Proof.
  intros Hoff H0 Hops Hfold Hlen Hok Hfv.
  pose proof (vinv_history p off ops v0 v (vinv_init p off Hoff v0 H0) Hops Hfold) as Hinv.
  destruct (vinv_contig p off v Hinv Hlen) as (Hc & Hp & Ho).
  rewrite <- Ho. exact (feature_slice_lemma fx v p f fv Hc Hlen Hp Hok Hfv).
Qed.

(** * with the boundary repair, get_features never raises on a contiguous view *)

Lemma clamp_span_some fx n s e s' e' : s < e -> 0 <= n ->
  clamp_span fx n (s, e) = Some (s', e') ->
  s <= s' /\ e' <= e /\ s' < e' /\ s' <= n /\ (fx_bound fx = true \/ e <> 0 -> 0 <= s').
Proof.
  intros Hse Hn. unfold clamp_span.
  replace (Z.min s e) with s by lia. replace (Z.max s e) with e by lia.
  destruct ((s <? 0) && (0 <? e)) eqn:C1; [intros [= <- <-]; lia|].
  destruct ((s <? n) && (n <? e)) eqn:C2; [intros [= <- <-]; lia|].
  destruct (fx_bound fx).
  - destruct ((s =? e) || (s >=? n) || (e <=? 0)) eqn:C3; [discriminate|]. intros [= <- <-]. lia.
  - destruct ((s =? e) || (s >? n) || (e <? 0)) eqn:C3; [discriminate|]. intros [= <- <-].
    repeat split; try lia. all: try (intros [Hf|He]; [discriminate|lia]).
Qed.

Lemma clamp_sorted fx n sp : 0 <= n -> forall lo, spans_ok lo sp -> spans_ok lo (clamp_spans fx n sp).
Proof.
  intros Hn. induction sp as [|[s e] r IH]; intros lo Hok; [exact I|].
  cbn in Hok. destruct Hok as (H1 & H2 & H3). cbn [clamp_spans].
  destruct (clamp_span fx n (s, e)) as [[s' e']|] eqn:E.
  - destruct (clamp_span_some fx n s e s' e' H2 Hn E) as (A1 & A2 & A3 & A4 & _).
    cbn. repeat split; try lia. apply (spans_ok_weaken e); [lia|]. exact (IH e H3).
  - apply (spans_ok_weaken e); [lia|]. exact (IH e H3).
Qed.

Lemma spans_ok_last lo l d : spans_ok lo l -> l <> [] -> lo < snd (last l d).
Proof.
  revert lo. induction l as [|[a b] r IH]; intros lo Hok Hne; [congruence|].
  cbn in Hok. destruct Hok as (H1 & H2 & H3). destruct r as [|q r'].
  - cbn. lia.
  - change (last ((a, b) :: q :: r') d) with (last (q :: r') d).
    assert (Hq : q :: r' <> []) by discriminate. specialize (IH b H3 Hq). lia.
Qed.

Definition no_end_at_zero (sp : list (Z * Z)) : Prop := Forall (fun q => snd q <> 0) sp.

Lemma clamp_all_in fx n sp : fx_bound fx = true \/ no_end_at_zero sp -> 0 <= n -> proper sp ->
  Forall (fun q => 0 <= fst q <= snd q /\ fst q <= n) (clamp_spans fx n sp).
Proof.
  intros Hfx Hn. induction sp as [|[s e] r IH]; intros Hp; [constructor|].
  inversion Hp as [|x y Hse Hr]; subst. cbn [fst snd] in Hse. cbn [clamp_spans].
  assert (Hfx' : fx_bound fx = true \/ no_end_at_zero r).
  { destruct Hfx as [H|H]; [left; exact H|right]. inversion H; assumption. }
  destruct (clamp_span fx n (s, e)) as [[s' e']|] eqn:E; [|exact (IH Hfx' Hr)].
  destruct (clamp_span_some fx n s e s' e' Hse Hn E) as (A1 & A2 & A3 & A4 & A5).
  assert (A6 : 0 <= s').
  { apply A5. destruct Hfx as [H|H]; [left; exact H|right]. inversion H as [|x y Hxy ?]; subst. exact Hxy. }
  constructor; [cbn; lia|exact (IH Hfx' Hr)].
Qed.

Lemma sfl_loop_total n l : Forall (fun q => 0 <= fst q <= snd q /\ fst q <= n) l -> exists m, sfl_loop n l = Ok m.
Proof.
  induction l as [|[s e] r IH]; intros H; [exists []; reflexivity|].
  inversion H as [|x y Hq Hr]; subst. cbn [fst snd] in Hq. destruct (IH Hr) as (m & Hm).
  cbn [sfl_loop]. replace (s >? e) with false by lia. replace (Z.min s e <? 0) with false by lia.
  replace (s >? n) with false by lia. cbn [orb]. rewrite Hm. cbn [bind]. eexists. reflexivity.
Qed.

Lemma spans_ok_proper0 lo sp : spans_ok lo sp -> proper sp.
Proof.
  revert lo. induction sp as [|[a b] r IH]; intros lo H; [constructor|].
  cbn in H. destruct H as (H1 & H2 & H3). constructor; [exact H2|]. exact (IH b H3).
Qed.

Lemma spans_ok_shift lo d sp : spans_ok lo sp -> spans_ok (lo - d) (shift_spans d sp).
Proof.
  revert lo. induction sp as [|[a b] r IH]; intros lo H; [exact I|].
  cbn in H. destruct H as (H1 & H2 & H3). cbn. repeat split; try lia. exact (IH b H3).
Qed.

Lemma make_feature_total fx n rced sp minus lo : fx_bound fx = true \/ no_end_at_zero sp -> 0 <= n -> sp <> [] ->
  spans_ok lo sp -> exists fv, make_feature fx n rced sp minus = Ok fv.
Proof.
  intros Hfx Hn Hne Hok. unfold make_feature.
  destruct sp as [|[a b] r]; [congruence|]. cbn [all_coords flat_map fst snd app].
  assert (Hs : exists m, spans_from_locations n (clamp_spans fx n ((a, b) :: r)) = Ok m).
  { unfold spans_from_locations.
    pose proof (clamp_sorted fx n _ Hn lo Hok) as Hsorted.
    pose proof (clamp_all_in fx n _ Hfx Hn (spans_ok_proper0 lo _ Hok)) as Hin.
    destruct (clamp_spans fx n ((a, b) :: r)) as [|[s0 e0] l0] eqn:El; [exists []; reflexivity|].
    assert (Hlast : s0 < snd (last ((s0, e0) :: l0) (0, 0))).
    { destruct l0 as [|q l1].
      - cbn in *. lia.
      - change (last ((s0, e0) :: q :: l1) (0, 0)) with (last (q :: l1) (0, 0)).
        cbn in Hsorted. destruct Hsorted as (S1 & S2 & S3).
        assert (Hq : q :: l1 <> []) by discriminate.
        pose proof (spans_ok_last e0 (q :: l1) (0, 0) S3 Hq). lia. }
    replace (s0 >? snd (last ((s0, e0) :: l0) (0, 0))) with false by lia.
    exact (sfl_loop_total n _ Hin). }
  destruct Hs as (m & ->). cbn [bind]. eexists. reflexivity.
Qed.

(** no span of the feature ends exactly where the displayed segment starts *)
Definition no_span_ends_at (x : Z) (sp : list (Z * Z)) : Prop := Forall (fun q => snd q <> x) sp.

Lemma never_raises_lemma fx v f : contig v -> 0 < vlen v -> feat_ok f ->
  fx_bound fx = true \/ no_span_ends_at (parent_start v) (f_spans f) ->
  exists fv, feature_on_view fx v f = Ok fv.
Proof.
  intros Hc Hlen [Hne Hok] Hfx. unfold feature_on_view.
  rewrite (rel_spans_contig v (f_spans f) 0 Hc Hlen (Z.le_refl 0) Hok). cbn [bind].
  apply (make_feature_total fx (vlen v) (is_reversed v) _ (f_minus f) (0 - parent_start v)).
  - destruct Hfx as [H|H]; [left; exact H|right].
    unfold no_end_at_zero, shift_spans. apply Forall_map.
    apply (Forall_impl _ (P := fun q => snd q <> parent_start v)); [|exact H]. intros q Hq. cbn. lia.
  - exact (vlen_nonneg v).
  - unfold shift_spans. destruct (f_spans f); [congruence|discriminate].
  - apply spans_ok_shift. exact Hok.
Qed.

Lemma fixed_never_raises_lemma fx v f : fx_bound fx = true -> contig v -> 0 < vlen v -> feat_ok f ->
  exists fv, feature_on_view fx v f = Ok fv.
Proof. intros Hfx Hc Hlen Hf. apply never_raises_lemma; try assumption. left. exact Hfx. Qed.

(** the pinned code raises only when some span ends exactly at the start of the displayed segment *)
Lemma pinned_raises_only_at_boundary_lemma v f e : contig v -> 0 < vlen v -> feat_ok f ->
  feature_on_view pinned v f = Err e ->
  exists a b, In (a, b) (f_spans f) /\ b = parent_start v.
Proof.
  intros Hc Hlen Hf Herr.
  destruct (Forall_Exists_dec (fun q : Z * Z => snd q <> parent_start v)
              (fun q => match Z.eq_dec (snd q) (parent_start v) with left E => right (fun H => H E) | right N => left N end)
              (f_spans f)) as [Hall|Hex].
  - destruct (never_raises_lemma pinned v f Hc Hlen Hf (or_intror Hall)) as (fv & Hfv). congruence.
  - apply Exists_exists in Hex. destruct Hex as ([a b] & Hin & Hq). exists a, b. split; [exact Hin|].
    cbn in Hq. destruct (Z.eq_dec b (parent_start v)); [assumption|contradiction].
Qed.

Lemma In_clamp_spans fx n sp q q' : In q sp -> clamp_span fx n q = Some q' -> In q' (clamp_spans fx n sp).
Proof.
  induction sp as [|p r IH]; intros Hin Hc; [destruct Hin|].
  cbn [clamp_spans]. destruct Hin as [->|Hin].
  - rewrite Hc. now left.
  - destruct (clamp_span fx n p); [right|]; now apply IH.
Qed.

Lemma clamp_starts_le fx n sp : 0 <= n -> proper sp -> Forall (fun q => fst q <= n) (clamp_spans fx n sp).
Proof.
  intros Hn. induction sp as [|[s e] r IH]; intros Hp; [constructor|].
  inversion Hp as [|x y Hse Hr]; subst. cbn [fst snd] in Hse. cbn [clamp_spans].
  destruct (clamp_span fx n (s, e)) as [[s' e']|] eqn:E; [|exact (IH Hr)].
  destruct (clamp_span_some fx n s e s' e' Hse Hn E) as (A1 & A2 & A3 & A4 & A5).
  constructor; [cbn; lia|exact (IH Hr)].
Qed.

Lemma sfl_loop_err n l : Forall (fun q => fst q <= n) l -> Exists (fun q => Z.min (fst q) (snd q) < 0) l ->
  sfl_loop n l = Err E_Value.
Proof.
  induction l as [|[s e] r IH]; intros Hle Hex; [inversion Hex|].
  inversion Hle as [|x y Hs Hr]; subst. cbn [fst snd] in Hs. cbn [sfl_loop].
  destruct ((s >? e) || (Z.min s e <? 0)) eqn:C; [reflexivity|].
  replace (s >? n) with false by lia.
  inversion Hex as [x y Hq|x y Hq]; subst; [cbn [fst snd] in Hq; lia|].
  rewrite (IH Hr Hq). reflexivity.
Qed.

(** ... and it does raise ValueError whenever one does *)
Lemma pinned_raises_at_boundary_lemma v f a b : contig v -> 0 < vlen v -> feat_ok f ->
  In (a, b) (f_spans f) -> b = parent_start v ->
  feature_on_view pinned v f = Err E_Value.
Proof.
  intros Hc Hlen [Hne Hok] Hin Hb. unfold feature_on_view.
  rewrite (rel_spans_contig v (f_spans f) 0 Hc Hlen (Z.le_refl 0) Hok). cbn [bind].
  set (B := parent_start v) in *. set (n := vlen v) in *. pose proof (vlen_nonneg v) as Hn. fold n in Hn.
  pose proof (spans_ok_shift 0 B _ Hok) as Hsorted.
  pose proof (spans_ok_proper0 _ _ Hsorted) as Hprop.
  assert (Hab : a < b).
  { pose proof (spans_ok_proper0 _ _ Hok) as Hp. exact (proj1 (Forall_forall _ _) Hp (a, b) Hin). }
  assert (Hkept : In (a - B, 0) (clamp_spans pinned n (shift_spans B (f_spans f)))).
  { apply (In_clamp_spans pinned n _ (a - B, b - B)).
    - unfold shift_spans. apply in_map_iff. exists (a, b). split; [reflexivity|exact Hin].
    - unfold clamp_span. cbn [fx_bound pinned].
      replace (Z.min (a - B) (b - B)) with (a - B) by lia. replace (Z.max (a - B) (b - B)) with (b - B) by lia.
      replace ((a - B <? 0) && (0 <? b - B)) with false by lia.
      replace ((a - B <? n) && (n <? b - B)) with false by lia.
      replace ((a - B =? b - B) || (a - B >? n) || (b - B <? 0)) with false by lia.
      f_equal. f_equal. lia. }
  unfold make_feature.
  destruct (all_coords (shift_spans B (f_spans f))) as [|x r] eqn:Eall.
  { destruct (f_spans f) as [|[a0 b0] r0]; [congruence|discriminate]. }
  assert (Hs : spans_from_locations n (clamp_spans pinned n (shift_spans B (f_spans f))) = Err E_Value).
  { unfold spans_from_locations.
    pose proof (clamp_sorted pinned n _ Hn (0 - B) Hsorted) as Hcs.
    destruct (clamp_spans pinned n (shift_spans B (f_spans f))) as [|[s0 e0] l0] eqn:El; [destruct Hkept|].
    assert (Hlast : s0 < snd (last ((s0, e0) :: l0) (0, 0))).
    { destruct l0 as [|q l1].
      - cbn in *. lia.
      - change (last ((s0, e0) :: q :: l1) (0, 0)) with (last (q :: l1) (0, 0)).
        cbn in Hcs. destruct Hcs as (S1 & S2 & S3).
        assert (Hq : q :: l1 <> []) by discriminate.
        pose proof (spans_ok_last e0 (q :: l1) (0, 0) S3 Hq). lia. }
    replace (s0 >? snd (last ((s0, e0) :: l0) (0, 0))) with false by lia.
    apply sfl_loop_err.
    - rewrite <- El. exact (clamp_starts_le pinned n _ Hn Hprop).
    - apply Exists_exists. exists (a - B, 0). split; [exact Hkept|]. cbn. lia. }
  rewrite Hs. reflexivity.
Qed.

(** * add_feature through a view (repaired variant) *)

Definition nonneg_spans (l : list (Z * Z)) : Prop := Forall (fun q => 0 <= fst q /\ 0 <= snd q) l.

Lemma rel_spans_contig_nn v l : contig v -> 0 < vlen v -> nonneg_spans l ->
  rel_spans v l = Ok (shift_spans (parent_start v) l).
Proof.
  intros Hc Hlen. induction l as [|[a b] r IH]; intros H; [reflexivity|].
  inversion H as [|x y [Ha Hb] Hr]; subst. cbn [fst snd] in *.
  cbn [rel_spans]. rewrite !rel_coord_contig by assumption. cbn [bind].
  rewrite (IH Hr). reflexivity.
Qed.

(** the absolute plus-strand coordinates of the displayed residues [a, b) of each span *)
Definition abs_of_view (v : view) (spans : list (Z * Z)) : list (Z * Z) :=
  if is_reversed v then rev (map (fun q => (parent_stop v - snd q, parent_stop v - fst q)) spans)
  else map (fun q => (parent_start v + fst q, parent_start v + snd q)) spans.

Definition view_spans (n : Z) (l : list (Z * Z)) : Prop := Forall (fun q => 0 <= fst q <= n /\ 0 <= snd q <= n) l.

Lemma add_conv_contig v spans : contig v -> 0 < vlen v -> view_spans (vlen v) spans ->
  add_conv v spans = Ok (map (fun q => if is_reversed v then (parent_stop v - snd q, parent_stop v - fst q)
                                       else (parent_start v + fst q, parent_start v + snd q)) spans).
Proof.
  intros Hc Hlen. induction spans as [|[a b] r IH]; intros H; [reflexivity|].
  inversion H as [|x y [Ha Hb] Hr]; subst. cbn [fst snd] in *.
  cbn [add_conv]. rewrite !(abs_pos_contig v _ true Hc Hlen) by lia. cbn [bind].
  rewrite (IH Hr). cbn [bind map fst snd]. destruct (is_reversed v); reflexivity.
Qed.

Lemma add_feature_coords_lemma fx v spans minus : fx_add fx = true -> contig v -> 0 < vlen v ->
  view_spans (vlen v) spans ->
  add_feature fx v spans minus =
    Ok (mkF (abs_of_view v spans) (xorb minus (is_reversed v)),
        shift_spans (parent_start v) (abs_of_view v spans), xorb minus (is_reversed v)).
Proof.
  intros Hfx Hc Hlen Hsp. unfold add_feature. rewrite Hfx, (add_conv_contig v spans Hc Hlen Hsp). cbn [bind].
  assert (Hab : (if is_reversed v then rev (map (fun q => if is_reversed v then (parent_stop v - snd q, parent_stop v - fst q)
                                       else (parent_start v + fst q, parent_start v + snd q)) spans)
                 else map (fun q => if is_reversed v then (parent_stop v - snd q, parent_stop v - fst q)
                                       else (parent_start v + fst q, parent_start v + snd q)) spans) = abs_of_view v spans).
  { unfold abs_of_view. destruct (is_reversed v); reflexivity. }
  rewrite Hab.
  assert (Hnn : nonneg_spans (abs_of_view v spans)).
  { pose proof (vlen_contig v Hc) as Hv. destruct Hc as (Hwf & Habs & Hoff).
    pose proof (seg_bounds v Hwf) as Hb. unfold seg_lo, seg_hi in Hb.
    unfold abs_of_view, nonneg_spans. destruct (is_reversed v).
    - apply Forall_rev. apply Forall_map. apply (Forall_impl _ (P := fun q => 0 <= fst q <= vlen v /\ 0 <= snd q <= vlen v)); [|exact Hsp].
      intros q Hq. cbn. lia.
    - apply Forall_map. apply (Forall_impl _ (P := fun q => 0 <= fst q <= vlen v /\ 0 <= snd q <= vlen v)); [|exact Hsp].
      intros q Hq. cbn. lia. }
  rewrite (rel_spans_contig_nn v _ Hc Hlen Hnn). cbn [bind].
  destruct (is_reversed v), minus; reflexivity.
Qed.

(** * witnesses: the pinned code violates the unguarded statements *)

Definition w_parent : list Z := [67; 84; 65; 71; 65; 71; 84].      (* CTAGAGT *)
Definition w_feat : feat := mkF [(0, 2); (3, 4); (6, 7)] false.
Definition w_view : view := mkV 2 3 1 7 0.                           (* rc()[4:5].rc() *)

Lemma w_view_contig : contig w_view.
Proof. unfold contig, WF. cbn. lia. Qed.

Lemma make_feature_raises_refuted_lemma :
  exists v f, contig v /\ 0 < vlen v /\ feat_ok f /\
    get_features pinned v [f] None None true = Err E_Value.
Proof.
  exists w_view, w_feat. split; [exact w_view_contig|]. split; [vm_compute; reflexivity|].
  split; [split; [discriminate|cbn; lia]|]. vm_compute. reflexivity.
Qed.

(* new-style seq[feature] on a sequence with an annotation offset: "AATC", offset 10, feature [11,13) *)
Definition w2_parent : list Z := [65; 65; 84; 67].
Definition w2_view : view := mkV 0 4 1 4 10.
Definition w2_feat : feat := mkF [(11, 13)] false.

Lemma new_slice_offset_refuted_lemma :
  exists v p f fv, contig v /\ 0 < vlen v /\ zlen p = seq_len v /\ feat_ok f /\
    feature_on_view pinned v f = Ok fv /\
    get_slice pinned NewSeq v p fv = Err E_Value /\
    get_slice_str v p fv = Ok (denoted p (offset v) (parent_start v) (parent_stop v) f).
Proof.
  exists w2_view, w2_parent, w2_feat, (mkFV false [SSpan 1 3]).
  split; [unfold contig, WF; cbn; lia|]. split; [vm_compute; reflexivity|]. split; [reflexivity|].
  split; [split; [discriminate|cbn; lia]|]. repeat split; vm_compute; reflexivity.
Qed.

(* parent coordinates of a feature slice: "ACGTACGTACGG"[2:], feature [4,8) *)
Definition w3_parent : list Z := [65; 67; 71; 84; 65; 67; 71; 84; 65; 67; 71; 71].
Definition w3_view : view := mkV 2 12 1 12 0.
Definition w3_feat : feat := mkF [(4, 8)] false.

Lemma slice_coords_refuted_lemma :
  exists v p f fv, contig v /\ zlen p = seq_len v /\ f_spans f = [(4, 8)] /\ f_minus f = false /\
    parent_start v <= 4 /\ 8 <= parent_stop v /\
    feature_on_view pinned v f = Ok fv /\
    slice_coords pinned OldSeq v p fv = Ok (Some (2, 6, 1)) /\
    slice_coords pinned NewSeq v p fv = Ok (Some (6, 10, 1)) /\
    slice_coords all_fixed OldSeq v p fv = Ok (Some (4, 8, 1)) /\
    slice_coords all_fixed NewSeq v p fv = Ok (Some (4, 8, 1)).
Proof.
  exists w3_view, w3_parent, w3_feat, (mkFV false [SSpan 2 6]).
  split; [unfold contig, WF; cbn; lia|]. repeat split; try (vm_compute; reflexivity); vm_compute; discriminate.
Qed.

(* add_feature through "GGATCACA"[3:6] at view coordinates [0,1): stored as [0,1), not found on that view *)
Definition w4_view : view := mkV 3 6 1 8 0.

Lemma add_feature_refuted_lemma :
  exists v spans minus rec sp m, contig v /\ 0 < vlen v /\ view_spans (vlen v) spans /\
    add_feature pinned v spans minus = Ok (rec, sp, m) /\
    f_spans rec <> abs_of_view v spans /\
    get_features pinned v [rec] None None true = Ok [].
Proof.
  exists w4_view, [(0, 1)], false, (mkF [(0, 1)] false), [(0, 1)], false.
  split; [unfold contig, WF; cbn; lia|]. split; [vm_compute; reflexivity|].
  split; [repeat constructor; cbn; lia|]. split; [reflexivity|]. split; [vm_compute; discriminate|].
  vm_compute. reflexivity.
Qed.

(** * query membership on a contiguous view, in one statement *)

Definition abs_window (v : view) (s e : Z) : Z * Z :=
  if is_reversed v then (parent_stop v - e, parent_stop v - s) else (parent_start v + s, parent_start v + e).

Definition box_matches (partial : bool) (w : Z * Z) (f : feat) : Prop :=
  if partial then overlaps (bb_lo (f_spans f)) (bb_hi (f_spans f)) (fst w) (snd w)
  else inside (bb_lo (f_spans f)) (bb_hi (f_spans f)) (fst w) (snd w).

Lemma query_membership_lemma fx v db ws we partial l : contig v -> 0 < vlen v ->
  let s := bound_or ws 0 in let e := bound_or we (vlen v) in
  0 <= s < e -> e <= vlen v -> Forall feat_ok db ->
  get_features fx v db ws we partial = Ok l ->
  forall k, In k (map fst l) <->
    exists f, 0 <= k /\ nth_error db (Z.to_nat k) = Some f /\ box_matches partial (abs_window v s e) f.
Proof.
  intros Hc Hlen s e Hse He Hdb Hl k.
  pose proof (query_window_contig v ws we Hc Hlen Hse He) as Hw. fold s e in Hw.
  assert (Hw' : query_window v ws we = Ok (fst (abs_window v s e), snd (abs_window v s e))).
  { rewrite Hw. unfold abs_window. destruct (is_reversed v); reflexivity. }
  rewrite (get_features_member fx v db ws we partial _ _ l Hw' Hl k).
  assert (Hq : fst (abs_window v s e) < snd (abs_window v s e)).
  { unfold abs_window. destruct (is_reversed v); cbn; lia. }
  split; intros (f & H0 & Hn & Hm); exists f; (split; [assumption|]); (split; [assumption|]).
  - assert (Hf : feat_ok f) by (apply (proj1 (Forall_forall _ _) Hdb); eapply nth_error_In; eassumption).
    apply (db_match_spec partial _ _ f Hf Hq) in Hm. unfold box_matches. destruct partial; exact Hm.
  - assert (Hf : feat_ok f) by (apply (proj1 (Forall_forall _ _) Hdb); eapply nth_error_In; eassumption).
    apply (db_match_spec partial _ _ f Hf Hq). unfold box_matches in Hm. destruct partial; exact Hm.
Qed.

(** old-style (and repaired new-style) get_slice is the plain reading of the map *)
Lemma get_slice_old_lemma fx v p fv : get_slice fx OldSeq v p fv = get_slice_str v p fv.
Proof. reflexivity. Qed.

Lemma get_slice_new_fixed_lemma fx v p fv : fx_mapped fx = true -> get_slice fx NewSeq v p fv = get_slice_str v p fv.
Proof.
  intros H. unfold get_slice, get_slice_err. rewrite H.
  destruct (without_gaps (fv_map fv)) as [|[a b|k] [|x r]]; reflexivity.
Qed.

(** * non-vacuity: the hypotheses of the headline theorems are met by concrete, non-trivial instances *)

(* "ACGTACGTACGG"[2:], '+' feature [4,8): slice "ACGT" *)
Example headline_instance_fwd :
  contig w3_view /\ 0 < vlen w3_view /\ zlen w3_parent = seq_len w3_view /\ spans_ok 0 (f_spans w3_feat) /\
  exists fv, feature_on_view pinned w3_view w3_feat = Ok fv /\
    denoted w3_parent (offset w3_view) (parent_start w3_view) (parent_stop w3_view) w3_feat = [65; 67; 71; 84].
Proof.
  split; [unfold contig, WF; cbn; lia|]. split; [vm_compute; reflexivity|]. split; [reflexivity|].
  split; [cbn; lia|]. eexists. split; vm_compute; reflexivity.
Qed.

(* a three-span minus-strand feature seen from rc()[1:6] of "CTAGAGT" with annotation offset 5 *)
Definition w5_view : view := mkV (-2) (-7) (-1) 7 5.
Definition w5_feat : feat := mkF [(5, 7); (8, 9); (10, 12)] true.
Definition w5_ops : list vop := [VRc; VSlice (Some 1) (Some 6) None].

Example headline_instance_rev :
  fold_left apply_vop w5_ops (mk_view 7 None None None 5) = Ok w5_view /\ Forall unit_op w5_ops /\
  contig w5_view /\ 0 < vlen w5_view /\ zlen w_parent = seq_len w5_view /\ feat_ok w5_feat /\
  exists fv, feature_on_view pinned w5_view w5_feat = Ok fv /\ fv_minus fv = false /\
    get_slice pinned OldSeq w5_view w_parent fv = Ok [67; 67; 65] /\
    denoted w_parent 5 (parent_start w5_view) (parent_stop w5_view) w5_feat = [67; 67; 65].
Proof.
  split; [vm_compute; reflexivity|]. split; [repeat constructor; cbn; auto|].
  split; [unfold contig, WF; cbn; lia|]. split; [vm_compute; reflexivity|]. split; [reflexivity|].
  split; [split; [discriminate|cbn; lia]|]. eexists. repeat split; vm_compute; reflexivity.
Qed.

(** * seq.copy() keeps what every feature denotes *)

Lemma copy_preserves_lemma v p hid s' : contig v -> 0 < vlen v -> zlen p = seq_len v ->
  apply_op Fixed (mkS v p KDna hid) CopySliced = Ok s' ->
  contig (sv s') /\ vlen (sv s') = vlen v /\ zlen (parent s') = seq_len (sv s') /\
  parent_start (sv s') = parent_start v /\ parent_stop (sv s') = parent_stop v /\
  is_reversed (sv s') = is_reversed v /\
  forall f, denoted (parent s') (offset (sv s')) (parent_start v) (parent_stop v) f
          = denoted p (offset v) (parent_start v) (parent_stop v) f.
Proof.
  intros Hc Hlen Hp H. pose proof Hc as (Hwf & Habs & Hoffv).
  pose proof (seg_bounds v Hwf) as Hb0.
  cbn [apply_op sv parent] in H.
  pose proof (copy_sliced_lemma false v p Hwf Hp) as Hcs.
  destruct (copy_sliced false v p) as [r sg] eqn:Ecs.
  destruct Hcs as (v' & -> & Hwf' & Hz & Hval & Hlen' & Hoff & Hb).
  destruct (Hb Hlen) as (Hlo & Hhi & Hdir).
  rewrite Hoff in H. replace (0 =? 0) with true in H by reflexivity. rewrite andb_false_r in H.
  injection H as <-. cbn [sv parent].
  set (ao := parent_start v) in *.
  set (v2 := if ao =? 0 then v' else _).
  assert (Hv2 : v2 = with_off v' ao).
  { subst v2. destruct (ao =? 0) eqn:E; [|reflexivity].
    destruct v'; cbn in *. unfold with_off; cbn. f_equal. lia. }
  rewrite Hv2. clear Hv2 v2.
  assert (Hsg : sg = gather p (zr (seg_lo v) (seg_hi v)) /\ step v' = step v).
  { unfold copy_sliced in Ecs. injection Ecs as Hr Hs. split.
    - rewrite <- Hs, rich_seq_eq. apply seg_is_gather; lia.
    - pose proof (wf_step_nz v Hwf) as Hnz.
      destruct (mk_view_step_cases _ _ _ _ _ _ (zlen_nonneg _) Hnz Hr) as [E|E]; [exact E|].
      pose proof (proj2 (wf_empty_iff v' Hwf') E). lia. }
  destruct Hsg as (Hsg & Hstep).
  assert (Hao : ao = offset v + seg_lo v) by (unfold ao, seg_lo; lia).
  assert (Hps : parent_stop v = offset v + seg_hi v) by (unfold seg_hi; lia).
  split.
  { split; [|split].
    - destruct Hwf' as (W1 & W2). unfold with_off, WF. cbn [start stop step seq_len offset]. split; assumption.
    - unfold with_off. cbn [step]. rewrite Hstep. exact Habs.
    - unfold with_off. cbn [offset]. lia. }
  split; [unfold with_off, vlen; cbn [start stop step]; exact Hlen'|].
  split; [unfold with_off; cbn [seq_len]; exact Hz|].
  split; [rewrite with_off_start; lia|].
  split; [rewrite with_off_stop; lia|].
  split; [rewrite with_off_rev; unfold is_reversed; exact Hdir|].
  intros f. unfold denoted. change (offset (with_off v' ao)) with ao.
  assert (E : flat_map (residue sg ao) (filter (in_seg ao (parent_stop v)) (positions (f_spans f))) =
              flat_map (residue p (offset v)) (filter (in_seg ao (parent_stop v)) (positions (f_spans f)))).
  { apply flat_map_ext_in. intros x Hx. apply filter_In in Hx. destruct Hx as [_ Hx]. unfold in_seg in Hx.
    unfold residue. rewrite Hsg. rewrite zget_gather_zr by lia. f_equal. lia. }
  rewrite E. reflexivity.
Qed.

(** * histories of slices, reverse complements and copies *)

(** the (view, parent) pair reads, at every absolute coordinate its parent
    covers, the residue of the original parent [p0] (annotation offset [off0]) *)
Definition hinv (p0 : list Z) (off0 : Z) (st : view * list Z) : Prop :=
  let '(v, p) := st in
  WF v /\ 0 <= offset v /\
  (0 < vlen v -> Z.abs (step v) = 1 /\ zlen p = seq_len v /\
     forall x, offset v <= x < offset v + zlen p -> residue p (offset v) x = residue p0 off0 x).

Definition unit_hop (h : hop) : Prop := match h with HOp o => unit_op o | HCopy => True end.

Lemma copy_empty v p hid s' : WF v -> 0 <= offset v -> vlen v = 0 ->
  apply_op Fixed (mkS v p KDna hid) CopySliced = Ok s' ->
  WF (sv s') /\ 0 <= offset (sv s') /\ vlen (sv s') = 0.
Proof.
  intros Hwf Hoff H0 H. cbn [apply_op sv parent] in H.
  destruct (copy_sliced_any false v p Hwf (or_introl H0)) as (v' & Hr & Hwf' & Hz & Hval & _ & Hoff').
  destruct (copy_sliced false v p) as [r sg]. cbn [fst snd] in *. subst r.
  rewrite Hoff' in H. replace (0 =? 0) with true in H by reflexivity. rewrite andb_false_r in H.
  injection H as <-. cbn [sv].
  pose proof (seg_bounds v Hwf) as Hb. unfold seg_lo in Hb.
  assert (Hvl : vlen v' = 0).
  { rewrite <- (len_value_lemma v' sg Hwf' Hz), Hval, (value_empty v p Hwf H0). reflexivity. }
  destruct (parent_start v =? 0) eqn:E.
  - split; [assumption|]. split; [lia|assumption].
  - split; [destruct Hwf' as (W1 & W2); unfold WF; cbn [start stop step seq_len]; split; assumption|].
    split; [cbn [offset]; lia|]. unfold vlen in *. cbn [start stop step]. exact Hvl.
Qed.

Lemma hinv_step p0 off0 st h st' : hinv p0 off0 st -> unit_hop h ->
  apply_hop (Ok st) h = Ok st' -> hinv p0 off0 st'.
Proof.
  destruct st as [v p]. intros (Hwf & Hoff & Hpos) Hu H. cbn [apply_hop bind] in H.
  destruct h as [o|].
  - (* slice / rc: same parent *)
    destruct (apply_vop (Ok v) o) as [v'|e] eqn:E; [|discriminate]. cbn [bind] in H. injection H as <-.
    assert (Hv : vinv p (offset v) v).
    { split; [assumption|]. split; [assumption|]. intros Hl. destruct (Hpos Hl) as (A & B & _). tauto. }
    assert (Hv' : vinv p (offset v) v').
    { destruct o as [a b c|]; cbn [apply_vop bind] in E.
      - apply (vinv_getitem p (offset v) v a b c v' Hv); [|exact E]. cbn in Hu. destruct Hu as [->| ->]; reflexivity.
      - apply (vinv_getitem p (offset v) v None None (Some (-1)) v' Hv); [reflexivity|exact E]. }
    destruct Hv' as (Hwf' & Hoff' & Hpos'). split; [assumption|]. split; [assumption|]. intros Hl'.
    destruct (Hpos' Hl') as (A & B & C).
    assert (Hl : 0 < vlen v).
    { destruct o as [a b c|]; cbn [apply_vop bind] in E;
        destruct (shape_getitem_slice _ _ _ _ _ _ Hwf E) as [_ Hz]; pose proof (vlen_nonneg v);
        destruct (Z.eq_dec (vlen v) 0) as [E0|E0]; try lia; specialize (Hz E0); lia. }
    destruct (Hpos Hl) as (_ & _ & Hres). split; [assumption|]. split; [assumption|].
    rewrite C. exact Hres.
  - (* copy *)
    destruct (apply_op Fixed (mkS v p KDna true) CopySliced) as [s'|e] eqn:E; [|discriminate].
    injection H as <-.
    pose proof (vlen_nonneg v) as Hnn. destruct (Z.eq_dec (vlen v) 0) as [E0|E0].
    + destruct (copy_empty v p true s' Hwf Hoff E0 E) as (A & B & C).
      split; [assumption|]. split; [assumption|]. lia.
    + assert (Hl : 0 < vlen v) by lia. destruct (Hpos Hl) as (Habs & Hp & Hres).
      assert (Hc : contig v) by (split; [assumption|split; assumption]).
      pose proof E as E'. cbn [apply_op sv parent] in E'.
      pose proof (copy_sliced_lemma false v p Hwf Hp) as Hcs.
      destruct (copy_sliced false v p) as [r sg] eqn:Ecs.
      destruct Hcs as (v' & -> & Hwf' & Hz & Hval & Hlen' & Hoff' & Hb).
      destruct (Hb Hl) as (Hlo & Hhi & Hdir).
      rewrite Hoff' in E'. replace (0 =? 0) with true in E' by reflexivity. rewrite andb_false_r in E'.
      injection E' as <-. cbn [sv parent].
      destruct (copy_preserves_lemma v p true _ Hc Hl Hp E) as (Hc2 & Hvl2 & Hz2 & Hps & Hpe & _ & _).
      set (ao := parent_start v) in *.
      set (v2 := if ao =? 0 then v' else _) in *.
      assert (Hv2 : v2 = with_off v' ao).
      { subst v2. destruct (ao =? 0) eqn:Eao; [|reflexivity].
        destruct v'; cbn in *. unfold with_off; cbn. f_equal. lia. }
      cbn [sv parent] in Hc2, Hvl2, Hz2.
      destruct Hc2 as (W & A & O). split; [assumption|]. split; [assumption|]. intros _.
      split; [assumption|]. split; [assumption|].
      pose proof (seg_bounds v Hwf) as Hb0.
      assert (Hsg : sg = gather p (zr (seg_lo v) (seg_hi v))).
      { unfold copy_sliced in Ecs. injection Ecs as _ Hs. rewrite <- Hs, rich_seq_eq. apply seg_is_gather; lia. }
      assert (Hzs : zlen sg = seg_hi v - seg_lo v).
      { rewrite Hsg, <- seg_is_gather by lia. apply zlen_seg; lia. }
      assert (Hoff2 : offset v2 = ao) by (rewrite Hv2; reflexivity).
      rewrite Hoff2, Hzs. intros x Hx.
      assert (Hao : ao = offset v + seg_lo v) by (unfold ao, seg_lo; lia).
      rewrite <- (Hres x) by lia.
      unfold residue. rewrite Hsg, zget_gather_zr by lia. f_equal. lia.
Qed.

Lemma fold_hop_err e ops : fold_left apply_hop ops (Err e) = Err e.
Proof. induction ops as [|o ops IH]; [reflexivity|]. exact IH. Qed.

Lemma hinv_history p0 off0 ops : forall st st', hinv p0 off0 st -> Forall unit_hop ops ->
  fold_left apply_hop ops (Ok st) = Ok st' -> hinv p0 off0 st'.
Proof.
  induction ops as [|o ops IH]; intros st st' Hst Hops H.
  - cbn in H. injection H as <-. exact Hst.
  - inversion Hops as [|x y Ho Hr]; subst. cbn [fold_left] in H.
    destruct (apply_hop (Ok st) o) as [w|e] eqn:E; [|rewrite fold_hop_err in H; discriminate].
    exact (IH w st' (hinv_step p0 off0 st o w Hst Ho E) Hr H).
Qed.

Lemma denoted_same_residues p off p0 off0 lo hi f :
  (forall x, lo <= x < hi -> residue p off x = residue p0 off0 x) ->
  denoted p off lo hi f = denoted p0 off0 lo hi f.
Proof.
  intros H. unfold denoted.
  assert (E : flat_map (residue p off) (filter (in_seg lo hi) (positions (f_spans f))) =
              flat_map (residue p0 off0) (filter (in_seg lo hi) (positions (f_spans f)))).
  { apply flat_map_ext_in. intros x Hx. apply filter_In in Hx. destruct Hx as [_ Hx]. unfold in_seg in Hx.
    apply H. lia. }
  rewrite E. reflexivity.
Qed.

(** HEADLINE over histories with copies *)
Lemma history_with_copies_lemma fx p0 off0 ops v0 v p f fv :
  0 <= off0 -> mk_view (zlen p0) None None None off0 = Ok v0 ->
  Forall unit_hop ops -> fold_left apply_hop ops (Ok (v0, p0)) = Ok (v, p) -> 0 < vlen v ->
  spans_ok 0 (f_spans f) -> feature_on_view fx v f = Ok fv ->
  fv_minus fv = xorb (f_minus f) (is_reversed v) /\
  get_slice_str v p fv = Ok (denoted p0 off0 (parent_start v) (parent_stop v) f).
Proof.
  intros Hoff H0 Hops Hfold Hlen Hok Hfv.
  assert (Hinit : hinv p0 off0 (v0, p0)).
  { destruct (vinv_init p0 off0 Hoff v0 H0) as (W & O & P). split; [assumption|]. split; [assumption|].
    intros Hl. destruct (P Hl) as (A & B & C). split; [assumption|]. split; [assumption|].
    intros x _. rewrite C. reflexivity. }
  pose proof (hinv_history p0 off0 ops (v0, p0) (v, p) Hinit Hops Hfold) as (Hwf & Ho & Hpos).
  destruct (Hpos Hlen) as (Habs & Hp & Hres).
  assert (Hc : contig v) by (split; [assumption|split; assumption]).
  destruct (feature_slice_lemma fx v p f fv Hc Hlen Hp Hok Hfv) as (H1 & H2). split; [exact H1|].
  rewrite H2. f_equal. apply denoted_same_residues. intros x Hx. apply Hres.
  pose proof (seg_bounds v Hwf) as Hb. unfold seg_lo, seg_hi in Hb. lia.
Qed.

(* CTAGAGT with annotation offset 5: rc(); copy(); [1:6]; copy() - the three-span minus-strand feature still reads CCA *)
Definition w6_ops : list hop := [HOp VRc; HCopy; HOp (VSlice (Some 1) (Some 6) None); HCopy].

Example history_with_copies_instance :
  exists v0 v p fv, mk_view (zlen w_parent) None None None 5 = Ok v0 /\ Forall unit_hop w6_ops /\
    fold_left apply_hop w6_ops (Ok (v0, w_parent)) = Ok (v, p) /\ 0 < vlen v /\ p <> w_parent /\
    feature_on_view pinned v w5_feat = Ok fv /\
    get_slice pinned OldSeq v p fv = Ok [67; 67; 65] /\
    denoted w_parent 5 (parent_start v) (parent_stop v) w5_feat = [67; 67; 65].
Proof.
  eexists. eexists. eexists. eexists.
  split; [vm_compute; reflexivity|]. split; [repeat constructor; cbn; auto|].
  split; [vm_compute; reflexivity|]. split; [vm_compute; reflexivity|]. split; [vm_compute; discriminate|].
  split; [vm_compute; reflexivity|]. split; vm_compute; reflexivity.
Qed.
