(** C08 — [joined_segments] and the coordinate listings / alternative
    constructors of IndelMap read on the gapped string, for ALL strings (the
    bounded enumerations of the same statements are in IndelMapBounded.v).

    Part A: [joined_segments (from_mask k) cs = Ok (from_mask (mask_join k cs))]
            for sorted, non-empty, non-overlapping (possibly abutting)
            segments inside the string.
    Part B: [get_gap_coordinates], [gap_coords_to_map].
    Part C: [nongap], [from_aligned_segments].
    Part D: [get_coordinates] (where it is right). *)
From CG3 Require Import Lib.PyZ Lib.Val Model.IndelMap Model.IndelMapFixed Spec.IndelMapSpec Spec.IndelMapStringOps.
From CG3 Require Import Proofs.IndelMapProofs Proofs.IndelMapOps Proofs.IndelMapSlice Proofs.IndelMapMain
  Proofs.IndelMapShared Proofs.IndelMapMerge Proofs.IndelMapBounded Proofs.IndelMapFixedProofs.

Local Open Scope Z_scope.

(** * Part A: [joined_segments] *)

(** ** sorting a list that is already sorted on distinct first components *)

Fixpoint fsorted (lo : Z) (l : list (Z * Z)) : Prop :=
  match l with
  | [] => True
  | x :: t => lo < fst x /\ fsorted (fst x) t
  end.

Lemma sort_pairs_sorted l : forall lo, fsorted lo l -> sort_pairs l = l.
Proof.
  induction l as [|x t IH]; intros lo H; [reflexivity|].
  cbn [fsorted] in H. destruct H as (_ & Ht).
  unfold sort_pairs in *. cbn [fold_right]. rewrite (IH _ Ht).
  destruct t as [|y t']; [reflexivity|].
  cbn [fsorted] in Ht. destruct Ht as (Hxy & _).
  cbn [insert_pair]. assert (E : fst x <? fst y = true) by lia. rewrite E. reflexivity.
Qed.

Lemma segs_ok_fsorted cs : forall start n, segs_ok start n cs -> fsorted (start - 1) cs.
Proof.
  induction cs as [|(a, b) t IH]; intros start n H; cbn [segs_ok fsorted fst] in *; [exact I|].
  destruct H as (A & B & D & E). split; [lia|].
  specialize (IH b n E). destruct t as [|(a', b') t']; [exact I|].
  cbn [fsorted fst] in *. destruct IH as (F & G). split; [lia|exact G].
Qed.

Lemma wf_from_fsorted gp : forall pp pc cl plen, wf_from pp pc gp cl plen -> fsorted pp (combine gp cl).
Proof.
  induction gp as [|p gp IH]; intros pp pc cl plen H; [exact I|].
  destruct cl as [|c cl]; cbn [wf_from] in H; [contradiction|].
  destruct H as (A & B & H). cbn [combine fsorted fst]. split; [exact A|]. eapply IH; exact H.
Qed.

Lemma map_fst_combine {A B} (a : list A) : forall (b : list B), length a = length b -> map fst (combine a b) = a.
Proof.
  induction a as [|x a IH]; intros b Hl; [reflexivity|].
  destruct b as [|y b]; cbn [length] in Hl; [discriminate|].
  cbn [combine map fst]. f_equal. apply IH. lia.
Qed.

Lemma map_snd_combine {A B} (a : list A) : forall (b : list B), length a = length b -> map snd (combine a b) = b.
Proof.
  induction a as [|x a IH]; intros b Hl; destruct b as [|y b]; cbn [length] in Hl; try discriminate; [reflexivity|].
  cbn [combine map snd]. f_equal. apply IH. lia.
Qed.

(** ** the dict of one more piece *)

Lemma dict_add_fresh pos dflt v d :
  Forall (fun kv => fst kv < pos) d -> dict_add pos dflt v d = d ++ [(pos, dflt + v)].
Proof.
  induction d as [|(k, x) t IH]; intros H; [reflexivity|].
  inversion H as [|? ? Hk Ht]; subst. cbn [fst] in Hk.
  cbn [dict_add app]. assert (E : k =? pos = false) by lia. rewrite E. f_equal. apply IH. exact Ht.
Qed.

Lemma dict_add_last pos dflt v x d :
  Forall (fun kv => fst kv < pos) d -> dict_add pos dflt v (d ++ [(pos, x)]) = d ++ [(pos, x + v)].
Proof.
  induction d as [|(k, y) t IH]; intros H.
  - cbn [app dict_add]. rewrite Z.eqb_refl. reflexivity.
  - inversion H as [|? ? Hk Ht]; subst. cbn [fst] in Hk.
    cbn [dict_add app]. assert (E : k =? pos = false) by lia. rewrite E. f_equal. apply IH. exact Ht.
Qed.

Lemma Forall_fst_weaken (d : list (Z * Z)) b b' :
  Forall (fun kv => fst kv <= b) d -> b < b' -> Forall (fun kv => fst kv < b') d.
Proof. intros H Hb. eapply Forall_impl; [|exact H]. cbn beta. intros; lia. Qed.

(** all the keys of the piece are new *)
Lemma join_gaps_fresh a cl gp : forall pp pc cum plen d,
  wf_from pp pc gp cum plen -> Forall (fun kv => fst kv <= a + pp) d ->
  join_gaps gp cum a cl d = d ++ combine (map (fun p => a + p) gp) (map (fun c => cl + c) cum).
Proof.
  induction gp as [|p gp IH]; intros pp pc cum plen d Hwf Hd.
  - cbn [join_gaps map combine]. now rewrite app_nil_r.
  - destruct cum as [|c cum]; cbn [wf_from] in Hwf; [contradiction|].
    destruct Hwf as (A & B & Hwf). cbn [join_gaps map combine].
    rewrite dict_add_fresh by (eapply Forall_fst_weaken; [exact Hd|lia]).
    rewrite (IH p c cum plen _ Hwf).
    + rewrite <- app_assoc. cbn [app]. replace (p + a) with (a + p) by lia. reflexivity.
    + apply Forall_app. split.
      * eapply Forall_impl; [|exact Hd]. cbn beta. intros; lia.
      * constructor; [cbn [fst]; lia|constructor].
Qed.

Lemma wf_from_keys_le gp : forall pp pc cl plen, wf_from pp pc gp cl plen ->
  Forall (fun kv : Z * Z => fst kv <= lastd pp gp) (combine gp cl).
Proof.
  induction gp as [|p gp IH]; intros pp pc cl plen H; [constructor|].
  destruct cl as [|c cl]; cbn [wf_from] in H; [contradiction|]. destruct H as (A & B & H).
  cbn [combine lastd]. constructor.
  - cbn [fst]. pose proof (wf_from_le _ _ _ _ _ (proj1 (wf_from_app_inv gp p c cl [] [] plen (wf_from_length _ _ _ _ _ H)
        ltac:(rewrite !app_nil_r; exact H)))). lia.
  - eapply IH. exact H.
Qed.

Lemma combine_app' {A B} (a1 : list A) : forall (b1 : list B) a2 b2, length a1 = length b1 ->
  combine (a1 ++ a2) (b1 ++ b2) = combine a1 b1 ++ combine a2 b2.
Proof.
  induction a1 as [|x a1 IH]; intros b1 a2 b2 Hl; destruct b1 as [|y b1]; cbn [length] in Hl; try discriminate; [reflexivity|].
  cbn [app combine]. f_equal. apply IH. lia.
Qed.

Lemma post_init_inv g c p m : post_init g c p = Ok m -> m = mk_imap g c p.
Proof.
  unfold post_init. destruct (negb (zlen g =? zlen c)); [discriminate|].
  destruct (negb (zlen g =? 0) && (zlast g >? p)); [discriminate|]. intros E. now injection E.
Qed.

(** total gap length, the [cum_length] of the code *)
Definition gl (m : imap) : Z := if num_gaps m =? 0 then 0 else zlast (cum_gap_lengths m).
(** the dict {gap position: cumulative length} as item list *)
Definition zipm (m : imap) : list (Z * Z) := combine (gap_pos m) (cum_gap_lengths m).

Lemma join_fresh_case m1 m2 m' pp : WF m1 ->
  wf_from pp 0 (gap_pos m2) (cum_gap_lengths m2) (parent_length m2) ->
  Forall (fun kv => fst kv <= parent_length m1 + pp) (zipm m1) ->
  add m1 m2 = Ok m' ->
  join_gaps (gap_pos m2) (cum_gap_lengths m2) (parent_length m1) (gl m1) (zipm m1) = zipm m'.
Proof.
  intros H1 W2 Hk E. unfold add in E. apply post_init_inv in E. subst m'.
  unfold zipm at 2. cbn [gap_pos cum_gap_lengths].
  rewrite combine_app' by (eapply wf0_length; apply WF_wf0; exact H1).
  rewrite (join_gaps_fresh _ _ _ pp 0 _ _ _ W2 Hk). reflexivity.
Qed.

Lemma keys_le_plen m : WF m -> Forall (fun kv : Z * Z => fst kv <= parent_length m) (zipm m).
Proof.
  intros H. apply WF_wf0 in H. destruct H as [Hle H].
  pose proof (wf_from_keys_le _ _ _ _ _ H) as Hk. pose proof (wf_from_lastd _ _ _ _ _ H) as Hl.
  eapply Forall_impl; [|exact Hk]. cbn beta. intros; lia.
Qed.

(** appending one piece to the dict is the corrected [__add__] on the arrays *)
Lemma join_gaps_add m1 m2 m' : WF m1 -> WF m2 -> add_v2 m1 m2 = Ok m' ->
  join_gaps (gap_pos m2) (cum_gap_lengths m2) (parent_length m1) (gl m1) (zipm m1) = zipm m'.
Proof.
  intros H1 H2 E.
  assert (Hsame : forall (Hc : (negb (num_gaps m1 =? 0) && negb (num_gaps m2 =? 0)
                    && (pyget (gap_pos m1 ++ map (fun p => parent_length m1 + p) (gap_pos m2)) (num_gaps m1 - 1)
                        =? pyget (gap_pos m1 ++ map (fun p => parent_length m1 + p) (gap_pos m2)) (num_gaps m1))) = false),
            add m1 m2 = Ok m').
  { intros Hc. unfold add_v2 in E. cbv zeta in E. rewrite Hc in E. exact E. }
  pose proof (keys_le_plen m1 H1) as Hkeys.
  pose proof (WF_wf0 _ H1) as W1. pose proof (WF_wf0 _ H2) as W2.
  pose proof (wf0_length _ _ _ _ _ W1) as Hl1. pose proof (wf0_length _ _ _ _ _ W2) as Hl2.
  destruct (gap_pos m1) as [|x0 gp1'] eqn:Eg1.
  { apply (join_fresh_case m1 m2 m' (0 - 1) H1); [apply W2| |].
    - unfold zipm. rewrite Eg1. constructor.
    - apply Hsame. unfold num_gaps. rewrite Eg1. reflexivity. }
  destruct (gap_pos m2) as [|p g2] eqn:Eg2.
  { destruct (cum_gap_lengths m2) as [|c0 c2] eqn:Ec2; [|cbn in Hl2; lia].
    pose proof (join_fresh_case m1 m2 m' 0 H1) as HF. rewrite Eg2, Ec2 in HF. apply HF.
    - cbn [wf_from]. destruct W2; lia.
    - eapply Forall_impl; [|exact Hkeys]. cbn beta. intros; lia.
    - apply Hsame. unfold num_gaps. rewrite Eg2.
      change (zlen (@nil Z) =? 0) with true. cbn [negb]. now rewrite andb_false_r. }
  destruct (exists_last (l := x0 :: gp1') ltac:(discriminate)) as (g & x & Eg). rewrite Eg in *.
  destruct (cum_gap_lengths m1) as [|y0 cl1'] eqn:Ec1; [cbn in Hl1; rewrite app_length in Hl1; cbn in Hl1; lia|].
  destruct (exists_last (l := y0 :: cl1') ltac:(discriminate)) as (c & y & Ec). rewrite Ec in *.
  destruct (cum_gap_lengths m2) as [|c0 c2] eqn:Ec2; [cbn in Hl2; lia|].
  assert (Hlg : length g = length c) by (rewrite !app_length in Hl1; cbn in Hl1; lia).
  set (a := parent_length m1) in *.
  assert (Hx : x <= a).
  { pose proof (wf0_lastd _ _ _ _ _ W1) as Hl. rewrite lastd_app in Hl. cbn [lastd] in Hl. exact Hl. }
  assert (Hp : 0 <= p /\ 0 < c0 /\ wf_from p c0 g2 c2 (parent_length m2)).
  { destruct W2 as [_ W2]. cbn [wf_from] in W2. destruct W2 as (A & B & D). repeat split; auto; lia. }
  destruct Hp as (Hp0 & Hc0 & Hw2).
  assert (En1 : num_gaps m1 = zlen (g ++ [x])) by (unfold num_gaps; now rewrite Eg1).
  assert (Ecmp : pyget ((g ++ [x]) ++ map (fun q => a + q) (p :: g2)) (num_gaps m1 - 1) = x)
    by (rewrite En1; apply pyget_app_last).
  assert (Ecmp2 : pyget ((g ++ [x]) ++ map (fun q => a + q) (p :: g2)) (num_gaps m1) = a + p)
    by (rewrite En1; cbn [map]; apply pyget_app_next).
  assert (Hkx : Forall (fun kv : Z * Z => fst kv <= x) (zipm m1)).
  { destruct W1 as [_ W1]. pose proof (wf_from_keys_le _ _ _ _ _ W1) as Hk.
    rewrite lastd_app in Hk. cbn [lastd] in Hk. unfold zipm. rewrite Eg1, Ec1. exact Hk. }
  destruct (Z.eq_dec x (a + p)) as [Exp|Nxp].
  2:{ pose proof (join_fresh_case m1 m2 m' (p - 1) H1) as HF. rewrite Eg2, Ec2 in HF. apply HF.
      - cbn [wf_from]. split; [lia|]. split; [lia|exact Hw2].
      - eapply Forall_impl; [|exact Hkx]. cbn beta. fold a. intros; lia.
      - apply Hsame. rewrite Ecmp, Ecmp2. destruct (x =? a + p) eqn:E'; [lia|]. now rewrite andb_false_r. }
  (* the merged case: x = a and p = 0 *)
  assert (x = a) as -> by lia. assert (p = 0) as -> by lia.
  assert (Egl : gl m1 = y).
  { unfold gl. rewrite (cum_length_lastd m1 H1). rewrite Ec1. rewrite lastd_app. reflexivity. }
  assert (Edel1 : del_at ((g ++ [a]) ++ map (fun q => a + q) (0 :: g2)) (num_gaps m1)
                  = (g ++ [a]) ++ map (fun q => a + q) g2).
  { rewrite En1. cbn [map]. apply del_at_app. }
  assert (Edel2 : del_at ((c ++ [y]) ++ map (fun q => y + q) (c0 :: c2)) (num_gaps m1 - 1)
                  = (c ++ [y + c0]) ++ map (fun q => y + q) c2).
  { rewrite En1, zlen_app, zlen_cons. znil. replace (zlen g + (1 + 0) - 1) with (zlen c) by (unfold zlen; lia).
    rewrite <- !app_assoc. cbn [map app]. apply del_at_app. }
  assert (Ec' : negb (num_gaps m1 =? 0) && negb (num_gaps m2 =? 0) && (a =? a + 0) = true).
  { rewrite En1. unfold num_gaps. rewrite Eg2. rewrite zlen_app, !zlen_cons. znil.
    pose proof (zlen_nonneg g). pose proof (zlen_nonneg g2).
    destruct (zlen g + (1 + 0) =? 0) eqn:E1; [lia|]. destruct (1 + zlen g2 =? 0) eqn:E2; [lia|].
    destruct (a =? a + 0) eqn:E3; [reflexivity|lia]. }
  assert (Hy : wf_from (0 - 1) 0 g c (lastd (0 - 1) g) /\ lastd (0 - 1) g < a).
  { destruct W1 as [_ W1]. destruct (wf_from_app_inv g _ _ c [a] [y] _ Hlg W1) as (Wa & Wb).
    cbn [wf_from] in Wb. destruct Wb as (A & B & _). split; auto. }
  destruct Hy as (Hy2 & Hy3).
  assert (Hkg : Forall (fun kv : Z * Z => fst kv < 0 + a) (combine g c)).
  { eapply Forall_impl; [|exact (wf_from_keys_le _ _ _ _ _ Hy2)]. cbn beta. intros; lia. }
  unfold add_v2 in E. cbv zeta in E. fold a in E. fold (gl m1) in E. rewrite Egl in E.
  rewrite Eg1, Eg2, Ec1, Ec2 in E. rewrite Ecmp, Ecmp2 in E. rewrite Ec' in E. rewrite Edel1, Edel2 in E.
  apply post_init_inv in E. subst m'.
  unfold zipm. cbn [gap_pos cum_gap_lengths]. rewrite Eg1, Ec1, Egl.
  cbn [join_gaps].
  rewrite (combine_app' g c [a] [y] Hlg). cbn [combine].
  replace (0 + a) with a in * by lia.
  rewrite (dict_add_last a y c0 y (combine g c) Hkg).
  rewrite (join_gaps_fresh a y g2 0 c0 c2 _ _ Hw2).
  - rewrite (combine_app' (g ++ [a])) by (rewrite !app_length; cbn [length]; lia).
    rewrite (combine_app' g c [a] [y + c0] Hlg). cbn [combine]. reflexivity.
  - apply Forall_app. split.
    + eapply Forall_impl; [|exact Hkg]. cbn beta. intros; lia.
    + constructor; [cbn [fst]; lia|constructor].
Qed.

Lemma plen_from_mask k : parent_length (from_mask k) = count_true k.
Proof. reflexivity. Qed.

Lemma len_plen_gl m : len m = parent_length m + gl m.
Proof. reflexivity. Qed.

Lemma gl_from_mask k : gl (from_mask k) = zlen k - count_true k.
Proof.
  pose proof (len_from_mask k) as H. rewrite len_plen_gl, plen_from_mask in H. lia.
Qed.

Lemma join_step J q :
  join_gaps (gap_pos (from_mask q)) (cum_gap_lengths (from_mask q))
            (parent_length (from_mask J)) (gl (from_mask J)) (zipm (from_mask J))
  = zipm (from_mask (J ++ q)).
Proof.
  apply join_gaps_add; [apply wf_from_mask|apply wf_from_mask|apply add_v2_from_mask].
Qed.

Lemma mask_join_cons k s e cs : mask_join k ((s, e) :: cs) = msub k s e ++ mask_join k cs.
Proof. reflexivity. Qed.

Lemma join_loop_spec k cs : forall J start, 0 <= start -> segs_ok start (zlen k) cs ->
  join_loop (from_mask k) cs (zipm (from_mask J)) (gl (from_mask J)) (parent_length (from_mask J))
  = Ok (zipm (from_mask (J ++ mask_join k cs)), parent_length (from_mask (J ++ mask_join k cs))).
Proof.
  induction cs as [|(s, e) cs IH]; intros J start Hs Hok.
  - cbn [join_loop]. change (mask_join k []) with (@nil bool). now rewrite app_nil_r.
  - cbn [segs_ok] in Hok. destruct Hok as (A & B & D & Hok).
    cbn [join_loop]. rewrite slice_from_mask by lia. cbn [bind].
    rewrite join_step. set (q := msub k s e).
    assert (Ep : parent_length (from_mask J) + parent_length (from_mask q) = parent_length (from_mask (J ++ q))).
    { rewrite !plen_from_mask. now rewrite count_true_app. }
    assert (Eg : (if num_gaps (from_mask q) =? 0 then gl (from_mask J)
                  else gl (from_mask J) + zlast (cum_gap_lengths (from_mask q))) = gl (from_mask (J ++ q))).
    { transitivity (gl (from_mask J) + gl (from_mask q)).
      - change (gl (from_mask q)) with (if num_gaps (from_mask q) =? 0 then 0 else zlast (cum_gap_lengths (from_mask q))).
        destruct (num_gaps (from_mask q) =? 0); lia.
      - rewrite !gl_from_mask. rewrite zlen_app, count_true_app. lia. }
    rewrite Ep, Eg. rewrite (IH (J ++ q) e) by (assumption || lia).
    rewrite mask_join_cons. fold q. rewrite <- app_assoc. reflexivity.
Qed.

Theorem joined_segments_spec k cs : segs_ok 0 (zlen k) cs ->
  joined_segments (from_mask k) cs = Ok (from_mask (mask_join k cs)).
Proof.
  intros Hok. unfold joined_segments.
  rewrite (sort_pairs_sorted cs _ (segs_ok_fsorted cs 0 _ Hok)).
  pose proof (join_loop_spec k cs [] 0 ltac:(lia) Hok) as HL.
  change (zipm (from_mask [])) with (@nil (Z * Z)) in HL.
  change (gl (from_mask [])) with 0 in HL. change (parent_length (from_mask [])) with 0 in HL.
  cbn [app] in HL. rewrite HL. cbn [bind].
  pose proof (wf_from_mask (mask_join k cs)) as (Hpl & Hwf).
  destruct (from_mask (mask_join k cs)) as [gp cl plen]. unfold zipm. cbn [gap_pos cum_gap_lengths parent_length] in *.
  rewrite (sort_pairs_sorted _ _ (wf_from_fsorted _ _ _ _ _ Hwf)).
  pose proof (wf_from_length _ _ _ _ _ Hwf) as Hl.
  rewrite map_fst_combine, map_snd_combine by exact Hl.
  eapply post_init_wf. exact Hwf.
Qed.

Example joined_segments_ex :
  segs_ok 0 (zlen [true; false; false; true; false; true]) [(0, 2); (2, 3); (4, 6)].
Proof. cbn. lia. Qed.

(** * Part B: [get_gap_coordinates], [gap_coords_to_map] *)

Lemma count_res_app a b : count_res (a ++ b) = count_res a + count_res b.
Proof.
  induction a as [|x a IH]; [reflexivity|]. cbn [app count_res]. destruct x; lia.
Qed.
Lemma count_res_trues n : count_res (repeat true n) = Z.of_nat n.
Proof. induction n as [|n IH]; [reflexivity|]. cbn [repeat count_res]. lia. Qed.
Lemma count_res_falses n : count_res (repeat false n) = 0.
Proof. induction n as [|n IH]; [reflexivity|]. cbn [repeat count_res]. lia. Qed.

(** a gap run (alignment coordinates) of the string [K] as (insertion point, length) *)
Definition ginsert (K : list bool) (se : Z * Z) : Z * Z :=
  (count_res (firstn (Z.to_nat (fst se)) K), snd se - fst se).

Lemma ginsert_expand gp : forall pp pc cl plen pre K, wf0 pp pc gp cl plen ->
  zlen pre = pp + pc -> count_res pre = pp -> K = pre ++ expand pp pc gp cl plen ->
  map (ginsert K) (gac pc gp cl) = combine gp (diffs_from pc cl).
Proof.
  induction gp as [|p gp IH]; intros pp pc cl plen pre K Hwf Hlen Hres HK.
  - reflexivity.
  - destruct (wf0_inv _ _ _ _ _ Hwf) as [(E1 & _)|(p' & c & gp' & cl' & E1 & E2 & Hp & Hc & Hw)]; [discriminate|].
    injection E1 as <- <-. subst cl. rewrite gac_cons. cbn [map combine diffs_from]. f_equal.
    + unfold ginsert. cbn [fst snd]. f_equal; [|lia]. subst K. cbn [expand]. rewrite app_assoc.
      rewrite firstn_exact by (rewrite app_length, repeat_length; unfold zlen in Hlen; lia).
      rewrite count_res_app, count_res_trues. lia.
    + apply (IH p c cl' plen (pre ++ repeat true (Z.to_nat (p - pp)) ++ repeat false (Z.to_nat (c - pc)))).
      * apply wf_from_wf0. exact Hw.
      * rewrite !zlen_app, !zlen_repeat. lia.
      * rewrite !count_res_app, count_res_trues, count_res_falses. lia.
      * subst K. cbn [expand]. rewrite <- !app_assoc. reflexivity.
Qed.

Theorem gap_coordinates_abs m : WF m -> get_gap_coordinates m = gap_insertions (abs m).
Proof.
  intros H. unfold gap_insertions. rewrite <- (gap_align_coordinates_spec m H).
  change (combine (gap_pos m) (diffs_from 0 (cum_gap_lengths m)) =
          map (ginsert (abs m)) (gac 0 (gap_pos m) (cum_gap_lengths m))).
  symmetry. apply (ginsert_expand _ 0 0 _ (parent_length m) []); [apply WF_wf0; exact H|reflexivity|reflexivity|reflexivity].
Qed.

Theorem gap_coordinates_spec k : get_gap_coordinates (from_mask k) = gap_insertions k.
Proof. rewrite gap_coordinates_abs by apply wf_from_mask. now rewrite abs_from_mask. Qed.

Lemma wf_from_fsorted_any {B} gp : forall pp pc cl plen (L : list B), wf_from pp pc gp cl plen ->
  forall L2 : list Z, length L2 = length gp -> fsorted pp (combine gp L2).
Proof.
  induction gp as [|p gp IH]; intros pp pc cl plen L H L2 Hl; [exact I|].
  destruct cl as [|c cl]; cbn [wf_from] in H; [contradiction|].
  destruct L2 as [|y L2]; cbn [length] in Hl; [discriminate|].
  destruct H as (A & _ & H). cbn [combine fsorted fst]. split; [exact A|].
  eapply IH; [exact L|exact H|lia].
Qed.

Theorem gap_coords_to_map_abs m : WF m ->
  gap_coords_to_map (gap_insertions (abs m)) (parent_length m) = Ok m.
Proof.
  intros H. rewrite <- (gap_coordinates_abs m H). unfold get_gap_coordinates, get_gap_lengths, gap_coords_to_map.
  destruct H as (Hpl & Hwf). pose proof (wf_from_length _ _ _ _ _ Hwf) as Hl.
  destruct m as [gp cl plen]. cbn [gap_pos cum_gap_lengths parent_length] in *.
  assert (Hl2 : length (diffs_from 0 cl) = length gp) by (rewrite length_diffs_from; lia).
  rewrite (sort_pairs_sorted _ _ (wf_from_fsorted_any gp _ _ _ _ (@nil Z) Hwf _ Hl2)).
  rewrite map_fst_combine, map_snd_combine by lia.
  unfold post_init_lengths, cumsum. rewrite cumsum_from_diffs.
  rewrite (map_ext _ (fun c => c)) by (intros; lia). rewrite map_id.
  eapply post_init_wf. exact Hwf.
Qed.

Theorem gap_coords_to_map_spec k : gap_coords_to_map (gap_insertions k) (count_res k) = Ok (from_mask k).
Proof.
  pose proof (gap_coords_to_map_abs (from_mask k) (wf_from_mask k)) as H.
  rewrite abs_from_mask, plen_from_mask, count_true_count_res in H. exact H.
Qed.

(** * Part C: [nongap] *)

Lemma runsT_trues_some rest n : forall i s,
  runs_from true i (Some s) (repeat true n ++ rest) = runs_from true (i + Z.of_nat n) (Some s) rest.
Proof.
  induction n as [|n IH]; intros i s.
  - cbn [repeat app]. f_equal. lia.
  - cbn [repeat app runs_from Bool.eqb]. rewrite (IH (i + 1) s). f_equal. lia.
Qed.

Lemma runsT_trues_none rest n i : (0 < n)%nat ->
  runs_from true i None (repeat true n ++ rest) = runs_from true (i + Z.of_nat n) (Some i) rest.
Proof.
  intros Hn. destruct n as [|n]; [lia|].
  cbn [repeat app runs_from Bool.eqb]. rewrite runsT_trues_some. f_equal. lia.
Qed.

Lemma runsT_falses rest n : forall i,
  runs_from true i None (repeat false n ++ rest) = runs_from true (i + Z.of_nat n) None rest.
Proof.
  induction n as [|n IH]; intros i.
  - cbn [repeat app]. f_equal. lia.
  - cbn [repeat app runs_from Bool.eqb]. rewrite (IH (i + 1)). f_equal. lia.
Qed.

Lemma runsT_some_falses rest n i s : (0 < n)%nat ->
  runs_from true i (Some s) (repeat false n ++ rest) = (s, i) :: runs_from true (i + Z.of_nat n) None rest.
Proof.
  intros Hn. destruct n as [|n]; [lia|].
  cbn [repeat app runs_from Bool.eqb]. rewrite runsT_falses. f_equal. f_equal. lia.
Qed.

(** the segment after the last gap *)
Definition seg_tail (lp lc plen : Z) : list (Z * Z) :=
  if lp + lc <? plen + lc then [(lp + lc, plen + lc)] else [].

Lemma segs_expand gp : forall pp pc cl plen, wf_from pp pc gp cl plen -> 0 <= pp ->
  runs_from true (pp + pc) None (expand pp pc gp cl plen)
  = nongap_loop pp pc gp cl ++ seg_tail (lastd pp gp) (lastd pc cl) plen.
Proof.
  induction gp as [|p gp IH]; intros pp pc cl plen Hwf Hpp.
  - destruct cl as [|c cl]; cbn [wf_from] in Hwf; [|contradiction].
    cbn [expand nongap_loop lastd app]. unfold seg_tail.
    rewrite <- (app_nil_r (repeat true _)).
    destruct (pp + pc <? plen + pc) eqn:E.
    + rewrite runsT_trues_none by lia. cbn [runs_from]. f_equal. f_equal. lia.
    + replace (Z.to_nat (plen - pp)) with 0%nat by lia. reflexivity.
  - destruct cl as [|c cl]; cbn [wf_from] in Hwf; [contradiction|].
    destruct Hwf as (Hp & Hc & Hwf).
    cbn [expand nongap_loop lastd]. assert (E : p =? 0 = false) by lia. rewrite E.
    rewrite runsT_trues_none by lia. rewrite runsT_some_falses by lia.
    cbn [app]. f_equal; [f_equal; lia|].
    replace (pp + pc + Z.of_nat (Z.to_nat (p - pp)) + Z.of_nat (Z.to_nat (c - pc))) with (p + c) by lia.
    apply IH; [exact Hwf|lia].
Qed.

Theorem nongap_abs m : WF m -> num_gaps m <> 0 -> nongap m = seg_runs (abs m).
Proof.
  intros H Hn. unfold nongap. rewrite len_plen_gl. unfold gl.
  destruct (num_gaps m =? 0) eqn:En; [lia|]. cbn [negb andb].
  unfold seg_runs, abs.
  destruct (wf0_inv _ _ _ _ _ (WF_wf0 _ H)) as [(E1 & _)|(p & c & gp' & cl' & E1 & E2 & Hp & Hc & Hw)].
  { unfold num_gaps in Hn. rewrite E1 in Hn. now cbn in Hn. }
  rewrite E1, E2. rewrite (zlast_lastd 0 gp' p), (zlast_lastd 0 cl' c). cbn [lastd expand nongap_loop].
  assert (Etail : (if lastd p gp' + lastd c cl' <? parent_length m + lastd c cl'
                   then [(lastd p gp' + lastd c cl', parent_length m + lastd c cl')] else [])
                  = seg_tail (lastd p gp') (lastd c cl') (parent_length m)) by reflexivity.
  rewrite Etail.
  destruct (p =? 0) eqn:Ep.
  - assert (p = 0) as -> by lia. change (Z.to_nat (0 - 0)) with 0%nat. cbn [repeat app].
    rewrite runsT_falses. replace (0 + Z.of_nat (Z.to_nat (c - 0))) with (0 + c) by lia.
    symmetry. apply segs_expand; [exact Hw|lia].
  - rewrite runsT_trues_none by lia. rewrite runsT_some_falses by lia.
    cbn [app]. f_equal; [f_equal; lia|].
    replace (0 + Z.of_nat (Z.to_nat (p - 0)) + Z.of_nat (Z.to_nat (c - 0))) with (p + c) by lia.
    symmetry. apply segs_expand; [exact Hw|lia].
Qed.

Lemma has_gap_trues n : has_gap (repeat true n) = false.
Proof. induction n as [|n IH]; [reflexivity|]. cbn [repeat has_gap existsb negb orb]. exact IH. Qed.

Lemma has_gap_num_gaps k : has_gap k = true -> num_gaps (from_mask k) <> 0.
Proof.
  intros Hg Hn. pose proof (abs_from_mask k) as Ha. unfold abs in Ha.
  unfold num_gaps in Hn. apply zlen_0_nil in Hn. rewrite Hn in Ha. cbn [expand] in Ha.
  rewrite <- Ha in Hg. rewrite has_gap_trues in Hg. discriminate.
Qed.

Theorem nongap_spec k : has_gap k = true -> nongap (from_mask k) = seg_runs k.
Proof.
  intros Hg. rewrite nongap_abs; [now rewrite abs_from_mask|apply wf_from_mask|now apply has_gap_num_gaps].
Qed.

(** * Part C2: [from_aligned_segments] *)

(** the part of [from_aligned_segments] after the two decorations *)
Definition fas_tail (locations : list (Z * Z)) (aligned_length : Z) : res imap :=
  let flat := flatten_pairs locations in
  let flat := zslice flat 1 (zlen flat - 1) in
  let gap_coords := pair_up flat in
  let gap_starts := map fst gap_coords in
  let gap_lengths := map (fun p => snd p - fst p) gap_coords in
  let cum_lens := cumsum gap_lengths in
  let gp := sub2 gap_starts (0 :: cum_lens) in
  let seq_length := aligned_length - zlast cum_lens in
  post_init gp cum_lens seq_length.

Definition dec_end (locations : list (Z * Z)) (L : Z) : list (Z * Z) :=
  if last_end locations <? L then locations ++ [(L, L)] else locations.

Lemma fas_unfold s0 e0 tl L :
  from_aligned_segments ((s0, e0) :: tl) L =
  if (zlen ((s0, e0) :: tl) =? 1) && (s0 =? 0) && (e0 =? L) then post_init [] [] L
  else fas_tail (dec_end (if negb (s0 =? 0) then (0, 0) :: (s0, e0) :: tl else (s0, e0) :: tl) L) L.
Proof. reflexivity. Qed.

(** the gaps between consecutive segments; [y] is the end of the previous one *)
Fixpoint gb (y : Z) (D : list (Z * Z)) : list (Z * Z) :=
  match D with
  | [] => []
  | (x1, y1) :: D' => (y, x1) :: gb y1 D'
  end.

Lemma zlen_flatten D : zlen (flatten_pairs D) = 2 * zlen D.
Proof.
  induction D as [|(a, b) D IH]; [reflexivity|]. cbn [flatten_pairs]. rewrite !zlen_cons, IH. lia.
Qed.

Lemma strip_core D : forall y0,
  pair_up (zslice (y0 :: flatten_pairs D) 0 (zlen (flatten_pairs D))) = gb y0 D.
Proof.
  induction D as [|(x1, y1) D IH]; intros y0.
  - cbn [flatten_pairs]. rewrite zslice_empty by (cbn; lia). reflexivity.
  - cbn [flatten_pairs gb]. rewrite !zlen_cons. pose proof (zlen_nonneg (flatten_pairs D)) as Hn.
    rewrite zslice_cons_0 by lia. rewrite zslice_cons_0 by lia.
    cbn [pair_up]. f_equal.
    replace (1 + (1 + zlen (flatten_pairs D)) - 1 - 1) with (zlen (flatten_pairs D)) by lia. apply IH.
Qed.

Lemma fas_tail_gb x0 y0 D L :
  fas_tail ((x0, y0) :: D) L =
  let gc := gb y0 D in
  let cum := cumsum (map (fun q => snd q - fst q) gc) in
  post_init (sub2 (map fst gc) (0 :: cum)) cum (L - zlast cum).
Proof.
  unfold fas_tail. cbn [flatten_pairs]. cbv zeta.
  rewrite !zlen_cons. pose proof (zlen_nonneg (flatten_pairs D)) as Hn.
  rewrite zslice_cons_pos by lia.
  replace (1 - 1) with 0 by lia.
  replace (1 + (1 + zlen (flatten_pairs D)) - 1 - 1) with (zlen (flatten_pairs D)) by lia.
  rewrite strip_core. reflexivity.
Qed.

Lemma gb_loop gp' : forall p pc c cl' plen E, wf_from p c gp' cl' plen -> 0 <= p ->
  gb (p + pc) (nongap_loop p c gp' cl' ++ [(lastd p gp' + lastd c cl', E)]) = gac pc (p :: gp') (c :: cl').
Proof.
  induction gp' as [|p2 g IH]; intros p pc c cl' plen E Hwf Hp.
  - destruct cl' as [|c2 cl]; cbn [wf_from] in Hwf; [|contradiction]. reflexivity.
  - destruct cl' as [|c2 cl]; cbn [wf_from] in Hwf; [contradiction|]. destruct Hwf as (A & B & Hwf).
    cbn [nongap_loop lastd]. assert (E0 : p2 =? 0 = false) by lia. rewrite E0.
    cbn [app gb]. rewrite (IH p2 c c2 cl plen E Hwf) by lia. rewrite (gac_cons pc p c). reflexivity.
Qed.

Lemma gac_diffs gp : forall pc cl, length gp = length cl ->
  map (fun q => snd q - fst q) (gac pc gp cl) = diffs_from pc cl.
Proof.
  induction gp as [|p gp IH]; intros pc cl Hl; destruct cl as [|c cl]; cbn [length] in Hl; try discriminate; [reflexivity|].
  rewrite gac_cons. cbn [map diffs_from fst snd]. f_equal; [lia|]. apply IH. lia.
Qed.

Lemma gac_sub2 gp : forall pc cl, length gp = length cl -> sub2 (map fst (gac pc gp cl)) (pc :: cl) = gp.
Proof.
  induction gp as [|p gp IH]; intros pc cl Hl; destruct cl as [|c cl]; cbn [length] in Hl; try discriminate; [reflexivity|].
  rewrite gac_cons. cbn [map sub2 fst]. f_equal; [lia|]. apply IH. lia.
Qed.

Lemma lastd_mono gp : forall p c cl plen, wf_from p c gp cl plen -> p <= lastd p gp /\ c <= lastd c cl.
Proof.
  induction gp as [|p2 g IH]; intros p c cl plen Hwf; destruct cl as [|c2 cl]; cbn [wf_from] in Hwf; try contradiction.
  - cbn [lastd]. lia.
  - destruct Hwf as (A & B & Hwf). cbn [lastd]. destruct (IH _ _ _ _ Hwf). lia.
Qed.

Lemma NL_bounds gp' : forall p c cl' plen, wf_from p c gp' cl' plen -> 0 <= p -> 0 < c ->
  Forall (fun se : Z * Z => 0 < fst se /\ snd se < lastd p gp' + lastd c cl') (nongap_loop p c gp' cl').
Proof.
  induction gp' as [|p2 g IH]; intros p c cl' plen Hwf Hp Hc; destruct cl' as [|c2 cl]; cbn [wf_from] in Hwf;
    try contradiction; [constructor|].
  destruct Hwf as (A & B & Hwf). cbn [nongap_loop lastd]. assert (E0 : p2 =? 0 = false) by lia. rewrite E0.
  constructor.
  - cbn [fst snd]. destruct (lastd_mono _ _ _ _ _ Hwf). lia.
  - apply (IH p2 c2 cl plen Hwf); lia.
Qed.

Lemma last_end_snoc X a b : last_end (X ++ [(a, b)]) = b.
Proof. unfold last_end. rewrite rev_unit. reflexivity. Qed.

Lemma last_end_bound X B : X <> [] -> Forall (fun se : Z * Z => snd se < B) X -> last_end X < B.
Proof.
  intros Hne HF. unfold last_end. destruct (rev X) as [|(s, e) r] eqn:E.
  - apply (f_equal (@rev _)) in E. rewrite rev_involutive in E. cbn in E. contradiction.
  - assert (Hin : In (s, e) X) by (apply in_rev; rewrite E; left; reflexivity).
    rewrite Forall_forall in HF. exact (HF _ Hin).
Qed.

Lemma fas_core p c gp' cl' plen : 0 <= p -> 0 < c -> 0 < plen -> wf_from p c gp' cl' plen ->
  from_aligned_segments
    ((if p =? 0 then nongap_loop p c gp' cl' else (0 + 0, p + 0) :: nongap_loop p c gp' cl')
     ++ seg_tail (lastd p gp') (lastd c cl') plen) (plen + lastd c cl')
  = Ok (mk_imap (p :: gp') (c :: cl') plen).
Proof.
  intros Hp Hc Hpl Hw.
  pose proof (NL_bounds _ _ _ _ _ Hw Hp Hc) as HNL.
  destruct (lastd_mono _ _ _ _ _ Hw) as (Hlp1 & Hlc1).
  pose proof (wf_from_lastd _ _ _ _ _ Hw) as Hlp2.
  pose proof (wf_from_length _ _ _ _ _ Hw) as Hlen.
  set (NL := nongap_loop p c gp' cl') in *. set (lp := lastd p gp') in *. set (lc := lastd c cl') in *.
  set (L := plen + lc).
  (* the end decoration *)
  assert (Hdec : dec_end ((0, p) :: NL ++ seg_tail lp lc plen) L = (0, p) :: NL ++ [(lp + lc, L)]).
  { unfold dec_end, seg_tail. fold L. destruct (lp + lc <? L) eqn:Et.
    - rewrite app_comm_cons. rewrite last_end_snoc. assert (E : L <? L = false) by lia. rewrite E. reflexivity.
    - rewrite app_nil_r.
      assert (Hb : last_end ((0, p) :: NL) < L).
      { apply last_end_bound; [discriminate|]. constructor; [cbn [snd]; lia|].
        eapply Forall_impl; [|exact HNL]. cbn beta. intros se (_ & Hs). lia. }
      assert (E : last_end ((0, p) :: NL) <? L = true) by lia. rewrite E.
      replace (lp + lc) with L by lia. reflexivity. }
  (* the head decoration *)
  assert (Hmid : from_aligned_segments ((if p =? 0 then NL else (0 + 0, p + 0) :: NL) ++ seg_tail lp lc plen) L
                 = fas_tail ((0, p) :: NL ++ [(lp + lc, L)]) L).
  { destruct (p =? 0) eqn:Ep.
    - assert (p = 0) as -> by lia.
      assert (HS : exists s0 e0 t, NL ++ seg_tail lp lc plen = (s0, e0) :: t /\ 0 < s0).
      { destruct NL as [|(s, e) NL'] eqn:ENL.
        - unfold seg_tail. fold L. destruct (lp + lc <? L) eqn:Et.
          + exists (lp + lc), L, []. split; [reflexivity|lia].
          + exfalso. destruct gp' as [|p2 g]; [unfold lp in *; cbn [lastd] in *; lia|].
            destruct cl' as [|c2 cl]; cbn [wf_from] in Hw; [contradiction|]. destruct Hw as (A & _).
            unfold NL in ENL. cbn [nongap_loop] in ENL. assert (E0 : p2 =? 0 = false) by lia. rewrite E0 in ENL. discriminate.
        - inversion HNL as [|? ? (Hs & _) _]; subst. exists s, e, (NL' ++ seg_tail lp lc plen). split; [reflexivity|exact Hs]. }
      destruct HS as (s0 & e0 & t & HS & Hs0). rewrite HS. rewrite fas_unfold.
      assert (E0 : s0 =? 0 = false) by lia. rewrite E0. rewrite andb_false_r. cbn [andb negb].
      rewrite <- HS. rewrite Hdec. reflexivity.
    - cbn [app]. rewrite fas_unfold.
      assert (E1 : p + 0 =? L = false) by lia. rewrite E1. rewrite andb_false_r.
      change (0 + 0 =? 0) with true. cbn [negb].
      replace (0 + 0) with 0 by lia. replace (p + 0) with p by lia. rewrite Hdec. reflexivity. }
  rewrite Hmid. rewrite fas_tail_gb. cbv zeta.
  replace (gb p (NL ++ [(lp + lc, L)])) with (gac 0 (p :: gp') (c :: cl')).
  2:{ symmetry. replace p with (p + 0) at 1 by lia. apply (gb_loop gp' p 0 c cl' plen L Hw Hp). }
  assert (Hl2 : length (p :: gp') = length (c :: cl')) by (cbn [length]; lia).
  rewrite (gac_diffs _ _ _ Hl2). unfold cumsum. rewrite cumsum_from_diffs.
  rewrite (map_ext _ (fun c => c)) by (intros; lia). rewrite map_id.
  rewrite (gac_sub2 _ _ _ Hl2).
  rewrite (zlast_lastd 0 cl' c). cbn [lastd]. fold lc. replace (L - lc) with plen by lia.
  apply (post_init_wf (p - 1) 0). cbn [wf_from]. split; [lia|]. split; [lia|exact Hw].
Qed.

Lemma nongap_form p c gp' cl' plen :
  nongap (mk_imap (p :: gp') (c :: cl') plen)
  = (if p =? 0 then nongap_loop p c gp' cl' else (0 + 0, p + 0) :: nongap_loop p c gp' cl')
    ++ seg_tail (lastd p gp') (lastd c cl') plen.
Proof.
  unfold nongap. rewrite len_plen_gl. unfold gl, num_gaps. cbn [gap_pos cum_gap_lengths parent_length].
  rewrite zlen_cons. pose proof (zlen_nonneg gp') as Hn.
  destruct (1 + zlen gp' =? 0) eqn:E; [lia|]. cbn [negb andb].
  rewrite (zlast_lastd 0 gp' p), (zlast_lastd 0 cl' c). cbn [lastd nongap_loop].
  unfold seg_tail. destruct (p =? 0); reflexivity.
Qed.

Theorem from_aligned_segments_abs m : WF m -> 0 < parent_length m ->
  from_aligned_segments (seg_runs (abs m)) (len m) = Ok m.
Proof.
  intros H Hpl.
  destruct (wf0_inv _ _ _ _ _ (WF_wf0 _ H)) as [(E1 & E2 & _)|(p & c & gp' & cl' & E1 & E2 & Hp & Hc & Hw)].
  - destruct m as [gp cl plen]. cbn [gap_pos cum_gap_lengths parent_length] in *. subst gp cl.
    assert (W : wf_from 0 0 [] [] plen) by (cbn [wf_from]; lia).
    pose proof (segs_expand [] 0 0 [] plen W ltac:(lia)) as HS.
    cbn [nongap_loop lastd app] in HS. unfold seg_tail in HS.
    assert (E : 0 + 0 <? plen + 0 = true) by lia. rewrite E in HS.
    change (0 + 0) with 0 in HS.
    unfold seg_runs, abs. cbn [gap_pos cum_gap_lengths parent_length]. rewrite HS.
    change (len (mk_imap [] [] plen)) with (plen + 0).
    rewrite fas_unfold. change (zlen [(0, plen + 0)] =? 1) with true. change (0 =? 0) with true.
    rewrite Z.eqb_refl. cbn [andb]. replace (plen + 0) with plen by lia. reflexivity.
  - assert (Hn : num_gaps m <> 0).
    { unfold num_gaps. rewrite E1, zlen_cons. pose proof (zlen_nonneg gp'). lia. }
    rewrite <- (nongap_abs m H Hn).
    destruct m as [gp cl plen]. cbn [gap_pos cum_gap_lengths parent_length] in *. subst gp cl.
    rewrite nongap_form.
    assert (El : len (mk_imap (p :: gp') (c :: cl') plen) = plen + lastd c cl').
    { rewrite len_plen_gl. unfold gl, num_gaps. cbn [gap_pos cum_gap_lengths parent_length].
      rewrite zlen_cons. pose proof (zlen_nonneg gp') as Hz.
      destruct (1 + zlen gp' =? 0) eqn:E; [lia|]. now rewrite (zlast_lastd 0 cl' c). }
    rewrite El. apply fas_core; assumption.
Qed.

Lemma has_residue_count k : has_residue k = true -> 0 < count_true k.
Proof.
  induction k as [|b k IH]; [discriminate|]. pose proof (count_true_nonneg k) as Hn.
  cbn [has_residue existsb count_true]. destruct b; cbn [orb]; [lia|]. intros Hk. apply IH in Hk. lia.
Qed.

Theorem from_aligned_segments_spec k : has_residue k = true ->
  from_aligned_segments (seg_runs k) (zlen k) = Ok (from_mask k).
Proof.
  intros Hr. pose proof (from_aligned_segments_abs (from_mask k) (wf_from_mask k)) as H.
  rewrite abs_from_mask, len_from_mask, plen_from_mask in H. apply H. now apply has_residue_count.
Qed.

(** * Part D: [get_coordinates], where it is right *)

(** an ungapped segment (alignment coordinates) of [K] in sequence coordinates *)
Definition sseg (K : list bool) (se : Z * Z) : Z * Z :=
  let r := count_res (firstn (Z.to_nat (fst se)) K) in (r, r + (snd se - fst se)).

(** consecutive gap positions *)
Fixpoint cons_pairs (pp : Z) (gp : list Z) : list (Z * Z) :=
  match gp with [] => [] | p :: gp' => (pp, p) :: cons_pairs p gp' end.

Lemma sseg_expand gp : forall pp pc cl plen pre K, wf_from pp pc gp cl plen -> 0 <= pp ->
  zlen pre = pp + pc -> count_res pre = pp -> K = pre ++ expand pp pc gp cl plen ->
  map (sseg K) (nongap_loop pp pc gp cl ++ seg_tail (lastd pp gp) (lastd pc cl) plen)
  = cons_pairs pp gp ++ (if lastd pp gp <? plen then [(lastd pp gp, plen)] else []).
Proof.
  induction gp as [|p gp IH]; intros pp pc cl plen pre K Hwf Hpp Hlen Hres HK.
  - destruct cl as [|c cl]; cbn [wf_from] in Hwf; [|contradiction].
    cbn [nongap_loop lastd cons_pairs app]. unfold seg_tail.
    destruct (pp + pc <? plen + pc) eqn:E1; destruct (pp <? plen) eqn:E2; try lia; [|reflexivity].
    cbn [map]. f_equal. unfold sseg. cbn [fst snd]. subst K.
    rewrite firstn_exact by (unfold zlen in Hlen; lia). rewrite Hres. f_equal. lia.
  - destruct cl as [|c cl]; cbn [wf_from] in Hwf; [contradiction|]. destruct Hwf as (A & B & Hwf).
    cbn [nongap_loop lastd cons_pairs]. assert (E0 : p =? 0 = false) by lia. rewrite E0.
    cbn [app map]. f_equal.
    + unfold sseg. cbn [fst snd]. subst K. rewrite firstn_exact by (unfold zlen in Hlen; lia).
      rewrite Hres. f_equal. lia.
    + apply (IH p c cl plen (pre ++ repeat true (Z.to_nat (p - pp)) ++ repeat false (Z.to_nat (c - pc)))).
      * exact Hwf.
      * lia.
      * rewrite !zlen_app, !zlen_repeat. lia.
      * rewrite !count_res_app, count_res_trues, count_res_falses. lia.
      * subst K. cbn [expand]. rewrite <- !app_assoc. reflexivity.
Qed.

Lemma nonempty_app a b : nonempty (a ++ b) = nonempty a ++ nonempty b.
Proof. apply filter_app. Qed.

Lemma nonempty_tailopt lp plen : lp <= plen ->
  nonempty (if lp <? plen then [(lp, plen)] else []) = nonempty [(lp, plen)].
Proof.
  intros Hle. destruct (lp <? plen) eqn:E; [reflexivity|].
  unfold nonempty. cbn [filter fst snd]. assert (E2 : lp =? plen = true) by lia. rewrite E2. reflexivity.
Qed.

Theorem seq_segments_abs m : WF m ->
  nonempty (seq_segments (abs m))
  = nonempty (cons_pairs 0 (gap_pos m) ++ [(lastd 0 (gap_pos m), parent_length m)]).
Proof.
  intros H. change (seq_segments (abs m)) with (map (sseg (abs m)) (seg_runs (abs m))).
  destruct (wf0_inv _ _ _ _ _ (WF_wf0 _ H)) as [(E1 & E2 & Hle)|(p & c & gp' & cl' & E1 & E2 & Hp & Hc & Hw)].
  - destruct m as [gp cl plen]. cbn [gap_pos cum_gap_lengths parent_length] in *. subst gp cl.
    assert (W : wf_from 0 0 [] [] plen) by (cbn [wf_from]; lia).
    unfold seg_runs, abs. cbn [gap_pos cum_gap_lengths parent_length].
    pose proof (segs_expand [] 0 0 [] plen W ltac:(lia)) as HS. change (0 + 0) with 0 in HS at 1. rewrite HS.
    rewrite (sseg_expand [] 0 0 [] plen [] (expand 0 0 [] [] plen) W ltac:(lia) eq_refl eq_refl eq_refl).
    cbn [cons_pairs lastd app]. apply nonempty_tailopt. lia.
  - assert (Hn : num_gaps m <> 0).
    { unfold num_gaps. rewrite E1, zlen_cons. pose proof (zlen_nonneg gp'). lia. }
    rewrite <- (nongap_abs m H Hn).
    destruct m as [gp cl plen]. cbn [gap_pos cum_gap_lengths parent_length] in *. subst gp cl.
    rewrite nongap_form. cbn [cons_pairs lastd].
    pose proof (wf_from_lastd _ _ _ _ _ Hw) as Hlp.
    set (K := abs (mk_imap (p :: gp') (c :: cl') plen)).
    assert (Hrest : map (sseg K) (nongap_loop p c gp' cl' ++ seg_tail (lastd p gp') (lastd c cl') plen)
                    = cons_pairs p gp' ++ (if lastd p gp' <? plen then [(lastd p gp', plen)] else [])).
    { apply (sseg_expand gp' p c cl' plen (repeat true (Z.to_nat (p - 0)) ++ repeat false (Z.to_nat (c - 0)))); try assumption.
      - rewrite !zlen_app, !zlen_repeat. lia.
      - rewrite !count_res_app, count_res_trues, count_res_falses. lia.
      - unfold K, abs. cbn [gap_pos cum_gap_lengths parent_length expand]. rewrite <- !app_assoc. reflexivity. }
    destruct (p =? 0) eqn:Ep.
    + rewrite Hrest. assert (p = 0) as -> by lia.
      rewrite !nonempty_app. rewrite nonempty_tailopt by exact Hlp. reflexivity.
    + cbn [app map]. rewrite Hrest.
      assert (Eh : sseg K (0 + 0, p + 0) = (0, p)).
      { unfold sseg. cbn [fst snd]. change (Z.to_nat (0 + 0)) with 0%nat. cbn [firstn count_res]. f_equal. lia. }
      rewrite Eh. rewrite !app_comm_cons. rewrite !nonempty_app. rewrite nonempty_tailopt by exact Hlp. reflexivity.
Qed.

Lemma combine_shift gp' : forall p, combine (p :: zslice gp' 0 (zlen gp' - 1)) gp' = cons_pairs p gp'.
Proof.
  induction gp' as [|q g IH]; intros p; [reflexivity|].
  destruct g as [|r g'].
  - rewrite zslice_empty by (cbn; lia). reflexivity.
  - pose proof (zlen_nonneg g') as Hn.
    rewrite zslice_cons_0 by (rewrite !zlen_cons; lia).
    replace (zlen (q :: r :: g') - 1 - 1) with (zlen (r :: g') - 1) by (rewrite !zlen_cons; lia).
    cbn [combine cons_pairs]. f_equal. apply (IH q).
Qed.

Lemma nonempty_refl_pair a : nonempty [(a, a)] = [].
Proof. unfold nonempty. cbn [filter fst snd]. now rewrite Z.eqb_refl. Qed.

Theorem get_coordinates_abs m : WF m ->
  num_gaps m < 2 \/ lastd 0 (gap_pos m) = parent_length m ->
  nonempty (get_coordinates m)
  = nonempty (cons_pairs 0 (gap_pos m) ++ [(lastd 0 (gap_pos m), parent_length m)]).
Proof.
  intros (Hpl & Hwf) Hc. destruct m as [gp cl plen]. cbn [gap_pos cum_gap_lengths parent_length] in *.
  destruct gp as [|p gp'].
  { unfold get_coordinates, num_gaps. cbn [gap_pos cum_gap_lengths parent_length].
    change (zlen (@nil Z) =? 0) with true. cbn [orb]. reflexivity. }
  destruct cl as [|c cl']; cbn [wf_from] in Hwf; [contradiction|]. destruct Hwf as (A & B & Hw).
  destruct gp' as [|p2 g].
  { unfold get_coordinates, num_gaps. cbn [gap_pos cum_gap_lengths parent_length].
    change (zlen [p]) with 1. change (1 =? 0) with false. change (1 =? 1) with true. cbn [orb andb].
    rewrite znth_0. destruct (p =? 0) eqn:Ep.
    - assert (p = 0) as -> by lia. reflexivity.
    - reflexivity. }
  destruct cl' as [|c2 cl]; cbn [wf_from] in Hw; [contradiction|]. destruct Hw as (A2 & B2 & Hw).
  pose proof (zlen_nonneg g) as Hg.
  destruct Hc as [Hc|Hc]; [unfold num_gaps in Hc; cbn [gap_pos] in Hc; rewrite !zlen_cons in Hc; lia|].
  cbn [lastd] in Hc.
  unfold get_coordinates, num_gaps. cbn [gap_pos cum_gap_lengths parent_length].
  assert (En : zlen (p :: p2 :: g) = 2 + zlen g) by (rewrite !zlen_cons; lia).
  assert (En0 : zlen (p :: p2 :: g) =? 0 = false) by lia.
  assert (En1 : zlen (p :: p2 :: g) =? 1 = false) by lia.
  rewrite En0, En1. cbn [orb andb]. rewrite znth_0.
  assert (Hs : zslice (p :: p2 :: g) 0 (zlen (p :: p2 :: g) - 1) = p :: zslice (p2 :: g) 0 (zlen (p2 :: g) - 1)).
  { rewrite zslice_cons_0 by lia. f_equal. f_equal. rewrite !zlen_cons. lia. }
  assert (He : zslice (p :: p2 :: g) 1 (zlen (p :: p2 :: g)) = p2 :: g).
  { rewrite zslice_cons_pos by lia. replace (1 - 1) with 0 by lia. apply zslice_full. rewrite !zlen_cons. lia. }
  rewrite Hs, He.
  assert (Ecf : zlast (p :: p2 :: g) + zlast (c :: c2 :: cl) <? plen = false).
  { rewrite (zlast_lastd 0 (p2 :: g) p), (zlast_lastd 0 (c2 :: cl) c). cbn [lastd]. rewrite Hc.
    destruct (lastd_mono _ _ _ _ _ Hw). lia. }
  rewrite Ecf. cbn [cons_pairs lastd]. rewrite Hc.
  rewrite nonempty_app, nonempty_refl_pair, app_nil_r.
  destruct (p =? 0) eqn:Ep; cbn [negb]; cbv beta iota.
  - assert (p = 0) as -> by lia. rewrite combine_shift. reflexivity.
  - rewrite (zslice_cons_0 p _ 1) by lia. rewrite (zslice_empty _ 0 (1 - 1)) by lia. cbn [app combine].
    pose proof (combine_shift (p2 :: g) p) as Hcs. cbn [combine cons_pairs] in Hcs. rewrite Hcs. reflexivity.
Qed.

Lemma ends_gap_snoc_true X : ends_gap (X ++ [true]) = false.
Proof. unfold ends_gap. rewrite rev_unit. reflexivity. Qed.

Lemma ends_gap_lastd m : WF m -> ends_gap (abs m) = true ->
  num_gaps m < 2 \/ lastd 0 (gap_pos m) = parent_length m.
Proof.
  intros H He. pose proof (WF_wf0 _ H) as W. pose proof (wf0_lastd _ _ _ _ _ W) as Hl.
  destruct (Z.eq_dec (lastd 0 (gap_pos m)) (parent_length m)) as [E|N]; [right; exact E|exfalso].
  unfold abs in He. rewrite expand_egaps in He by (eapply wf0_length; exact W).
  replace (parent_length m - lastd 0 (gap_pos m)) with ((parent_length m - lastd 0 (gap_pos m) - 1) + 1) in He by lia.
  rewrite repeat_Zsucc in He by lia. rewrite app_assoc in He. rewrite ends_gap_snoc_true in He. discriminate.
Qed.

Theorem get_coordinates_partial k :
  num_gaps (from_mask k) < 2 \/ ends_gap k = true ->
  nonempty (get_coordinates (from_mask k)) = nonempty (seq_segments k).
Proof.
  intros Hc. pose proof (wf_from_mask k) as H.
  assert (Hc' : num_gaps (from_mask k) < 2 \/ lastd 0 (gap_pos (from_mask k)) = parent_length (from_mask k)).
  { destruct Hc as [Hc|Hc]; [left; exact Hc|]. apply ends_gap_lastd; [exact H|now rewrite abs_from_mask]. }
  rewrite (get_coordinates_abs _ H Hc'). rewrite <- (seq_segments_abs _ H). now rewrite abs_from_mask.
Qed.
