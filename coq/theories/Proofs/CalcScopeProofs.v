(** C07 — proofs about Model/CalcScope.v: the scope table of one parameter.
    * latest-write-wins: after any sequence of scoped rules every cell holds the
      value / constancy of the LAST rule whose scope covers it;
    * sharing: two cells hold the same Setting object iff the same tied rule was
      the last one to cover both (an independent rule gives every cell its own);
    * the number of free parameters depends only on that partition;
    * export -> import on a fresh table reproduces values, constancy, partition
      and nfp when every tie group is a box; witness that it does not otherwise. *)
From Coq Require Import List Arith Bool Lia.
Import ListNotations.
From CG3 Require Import Model.CalcScope.

Lemma nmem_In : forall x l, nmem x l = true <-> In x l.
Proof.
  intros x l. unfold nmem. rewrite existsb_exists. split.
  - intros [y [Hy He]]. apply Nat.eqb_eq in He. subst; auto.
  - intros H. exists x. split; auto. apply Nat.eqb_refl.
Qed.

Lemma scell_eqb_eq : forall a b, scell_eqb a b = true <-> a = b.
Proof.
  intros [[a1 a2] a3] [[b1 b2] b3]. simpl. rewrite !andb_true_iff, !Nat.eqb_eq. split.
  - intros [[-> ->] ->]. reflexivity.
  - intros H. inversion H. auto.
Qed.

Lemma scell_eq_dec : forall a b : scell, {a = b} + {a <> b}.
Proof. repeat decide equality. Qed.

(** * the per-cell specification: latest write wins *)
Inductive tag := TInit (id : nat) | TTied (k : nat) | TIndep (k : nat) (c : scell).

Section ScopeProofs.
  Variable V : Type.
  Variable ltb : V -> V -> bool.
  Variable veqb : V -> V -> bool.
  Variable mean : list V -> V.
  Variable L U : V.                      (* the bounds of the parameter (class defaults) *)
  Variable indep_default : bool.
  Hypothesis ltb_irrefl : forall x, ltb x x = false.
  Hypothesis UL_lt : ltb U L = false.
  Hypothesis UL_ne : veqb U L = false.

  Notation stg := (stg V).
  Notation table := (table V).
  Notation srule := (srule V).
  Notation new_stg := (new_stg V ltb veqb mean L U).
  Notation assign_rule := (assign_rule V ltb veqb mean L U indep_default).
  Notation assign_rules := (assign_rules V ltb veqb mean L U indep_default).
  Notation assign_indep := (assign_indep V ltb veqb mean L U).
  Notation is_indep := (is_indep V indep_default).

  Record cinfo := mk_cinfo { ci_tag : tag; ci_const : bool; ci_val : V }.

  Definition rule_val (r : srule) (d : V) : V := match ru_value r with Some v => v | None => d end.

  (** what one rule does to one cell *)
  Definition spec_step (k : nat) (r : srule) (c : scell) (x : cinfo) : cinfo :=
    if covers (ru_scope r) c
    then mk_cinfo (if is_indep r then TIndep k c else TTied k) (ru_const r) (rule_val r (ci_val x))
    else x.

  Fixpoint spec_run (k : nat) (rs : list srule) (c : scell) (x : cinfo) : cinfo :=
    match rs with
    | [] => x
    | r :: rest => spec_run (S k) rest c (spec_step k r c x)
    end.

  (** the specification really is "the LAST rule whose scope covers the cell" *)
  Lemma spec_run_uncovered : forall rs k c x,
    (forall r, In r rs -> covers (ru_scope r) c = false) -> spec_run k rs c x = x.
  Proof.
    induction rs as [|r rest IH]; intros k c x H; simpl; auto.
    rewrite IH by (intros r' Hr'; apply H; right; auto).
    unfold spec_step. rewrite (H r) by (left; auto). reflexivity.
  Qed.

  Lemma spec_run_app : forall rs1 rs2 k c x,
    spec_run k (rs1 ++ rs2) c x = spec_run (k + length rs1) rs2 c (spec_run k rs1 c x).
  Proof.
    induction rs1 as [|r rest IH]; intros rs2 k c x; simpl.
    - rewrite Nat.add_0_r. reflexivity.
    - rewrite IH. f_equal. lia.
  Qed.

  Theorem spec_run_last : forall rs1 r rs2 c x,
    covers (ru_scope r) c = true ->
    (forall r', In r' rs2 -> covers (ru_scope r') c = false) ->
    spec_run 0 (rs1 ++ r :: rs2) c x =
    mk_cinfo (if is_indep r then TIndep (length rs1) c else TTied (length rs1)) (ru_const r)
             (rule_val r (ci_val (spec_run 0 rs1 c x))).
  Proof.
    intros rs1 r rs2 c x Hc Hn. rewrite spec_run_app. simpl.
    rewrite spec_run_uncovered by exact Hn. unfold spec_step. rewrite Hc. reflexivity.
  Qed.

  (** * well-formedness *)
  Definition wf_rule (r : srule) : Prop :=
    exists v, ru_value r = Some v /\
      (ru_const r = true \/
       ((ru_lower r = None \/ ru_lower r = Some L) /\ (ru_upper r = None \/ ru_upper r = Some U) /\
        ltb v L = false /\ ltb U v = false)).

  Definition uniform (t : table) : Prop :=
    forall c s, In (c, s) t -> g_const s = false -> g_lower s = L /\ g_upper s = U.

  Lemma current_bounds_uniform : forall group,
    (forall s, In s group -> g_const s = false -> g_lower s = L /\ g_upper s = U) ->
    current_bounds V ltb veqb L U group = (L, U).
  Proof.
    intros group H. unfold current_bounds.
    match goal with |- context [fold_left ?f group (None, None)] => set (step := f) end.
    assert (G : forall g acc, (forall s, In s g -> g_const s = false -> g_lower s = L /\ g_upper s = U) ->
                (acc = (None, None) \/ acc = (Some L, Some U)) ->
                (fold_left step g acc = (None, None) \/ fold_left step g acc = (Some L, Some U))).
    { induction g as [|s g IH]; intros acc Hg Hacc; simpl; auto.
      apply IH; [intros s' Hs'; apply Hg; right; auto|].
      unfold step. destruct (g_const s) eqn:Ec; simpl; auto.
      destruct (Hg s (or_introl eq_refl) Ec) as [Hl Hu]. rewrite Hl, Hu, UL_ne. simpl.
      destruct Hacc as [->| ->]; simpl; [right; reflexivity|]. rewrite !ltb_irrefl. right; reflexivity. }
    destruct (G group (None, None) H (or_introl eq_refl)) as [-> | ->]; reflexivity.
  Qed.

  Lemma new_stg_wf : forall r id group v,
    ru_value r = Some v ->
    (ru_const r = true \/
       ((ru_lower r = None \/ ru_lower r = Some L) /\ (ru_upper r = None \/ ru_upper r = Some U) /\
        ltb v L = false /\ ltb U v = false)) ->
    (forall s, In s group -> g_const s = false -> g_lower s = L /\ g_upper s = U) ->
    exists lo hi, new_stg r id group = Some (mk_stg id (ru_const r) lo v hi) /\ (ru_const r = false -> lo = L /\ hi = U).
  Proof.
    intros r id group v Hv Hor Hg. unfold CalcScope.new_stg. rewrite Hv.
    destruct (ru_const r) eqn:Ec.
    - exists v, v. split; auto. discriminate.
    - destruct Hor as [Hc|[Hl [Hu [H1 H2]]]]; [discriminate|].
      rewrite (current_bounds_uniform group Hg).
      assert (El : oget V (ru_lower r) L = L) by (destruct Hl as [-> | ->]; reflexivity).
      assert (Eu : oget V (ru_upper r) U = U) by (destruct Hu as [-> | ->]; reflexivity).
      rewrite El, Eu, UL_lt, H1, H2. exists L, U. auto.
  Qed.

  (** * the table refines the per-cell specification *)
  Definition tag_below (K : nat) (t : tag) : Prop :=
    match t with TInit _ => True | TTied k => k < K | TIndep k _ => k < K end.

  (** all cells of a group hold one and the same setting *)
  Definition coherent (t : table) : Prop := forall c s c' s', In (c, s) t -> In (c', s') t -> g_id s = g_id s' -> s = s'.

  Definition inbounds (t : table) : Prop :=
    forall c s, In (c, s) t -> g_const s = false -> ltb (g_val s) L = false /\ ltb U (g_val s) = false.

  Record Rel (t : table) (nid : nat) (info : scell -> cinfo) (K : nat) : Prop := {
    rl_keys : NoDup (map fst t);
    rl_content : forall c s, In (c, s) t -> g_val s = ci_val (info c) /\ g_const s = ci_const (info c);
    rl_uniform : uniform t;
    rl_share : forall c s c' s', In (c, s) t -> In (c', s') t -> (g_id s = g_id s' <-> ci_tag (info c) = ci_tag (info c'));
    rl_ids : forall c s, In (c, s) t -> g_id s < nid;
    rl_tags : forall c s, In (c, s) t -> tag_below K (ci_tag (info c));
    rl_coh : coherent t;
    rl_inb : inbounds t
  }.

  Lemma nodup_keys_fun : forall (t : table) c s s', NoDup (map fst t) -> In (c, s) t -> In (c, s') t -> s = s'.
  Proof.
    induction t as [|[c0 s0] t IH]; intros c s s' Hnd H1 H2; [contradiction|].
    simpl in Hnd. inversion Hnd as [|? ? Hnot Hnd']; subst.
    destruct H1 as [E1|H1], H2 as [E2|H2].
    - congruence.
    - inversion E1; subst. exfalso. apply Hnot. apply in_map_iff. exists (c, s'). auto.
    - inversion E2; subst. exfalso. apply Hnot. apply in_map_iff. exists (c, s). auto.
    - eapply IH; eauto.
  Qed.

  (** the independent branch: every covered cell gets its own new setting *)
  Lemma assign_indep_spec : forall r v, ru_value r = Some v ->
    (ru_const r = true \/
       ((ru_lower r = None \/ ru_lower r = Some L) /\ (ru_upper r = None \/ ru_upper r = Some U) /\
        ltb v L = false /\ ltb U v = false)) ->
    forall (t : table) nid, uniform t ->
    exists t' nid', assign_indep r t nid = Some (t', nid') /\ nid <= nid' /\ map fst t' = map fst t /\
      (forall c s', In (c, s') t' ->
         (covers (ru_scope r) c = true /\ g_val s' = v /\ g_const s' = ru_const r /\ nid <= g_id s' < nid' /\
          (g_const s' = false -> g_lower s' = L /\ g_upper s' = U))
         \/ (covers (ru_scope r) c = false /\ In (c, s') t)) /\
      (forall c1 s1 c2 s2, In (c1, s1) t' -> In (c2, s2) t' -> covers (ru_scope r) c1 = true -> covers (ru_scope r) c2 = true ->
         g_id s1 = g_id s2 -> NoDup (map fst t) -> c1 = c2).
  Proof.
    intros r v Hv Hor. induction t as [|[c s] t IH]; intros nid Hu.
    - exists [], nid. simpl. repeat split; auto; intros; contradiction.
    - assert (Hu' : uniform t) by (intros c' s' Hin Hc'; apply (Hu c' s'); [right; exact Hin|exact Hc']).
      simpl. destruct (covers (ru_scope r) c) eqn:Ec.
      + destruct (new_stg_wf r nid [s] v Hv Hor) as [lo [hi [Hn Hb]]].
        { intros s0 [E0|[]] Hc0. subst s0. apply (Hu c s); [left; auto|auto]. }
        rewrite Hn. destruct (IH (S nid) Hu') as [t' [nid' [Ha [Hle [Hk [Hin Hinj]]]]]]. rewrite Ha.
        exists ((c, mk_stg nid (ru_const r) lo v hi) :: t'), nid'. split; auto. split; [lia|]. split; [simpl; congruence|]. split.
        * intros c0 s0 [E|H0].
          -- inversion E; subst. left. simpl. split; [exact Ec|]. split; [reflexivity|]. split; [reflexivity|]. split; [lia|exact Hb].
          -- destruct (Hin c0 s0 H0) as [[A [B [C [D E]]]]|[A B]].
             ++ left. split; [exact A|]. split; [exact B|]. split; [exact C|]. split; [lia|exact E].
             ++ right. split; [exact A|right; exact B].
        * intros c1 s1 c2 s2 [E1|H1] [E2|H2] Hc1 Hc2 Hid Hnd.
          -- congruence.
          -- inversion E1; subst. simpl in Hid. destruct (Hin c2 s2 H2) as [[_ [_ [_ [D _]]]]|[A _]]; [lia|congruence].
          -- inversion E2; subst. simpl in Hid. destruct (Hin c1 s1 H1) as [[_ [_ [_ [D _]]]]|[A _]]; [lia|congruence].
          -- simpl in Hnd. inversion Hnd; subst. eapply Hinj; eauto.
      + destruct (IH nid Hu') as [t' [nid' [Ha [Hle [Hk [Hin Hinj]]]]]]. rewrite Ha.
        exists ((c, s) :: t'), nid'. split; auto. split; auto. split; [simpl; congruence|]. split.
        * intros c0 s0 [E|H0].
          -- inversion E; subst. right. split; [exact Ec|left; reflexivity].
          -- destruct (Hin c0 s0 H0) as [A|[A B]]; [left; exact A|right; split; [exact A|right; exact B]].
        * intros c1 s1 c2 s2 [E1|H1] [E2|H2] Hc1 Hc2 Hid Hnd.
          -- congruence.
          -- inversion E1; subst. congruence.
          -- inversion E2; subst. congruence.
          -- simpl in Hnd. inversion Hnd; subst. eapply Hinj; eauto.
  Qed.

  Lemma In_fst : forall (t : table) c s, In (c, s) t -> In c (map fst t).
  Proof. intros t c s H. apply in_map_iff. exists (c, s). auto. Qed.

  Lemma tag_below_S : forall K t, tag_below K t -> tag_below (S K) t.
  Proof. intros K [id|k|k c]; simpl; auto. Qed.

  Theorem assign_rule_refines : forall r t nid info K,
    wf_rule r -> Rel t nid info K ->
    exists t' nid', assign_rule r (t, nid) = Some (t', nid') /\ map fst t' = map fst t /\
                    Rel t' nid' (fun c => spec_step K r c (info c)) (S K).
  Proof.
    intros r t nid info K [v [Hv Hor]] [Hk Hc Hu Hs Hi Ht Hcoh Hinb]. unfold CalcScope.assign_rule.
    destruct (is_indep r) eqn:Ei.
    - (* independent: one new setting per covered cell *)
      destruct (assign_indep_spec r v Hv Hor t nid Hu) as [t' [nid' [Ha [Hle [Hkeys [Hin Hinj]]]]]].
      exists t', nid'. split; auto. split; auto.
      assert (Hold : forall c s', In (c, s') t' -> covers (ru_scope r) c = false -> In (c, s') t).
      { intros c s' H Hcv. destruct (Hin c s' H) as [[A _]|[_ B]]; [congruence|auto]. }
      constructor.
      + rewrite Hkeys. exact Hk.
      + intros c s' H. unfold spec_step. destruct (Hin c s' H) as [[A [B [C _]]]|[A B]]; rewrite A; simpl.
        * unfold rule_val. rewrite Hv. auto.
        * apply Hc; auto.
      + intros c s' H Hf. destruct (Hin c s' H) as [[_ [_ [_ [_ E]]]]|[_ B]]; [auto|apply (Hu c s'); auto].
      + intros c1 s1 c2 s2 H1 H2. unfold spec_step. rewrite Ei.
        destruct (Hin c1 s1 H1) as [[A1 [_ [_ [D1 _]]]]|[A1 B1]]; destruct (Hin c2 s2 H2) as [[A2 [_ [_ [D2 _]]]]|[A2 B2]];
          rewrite A1, A2; simpl.
        * split.
          -- intros Hid. f_equal. eapply Hinj; eauto.
          -- intros E. inversion E; subst. f_equal. eapply (nodup_keys_fun t'); eauto. rewrite Hkeys; auto.
        * split; [intros Hid; pose proof (Hi c2 s2 B2); lia|].
          intros E. pose proof (Ht c2 s2 B2) as Hb. rewrite <- E in Hb. simpl in Hb. lia.
        * split; [intros Hid; pose proof (Hi c1 s1 B1); lia|].
          intros E. pose proof (Ht c1 s1 B1) as Hb. rewrite E in Hb. simpl in Hb. lia.
        * apply Hs; auto.
      + intros c s' H. destruct (Hin c s' H) as [[_ [_ [_ [D _]]]]|[_ B]]; [lia|]. pose proof (Hi c s' B). lia.
      + intros c s' H. unfold spec_step. rewrite Ei. destruct (Hin c s' H) as [[A _]|[A B]]; rewrite A; simpl; [lia|].
        apply tag_below_S. apply (Ht c s'); auto.
      + intros c1 s1 c2 s2 H1 H2 Hid.
        destruct (Hin c1 s1 H1) as [[A1 [_ [_ [D1 _]]]]|[A1 B1]]; destruct (Hin c2 s2 H2) as [[A2 [_ [_ [D2 _]]]]|[A2 B2]].
        * assert (c1 = c2) by (eapply Hinj; eauto). subst c2. eapply (nodup_keys_fun t'); eauto. rewrite Hkeys; auto.
        * pose proof (Hi c2 s2 B2). lia.
        * pose proof (Hi c1 s1 B1). lia.
        * eapply Hcoh; eauto.
      + intros c s' H Hf. destruct (Hin c s' H) as [[_ [Bv [Cc _]]]|[_ B]]; [|apply (Hinb c s'); auto].
        rewrite Bv. rewrite Cc in Hf. destruct Hor as [Hc'|[_ [_ [X1 X2]]]]; [congruence|auto].
    - (* tied: one new setting for all covered cells *)
      destruct (filter (fun cs => covers (ru_scope r) (fst cs)) t) as [|x sel] eqn:Ef.
      + (* nothing covered *)
        exists t, nid. split; auto. split; auto.
        assert (Hnc : forall c s, In (c, s) t -> covers (ru_scope r) c = false).
        { intros c s H. destruct (covers (ru_scope r) c) eqn:E; auto.
          assert (Hf : In (c, s) (filter (fun cs => covers (ru_scope r) (fst cs)) t)) by (apply filter_In; auto).
          rewrite Ef in Hf. contradiction. }
        constructor; auto.
        * intros c s H. unfold spec_step. rewrite (Hnc c s H). apply Hc; auto.
        * intros c1 s1 c2 s2 H1 H2. unfold spec_step. rewrite (Hnc c1 s1 H1), (Hnc c2 s2 H2). apply Hs; auto.
        * intros c s H. unfold spec_step. rewrite (Hnc c s H). apply tag_below_S. apply (Ht c s); auto.
      + rewrite <- Ef.
        destruct (new_stg_wf r nid (map snd (filter (fun cs => covers (ru_scope r) (fst cs)) t)) v Hv Hor) as [lo [hi [Hn Hb]]].
        { intros s Hin Hcs. apply in_map_iff in Hin. destruct Hin as [[c s0] [E Hin]]. simpl in E. subst s0.
          apply filter_In in Hin. destruct Hin as [Hin _]. apply (Hu c s); auto. }
        rewrite Hn. set (ns := mk_stg nid (ru_const r) lo v hi).
        set (t' := map (fun cs => if covers (ru_scope r) (fst cs) then (fst cs, ns) else cs) t).
        assert (Hkeys : map fst t' = map fst t).
        { unfold t'. rewrite map_map. apply map_ext. intros [c s]. simpl. destruct (covers (ru_scope r) c); reflexivity. }
        assert (Hin : forall c s', In (c, s') t' ->
                  (covers (ru_scope r) c = true /\ s' = ns) \/ (covers (ru_scope r) c = false /\ In (c, s') t)).
        { intros c s' H. unfold t' in H. apply in_map_iff in H. destruct H as [[c0 s0] [E H]]. simpl in E.
          destruct (covers (ru_scope r) c0) eqn:Ec0; inversion E; subst; [left|right]; auto. }
        exists t', (S nid). split; auto. split; auto.
        constructor.
        * rewrite Hkeys. exact Hk.
        * intros c s' H. unfold spec_step. destruct (Hin c s' H) as [[A ->]|[A B]]; rewrite A; simpl.
          -- unfold rule_val. rewrite Hv. auto.
          -- apply Hc; auto.
        * intros c s' H Hf. destruct (Hin c s' H) as [[A ->]|[A B]]; [apply Hb; exact Hf|apply (Hu c s'); auto].
        * intros c1 s1 c2 s2 H1 H2. unfold spec_step. rewrite Ei.
          destruct (Hin c1 s1 H1) as [[A1 ->]|[A1 B1]]; destruct (Hin c2 s2 H2) as [[A2 ->]|[A2 B2]]; rewrite A1, A2; simpl.
          -- split; auto.
          -- split; [intros Hid; pose proof (Hi c2 s2 B2); lia|].
             intros E. pose proof (Ht c2 s2 B2) as Hb2. rewrite <- E in Hb2. simpl in Hb2. lia.
          -- split; [intros Hid; pose proof (Hi c1 s1 B1); lia|].
             intros E. pose proof (Ht c1 s1 B1) as Hb1. rewrite E in Hb1. simpl in Hb1. lia.
          -- apply Hs; auto.
        * intros c s' H. destruct (Hin c s' H) as [[A ->]|[A B]]; [simpl; lia|]. pose proof (Hi c s' B). lia.
        * intros c s' H. unfold spec_step. rewrite Ei. destruct (Hin c s' H) as [[A _]|[A B]]; rewrite A; simpl; [lia|].
          apply tag_below_S. apply (Ht c s'); auto.
        * intros c1 s1 c2 s2 H1 H2 Hid.
          destruct (Hin c1 s1 H1) as [[A1 E1]|[A1 B1]]; destruct (Hin c2 s2 H2) as [[A2 E2]|[A2 B2]].
          -- congruence.
          -- subst s1. simpl in Hid. pose proof (Hi c2 s2 B2). lia.
          -- subst s2. simpl in Hid. pose proof (Hi c1 s1 B1). lia.
          -- eapply Hcoh; eauto.
        * intros c s' H Hf. destruct (Hin c s' H) as [[_ E]|[_ B]]; [|apply (Hinb c s'); auto].
          subst s'. simpl in *. destruct Hor as [Hc'|[_ [_ [X1 X2]]]]; [congruence|auto].
  Qed.

  Theorem assign_rules_refine : forall rs t nid info K,
    Forall wf_rule rs -> Rel t nid info K ->
    exists t' nid', assign_rules rs (t, nid) = Some (t', nid') /\ map fst t' = map fst t /\
                    Rel t' nid' (fun c => spec_run K rs c (info c)) (K + length rs).
  Proof.
    induction rs as [|r rest IH]; intros t nid info K Hall HR.
    - exists t, nid. simpl. rewrite Nat.add_0_r. auto.
    - inversion Hall as [|? ? Hr Hrest]; subst.
      destruct (assign_rule_refines r t nid info K Hr HR) as [t1 [n1 [Ha [Hk HR1]]]].
      cbn [CalcScope.assign_rules spec_run length]. rewrite Ha.
      destruct (IH t1 n1 _ (S K) Hrest HR1) as [t2 [n2 [Hb [Hk2 HR2]]]].
      exists t2, n2. split; auto. split; [congruence|].
      replace (K + S (length rest)) with (S K + length rest) by lia. exact HR2.
  Qed.

  (** the initial table is its own specification *)
  Definition info0 (t0 : table) (c : scell) : cinfo :=
    match lookup V t0 c with
    | Some s => mk_cinfo (TInit (g_id s)) (g_const s) (g_val s)
    | None => mk_cinfo (TInit 0) false L
    end.

  Lemma lookup_In : forall (t : table) c s, NoDup (map fst t) -> In (c, s) t -> lookup V t c = Some s.
  Proof.
    induction t as [|[c0 s0] t IH]; intros c s Hnd Hin; [contradiction|].
    unfold lookup. simpl. simpl in Hnd. inversion Hnd as [|? ? Hnot Hnd']; subst.
    destruct (scell_eqb c0 c) eqn:E.
    - apply scell_eqb_eq in E. subst c0. simpl. destruct Hin as [H|H]; [congruence|].
      exfalso. apply Hnot. eapply In_fst; eauto.
    - destruct Hin as [H|H]; [inversion H; subst; rewrite (proj2 (scell_eqb_eq c c) eq_refl) in E; discriminate|].
      apply (IH c s Hnd' H).
  Qed.

  Lemma Rel_init : forall t0 nid0, NoDup (map fst t0) -> uniform t0 -> (forall c s, In (c, s) t0 -> g_id s < nid0) ->
    coherent t0 -> inbounds t0 ->
    Rel t0 nid0 (info0 t0) 0.
  Proof.
    intros t0 nid0 Hnd Hu Hid Hco Hib. constructor; auto.
    - intros c s H. unfold info0. rewrite (lookup_In t0 c s Hnd H). auto.
    - intros c s c' s' H H'. unfold info0. rewrite (lookup_In t0 c s Hnd H), (lookup_In t0 c' s' Hnd H'). simpl.
      split; [intros ->; reflexivity|intros E; inversion E; auto].
    - intros c s H. unfold info0. rewrite (lookup_In t0 c s Hnd H). simpl. exact I.
  Qed.

  (** headline: any history of well-formed scoped rules on any table *)
  Theorem scope_history : forall rs t0 nid0,
    NoDup (map fst t0) -> uniform t0 -> (forall c s, In (c, s) t0 -> g_id s < nid0) ->
    coherent t0 -> inbounds t0 -> Forall wf_rule rs ->
    exists t n, assign_rules rs (t0, nid0) = Some (t, n) /\ map fst t = map fst t0 /\
      uniform t /\ coherent t /\ inbounds t /\
      forall c s, In (c, s) t ->
        let x := spec_run 0 rs c (info0 t0 c) in
        g_val s = ci_val x /\ g_const s = ci_const x /\
        (g_const s = false -> g_lower s = L /\ g_upper s = U) /\
        forall c' s', In (c', s') t -> (g_id s = g_id s' <-> ci_tag x = ci_tag (spec_run 0 rs c' (info0 t0 c'))).
  Proof.
    intros rs t0 nid0 Hnd Hu Hid Hco Hib Hall.
    destruct (assign_rules_refine rs t0 nid0 (info0 t0) 0 Hall (Rel_init t0 nid0 Hnd Hu Hid Hco Hib)) as [t [n [Ha [Hk HR]]]].
    exists t, n. split; auto. split; auto. destruct HR as [R1 R2 R3 R4 R5 R6 R7 R8].
    split; [exact R3|]. split; [exact R7|]. split; [exact R8|]. intros c s H. simpl.
    destruct (R2 c s H) as [A B]. split; auto. split; auto. split; [intros Hf; apply (R3 c s); auto|].
    intros c' s' H'. apply R4; auto.
  Qed.

  (** * the number of free parameters depends only on the partition *)
  Lemma dedup_len_iff : forall (A : Type) (f g : A -> nat) (l : list A),
    (forall x y, In x l -> In y l -> (f x = f y <-> g x = g y)) ->
    length (dedup (map f l)) = length (dedup (map g l)).
  Proof.
    intros A f g. induction l as [|a l IH]; intros H; simpl; auto.
    assert (Hl : forall x y, In x l -> In y l -> (f x = f y <-> g x = g y)) by (intros; apply H; right; auto).
    assert (E : nmem (f a) (map f l) = nmem (g a) (map g l)).
    { destruct (nmem (f a) (map f l)) eqn:E1; destruct (nmem (g a) (map g l)) eqn:E2; auto.
      - apply nmem_In in E1. apply in_map_iff in E1. destruct E1 as [y [Hy Hin]].
        assert (Hg : nmem (g a) (map g l) = true).
        { apply nmem_In. apply in_map_iff. exists y. split; auto. apply (H y a); [right; auto|left; auto|exact Hy]. }
        congruence.
      - apply nmem_In in E2. apply in_map_iff in E2. destruct E2 as [y [Hy Hin]].
        assert (Hf : nmem (f a) (map f l) = true).
        { apply nmem_In. apply in_map_iff. exists y. split; auto. apply (H y a); [right; auto|left; auto|exact Hy]. }
        congruence. }
    rewrite E. destruct (nmem (g a) (map g l)); simpl; rewrite IH; auto.
  Qed.

  Definition idof (t : table) (c : scell) : nat := match lookup V t c with Some s => g_id s | None => 0 end.
  Definition freeof (t : table) (c : scell) : bool := match lookup V t c with Some s => negb (g_const s) | None => false end.

  Lemma filter_map_fst : forall (p : scell -> bool) (t : table),
    filter p (map fst t) = map fst (filter (fun cs => p (fst cs)) t).
  Proof. intros p. induction t as [|[c s] t IH]; simpl; auto. destruct (p c); simpl; rewrite IH; reflexivity. Qed.

  Lemma nfp_by_keys : forall t, NoDup (map fst t) ->
    nfp V t = length (dedup (map (idof t) (filter (freeof t) (map fst t)))).
  Proof.
    intros t Hnd. unfold nfp, free_ids. f_equal. f_equal.
    rewrite filter_map_fst, map_map.
    assert (E : filter (fun cs => freeof t (fst cs)) t = filter (fun cs => negb (g_const (snd cs))) t).
    { apply filter_ext_in. intros [c s] Hin. unfold freeof. simpl. rewrite (lookup_In t c s Hnd Hin). reflexivity. }
    rewrite E. apply map_ext_in. intros [c s] Hin. apply filter_In in Hin. destruct Hin as [Hin _].
    unfold idof. simpl. rewrite (lookup_In t c s Hnd Hin). reflexivity.
  Qed.

  Theorem nfp_same_partition : forall t t',
    NoDup (map fst t) -> map fst t' = map fst t ->
    (forall c s s', In (c, s) t -> In (c, s') t' -> g_const s' = g_const s) ->
    (forall c1 s1 s1' c2 s2 s2', In (c1, s1) t -> In (c1, s1') t' -> In (c2, s2) t -> In (c2, s2') t' ->
        (g_id s1' = g_id s2' <-> g_id s1 = g_id s2)) ->
    nfp V t' = nfp V t.
  Proof.
    intros t t' Hnd Hk Hc Hs.
    assert (Hnd' : NoDup (map fst t')) by (rewrite Hk; auto).
    assert (Hex : forall c, In c (map fst t) -> exists s s', In (c, s) t /\ In (c, s') t').
    { intros c Hin. assert (Hin' : In c (map fst t')) by (rewrite Hk; auto).
      apply in_map_iff in Hin. destruct Hin as [[c0 s] [E Hin]]. simpl in E. subst c0.
      apply in_map_iff in Hin'. destruct Hin' as [[c0 s'] [E Hin']]. simpl in E. subst c0. exists s, s'. auto. }
    rewrite (nfp_by_keys t Hnd), (nfp_by_keys t' Hnd'). rewrite Hk.
    assert (Ef : filter (freeof t') (map fst t) = filter (freeof t) (map fst t)).
    { apply filter_ext_in. intros c Hin. destruct (Hex c Hin) as [s [s' [H1 H2]]]. unfold freeof.
      rewrite (lookup_In t c s Hnd H1), (lookup_In t' c s' Hnd' H2). rewrite (Hc c s s' H1 H2). reflexivity. }
    rewrite Ef. apply dedup_len_iff. intros x y Hx Hy. apply filter_In in Hx. apply filter_In in Hy.
    destruct (Hex x (proj1 Hx)) as [sx [sx' [X1 X2]]]. destruct (Hex y (proj1 Hy)) as [sy [sy' [Y1 Y2]]].
    unfold idof. rewrite (lookup_In t x sx Hnd X1), (lookup_In t' x sx' Hnd' X2), (lookup_In t y sy Hnd Y1), (lookup_In t' y sy' Hnd' Y2).
    apply (Hs x sx sx' y sy sy'); auto.
  Qed.

  (** * export -> import at the scope level *)
  Lemma In_insert_sorted : forall x l y, In y (insert_sorted x l) <-> y = x \/ In y l.
  Proof.
    intros x. induction l as [|a l IH]; intros y; simpl.
    - split; [intros [H|[]]; auto|intros [H|[]]; auto].
    - destruct (x <? a); [simpl; split; [intros [H|H]; auto|intros [H|H]; auto]|].
      destruct (Nat.eqb_spec x a) as [->|Hne]; simpl.
      + split; [intros [H|H]; auto|intros [H|[H|H]]; auto].
      + rewrite IH. split; [intros [H|[H|H]]; auto|intros [H|[H|H]]; auto].
  Qed.

  Lemma In_sorted_set : forall l y, In y (sorted_set l) <-> In y l.
  Proof.
    induction l as [|a l IH]; intros y; simpl; [tauto|]. rewrite In_insert_sorted, IH.
    split; [intros [H|H]; auto|intros [H|H]; auto].
  Qed.

  Lemma two_distinct_shape : forall (l : list nat) x y, In x l -> In y l -> x <> y -> exists a b r, l = a :: b :: r.
  Proof.
    intros [|a [|b r]] x y Hx Hy Hne; simpl in *; try contradiction.
    - destruct Hx as [<-|[]], Hy as [<-|[]]. contradiction.
    - eauto.
  Qed.

  (** the scope get_param_rules gives the group with id j (nG = number of groups) *)
  Definition gcells (t : table) (j : nat) : list (scell * stg) := filter (fun cs => g_id (snd cs) =? j) t.
  Definition gscope (t : table) (nG j : nat) : scope :=
    if nG =? 1 then mk_scope None None None else group_scope V t (map fst (gcells t j)).

  (** every tie group is a box: its bounding box covers no cell of another group *)
  Definition boxes (t : table) : Prop :=
    forall j c s, In j (group_ids V false t) -> In (c, s) t ->
                  covers (gscope t (length (group_ids V false t)) j) c = true -> g_id s = j.

  Lemma dedup_In : forall l x, In x (dedup l) <-> In x l.
  Proof.
    induction l as [|a l IH]; intros x; simpl; [tauto|].
    destruct (nmem a l) eqn:E.
    - rewrite IH. split; auto. intros [<-|H]; auto. apply nmem_In; auto.
    - simpl. rewrite IH. tauto.
  Qed.

  Lemma dedup_NoDup : forall l, NoDup (dedup l).
  Proof.
    induction l as [|a l IH]; simpl; [constructor|].
    destruct (nmem a l) eqn:E; auto. constructor; auto.
    intros Hc. apply (proj1 (dedup_In l a)) in Hc. apply (proj2 (nmem_In a l)) in Hc. rewrite Hc in E. discriminate.
  Qed.

  Lemma group_ids_In : forall t j, In j (group_ids V false t) <-> exists c s, In (c, s) t /\ g_id s = j.
  Proof.
    intros t j. unfold group_ids. rewrite <- in_rev, dedup_In, <- in_rev, in_map_iff. split.
    - intros [[c s] [E H]]. exists c, s. auto.
    - intros [c [s [H E]]]. exists (c, s). auto.
  Qed.

  Lemma group_ids_NoDup : forall t, NoDup (group_ids V false t).
  Proof. intros t. unfold group_ids. apply NoDup_rev. apply dedup_NoDup. Qed.

  Lemma dim_ok_own : forall (proj : scell -> nat) (t : table) keys c,
    In c keys ->
    dim_ok (if dimensioned V proj t then Some (sorted_set (map proj keys)) else None) (proj c) = true.
  Proof.
    intros proj t keys c Hin. destruct (dimensioned V proj t); simpl; auto.
    apply nmem_In. apply In_sorted_set. apply in_map. exact Hin.
  Qed.

  Lemma covers_own : forall t nG j c s, In (c, s) t -> g_id s = j -> covers (gscope t nG j) c = true.
  Proof.
    intros t nG j c s Hin Hj. unfold gscope. destruct (nG =? 1).
    - destruct c as [[e b] l]. reflexivity.
    - assert (Hk : In c (map fst (gcells t j))).
      { apply in_map_iff. exists (c, s). split; auto. apply filter_In. split; auto. simpl. apply Nat.eqb_eq. exact Hj. }
      destruct c as [[e b] l].
      pose proof (dim_ok_own proj1c t _ (e, b, l) Hk) as D1. pose proof (dim_ok_own proj2c t _ (e, b, l) Hk) as D2.
      pose proof (dim_ok_own proj3c t _ (e, b, l) Hk) as D3.
      unfold group_scope, covers. cbn [sc_e sc_b sc_l].
      change (proj1c (e, b, l)) with e in D1. change (proj2c (e, b, l)) with b in D2. change (proj3c (e, b, l)) with l in D3.
      rewrite D1, D2, D3. reflexivity.
  Qed.

  Definition rule_of (t : table) (j : nat) : srule :=
    match export_group V indep_default t (length (group_ids V false t)) j with
    | Some r => r
    | None => mk_srule (mk_scope None None None) None true None None None
    end.

  Lemma export_rules_map : forall t, export_rules V indep_default false t = map (rule_of t) (group_ids V false t).
  Proof.
    intros t. unfold export_rules. 
    assert (G : forall ids, (forall j, In j ids -> In j (group_ids V false t)) ->
                flat_map (fun id => match export_group V indep_default t (length (group_ids V false t)) id with Some r => [r] | None => [] end) ids
                = map (rule_of t) ids).
    { induction ids as [|j ids IH]; intros H; [reflexivity|]. cbn [flat_map map].
      rewrite IH by (intros; apply H; right; auto).
      assert (Hr : rule_of t j = match export_group V indep_default t (length (group_ids V false t)) j with
                                 | Some r => r
                                 | None => mk_srule (mk_scope None None None) None true None None None end) by reflexivity.
      destruct (export_group V indep_default t (length (group_ids V false t)) j) eqn:E; [rewrite Hr; reflexivity|].
      exfalso. destruct (proj1 (group_ids_In t j) (H j (or_introl eq_refl))) as [c [s [Hin Hj]]].
      unfold export_group in E.
      assert (Hf : In (c, s) (filter (fun cs => g_id (snd cs) =? j) t)) by (apply filter_In; split; auto; simpl; apply Nat.eqb_eq; auto).
      destruct (filter (fun cs => g_id (snd cs) =? j) t) as [|[c0 s0] rest]; [contradiction|discriminate]. }
    apply G. auto.
  Qed.

  Lemma rule_of_spec : forall t j c s, coherent t -> In (c, s) t -> g_id s = j ->
    ru_scope (rule_of t j) = gscope t (length (group_ids V false t)) j /\
    ru_value (rule_of t j) = Some (g_val s) /\ ru_const (rule_of t j) = g_const s /\
    (g_const s = false -> ru_lower (rule_of t j) = Some (g_lower s) /\ ru_upper (rule_of t j) = Some (g_upper s)) /\
    ru_indep (rule_of t j) =
      (if indep_default && scope_has_list (group_scope V t (map fst (gcells t j))) then Some false else None).
  Proof.
    intros t j c s Hco Hin Hj. unfold rule_of, export_group, gscope. fold (gcells t j).
    assert (Hf : In (c, s) (gcells t j)) by (apply filter_In; split; auto; simpl; apply Nat.eqb_eq; auto).
    destruct (gcells t j) as [|[c0 s0] rest] eqn:Eg; [contradiction|].
    assert (Hs0 : s0 = s).
    { assert (H0 : In (c0, s0) (gcells t j)) by (rewrite Eg; left; auto). apply filter_In in H0. destruct H0 as [H0 E0].
      simpl in E0. apply Nat.eqb_eq in E0. apply (Hco c0 s0 c s); auto. congruence. }
    subst s0. destruct (g_const s) eqn:Ec; simpl; repeat split; auto; try discriminate;
      destruct (length (group_ids V false t) =? 1); reflexivity.
  Qed.

  Lemma NoDup_split_unique : forall (l1 l2 l1' l2' : list nat) x,
    NoDup (l1 ++ x :: l2) -> l1 ++ x :: l2 = l1' ++ x :: l2' -> length l1 = length l1'.
  Proof.
    induction l1 as [|a l1 IH]; intros l2 l1' l2' x Hnd E.
    - destruct l1' as [|b l1']; auto. simpl in E. inversion E; subst. exfalso.
      simpl in Hnd. inversion Hnd as [|? ? Hnot _]; subst. apply Hnot. apply in_or_app. right. left. auto.
    - destruct l1' as [|b l1']; simpl in E; inversion E; subst.
      + exfalso. simpl in Hnd. inversion Hnd as [|? ? Hnot _]; subst. apply Hnot. apply in_or_app. right. left. auto.
      + simpl. f_equal. simpl in Hnd. inversion Hnd; subst. eapply IH; eauto.
  Qed.

  Lemma nth_middle' : forall (l1 l2 : list nat) x d, nth (length l1) (l1 ++ x :: l2) d = x.
  Proof. induction l1; simpl; auto. Qed.

  Theorem scope_roundtrip : forall t t0 nid0,
    NoDup (map fst t) -> uniform t -> inbounds t -> coherent t -> boxes t ->
    map fst t0 = map fst t -> uniform t0 -> (forall c s, In (c, s) t0 -> g_id s < nid0) ->
    coherent t0 -> inbounds t0 ->
    exists t' n,
      assign_rules (export_rules V indep_default false t) (t0, nid0) = Some (t', n) /\
      map fst t' = map fst t /\
      (forall c s s', In (c, s) t -> In (c, s') t' ->
         g_val s' = g_val s /\ g_const s' = g_const s /\
         (g_const s = false -> g_lower s' = g_lower s /\ g_upper s' = g_upper s)) /\
      (forall c1 s1 s1' c2 s2 s2', In (c1, s1) t -> In (c1, s1') t' -> In (c2, s2) t -> In (c2, s2') t' ->
         (g_id s1' = g_id s2' <-> g_id s1 = g_id s2)) /\
      nfp V t' = nfp V t.
  Proof.
    intros t t0 nid0 Hnd Hu Hib Hco Hbox Hk0 Hu0 Hid0 Hco0 Hib0.
    assert (Hnd0 : NoDup (map fst t0)) by (rewrite Hk0; auto).
    set (ids := group_ids V false t) in *.
    rewrite export_rules_map. fold ids.
    (* every exported rule is well formed *)
    assert (Hwf : Forall wf_rule (map (rule_of t) ids)).
    { apply Forall_forall. intros r Hr. apply in_map_iff in Hr. destruct Hr as [j [<- Hj]].
      destruct (proj1 (group_ids_In t j) Hj) as [c [s [Hin Hjs]]].
      destruct (rule_of_spec t j c s Hco Hin Hjs) as [_ [Hv [Hc [Hb _]]]].
      exists (g_val s). split; auto. destruct (g_const s) eqn:Ec; [left; auto|right].
      destruct (Hb eq_refl) as [Hl Hh]. destruct (Hu c s Hin Ec) as [El Eu]. destruct (Hib c s Hin Ec) as [B1 B2].
      rewrite Hl, Hh, El, Eu. auto. }
    destruct (scope_history (map (rule_of t) ids) t0 nid0 Hnd0 Hu0 Hid0 Hco0 Hib0 Hwf) as [t' [n [Ha [Hk' [_ [_ [_ Hspec]]]]]]].
    exists t', n. split; auto. split; [congruence|].
    (* the one rule that covers a cell is the rule of its group *)
    assert (Hone : forall c s x, In (c, s) t ->
              exists ids1 ids2, ids = ids1 ++ g_id s :: ids2 /\
                spec_run 0 (map (rule_of t) ids) c x =
                mk_cinfo (if is_indep (rule_of t (g_id s)) then TIndep (length ids1) c else TTied (length ids1))
                         (g_const s) (g_val s)).
    { intros c s x Hin.
      assert (Hj : In (g_id s) ids) by (apply group_ids_In; exists c, s; auto).
      destruct (in_split _ _ Hj) as [ids1 [ids2 E]]. exists ids1, ids2. split; auto.
      assert (Hndi : NoDup (ids1 ++ g_id s :: ids2)) by (rewrite <- E; apply group_ids_NoDup).
      destruct (rule_of_spec t (g_id s) c s Hco Hin eq_refl) as [Hsc [Hv [Hc _]]].
      assert (Hother : forall j, In j (ids1 ++ ids2) -> covers (ru_scope (rule_of t j)) c = false).
      { intros j Hjin. destruct (covers (ru_scope (rule_of t j)) c) eqn:Ecv; auto. exfalso.
        assert (Hjids : In j ids) by (rewrite E; apply in_app_or in Hjin; apply in_or_app; destruct Hjin; [left|right; right]; auto).
        destruct (proj1 (group_ids_In t j) Hjids) as [c' [s' [Hin' Hj']]].
        destruct (rule_of_spec t j c' s' Hco Hin' Hj') as [Hsc' _]. rewrite Hsc' in Ecv.
        pose proof (Hbox j c s Hjids Hin Ecv) as Heq.
        apply NoDup_remove_2 in Hndi. apply Hndi. rewrite Heq. exact Hjin. }
      rewrite E, map_app. simpl map.
      rewrite spec_run_last.
      - rewrite map_length. unfold rule_val. rewrite Hv, Hc. reflexivity.
      - rewrite Hsc. eapply covers_own; eauto.
      - intros r' Hr'. apply in_map_iff in Hr'. destruct Hr' as [j [<- Hjin]]. apply Hother. apply in_or_app. right; auto. }
    (* independent rules are only exported for single cells *)
    assert (Htied : forall c1 s1 c2 s2, In (c1, s1) t -> In (c2, s2) t -> g_id s1 = g_id s2 -> c1 <> c2 ->
                      is_indep (rule_of t (g_id s1)) = false).
    { intros c1 s1 c2 s2 H1 H2 Hid Hne. destruct (rule_of_spec t (g_id s1) c1 s1 Hco H1 eq_refl) as [_ [_ [_ [_ Hflag]]]].
      unfold CalcScope.is_indep. rewrite Hflag. destruct indep_default eqn:Ed; simpl; auto.
      assert (Hg1 : In c1 (map fst (gcells t (g_id s1)))).
      { apply in_map_iff. exists (c1, s1). split; auto. apply filter_In. split; auto. simpl. apply Nat.eqb_refl. }
      assert (Hg2 : In c2 (map fst (gcells t (g_id s1)))).
      { apply in_map_iff. exists (c2, s2). split; auto. apply filter_In. split; auto. simpl. apply Nat.eqb_eq. auto. }
      assert (Hdim : forall proj : scell -> nat, proj c1 <> proj c2 ->
                exists a b r, (if dimensioned V proj t then Some (sorted_set (map proj (map fst (gcells t (g_id s1))))) else None) = Some (a :: b :: r)).
      { intros proj Hp.
        assert (Hd : dimensioned V proj t = true).
        { unfold dimensioned. apply Nat.ltb_lt.
          destruct (two_distinct_shape (sorted_set (map (fun cs => proj (fst cs)) t)) (proj c1) (proj c2)) as [a [b [r Er]]]; auto.
          - apply In_sorted_set. apply in_map_iff. exists (c1, s1). auto.
          - apply In_sorted_set. apply in_map_iff. exists (c2, s2). auto.
          - rewrite Er. simpl. lia. }
        rewrite Hd.
        destruct (two_distinct_shape (sorted_set (map proj (map fst (gcells t (g_id s1))))) (proj c1) (proj c2)) as [a [b [r Er]]]; auto.
        - apply In_sorted_set. apply in_map. exact Hg1.
        - apply In_sorted_set. apply in_map. exact Hg2.
        - exists a, b, r. rewrite Er. reflexivity. }
      unfold scope_has_list, group_scope. simpl.
      destruct c1 as [[e1 b1] l1], c2 as [[e2 b2] l2].
      destruct (Nat.eq_dec e1 e2) as [He|He].
      - destruct (Nat.eq_dec b1 b2) as [Hb|Hb].
        + assert (Hl : l1 <> l2) by (intros ->; apply Hne; congruence).
          destruct (Hdim proj3c Hl) as [a [b [r ->]]]. rewrite !orb_true_r. reflexivity.
        + destruct (Hdim proj2c Hb) as [a [b [r ->]]]. rewrite orb_true_r. reflexivity.
      - destruct (Hdim proj1c He) as [a [b [r ->]]]. reflexivity. }
    assert (Hcontent : forall c s s', In (c, s) t -> In (c, s') t' ->
              g_val s' = g_val s /\ g_const s' = g_const s /\ (g_const s = false -> g_lower s' = g_lower s /\ g_upper s' = g_upper s)).
    { intros c s s' Hin Hin'. destruct (Hspec c s' Hin') as [A [B [C _]]].
      destruct (Hone c s (info0 t0 c) Hin) as [ids1 [ids2 [_ Hr]]]. rewrite Hr in A, B. simpl in A, B.
      split; auto. split; auto. intros Hf. rewrite Hf in B. destruct (C B) as [-> ->].
      destruct (Hu c s Hin Hf) as [-> ->]. auto. }
    assert (Hshare : forall c1 s1 s1' c2 s2 s2', In (c1, s1) t -> In (c1, s1') t' -> In (c2, s2) t -> In (c2, s2') t' ->
              (g_id s1' = g_id s2' <-> g_id s1 = g_id s2)).
    { intros c1 s1 s1' c2 s2 s2' H1 H1' H2 H2'.
      destruct (Hspec c1 s1' H1') as [_ [_ [_ Hsh]]]. rewrite (Hsh c2 s2' H2').
      destruct (Hone c1 s1 (info0 t0 c1) H1) as [a1 [b1 [E1 R1]]]. destruct (Hone c2 s2 (info0 t0 c2) H2) as [a2 [b2 [E2 R2]]].
      rewrite R1, R2. simpl.
      assert (Hndi : NoDup ids) by apply group_ids_NoDup.
      split.
      - intros Et.
        assert (Hlen : length a1 = length a2).
        { destruct (is_indep (rule_of t (g_id s1))), (is_indep (rule_of t (g_id s2))); inversion Et; auto. }
        pose proof (nth_middle' a1 b1 (g_id s1) 0) as N1. pose proof (nth_middle' a2 b2 (g_id s2) 0) as N2.
        rewrite <- E1 in N1. rewrite <- E2 in N2. rewrite Hlen in N1. congruence.
      - intros Eid.
        assert (Hlen : length a1 = length a2).
        { rewrite Eid in E1. rewrite E1 in Hndi. eapply NoDup_split_unique; eauto. rewrite <- E1. exact E2. }
        destruct (scell_eq_dec c1 c2) as [->|Hne].
        + rewrite Eid, Hlen. reflexivity.
        + rewrite (Htied c1 s1 c2 s2 H1 H2 Eid Hne). rewrite <- Eid. rewrite (Htied c1 s1 c2 s2 H1 H2 Eid Hne).
          rewrite Hlen. reflexivity. }
    split; [exact Hcontent|]. split; [exact Hshare|].
    apply nfp_same_partition; auto; [congruence|].
    intros c s s' H H'. apply (Hcontent c s s' H H').
  Qed.
End ScopeProofs.

(** * a refused rule leaves no trace *)
Section Rejection.
  Variable V : Type.
  Variable ltb veqb : V -> V -> bool.
  Variable mean : list V -> V.
  Variable L U : V.
  Variable indep_default : bool.
  Notation assign_rule := (assign_rule V ltb veqb mean L U indep_default).
  Notation tol := (assign_rule_tol V ltb veqb mean L U indep_default).
  Notation tols := (assign_rules_tol V ltb veqb mean L U indep_default).

  (** all-or-nothing: an independent rule is refused as soon as ANY covered cell (not only the first
      one visited) ends up with lower > upper, and then nothing is assigned *)
  Lemma assign_indep_all_or_nothing : forall (r : srule V) (t1 t2 : table V) c s nid,
    covers (ru_scope r) c = true -> new_stg V ltb veqb mean L U r (nid + length (filter (fun cs => covers (ru_scope r) (fst cs)) t1)) [s] = None ->
    assign_indep V ltb veqb mean L U r (t1 ++ (c, s) :: t2) nid = None.
  Proof.
    intros r. induction t1 as [|[c0 s0] t1 IH]; intros t2 c s nid Hc Hn; simpl in *.
    - rewrite Hc. rewrite Nat.add_0_r in Hn. rewrite Hn. reflexivity.
    - destruct (covers (ru_scope r) c0) eqn:E0; simpl in *.
      + destruct (new_stg V ltb veqb mean L U r nid [s0]); auto.
        rewrite (IH t2 c s (S nid) Hc); auto. replace (S nid + length (filter (fun cs => covers (ru_scope r) (fst cs)) t1))
          with (nid + S (length (filter (fun cs => covers (ru_scope r) (fst cs)) t1))) by lia. exact Hn.
      + rewrite (IH t2 c s nid Hc Hn). reflexivity.
  Qed.

  Theorem rejected_rule_no_trace : forall rs1 r rs2 tn,
    assign_rule r (tols rs1 tn) = None ->
    tols (rs1 ++ r :: rs2) tn = tols (rs1 ++ rs2) tn.
  Proof.
    intros rs1 r rs2 tn H. unfold assign_rules_tol. rewrite !fold_left_app. simpl.
    unfold assign_rule_tol at 2. fold (tols rs1 tn). rewrite H. reflexivity.
  Qed.
End Rejection.

(** a decision procedure for [boxes] *)
Definition boxesb (V : Type) (t : table V) : bool :=
  let ids := group_ids V false t in
  forallb (fun j => forallb (fun cs => negb (covers (gscope V t (length ids) j) (fst cs)) || (g_id (snd cs) =? j)) t) ids.

Lemma boxesb_sound : forall V (t : table V), boxesb V t = true -> boxes V t.
Proof.
  intros V t H j c s Hj Hin Hc. unfold boxesb in H. cbv zeta in H. rewrite forallb_forall in H. specialize (H j Hj).
  rewrite forallb_forall in H. specialize (H (c, s) Hin). cbn [fst snd] in H. rewrite Hc in H. cbn [negb orb] in H.
  apply Nat.eqb_eq. exact H.
Qed.

(** * witnesses (V := nat) *)
Definition nmean (l : list nat) : nat := fold_left Nat.add l 0 / length l.
Definition fs (id v : nat) : stg nat := mk_stg id false 1 v 100.
(** a parameter with 2 edges x 2 bins, everything tied at 20; then the corner (edge 0, bin 0) set to 50 *)
Definition ex_t0 : table nat := [((0,0,0), fs 0 10); ((0,1,0), fs 0 10); ((1,0,0), fs 0 10); ((1,1,0), fs 0 10)].
Definition ex_rules : list (srule nat) :=
  [mk_srule (mk_scope None None None) None false (Some 20) None None;
   mk_srule (mk_scope (Some [0]) (Some [0]) None) None false (Some 50) None None].

(** with the export order of the pinned code the round trip LOSES a free parameter:
    the remainder group is exported with its bounding box, after the corner's rule *)
Lemma scope_roundtrip_nonbox_witness :
  match assign_rules nat Nat.ltb Nat.eqb nmean 1 100 false ex_rules (ex_t0, 5) with
  | Some (t, _) =>
      nfp nat t = 2 /\
      match assign_rules nat Nat.ltb Nat.eqb nmean 1 100 false (export_rules nat false false t) (ex_t0, 5) with
      | Some (t', _) => nfp nat t' = 1
      | None => False
      end
  | None => False
  end.
Proof. vm_compute. split; reflexivity. Qed.

(** exporting in creation order of the settings (proposed fix) repairs this witness *)
Lemma scope_roundtrip_chrono_witness :
  match assign_rules nat Nat.ltb Nat.eqb nmean 1 100 false ex_rules (ex_t0, 5) with
  | Some (t, _) =>
      match assign_rules nat Nat.ltb Nat.eqb nmean 1 100 false (export_rules nat false true t) (ex_t0, 5) with
      | Some (t', _) => nfp nat t' = 2 /\ map (fun cs => g_val (snd cs)) t' = map (fun cs => g_val (snd cs)) t
      | None => False
      end
  | None => False
  end.
Proof. vm_compute. split; reflexivity. Qed.

(** non-vacuity: a table with two tied slabs (boxes) meets every hypothesis of
    [scope_roundtrip]; the rules of [ex_rules] are well formed *)
Definition ex_box : table nat := [((0,0,0), fs 7 50); ((0,1,0), fs 7 50); ((1,0,0), fs 6 20); ((1,1,0), fs 6 20)].

Lemma ex_uniform : forall t : table nat, (forall c s, In (c, s) t -> exists id v, s = fs id v /\ 1 <= v <= 100) ->
  uniform nat 1 100 t /\ inbounds nat Nat.ltb 1 100 t.
Proof.
  intros t H. split; intros c s Hin Hc; destruct (H c s Hin) as [id [v [-> Hv]]]; simpl; auto.
  split; apply Nat.ltb_ge; lia.
Qed.

Example scope_hypotheses_satisfiable :
  NoDup (map fst ex_box) /\ uniform nat 1 100 ex_box /\ inbounds nat Nat.ltb 1 100 ex_box /\ coherent nat ex_box /\
  boxes nat ex_box /\ map fst ex_t0 = map fst ex_box /\ uniform nat 1 100 ex_t0 /\
  (forall c s, In (c, s) ex_t0 -> g_id s < 5) /\ coherent nat ex_t0 /\ inbounds nat Nat.ltb 1 100 ex_t0 /\
  Forall (wf_rule nat Nat.ltb 1 100) ex_rules.
Proof.
  assert (Hb : forall c s, In (c, s) ex_box -> exists id v, s = fs id v /\ 1 <= v <= 100).
  { intros c s H. simpl in H. repeat (destruct H as [H|H]; [inversion H; subst; eexists; eexists; split; [reflexivity|lia]|]). contradiction. }
  assert (H0 : forall c s, In (c, s) ex_t0 -> exists id v, s = fs id v /\ 1 <= v <= 100).
  { intros c s H. simpl in H. repeat (destruct H as [H|H]; [inversion H; subst; eexists; eexists; split; [reflexivity|lia]|]). contradiction. }
  destruct (ex_uniform ex_box Hb) as [U1 I1]. destruct (ex_uniform ex_t0 H0) as [U0 I0].
  split. { simpl. repeat constructor; simpl; intuition congruence. }
  split; [exact U1|]. split; [exact I1|]. split.
  { intros c s c' s' H H' Hid. simpl in H, H'.
    repeat (destruct H as [H|H]; [inversion H; subst; clear H|]); try contradiction;
      repeat (destruct H' as [H'|H']; [inversion H'; subst; clear H'|]); try contradiction; simpl in Hid; try reflexivity; discriminate. }
  split; [apply boxesb_sound; vm_compute; reflexivity|]. split; [reflexivity|]. split; [exact U0|]. split.
  { intros c s H. simpl in H. repeat (destruct H as [H|H]; [inversion H; subst; simpl; lia|]). contradiction. }
  split.
  { intros c s c' s' H H' Hid. simpl in H, H'.
    repeat (destruct H as [H|H]; [inversion H; subst; clear H|]); try contradiction;
      repeat (destruct H' as [H'|H']; [inversion H'; subst; clear H'|]); try contradiction; reflexivity. }
  split; [exact I0|].
  repeat constructor; eexists; (split; [reflexivity|right; simpl; auto]).
Qed.
