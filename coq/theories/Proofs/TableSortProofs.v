(** C20, [Table.sorted]: the order facts, what the key columns handed to numpy
    are (a reversed int column is negated, a reversed str/bool column is
    replaced by the negated rank of its values), and the theorem: when no
    column is listed twice in [reverse], [sorted] is THE stable sort of the row
    tuples with per-column reversal ([spec_sorted]). *)
From Coq Require Import QArith Qpower Permutation Sorting.Sorted.
From CG3 Require Import Lib.PyZ Lib.Chars Lib.StableSort Lib.Val Model.Csv Model.Table Spec.TableSpec Proofs.TableBase.
Import ListNotations.
Open Scope Z_scope.

(* ================================================================== A. order facts *)

Definition cmp_good {A} (cmp : A -> A -> comparison) : Prop :=
  (forall a b, cmp b a = CompOpp (cmp a b)) /\
  (forall a b, cmp a b = Eq -> a = b) /\
  (forall a b c, cmp a b = Lt -> cmp b c = Lt -> cmp a c = Lt).

Definition cmp_leb {A} (cmp : A -> A -> comparison) (a b : A) : bool :=
  match cmp a b with Gt => false | _ => true end.

Lemma good_refl {A} (cmp : A -> A -> comparison) : cmp_good cmp -> forall a, cmp a a = Eq.
Proof.
  intros [Ho _] a. pose proof (Ho a a) as H.
  destruct (cmp a a); cbn [CompOpp] in H; [reflexivity|discriminate|discriminate].
Qed.

Lemma good_leb_total {A} (cmp : A -> A -> comparison) : cmp_good cmp -> leb_total (cmp_leb cmp).
Proof.
  intros [Ho _] x y. unfold cmp_leb. rewrite (Ho x y).
  destruct (cmp x y); cbn [CompOpp]; [left|left|right]; reflexivity.
Qed.

Lemma good_leb_trans {A} (cmp : A -> A -> comparison) : cmp_good cmp -> leb_trans (cmp_leb cmp).
Proof.
  intros [Ho [He Ht]] x y z. unfold cmp_leb. intros H1 H2.
  destruct (cmp x y) eqn:E1; [| |discriminate].
  - apply He in E1. subst y. exact H2.
  - destruct (cmp y z) eqn:E2; [| |discriminate].
    + apply He in E2. subst z. rewrite E1. reflexivity.
    + rewrite (Ht x y z E1 E2). reflexivity.
Qed.

Lemma list_cmp_good {A} (cmp : A -> A -> comparison) : cmp_good cmp -> cmp_good (list_cmp cmp).
Proof.
  intros Hg. destruct Hg as [Ho [He Ht]].
  split; [|split].
  - induction a as [|x a IH]; intros [|y b]; cbn [list_cmp]; try reflexivity.
    rewrite (Ho x y). destruct (cmp x y); cbn [CompOpp]; [apply IH|reflexivity|reflexivity].
  - induction a as [|x a IH]; intros [|y b]; cbn [list_cmp]; intros H; try discriminate; [reflexivity|].
    destruct (cmp x y) eqn:E; try discriminate. apply He in E. subst y. f_equal. apply IH. exact H.
  - induction a as [|x a IH]; intros [|y b] [|z c]; cbn [list_cmp]; intros H1 H2;
      try discriminate; try reflexivity.
    destruct (cmp x y) eqn:E1; try discriminate.
    + apply He in E1. subst y. destruct (cmp x z) eqn:E2; try discriminate; [|reflexivity].
      apply (IH b c H1 H2).
    + destruct (cmp y z) eqn:E2; try discriminate.
      * apply He in E2. subst z. rewrite E1. reflexivity.
      * rewrite (Ht x y z E1 E2). reflexivity.
Qed.

Lemma Z_compare_good : cmp_good Z.compare.
Proof.
  split; [|split].
  - intros a b. apply Z.compare_antisym.
  - intros a b H. apply Z.compare_eq. exact H.
  - intros a b c H1 H2. rewrite Z.compare_lt_iff in *. lia.
Qed.

Lemma str_cmp_good : cmp_good str_cmp.
Proof. unfold str_cmp. apply list_cmp_good. exact Z_compare_good. Qed.

(* ------------------------------------------------------------------ floats: by value, then (e, m) *)

Definition fcmp (m1 e1 m2 e2 : Z) : comparison :=
  match Qcompare (dec_q m1 e1) (dec_q m2 e2) with
  | Eq => match e1 ?= e2 with Eq => m1 ?= m2 | Lt => Lt | Gt => Gt end
  | Lt => Lt
  | Gt => Gt
  end.

Lemma cell_cmp_CF m1 e1 m2 e2 : cell_cmp (CF m1 e1) (CF m2 e2) = fcmp m1 e1 m2 e2.
Proof. reflexivity. Qed.

Lemma zlex_lt e1 m1 e2 m2 :
  match e1 ?= e2 with Eq => m1 ?= m2 | Lt => Lt | Gt => Gt end = Lt <->
  (e1 < e2 \/ (e1 = e2 /\ m1 < m2)).
Proof.
  destruct (Z.compare_spec e1 e2) as [H|H|H].
  - destruct (Z.compare_spec m1 m2) as [H'|H'|H']; split; intros H0; try discriminate; try lia; reflexivity.
  - split; intros H0; [lia|reflexivity].
  - split; intros H0; [discriminate|lia].
Qed.

Lemma fcmp_opp m1 e1 m2 e2 : fcmp m2 e2 m1 e1 = CompOpp (fcmp m1 e1 m2 e2).
Proof.
  unfold fcmp. rewrite <- (Qcompare_antisym (dec_q m1 e1) (dec_q m2 e2)).
  destruct (Qcompare (dec_q m1 e1) (dec_q m2 e2)); cbn [CompOpp]; try reflexivity.
  rewrite (Z.compare_antisym e1 e2). destruct (e1 ?= e2); cbn [CompOpp]; try reflexivity.
  apply Z.compare_antisym.
Qed.

Lemma fcmp_eq m1 e1 m2 e2 : fcmp m1 e1 m2 e2 = Eq -> e1 = e2 /\ m1 = m2.
Proof.
  unfold fcmp. destruct (Qcompare (dec_q m1 e1) (dec_q m2 e2)); try discriminate.
  destruct (e1 ?= e2) eqn:E; try discriminate. intros H.
  split; apply Z.compare_eq; assumption.
Qed.

Lemma fcmp_lt_iff m1 e1 m2 e2 :
  fcmp m1 e1 m2 e2 = Lt <->
  ((dec_q m1 e1 < dec_q m2 e2)%Q \/
   ((dec_q m1 e1 == dec_q m2 e2)%Q /\ (e1 < e2 \/ (e1 = e2 /\ m1 < m2)))).
Proof.
  unfold fcmp. generalize (dec_q m1 e1) (dec_q m2 e2). intros q1 q2.
  destruct (Qcompare q1 q2) eqn:E.
  - apply (proj2 (Qeq_alt q1 q2)) in E. rewrite zlex_lt. split; intros H.
    + right. split; [exact E|exact H].
    + destruct H as [H|[_ H]]; [|exact H]. exfalso. rewrite E in H. apply (Qlt_irrefl q2). exact H.
  - split; intros H; [left; apply (proj2 (Qlt_alt q1 q2)); exact E|reflexivity].
  - split; intros H; [discriminate|]. destruct H as [H|[H _]].
    + apply (proj1 (Qlt_alt q1 q2)) in H. congruence.
    + apply (proj1 (Qeq_alt q1 q2)) in H. congruence.
Qed.

Lemma fcmp_lt_trans m1 e1 m2 e2 m3 e3 :
  fcmp m1 e1 m2 e2 = Lt -> fcmp m2 e2 m3 e3 = Lt -> fcmp m1 e1 m3 e3 = Lt.
Proof.
  rewrite !fcmp_lt_iff.
  generalize (dec_q m1 e1) (dec_q m2 e2) (dec_q m3 e3). intros q1 q2 q3.
  intros [H1|[H1 L1]] [H2|[H2 L2]].
  - left. apply (Qlt_trans q1 q2 q3); assumption.
  - left. rewrite <- H2. exact H1.
  - left. rewrite H1. exact H2.
  - right. split; [rewrite H1; exact H2|lia].
Qed.

Lemma cell_cmp_good : cmp_good cell_cmp.
Proof.
  destruct str_cmp_good as [So [Se St]]. destruct Z_compare_good as [Zo [Ze Zt]].
  split; [|split].
  - intros [x|x|x| |m1 e1] [y|y|y| |m2 e2]; try rewrite !cell_cmp_CF;
      cbn [cell_cmp cell_rank]; try reflexivity.
    + apply Zo.
    + apply So.
    + apply Zo.
    + apply fcmp_opp.
  - intros [x|x|x| |m1 e1] [y|y|y| |m2 e2]; try rewrite !cell_cmp_CF;
      cbn [cell_cmp cell_rank]; intros H; try discriminate.
    + f_equal. apply Ze. exact H.
    + f_equal. apply Se. exact H.
    + destruct x, y; try discriminate; reflexivity.
    + reflexivity.
    + apply fcmp_eq in H. destruct H as [He Hm]. subst. reflexivity.
  - intros [x|x|x| |m1 e1] [y|y|y| |m2 e2] [z|z|z| |m3 e3]; try rewrite !cell_cmp_CF;
      cbn [cell_cmp cell_rank]; intros H1 H2; try discriminate; try reflexivity.
    + apply (Zt x y z H1 H2).
    + apply (St x y z H1 H2).
    + apply (Zt _ _ _ H1 H2).
    + apply (fcmp_lt_trans m1 e1 m2 e2 m3 e3 H1 H2).
Qed.

Lemma key_cmp_good : cmp_good key_cmp.
Proof. unfold key_cmp. apply list_cmp_good. exact cell_cmp_good. Qed.

(* A2 *)
Theorem key_leb_total : leb_total key_leb.
Proof. exact (good_leb_total key_cmp key_cmp_good). Qed.

Theorem key_leb_trans : leb_trans key_leb.
Proof. exact (good_leb_trans key_cmp key_cmp_good). Qed.

(* A3 *)
Definition cell_cmp_r (rv : bool) (x y : cell) : comparison :=
  if rv then cell_cmp y x else cell_cmp x y.

Lemma cell_cmp_r_good rv : cmp_good (cell_cmp_r rv).
Proof.
  destruct cell_cmp_good as [Ho [He Ht]]. destruct rv; unfold cell_cmp_r.
  - split; [|split].
    + intros a b. apply Ho.
    + intros a b H. symmetry. apply He. exact H.
    + intros a b c H1 H2. apply (Ht c b a H2 H1).
  - split; [|split]; assumption.
Qed.

Lemma skc_cons rv revs x a y b :
  spec_key_cmp (rv :: revs) (x :: a) (y :: b) =
  match cell_cmp_r rv x y with Eq => spec_key_cmp revs a b | Lt => Lt | Gt => Gt end.
Proof. reflexivity. Qed.

Lemma skc_opp : forall revs a b, spec_key_cmp revs b a = CompOpp (spec_key_cmp revs a b).
Proof.
  induction revs as [|rv revs IH]; intros a b; [reflexivity|].
  destruct a as [|x a]; destruct b as [|y b]; try reflexivity.
  rewrite !skc_cons. destruct (cell_cmp_r_good rv) as [Ho _]. rewrite (Ho x y).
  destruct (cell_cmp_r rv x y); cbn [CompOpp]; [apply IH|reflexivity|reflexivity].
Qed.

Lemma skc_trans : forall revs a b c,
  length a = length b -> length b = length c ->
  spec_key_cmp revs a b <> Gt -> spec_key_cmp revs b c <> Gt -> spec_key_cmp revs a c <> Gt.
Proof.
  induction revs as [|rv revs IH]; intros a b c Hab Hbc H1 H2; [cbn; discriminate|].
  destruct a as [|x a]; destruct b as [|y b]; destruct c as [|z c]; try discriminate.
  rewrite skc_cons in *.
  pose proof (good_refl _ (cell_cmp_r_good rv)) as Hr.
  destruct (cell_cmp_r_good rv) as [Ho [He Ht]].
  cbn [length] in Hab, Hbc.
  destruct (cell_cmp_r rv x y) eqn:E1; [| |congruence].
  - apply He in E1. subst y.
    destruct (cell_cmp_r rv x z) eqn:E2; [| discriminate | congruence].
    apply (IH a b c); [lia|lia|exact H1|exact H2].
  - destruct (cell_cmp_r rv y z) eqn:E2; [| |congruence].
    + apply He in E2. subst z. rewrite E1. discriminate.
    + rewrite (Ht x y z E1 E2). discriminate.
Qed.

Theorem spec_row_leb_total h columns revs : leb_total (spec_row_leb h columns revs).
Proof.
  intros r1 r2. unfold spec_row_leb.
  rewrite (skc_opp revs (proj h columns r1) (proj h columns r2)).
  destruct (spec_key_cmp revs (proj h columns r1) (proj h columns r2)); cbn [CompOpp];
    [left|left|right]; reflexivity.
Qed.

Theorem spec_row_leb_trans h columns revs : leb_trans (spec_row_leb h columns revs).
Proof.
  intros r1 r2 r3. unfold spec_row_leb. intros H1 H2.
  assert (H : spec_key_cmp revs (proj h columns r1) (proj h columns r3) <> Gt).
  { apply (skc_trans revs _ (proj h columns r2)).
    - unfold proj. rewrite !map_length. reflexivity.
    - unfold proj. rewrite !map_length. reflexivity.
    - intros E. rewrite E in H1. discriminate.
    - intros E. rewrite E in H2. discriminate. }
  destruct (spec_key_cmp revs (proj h columns r1) (proj h columns r3)); congruence.
Qed.

(* ================================================================== B. the model against the specification *)

(* ------------------------------------------------------------------ generic facts about [isort_by] *)

Lemma insert_by_map_commute {A B} (f : B -> A) (leb' : B -> B -> bool) (leb : A -> A -> bool) x l :
  (forall y, In y l -> leb' x y = leb (f x) (f y)) ->
  map f (insert_by leb' x l) = insert_by leb (f x) (map f l).
Proof.
  induction l as [|a l IH]; intros H; cbn [insert_by map]; [reflexivity|].
  rewrite (H a (or_introl eq_refl)). destruct (leb (f x) (f a)); cbn [map]; [reflexivity|].
  f_equal. apply IH. intros y Hy. apply H. right. exact Hy.
Qed.

Lemma isort_by_map_commute {A B} (f : B -> A) (leb' : B -> B -> bool) (leb : A -> A -> bool) l :
  (forall x y, In x l -> In y l -> leb' x y = leb (f x) (f y)) ->
  map f (isort_by leb' l) = isort_by leb (map f l).
Proof.
  induction l as [|x l IH]; intros H; [reflexivity|].
  cbn [isort_by map]. rewrite (insert_by_map_commute f leb' leb).
  - rewrite IH; [reflexivity|]. intros a b Ha Hb. apply H; right; assumption.
  - intros y Hy. apply isort_by_In in Hy. apply H; [left; reflexivity|right; exact Hy].
Qed.

Lemma isort_by_ext_in {A} (leb1 leb2 : A -> A -> bool) (l : list A) :
  (forall x y, In x l -> In y l -> leb1 x y = leb2 x y) -> isort_by leb1 l = isort_by leb2 l.
Proof.
  intros H. rewrite <- (map_id (isort_by leb1 l)).
  rewrite (isort_by_map_commute (fun x => x) leb1 leb2 l H). rewrite map_id. reflexivity.
Qed.

Lemma combine_map_l {A B} (g : A -> B) (l : list A) : combine (map g l) l = map (fun i => (g i, i)) l.
Proof. induction l as [|a l IH]; [reflexivity|]. cbn [map combine]. rewrite IH. reflexivity. Qed.


(* ------------------------------------------------------------------ reversal reverses the order *)

Lemma reverse_int_cmp : forall x y,
  cell_cmp (reverse_cell (CI x)) (reverse_cell (CI y)) = cell_cmp (CI y) (CI x).
Proof.
  intros x y. cbn [reverse_cell cell_cmp]. rewrite <- !Z.opp_eq_mul_m1. apply Z.compare_opp.
Qed.


Lemma dec_q_neg m e : (dec_q (m * -1) e == - dec_q m e)%Q.
Proof. unfold dec_q. rewrite <- Z.opp_eq_mul_m1, inject_Z_opp. ring. Qed.

Lemma Qcompare_opp a b : Qcompare (- a) (- b) = Qcompare b a.
Proof.
  destruct a as [na da], b as [nb db]. unfold Qcompare, Qopp. cbn [Qnum Qden].
  rewrite !Z.mul_opp_l. apply Z.compare_opp.
Qed.

(* the tie-break on the exponent is not reversed by negation: exact when equal
   values have equal exponents (normalised decimals) *)
Lemma reverse_float_cmp : forall m1 e1 m2 e2,
  ((dec_q m1 e1 == dec_q m2 e2)%Q -> e1 = e2) ->
  cell_cmp (reverse_cell (CF m1 e1)) (reverse_cell (CF m2 e2)) = cell_cmp (CF m2 e2) (CF m1 e1).
Proof.
  intros m1 e1 m2 e2 H. cbn [reverse_cell]. rewrite !cell_cmp_CF. unfold fcmp.
  rewrite (Qcompare_comp _ _ (dec_q_neg m1 e1) _ _ (dec_q_neg m2 e2)). rewrite Qcompare_opp.
  destruct (Qcompare (dec_q m2 e2) (dec_q m1 e1)) eqn:E; try reflexivity.
  apply (proj2 (Qeq_alt _ _)) in E. symmetry in E. apply H in E. subst e2. rewrite Z.compare_refl.
  rewrite <- !Z.opp_eq_mul_m1. apply Z.compare_opp.
Qed.

(* 1.0 written 10e-1 and 1e0: the hypothesis cannot be dropped *)
Example reverse_float_cmp_needs_normal :
  cell_cmp (reverse_cell (CF 10 (-1))) (reverse_cell (CF 1 0)) <> cell_cmp (CF 1 0) (CF 10 (-1)).
Proof. vm_compute. discriminate. Qed.

(* normalised decimals: no trailing zero in the mantissa, zero is 0e0 *)
Lemma dec_q_shift m1 e1 m2 e2 :
  e1 < e2 -> (dec_q m1 e1 == dec_q m2 e2)%Q -> m1 = m2 * 10 ^ (e2 - e1).
Proof.
  intros Hlt H. unfold dec_q in H.
  assert (H10 : ~ (10 # 1 == 0)%Q) by (intros X; discriminate X).
  replace e2 with ((e2 - e1) + e1) in H at 1 by lia.
  rewrite (Qpower_plus _ _ _ H10) in H. rewrite Qmult_assoc in H.
  apply (proj1 (Qmult_inj_r _ _ _ (Qpower_not_0 _ e1 H10))) in H.
  change (10 # 1)%Q with (inject_Z 10) in H.
  rewrite <- (Zpower_Qpower 10 (e2 - e1)) in H by lia.
  rewrite <- inject_Z_mult in H. apply (proj1 (inject_Z_injective _ _)). exact H.
Qed.

Lemma dec_normal_lt_absurd m1 e1 m2 e2 :
  dec_normal (CF m1 e1) -> dec_normal (CF m2 e2) ->
  (dec_q m1 e1 == dec_q m2 e2)%Q -> e1 < e2 -> False.
Proof.
  intros [N1a N1b] [N2a N2b] H Hlt. pose proof (dec_q_shift m1 e1 m2 e2 Hlt H) as Hm.
  assert (Hp : 10 ^ (e2 - e1) = 10 * 10 ^ (e2 - e1 - 1)).
  { rewrite <- Z.pow_succ_r by lia. f_equal. lia. }
  destruct (Z.eq_dec m1 0) as [Z1|NZ1].
  - assert (Z2 : m2 = 0).
    { rewrite Z1 in Hm. symmetry in Hm. apply Z.mul_eq_0 in Hm. destruct Hm as [Hm|Hm]; [exact Hm|].
      exfalso. pose proof (Z.pow_pos_nonneg 10 (e2 - e1)). lia. }
    specialize (N1a Z1). specialize (N2a Z2). lia.
  - apply (N1b NZ1). rewrite Hm, Hp.
    replace (m2 * (10 * 10 ^ (e2 - e1 - 1))) with ((m2 * 10 ^ (e2 - e1 - 1)) * 10) by ring.
    apply Z_mod_mult.
Qed.

Lemma dec_normal_exp m1 e1 m2 e2 :
  dec_normal (CF m1 e1) -> dec_normal (CF m2 e2) ->
  (dec_q m1 e1 == dec_q m2 e2)%Q -> e1 = e2.
Proof.
  intros N1 N2 H. destruct (Z.lt_trichotomy e1 e2) as [Hlt|[He|Hgt]]; [|exact He|].
  - exfalso. apply (dec_normal_lt_absurd m1 e1 m2 e2 N1 N2 H Hlt).
  - exfalso. symmetry in H. apply (dec_normal_lt_absurd m2 e2 m1 e1 N2 N1 H Hgt).
Qed.

Lemma cell_same_eq a b : cell_same a b = true -> a = b.
Proof.
  unfold cell_same. destruct cell_cmp_good as [_ [He _]].
  destruct (cell_cmp a b) eqn:E; try discriminate. intros _. apply He. exact E.
Qed.

Lemma distinct_cells_In x l : In x l -> In x (distinct_cells l).
Proof.
  induction l as [|a l IH]; intros Hin; [destruct Hin|].
  cbn [distinct_cells]. destruct (existsb (cell_same a) l) eqn:E.
  - destruct Hin as [Hx|Hin]; [|apply IH; exact Hin].
    subst a. apply existsb_exists in E. destruct E as [y [Hy Hs]].
    apply cell_same_eq in Hs. subst y. apply IH. exact Hy.
  - destruct Hin as [Hx|Hin]; [left; exact Hx|right; apply IH; exact Hin].
Qed.

Lemma filter_length_le {A} (P Q : A -> bool) l :
  (forall v, P v = true -> Q v = true) -> (length (filter P l) <= length (filter Q l))%nat.
Proof.
  intros HPQ. induction l as [|a l IH]; [cbn; lia|].
  cbn [filter]. destruct (P a) eqn:EP.
  - rewrite (HPQ a EP). cbn [length]. lia.
  - destruct (Q a); cbn [length]; lia.
Qed.

Lemma filter_length_lt {A} (P Q : A -> bool) l :
  (forall v, P v = true -> Q v = true) ->
  (exists w, In w l /\ Q w = true /\ P w = false) ->
  (length (filter P l) < length (filter Q l))%nat.
Proof.
  intros HPQ. induction l as [|a l IH]; intros [w [Hin [HQ HP]]]; [destruct Hin|].
  cbn [filter]. destruct Hin as [Hw|Hin].
  - subst a. rewrite HQ, HP. cbn [length].
    pose proof (filter_length_le P Q l HPQ). lia.
  - assert (IH' : (length (filter P l) < length (filter Q l))%nat).
    { apply IH. exists w. split; [exact Hin|split; assumption]. }
    destruct (P a) eqn:EP.
    + rewrite (HPQ a EP). cbn [length]. lia.
    + destruct (Q a); cbn [length]; lia.
Qed.

Lemma rank_in_lt col x y :
  In x col -> cell_cmp x y = Lt -> rank_in col x < rank_in col y.
Proof.
  intros Hx Hlt. unfold rank_in. apply inj_lt.
  pose proof (good_refl _ cell_cmp_good) as Hr. destruct cell_cmp_good as [Ho [He Ht]].
  apply filter_length_lt.
  - intros v Hv. unfold cell_ltb in *. destruct (cell_cmp v x) eqn:E; try discriminate.
    rewrite (Ht v x y E Hlt). reflexivity.
  - exists x. split; [apply distinct_cells_In; exact Hx|]. unfold cell_ltb.
    rewrite Hlt, (Hr x). split; reflexivity.
Qed.

Theorem neg_rank_reverses : forall col x y, In x col -> In y col ->
  cell_cmp (neg_rank_cell col x) (neg_rank_cell col y) = cell_cmp y x.
Proof.
  intros col x y Hx Hy. unfold neg_rank_cell. cbn [cell_cmp]. rewrite Z.compare_opp.
  destruct cell_cmp_good as [Ho [He Ht]].
  destruct (cell_cmp y x) eqn:E.
  - apply He in E. subst y. apply Z.compare_refl.
  - apply Z.compare_lt_iff. apply rank_in_lt; assumption.
  - apply Z.compare_gt_iff. apply rank_in_lt; [exact Hx|].
    rewrite (Ho y x), E. reflexivity.
Qed.

(* ------------------------------------------------------------------ the key columns *)

Lemma get_cols_inv t : wf t -> forall names vs, get_cols t names = Ok vs ->
  Forall (fun c => In c (hdr t)) names /\ vs = map (col_of t) names.
Proof.
  intros Hwf. induction names as [|c names IH]; intros vs H.
  - cbn [get_cols] in H. inversion H. split; [constructor|reflexivity].
  - cbn [get_cols] in H. destruct (mem_str c (hdr t)) eqn:E.
    + apply mem_str_In in E. rewrite (get_col_ok t c Hwf E) in H. cbn [bind] in H.
      destruct (get_cols t names) as [vs'|e] eqn:G; cbn [bind] in H; [|discriminate].
      inversion H. destruct (IH vs' eq_refl) as [Hf Hv]. subst vs'.
      split; [constructor; assumption|reflexivity].
    + apply mem_str_false in E. rewrite (get_col_absent t c E) in H. cbn [bind] in H. discriminate.
Qed.

Lemma fold_reverse_step_Er t columns rev e :
  fold_left (reverse_step t columns) rev (Er e) = Er e.
Proof. induction rev as [|c rev IH]; [reflexivity|]. cbn [fold_left reverse_step bind]. exact IH. Qed.

Lemma enum_map_notin {B} (g : str -> B) (F : B -> B) c0 k : forall cs s,
  ~ In c0 cs -> (k < s)%nat ->
  map (fun jc => if Nat.eqb (fst jc) k then F (snd jc) else snd jc) (combine (seq s (length cs)) (map g cs))
  = map (fun c => if str_eqb c c0 then F (g c) else g c) cs.
Proof.
  induction cs as [|x cs IH]; intros s Hn Hk; [reflexivity|].
  cbn [length seq map combine fst snd].
  destruct (Nat.eqb s k) eqn:E; [apply Nat.eqb_eq in E; lia|].
  destruct (str_eqb x c0) eqn:E2;
    [apply str_eqb_eq in E2; subst; exfalso; apply Hn; left; reflexivity|].
  f_equal. apply IH; [intros H; apply Hn; right; exact H|lia].
Qed.

Lemma enum_map_index {B} (g : str -> B) (F : B -> B) c0 : forall cs s i,
  nodup_strs cs = true -> index_of c0 cs = Some i ->
  map (fun jc => if Nat.eqb (fst jc) (s + i) then F (snd jc) else snd jc)
      (combine (seq s (length cs)) (map g cs))
  = map (fun c => if str_eqb c c0 then F (g c) else g c) cs.
Proof.
  induction cs as [|x cs IH]; intros s i Hnd Hi; [discriminate|].
  cbn [nodup_strs] in Hnd. apply andb_true_iff in Hnd. destruct Hnd as [Hx Hnd].
  apply negb_true_iff in Hx. apply mem_str_false in Hx.
  cbn [index_of] in Hi. cbn [length seq map combine fst snd].
  destruct (str_eqb c0 x) eqn:E.
  - inversion Hi; subst i. apply str_eqb_eq in E. subst x.
    rewrite Nat.add_0_r, Nat.eqb_refl, str_eqb_refl. f_equal.
    apply enum_map_notin; [exact Hx|lia].
  - destruct (index_of c0 cs) as [i'|] eqn:Ei; [|discriminate]. inversion Hi; subst i.
    destruct (Nat.eqb s (s + S i')) eqn:E3; [apply Nat.eqb_eq in E3; lia|].
    rewrite (str_eqb_sym x c0), E. f_equal.
    replace (s + S i')%nat with (S s + i')%nat by lia. apply IH; [exact Hnd|reflexivity].
Qed.


(* the key column of a reversed column *)
Definition key_col (t : table) (c : str) : list cell :=
  match dtype_of (col_of t c) with
  | DInt | DFloat => map reverse_cell (col_of t c)
  | _ => map (neg_rank_cell (col_of t c)) (col_of t c)
  end.

(* the key columns once the names [p] of [reverse] (no duplicates) have been processed *)
Definition kcols_of (t : table) (columns p : list str) : list (list cell) :=
  map (fun c => if mem_str c p then key_col t c else col_of t c) columns.

Lemma mem_str_app1 c p c0 : mem_str c (p ++ [c0]) = mem_str c p || str_eqb c c0.
Proof.
  unfold mem_str. rewrite existsb_app. cbn [existsb]. rewrite orb_false_r. reflexivity.
Qed.

Lemma reverse_step_kcols t columns p c0 d :
  wf t -> nodup_strs columns = true -> ~ In c0 p ->
  reverse_step t columns (Ok (kcols_of t columns p)) c0 = Ok d ->
  d = kcols_of t columns (p ++ [c0]).
Proof.
  intros Hwf Hnd Hp H. unfold reverse_step in H. cbn [bind] in H.
  destruct (index_of c0 columns) as [i|] eqn:Ei; [|discriminate].
  destruct (mem_str c0 (hdr t)) eqn:Eh;
    [|apply mem_str_false in Eh; rewrite (get_col_absent t c0 Eh) in H; discriminate].
  apply mem_str_In in Eh. rewrite (get_col_ok t c0 Hwf Eh) in H. cbn [bind] in H.
  apply mem_str_false in Hp.
  assert (Hother : forall c, str_eqb c c0 = false ->
            (if mem_str c p then key_col t c else col_of t c) =
            (if mem_str c (p ++ [c0]) then key_col t c else col_of t c)).
  { intros c Ec. rewrite mem_str_app1, Ec, orb_false_r. reflexivity. }
  assert (Hself : forall c, str_eqb c c0 = true ->
            key_col t c0 = (if mem_str c (p ++ [c0]) then key_col t c else col_of t c)).
  { intros c Ec. rewrite mem_str_app1, Ec, orb_true_r. apply str_eqb_eq in Ec. subst c. reflexivity. }
  destruct (dtype_of (col_of t c0)) eqn:Ed;
    try (destruct (Nat.leb 2 (nrows t) && incomparable_col (col_of t c0)); discriminate);
    inversion H as [Hd]; clear H Hd.
  - (* DInt: negated in place *)
    unfold enumerate, kcols_of. rewrite map_length.
    pose proof (enum_map_index (fun c => if mem_str c p then key_col t c else col_of t c)
                  (map reverse_cell) c0 columns 0%nat i Hnd Ei) as HE.
    cbn [Nat.add] in HE. rewrite HE. apply map_ext. intros c.
    destruct (str_eqb c c0) eqn:Ec; [|apply Hother; exact Ec].
    rewrite <- (Hself c Ec). apply str_eqb_eq in Ec. subst c. rewrite Hp.
    unfold key_col. rewrite Ed. reflexivity.
  - (* DFloat: negated in place *)
    unfold enumerate, kcols_of. rewrite map_length.
    pose proof (enum_map_index (fun c => if mem_str c p then key_col t c else col_of t c)
                  (map reverse_cell) c0 columns 0%nat i Hnd Ei) as HE.
    cbn [Nat.add] in HE. rewrite HE. apply map_ext. intros c.
    destruct (str_eqb c c0) eqn:Ec; [|apply Hother; exact Ec].
    rewrite <- (Hself c Ec). apply str_eqb_eq in Ec. subst c. rewrite Hp.
    unfold key_col. rewrite Ed. reflexivity.
  - (* DStr: replaced by negated ranks *)
    unfold set_nth, enumerate, kcols_of. rewrite map_length.
    pose proof (enum_map_index (fun c => if mem_str c p then key_col t c else col_of t c)
                  (fun _ => map (neg_rank_cell (col_of t c0)) (col_of t c0)) c0 columns 0%nat i Hnd Ei) as HE.
    cbn [Nat.add] in HE. cbn beta in HE. rewrite HE. apply map_ext. intros c.
    destruct (str_eqb c c0) eqn:Ec; [|apply Hother; exact Ec].
    rewrite <- (Hself c Ec). unfold key_col. rewrite Ed. reflexivity.
  - (* DBool *)
    unfold set_nth, enumerate, kcols_of. rewrite map_length.
    pose proof (enum_map_index (fun c => if mem_str c p then key_col t c else col_of t c)
                  (fun _ => map (neg_rank_cell (col_of t c0)) (col_of t c0)) c0 columns 0%nat i Hnd Ei) as HE.
    cbn [Nat.add] in HE. cbn beta in HE. rewrite HE. apply map_ext. intros c.
    destruct (str_eqb c c0) eqn:Ec; [|apply Hother; exact Ec].
    rewrite <- (Hself c Ec). unfold key_col. rewrite Ed. reflexivity.
Qed.

Lemma fold_reverse_step_kcols t columns :
  wf t -> nodup_strs columns = true -> forall rev p kc,
  NoDup (p ++ rev) ->
  fold_left (reverse_step t columns) rev (Ok (kcols_of t columns p)) = Ok kc ->
  kc = kcols_of t columns (p ++ rev).
Proof.
  intros Hwf Hnd. induction rev as [|c0 rev IH]; intros p kc Hnp H.
  - cbn [fold_left] in H. inversion H. rewrite app_nil_r. reflexivity.
  - cbn [fold_left] in H.
    destruct (reverse_step t columns (Ok (kcols_of t columns p)) c0) as [d|e] eqn:E.
    + apply reverse_step_kcols in E; [|exact Hwf|exact Hnd|].
      * subst d. apply IH in H; [|rewrite <- app_assoc; exact Hnp].
        rewrite <- app_assoc in H. exact H.
      * intros Hin. apply NoDup_remove_2 in Hnp. apply Hnp. apply in_or_app. left. exact Hin.
    + rewrite fold_reverse_step_Er in H. discriminate.
Qed.

Lemma sort_keys_inv t columns rev kc :
  wf t -> NoDup rev -> sort_keys t columns rev = Ok kc ->
  Forall (fun c => In c (hdr t)) columns /\ nodup_strs columns = true /\
  kc = kcols_of t columns rev.
Proof.
  intros Hwf Hnr H. unfold sort_keys in H.
  destruct (nodup_strs columns) eqn:Hnd; cbn [negb] in H; [|discriminate].
  destruct (get_cols t columns) as [vs|e] eqn:G; [|rewrite fold_reverse_step_Er in H; discriminate].
  destruct (get_cols_inv t Hwf columns vs G) as [Hf Hv].
  split; [exact Hf|split; [reflexivity|]].
  assert (Hv0 : vs = kcols_of t columns []).
  { rewrite Hv. unfold kcols_of. apply map_ext. intros c. reflexivity. }
  rewrite Hv0 in H. apply (fold_reverse_step_kcols t columns Hwf Hnd rev [] kc Hnr H).
Qed.

Lemma count_str_notin c l : ~ In c l -> count_str c l = 0%nat.
Proof.
  induction l as [|x l IH]; intros Hn; [reflexivity|]. cbn [count_str].
  destruct (str_eqb c x) eqn:E.
  - apply str_eqb_eq in E. subst x. exfalso. apply Hn. left. reflexivity.
  - rewrite IH; [reflexivity|]. intros H. apply Hn. right. exact H.
Qed.

Lemma count_str_nodup c l : NoDup l -> In c l -> count_str c l = 1%nat.
Proof.
  induction l as [|x l IH]; intros Hnd Hin; [destruct Hin|].
  inversion Hnd as [|? ? Hx Hnd']; subst. cbn [count_str].
  destruct (str_eqb c x) eqn:E.
  - apply str_eqb_eq in E. subst x. rewrite (count_str_notin c l Hx). reflexivity.
  - destruct Hin as [Hin|Hin]; [subst x; rewrite str_eqb_refl in E; discriminate|].
    rewrite (IH Hnd' Hin). reflexivity.
Qed.


Lemma key_cmp_spec_key_cmp (F1 F2 G1 G2 : str -> cell) (flag : str -> bool) : forall cs,
  (forall c, In c cs -> cell_cmp (F1 c) (F2 c) = cell_cmp_r (flag c) (G1 c) (G2 c)) ->
  key_cmp (map F1 cs) (map F2 cs) = spec_key_cmp (map flag cs) (map G1 cs) (map G2 cs).
Proof.
  unfold key_cmp. induction cs as [|c cs IH]; intros H; [reflexivity|].
  cbn [map]. rewrite skc_cons. cbn [list_cmp]. rewrite (H c (or_introl eq_refl)).
  rewrite IH; [|intros c' Hc'; apply H; right; exact Hc'].
  destruct (cell_cmp_r (flag c) (G1 c) (G2 c)); reflexivity.
Qed.


Lemma nth_map_in {A B} (f : A -> B) l i d d' :
  (i < length l)%nat -> nth i (map f l) d' = f (nth i l d).
Proof.
  intros Hi. rewrite (nth_indep _ d' (f d)); [|rewrite map_length; exact Hi]. apply map_nth.
Qed.

Lemma key_col_cmp t c i j :
  dec_normal_col (col_of t c) ->
  (i < length (col_of t c))%nat -> (j < length (col_of t c))%nat ->
  cell_cmp (nth i (key_col t c) CN) (nth j (key_col t c) CN) =
  cell_cmp (nth j (col_of t c) CN) (nth i (col_of t c) CN).
Proof.
  intros Hdn Hi Hj. unfold key_col.
  assert (Hnr : cell_cmp (nth i (map (neg_rank_cell (col_of t c)) (col_of t c)) CN)
                         (nth j (map (neg_rank_cell (col_of t c)) (col_of t c)) CN) =
                cell_cmp (nth j (col_of t c) CN) (nth i (col_of t c) CN)).
  { rewrite (nth_map_in _ _ i CN CN Hi), (nth_map_in _ _ j CN CN Hj).
    apply neg_rank_reverses; apply nth_In; assumption. }
  destruct (dtype_of (col_of t c)) eqn:Ed; try exact Hnr.
  - (* DInt *)
    unfold dtype_of in Ed. destruct (forallb is_CI (col_of t c)) eqn:Ef.
    + rewrite forallb_forall in Ef.
      rewrite (nth_map_in _ _ i CN CN Hi), (nth_map_in _ _ j CN CN Hj).
      pose proof (Ef _ (nth_In _ CN Hi)) as Fi. pose proof (Ef _ (nth_In _ CN Hj)) as Fj.
      destruct (nth i (col_of t c) CN) as [zi| | | |]; try discriminate.
      destruct (nth j (col_of t c) CN) as [zj| | | |]; try discriminate.
      apply reverse_int_cmp.
    + destruct (forallb is_CF (col_of t c)); [discriminate|].
      destruct (forallb is_CS (col_of t c)); [discriminate|].
      destruct (forallb is_CB (col_of t c)); discriminate.
  - (* DFloat *)
    unfold dtype_of in Ed. destruct (forallb is_CI (col_of t c)); [discriminate|].
    destruct (forallb is_CF (col_of t c)) eqn:Ef.
    + rewrite forallb_forall in Ef.
      rewrite (nth_map_in _ _ i CN CN Hi), (nth_map_in _ _ j CN CN Hj).
      pose proof (Ef _ (nth_In _ CN Hi)) as Fi. pose proof (Ef _ (nth_In _ CN Hj)) as Fj.
      unfold dec_normal_col in Hdn. rewrite Forall_forall in Hdn.
      pose proof (Hdn _ (nth_In _ CN Hi)) as Ni. pose proof (Hdn _ (nth_In _ CN Hj)) as Nj.
      destruct (nth i (col_of t c) CN) as [| | | |mi ei]; try discriminate.
      destruct (nth j (col_of t c) CN) as [| | | |mj ej]; try discriminate.
      apply reverse_float_cmp. intros Hq. apply (dec_normal_exp mi ei mj ej Ni Nj Hq).
    + destruct (forallb is_CS (col_of t c)); [discriminate|].
      destruct (forallb is_CB (col_of t c)); discriminate.
Qed.

Lemma row_at_map {A} (g : A -> list cell) cs i :
  row_at (map g cs) i = map (fun c => nth i (g c) CN) cs.
Proof. unfold row_at. apply map_map. Qed.

(* on rows of the table the order of the coded keys is the specified order *)
Lemma key_leb_spec t cs rev i j :
  wf t -> Forall (fun c => In c (hdr t)) cs -> NoDup rev ->
  (forall c, In c rev -> In c cs -> dec_normal_col (col_of t c)) ->
  (i < nrows t)%nat -> (j < nrows t)%nat ->
  key_leb (row_at (kcols_of t cs rev) i) (row_at (kcols_of t cs rev) j) =
  spec_row_leb (hdr t) cs (rev_flags cs rev) (row_at (cols t) i) (row_at (cols t) j).
Proof.
  intros Hwf Hcs Hnd Hdn Hi Hj.
  unfold spec_row_leb, key_leb, proj, rev_flags, kcols_of. rewrite !row_at_map.
  rewrite (key_cmp_spec_key_cmp _ _
             (fun c => nth (pos c (hdr t)) (row_at (cols t) i) CN)
             (fun c => nth (pos c (hdr t)) (row_at (cols t) j) CN)
             (fun c => Nat.odd (count_str c rev))); [reflexivity|].
  intros c Hc. cbn beta. rewrite !nth_row_at. fold (col_of t c).
  destruct (mem_str c rev) eqn:E.
  - apply mem_str_In in E. rewrite (count_str_nodup c rev Hnd E).
    change (Nat.odd 1) with true. unfold cell_cmp_r.
    rewrite Forall_forall in Hcs.
    assert (Hlen : length (col_of t c) = nrows t)
      by (apply col_of_length; [exact Hwf|apply Hcs; exact Hc]).
    apply key_col_cmp; [apply Hdn; assumption|lia|lia].
  - apply mem_str_false in E. rewrite (count_str_notin c rev E). reflexivity.
Qed.

(* ------------------------------------------------------------------ the theorem *)

Lemma object_key_error_not_ok t k t' : object_key_error t k <> Ok t'.
Proof.
  unfold object_key_error. destruct k as [|k0 k]; [discriminate|].
  destruct (Nat.leb 2 (nrows t) && negb (sortable_dtype k0) && incomparable_col k0); discriminate.
Qed.

(* NB a reversed float column must hold normalised decimals ([dec_normal_col],
   what the harness passes): the model's structural tie-break between equal
   values with different exponents is not reversed by negation.
   NB the hypothesis [hdr t = [] -> nrows t = 0]: a table without columns has
   no rows (wf alone allows [mkT [] [] 5], for which [sorted] answers the
   empty table, see [sorted_no_columns_loses_rows]). *)
Theorem sorted_is_stable_sort : forall t columns reverse t',
  wf t -> (hdr t = [] -> nrows t = 0%nat) -> sorted t columns reverse = Ok t' ->
  let cr := sort_columns t columns reverse in
  NoDup (snd cr) ->
  (forall c, In c (snd cr) -> In c (fst cr) -> dec_normal_col (col_of t c)) ->
  hdr t' = hdr t /\ wf t' /\ nrows t' = nrows t /\
  rows t' = spec_sorted (hdr t) (rows t) (fst cr) (rev_flags (fst cr) (snd cr)).
Proof.
  intros t columns reverse t' Hwf Hne H cr. subst cr.
  unfold sorted in H. destruct (sort_columns t columns reverse) as [cs rev] eqn:Hsc. cbn [fst snd].
  intros Hnr Hdn.
  destruct (sort_keys t cs rev) as [kc|e] eqn:Hk; cbn [bind] in H; [|discriminate].
  destruct (negb (forallb sortable_dtype kc)); [exfalso; apply (object_key_error_not_ok _ _ _ H)|].
  destruct (sort_keys_inv t cs rev kc Hwf Hnr Hk) as [Hin [Hnd Hkc]].
  set (keys := map (row_at kc) (seq 0 (nrows t))) in H.
  assert (Hkl : length keys = nrows t).
  { unfold keys. rewrite map_length, seq_length. reflexivity. }
  assert (Hlen : length (argsort keys) = nrows t).
  { unfold argsort. rewrite map_length, isort_by_length, combine_length, seq_length, Nat.min_id.
    exact Hkl. }
  pose proof Hwf as [Hl [Hf Hndh]].
  rewrite (set_cols_empty (hdr t) (map (take (argsort keys)) (cols t)) (nrows t)) in H.
  - inversion H as [Ht']. cbn [hdr nrows cols].
    assert (Hn : match hdr t with [] => 0%nat | _ :: _ => nrows t end = nrows t).
    { destruct (hdr t); [symmetry; apply Hne; reflexivity|reflexivity]. }
    split; [reflexivity|]. split; [|split].
    + unfold wf. cbn [hdr nrows cols]. rewrite map_length. split; [exact Hl|split; [|exact Hndh]].
      rewrite Hn. rewrite Forall_forall. intros v Hv. apply in_map_iff in Hv.
      destruct Hv as [c [Hc _]]. subst v. rewrite take_length. exact Hlen.
    + exact Hn.
    + rewrite rows_mkT, Hn.
      replace (seq 0 (nrows t)) with (seq 0 (length (argsort keys))) by (rewrite Hlen; reflexivity).
      rewrite take_rows. unfold argsort. rewrite map_map, Hkl. unfold keys. rewrite combine_map_l.
      unfold spec_sorted.
      rewrite (isort_by_map_commute (fun p => row_at (cols t) (snd p)) _
                 (spec_row_leb (hdr t) cs (rev_flags cs rev))).
      * rewrite map_map. reflexivity.
      * intros x y Hx Hy. apply in_map_iff in Hx. destruct Hx as [i [Hi Hi']].
        apply in_map_iff in Hy. destruct Hy as [j [Hj Hj']]. subst x y. cbn [fst snd].
        apply in_seq in Hi'. apply in_seq in Hj'.
        rewrite Hkc. apply key_leb_spec; try assumption; lia.
  - rewrite map_length. exact Hl.
  - rewrite Forall_forall. intros v Hv. apply in_map_iff in Hv.
    destruct Hv as [c [Hc _]]. subst v. rewrite take_length. exact Hlen.
  - exact Hndh.
Qed.

(* ------------------------------------------------------------------ B4: the specification is THE stable sort *)

Theorem spec_sorted_perm : forall h a columns revs, Permutation (spec_sorted h a columns revs) a.
Proof. intros h a columns revs. unfold spec_sorted. apply isort_by_perm. Qed.

Theorem spec_sorted_ordered : forall h a columns revs,
  StronglySorted (fun r1 r2 => spec_row_leb h columns revs r1 r2 = true) (spec_sorted h a columns revs).
Proof.
  intros h a columns revs. unfold spec_sorted.
  apply isort_by_sorted; [apply spec_row_leb_total|apply spec_row_leb_trans].
Qed.

Theorem spec_sorted_stable : forall h a columns revs r,
  filter (leb_equiv (spec_row_leb h columns revs) r) (spec_sorted h a columns revs) =
  filter (leb_equiv (spec_row_leb h columns revs) r) a.
Proof.
  intros h a columns revs r. unfold spec_sorted.
  apply isort_by_stable; [apply spec_row_leb_total|apply spec_row_leb_trans].
Qed.

Theorem spec_sorted_unique : forall h a columns revs l,
  Permutation l a ->
  StronglySorted (fun r1 r2 => spec_row_leb h columns revs r1 r2 = true) l ->
  (forall r, filter (leb_equiv (spec_row_leb h columns revs) r) l =
             filter (leb_equiv (spec_row_leb h columns revs) r) a) ->
  l = spec_sorted h a columns revs.
Proof.
  intros h a columns revs l Hp Hs Hf.
  apply (stable_sort_unique _ (spec_row_leb h columns revs)
           (spec_row_leb_total h columns revs) (spec_row_leb_trans h columns revs) a).
  - exact Hp.
  - apply spec_sorted_perm.
  - exact Hs.
  - apply spec_sorted_ordered.
  - exact Hf.
  - intros r. apply spec_sorted_stable.
Qed.


(* ------------------------------------------------------------------ object-dtype keys *)

(* no reverse: an object-dtype FIRST key whose values Python cannot compare raises TypeError *)
Theorem sorted_object_first_key_raises : forall t columns reverse (c0 : str) rest,
  wf t ->
  fst (sort_columns t columns reverse) = c0 :: rest ->
  snd (sort_columns t columns reverse) = [] ->
  nodup_strs (c0 :: rest) = true ->
  incl (c0 :: rest) (hdr t) ->
  (2 <= nrows t)%nat ->
  dtype_of (col_of t c0) = DObj ->
  incomparable_col (col_of t c0) = true ->
  sorted t columns reverse = Er E_Type.
Proof.
  intros t columns reverse c0 rest Hwf Hcs Hrev Hnd Hincl Hn Hd Hinc.
  unfold sorted. destruct (sort_columns t columns reverse) as [cs rev]. cbn [fst snd] in Hcs, Hrev.
  subst cs rev. unfold sort_keys. rewrite Hnd. cbn [negb fold_left].
  rewrite (get_cols_ok t (c0 :: rest) Hwf Hincl). cbn [bind map forallb].
  assert (Hs : sortable_dtype (col_of t c0) = false) by (unfold sortable_dtype; rewrite Hd; reflexivity).
  rewrite Hs. cbn [andb negb]. unfold object_key_error. rewrite Hs, Hinc.
  apply Nat.leb_le in Hn. rewrite Hn. reflexivity.
Qed.

(* key column k = None, 1, 2 : TypeError, also when reversed *)
Example sorted_object_key_type_error :
  sorted (mkT [[107]] [[CN; CI 1; CI 2]] 3) (Some [[107]]) None = Er E_Type.
Proof. vm_compute. reflexivity. Qed.

Example sorted_object_reverse_key_type_error :
  sorted (mkT [[107]] [[CN; CI 1; CI 2]] 3) None (Some [[107]]) = Er E_Type.
Proof. vm_compute. reflexivity. Qed.

(* a single row is never compared *)
Example sorted_object_key_one_row :
  sorted (mkT [[107]] [[CN]] 1) (Some [[107]]) None = Er E_NotModelled.
Proof. vm_compute. reflexivity. Qed.

(* a number and a string *)
Example sorted_object_key_mixed :
  sorted (mkT [[107]] [[CI 1; CS [97]]] 2) (Some [[107]]) None = Er E_Type.
Proof. vm_compute. reflexivity. Qed.

(* ------------------------------------------------------------------ examples *)

(* "a" < "ab" < "b": descending on column a is b, ab, a (a proper prefix is reversed too) *)
Example sorted_reverse_prefix_exact : exists t',
  sorted (mkT [[97]; [98]] [[CS [97]; CS [97; 98]; CS [98]]; [CI 1; CI 2; CI 3]] 3)
         None (Some [[97]]) = Ok t' /\
  rows t' = [[CS [98]; CI 3]; [CS [97; 98]; CI 2]; [CS [97]; CI 1]].
Proof. eexists. split; vm_compute; reflexivity. Qed.

(* column f (bool) reversed: True rows first; then column n ascending *)
Example sorted_reverse_bool : exists t',
  sorted (mkT [[102]; [110]]
              [[CB false; CB true; CB false; CB true]; [CI 2; CI 2; CI 1; CI 1]] 4)
         (Some [[102]; [110]]) (Some [[102]]) = Ok t' /\
  rows t' = [[CB true; CI 1]; [CB true; CI 2]; [CB false; CI 1]; [CB false; CI 2]].
Proof. eexists. split; vm_compute; reflexivity. Qed.


(* column a (float) reversed: 2.0, 0.5, -1.25 *)
Definition float_table : table :=
  mkT [[97]; [98]] [[CF 5 (-1); CF (-125) (-2); CF 2 0]; [CI 1; CI 2; CI 3]] 3.

Example sorted_reverse_float : exists t',
  sorted float_table None (Some [[97]]) = Ok t' /\
  rows t' = [[CF 2 0; CI 3]; [CF 5 (-1); CI 1]; [CF (-125) (-2); CI 2]].
Proof. eexists. split; vm_compute; reflexivity. Qed.

Example float_table_dec_normal : dec_normal_col (col_of float_table [97]).
Proof.
  vm_compute col_of. unfold dec_normal_col.
  repeat constructor; try (intros H; discriminate H); intros _; vm_compute; discriminate.
Qed.

(* why [sorted_is_stable_sort] carries [hdr t = [] -> nrows t = 0]: wf allows rows without columns *)
Example sorted_no_columns_loses_rows :
  wf (mkT [] [] 5) /\ sorted (mkT [] [] 5) None None = Ok empty_table /\
  nrows empty_table <> nrows (mkT [] [] 5) /\ rows empty_table <> rows (mkT [] [] 5).
Proof.
  split; [|split; [|split]].
  - unfold wf. cbn [hdr cols nrows]. split; [reflexivity|split; constructor].
  - vm_compute. reflexivity.
  - cbn [nrows empty_table]. discriminate.
  - vm_compute. discriminate.
Qed.

