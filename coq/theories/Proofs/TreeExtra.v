(** C09 — corollaries that combine the two proof files, the refutation of the
    current get_sub_tree (which ends in the current unrooted()), and the
    non-vacuity examples for the hypotheses used in Properties/C09.v. *)
From Coq Require Import Permutation.
From CG3 Require Import Lib.PyZ Lib.Val Lib.Rose Model.Tree Model.TreeMid Model.TreeJson Spec.TreeSpec Proofs.TreeProofs Proofs.TreeSubProofs
  Proofs.NewickProofs Proofs.NewickMoreProofs.

Lemma lens_ok_weaken (P Q : Z -> bool) t :
  (forall z, P z = true -> Q z = true) -> lens_ok P t = true -> lens_ok Q t = true.
Proof.
  intros HPQ. induction t as [n l cs IH] using tree_ind'.
  cbn [lens_ok]. rewrite !forallb_forall. intros H c Hc.
  specialize (H c Hc). rewrite Forall_forall in IH. specialize (IH c Hc).
  apply andb_true_iff in H. destruct H as [H1 H2].
  apply andb_true_iff. split; [|auto].
  destruct (tlen c); [auto|discriminate].
Qed.

Lemma pos_has_lens t : pos_lens t = true -> has_lens t = true.
Proof. apply lens_ok_weaken. reflexivity. Qed.

Lemma pos_nonneg_lens t : pos_lens t = true -> nonneg_lens t = true.
Proof. apply lens_ok_weaken. intros z Hz. lia. Qed.

(** get_sub_tree with the REPAIRED final re-unrooting step *)
Theorem sub_tree_fixed_preserves : forall dflt t S im kr r a b,
  pos_lens t = true -> NoDup (tips t) ->
  get_sub_tree_v true t S im kr true = Ok r ->
  In a S -> In b S -> In a (tips t) -> In b (tips t) ->
  Permutation (tips r) (filter (fun n => memb n S) (tips t)) /\
  pathlen dflt r a b = pathlen dflt t a b.
Proof.
  intros dflt t S im kr r a b Hp Hnd Hg Ha Hb Hat Hbt.
  unfold get_sub_tree_v in Hg.
  destruct (get_sub_tree_core t S im kr true) as [r0|e] eqn:Hc; [|discriminate].
  destruct (sub_tree_core_preserves dflt t S im kr r0 a b Hp Hc Ha Hb Hat Hbt) as (Ht & Hd & Hp0).
  destruct (Nat.ltb 2 (length (kids t))).
  - inversion Hg; subst r. cbn [unrooted_v].
    assert (Hnd0 : NoDup (tips r0)) by (rewrite Ht; apply NoDup_filter; exact Hnd).
    assert (Ha0 : In a (tips r0)).
    { rewrite Ht. apply filter_In. split; [exact Hat|]. apply memb_In. exact Ha. }
    assert (Hb0 : In b (tips r0)).
    { rewrite Ht. apply filter_In. split; [exact Hbt|]. apply memb_In. exact Hb. }
    destruct (unrooted_fixed_preserves dflt r0 a b (pos_has_lens _ Hp0) Hnd0 Ha0 Hb0) as (HP & HD).
    split.
    + rewrite <- Ht. exact HP.
    + rewrite HD. exact Hd.
  - inversion Hg; subst r. split; [rewrite Ht; reflexivity|exact Hd].
Qed.

(** the CURRENT get_sub_tree ends in the current unrooted():
    ((a:1,b:2)x:3,c:4,d:5) restricted to {a,b,c} has d(a,b) = 3, the result 9 *)
Theorem sub_tree_current_refuted : exists t S r a b,
  pos_lens t = true /\ NoDup (tips t) /\
  get_sub_tree_v false t S false false true = Ok r /\
  In a S /\ In b S /\ In a (tips t) /\ In b (tips t) /\
  pathlen 1 r a b <> pathlen 1 t a b.
Proof.
  exists (Node [114] None
            [Node [120] (Some 3) [Node [97] (Some 1) []; Node [98] (Some 2) []];
             Node [99] (Some 4) []; Node [100] (Some 5) []]),
         [[97]; [98]; [99]].
  eexists. exists [97], [98].
  split; [reflexivity|].
  split. { cbn. repeat constructor; cbn; intuition discriminate. }
  split; [vm_compute; reflexivity|].
  split; [cbn; tauto|]. split; [cbn; tauto|]. split; [cbn; tauto|]. split; [cbn; tauto|].
  vm_compute. discriminate.
Qed.

(** what the code's distance computation reports for the result of a
    re-rooting is what it reported for the original tree *)
Theorem rooted_at_get_distance : forall dflt t nm r a b,
  (2 <= length (kids t))%nat -> NoDup (tips t) -> In a (tips t) -> In b (tips t) -> a <> b ->
  rooted_at t nm = Ok r ->
  get_distance dflt r a b = get_distance dflt t a b.
Proof.
  intros dflt t nm r a b Hk Hnd Ha Hb Hab Hr.
  destruct (rooted_at_preserves dflt t nm r a b Hk Hnd Ha Hb Hr) as (HP & HD).
  rewrite (get_distance_is_pathlen dflt t a b Hnd Ha Hb Hab).
  rewrite (get_distance_is_pathlen dflt r a b).
  - rewrite HD. reflexivity.
  - eapply Permutation_NoDup; [apply Permutation_sym; exact HP|exact Hnd].
  - eapply Permutation_in; [apply Permutation_sym; exact HP|exact Ha].
  - eapply Permutation_in; [apply Permutation_sym; exact HP|exact Hb].
  - exact Hab.
Qed.

(* ------------------------------------------------------------------ non-vacuity *)

Definition ex_tree : tree :=
  Node [114;111;111;116] None
    [Node [120] (Some 3) [Node [97] (Some 1) []; Node [98] (Some 2) []];
     Node [121] (Some 6) [Node [99] (Some 4) []; Node [100] (Some 5) []; Node [101] (Some 7) []]].

Example ex_hyps :
  (2 <= length (kids ex_tree))%nat /\ NoDup (tips ex_tree) /\ pos_lens ex_tree = true /\
  has_lens ex_tree = true /\ nonneg_lens ex_tree = true /\ In [97] (tips ex_tree) /\ In [100] (tips ex_tree).
Proof.
  split; [cbn; lia|]. split. { cbn. repeat constructor; cbn; intuition discriminate. }
  repeat split; try reflexivity; cbn; tauto.
Qed.

Example ex_rooted_at : exists r, rooted_at ex_tree [121] = Ok r /\ pathlen 1 r [97] [100] = 15 /\ pathlen 1 ex_tree [97] [100] = 15.
Proof. eexists. split; [vm_compute; reflexivity|]. split; reflexivity. Qed.

Example ex_rooted_with_tip : exists r, rooted_with_tip ex_tree [97] = Ok r /\ pathlen 1 r [98] [101] = 18.
Proof. eexists. split; [vm_compute; reflexivity|]. reflexivity. Qed.

Example ex_sub_tree : exists r, get_sub_tree_v true ex_tree [[97]; [99]; [100]] false false true = Ok r
  /\ tips r = [[97]; [99]; [100]] /\ pathlen 1 r [97] [100] = 15.
Proof. eexists. split; [vm_compute; reflexivity|]. split; reflexivity. Qed.

Example ex_wnonneg : wnonneg 1 ex_tree.
Proof. apply nonneg_lens_wnonneg. reflexivity. Qed.

(** root_at_midpoint on the example: the largest distance is d(b,e) = 2+3+6+7 = 18, the midpoint
    lies inside the edge above y; lengths of the result are in doubled units *)
Example ex_midpoint : exists r o, root_at_midpoint true ex_tree = Ok (r, o) /\ ~ In [] (tips ex_tree) /\
  pathlen 2 r [98] [101] = 36 /\ pathlen 2 r [97] [100] = 30 /\ o = double ex_tree.
Proof.
  eexists. eexists. split; [vm_compute; reflexivity|].
  split; [cbn; intuition discriminate|]. repeat split; reflexivity.
Qed.

Example ex_bifurcating : tips (bifurcating ex_tree) = tips ex_tree /\ no_unary (bifurcating ex_tree) = true
  /\ length (kids (nth 1 (kids (bifurcating ex_tree)) ex_tree)) = 2%nat.
Proof. repeat split; reflexivity. Qed.

(* ------------------------------------------------------------------ writers refuted *)

(** the PINNED JSON writer emits names unescaped: (a:1,'b,c':2,d:3) — a tree the repaired writer
    round-trips ([rt_ok_json]) — reads back with FOUR tips and the lengths of "b,c" lost *)
Definition ex_json_tree : tree :=
  Node [114;111;111;116] None [Node [97] (Some 1) []; Node [98;44;99] (Some 2) []; Node [100] (Some 3) []].

Theorem json_current_refuted : exists t t',
  rt_ok_json t = true /\ json_roundtrip t = Ok t' /\ t' <> t /\ length (tips t') <> length (tips t).
Proof.
  exists ex_json_tree. eexists. split; [reflexivity|]. split; [vm_compute; reflexivity|].
  split; [discriminate|]. cbn. discriminate.
Qed.

(** the newick reader cannot tell a label from a punctuation token with the same spelling: the tree
    (',':1,b:2) is written as (',':1,b:2); and silently read back with three tips *)
Definition ex_comma_tree : tree :=
  Node [114;111;111;116] None [Node [44] (Some 1) []; Node [98] (Some 2) []].

Theorem newick_punctuation_label_refuted : exists t t',
  newick_roundtrip true t = Ok t' /\ t' <> t /\ length (tips t') <> length (tips t) /\
  NoDup (map tname (nodes t)).
Proof.
  exists ex_comma_tree. eexists. split; [vm_compute; reflexivity|].
  split; [discriminate|]. split; [cbn; discriminate|].
  cbn. repeat constructor; cbn; intuition discriminate.
Qed.
