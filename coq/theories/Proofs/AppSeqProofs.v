(** C16 — end to end on the app-level sequence: composition of the wrapper
    theorems with the initialisation theorems *)
From CG3 Require Import Lib.PyZ Lib.Semiring Model.Optim Model.Nested Model.AppSeq
  Spec.OptimSpec Spec.NestedSpec Proofs.OptimProofs Proofs.NestedProofs.

(** the pinned order: a time-heterogeneous alternate is initialised as the
    time-heterogeneous function, so the nfp assertion compares the right numbers *)
Lemma pinned_order_initialises_lemma nfp_null a project n x :
  nfp_het a = Some n -> nfp_null < n -> project true = MOk x ->
  configure true true nfp_null a project = (x, Initialised, n).
Proof.
  intros Hn Hlt Hp. unfold configure, nfp_final. rewrite Hn. cbn [negb].
  replace (n <=? nfp_null) with false by lia. rewrite Hp. reflexivity.
Qed.

(** the other order with an alternate that differs from the null only by
    time heterogeneity: the assertion fails, the exception is swallowed, the
    alternate starts from defaults *)
Lemma wrong_order_swallowed_lemma nfp_null a project n :
  nfp_het a = Some n -> nfp_homog a <= nfp_null ->
  configure false true nfp_null a project = (x_default a, Swallowed 9, nfp_homog a).
Proof.
  intros Hn Hle. unfold configure. rewrite Hn. cbn [negb].
  replace (nfp_homog a <=? nfp_null) with true by lia. reflexivity.
Qed.

(** lf.optimise for every limit_action and every way the run can end: whether it
    returns, warns or raises, the function is left at a within-bounds vector
    whose value is not lower than the start value; only a crash of the
    optimiser or of f makes it raise something else than ArithmeticError *)
Lemma fit_never_worse_lemma f maxev b local limit_action x0 g l res st o bf bx n seen :
  fit f maxev b local limit_action x0 g l = (res, st, Ran o bf bx n seen) ->
  st = Some bx /\ in_bounds b bx = true /\
  (exists v0, f x0 = Fin v0 /\ f bx = bf /\ at_least bf v0) /\
  (o = Done -> res = LfReturns) /\
  (forall k, o = Limit k ->
     res = (if limit_action =? 0 then LfReturns else if limit_action =? 1 then LfWarns else LfRaisesArith)) /\
  (o = Crashed -> res = LfRaisesOther).
Proof.
  unfold fit. destruct (maximise f maxev b local x0 g l) as [fin s] eqn:E.
  intros H. inversion H; subst. clear H.
  split; [eapply left_at_best_lemma; eauto|].
  split; [eapply within_bounds_lemma; eauto|].
  split; [eapply never_worse_lemma; eauto|].
  repeat split; intros; subst; reflexivity.
Qed.

(** END TO END: if initialise_from_nested succeeded and reproduced the null's lnL,
    then for every optimiser, evaluation limit and limit_action the alternate's
    likelihood function ends at a vector with LR >= 0 *)
Lemma hypothesis_LR_nonneg_lemma ord nfp_null a project f_alt maxev b local limit_action g l
      lnl_null x0 nfpi res st o bf bx n seen :
  configure ord true nfp_null a project = (x0, Initialised, nfpi) ->
  f_alt x0 = Fin lnl_null ->
  fit f_alt maxev b local limit_action x0 g l = (res, st, Ran o bf bx n seen) ->
  st = Some bx /\ in_bounds b bx = true /\
  (f_alt bx = PInf \/ exists z, f_alt bx = Fin z /\ 0 <= LR z lnl_null).
Proof.
  intros _ Hstart Hfit.
  destruct (fit_never_worse_lemma _ _ _ _ _ _ _ _ _ _ _ _ _ _ _ Hfit) as [Hst [Hb [[v0 [Fx [Fb Hal]]] _]]].
  split; auto. split; auto. rewrite Hstart in Fx. inversion Fx; subst v0.
  rewrite Fb. destruct Hal as [-> | [z [-> Hz]]]; [left; auto|]. right. exists z. split; auto. unfold LR. lia.
Qed.

(** initialisation is exact when the likelihood depends on the parameters only
    through the rate matrix cells: projection_exact lifted to lnL *)
Lemma init_exact_from_projection_lemma (A : Type) (m : cm_ops A) (M : cm_laws m)
      (L : (cell -> A) -> fv) ex rich simple (theta : name -> A) :
  (forall r1 r2, (forall c, r1 c = r2 c) -> L r1 = L r2) ->
  NoDup (map fst rich) -> nested_ok ex rich simple = true ->
  L (rate m rich (theta' m ex rich simple theta)) = L (rate m simple theta).
Proof.
  intros Lext ND OK. apply Lext. intros c. apply projection_exact_lemma; auto.
Qed.

Lemma nested_hypothesis_LR_nonneg_lemma (A : Type) (m : cm_ops A) (M : cm_laws m)
      (L : (cell -> A) -> fv) ex rich simple (theta : name -> A)
      ord nfp_null a project f_alt maxev b local limit_action g l lnl_null x0 nfpi res st o bf bx n seen :
  (forall r1 r2, (forall c, r1 c = r2 c) -> L r1 = L r2) ->
  NoDup (map fst rich) -> nested_ok ex rich simple = true ->
  L (rate m simple theta) = Fin lnl_null ->                                   (* the fitted null *)
  f_alt x0 = L (rate m rich (theta' m ex rich simple theta)) ->              (* the alternate right after initialisation *)
  configure ord true nfp_null a project = (x0, Initialised, nfpi) ->
  fit f_alt maxev b local limit_action x0 g l = (res, st, Ran o bf bx n seen) ->
  st = Some bx /\ in_bounds b bx = true /\
  (f_alt bx = PInf \/ exists z, f_alt bx = Fin z /\ 0 <= LR z lnl_null).
Proof.
  intros Lext ND OK Hnull Hstart Hcfg Hfit.
  eapply hypothesis_LR_nonneg_lemma; eauto.
  rewrite Hstart, (init_exact_from_projection_lemma A m M L ex rich simple theta Lext ND OK). exact Hnull.
Qed.

(** a swallowed exception breaks the guarantee: a concrete run with LR < 0
    (start from defaults with lnL 3, the null has lnL 10, the optimiser stops at once) *)
Lemma swallowed_init_negative_LR_witness :
  let f := fun x : point => match x with [0] => Fin 3 | _ => Fin 0 end in
  let a := mkalt 6 (Some 10) [0] in
  exists res st o bf bx n seen,
    alt_step false true 6 a (fun _ => MOk [5]) f None NoBounds (Some true) 0 [] []
    = (Swallowed 9, (res, st, Ran o bf bx n seen)) /\ bf = Fin 3 /\ LR 3 10 < 0.
Proof.
  intros f a. vm_compute. do 7 eexists. split; [reflexivity|]. split; [reflexivity|]. reflexivity.
Qed.

(** * bins > 1 *)
From CG3 Require Import Model.NestedBins.

Lemma bins_refused_lemma nb1 nb2 nl1 nl2 me ne : nb1 <> 1 \/ nb1 <> nb2 -> compatible nb1 nb2 nl1 nl2 me ne = MErr 7.
Proof.
  intros H. unfold compatible.
  destruct (nb1 =? 1) eqn:E1; cbn [negb orb]; auto.
  destruct (nb1 =? nb2) eqn:E2; cbn [negb orb]; auto. lia.
Qed.

(** were the guard removed, update_scoped_rules would confuse the bins: two
    rules of one parameter on different bins have the same key, and the
    dictionary of _get_keyed_rule_indices keeps only the last *)
Lemma bin_rules_collide_witness :
  let r0 := mkbrule [114;97;116;101] None (Some [[48]]) 1 in     (* "rate", bin "0" *)
  let r1 := mkbrule [114;97;116;101] None (Some [[49]]) 3 in     (* "rate", bin "1" *)
  key_eqb (forget_bins r0) (forget_bins r1) = true /\
  dedup_last (map forget_bins [r0; r1]) = [forget_bins r1].
Proof. split; vm_compute; reflexivity. Qed.
