(** C16 — proofs about the parameter projection between nested models *)
From Coq Require Import Permutation.
From CG3 Require Import Lib.PyZ Lib.Semiring Model.Nested Spec.NestedSpec.

(** * boolean equalities *)

Lemma name_eqb_eq a : forall b, name_eqb a b = true -> a = b.
Proof.
  induction a as [|x a IH]; intros [|y b]; simpl; intros H; try discriminate; auto.
  apply andb_prop in H. destruct H as [H1 H2]. apply Z.eqb_eq in H1. subst. f_equal. auto.
Qed.

Lemma name_eqb_refl a : name_eqb a a = true.
Proof. induction a as [|x a IH]; simpl; auto. rewrite Z.eqb_refl, IH. reflexivity. Qed.

Lemma cell_eqb_eq a b : cell_eqb a b = true -> a = b.
Proof.
  unfold cell_eqb. destruct a as [a1 a2], b as [b1 b2]; simpl. intros H.
  apply andb_prop in H. destruct H as [H1 H2]. apply Z.eqb_eq in H1. apply Z.eqb_eq in H2. subst. reflexivity.
Qed.

Lemma cell_eqb_refl a : cell_eqb a a = true.
Proof. unfold cell_eqb. rewrite !Z.eqb_refl. reflexivity. Qed.

Lemma mem_cell_In c l : mem_cell c l = true <-> In c l.
Proof.
  unfold mem_cell. rewrite existsb_exists. split.
  - intros [x [Hx E]]. apply cell_eqb_eq in E. subst. auto.
  - intros H. exists c. split; auto. apply cell_eqb_refl.
Qed.

(** * the permutation test *)

Lemma remove_one_perm x : forall l l', remove_one x l = Some l' -> Permutation l (x :: l').
Proof.
  induction l as [|y t IH]; simpl; intros l' H; [discriminate|].
  destruct (name_eqb x y) eqn:E.
  - inversion H; subst. apply name_eqb_eq in E. subst. apply Permutation_refl.
  - destruct (remove_one x t) as [t'|] eqn:R; [|discriminate]. inversion H; subst.
    eapply perm_trans; [apply perm_skip, IH; reflexivity | apply perm_swap].
Qed.

Lemma is_perm_sound : forall l1 l2, is_perm l1 l2 = true -> Permutation l1 l2.
Proof.
  induction l1 as [|x t IH]; simpl; intros l2 H.
  - destruct l2; [apply perm_nil | discriminate].
  - destruct (remove_one x l2) as [l2'|] eqn:R; [|discriminate].
    apply Permutation_sym. eapply perm_trans; [apply remove_one_perm; eauto|].
    apply perm_skip. apply Permutation_sym. auto.
Qed.

(** * the precomputed table *)

Lemma mapped_names_tbl_map (P : list cell -> pick) c : forall l,
  mapped_names_tbl (map (fun r => (r, P (snd r))) l) c
  = flat_map (fun p => names_of_pick (P (snd p))) (filter (covers c) l).
Proof.
  unfold mapped_names_tbl. induction l as [|p l IH]; simpl; auto.
  destruct (covers c p); simpl; rewrite IH; reflexivity.
Qed.

Lemma mapped_names_tbl_eq ex rich simple c :
  mapped_names_tbl (pick_table ex rich simple) c = mapped_names ex rich simple c.
Proof. unfold pick_table, mapped_names. apply mapped_names_tbl_map. Qed.

(** * association list lookup under distinct names *)

Lemma coords_of_In : forall (cs : coords) p,
  NoDup (map fst cs) -> In p cs -> coords_of (fst p) cs = snd p.
Proof.
  induction cs as [|[k v] t IH]; simpl; intros p ND Hin; [destruct Hin|].
  inversion ND as [|? ? Hnot ND']; subst.
  destruct Hin as [<- | Hin].
  - simpl. rewrite name_eqb_refl. reflexivity.
  - destruct (name_eqb k (fst p)) eqn:E.
    + apply name_eqb_eq in E. subst k. exfalso. apply Hnot. apply in_map. auto.
    + apply IH; auto.
Qed.

Lemma filter_none {X} (f : X -> bool) l : (forall x, In x l -> f x = false) -> filter f l = [].
Proof.
  induction l as [|x l IH]; simpl; intros H; auto.
  rewrite (H x) by auto. apply IH. intros; apply H; auto.
Qed.

Lemma not_in_universe_l c rich simple p :
  mem_cell c (universe rich simple) = false -> In p rich -> covers c p = false.
Proof.
  intros Hu Hin. unfold covers. destruct (mem_cell c (snd p)) eqn:E; [|apply andb_false_r].
  exfalso. apply mem_cell_In in E.
  assert (In c (universe rich simple)).
  { unfold universe. apply in_or_app. left. apply in_flat_map. exists p. auto. }
  apply mem_cell_In in H. congruence.
Qed.

Lemma not_in_universe_r c rich simple p :
  mem_cell c (universe rich simple) = false -> In p simple -> covers c p = false.
Proof.
  intros Hu Hin. unfold covers. destruct (mem_cell c (snd p)) eqn:E; [|apply andb_false_r].
  exfalso. apply mem_cell_In in E.
  assert (In c (universe rich simple)).
  { unfold universe. apply in_or_app. right. apply in_flat_map. exists p. auto. }
  apply mem_cell_In in H. congruence.
Qed.

Section Exact.
  Variable A : Type.
  Variable m : cm_ops A.
  Hypothesis M : cm_laws m.

  Lemma big_op_names_of_pick ex rich simple (theta : name -> A) rc :
    big_op m theta (names_of_pick (pick_simple ex rich simple rc)) = projected m ex rich simple theta rc.
  Proof.
    unfold projected, names_of_pick.
    destruct (pick_simple ex rich simple rc) as [| |s]; simpl; auto.
    destruct (name_eqb s ref_cell); simpl; auto. apply (cm_unit_r M).
  Qed.

  (** the rate of a cell in the initialised rich model, as a product over the
      simple parameters its covering rich parameters were initialised from *)
  Lemma rate_rich_mapped ex rich simple (theta : name -> A) c :
    NoDup (map fst rich) ->
    rate m rich (theta' m ex rich simple theta) c = big_op m theta (mapped_names ex rich simple c).
  Proof.
    intros ND. unfold rate, covering, mapped_names.
    rewrite big_op_map, (big_op_flat_map M).
    apply big_op_ext. intros p Hp. apply filter_In in Hp. destruct Hp as [Hp _].
    unfold theta'. rewrite (coords_of_In rich p ND Hp). symmetry. apply big_op_names_of_pick.
  Qed.

  Theorem projection_exact_lemma ex rich simple :
    NoDup (map fst rich) -> nested_ok ex rich simple = true ->
    forall (theta : name -> A) c, rate m rich (theta' m ex rich simple theta) c = rate m simple theta c.
  Proof.
    intros ND OK theta c. rewrite rate_rich_mapped by auto.
    unfold nested_ok in OK. apply andb_prop in OK. destruct OK as [_ OK].
    destruct (mem_cell c (universe rich simple)) eqn:U.
    - apply mem_cell_In in U. rewrite forallb_forall in OK. specialize (OK c U).
      rewrite mapped_names_tbl_eq in OK. apply is_perm_sound in OK.
      unfold rate. apply (big_op_perm M). auto.
    - unfold rate, mapped_names, covering.
      rewrite (filter_none (covers c) rich) by (intros; eapply not_in_universe_l; eauto).
      rewrite (filter_none (covers c) simple) by (intros; eapply not_in_universe_r; eauto).
      reflexivity.
  Qed.
End Exact.

(** nested_ok also excludes the ValueError of _get_param_mapping *)
Lemma nested_ok_no_tie ex rich simple :
  nested_ok ex rich simple = true -> zlen simple <= zlen rich ->
  exists mp, param_mapping ex rich simple = MOk mp.
Proof.
  intros OK Hlen. unfold nested_ok in OK. apply andb_prop in OK. destruct OK as [T _].
  unfold param_mapping. destruct (zlen rich <? zlen simple) eqn:L; [lia|].
  apply negb_true_iff in T. rewrite T. eauto.
Qed.

(** * non-vacuity: HKY85 within GTR (coordinates as cogent3 reports them) *)
Definition zs_AC : name := [65;47;67].
Definition zs_AG : name := [65;47;71].
Definition zs_AT : name := [65;47;84].
Definition zs_CG : name := [67;47;71].
Definition zs_CT : name := [67;47;84].
Definition zs_kappa : name := [107;97;112;112;97].

Definition gtr_coords : coords :=
  [(zs_AC, [(1,2);(2,1)]); (zs_AG, [(2,3);(3,2)]); (zs_AT, [(0,2);(2,0)]); (zs_CG, [(1,3);(3,1)]);
   (zs_CT, [(0,1);(1,0)]); (ref_cell, [(0,3);(3,0)])].
Definition hky_coords : coords :=
  [(zs_kappa, [(0,1);(1,0);(2,3);(3,2)]); (ref_cell, [(0,2);(0,3);(1,2);(1,3);(2,0);(2,1);(3,0);(3,1)])].

Example hky_in_gtr_nested_ok :
  nested_ok false gtr_coords hky_coords = true /\ nested_ok true gtr_coords hky_coords = true /\
  NoDup (map fst gtr_coords).
Proof.
  split; [vm_compute; reflexivity|]. split; [vm_compute; reflexivity|].
  repeat constructor; simpl; intuition discriminate.
Qed.

(** an extra predicate inside two unchanged ones (the H04G -> H04GGK shape):
    rejected by the condition for the pinned rule, accepted for the fixed rule *)
Definition sh_simple : coords := [([1], [(0,1);(1,0)]); ([2], [(0,1);(0,2);(2,1)]); (ref_cell, [(2,0)])].
Definition sh_rich : coords := [([1], [(0,1);(1,0)]); ([2], [(0,1);(0,2);(2,1)]); ([3], [(0,1)]); (ref_cell, [(2,0)])].

Example extra_predicate_shape :
  nested_ok false sh_rich sh_simple = false /\ nested_ok true sh_rich sh_simple = true.
Proof. split; vm_compute; reflexivity. Qed.

(** * update_scoped_rules: what one scoped rule of the alternate receives *)

Lemma find_key_In r : forall l n, find_key r l = Some n -> In n l /\ key_eqb r n = true.
Proof.
  induction l as [|x t IH]; simpl; intros n H; [discriminate|].
  destruct (key_eqb r x) eqn:E.
  - inversion H; subst. auto.
  - destruct (IH n H). auto.
Qed.

(** the nested rule a scoped rich rule takes its value from *)
Definition overlaps (r n : rule) (es : list name) : Prop :=
  r_par r = r_par n /\
  (r_edges n = None \/ exists ns, r_edges n = Some ns /\ names_meet ns es = true).

Lemma scope_matches_In r es rem n :
  r_edges r = Some es -> In n (scope_matches r rem) -> In n rem /\ overlaps r n es.
Proof.
  intros He Hin. unfold scope_matches in Hin. apply filter_In in Hin. destruct Hin as [Hin Hf].
  split; auto. apply andb_prop in Hf. destruct Hf as [Hp Hs]. apply name_eqb_eq in Hp.
  split; auto. rewrite He in Hs. destruct (r_edges n) as [ns|]; eauto.
Qed.

Lemma scoped_rule_inherits_lemma keep nulld null_rem r es out :
  r_edges r = Some es -> scoped_one keep nulld null_rem r = MOk out ->
  exists v, out = [mkrule (r_par r) (Some es) v] /\
    ((exists n, In n nulld /\ key_eqb r n = true /\ v = r_val n)
     \/ (exists n, In n null_rem /\ overlaps r n es /\ v = r_val n /\ scope_matches r null_rem = [n])
     \/ (keep = true /\ scope_matches r null_rem = [] /\ v = r_val r)).
Proof.
  intros He. unfold scoped_one.
  destruct (find_key r nulld) as [n|] eqn:F.
  - intros E; inversion E; subst. exists (r_val n). rewrite He. split; auto.
    left. exists n. destruct (find_key_In _ _ _ F). auto.
  - rewrite He.
    destruct (scope_matches r null_rem) as [|n [|n2 t]] eqn:S.
    + destruct keep; intros E; inversion E; subst.
      exists (r_val r). split; [destruct r; simpl in *; subst; reflexivity|]. right; right; auto.
    + intros E; inversion E; subst. exists (r_val n). split; auto. right; left.
      exists n. assert (Hin : In n (scope_matches r null_rem)) by (rewrite S; left; auto).
      destruct (scope_matches_In _ _ _ _ He Hin). auto.
    + intros E; inversion E.
Qed.

(** with the proposed fix C16-1 a scoped rule without counterpart is not an error *)
Lemma scoped_one_fixed_no_index_error nulld null_rem r : scoped_one true nulld null_rem r <> MErr 1.
Proof.
  unfold scoped_one. destruct (find_key r nulld); [discriminate|].
  destruct (r_edges r) as [es|].
  - destruct (scope_matches r null_rem) as [|n [|n2 t]]; discriminate.
  - induction (scope_matches r null_rem) as [|n t IH]; simpl; [discriminate|].
    destruct (r_edges n); [|discriminate].
    destruct (extend_rule_value r t) as [a|c]; [discriminate|]. intros E; inversion E; subst. auto.
Qed.

(** the pinned code does raise it: a scoped rule of the alternate whose
    parameter the nested model does not have (GTR's A/C on an edge set against
    HKY85's kappa on the same edge set) *)
Lemma scoped_pinned_index_error_witness :
  update_scoped_rules false [mkrule [1] (Some [[10]]) 1] [mkrule [2] (Some [[10]]) 2] = MErr 1 /\
  update_scoped_rules true [mkrule [1] (Some [[10]]) 1] [mkrule [2] (Some [[10]]) 2] = MOk [mkrule [1] (Some [[10]]) 1].
Proof. split; vm_compute; reflexivity. Qed.

(** * the pinned smallest-superset rule is not exact on "simple + extra predicate" *)
Definition zmul : cm_ops Z := mk_cm Z.mul 1.

Lemma zmul_laws : cm_laws zmul.
Proof.
  constructor; simpl; intros.
  - apply Z.mul_comm.
  - apply Z.mul_assoc.
  - apply Z.mul_1_l.
Qed.

Definition sh_theta (n : name) : Z := if name_eqb n [1] then 2 else if name_eqb n [2] then 3 else 1.

Lemma pinned_rule_not_exact_witness :
  rate zmul sh_rich (theta' zmul false sh_rich sh_simple sh_theta) (0, 1) <> rate zmul sh_simple sh_theta (0, 1) /\
  rate zmul sh_rich (theta' zmul true sh_rich sh_simple sh_theta) (0, 1) = rate zmul sh_simple sh_theta (0, 1).
Proof. split; vm_compute; [intros H; discriminate H | reflexivity]. Qed.

(** * update_param_rules (same = True) assigns exactly [theta'] *)

Lemma name_eqb_sym a b : name_eqb a b = name_eqb b a.
Proof.
  destruct (name_eqb a b) eqn:E1, (name_eqb b a) eqn:E2; auto.
  - apply name_eqb_eq in E1. subst. rewrite name_eqb_refl in E2. discriminate.
  - apply name_eqb_eq in E2. subst. rewrite name_eqb_refl in E1. discriminate.
Qed.

Lemma mem_name_In n l : mem_name n l = true <-> In n l.
Proof.
  unfold mem_name. rewrite existsb_exists. split.
  - intros [x [Hx E]]. apply name_eqb_eq in E. subst. auto.
  - intros H. exists n. split; auto. apply name_eqb_refl.
Qed.

Lemma lookup_rule_app n a b :
  lookup_rule n (a ++ b) = match lookup_rule n a with Some v => Some v | None => lookup_rule n b end.
Proof. induction a as [|r a IH]; simpl; auto. destruct (name_eqb (r_par r) n); auto. Qed.

Lemma lookup_rule_map n e v l :
  lookup_rule n (map (fun rp => mkrule rp e v) l) = if mem_name n l then Some v else None.
Proof.
  induction l as [|x l IH]; simpl; auto.
  rewrite (name_eqb_sym n x). destruct (name_eqb x n); simpl; auto.
Qed.

Lemma mem_name_filter n f l :
  (forall x, name_eqb n x = true -> f x = f n) ->
  mem_name n (filter f l) = f n && mem_name n l.
Proof.
  intros Hf. induction l as [|x l IH]; simpl.
  - rewrite andb_false_r. reflexivity.
  - destruct (f x) eqn:Fx; simpl.
    + rewrite IH. destruct (name_eqb n x) eqn:E; simpl.
      * rewrite <- (Hf x E), Fx. reflexivity.
      * reflexivity.
    + rewrite IH. destruct (name_eqb n x) eqn:E; simpl; auto.
      rewrite <- (Hf x E), Fx. reflexivity.
Qed.

(** names of the rich parameters whose chosen simple parameter is [k] *)
Definition chosen_names (tbl : list ((name * list cell) * pick)) (k : name) : list name :=
  map (fun rp => fst (fst rp)) (filter (fun rp => chosen_is k (snd rp)) tbl).

Lemma lookup_map_chosen tbl k : forall (simple : coords),
  In k (map fst simple) ->
  lookup_map k (map (fun s => (fst s, chosen_names tbl (fst s))) simple) = chosen_names tbl k.
Proof.
  induction simple as [|[k0 v0] t IH]; simpl; intros Hin; [destruct Hin|].
  destruct (name_eqb k0 k) eqn:E.
  - apply name_eqb_eq in E. subst. reflexivity.
  - destruct Hin as [-> | Hin]; [rewrite name_eqb_refl in E; discriminate|]. auto.
Qed.

Lemma chosen_names_mem ex rich simple k n rc :
  NoDup (map fst rich) -> In (n, rc) rich ->
  mem_name n (chosen_names (pick_table ex rich simple) k) = chosen_is k (pick_simple ex rich simple rc).
Proof.
  intros ND Hin. unfold chosen_names, pick_table.
  set (P := pick_simple ex rich simple).
  assert (G : forall l, (forall p, In p l -> In p rich) ->
            mem_name n (map (fun rp => fst (fst rp)) (filter (fun rp => chosen_is k (snd rp)) (map (fun r => (r, P (snd r))) l)))
            = existsb (fun p => name_eqb n (fst p) && chosen_is k (P (snd p))) l).
  { induction l as [|p l IH]; intros Hl; simpl; auto.
    destruct (chosen_is k (P (snd p))) eqn:C; simpl.
    - rewrite IH by (intros; apply Hl; right; auto). rewrite andb_true_r. reflexivity.
    - rewrite IH by (intros; apply Hl; right; auto). rewrite andb_false_r. reflexivity. }
  rewrite G by auto.
  destruct (chosen_is k (P rc)) eqn:C.
  - apply existsb_exists. exists (n, rc). split; auto. simpl. rewrite name_eqb_refl, C. reflexivity.
  - destruct (existsb _ rich) eqn:Ex; auto. apply existsb_exists in Ex. destruct Ex as [p [Hp Hc]].
    apply andb_prop in Hc. destruct Hc as [Hn Hc]. apply name_eqb_eq in Hn.
    pose proof (coords_of_In rich p ND Hp) as C1. pose proof (coords_of_In rich (n, rc) ND Hin) as C2.
    simpl in C2. rewrite <- Hn, C2 in C1. rewrite <- C1 in Hc. congruence.
Qed.

Lemma param_mapping_shape ex rich simple pm :
  param_mapping ex rich simple = MOk pm ->
  pm = map (fun s => (fst s, chosen_names (pick_table ex rich simple) (fst s))) simple.
Proof.
  unfold param_mapping. destruct (zlen rich <? zlen simple); [discriminate|].
  destruct (existsb _ _); [discriminate|]. intros E; inversion E. reflexivity.
Qed.

Theorem projected_rules_assign_lemma ex rich simple pm rules n rc :
  param_mapping ex rich simple = MOk pm ->
  NoDup (map fst rich) ->
  (forall r, In r rules -> In (r_par r) (map fst simple) /\
                           name_eqb (r_par r) n_mprobs || name_eqb (r_par r) n_length = false) ->
  In (n, rc) rich -> name_eqb n ref_cell = false -> rc <> [] ->
  lookup_rule n (update_param_rules_same rich pm rules)
  = match pick_simple ex rich simple rc with PChosen s => lookup_rule s rules | _ => None end.
Proof.
  intros Hpm ND Hrules Hin Hnref Hrc.
  apply param_mapping_shape in Hpm. subst pm.
  pose proof (coords_of_In rich (n, rc) ND Hin) as Hco. simpl in Hco.
  induction rules as [|r t IH].
  - simpl. destruct (pick_simple ex rich simple rc); reflexivity.
  - destruct (Hrules r (or_introl eq_refl)) as [Hsim Hnot].
    assert (IH' := IH (fun r' H' => Hrules r' (or_intror H'))). clear IH.
    unfold update_param_rules_same in *. cbn [flat_map]. rewrite Hnot.
    rewrite lookup_rule_app, IH'. clear IH'.
    unfold rate_same. rewrite map_map. cbn [fst snd]. rewrite lookup_rule_map.
    rewrite lookup_map_chosen by auto.
    rewrite mem_name_filter.
    2:{ intros x E. apply name_eqb_eq in E. subst. reflexivity. }
    rewrite Hnref, Hco. cbn [negb andb].
    replace (match rc with [] => true | _ => false end) with false by (destruct rc; [congruence|reflexivity]).
    cbn [negb andb].
    rewrite (chosen_names_mem ex rich simple (r_par r) n rc ND Hin).
    cbn [lookup_rule].
    destruct (pick_simple ex rich simple rc) as [| |s]; cbn [chosen_is]; auto.
    rewrite (name_eqb_sym s (r_par r)). destruct (name_eqb (r_par r) s); reflexivity.
Qed.

(** * end to end on the model functions, integer values *)
Theorem init_rates_exact_lemma ex rich simple pm rules :
  param_mapping ex rich simple = MOk pm ->
  nested_ok ex rich simple = true ->
  NoDup (map fst rich) ->
  (forall r, In r rules -> In (r_par r) (map fst simple) /\
                           name_eqb (r_par r) n_mprobs || name_eqb (r_par r) n_length = false) ->
  lookup_rule ref_cell rules = None ->
  forall c, rate zmul rich (theta_from (update_param_rules_same rich pm rules)) c
            = rate zmul simple (theta_from rules) c.
Proof.
  intros Hpm OK ND Hrules Href c.
  rewrite <- (projection_exact_lemma Z zmul zmul_laws ex rich simple ND OK (theta_from rules) c).
  unfold rate. apply big_op_ext. intros n Hn.
  unfold covering in Hn. apply in_map_iff in Hn. destruct Hn as [[n' rc] [<- Hp]].
  apply filter_In in Hp. destruct Hp as [Hin Hc]. unfold covers in Hc. simpl in Hc.
  apply andb_prop in Hc. destruct Hc as [Hnr Hmem]. apply negb_true_iff in Hnr.
  assert (Hrc : rc <> []) by (intros ->; discriminate Hmem).
  simpl. unfold theta_from at 1.
  rewrite (projected_rules_assign_lemma ex rich simple pm rules n' rc Hpm ND Hrules Hin Hnr Hrc).
  pose proof (coords_of_In rich (n', rc) ND Hin) as Hco. simpl in Hco.
  unfold theta', projected. rewrite Hco. simpl.
  destruct (pick_simple ex rich simple rc) as [| |s]; auto.
  destruct (name_eqb s ref_cell) eqn:E.
  - apply name_eqb_eq in E. subst. rewrite Href. reflexivity.
  - reflexivity.
Qed.

(** * update_scoped_rules as a whole: every (parameter, edge) of a scoped rule
    of the alternate receives the value the nested model has there *)

Lemma value_at_app a b p e :
  value_at (a ++ b) p e = match value_at a p e with Some v => Some v | None => value_at b p e end.
Proof. induction a as [|r a IH]; simpl; auto. destruct (_ && _); auto. Qed.

Lemma value_at_none_par a p e : (forall x, In x a -> name_eqb (r_par x) p = false) -> value_at a p e = None.
Proof.
  induction a as [|r a IH]; simpl; intros H; auto.
  rewrite (H r) by auto. simpl. apply IH. intros; apply H; auto.
Qed.

Lemma value_at_some_In rules p e v :
  value_at rules p e = Some v -> exists n, In n rules /\ r_par n = p /\ covers_edge n e = true /\ r_val n = v.
Proof.
  induction rules as [|r t IH]; simpl; intros H; [discriminate|].
  destruct (name_eqb (r_par r) p && match r_edges r with None => true | Some es => mem_name e es end) eqn:E.
  - inversion H; subst. apply andb_prop in E. destruct E as [E1 E2]. apply name_eqb_eq in E1.
    exists r. repeat split; auto.
  - destruct (IH H) as [n [Hn Hr]]. exists n. split; auto.
Qed.

Lemma names_subset_mem a b x : names_subset a b = true -> mem_name x a = true -> mem_name x b = true.
Proof.
  unfold names_subset. rewrite forallb_forall. intros H Hx. apply mem_name_In in Hx. auto.
Qed.

Lemma names_meet_intro ns es x : mem_name x ns = true -> mem_name x es = true -> names_meet ns es = true.
Proof.
  intros H1 H2. unfold names_meet. apply existsb_exists. exists x. split; auto. apply mem_name_In; auto.
Qed.

Lemma key_eqb_sym a b : key_eqb a b = key_eqb b a.
Proof.
  unfold key_eqb, names_seteq. rewrite (name_eqb_sym (r_par a)).
  rewrite (andb_comm (names_subset (edges_list a) (edges_list b))). reflexivity.
Qed.

Lemma find_key_complete r n : forall l, In n l -> key_eqb r n = true -> find_key r l <> None.
Proof.
  induction l as [|x t IH]; simpl; intros Hin Hk; [destruct Hin|].
  destruct (key_eqb r x) eqn:E; [discriminate|].
  destruct Hin as [-> | Hin]; [congruence|]. auto.
Qed.

Lemma extend_rule_value_par r : forall ms out, extend_rule_value r ms = MOk out ->
  forall x, In x out -> r_par x = r_par r.
Proof.
  induction ms as [|n t IH]; simpl; intros out H x Hx.
  - inversion H; subst. destruct Hx.
  - destruct (r_edges n) as [es|]; [|discriminate].
    destruct (extend_rule_value r t) as [rest|c]; [|discriminate]. inversion H; subst.
    apply in_app_or in Hx. destruct Hx as [Hx | Hx].
    + apply in_map_iff in Hx. destruct Hx as [e' [<- _]]. reflexivity.
    + eapply IH; eauto.
Qed.

Lemma scoped_one_par keep nd nr r out : scoped_one keep nd nr r = MOk out -> forall x, In x out -> r_par x = r_par r.
Proof.
  unfold scoped_one. destruct (find_key r nd) as [n|].
  - intros E x Hx; inversion E; subst. destruct Hx as [<- | []]. reflexivity.
  - destruct (r_edges r) as [es|].
    + destruct (scope_matches r nr) as [|n [|n2 t]].
      * destruct keep; intros E x Hx; inversion E; subst. destruct Hx as [<- | []]. reflexivity.
      * intros E x Hx; inversion E; subst. destruct Hx as [<- | []]. reflexivity.
      * discriminate.
    + apply extend_rule_value_par.
Qed.

Lemma rule_eq_dec (a b : rule) : {a = b} + {a <> b}.
Proof. decide equality; [apply Z.eq_dec | decide equality; apply (list_eq_dec (list_eq_dec Z.eq_dec)) | apply (list_eq_dec Z.eq_dec)]. Qed.

(** the output for [r] is found by [value_at] when no other rule of the
    alternate for that parameter covers the edge *)
Lemma scoped_all_value keep nd nr r es e v0 : forall rs new,
  scoped_all keep nd nr rs = MOk new ->
  In r rs -> r_edges r = Some es -> mem_name e es = true ->
  (forall r', In r' rs -> r' <> r -> r_par r' = r_par r ->
              exists es', r_edges r' = Some es' /\ es' <> [] /\ mem_name e es' = false) ->
  scoped_one keep nd nr r = MOk [mkrule (r_par r) (Some es) v0] ->
  value_at new (r_par r) e = Some v0.
Proof.
  induction rs as [|h t IH]; intros new Hall Hin He Hmem Hothers Hone; [destruct Hin|].
  cbn [scoped_all] in Hall.
  destruct (scoped_one keep nd nr h) as [a|c] eqn:Eh; [|discriminate].
  destruct (scoped_all keep nd nr t) as [b|c] eqn:Et; [|discriminate].
  inversion Hall; subst new. rewrite value_at_app.
  destruct (rule_eq_dec h r) as [-> | Hneq].
  - rewrite Hone in Eh. inversion Eh; subst a. simpl. rewrite name_eqb_refl, Hmem. reflexivity.
  - assert (Ha : value_at a (r_par r) e = None).
    { destruct (name_eqb (r_par h) (r_par r)) eqn:Ep.
      - apply name_eqb_eq in Ep.
        destruct (Hothers h (or_introl eq_refl) Hneq Ep) as [es' [He' [Hne Hno]]].
        destruct (scoped_rule_inherits_lemma _ _ _ _ _ _ He' Eh) as [v' [-> _]].
        simpl. rewrite Hno, andb_false_r. reflexivity.
      - apply value_at_none_par. intros x Hx. rewrite (scoped_one_par _ _ _ _ _ Eh x Hx). exact Ep. }
    rewrite Ha. destruct Hin as [-> | Hin]; [congruence|].
    eapply IH; eauto. intros; apply Hothers; auto. right; auto.
Qed.

Lemma scoped_all_err keep nd nr r c : forall rs new,
  In r rs -> scoped_one keep nd nr r = MErr c -> scoped_all keep nd nr rs = MOk new -> False.
Proof.
  induction rs as [|h t IH]; intros new Hin Eone; [destruct Hin|].
  cbn [scoped_all]. destruct Hin as [-> | Hin].
  - rewrite Eone. discriminate.
  - destruct (scoped_one keep nd nr h) as [a|c1]; [|discriminate].
    destruct (scoped_all keep nd nr t) as [b|c2] eqn:Et; [|discriminate].
    intros _. exact (IH b Hin Eone eq_refl).
Qed.

Theorem scope_exact_lemma keep rich null new r es e v :
  update_scoped_rules keep rich null = MOk new ->
  dedup_last rich = rich -> dedup_last null = null ->
  In r rich -> r_edges r = Some es -> mem_name e es = true ->
  (forall r', In r' rich -> r' <> r -> r_par r' = r_par r ->
              exists es', r_edges r' = Some es' /\ es' <> [] /\ mem_name e es' = false) ->
  (forall n ns, In n null -> r_par n = r_par r -> r_edges n = Some ns -> names_meet ns es = true ->
                mem_name e ns = true) ->
  (forall n, In n null -> r_par n = r_par r -> covers_edge n e = true -> r_val n = v) ->
  value_at null (r_par r) e = Some v ->
  value_at new (r_par r) e = Some v.
Proof.
  unfold update_scoped_rules. intros Hall Hdr Hdn Hin He Hmem Hothers Hnest Hagree Hnull.
  rewrite Hdr, Hdn in Hall.
  set (nr := filter (fun n => match find_key n rich with None => true | Some _ => false end) null) in *.
  destruct (scoped_one keep null nr r) as [out|c] eqn:Eone.
  2:{ exfalso. eapply scoped_all_err; eauto. }
  (* the value r receives *)
  assert (Hv : out = [mkrule (r_par r) (Some es) v]).
  { revert Eone. unfold scoped_one.
    destruct (find_key r null) as [n|] eqn:F.
    - intros E; inversion E; subst. rewrite He. do 2 f_equal.
      destruct (find_key_In _ _ _ F) as [Hn Hk]. unfold key_eqb in Hk. apply andb_prop in Hk.
      destruct Hk as [Hp Hs]. apply name_eqb_eq in Hp. unfold names_seteq in Hs. apply andb_prop in Hs.
      destruct Hs as [Hs1 _]. unfold edges_list in Hs1. rewrite He in Hs1.
      apply Hagree; auto. unfold covers_edge. destruct (r_edges n) as [ns|]; auto.
      eapply names_subset_mem; eauto.
    - rewrite He. destruct (scope_matches r nr) as [|n [|n2 t]] eqn:S.
      + (* no match: impossible, the nested model has a rule covering (p, e) *)
        exfalso. destruct (value_at_some_In _ _ _ _ Hnull) as [n [Hn [Hp [Hc _]]]].
        assert (Hmeet : match r_edges n with None => true | Some ns => names_meet ns es end = true).
        { unfold covers_edge in Hc. destruct (r_edges n) as [ns|]; auto. eapply names_meet_intro; eauto. }
        destruct (find_key n rich) as [r2|] eqn:F2.
        * destruct (find_key_In _ _ _ F2) as [Hr2 Hk].
          destruct (rule_eq_dec r2 r) as [-> | Hneq].
          -- rewrite key_eqb_sym in Hk. apply (find_key_complete r n null Hn Hk). exact F.
          -- unfold key_eqb in Hk. apply andb_prop in Hk. destruct Hk as [Hp2 Hs].
             apply name_eqb_eq in Hp2.
             assert (Hpar : r_par r2 = r_par r) by congruence.
             destruct (Hothers r2 Hr2 Hneq Hpar) as [es2 [He2 [Hne2 Hno2]]].
             unfold names_seteq in Hs. apply andb_prop in Hs. destruct Hs as [Hs1 Hs2].
             unfold edges_list in Hs1, Hs2. rewrite He2 in Hs1, Hs2.
             unfold covers_edge in Hc. destruct (r_edges n) as [ns|].
             ++ assert (mem_name e es2 = true) by (eapply names_subset_mem; eauto). congruence.
             ++ destruct es2 as [|x es2]; [congruence|]. simpl in Hs2. discriminate.
        * assert (Hnr : In n (scope_matches r nr)).
          { unfold scope_matches. apply filter_In. split.
            - unfold nr. apply filter_In. split; auto. rewrite F2. reflexivity.
            - rewrite <- Hp, name_eqb_refl, He. simpl. exact Hmeet. }
          rewrite S in Hnr. destruct Hnr.
      + intros E; inversion E; subst. do 2 f_equal.
        assert (Hnr : In n (scope_matches r nr)) by (rewrite S; left; auto).
        destruct (scope_matches_In _ _ _ _ He Hnr) as [Hn [Hp Ho]].
        unfold nr in Hn. apply filter_In in Hn. destruct Hn as [Hn _].
        apply Hagree; auto. unfold covers_edge.
        destruct Ho as [Hg | [ns [Hns Hm]]]; rewrite ?Hg, ?Hns; auto. eapply Hnest; eauto.
      + intros E; inversion E. }
  subst out. eapply scoped_all_value; eauto.
Qed.

(** non-vacuity of the hypotheses of [scope_exact_lemma]: kappa on {a,b} and on {c}
    in the alternate, kappa on {a,b,c} (value 5) in the nested model *)
Example scope_exact_instance :
  let rich := [mkrule [1] (Some [[10];[11]]) 1; mkrule [1] (Some [[12]]) 1] in
  let null := [mkrule [1] (Some [[10];[11];[12]]) 5] in
  exists new, update_scoped_rules false rich null = MOk new /\ value_at new [1] [10] = Some 5.
Proof.
  intros rich null.
  destruct (update_scoped_rules false rich null) as [new|c] eqn:E; [|vm_compute in E; discriminate].
  exists new. split; auto.
  apply (scope_exact_lemma false rich null new (mkrule [1] (Some [[10];[11]]) 1) [[10];[11]] [10] 5); auto.
  - left; reflexivity.
  - intros r' [<- | [<- | []]] Hneq Hp; [congruence|].
    exists [[12]]. repeat split; auto. discriminate.
  - intros n ns [<- | []] _ Hn _. inversion Hn; subst. reflexivity.
  - intros n [<- | []] _ _. reflexivity.
Qed.
