(** C12 — proofs about the collection- and alignment-level get_translation. *)
From CG3 Require Import Lib.PyZ Lib.Val Model.GeneticCode Spec.GeneticCodeSpec Proofs.GeneticCodeProofs
  Proofs.GeneticCodeDegenDefs.
From CG3gen Require Import GCTables.

(* ------------------------------------------------------------------ generic *)

Lemma ropt_mapM {A B} (f : A -> res B) l :
  ropt (mapM f l) = all_or_none (map (fun x => ropt (f x)) l).
Proof.
  induction l as [|a r IH]; [reflexivity|].
  cbn [mapM map all_or_none]. destruct (f a) as [b|e]; cbn [bind ropt]; [|reflexivity].
  rewrite <- IH. destruct (mapM f r); reflexivity.
Qed.

Lemma all_or_none_ext {A B} (f g : A -> option B) l :
  (forall x, In x l -> f x = g x) -> all_or_none (map f l) = all_or_none (map g l).
Proof.
  intros H. f_equal. apply map_ext_in. exact H.
Qed.

Lemma all_or_none_Some {A} (l : list (option A)) r :
  all_or_none l = Some r -> l = map Some r.
Proof.
  revert r. induction l as [|[a|] l IH]; intros r H; cbn in H.
  - injection H as <-. reflexivity.
  - destruct (all_or_none l) as [r'|]; [|discriminate]. injection H as <-. cbn. f_equal. apply IH. reflexivity.
  - discriminate.
Qed.

Lemma all_or_none_map_Some {A} (r : list A) : all_or_none (map Some r) = Some r.
Proof. induction r as [|a r IH]; cbn; [reflexivity|rewrite IH; reflexivity]. Qed.

(* ------------------------------------------------------------------ new-style SequenceCollection *)

Definition canon_rows (seqs : list str) : Prop := Forall canon_str seqs.

Lemma coll_new_spec_lemma id aa st seqs ok inc trim :
  In (id, aa, st) new_codes -> canon_rows seqs ->
  ropt (coll_get_translation_new true true aa seqs ok inc trim)
  = collection_spec (ncbi_tbl id) (eff_trim_new inc trim) inc ok seqs.
Proof.
  intros Hin Hs. unfold coll_get_translation_new, collection_spec. rewrite ropt_mapM.
  apply all_or_none_ext. intros s Hx. unfold canon_rows in Hs. rewrite Forall_forall in Hs.
  apply (seq_get_translation_new_spec_lemma id aa st); auto.
Qed.

(* ------------------------------------------------------------------ old-style SequenceCollection *)

(** two passes (first [f], then [g] on the results) = one pass with the composition *)
Lemma all_or_none_compose {A B C} (f : A -> option B) (g : B -> option C) l :
  all_or_none (map (fun x => match f x with Some b => g b | None => None end) l)
  = match all_or_none (map f l) with Some l' => all_or_none (map g l') | None => None end.
Proof.
  induction l as [|a r IH]; [reflexivity|].
  cbn [map all_or_none]. destruct (f a) as [b|]; [|reflexivity].
  rewrite IH. destruct (all_or_none (map f r)) as [r'|].
  - cbn [map all_or_none]. reflexivity.
  - destruct (g b); reflexivity.
Qed.

Lemma has_terminal_stop_canon v id aa st s strict :
  In (id, aa, st) new_codes -> canon_str s ->
  has_terminal_stop true v aa s strict =
  if zlen s mod 3 =? 0 then Ok (ends_with_stop (translate_spec (ncbi_tbl id) s))
  else if strict then Err E_Alpha else Ok false.
Proof.
  intros Hin Hs. unfold has_terminal_stop. cbv zeta. rewrite (degap_canon s Hs). cbn [andb].
  destruct s as [|x r] eqn:Es; [reflexivity|]. rewrite <- Es in *.
  assert (Hne : s <> []) by (rewrite Es; discriminate).
  replace (is_nil s) with false by (rewrite Es; reflexivity).
  destruct (zlen s mod 3 =? 0) eqn:Em; [|reflexivity].
  destruct (split_last3 s ltac:(lia) Hne) as (u & a & b & c & E & Hu).
  rewrite E in Hs. destruct (canon_app_inv _ _ Hs) as [Hcu Hcw].
  inversion Hcw as [|? ? Ha Hcw1]; subst. inversion Hcw1 as [|? ? Hb Hcw2]; subst.
  inversion Hcw2 as [|? ? Hc _]; subst.
  rewrite E, last3_app, (is_stop_spec_lemma v id aa st a b c Hin Ha Hb Hc).
  rewrite translate_spec_snoc by exact Hu. rewrite ends_with_stop_snoc. reflexivity.
Qed.

Lemma coll_has_terminal_stop_canon id aa st seqs strict :
  In (id, aa, st) new_codes -> canon_rows seqs ->
  match coll_has_terminal_stop true Old aa seqs strict with
  | Err _ => all_or_none (map (trim_spec (ncbi_tbl id) strict) seqs) = None
  | Ok false => all_or_none (map (trim_spec (ncbi_tbl id) strict) seqs) = Some seqs
  | Ok true => True
  end.
Proof.
  intros Hin Hs. induction Hs as [|s r Hc Hr IH]; [reflexivity|].
  cbn [coll_has_terminal_stop map all_or_none].
  rewrite (has_terminal_stop_canon Old id aa st s strict Hin Hc).
  assert (Ets : trim_spec (ncbi_tbl id) strict s =
                if zlen s mod 3 =? 0
                then Some (if ends_with_stop (translate_spec (ncbi_tbl id) s) then firstn (length s - 3) s else s)
                else if strict then None else Some s) by reflexivity.
  rewrite Ets. clear Ets.
  destruct (zlen s mod 3 =? 0).
  - cbn [bind]. destruct (ends_with_stop (translate_spec (ncbi_tbl id) s)); [exact I|].
    destruct (coll_has_terminal_stop true Old aa r strict) as [[|]|e]; try exact I; rewrite IH; reflexivity.
  - destruct strict; cbn [bind]; [reflexivity|].
    destruct (coll_has_terminal_stop true Old aa r false) as [[|]|e]; try exact I; rewrite IH; reflexivity.
Qed.

Lemma coll_trim_old_canon id aa st seqs strict :
  In (id, aa, st) new_codes -> canon_rows seqs ->
  ropt (coll_trim_old true aa seqs strict) = all_or_none (map (trim_spec (ncbi_tbl id) strict) seqs).
Proof.
  intros Hin Hs. unfold coll_trim_old.
  pose proof (coll_has_terminal_stop_canon id aa st seqs strict Hin Hs) as H.
  destruct (coll_has_terminal_stop true Old aa seqs strict) as [[|]|e]; cbn [bind negb ropt].
  - rewrite ropt_mapM. apply all_or_none_ext. intros s Hx.
    unfold canon_rows in Hs. rewrite Forall_forall in Hs.
    apply (trim_stop_codon_canon Old id aa st s strict Hin (Hs s Hx)).
  - symmetry. exact H.
  - symmetry. exact H.
Qed.

Lemma stop_spec_no_trim tbl inc ok ok' s : stop_spec tbl false inc ok s = stop_spec tbl false inc ok' s.
Proof. rewrite !stop_spec_unfold. reflexivity. Qed.

Lemma canon_rows_trim tbl strict seqs seqs' :
  canon_rows seqs -> all_or_none (map (trim_spec tbl strict) seqs) = Some seqs' -> canon_rows seqs'.
Proof.
  intros Hs. revert seqs'. induction Hs as [|s r Hc Hr IH]; intros seqs' H; cbn in H.
  - injection H as <-. constructor.
  - destruct (trim_spec tbl strict s) as [s'|] eqn:E; [|discriminate].
    destruct (all_or_none (map (trim_spec tbl strict) r)) as [r'|]; [|discriminate].
    injection H as <-. constructor; [eapply trim_spec_canon; eassumption|apply IH; reflexivity].
Qed.

Lemma coll_old_spec_lemma id aa st seqs ok inc trim :
  In (id, aa, st) new_codes -> canon_rows seqs ->
  ropt (coll_get_translation_old true true aa seqs ok inc trim)
  = collection_spec (ncbi_tbl id) (eff_trim_old inc trim) inc ok seqs.
Proof.
  intros Hin Hs. unfold coll_get_translation_old, collection_spec, eff_trim_old.
  assert (Hrow : forall rows, canon_rows rows ->
            ropt (mapM (fun s => seq_get_translation_old true aa s true inc false) rows)
            = all_or_none (map (stop_spec (ncbi_tbl id) false inc true) rows)).
  { intros rows Hr. rewrite ropt_mapM. apply all_or_none_ext. intros s Hx.
    unfold canon_rows in Hr. rewrite Forall_forall in Hr.
    rewrite (seq_get_translation_old_spec_lemma id aa st s true inc false Hin (Hr s Hx)).
    unfold eff_trim_old. reflexivity. }
  destruct (trim && negb inc) eqn:Eff.
  - pose proof (coll_trim_old_canon id aa st seqs (negb ok) Hin Hs) as Ht.
    transitivity (match all_or_none (map (trim_spec (ncbi_tbl id) (negb ok)) seqs) with
                  | Some l' => all_or_none (map (stop_spec (ncbi_tbl id) false inc true) l')
                  | None => None end).
    + destruct (coll_trim_old true aa seqs (negb ok)) as [seqs'|e]; cbn [ropt bind] in *; rewrite <- Ht.
      * apply Hrow. eapply canon_rows_trim; [exact Hs|symmetry; exact Ht].
      * reflexivity.
    + rewrite <- all_or_none_compose. apply all_or_none_ext. intros s _.
      rewrite (stop_spec_unfold _ true).
      destruct (trim_spec (ncbi_tbl id) (negb ok) s) as [b|]; [|reflexivity].
      rewrite (stop_spec_unfold _ false). reflexivity.
  - cbn [bind]. rewrite (Hrow seqs Hs). apply all_or_none_ext. intros s _. apply stop_spec_no_trim.
Qed.

(* ------------------------------------------------------------------ alignments: triplets *)

Definition row_wf (ws : list str) : Prop := Forall triplet_ok ws.

Lemma triplet_ok_shape w : triplet_ok w -> exists a b c, w = [a; b; c].
Proof. intros [->|(a & b & c & -> & _)]; [exists 45, 45, 45|exists a, b, c]; reflexivity. Qed.

Lemma canonical_vals c : canonical c -> c = 84 \/ c = 67 \/ c = 65 \/ c = 71.
Proof. unfold canonical, bases. cbn. intros H. repeat (destruct H as [H|H]; [subst c; tauto|]). destruct H. Qed.

Lemma is_gap_triplet_true w : is_gap_triplet w = true -> w = gap_triplet.
Proof.
  destruct w as [|a [|b [|c [|d r]]]]; cbn; try discriminate. intros H.
  apply andb_prop in H. destruct H as [H Hc]. apply andb_prop in H. destruct H as [Ha Hb].
  apply Z.eqb_eq in Ha, Hb, Hc. subst. reflexivity.
Qed.

Lemma is_gap_triplet_codon a b c : canonical a -> is_gap_triplet [a; b; c] = false.
Proof. intros Ha. cbn. destruct (canonical_vals a Ha) as [-> | [-> | [-> | ->]]]; reflexivity. Qed.

(** stop words of a code are codons of bases *)
Lemma In_product3_inv (b0 : list Z) w :
  In w (product3 b0) -> exists a b c, w = [a; b; c] /\ In a b0 /\ In b b0 /\ In c b0.
Proof.
  unfold product3. intros H. apply in_flat_map in H. destruct H as (a & Ha & H).
  apply in_flat_map in H. destruct H as (b & Hb & H). apply in_map_iff in H. destruct H as (c & <- & Hc).
  exists a, b, c. auto.
Qed.

Lemma stop_word_canon aa w :
  is_stop_word aa w = true -> exists a b c, w = [a; b; c] /\ canonical a /\ canonical b /\ canonical c.
Proof.
  unfold is_stop_word, stop_words. intros H. apply existsb_exists in H. destruct H as (u & Hu & E).
  apply str_eqb_eq in E. subst u. apply in_map_iff in Hu. destruct Hu as ([w' x] & <- & Hf).
  apply filter_In in Hf. destruct Hf as [Hc _]. apply in_combine_l in Hc. cbn [fst].
  rewrite (proj1 old_bases_lemma) in Hc. apply In_product3_inv in Hc.
  destruct Hc as (a & b & c & -> & Ha & Hb & Hc). exists a, b, c. auto.
Qed.

Lemma not_canonical_gap : ~ canonical 45.
Proof. intros H. destruct (canonical_vals 45 H) as [E|[E|[E|E]]]; discriminate. Qed.

Lemma not_stop_word_len2 aa y z : is_stop_word aa [y; z] = false.
Proof.
  destruct (is_stop_word aa [y; z]) eqn:E; [|reflexivity].
  destruct (stop_word_canon _ _ E) as (a & b & c & H & _). discriminate.
Qed.
Lemma not_stop_word_len1 aa z : is_stop_word aa [z] = false.
Proof.
  destruct (is_stop_word aa [z]) eqn:E; [|reflexivity].
  destruct (stop_word_canon _ _ E) as (a & b & c & H & _). discriminate.
Qed.
Lemma not_stop_word_gap3 aa x y : is_stop_word aa [x; y; 45] = false.
Proof.
  destruct (is_stop_word aa [x; y; 45]) eqn:E; [|reflexivity].
  destruct (stop_word_canon _ _ E) as (a & b & c & H & _ & _ & Hc). injection H as E1 E2 E3; subst.
  destruct (not_canonical_gap Hc).
Qed.
Lemma not_stop_word_gap2 aa x z : is_stop_word aa [x; 45; z] = false.
Proof.
  destruct (is_stop_word aa [x; 45; z]) eqn:E; [|reflexivity].
  destruct (stop_word_canon _ _ E) as (a & b & c & H & _ & Hb & _). injection H as E1 E2 E3; subst.
  destruct (not_canonical_gap Hb).
Qed.
Lemma not_stop_word_gap1 aa y z : is_stop_word aa [45; y; z] = false.
Proof.
  destruct (is_stop_word aa [45; y; z]) eqn:E; [|reflexivity].
  destruct (stop_word_canon _ _ E) as (a & b & c & H & Ha & _ & _). injection H as E1 E2 E3; subst.
  destruct (not_canonical_gap Ha).
Qed.

(** is_stop_word = the NCBI column holds "*", every code, every codon *)
Definition stop_word_check (e : Z * list Z * list Z) : bool :=
  forallb (fun w => Bool.eqb (is_stop_word (snd (fst e)) w) (spec_lookup (ncbi_tbl (fst (fst e))) w =? star))
          (product3 bases).
Lemma stop_words_checked : forallb stop_word_check new_codes = true.
Proof. vm_compute. reflexivity. Qed.

Lemma is_stop_word_spec id aa st w :
  In (id, aa, st) new_codes -> triplet_ok w -> is_stop_word aa w = is_stop_triplet (ncbi_tbl id) w.
Proof.
  intros Hin [->|(a & b & c & -> & Ha & Hb & Hc)].
  - unfold gap_triplet. rewrite (not_stop_word_gap1 aa 45 45). reflexivity.
  - unfold is_stop_triplet. rewrite (is_gap_triplet_codon a b c Ha). cbn [negb andb].
    pose proof stop_words_checked as H. rewrite forallb_forall in H. specialize (H _ Hin).
    unfold stop_word_check in H. cbn [fst snd] in H. rewrite forallb_forall in H.
    specialize (H [a; b; c] (In_product3 _ a b c Ha Hb Hc)). apply Bool.eqb_prop in H. exact H.
Qed.

Lemma canonical_not_gapch c : canonical c -> is_gapch c = false.
Proof. intros H. destruct (canonical_vals c H) as [-> | [-> | [-> | ->]]]; reflexivity. Qed.

Lemma gapch_concat ws : row_wf ws -> forallb is_gapch (concat ws) = forallb is_gap_triplet ws.
Proof.
  induction 1 as [|w r Hw Hr IH]; [reflexivity|].
  cbn [concat forallb]. destruct Hw as [->|(a & b & c & -> & Ha & Hb & Hc)].
  - cbn. exact IH.
  - rewrite (is_gap_triplet_codon a b c Ha). cbn [app forallb]. rewrite (canonical_not_gapch a Ha). reflexivity.
Qed.

Lemma all_gaps_concat r : forallb is_gap_triplet r = true -> concat r = repeat ch_gap (length (concat r)).
Proof.
  induction r as [|w r IH]; [reflexivity|]. cbn [forallb]. intros H. apply andb_prop in H. destruct H as [Hw Hr].
  apply is_gap_triplet_true in Hw. subst w. cbn [concat]. rewrite app_length. cbn [gap_triplet length app Nat.add repeat].
  rewrite <- (IH Hr). reflexivity.
Qed.

(* ------------------------------------------------------------------ the regular expression *)

Definition rt_cond (aa : str) (s : str) : bool :=
  is_stop_word aa (firstn 3 s) && forallb is_gapch (skipn 3 s).

Lemma regex_trim_cons aa c r :
  regex_trim aa (c :: r) = if rt_cond aa (c :: r) then repeat ch_gap (length (c :: r)) else c :: regex_trim aa r.
Proof. reflexivity. Qed.

(** between two triplet boundaries the expression cannot match *)
Lemma rt_cond_mid aa y z r :
  row_wf r -> rt_cond aa (y :: z :: concat r) = false /\ rt_cond aa (z :: concat r) = false.
Proof.
  intros Hr. unfold rt_cond. destruct Hr as [|w r' Hw Hr'].
  - cbn [concat firstn skipn]. rewrite not_stop_word_len2, not_stop_word_len1. split; reflexivity.
  - destruct Hw as [->|(d & e & f & -> & Hd & He & Hf)]; cbn [concat app firstn skipn gap_triplet].
    + rewrite not_stop_word_gap3, not_stop_word_gap2. split; reflexivity.
    + cbn [forallb]. rewrite (canonical_not_gapch e He), (canonical_not_gapch f Hf).
      rewrite !andb_false_r. split; reflexivity.
Qed.

Lemma trim_row_wf tbl ws : row_wf ws -> row_wf (trim_row tbl ws).
Proof.
  induction 1 as [|w r Hw Hr IH]; [constructor|].
  cbn [trim_row]. destruct (forallb is_gap_triplet r && is_stop_triplet tbl w).
  - constructor; [left; reflexivity|exact Hr].
  - constructor; assumption.
Qed.

Lemma trim_row_length tbl ws : length (trim_row tbl ws) = length ws.
Proof.
  induction ws as [|w r IH]; [reflexivity|].
  cbn [trim_row]. destruct (forallb is_gap_triplet r && is_stop_triplet tbl w); cbn [length]; [reflexivity|rewrite IH; reflexivity].
Qed.

(** re.sub on a row of aligned triplets = replace the last residue codon, if it is a stop, by "---" *)
Lemma regex_trim_row id aa st ws :
  In (id, aa, st) new_codes -> row_wf ws ->
  regex_trim aa (concat ws) = concat (trim_row (ncbi_tbl id) ws).
Proof.
  intros Hin. induction 1 as [|w r Hw Hr IH]; [reflexivity|].
  destruct (triplet_ok_shape w Hw) as (x & y & z & E). subst w.
  cbn [concat app trim_row]. rewrite regex_trim_cons.
  assert (Ec : rt_cond aa (x :: y :: z :: concat r)
               = forallb is_gap_triplet r && is_stop_triplet (ncbi_tbl id) [x; y; z]).
  { unfold rt_cond. cbn [firstn skipn]. rewrite (is_stop_word_spec id aa st _ Hin Hw), (gapch_concat r Hr).
    apply andb_comm. }
  rewrite Ec. destruct (forallb is_gap_triplet r && is_stop_triplet (ncbi_tbl id) [x; y; z]) eqn:E.
  - apply andb_prop in E. destruct E as [Eg _].
    cbn [concat gap_triplet app length repeat]. rewrite (all_gaps_concat r Eg) at 2. reflexivity.
  - destruct (rt_cond_mid aa y z r Hr) as [E1 E2].
    rewrite regex_trim_cons, E1, regex_trim_cons, E2, IH. reflexivity.
Qed.

(* ------------------------------------------------------------------ terminal stop of a gapped row *)

Lemma degap_row ws : row_wf ws -> degap (concat ws) = row_residues ws.
Proof.
  unfold row_residues. induction 1 as [|w r Hw Hr IH]; [reflexivity|].
  cbn [concat filter]. destruct Hw as [->|(a & b & c & -> & Ha & Hb & Hc)].
  - cbn. exact IH.
  - rewrite (is_gap_triplet_codon a b c Ha). cbn [negb concat app].
    unfold degap in *. cbn [filter]. rewrite !canonical_not_gap by assumption. cbn [negb]. rewrite IH. reflexivity.
Qed.

Lemma residues_canon ws : row_wf ws -> canon_str (row_residues ws) /\ zlen (row_residues ws) mod 3 = 0.
Proof.
  unfold row_residues. induction 1 as [|w r Hw Hr [IH1 IH2]]; [split; [constructor|reflexivity]|].
  cbn [filter]. destruct Hw as [->|(a & b & c & -> & Ha & Hb & Hc)].
  - cbn. split; assumption.
  - rewrite (is_gap_triplet_codon a b c Ha). cbn [negb concat app]. split.
    + repeat (constructor; [assumption|]). exact IH1.
    + rewrite !zlen_cons. lia.
Qed.

Definition row_has_tstop (tbl : list Z) (ws : list str) : bool :=
  ends_with_stop (translate_spec tbl (row_residues ws)).

Lemma has_terminal_stop_row id aa st ws strict :
  In (id, aa, st) new_codes -> row_wf ws ->
  has_terminal_stop true Old aa (concat ws) strict = Ok (row_has_tstop (ncbi_tbl id) ws).
Proof.
  intros Hin Hw. destruct (residues_canon ws Hw) as [Hc Hm].
  pose proof (has_terminal_stop_canon Old id aa st (row_residues ws) strict Hin Hc) as H.
  rewrite Hm in H. cbn [Z.eqb] in H. unfold row_has_tstop. rewrite <- H.
  unfold has_terminal_stop. cbv zeta. rewrite (degap_row ws Hw), (degap_canon _ Hc). reflexivity.
Qed.

Fixpoint tstop (tbl : list Z) (ws : list str) : bool :=
  match ws with
  | [] => false
  | w :: r => (forallb is_gap_triplet r && is_stop_triplet tbl w) || tstop tbl r
  end.

Lemma tstop_all_gaps tbl r : forallb is_gap_triplet r = true -> tstop tbl r = false.
Proof.
  induction r as [|w r IH]; [reflexivity|]. cbn [forallb tstop]. intros H.
  apply andb_prop in H. destruct H as [Hw Hr]. rewrite (IH Hr), orb_false_r.
  unfold is_stop_triplet. rewrite Hw. cbn [negb andb]. apply andb_false_r.
Qed.

Lemma trim_row_id tbl ws : tstop tbl ws = false -> trim_row tbl ws = ws.
Proof.
  induction ws as [|w r IH]; [reflexivity|]. cbn [tstop trim_row]. intros H.
  apply orb_false_elim in H. destruct H as [H1 H2]. rewrite H1, (IH H2). reflexivity.
Qed.

Lemma residues_nil_iff r : row_wf r -> (forallb is_gap_triplet r = true <-> row_residues r = []).
Proof.
  unfold row_residues. induction 1 as [|w r Hw Hr IH]; [split; reflexivity|].
  cbn [forallb filter]. destruct Hw as [->|(a & b & c & -> & Ha & Hb & Hc)].
  - cbn. exact IH.
  - rewrite (is_gap_triplet_codon a b c Ha). cbn [negb andb concat app]. split; discriminate.
Qed.

Lemma ends_with_stop_cons x y p : ends_with_stop (x :: y :: p) = ends_with_stop (y :: p).
Proof.
  unfold ends_with_stop. cbn [rev]. destruct (rev p ++ [y]) as [|h t] eqn:E.
  - destruct (rev p); discriminate.
  - reflexivity.
Qed.

Lemma row_has_tstop_tstop tbl ws : row_wf ws -> row_has_tstop tbl ws = tstop tbl ws.
Proof.
  unfold row_has_tstop. induction 1 as [|w r Hw Hr IH]; [reflexivity|].
  cbn [tstop]. destruct Hw as [->|(a & b & c & -> & Ha & Hb & Hc)].
  - assert (Eg : is_gap_triplet gap_triplet = true) by reflexivity.
    unfold row_residues in *. cbn [filter]. rewrite Eg. cbn [negb]. rewrite IH.
    unfold is_stop_triplet. rewrite Eg. cbn [negb andb]. rewrite andb_false_r. reflexivity.
  - unfold row_residues in *. cbn [filter]. rewrite (is_gap_triplet_codon a b c Ha). cbn [negb concat app].
    fold (row_residues r) in *.
    change (translate_spec tbl (a :: b :: c :: row_residues r))
      with (spec_lookup tbl [a; b; c] :: translate_spec tbl (row_residues r)).
    unfold is_stop_triplet. rewrite (is_gap_triplet_codon a b c Ha). cbn [negb andb].
    destruct (forallb is_gap_triplet r) eqn:Eg.
    + rewrite (tstop_all_gaps tbl r Eg), orb_false_r. cbn [andb].
      apply (residues_nil_iff r Hr) in Eg. rewrite Eg. reflexivity.
    + cbn [andb orb]. rewrite <- IH.
      destruct (row_residues r) as [|x [|y [|z t]]] eqn:Er.
      * exfalso. apply (residues_nil_iff r Hr) in Er. congruence.
      * exfalso. destruct (residues_canon r Hr) as [_ Hm]. rewrite Er in Hm. discriminate Hm.
      * exfalso. destruct (residues_canon r Hr) as [_ Hm]. rewrite Er in Hm. discriminate Hm.
      * change (translate_spec tbl (x :: y :: z :: t)) with (spec_lookup tbl [x; y; z] :: translate_spec tbl t).
        apply ends_with_stop_cons.
Qed.

(** the alignment-level trimming: every row has its terminal stop codon (if any) replaced *)
Definition rows_wf (wss : list (list str)) : Prop := Forall row_wf wss.

Lemma coll_has_terminal_stop_rows id aa st wss strict :
  In (id, aa, st) new_codes -> rows_wf wss ->
  exists b, coll_has_terminal_stop true Old aa (map (@concat Z) wss) strict = Ok b /\
            (b = false -> map (trim_row (ncbi_tbl id)) wss = wss).
Proof.
  intros Hin. induction 1 as [|ws r Hw Hr IH].
  - exists false. split; reflexivity.
  - cbn [map coll_has_terminal_stop]. rewrite (has_terminal_stop_row id aa st ws strict Hin Hw). cbn [bind].
    destruct (row_has_tstop (ncbi_tbl id) ws) eqn:E.
    + exists true. split; [reflexivity|discriminate].
    + destruct IH as (b & Hb & Hid). exists b. split; [exact Hb|].
      intros Eb. rewrite (Hid Eb). rewrite trim_row_id; [reflexivity|].
      rewrite <- row_has_tstop_tstop by exact Hw. exact E.
Qed.

Lemma aln_trim_old_rows id aa st wss strict :
  In (id, aa, st) new_codes -> rows_wf wss ->
  aln_trim_old true aa (map (@concat Z) wss) strict = Ok (map (@concat Z) (map (trim_row (ncbi_tbl id)) wss)).
Proof.
  intros Hin Hw. unfold aln_trim_old.
  destruct (coll_has_terminal_stop_rows id aa st wss strict Hin Hw) as (b & -> & Hid). cbn [bind].
  destruct b; cbn [negb].
  - f_equal. rewrite !map_map. apply map_ext_in. intros ws Hx.
    unfold rows_wf in Hw. rewrite Forall_forall in Hw. apply (regex_trim_row id aa st ws Hin (Hw ws Hx)).
  - rewrite (Hid eq_refl). reflexivity.
Qed.

(* ------------------------------------------------------------------ translating the rows *)

Lemma chunks3_concat ws : row_wf ws -> chunks3 (concat ws) = ws.
Proof.
  induction 1 as [|w r Hw Hr IH]; [reflexivity|].
  destruct (triplet_ok_shape w Hw) as (a & b & c & ->). cbn [concat app].
  change (chunks3 (a :: b :: c :: concat r)) with ([a; b; c] :: chunks3 (concat r)). rewrite IH. reflexivity.
Qed.

Lemma loop_generic (f : str -> res Z) (g : str -> Z) inc l :
  (forall w, In w l -> f w = (let x := g w in if (x =? star) && negb inc then Err E_Alpha else Ok x)) ->
  ropt (mapM f l) = (let p := map g l in if negb inc && has_stop p then None else Some p).
Proof.
  induction l as [|w r IH]; intros Hl; cbv zeta.
  - cbn. rewrite andb_false_r. reflexivity.
  - cbn [mapM map]. rewrite (Hl w (or_introl eq_refl)). cbv zeta.
    specialize (IH (fun w Hw => Hl w (or_intror Hw))). cbv zeta in IH.
    unfold has_stop in *. cbn [existsb]. rewrite (Z.eqb_sym star).
    destruct (g w =? star) eqn:Ex; destruct inc; cbn [negb andb orb bind ropt] in *.
    + destruct (mapM f r); cbn [bind ropt] in *; [injection IH as ->; reflexivity|discriminate].
    + reflexivity.
    + destruct (mapM f r); cbn [bind ropt] in *; [injection IH as ->; reflexivity|discriminate].
    + destruct (existsb (Z.eqb star) (map g r));
        destruct (mapM f r); cbn [bind ropt] in *; try discriminate; try reflexivity.
      injection IH as ->. reflexivity.
Qed.

Definition old_codon_gap_check (e : Z * list Z * list Z) : bool :=
  forallb (fun oi : bool * bool => res_Z_eqb (old_codon (snd (fst e)) (fst oi) (snd oi) gap_triplet) (Ok 45)) bools2.
Lemma old_codon_gap_checked : forallb old_codon_gap_check new_codes = true.
Proof. vm_compute. reflexivity. Qed.

Lemma old_codon_triplet id aa st ok inc w :
  In (id, aa, st) new_codes -> triplet_ok w ->
  old_codon aa ok inc w =
  (let x := triplet_aa (ncbi_tbl id) w in if (x =? star) && negb inc then Err E_Alpha else Ok x).
Proof.
  intros Hin [->|(a & b & c & -> & Ha & Hb & Hc)].
  - pose proof old_codon_gap_checked as H. rewrite forallb_forall in H. specialize (H _ Hin).
    unfold old_codon_gap_check in H. cbn [fst snd] in H. rewrite forallb_forall in H.
    specialize (H (ok, inc) (In_bools2 ok inc)). cbn [fst snd] in H. apply res_Z_eqb_sound in H.
    rewrite H. reflexivity.
  - rewrite (old_codon_canon id aa st ok inc a b c Hin Ha Hb Hc). unfold triplet_aa.
    rewrite (is_gap_triplet_codon a b c Ha). reflexivity.
Qed.

Lemma row_translation id aa st ok inc ws :
  In (id, aa, st) new_codes -> row_wf ws ->
  ropt (seq_get_translation_old true aa (concat ws) ok inc false) = aln_row_spec (ncbi_tbl id) false inc ws.
Proof.
  intros Hin Hw. unfold seq_get_translation_old. cbn [negb]. rewrite orb_true_r. cbn [bind]. cbv zeta.
  change (old_codon_d (codon_dict aa) ok inc) with (old_codon aa ok inc).
  rewrite (chunks3_concat ws Hw). unfold aln_row_spec.
  apply loop_generic. intros w Hx. unfold row_wf in Hw. rewrite Forall_forall in Hw.
  apply (old_codon_triplet id aa st ok inc w Hin (Hw w Hx)).
Qed.

Lemma aln_row_spec_length tbl trim inc ws p : aln_row_spec tbl trim inc ws = Some p -> length p = length ws.
Proof.
  unfold aln_row_spec. cbv zeta. destruct (negb inc && has_stop _); [discriminate|].
  intros H. injection H as <-. rewrite map_length. destruct trim; [apply trim_row_length|reflexivity].
Qed.

Lemma all_or_none_Forall {A B} (f : A -> option B) (P : B -> Prop) l r :
  all_or_none (map f l) = Some r -> (forall x y, In x l -> f x = Some y -> P y) -> Forall P r.
Proof.
  revert r. induction l as [|a l IH]; intros r H HP; cbn in H.
  - injection H as <-. constructor.
  - destruct (f a) as [b|] eqn:E; [|discriminate].
    destruct (all_or_none (map f l)) as [r'|] eqn:E'; [|discriminate]. injection H as <-.
    constructor; [apply (HP a b (or_introl eq_refl) E)|].
    apply IH; [reflexivity|]. intros x y Hx. apply HP. right. exact Hx.
Qed.

Lemma same_lengths_Forall n (l : list str) : Forall (fun p => length p = n) l -> same_lengths l = true.
Proof.
  intros H. destruct H as [|a r Ha Hr]; [reflexivity|]. cbn [same_lengths].
  rewrite forallb_forall. intros b Hb. rewrite Forall_forall in Hr. unfold zlen. rewrite (Hr b Hb), Ha. apply Z.eqb_refl.
Qed.

(** old Alignment / ArrayAlignment get_translation on rows of aligned triplets *)
Lemma aln_old_spec_lemma id aa st wss n ok inc trim :
  In (id, aa, st) new_codes -> rows_wf wss -> (forall ws, In ws wss -> length ws = n) ->
  ropt (aln_get_translation_old true true aa (map (@concat Z) wss) ok inc trim)
  = alignment_spec (ncbi_tbl id) (eff_trim_old inc trim) inc wss.
Proof.
  intros Hin Hw Hn. unfold aln_get_translation_old, alignment_spec, eff_trim_old.
  set (wss' := if trim && negb inc then map (trim_row (ncbi_tbl id)) wss else wss).
  assert (Hrows : (if negb trim || inc then @Ok (list str) (map (@concat Z) wss)
                   else aln_trim_old true aa (map (@concat Z) wss) (negb ok)) = @Ok (list str) (map (@concat Z) wss')).
  { unfold wss'. destruct trim, inc; cbn [negb orb andb]; try reflexivity.
    apply (aln_trim_old_rows id aa st wss (negb ok) Hin Hw). }
  rewrite Hrows. cbn [bind].
  assert (Hw' : rows_wf wss').
  { unfold wss'. destruct (trim && negb inc); [|exact Hw]. unfold rows_wf in *. rewrite Forall_forall in *.
    intros x Hx. apply in_map_iff in Hx. destruct Hx as (ws & <- & Hws). apply trim_row_wf, Hw, Hws. }
  assert (Hn' : forall ws, In ws wss' -> length ws = n).
  { unfold wss'. destruct (trim && negb inc); [|exact Hn]. intros x Hx. apply in_map_iff in Hx.
    destruct Hx as (ws & <- & Hws). rewrite trim_row_length. apply Hn, Hws. }
  assert (Hspec : all_or_none (map (aln_row_spec (ncbi_tbl id) (trim && negb inc) inc) wss)
                  = all_or_none (map (aln_row_spec (ncbi_tbl id) false inc) wss')).
  { unfold wss'. destruct (trim && negb inc); [|reflexivity]. rewrite map_map. reflexivity. }
  rewrite Hspec.
  assert (Hm : ropt (mapM (fun s => seq_get_translation_old true aa s ok inc false) (map (@concat Z) wss'))
               = all_or_none (map (aln_row_spec (ncbi_tbl id) false inc) wss')).
  { rewrite ropt_mapM, map_map. apply all_or_none_ext. intros ws Hx.
    unfold rows_wf in Hw'. rewrite Forall_forall in Hw'. apply (row_translation id aa st ok inc ws Hin (Hw' ws Hx)). }
  destruct (mapM (fun s => seq_get_translation_old true aa s ok inc false) (map (@concat Z) wss')) as [peps|e];
    cbn [ropt bind] in *; [|exact Hm].
  rewrite (same_lengths_Forall n peps); [exact Hm|].
  apply (all_or_none_Forall (aln_row_spec (ncbi_tbl id) false inc) _ wss' peps (eq_sym Hm)).
  intros ws p Hx Hp. rewrite (aln_row_spec_length _ _ _ _ _ Hp). apply Hn', Hx.
Qed.

(** the translated rows of an alignment have equal length *)
Lemma alignment_spec_lengths tbl trim inc wss n peps :
  (forall ws, In ws wss -> length ws = n) ->
  alignment_spec tbl trim inc wss = Some peps -> Forall (fun p => length p = n) peps /\ length peps = length wss.
Proof.
  intros Hn H. unfold alignment_spec in H. split.
  - apply (all_or_none_Forall (aln_row_spec tbl trim inc) _ wss peps H).
    intros ws p Hx Hp. rewrite (aln_row_spec_length _ _ _ _ _ Hp). apply Hn, Hx.
  - apply all_or_none_Some in H. apply (f_equal (@length _)) in H. rewrite !map_length in H. symmetry. exact H.
Qed.

(* ------------------------------------------------------------------ six frames: every entry point *)

Lemma sixframes_agree_lemma id aa st s :
  In (id, aa, st) new_codes -> canon_str s -> 2 < zlen s ->
  sixframes_old aa DNA s = Ok (map snd (sixframes aa s)).
Proof.
  intros Hin Hs Hl. rewrite (sixframes_old_spec_lemma id aa st s Hin Hs Hl).
  destruct (sixframes_spec_lemma id aa st s Hin Hs) as [-> _]. reflexivity.
Qed.

Lemma translate_frames_spec_lemma id aa st s allow_rc :
  In (id, aa, st) new_codes -> canon_str s -> 2 < zlen s ->
  translate_frames aa DNA s allow_rc
  = Ok (if allow_rc then six_frames_spec (ncbi_tbl id) s
        else map (frame_plus (ncbi_tbl id) s) [0; 1; 2]%nat).
Proof.
  intros Hin Hs Hl. unfold translate_frames. rewrite (sixframes_old_spec_lemma id aa st s Hin Hs Hl).
  cbn [bind]. destruct allow_rc; reflexivity.
Qed.

(* ------------------------------------------------------------------ degenerate codons (old Sequence.get_translation) *)

(** a codon without "-": incomplete_ok plays no role *)
Lemma assoc_str_In {A} u (ks : list str) (vs : list A) a :
  assoc_str u (combine ks vs) = Some a -> In u ks.
Proof.
  revert vs. induction ks as [|k ks IH]; intros [|v vs]; cbn [combine assoc_str]; try discriminate.
  destruct (str_eqb k u) eqn:E; intros H.
  - apply str_eqb_eq in E. left. exact E.
  - right. eapply IH. exact H.
Qed.

Lemma mapM_ext_in {A B} (f g : A -> res B) l : (forall x, In x l -> f x = g x) -> mapM f l = mapM g l.
Proof.
  induction l as [|a r IH]; intros H; [reflexivity|].
  cbn [mapM]. rewrite (H a (or_introl eq_refl)), IH; [reflexivity|]. intros x Hx. apply H. right. exact Hx.
Qed.

Lemma alphabet_word_no_gap aa inc u :
  in_codon_alphabet (codon_dict aa) inc u = true -> str_eqb u gap_word = true \/ has_gap u = false.
Proof.
  unfold in_codon_alphabet. destruct (str_eqb u gap_word); [left; reflexivity|]. cbn [orb].
  destruct (assoc_str u (codon_dict aa)) as [a|] eqn:E; [|discriminate]. intros _. right.
  unfold codon_dict in E. apply assoc_str_In in E. rewrite (proj1 old_bases_lemma) in E.
  apply In_product3_inv in E. destruct E as (x & y & z & -> & Hx & Hy & Hz).
  apply (has_gap_canon [x; y; z]). repeat (constructor; [assumption|]). constructor.
Qed.

Lemma old_codon_ok_irrelevant aa inc w :
  has_gap w = false -> old_codon aa true inc w = old_codon aa false inc w.
Proof.
  intros Hg. unfold old_codon, old_codon_d. cbv zeta. rewrite Hg. cbn [negb orb].
  set (R := if in_codon_alphabet (codon_dict aa) inc w then Ok [w] else _).
  assert (HR : forall l, R = Ok l -> forall u, In u l -> str_eqb u gap_word = true \/ has_gap u = false).
  { unfold R. intros l. destruct (in_codon_alphabet (codon_dict aa) inc w) eqn:Ew.
    - intros H. apply Ok_inj in H. subst l. intros u [<-|[]]. right. exact Hg.
    - destruct (mapM _ w) as [sets|e]; [|discriminate].
      destruct (filter (in_codon_alphabet (codon_dict aa) inc) (str_product sets)) as [|x l'] eqn:Ef; [discriminate|].
      intros H. apply Ok_inj in H. subst l. intros u Hu. rewrite <- Ef in Hu. apply filter_In in Hu.
      apply (alphabet_word_no_gap aa inc u), Hu. }
  destruct R as [l|e]; [|reflexivity]. cbn [bind].
  erewrite (mapM_ext_in _ _ l); [reflexivity|].
  intros u Hu. destruct (HR l eq_refl u Hu) as [E|E]; rewrite E; reflexivity.
Qed.

Lemma iupac_syms_no_gap a b c :
  In a iupac_syms -> In b iupac_syms -> In c iupac_syms -> has_gap [a; b; c] = false.
Proof.
  intros Ha Hb Hc. unfold has_gap, memZ. cbn [existsb]. rewrite orb_false_r.
  assert (H : forall x, In x iupac_syms -> (ch_gap =? x) = false).
  { intros x Hx. assert (E : forallb (fun y => negb (ch_gap =? y)) iupac_syms = true) by reflexivity.
    rewrite forallb_forall in E. specialize (E x Hx). destruct (ch_gap =? x); [discriminate|reflexivity]. }
  rewrite (H a Ha), (H b Hb), (H c Hc). reflexivity.
Qed.

(** a triplet holding "-" next to other symbols: "?" if incomplete codons are accepted, rejected otherwise *)
Definition gapped_syms : list Z := ch_gap :: iupac_syms.
Definition partial_gap_check (e : Z * list Z * list Z) : bool :=
  forallb (fun w => if negb (has_gap w) then true else if str_eqb w gap_word then true else
     forallb (fun oi : bool * bool =>
                option_Z_eqb (ropt (old_codon (snd (fst e)) (fst oi) (snd oi) w)) (partial_gap_spec (fst oi))) bools2)
   (product3 gapped_syms).
Lemma partial_gap_checked : forallb partial_gap_check new_codes = true.
Proof. vm_cast_no_check (eq_refl true). Qed.

Lemma partial_gap_codon_lemma id aa st a b c ok inc :
  In (id, aa, st) new_codes -> In a gapped_syms -> In b gapped_syms -> In c gapped_syms ->
  has_gap [a; b; c] = true -> [a; b; c] <> gap_triplet ->
  ropt (old_codon aa ok inc [a; b; c]) = partial_gap_spec ok.
Proof.
  intros Hin Ha Hb Hc Hg Hn. pose proof partial_gap_checked as H. rewrite forallb_forall in H.
  specialize (H _ Hin). unfold partial_gap_check in H. cbn [fst snd] in H. rewrite forallb_forall in H.
  specialize (H [a; b; c] (In_product3 _ a b c Ha Hb Hc)). rewrite Hg in H. cbn [negb] in H.
  destruct (str_eqb [a; b; c] gap_word) eqn:E.
  - apply str_eqb_eq in E. exfalso. apply Hn. exact E.
  - rewrite forallb_forall in H. specialize (H (ok, inc) (In_bools2 ok inc)).
    cbn [fst snd] in H. apply option_Z_eqb_sound, H.
Qed.

(* ------------------------------------------------------------------ alignment rows vs Sequence-level translation *)

Definition drop_gaps (p : list Z) : list Z := filter (fun c => negb (c =? 45)) p.

Lemma lookup_not_gap id aa st a b c :
  In (id, aa, st) new_codes -> canonical a -> canonical b -> canonical c ->
  (spec_lookup (ncbi_tbl id) [a; b; c] =? 45) = false.
Proof.
  intros Hin Ha Hb Hc.
  destruct (codon_ok_split id aa [a; b; c] (codon_facts id aa st a b c Hin Ha Hb Hc)) as (_ & _ & _ & _ & H5 & _).
  unfold ch_gap in H5. lia.
Qed.

Lemma drop_gaps_row id aa st ws :
  In (id, aa, st) new_codes -> row_wf ws ->
  drop_gaps (map (triplet_aa (ncbi_tbl id)) ws) = translate_spec (ncbi_tbl id) (row_residues ws).
Proof.
  intros Hin. unfold row_residues. induction 1 as [|w r Hw Hr IH]; [reflexivity|].
  cbn [map filter]. destruct Hw as [->|(a & b & c & -> & Ha & Hb & Hc)].
  - assert (Eg : is_gap_triplet gap_triplet = true) by reflexivity.
    unfold triplet_aa at 1. rewrite Eg. cbn [negb drop_gaps filter Z.eqb]. exact IH.
  - unfold triplet_aa at 1. rewrite (is_gap_triplet_codon a b c Ha). cbn [negb concat app].
    change (translate_spec (ncbi_tbl id) (a :: b :: c :: concat (filter (fun w => negb (is_gap_triplet w)) r)))
      with (spec_lookup (ncbi_tbl id) [a; b; c]
            :: translate_spec (ncbi_tbl id) (concat (filter (fun w => negb (is_gap_triplet w)) r))).
    unfold drop_gaps in *. cbn [filter]. rewrite (lookup_not_gap id aa st a b c Hin Ha Hb Hc). cbn [negb].
    rewrite IH. reflexivity.
Qed.

Lemma has_stop_drop_gaps p : has_stop (drop_gaps p) = has_stop p.
Proof.
  unfold has_stop, drop_gaps. induction p as [|x p IH]; [reflexivity|].
  cbn [filter existsb]. destruct (x =? 45) eqn:E; cbn [negb existsb].
  - rewrite IH. replace (star =? x) with false; [reflexivity|]. unfold star. lia.
  - rewrite IH. reflexivity.
Qed.

(** the residues of a trimmed row: the residues without their last codon when that is a stop *)
Lemma residues_trim_row tbl ws :
  row_wf ws ->
  row_residues (trim_row tbl ws)
  = if tstop tbl ws then firstn (length (row_residues ws) - 3) (row_residues ws) else row_residues ws.
Proof.
  induction 1 as [|w r Hw Hr IH]; [reflexivity|].
  cbn [trim_row tstop]. destruct (forallb is_gap_triplet r && is_stop_triplet tbl w) eqn:E.
  - cbn [orb]. apply andb_prop in E. destruct E as [Eg Es].
    unfold is_stop_triplet in Es. apply andb_prop in Es. destruct Es as [Eng _].
    apply (residues_nil_iff r Hr) in Eg.
    destruct (triplet_ok_shape w Hw) as (a & b & c & ->).
    unfold row_residues in *. cbn [filter]. destruct (is_gap_triplet [a; b; c]); [discriminate|].
    assert (Egt : is_gap_triplet gap_triplet = true) by reflexivity. rewrite Egt. cbn [negb concat app].
    rewrite Eg. reflexivity.
  - cbn [orb]. unfold row_residues in *. cbn [filter].
    destruct (negb (is_gap_triplet w)) eqn:Ew; cbn [concat]; rewrite IH; [|reflexivity].
    destruct (tstop tbl r) eqn:Et; [|reflexivity].
    destruct (triplet_ok_shape w Hw) as (a & b & c & ->). cbn [app length].
    set (R := concat (filter (fun w0 => negb (is_gap_triplet w0)) r)) in *.
    assert (HR : (3 <= length R)%nat).
    { destruct R as [|x [|y [|z t]]] eqn:ER; cbn [length]; try lia; exfalso.
      - assert (Hg : forallb is_gap_triplet r = true) by (apply (residues_nil_iff r Hr); exact ER).
        rewrite (tstop_all_gaps tbl r Hg) in Et. discriminate.
      - destruct (residues_canon r Hr) as [_ Hm]. unfold row_residues in Hm. fold R in Hm. rewrite ER in Hm. discriminate Hm.
      - destruct (residues_canon r Hr) as [_ Hm]. unfold row_residues in Hm. fold R in Hm. rewrite ER in Hm. discriminate Hm. }
    replace (S (S (S (length R))) - 3)%nat with (3 + (length R - 3))%nat by lia.
    reflexivity.
Qed.

(** an alignment row translates to the Sequence-level translation of its residues, with "-" kept
    where the row has gap triplets (and where the trimmed stop codon was) *)
Lemma aln_row_is_sequence_level id aa st eff inc ws :
  In (id, aa, st) new_codes -> row_wf ws ->
  option_map drop_gaps (aln_row_spec (ncbi_tbl id) eff inc ws)
  = stop_spec (ncbi_tbl id) eff inc true (row_residues ws).
Proof.
  intros Hin Hw. rewrite stop_spec_unfold. unfold aln_row_spec. cbv zeta.
  set (ws' := if eff then trim_row (ncbi_tbl id) ws else ws).
  assert (Hw' : row_wf ws') by (unfold ws'; destruct eff; [apply trim_row_wf|]; exact Hw).
  assert (Hres : (if eff then trim_spec (ncbi_tbl id) (negb true) (row_residues ws) else Some (row_residues ws))
                 = Some (row_residues ws')).
  { unfold ws'. destruct eff; [|reflexivity]. unfold trim_spec.
    destruct (residues_canon ws Hw) as [_ Hm]. rewrite Hm. cbn [Z.eqb]. f_equal.
    rewrite (residues_trim_row _ ws Hw), <- (row_has_tstop_tstop _ ws Hw). reflexivity. }
  rewrite Hres. rewrite <- (drop_gaps_row id aa st ws' Hin Hw'), has_stop_drop_gaps.
  destruct (negb inc && has_stop (map (triplet_aa (ncbi_tbl id)) ws')); reflexivity.
Qed.

(* ------------------------------------------------------------------ app.translate: best_frame, select_translatable *)

(** the frames best_frame looks at are the specification's frames *)
Definition spec_frames (tbl : list Z) (s : list Z) (allow_rc : bool) : list (list Z) :=
  if allow_rc then six_frames_spec tbl s else map (frame_plus tbl s) [0; 1; 2]%nat.

Lemma best_frame_unfold id aa st s allow_rc :
  In (id, aa, st) new_codes -> canon_str s -> 2 < zlen s ->
  best_frame aa s allow_rc =
  match first_open (map strip_terminal_stop (spec_frames (ncbi_tbl id) s allow_rc)) 0 with
  | Some i => Ok (if allow_rc && (3 <=? i) then 2 - i else i + 1)
  | None => Err E_Value
  end.
Proof.
  intros Hin Hs Hl. unfold best_frame. rewrite (sixframes_old_spec_lemma id aa st s Hin Hs Hl). cbn [bind].
  unfold spec_frames. destruct allow_rc; reflexivity.
Qed.

Lemma first_open_spec l k i :
  first_open l k = Some i ->
  k <= i < k + zlen l /\
  memZ ch_star (nth (Z.to_nat (i - k)) l []) = false /\
  (forall j, (j < Z.to_nat (i - k))%nat -> memZ ch_star (nth j l []) = true).
Proof.
  revert k. induction l as [|p r IH]; intros k; cbn [first_open]; [discriminate|].
  destruct (memZ ch_star p) eqn:E.
  - intros H. destruct (IH (k + 1) H) as (Hr & Hn & Hj). rewrite zlen_cons.
    replace (Z.to_nat (i - k)) with (S (Z.to_nat (i - (k + 1)))) by lia.
    split; [lia|]. split; [exact Hn|]. intros [|j] Hlt; [exact E|]. apply Hj. lia.
  - intros H. injection H as <-. rewrite zlen_cons, Z.sub_diag. pose proof (zlen_nonneg r).
    split; [lia|]. split; [exact E|]. intros j Hj. lia.
Qed.

(** best_frame returns the FIRST frame (order +1 +2 +3 -1 -2 -3) whose translation holds no stop
    codon other than a terminal one; minus frames are frames of the reverse complement *)
Definition frame_index (f : Z) : nat := Z.to_nat (if 0 <? f then f - 1 else 2 - f).

Lemma best_frame_spec_lemma id aa st s allow_rc f :
  In (id, aa, st) new_codes -> canon_str s -> 2 < zlen s ->
  best_frame aa s allow_rc = Ok f ->
  let frames := map strip_terminal_stop (spec_frames (ncbi_tbl id) s allow_rc) in
  (1 <= f <= 3 \/ (allow_rc = true /\ -3 <= f <= -1)) /\
  has_stop (nth (frame_index f) frames []) = false /\
  (forall j, (j < frame_index f)%nat -> has_stop (nth j frames []) = true).
Proof.
  intros Hin Hs Hl H. cbv zeta. rewrite (best_frame_unfold id aa st s allow_rc Hin Hs Hl) in H.
  destruct (first_open _ 0) as [i|] eqn:E; [|discriminate]. apply Ok_inj in H.
  destruct (first_open_spec _ 0 i E) as (Hr & Hn & Hj). rewrite Z.sub_0_r in Hn, Hj.
  assert (Hlen : zlen (map strip_terminal_stop (spec_frames (ncbi_tbl id) s allow_rc)) = if allow_rc then 6 else 3).
  { rewrite zlen_map. unfold spec_frames. destruct allow_rc; reflexivity. }
  rewrite Hlen in Hr.
  assert (Hi : frame_index f = Z.to_nat i).
  { unfold frame_index. subst f. destruct allow_rc; cbn [andb]; [destruct (3 <=? i) eqn:E3|]; f_equal;
      match goal with |- (if ?b then _ else _) = _ => destruct b eqn:Eb; lia end. }
  rewrite Hi. split.
  - subst f. destruct allow_rc; cbn [andb]; [destruct (3 <=? i) eqn:E3|]; lia.
  - split; [exact Hn|exact Hj].
Qed.

(** select_translatable on one canonical sequence: the whole codons of the chosen frame, read on the
    reverse complement when the frame is negative (reverse complement FIRST, then the offset) *)
Definition frame_window (s : list Z) (f : Z) : list Z :=
  let t := if f <? 0 then rc_spec s else s in
  let r := skipn (Z.to_nat (Z.abs f - 1)) t in
  firstn (Z.to_nat (zlen r - zlen r mod 3)) r.

Lemma frame_window_translation tbl s f :
  translate_spec tbl (frame_window s f)
  = (if f <? 0 then frame_minus tbl s (Z.to_nat (Z.abs f - 1)) else frame_plus tbl s (Z.to_nat (Z.abs f - 1))).
Proof.
  unfold frame_window, frame_minus, frame_plus, translate_spec. cbv zeta.
  rewrite !codons_chunks3, <- trunc3_firstn, chunks3_trunc3. destruct (f <? 0); reflexivity.
Qed.

Lemma window_eq {A} (t : list A) off :
  0 <= off <= zlen t ->
  firstn (Z.to_nat (3 * ((zlen t - off) / 3))) (skipn (Z.to_nat off) t)
  = firstn (Z.to_nat (zlen (skipn (Z.to_nat off) t) - zlen (skipn (Z.to_nat off) t) mod 3)) (skipn (Z.to_nat off) t).
Proof.
  intros H. f_equal.
  assert (Hsk : zlen (skipn (Z.to_nat off) t) = zlen t - off).
  { unfold zlen. rewrite skipn_length. unfold zlen in *. lia. }
  rewrite Hsk. lia.
Qed.

Lemma select_one_spec_lemma id aa st s allow_rc trim f :
  In (id, aa, st) new_codes -> canon_str s -> 2 < zlen s ->
  best_frame aa s allow_rc = Ok f ->
  select_translatable_one true aa s allow_rc trim
  = if trim then trim_spec (ncbi_tbl id) false (frame_window s f) else Some (frame_window s f).
Proof.
  intros Hin Hs Hl Hf.
  destruct (best_frame_spec_lemma id aa st s allow_rc f Hin Hs Hl Hf) as (Hr & _).
  assert (Hcw : canon_str (frame_window s f)).
  { unfold frame_window. cbv zeta. apply canon_firstn, canon_skipn. destruct (f <? 0); [apply canon_rc|]; exact Hs. }
  assert (Hfinish : forall w, w = frame_window s f ->
            (if trim then match trim_stop_codon true Old aa w false with Ok w' => Some w' | Err _ => None end else Some w)
            = (if trim then trim_spec (ncbi_tbl id) false (frame_window s f) else Some (frame_window s f))).
  { intros w ->. destruct trim; [|reflexivity].
    destruct (trim_stop_codon_canon Old id aa st (frame_window s f) false Hin Hcw) as [Hts _].
    destruct (trim_stop_codon true Old aa (frame_window s f) false); cbn [ropt] in Hts; exact Hts. }
  unfold select_translatable_one. cbv zeta. rewrite (degap_canon s Hs), Hf. cbv beta iota.
  change dna_comp_old with (comp_table Old DNA). rewrite (rc_pure_canon Old s Hs).
  apply Hfinish. unfold frame_window. cbv zeta.
  destruct (f <? 0) eqn:Ef; apply window_eq; rewrite ?zlen_rc_spec; lia.
Qed.

(* ------------------------------------------------------------------ sequence objects as views *)

(** what the operations mean on the string a sequence shows *)
Definition str_op (tbl : list (Z * Z)) (t : str) (o : vop) : str :=
  match o with
  | ORc => rev (complement_pure tbl t)
  | OComp => complement_pure tbl t
  | OSlice a b => pyslice t a b
  end.
Fixpoint str_trace (tbl : list (Z * Z)) (t : str) (ops : list vop) : list str :=
  match ops with
  | [] => []
  | o :: r => let t' := str_op tbl t o in t' :: str_trace tbl t' r
  end.

Lemma my_firstn_map {A B} (f : A -> B) n l : firstn n (map f l) = map f (firstn n l).
Proof. revert l. induction n as [|n IH]; intros [|a l]; cbn; try reflexivity. rewrite IH. reflexivity. Qed.
Lemma my_skipn_map {A B} (f : A -> B) n l : skipn n (map f l) = map f (skipn n l).
Proof. revert l. induction n as [|n IH]; intros [|a l]; cbn; try reflexivity. apply IH. Qed.

Lemma pyslice_map {A B} (f : A -> B) s a b : pyslice (map f s) a b = map f (pyslice s a b).
Proof. unfold pyslice. cbv zeta. rewrite zlen_map, my_skipn_map, my_firstn_map. reflexivity. Qed.

Lemma complement_rev tbl (s : str) : complement_pure tbl (rev s) = rev (complement_pure tbl s).
Proof. unfold complement_pure. first [rewrite map_rev; reflexivity | rewrite <- map_rev; reflexivity]. Qed.

(** one operation on a sequence object -- whatever its view state -- acts on the string it shows as
    the string operation does: complement() = complement_string, rc() = reverse o complement_string *)
Lemma sview_op_str_lemma v m sv o :
  sview_str (comp_table v m) (sview_op (comp_table v m) sv o)
  = str_op (comp_table v m) (sview_str (comp_table v m) sv) o.
Proof.
  destruct sv as [u r]. destruct o as [| |a b]; destruct r; unfold sview_op, sview_str, str_op; cbn [sv_under sv_rev negb].
  - rewrite complement_pure_involutive. reflexivity.
  - apply complement_rev.
  - reflexivity.
  - reflexivity.
  - unfold complement_pure. rewrite pyslice_map. reflexivity.
  - reflexivity.
Qed.

Lemma sview_trace_lemma v m sv ops :
  sview_trace (comp_table v m) sv ops = str_trace (comp_table v m) (sview_str (comp_table v m) sv) ops.
Proof.
  revert sv. induction ops as [|o r IH]; intros sv; [reflexivity|].
  cbn [sview_trace str_trace]. cbv zeta. rewrite IH, sview_op_str_lemma. reflexivity.
Qed.

(** complement of a pending-rc view: complement o rc = reverse, rc o rc = identity, on the shown string *)
Lemma complement_of_rc_lemma v m s :
  sview_str (comp_table v m) (sview_op (comp_table v m) (sview_op (comp_table v m) (mk_sview s false) ORc) OComp) = rev s
  /\ sview_str (comp_table v m) (sview_op (comp_table v m) (sview_op (comp_table v m) (mk_sview s false) ORc) ORc) = s.
Proof.
  rewrite !sview_op_str_lemma. unfold sview_str, str_op. cbn [sv_rev sv_under]. split.
  - rewrite <- complement_rev, complement_pure_involutive. reflexivity.
  - change (rev (complement_pure (comp_table v m) (rev (complement_pure (comp_table v m) s))))
      with (rc_pure (comp_table v m) (rc_pure (comp_table v m) s)).
    apply rc_pure_involutive.
Qed.
