From CG3 Require Import Lib.PyZ Lib.Val Lib.Rose Model.Tree Model.TreeJson Proofs.NewickProofs.

(** C09 — more write-then-parse identities, re-using Proofs/NewickProofs.v:
    (1) [newick_roundtrip_id_nounmunge]: [make_tree(get_newick(...), underscore_unmunge=False)];
    (2) [json_roundtrip_fixed_id]: the repaired JSON writer of Model/TreeJson.v.
    The token-generator lemmas of NewickProofs.v are restated for an arbitrary
    [unmunge] flag; the lexer and parser lemmas are re-used unchanged. *)

(* ================================================================== *)
(** * 1. the token generator for an arbitrary [unmunge] flag *)

Definition TLu (u : bool) (s : list Z) : list (res (option name)) := tok_loop u (lex s LNone []) None None.
Definition fin (u : bool) (t : name) : name := if u then us_to_blank t else t.

Lemma toku_punct u d R : is_sepch d \/ d = c_open ->
  tok_loop u ([d] :: R) None None = Ok (Some [d]) :: tok_loop u R None None.
Proof. intros [[->|[->|[->| ->]]]| ->]; reflexivity. Qed.

Lemma TLu_punct u d r : is_sepch d \/ d = c_open -> TLu u (d :: r) = Ok (Some [d]) :: TLu u r.
Proof. intros H. unfold TLu. rewrite lex_sep by exact H. cbn [flush app]. apply toku_punct, H. Qed.

Lemma TLu_nil u : TLu u [] = [Ok None].
Proof. reflexivity. Qed.

Lemma toku_sep_after_word u d c w R : is_sepch d ->
  tok_loop u ([d] :: R) (Some (c :: w)) None
  = Ok (Some (fin u (strip (c :: w)))) :: Ok (Some [d]) :: tok_loop u R None None.
Proof. intros [->|[->|[->| ->]]]; reflexivity. Qed.

Lemma tokuq_many u L : Forall okq L -> forall t R,
  tok_loop u (L ++ R) (Some t) (Some [c_sq]) = tok_loop u R (Some (t ++ concat (map unq L))) (Some [c_sq]).
Proof.
  induction 1 as [|tok L (Ha & Hb) _ IH]; intros t R.
  - cbn [map concat app]. rewrite app_nil_r. reflexivity.
  - cbn [app tok_loop]. rewrite Ha, Hb. cbn [map app]. rewrite IH. cbn [map concat]. fold (unq tok).
    rewrite app_assoc. reflexivity.
Qed.

Lemma tokuq_close u t R : tok_loop u ([c_sq] :: R) (Some t) (Some [c_sq]) = Ok (Some t) :: tok_loop u R None None.
Proof. reflexivity. Qed.
Lemma tokuq_open u R : tok_loop u ([c_sq] :: R) None None = tok_loop u R (Some []) (Some [c_sq]).
Proof. reflexivity. Qed.

Lemma toku_flush u h tl X txt : wordc h ->
  (txt = None -> chunkc h /\ is_pyspace h = false) ->
  tok_loop u ((h :: tl) :: X) txt None = tok_loop u X (Some (tget txt ++ h :: tl)) None.
Proof.
  intros Hw Ht. cbn [tok_loop]. rewrite (wordc_not_breaker h tl Hw).
  destruct txt as [t|]; [reflexivity|].
  destruct (Ht eq_refl) as [(H1 & H2 & H3 & H4 & H5) Hp].
  unfold list_eqb. cbn [str_eqb]. rewrite H3, H4. cbn [andb orb].
  destruct (strip_nonempty h tl Hp) as (x & y & ->). reflexivity.
Qed.

Lemma tokuw u w : Forall wordc w -> forall m acc txt d r h tl,
  m <> LNone -> rev acc = h :: tl -> wordc h ->
  (txt = None -> m = LChunk /\ chunkc h /\ is_pyspace h = false) -> is_sepch d ->
  tok_loop u (lex (w ++ d :: r) m acc) txt None
  = tok_loop u ([d] :: lex r LNone []) (Some (tget txt ++ rev acc ++ w)) None.
Proof.
  induction 1 as [|c w Hc _ IH]; intros m acc txt d r h tl Hm Hr Hh Ht Hd.
  - cbn [app]. rewrite lex_sep by (left; exact Hd). rewrite app_nil_r.
    assert (flush m acc = [rev acc]) as -> by (destruct m; [congruence|reflexivity|reflexivity]).
    cbn [app]. rewrite Hr. apply toku_flush; [exact Hh|]. intros E. destruct (Ht E) as (_ & ? & ?). auto.
  - cbn [app]. destruct (wordc_cases c Hc) as [Hb|Hch].
    + rewrite lex_blank by exact Hb. destruct m; [congruence| |].
      * cbn [flush app]. rewrite Hr. rewrite toku_flush; [|exact Hh|intros E; destruct (Ht E) as (_ & ? & ?); auto].
        rewrite (IH LBlank [c] _ d r c []); [|congruence|reflexivity|exact Hc|discriminate|exact Hd].
        cbn [tget rev app]. rewrite <- !app_assoc. reflexivity.
      * rewrite (IH LBlank (c :: acc) txt d r h (tl ++ [c])); [|congruence|cbn [rev]; rewrite Hr; reflexivity|exact Hh| |exact Hd].
        -- cbn [rev]. rewrite <- !app_assoc. reflexivity.
        -- intros E. destruct (Ht E) as (? & _). discriminate.
    + rewrite lex_chunk1 by exact Hch. destruct m; [congruence| |].
      * rewrite (IH LChunk (c :: acc) txt d r h (tl ++ [c])); [|congruence|cbn [rev]; rewrite Hr; reflexivity|exact Hh| |exact Hd].
        -- cbn [rev]. rewrite <- !app_assoc. reflexivity.
        -- intros E. destruct (Ht E) as (_ & ? & ?). auto.
      * cbn [flush app]. rewrite Hr. rewrite toku_flush; [|exact Hh|intros E; destruct (Ht E) as (? & _); discriminate].
        rewrite (IH LChunk [c] _ d r c []); [|congruence|reflexivity|exact Hc|discriminate|exact Hd].
        cbn [tget rev app]. rewrite <- !app_assoc. reflexivity.
Qed.

(** unquoted label followed by a separator *)
Lemma TLu_word u c w d r : chunkc c -> Forall wordc w ->
  is_pyspace c = false -> is_pyspace (hd 0 (rev (c :: w))) = false -> is_sepch d ->
  TLu u ((c :: w) ++ d :: r) = Ok (Some (fin u (c :: w))) :: Ok (Some [d]) :: TLu u r.
Proof.
  intros Hc Hw Hp Hl Hd. unfold TLu. cbn [app]. rewrite (lex_chunk1 _ _ _ _ Hc). cbn [flush app].
  rewrite (tokuw u w Hw LChunk [c] None d r c []); [|congruence|reflexivity|apply chunkc_wordc, Hc|auto|exact Hd].
  cbn [tget rev app]. rewrite toku_sep_after_word by exact Hd.
  rewrite strip_id' by assumption. reflexivity.
Qed.

(** quoted label followed by a character other than a quote *)
Lemma TLu_quoted u c s d r : (c =? c_sq) = false -> Forall (fun c => (c =? c_nl) = false) (c :: s) -> (d =? c_sq) = false ->
  TLu u (c_sq :: double_sq (c :: s) ++ c_sq :: d :: r) = Ok (Some (c :: s)) :: TLu u (d :: r).
Proof.
  intros Hc Hnl Hd. unfold TLu.
  destruct (lexq (length (c :: s)) (c :: s) (le_n _) Hnl LNone [] d r (or_introl eq_refl) Hd) as (L & HL & HoL & HcL).
  assert (Hds : double_sq (c :: s) = c :: double_sq s).
  { change (double_sq (c :: s)) with ((if c =? c_sq then [c_sq; c_sq] else [c]) ++ double_sq s). rewrite Hc. reflexivity. }
  assert (E : lex (c_sq :: double_sq (c :: s) ++ c_sq :: d :: r) LNone []
              = [c_sq] :: lex (double_sq (c :: s) ++ c_sq :: d :: r) LNone []).
  { rewrite Hds. cbn [app]. rewrite lex_sq1 by exact Hc. reflexivity. }
  rewrite E, HL, tokuq_open, tokuq_many by exact HoL. rewrite tokuq_close, HcL. reflexivity.
Qed.

Lemma numchars_plain w : Forall is_numchar w ->
  Forall chunkc w /\ Forall (fun c => is_pyspace c = false) w /\ us_to_blank w = w.
Proof.
  induction 1 as [|c w Hc _ IH]; [repeat split; constructor|].
  destruct IH as (Ia & Ib & Ic). destruct (numchar_plain c Hc) as (Pa & Pb & Pc).
  repeat split; [constructor; assumption|constructor; assumption|].
  unfold us_to_blank in *. cbn [map]. rewrite Pc, Ic. reflexivity.
Qed.

Lemma hd_rev_Forall (P : Z -> Prop) l : P 0 -> Forall P l -> P (hd 0 (rev l)).
Proof.
  intros H0 HF. destruct (rev l) as [|x r] eqn:E; [exact H0|]. cbn [hd].
  rewrite Forall_forall in HF. apply HF, in_rev. rewrite E. left; reflexivity.
Qed.

Lemma TLu_num u z d r : is_sepch d -> TLu u (dec z ++ d :: r) = Ok (Some (dec z)) :: Ok (Some [d]) :: TLu u r.
Proof.
  intros Hd. destruct (dec_spec z) as (Hne & HF & _).
  destruct (numchars_plain _ HF) as (Ha & Hb & Hc).
  pose proof (hd_rev_Forall (fun c => is_pyspace c = false) (dec z) eq_refl Hb) as Hl.
  destruct (dec z) as [|c w]; [congruence|].
  inversion Ha as [|? ? Ha1 Ha2]; subst. inversion Hb; subst.
  rewrite TLu_word; try assumption.
  - unfold fin. rewrite Hc. destruct u; reflexivity.
  - eapply Forall_impl; [|exact Ha2]. apply chunkc_wordc.
Qed.

Lemma TLu_len u l d r : is_sepch d -> TLu u (ltext l ++ d :: r) = map Ok (ltoks l) ++ Ok (Some [d]) :: TLu u r.
Proof.
  intros Hd. destruct l as [z|]; cbn [ltext ltoks map app].
  - rewrite TLu_punct by (left; right; right; left; reflexivity). rewrite TLu_num by exact Hd. reflexivity.
  - apply TLu_punct. left; exact Hd.
Qed.

(* ================================================================== *)
(** * 2. a printer generic in the name-escaping function *)

Fixpoint gnode (esc : name -> name) (is_root : bool) (t : tree) : list Z :=
  match t with
  | Node n l cs =>
      (match cs with
       | [] => []
       | _ => [c_open] ++ join_with [c_comma] (map (gnode esc false) cs) ++ [c_close]
       end)
      ++ (if is_root then [] else esc n) ++ ltext l
  end.

Definition gktext (esc : name -> name) (cs : list tree) : list Z :=
  match cs with
  | [] => []
  | _ => [c_open] ++ join_with [c_comma] (map (gnode esc false) cs) ++ [c_close]
  end.

Lemma gnode_eq esc is_root n l cs :
  gnode esc is_root (Node n l cs) = gktext esc cs ++ (if is_root then [] else esc n) ++ ltext l.
Proof. reflexivity. Qed.

Lemma map_ext_F {A B} (f g : A -> B) l : Forall (fun x => f x = g x) l -> map f l = map g l.
Proof. induction 1 as [|x l Hx _ IH]; cbn [map]; [reflexivity|]. rewrite Hx, IH. reflexivity. Qed.

Section Generic.
  Variables (u : bool) (esc : name -> name) (p : name -> bool).
  Hypothesis Hesc : forall n d r, p n = true -> is_sepch d ->
    TLu u (esc n ++ d :: r) = Ok (Some n) :: Ok (Some [d]) :: TLu u r.

  Definition gtokP (t : tree) : Prop := allnames p t = true -> forall d r, is_sepch d ->
    TLu u (gnode esc false t ++ d :: r) = map Ok (toks t) ++ Ok (Some [d]) :: TLu u r.

  Lemma G_join cs : Forall gtokP cs -> forallb (allnames p) cs = true -> cs <> [] -> forall r,
    TLu u (join_with [c_comma] (map (gnode esc false) cs) ++ c_close :: r)
    = map Ok (join [Some [c_comma]] (map toks cs)) ++ Ok (Some [c_close]) :: TLu u r.
  Proof.
    induction 1 as [|c cs Hc HF IH]; intros Hg Hne r; [congruence|].
    cbn [forallb] in Hg. apply andb_true_iff in Hg. destruct Hg as [Hg1 Hg2].
    destruct cs as [|c2 cs].
    - cbn [map join_with join]. apply Hc; [exact Hg1|left; reflexivity].
    - change (join_with [c_comma] (map (gnode esc false) (c :: c2 :: cs)))
        with (gnode esc false c ++ [c_comma] ++ join_with [c_comma] (map (gnode esc false) (c2 :: cs))).
      change (join [Some [c_comma]] (map toks (c :: c2 :: cs)))
        with (toks c ++ [Some [c_comma]] ++ join [Some [c_comma]] (map toks (c2 :: cs))).
      rewrite <- !app_assoc. cbn [app].
      rewrite Hc; [|exact Hg1|right; left; reflexivity].
      rewrite IH; [|exact Hg2|congruence]. rewrite !map_app. cbn [map]. rewrite <- app_assoc. reflexivity.
  Qed.

  Lemma G_kids cs : Forall gtokP cs -> forallb (allnames p) cs = true -> forall X,
    TLu u (gktext esc cs ++ X) = map Ok (ktoks cs) ++ TLu u X.
  Proof.
    intros HF Hg X. destruct cs as [|c cs]; [reflexivity|].
    unfold gktext, ktoks. rewrite <- !app_assoc. cbn [app].
    rewrite TLu_punct by (right; reflexivity). rewrite G_join; [|exact HF|exact Hg|congruence].
    cbn [map app]. rewrite map_app, <- app_assoc. reflexivity.
  Qed.

  Lemma g_node t : gtokP t.
  Proof.
    induction t as [n l cs IH] using tree_ind'. intros Hg d r Hd.
    cbn [allnames] in Hg. apply andb_true_iff in Hg. destruct Hg as [Hn Hcs].
    rewrite gnode_eq, toks_eq. rewrite <- !app_assoc. rewrite G_kids by assumption.
    rewrite map_app. cbn [map]. rewrite <- app_assoc. f_equal.
    destruct l as [z|]; cbn [ltext ltoks map app].
    - rewrite Hesc; [|exact Hn|right; right; left; reflexivity]. rewrite TLu_num by exact Hd. reflexivity.
    - rewrite Hesc by assumption. reflexivity.
  Qed.

  Lemma G_top cs X : forallb (allnames p) cs = true -> TLu u (gktext esc cs ++ X) = map Ok (ktoks cs) ++ TLu u X.
  Proof. intros Hg. apply G_kids; [apply Forall_forall; intros; apply g_node|exact Hg]. Qed.
End Generic.

(* ---- helpers on character classes ---- *)
Lemma existsb_false_Forall {A} (f : A -> bool) l : existsb f l = false -> Forall (fun x => f x = false) l.
Proof.
  induction l as [|x l IH]; cbn [existsb]; intros H; [constructor|].
  apply orb_false_iff in H. destruct H. constructor; auto.
Qed.

Lemma forallb_negb_Forall (f : Z -> bool) l : forallb (fun c => negb (f c)) l = true -> Forall (fun x => f x = false) l.
Proof.
  rewrite forallb_forall. intros H. apply Forall_forall. intros x Hx. apply negb_true_iff, H, Hx.
Qed.

Lemma noblank_wordc c : needs_quote_char c = false -> (c =? c_nl) = false -> (c =? c_sp) = false -> wordc c.
Proof.
  unfold needs_quote_char, wordc, is_delim1,
    c_rbr, c_lbr, c_sq, c_dq, c_open, c_close, c_comma, c_colon, c_semi, c_us, c_sp, c_tab, c_nl.
  intros H1 H2 H3. repeat split; lia.
Qed.

Lemma wordc_chunkc c : wordc c -> is_pyspace c = false -> chunkc c.
Proof.
  unfold wordc, chunkc, is_pyspace, is_blank, is_delim1,
    c_rbr, c_lbr, c_sq, c_dq, c_open, c_close, c_comma, c_colon, c_semi, c_us, c_sp, c_tab, c_nl.
  intros (H1 & H2 & H3 & H4 & H5) H6. repeat split; lia.
Qed.

Lemma b2u_id n : Forall (fun c => (c =? c_sp) = false) n -> blanks_to_us n = n.
Proof. induction 1 as [|c n Hc _ IH]; cbn [blanks_to_us map]; [reflexivity|]. unfold blanks_to_us in IH. rewrite Hc, IH. reflexivity. Qed.

(** an unquoted, blank-free label with [unmunge = false] *)
Lemma TLf_plain c s d r :
  Forall (fun x => needs_quote_char x = false) (c :: s) -> Forall (fun x => (x =? c_nl) = false) (c :: s) ->
  Forall (fun x => (x =? c_sp) = false) (c :: s) ->
  is_pyspace c = false -> is_pyspace (hd 0 (rev (c :: s))) = false -> is_sepch d ->
  TLu false ((c :: s) ++ d :: r) = Ok (Some (c :: s)) :: Ok (Some [d]) :: TLu false r.
Proof.
  intros H1 H2 H3 Hp Hl Hd.
  assert (Hw : Forall wordc (c :: s)).
  { rewrite Forall_forall in *. intros x Hx. apply noblank_wordc; auto. }
  inversion Hw as [|? ? Hwc Hws]; subst.
  rewrite TLu_word; [reflexivity| | | | |]; try assumption. apply wordc_chunkc; assumption.
Qed.

Lemma sep_not_sq d : is_sepch d -> (d =? c_sq) = false.
Proof. intros [->|[->|[->| ->]]]; reflexivity. Qed.

(* ================================================================== *)
(** * 3. [make_tree(get_newick(...), underscore_unmunge=False)] *)

Lemma newick_gnode t : forall r, newick_node true true r t = gnode escape_name r t.
Proof.
  induction t as [n l cs IH] using tree_ind'. intros r. rewrite newick_node_eq, gnode_eq.
  unfold ktext, gktext. rewrite (map_ext_F (newick_node true true false) (gnode escape_name false) cs); [reflexivity|].
  eapply Forall_impl; [|exact IH]. intros c Hc. apply Hc.
Qed.

(** per-name guard, text level, when underscores are NOT turned back into
    blanks: as [name_okb], and in addition a name written without quotes
    contains no blank (it would come back with an underscore instead) *)
Definition name_nu_okb (n : name) : bool :=
  match n with [] => false | _ => true end
  && negb (starts_with_sq n)
  && forallb (fun c => negb (c =? c_nl)) n
  && (existsb needs_quote_char n
      || (forallb (fun c => negb (c =? c_sp)) n
          && negb (is_pyspace (hd 0 n)) && negb (is_pyspace (hd 0 (rev n))))).

Lemma TL_name_nu n d r : name_nu_okb n = true -> is_sepch d ->
  TLu false (escape_name n ++ d :: r) = Ok (Some n) :: Ok (Some [d]) :: TLu false r.
Proof.
  unfold name_nu_okb. intros H Hd. apply andb_true_iff in H. destruct H as [H H4].
  apply andb_true_iff in H. destruct H as [H H3].
  apply andb_true_iff in H. destruct H as [H1 H2]. apply negb_true_iff in H2.
  unfold escape_name. rewrite H2. cbn [andb].
  pose proof (forallb_negb_Forall (fun c => c =? c_nl) n H3) as Hnl. cbv beta in Hnl.
  destruct n as [|c s]; [discriminate|].
  destruct (existsb needs_quote_char (c :: s)) eqn:E.
  - rewrite <- !app_assoc. cbn [app].
    rewrite TLu_quoted; [rewrite TLu_punct by (left; exact Hd); reflexivity|exact H2|exact Hnl|apply sep_not_sq, Hd].
  - cbn [orb] in H4. apply andb_true_iff in H4. destruct H4 as [H4 H6].
    apply andb_true_iff in H4. destruct H4 as [H4 H5].
    apply negb_true_iff in H5. apply negb_true_iff in H6.
    pose proof (forallb_negb_Forall (fun c => c =? c_sp) _ H4) as Hsp. cbv beta in Hsp.
    rewrite (b2u_id _ Hsp).
    apply TLf_plain; try assumption. apply existsb_false_Forall, E.
Qed.

Definition nm_nu_okb (n : name) : bool := name_nu_okb n && punct_okb n.

(** [rt_ok] with [name_okb] replaced by the stronger [name_nu_okb] *)
Definition rt_ok_nu (t : tree) : bool :=
  str_eqb (tname t) root_name
  && forallb (allnames nm_nu_okb) (kids t)
  && nodupb (pnames_l (kids t))
  && negb (memb edge_str (pnames_l (kids t))).

Lemma name_okb_nonempty_gen (q : name -> bool) cs :
  (forall n, q n = true -> n <> []) -> forallb (allnames q) cs = true ->
  forall m, In m (pnames_l cs) -> m <> [].
Proof.
  intros Hq Hn m Hm. unfold pnames_l in Hm. apply in_flat_map in Hm. destruct Hm as (c & Hc & Hm).
  rewrite forallb_forall in Hn. apply Hq. exact (allnames_pnames _ _ (Hn c Hc) m Hm).
Qed.

Lemma freshl_used0 cs : nodupb (pnames_l cs) = true -> memb edge_str (pnames_l cs) = false ->
  (forall m, In m (pnames_l cs) -> m <> []) -> freshl used0 (pnames_l cs).
Proof.
  intros H3 H4 Hne. apply freshl_of_nodup; [exact H3|]. intros m Hm. split; [apply Hne, Hm|].
  cbn [used0 used_get]. destruct (str_eqb edge_str m) eqn:E; [|reflexivity].
  apply str_eqb_eq in E. subst m. apply memb_false_In in H4. contradiction.
Qed.

Theorem tokenise_get_newick_nu t : forallb (allnames name_nu_okb) (kids t) = true ->
  tokenise false (get_newick true true true t) = map Ok (toptoks t) ++ [Ok None].
Proof.
  destruct t as [n l cs]. cbn [kids]. intros Hg.
  unfold get_newick. rewrite newick_gnode, gnode_eq. change (tokenise false ?s) with (TLu false s).
  rewrite <- !app_assoc. cbn [app]. rewrite (G_top false escape_name name_nu_okb TL_name_nu) by exact Hg.
  unfold toptoks. cbn [kids tlen]. rewrite !map_app, <- !app_assoc. f_equal.
  rewrite TLu_len by (right; right; right; reflexivity). cbn [map app]. rewrite TLu_nil. reflexivity.
Qed.

Theorem newick_roundtrip_id_nounmunge : forall t, rt_ok_nu t = true -> newick_roundtrip false t = Ok t.
Proof.
  intros t H. unfold rt_ok_nu in H.
  apply andb_true_iff in H. destruct H as [H H4]. apply andb_true_iff in H. destruct H as [H H3].
  apply andb_true_iff in H. destruct H as [H1 H2].
  apply str_eqb_eq in H1. apply negb_true_iff in H4.
  assert (Hn : forallb (allnames name_nu_okb) (kids t) = true).
  { eapply forallb_allnames_impl; [|exact H2]. intros n Hn. unfold nm_nu_okb in Hn. apply andb_true_iff in Hn. tauto. }
  assert (Hp : forallb (allnames punct_okb) (kids t) = true).
  { eapply forallb_allnames_impl; [|exact H2]. intros n Hn'. unfold nm_nu_okb in Hn'. apply andb_true_iff in Hn'. tauto. }
  assert (Hfr : freshl used0 (pnames_l (kids t))).
  { apply freshl_used0; [exact H3|exact H4|].
    apply (name_okb_nonempty_gen name_nu_okb); [|exact Hn]. intros n Ho ->. discriminate Ho. }
  unfold newick_roundtrip, make_tree. rewrite has_semi. cbn [negb]. rewrite andb_false_r. cbn [andb].
  unfold make_tree_tokens. rewrite (tokenise_get_newick_nu t Hn).
  destruct (parse_toptoks t [Ok None] Hp Hfr) as [n' Hpl]. rewrite Hpl.
  destruct t as [n l cs]. cbn [tname] in H1. subst n. reflexivity.
Qed.

(** the guard is [rt_ok] strengthened *)
Lemma name_nu_okb_okb n : name_nu_okb n = true -> name_okb n = true.
Proof.
  unfold name_nu_okb, name_okb. intros H. apply andb_true_iff in H. destruct H as [H H4]. rewrite H. cbn [andb].
  destruct (existsb needs_quote_char n); [reflexivity|]. cbn [orb] in *.
  apply andb_true_iff in H4. destruct H4 as [H4 H6]. apply andb_true_iff in H4. destruct H4 as [H4 H5].
  unfold edge_okb. rewrite H5, H6. reflexivity.
Qed.

Lemma rt_ok_nu_rt_ok t : rt_ok_nu t = true -> rt_ok t = true.
Proof.
  unfold rt_ok_nu, rt_ok. intros H.
  apply andb_true_iff in H. destruct H as [H H4]. apply andb_true_iff in H. destruct H as [H H3].
  apply andb_true_iff in H. destruct H as [H1 H2]. rewrite H1, H3, H4.
  rewrite (forallb_allnames_impl nm_nu_okb nm_okb _ ltac:(
    intros n Hn; unfold nm_nu_okb, nm_okb in *; apply andb_true_iff in Hn; destruct Hn as [Ha Hb];
    rewrite (name_nu_okb_okb _ Ha), Hb; reflexivity) H2). reflexivity.
Qed.

Definition ex_tree_nu : tree :=
  Node root_name (Some 3)
    [ Node [97] (Some 1) [];
      Node [97; 32; 98; 95] None
        [ Node [120; 95; 121] (Some (-12)) [];
          Node [105; 116; 39; 115] (Some 0) [];
          Node [34; 34; 39] None [] ];
      Node [32; 99; 58; 32] (Some 100) [];
      Node root_name None [Node [58; 58] (Some 7) []; Node [97; 9; 98] None []] ].

Example ex_tree_nu_ok : rt_ok_nu ex_tree_nu = true.
Proof. vm_compute. reflexivity. Qed.
Example ex_tree_nu_roundtrip : newick_roundtrip false ex_tree_nu = Ok ex_tree_nu.
Proof. apply newick_roundtrip_id_nounmunge, ex_tree_nu_ok. Qed.
(** [ex_tree] of NewickProofs.v (unquoted names with blanks) passes [rt_ok] but not [rt_ok_nu],
    and indeed comes back with underscores *)
Example ex_tree_not_nu : rt_ok_nu ex_tree = false /\ newick_roundtrip false ex_tree <> Ok ex_tree.
Proof. split; [vm_compute; reflexivity|vm_compute; discriminate]. Qed.

(* ================================================================== *)
(** * 4. the repaired JSON writer *)

(** the tree with every length erased: what the name-only text parses to *)
Fixpoint strip_len (t : tree) : tree :=
  match t with Node n _ cs => Node n None (map strip_len cs) end.

Lemma qb_gnode t : forall r, newick_node_qb r t = gnode escape_name_qb r (strip_len t).
Proof.
  induction t as [n l cs IH] using tree_ind'. intros r. cbn [strip_len]. rewrite gnode_eq.
  cbn [newick_node_qb ltext]. rewrite app_nil_r. unfold gktext. rewrite map_map.
  rewrite (map_ext_F (newick_node_qb false) (fun x => gnode escape_name_qb false (strip_len x)) cs).
  2:{ eapply Forall_impl; [|exact IH]. intros c Hc. apply Hc. }
  destruct cs; reflexivity.
Qed.

Lemma allnames_strip_len p t : allnames p (strip_len t) = allnames p t.
Proof.
  induction t as [n l cs IH] using tree_ind'. cbn [strip_len allnames]. f_equal.
  induction IH as [|c cs Hc _ IH2]; cbn [map forallb]; [reflexivity|]. rewrite Hc, IH2. reflexivity.
Qed.

Lemma pnames_strip_len t : pnames (strip_len t) = pnames t.
Proof.
  induction t as [n l cs IH] using tree_ind'. cbn [strip_len pnames]. f_equal.
  induction IH as [|c cs Hc _ IH2]; cbn [map flat_map]; [reflexivity|]. rewrite Hc, IH2. reflexivity.
Qed.

Lemma forallb_allnames_strip p cs : forallb (allnames p) (map strip_len cs) = forallb (allnames p) cs.
Proof. induction cs as [|c cs IH]; cbn [map forallb]; [reflexivity|]. rewrite allnames_strip_len, IH. reflexivity. Qed.

Lemma pnames_l_strip cs : pnames_l (map strip_len cs) = pnames_l cs.
Proof. unfold pnames_l. induction cs as [|c cs IH]; cbn [map flat_map]; [reflexivity|]. rewrite pnames_strip_len, IH. reflexivity. Qed.

(** per-name guard, text level, for the quote-blanks writer read without
    unmunging: as [name_okb]; a name is written without quotes when it has no
    quote-needing character and no blank *)
Definition namej_okb (n : name) : bool :=
  match n with [] => false | _ => true end
  && negb (starts_with_sq n)
  && forallb (fun c => negb (c =? c_nl)) n
  && (existsb needs_quote_char n || existsb (fun c => c =? c_sp) n
      || (negb (is_pyspace (hd 0 n)) && negb (is_pyspace (hd 0 (rev n))))).

Lemma TL_name_qb n d r : namej_okb n = true -> is_sepch d ->
  TLu false (escape_name_qb n ++ d :: r) = Ok (Some n) :: Ok (Some [d]) :: TLu false r.
Proof.
  unfold namej_okb. intros H Hd. apply andb_true_iff in H. destruct H as [H H4].
  apply andb_true_iff in H. destruct H as [H H3].
  apply andb_true_iff in H. destruct H as [H1 H2]. apply negb_true_iff in H2.
  unfold escape_name_qb. rewrite H2. cbn [andb].
  pose proof (forallb_negb_Forall (fun c => c =? c_nl) n H3) as Hnl. cbv beta in Hnl.
  destruct n as [|c s]; [discriminate|].
  destruct (existsb needs_quote_char (c :: s) || existsb (fun c => c =? c_sp) (c :: s)) eqn:E.
  - rewrite <- !app_assoc. cbn [app].
    rewrite TLu_quoted; [rewrite TLu_punct by (left; exact Hd); reflexivity|exact H2|exact Hnl|apply sep_not_sq, Hd].
  - cbn [orb] in H4. apply andb_true_iff in H4. destruct H4 as [H5 H6].
    apply negb_true_iff in H5. apply negb_true_iff in H6.
    apply orb_false_iff in E. destruct E as [E1 E2].
    pose proof (existsb_false_Forall _ _ E2) as Hsp. cbv beta in Hsp.
    rewrite (b2u_id _ Hsp).
    apply TLf_plain; try assumption. apply existsb_false_Forall, E1.
Qed.

Lemma step_eot_root ch l hl u n' u2 : unique_name (S (S (length u))) u [] = Some (n', u2) ->
  parse_step (mk [] [] true ch None false l hl u) None = PDone (Node n' l (chl ch), false).
Proof.
  intros H. unfold parse_step, build_node. cbn [p_expect p_name p_children p_haslen p_stack p_nodes p_top p_len p_used].
  rewrite H. reflexivity.
Qed.

(** parser: children tokens followed by end of text *)
Lemma parse_ktoks_eot cs :
  forallb (allnames punct_okb) cs = true -> freshl used0 (pnames_l cs) ->
  exists n', parse_loop pstate0 (map Ok (ktoks cs) ++ [Ok None]) = Ok (Node n' None cs, false).
Proof.
  intros Hg Hfr. change pstate0 with (F [] [] true used0).
  rewrite parse_kids; [|apply Forall_forall; intros; apply parse_node|exact Hg|exact Hfr].
  cbn [parse_loop].
  destruct (unique_root (uafter used0 (pnames_l cs))) as [[n' u2] Hu].
  rewrite (step_eot_root _ _ _ _ _ _ Hu). exists n'. rewrite chl_chopt. reflexivity.
Qed.

(* ---- apply_attrs restores the lengths by name ---- *)
Lemma attr_get_notin a n : forall f, memb n (map fst a) = false -> attr_get a n f = f.
Proof.
  induction a as [|[k v] a IH]; intros f H; cbn [attr_get]; [reflexivity|].
  cbn [map fst] in H. unfold memb in H. cbn [existsb] in H. apply orb_false_iff in H. destruct H as [H1 H2].
  assert (str_eqb k n = false) as ->.
  { destruct (str_eqb_spec k n) as [->|]; [rewrite str_eqb_refl in H1; discriminate|reflexivity]. }
  apply IH, H2.
Qed.

Lemma attr_get_nodup a n l : nodupb (map fst a) = true -> In (n, l) a -> forall f, attr_get a n f = Some l.
Proof.
  induction a as [|[k v] a IH]; intros Hnd Hin f; [destruct Hin|].
  cbn [map fst nodupb] in Hnd. apply andb_true_iff in Hnd. destruct Hnd as [Hk Hnd]. apply negb_true_iff in Hk.
  cbn [attr_get]. destruct Hin as [E|Hin].
  - inversion E; subst. rewrite str_eqb_refl. apply attr_get_notin, Hk.
  - apply IH; assumption.
Qed.

Lemma apply_strip a : forall s,
  (forall x, In x (postorder s) -> attr_get a (tname x) None = Some (tlen x)) ->
  apply_attrs a (strip_len s) = s.
Proof.
  induction s as [n l cs IH] using tree_ind'. intros H. cbn [strip_len apply_attrs].
  assert (Hr : attr_get a n None = Some l).
  { apply (H (Node n l cs)). cbn [postorder]. apply in_or_app. right. left. reflexivity. }
  rewrite Hr. f_equal. rewrite map_map.
  assert (Hc : forall c, In c cs -> forall x, In x (postorder c) -> attr_get a (tname x) None = Some (tlen x)).
  { intros c Hc x Hx. apply H. cbn [postorder]. apply in_or_app. left. apply in_flat_map. eauto. }
  clear H. induction IH as [|c cs Hc1 _ IH2]; cbn [map]; [reflexivity|].
  rewrite Hc1 by (apply Hc; left; reflexivity). rewrite IH2; [reflexivity|]. intros c' Hc'. apply Hc. right; exact Hc'.
Qed.

Lemma pnames_post t : map tname (postorder t) = pnames t.
Proof.
  induction t as [n l cs IH] using tree_ind'. cbn [postorder pnames]. rewrite map_app. cbn [map tname]. f_equal.
  induction IH as [|c cs Hc _ IH2]; cbn [flat_map]; [reflexivity|]. rewrite map_app, Hc, IH2. reflexivity.
Qed.

Lemma nodupb_snoc l x : nodupb l = true -> memb x l = false -> nodupb (l ++ [x]) = true.
Proof.
  induction l as [|y l IH]; intros Hnd Hx; [reflexivity|].
  cbn [nodupb] in Hnd. apply andb_true_iff in Hnd. destruct Hnd as [Hy Hnd]. apply negb_true_iff in Hy.
  unfold memb in Hx. cbn [existsb] in Hx. apply orb_false_iff in Hx. destruct Hx as [Hx1 Hx2].
  cbn [app nodupb]. rewrite memb_app, Hy. unfold memb at 1. cbn [existsb orb].
  assert (str_eqb y x = false) as ->.
  { destruct (str_eqb_spec y x) as [->|]; [rewrite str_eqb_refl in Hx1; discriminate|reflexivity]. }
  cbn [orb negb andb]. apply IH; assumption.
Qed.

Lemma apply_attrs_restore t : nodupb (pnames t) = true ->
  apply_attrs (edge_attributes t) (strip_len t) = t.
Proof.
  intros Hnd. apply apply_strip. intros x Hx. apply attr_get_nodup.
  - unfold edge_attributes. rewrite map_map. cbn [fst]. rewrite pnames_post. exact Hnd.
  - unfold edge_attributes. apply (in_map (fun e => (tname e, tlen e))), Hx.
Qed.

Definition nmj_okb (n : name) : bool := namej_okb n && punct_okb n.

(** The guard: the root is called "root" (any length, possibly a lone tip —
    the text is then empty, which [make_tree] accepts); every non-root name
    satisfies [nmj_okb]; the non-root names are pairwise distinct, none is
    "edge" (renamed by the parser) and none is "root" (the lengths are
    restored by NAME, so the root's name must be unique too). *)
Definition rt_ok_json (t : tree) : bool :=
  str_eqb (tname t) root_name
  && forallb (allnames nmj_okb) (kids t)
  && nodupb (pnames_l (kids t))
  && negb (memb edge_str (pnames_l (kids t)))
  && negb (memb root_name (pnames_l (kids t))).

Theorem tokenise_qb t : forallb (allnames namej_okb) (kids t) = true ->
  tokenise false (newick_node_qb true t) = map Ok (ktoks (map strip_len (kids t))) ++ [Ok None].
Proof.
  destruct t as [n l cs]. cbn [kids]. intros Hg.
  rewrite qb_gnode. cbn [strip_len]. rewrite gnode_eq. cbn [ltext app]. change (tokenise false ?s) with (TLu false s).
  rewrite (G_top false escape_name_qb namej_okb TL_name_qb) by (rewrite forallb_allnames_strip; exact Hg).
  rewrite TLu_nil. reflexivity.
Qed.

Lemma make_tree_check_qb t :
  negb (has_char c_open (newick_node_qb true t)) && negb (has_char c_semi (newick_node_qb true t))
  && (match strip (newick_node_qb true t) with [] => false | _ => true end) = false.
Proof.
  destruct t as [n l [|c cs]]; [reflexivity|].
  cbn [newick_node_qb]. rewrite app_nil_r. reflexivity.
Qed.

Theorem json_roundtrip_fixed_id : forall t, rt_ok_json t = true -> json_roundtrip_fixed t = Ok t.
Proof.
  intros t H. unfold rt_ok_json in H.
  apply andb_true_iff in H. destruct H as [H H5]. apply andb_true_iff in H. destruct H as [H H4].
  apply andb_true_iff in H. destruct H as [H H3]. apply andb_true_iff in H. destruct H as [H1 H2].
  apply str_eqb_eq in H1. apply negb_true_iff in H4. apply negb_true_iff in H5.
  assert (Hn : forallb (allnames namej_okb) (kids t) = true).
  { eapply forallb_allnames_impl; [|exact H2]. intros n Hn. unfold nmj_okb in Hn. apply andb_true_iff in Hn. tauto. }
  assert (Hp : forallb (allnames punct_okb) (kids t) = true).
  { eapply forallb_allnames_impl; [|exact H2]. intros n Hn'. unfold nmj_okb in Hn'. apply andb_true_iff in Hn'. tauto. }
  assert (Hfr : freshl used0 (pnames_l (kids t))).
  { apply freshl_used0; [exact H3|exact H4|].
    apply (name_okb_nonempty_gen namej_okb); [|exact Hn]. intros n Ho ->. discriminate Ho. }
  unfold json_roundtrip_fixed, make_tree. rewrite make_tree_check_qb.
  unfold make_tree_tokens. rewrite (tokenise_qb t Hn).
  destruct (parse_ktoks_eot (map strip_len (kids t))) as [n' Hpl].
  { rewrite forallb_allnames_strip. exact Hp. }
  { rewrite pnames_l_strip. exact Hfr. }
  rewrite Hpl. f_equal.
  assert (Hnd : nodupb (pnames t) = true).
  { rewrite pnames_eq, H1. apply nodupb_snoc; assumption. }
  destruct t as [n l cs]. cbn [tname kids] in *. subst n.
  change (set_name root_name (Node n' None (map strip_len cs))) with (strip_len (Node root_name l cs)).
  apply apply_attrs_restore, Hnd.
Qed.

Definition ex_tree_json : tree :=
  Node root_name (Some 3)
    [ Node [97] (Some 1) [];
      Node [97; 32; 98] None
        [ Node [120; 95; 121] (Some (-12)) [];
          Node [105; 116; 39; 115] (Some 0) [];
          Node [34; 34; 39] None [] ];
      Node [32; 99; 32] (Some 100) [];
      Node [114] None [Node [58; 58] (Some 7) []; Node [97; 9; 98] None []] ].

Example ex_tree_json_ok : rt_ok_json ex_tree_json = true.
Proof. vm_compute. reflexivity. Qed.
Example ex_tree_json_roundtrip : json_roundtrip_fixed ex_tree_json = Ok ex_tree_json.
Proof. apply json_roundtrip_fixed_id, ex_tree_json_ok. Qed.
Example ex_lone_root_json : json_roundtrip_fixed (Node root_name (Some 5) []) = Ok (Node root_name (Some 5) []).
Proof. apply json_roundtrip_fixed_id. vm_compute. reflexivity. Qed.
(** a non-root node called "root" takes the root's length *)
Example ex_root_twice_json :
  json_roundtrip_fixed (Node root_name (Some 5) [Node root_name (Some 9) []; Node [97] None []])
  = Ok (Node root_name (Some 5) [Node root_name (Some 5) []; Node [97] None []]).
Proof. vm_compute. reflexivity. Qed.
