(** C02 — the headline on the model's own list-based data, against the
    property's wording (leaf sets, [sum_product]).

    The code computes on 0/1 profile rows ([get_matched_array]); the property
    speaks of the set of states compatible with the observed symbol.  Both
    are obtained here from one tree [bt] carrying boolean rows at the leaves
    and matrices (lists of rows) on the edges.

    Laws [sr_laws o] are a section hypothesis; no axioms, no functional
    extensionality: trees of functions are never compared, only the values
    [fpartial]/[brute_lik] computed from them, on indices below [n]. *)
From Coq Require Import Permutation.
From CG3 Require Import Lib.PyZ Lib.Semiring Lib.LikTree Model.Lik Spec.SumProduct
  Proofs.LikProofs Proofs.LikSumOne.
Local Open Scope nat_scope.

(* ------------------------------------------------------------------ tree helpers (no algebra) *)

Lemma tree_all_tmap_impl X E X' E' (f : X -> X') (g : E -> E')
      (PL : X -> Prop) (PE : E -> Prop) (PL' : X' -> Prop) (PE' : E' -> Prop) (t : tree X E) :
  (forall x, PL x -> PL' (f x)) -> (forall e, PE e -> PE' (g e)) ->
  tree_all PL PE t -> tree_all PL' PE' (tmap f g t).
Proof.
  intros HL HE. induction t as [x|ch IH] using tree_ind'; intros Hall.
  - cbn [tmap tree_all] in *. apply HL, Hall.
  - cbn [tmap]. induction ch as [|[e c] ch IHch].
    + exact I.
    + pose proof (Forall_inv IH) as Hc. pose proof (Forall_inv_tail IH) as Hrest. cbn [snd] in Hc.
      apply ok_node_cons in Hall. destruct Hall as [[He Hallc] Hallch].
      cbn [map fst snd]. apply ok_node_cons. split; [split|].
      * apply HE, He.
      * apply Hc, Hallc.
      * apply IHch; assumption.
Qed.

Lemma in_leaves_child X E (e : E) (c : tree X E) ch x :
  In (e, c) ch -> In x (leaves c) -> In x (leaves (Node ch)).
Proof. intros Hin Hx. cbn [leaves]. apply in_flat_map. exists (e, c). split; assumption. Qed.

Lemma in_edges_child X E (e : E) (c : tree X E) ch e' :
  In (e, c) ch -> In e' (edges c) -> In e' (edges (Node ch)).
Proof.
  intros Hin He. cbn [edges]. apply in_flat_map. exists (e, c). split; [exact Hin|].
  cbn [fst snd]. right. exact He.
Qed.

Lemma in_edges_here X E (e : E) (c : tree X E) ch :
  In (e, c) ch -> In e (edges (Node ch)).
Proof.
  intros Hin. cbn [edges]. apply in_flat_map. exists (e, c). split; [exact Hin|].
  cbn [fst snd]. left. reflexivity.
Qed.

Section Sets.
  Variable R : Type.
  Variable o : sr_ops R.
  Hypothesis L : sr_laws o.
  Variable n : nat.
  Local Infix "+" := (sr_add o).
  Local Infix "*" := (sr_mul o).
  Local Notation "0" := (sr_zero o).
  Local Notation "1" := (sr_one o).
  Local Notation Σ := (big_sum o).
  Local Notation Π := (big_prod o).
  Local Notation states := (seq 0 n).
  Local Notation fp := (fpartial R o n).

  (* ---------------------------------------------------------------- congruence below n *)

  (** pruning only ever looks at indices below [n] *)
  Lemma fpartial_tmap_ext X E (f f' : X -> nat -> R) (g g' : E -> nat -> nat -> R) (t : tree X E) :
    (forall x, In x (leaves t) -> forall i, i < n -> f x i = f' x i) ->
    (forall e, In e (edges t) -> forall i j, i < n -> j < n -> g e i j = g' e i j) ->
    forall i, i < n -> fp (tmap f g t) i = fp (tmap f' g' t) i.
  Proof.
    induction t as [x|ch IH] using tree_ind'; intros Hf Hg i Hi.
    - cbn [tmap fpartial]. apply Hf; [left; reflexivity|exact Hi].
    - cbn [tmap fpartial]. rewrite !big_prod_map. apply big_prod_ext.
      intros [e c] Hin. cbn [fst snd].
      apply big_sum_ext. intros j Hj. apply in_seq in Hj.
      rewrite Forall_forall in IH.
      rewrite (Hg e (in_edges_here _ _ e c ch Hin) i j) by lia.
      f_equal. apply (IH (e, c) Hin).
      + intros x Hx. apply Hf. exact (in_leaves_child _ _ e c ch x Hin Hx).
      + intros e' He'. apply Hg. exact (in_edges_child _ _ e c ch e' Hin He').
      + lia.
  Qed.

  Lemma brute_lik_tmap_ext X E (f f' : X -> nat -> R) (g g' : E -> nat -> nat -> R) (t : tree X E)
        (pi pi' : nat -> R) :
    (forall x, In x (leaves t) -> forall i, i < n -> f x i = f' x i) ->
    (forall e, In e (edges t) -> forall i j, i < n -> j < n -> g e i j = g' e i j) ->
    (forall i, i < n -> pi i = pi' i) ->
    brute_lik o n (tmap f g t) pi = brute_lik o n (tmap f' g' t) pi'.
  Proof.
    intros Hf Hg Hpi. unfold brute_lik. apply big_sum_ext. intros i Hi. apply in_seq in Hi.
    rewrite <- !(fpartial_brute R o L n).
    rewrite Hpi by lia. f_equal. apply fpartial_tmap_ext; [exact Hf|exact Hg|lia].
  Qed.

  (* ---------------------------------------------------------------- the two readings of one tree *)

  (** the set of states denoted by a boolean row *)
  Definition setfun (bs : list bool) (i : nat) : bool := nth i bs false.

  (** what the code computes on: 0/1 profile rows, matrices as lists of rows *)
  Definition as_model (bt : tree (list bool) (list (list R))) : ptree R :=
    tmap (indicator_row o) (fun P : list (list R) => P) bt.

  (** what the property speaks about: leaf sets, matrices as functions *)
  Definition as_spec (bt : tree (list bool) (list (list R))) : tree (nat -> bool) (nat -> nat -> R) :=
    tmap setfun (mfun o) bt.

  Lemma vfun_indicator_row_set (bs : list bool) i :
    vfun o (indicator_row o bs) i = indicator o (setfun bs) i.
  Proof.
    unfold vfun, indicator_row, indicator, setfun.
    exact (map_nth (fun b : bool => if b then 1 else 0) bs false i).
  Qed.

  Lemma as_model_wf (bt : tree (list bool) (list (list R))) :
    tree_all (fun bs => length bs = n) (wfmat n) bt -> wf n (as_model bt).
  Proof.
    unfold wf, as_model. apply tree_all_tmap_impl.
    - intros bs Hbs. unfold indicator_row. now rewrite map_length.
    - intros P HP. exact HP.
  Qed.

  (** C02 headline in the property's words: the model's column likelihood
      (pruning over lists, 0/1 leaf rows) is the sum, over all assignments of
      states to the nodes that give every leaf a state of its set, of
      π(root state) · Π_edges P[parent state][child state] *)
  Theorem pruning_eq_sum_product (bt : tree (list bool) (list (list R))) (pi : vec R) :
    tree_all (fun bs => length bs = n) (wfmat n) bt -> length pi = n ->
    col_lik o n (as_model bt) pi = sum_product o n (as_spec bt) (vfun o pi).
  Proof.
    intros Hall Hpi.
    rewrite (pruning_eq_bruteforce_lemma R o L n) by (solve [apply as_model_wf, Hall | exact Hpi]).
    rewrite <- (brute_lik_sum_product R o L n).
    unfold fview, as_model, as_spec. rewrite !tmap_tmap.
    apply brute_lik_tmap_ext.
    - intros bs _ i _. apply vfun_indicator_row_set.
    - intros P _ i j _ _. reflexivity.
    - intros i _. reflexivity.
  Qed.
End Sets.


(* ------------------------------------------------------------------ non-vacuity *)

Section Example.
  Local Open Scope Z_scope.

  (** two states; an integer "transition" matrix; three leaves observing
      {0}, {0,1} (fully ambiguous) and {1} *)
  Definition exs_M : list (list Z) := [[2; 1]; [1; 3]].
  Definition exs_pi : list Z := [1; 1].
  Definition exs_tree : tree (list bool) (list (list Z)) :=
    Node [(exs_M, Leaf [true; false]);
          (exs_M, Node [(exs_M, Leaf [true; true]); (exs_M, Leaf [false; true])])].

  Lemma exs_wf : tree_all (fun bs => length bs = 2%nat) (wfmat 2) exs_tree.
  Proof. cbn. unfold wfmat. repeat (split || constructor). Qed.

  Lemma exs_pi_len : length exs_pi = 2%nat.
  Proof. reflexivity. Qed.

  (** the hypotheses of [pruning_eq_sum_product] are satisfiable *)
  Example exs_pruning_eq_sum_product :
    col_lik Z_ops 2 (as_model Z Z_ops exs_tree) exs_pi
    = sum_product Z_ops 2 (as_spec Z Z_ops exs_tree) (vfun Z_ops exs_pi).
  Proof. exact (pruning_eq_sum_product Z Z_ops Z_laws 2 exs_tree exs_pi exs_wf exs_pi_len). Qed.

  (** both sides, evaluated: 2·(2·3·1 + 1·4·3) + 1·(1·3·1 + 3·4·3) = 36 + 39 *)
  Example exs_col_lik_value : col_lik Z_ops 2 (as_model Z Z_ops exs_tree) exs_pi = 75.
  Proof. vm_compute. reflexivity. Qed.

  Example exs_sum_product_value :
    sum_product Z_ops 2 (as_spec Z Z_ops exs_tree) (vfun Z_ops exs_pi) = 75.
  Proof. vm_compute. reflexivity. Qed.

  (** the filter is neither empty nor everything: 8 of the 32 assignments are compatible *)
  Example exs_compatible_count :
    length (filter (fun a => compatible (as_spec Z Z_ops exs_tree) (fst a) (snd a))
                   (full_assignments 2 (as_spec Z Z_ops exs_tree))) = 8%nat
    /\ length (full_assignments 2 (as_spec Z Z_ops exs_tree)) = 32%nat.
  Proof. split; vm_compute; reflexivity. Qed.
End Example.
