(** C08 — the composition theorem for the REPAIRED [Span.remap_with] (Model/FeatureMapFixed.v,
    finding C08-6): on every in-parent sub-map the repaired rule has the specification proved for the
    pinned rule in Proofs/FeatureMapProofs.v; on a span wholly outside the map the pinned rule is
    refuted by a witness and the repaired rule is right. *)
From CG3 Require Import Lib.PyZ Lib.Val Model.IndelMap Model.FeatureMap Model.FeatureMapFixed Spec.FeatureMapSpec Proofs.IndelMapProofs Proofs.FeatureMapBounded Proofs.FeatureMapProofs.

(** a span with at least one position, inside the map: both rules run the same code *)
Lemma remap_with_v2_eq s e rv fm :
  in_parent fm = true -> fspans fm <> [] -> 0 <= s -> s < e -> e <= flen fm ->
  remap_with_v2 (FS s e rv) fm = remap_with (FS s e rv) fm.
Proof.
  intros Hin Hne Hs Hse He. pose proof (flen_dlen fm Hin) as HL. unfold in_parent in Hin.
  pose proof (map_length_flen (fplen fm) (fspans fm) Hin Hne) as HM.
  change (dlen (fspans fm)) with (zlen (den fm)) in HM. rewrite <- HL in HM.
  unfold remap_with_v2, remap_with. cbn zeta. unfold offsets. rewrite !HM.
  destruct (zlen (fspans fm) =? 0) eqn:E0; [reflexivity|].
  destruct (Z.max 0 s <? Z.min (flen fm) e) eqn:E1; [|lia].
  destruct (s <? 0) eqn:E2; [lia|]. destruct (e >? flen fm) eqn:E3; [lia|]. reflexivity.
Qed.

(** a zero-length span inside the map corresponds to none of it *)
Lemma remap_with_v2_empty s rv fm :
  in_parent fm = true -> fspans fm <> [] -> 0 <= s <= flen fm ->
  remap_with_v2 (FS s s rv) fm = Ok [].
Proof.
  intros Hin Hne Hs. pose proof (flen_dlen fm Hin) as HL. unfold in_parent in Hin.
  pose proof (map_length_flen (fplen fm) (fspans fm) Hin Hne) as HM.
  change (dlen (fspans fm)) with (zlen (den fm)) in HM. rewrite <- HL in HM.
  assert (Hn : 0 < zlen (fspans fm)).
  { destruct (fspans fm); [contradiction|]. rewrite zlen_cons. pose proof (zlen_nonneg l). lia. }
  unfold remap_with_v2. cbn zeta. unfold offsets. rewrite !HM.
  destruct (zlen (fspans fm) =? 0) eqn:E0; [lia|].
  destruct (Z.max 0 s <? Z.min (flen fm) s) eqn:E1; [lia|].
  change (zlen (@nil fspan) =? 0) with true. cbn [bind].
  destruct (s <? 0) eqn:E2; [lia|]. destruct (s >? flen fm) eqn:E3; [lia|].
  destruct rv; reflexivity.
Qed.

Lemma remap_with_v2_spec fm sp : in_parent fm = true -> fspans fm <> [] -> span_in (flen fm) sp = true ->
  exists r, remap_with_v2 sp fm = Ok r /\ forallb (span_in (fplen fm)) r = true /\
            flat_map den_span r = compose (den fm) (den_span sp).
Proof.
  intros Hin Hne Hsp. destruct sp as [s e rv|n].
  - pose proof Hsp as Hsp'. cbn [span_in] in Hsp'.
    destruct (Z.eq_dec s e) as [->|Hneq].
    + exists []. split; [apply remap_with_v2_empty; auto; lia|]. split; [reflexivity|].
      cbn [den_span flat_map]. rewrite zrange_nil by lia. destruct rv; reflexivity.
    + rewrite remap_with_v2_eq by (auto; lia). apply remap_with_spec; assumption.
  - exact (remap_with_spec fm (FL n) Hin Hne Hsp).
Qed.

Lemma remap_all_v2_spec fm l : in_parent fm = true -> fspans fm <> [] -> forallb (span_in (flen fm)) l = true ->
  exists r, remap_all_v2 l fm = Ok r /\ forallb (span_in (fplen fm)) r = true /\
            flat_map den_span r = compose (den fm) (flat_map den_span l).
Proof.
  intros Hin Hne. induction l as [|sp l IH]; cbn [forallb]; intros Hl.
  - exists []. repeat split.
  - apply andb_prop in Hl. destruct Hl as (Hsp & Hl). destruct (IH Hl) as (tl & Htl & Hit & Hdt).
    destruct (remap_with_v2_spec fm sp Hin Hne Hsp) as (hd & Hhd & Hih & Hdh).
    cbn [remap_all_v2]. rewrite Hhd, Htl. cbn [bind]. eexists. split; [reflexivity|].
    split; [rewrite forallb_app; now rewrite Hih, Hit|].
    cbn [flat_map]. now rewrite flat_map_app, compose_app, Hdh, Hdt.
Qed.

(** the composition theorem for the repaired rule *)
Theorem composition_v2_spec fm sub :
  in_parent fm = true -> fspans fm <> [] -> in_parent sub = true -> fplen sub = flen fm ->
  exists c, fm_getitem_map_v2 fm sub = Ok c /\ den c = compose (den fm) (den sub) /\
            fplen c = fplen fm /\ in_parent c = true.
Proof.
  intros Hin Hne Hsub Hlen. unfold in_parent in Hsub. rewrite Hlen in Hsub.
  destruct (remap_all_v2_spec fm (fspans sub) Hin Hne Hsub) as (r & Hr & Hir & Hdr).
  unfold fm_getitem_map_v2. rewrite Hr. cbn [bind]. eexists. split; [reflexivity|].
  split; [exact Hdr|]. split; [reflexivity|]. exact Hir.
Qed.

(** slicing is composition with the one-span map [lo, hi) *)
Corollary getitem_slice_v2_spec fm a b :
  in_parent fm = true -> fspans fm <> [] ->
  exists c, fm_getitem_slice_v2 fm a b = Ok c /\ in_parent c = true /\ fplen c = fplen fm /\
            den c = zslice (den fm) (norm_index a (flen fm) 0)
                           (Z.max (norm_index a (flen fm) 0) (norm_index b (flen fm) (flen fm))).
Proof.
  intros Hin Hne. pose proof (flen_dlen fm Hin) as HL. pose proof (zlen_nonneg (den fm)) as H0.
  unfold fm_getitem_slice_v2, as_map_slice.
  set (lo := norm_index a (flen fm) 0). set (hi := norm_index b (flen fm) (flen fm)).
  assert (Hlo : 0 <= lo <= flen fm) by (unfold lo, norm_index; destruct a as [a|]; [destruct (a <? 0)|]; lia).
  assert (Hhi : 0 <= hi <= flen fm) by (unfold hi, norm_index; destruct b as [b|]; [destruct (b <? 0)|]; lia).
  destruct (lo >? hi) eqn:E.
  - cbn [from_locations spans_from_locations bind].
    destruct (composition_v2_spec fm (mk_fmap [] (flen fm)) Hin Hne) as (c & Hc & Hd & Hp & Hi); try reflexivity.
    exists c. split; [exact Hc|]. split; [exact Hi|]. split; [exact Hp|]. rewrite Hd.
    replace (Z.max lo hi) with lo by lia. rewrite zslice_empty by lia. reflexivity.
  - unfold from_locations, spans_from_locations, last_end. cbn [rev app].
    destruct (lo >? hi) eqn:E'; [discriminate|]. cbn [sfl_loop].
    destruct ((lo >? hi) || (Z.min lo hi <? 0)) eqn:E1; [lia|].
    destruct (lo >? flen fm) eqn:E2; [lia|]. cbn [bind]. destruct (hi >? flen fm) eqn:E3; [lia|].
    rewrite mk_span_id by lia. cbn [bind].
    destruct (composition_v2_spec fm (mk_fmap [FS lo hi false] (flen fm)) Hin Hne) as (c & Hc & Hd & Hp & Hi).
    { unfold in_parent. cbn [fspans fplen forallb span_in]. lia. }
    { reflexivity. }
    exists c. split; [exact Hc|]. split; [exact Hi|]. split; [exact Hp|]. rewrite Hd.
    unfold den at 2. cbn [fspans flat_map den_span]. rewrite app_nil_r.
    replace (Z.max lo hi) with hi by lia. apply compose_range; lia.
Qed.

(** the pinned rule on a span wholly outside the map: the result is longer than the sub-map
    (double padding) — and the repaired rule returns exactly the three lost cells *)
Lemma remap_with_wholly_outside_refuted :
  exists fm sub c, in_parent fm = true /\ fm_getitem_map fm sub = Ok c /\ zlen (den c) <> zlen (den sub).
Proof.
  exists (mk_fmap [FS 2 5 false; FL 2; FS 7 9 true] 10), (mk_fmap [FS (-5) (-2) false] 7).
  eexists. split; [reflexivity|]. split; [vm_compute; reflexivity|]. vm_compute. discriminate.
Qed.

Lemma remap_with_v2_wholly_outside :
  exists c, fm_getitem_map_v2 (mk_fmap [FS 2 5 false; FL 2; FS 7 9 true] 10) (mk_fmap [FS (-5) (-2) false] 7) = Ok c /\
            zlen (den c) = 3 /\ zlen (den (mk_fmap [FS (-5) (-2) false] 7)) = 3 /\
            den c = [None; None; None].
Proof. eexists. split; [vm_compute; reflexivity|]. repeat split. Qed.
