(** C18 — the divide step of the linear-space aligner, as a theorem about the
    model: for EVERY split row k, the maximum over the cells (k, j) and states s
    of (forward score to (k,j,s) + backward score from (k,j,s)) is the optimal
    global score, and every cell attaining it lies on an optimal path.
    Forward scores come from the table invariant of [Proofs/AlignProofs.v];
    backward scores from the SAME invariant applied to the mirrored problem. *)
From CG3 Require Import Lib.PyZ Lib.Val Lib.MaxPlus Model.PairAlign Spec.AlignSpec Spec.AlignFwdSpec
  Model.Hirschberg Proofs.AlignProofs Proofs.AlignLocalProofs Proofs.AlignFwdProofs.

(** ------------------------------------------------------------------ small tools *)

Lemma eplus_0_r a : eplus a (Some 0) = a.
Proof. destruct a; cbn; auto. f_equal. lia. Qed.

Lemma emaxl_spec l :
  (forall v, In v l -> ele v (emaxl l)) /\ (emaxl l = None \/ In (emaxl l) l).
Proof.
  unfold emaxl. destruct (pick_spec (map (fun v : ez => (v, @nil st)) l) dead_entry) as (Hin & _ & Hall).
  split.
  - intros v Hv. apply (Hall (v, [])). apply in_map_iff. eauto.
  - destruct Hin as [H | H].
    + left. rewrite H. reflexivity.
    + right. apply in_map_iff in H. destruct H as (v & Hv & Hin). rewrite <- Hv. exact Hin.
Qed.

Lemma firstn_length_app {A} (a b : list A) : firstn (length a) (a ++ b) = a.
Proof. induction a as [|x a IH]; cbn; [destruct b; reflexivity | f_equal; exact IH]. Qed.

Lemma skipn_length_app {A} (a b : list A) : skipn (length a) (a ++ b) = b.
Proof. induction a as [|x a IH]; cbn; auto. Qed.

Lemma rev_firstn_rev {A} (l : list A) k :
  (k <= length l)%nat -> rev (firstn (length l - k) (rev l)) = skipn k l.
Proof.
  intros Hk.
  assert (E : rev l = rev (skipn k l) ++ rev (firstn k l)).
  { rewrite <- rev_app_distr, firstn_skipn. reflexivity. }
  rewrite E.
  replace (length l - k)%nat with (length (rev (skipn k l))) by (rewrite rev_length, skipn_length; reflexivity).
  rewrite firstn_length_app. apply rev_involutive.
Qed.

Lemma all_states s : In s source_states.
Proof. unfold source_states. destruct s; cbn; auto. Qed.

(** ------------------------------------------------------------------ cells by position *)

Lemma cell_at_OK P local xs ys k j :
  (k <= length xs)%nat -> (j <= length ys)%nat ->
  cellOK local (R P local (rev (firstn k xs)) (rev (firstn j ys))) (cell_at (table P local xs ys) k j).
Proof.
  intros Hk Hj. unfold cell_at.
  assert (Hr : nth_error (table P local xs ys) k = Some (nth k (table P local xs ys) [])).
  { apply nth_error_nth'. rewrite table_length. lia. }
  pose proof (table_nth _ _ _ _ _ _ Hr) as Hrow.
  assert (Hc : nth_error (nth k (table P local xs ys) []) j = Some (nth j (nth k (table P local xs ys) []) dead)).
  { apply nth_error_nth'. rewrite (FullRow_length _ _ _ _ _ Hrow). lia. }
  exact (FullRow_nth _ _ _ _ _ _ _ Hrow Hc).
Qed.

Lemma cell_att tgt c s f :
  cellOK false tgt c -> fst (cget c s) = Some f -> exists q0, tgt q0 = Some f /\ prev_of q0 = s.
Proof.
  intros (HB & HX & HY & HM) Hf. destruct s; cbn [cget] in Hf.
  - destruct HB as (H1 & _). destruct (H1 _ Hf) as (Ht & Hn). exists []. auto.
  - destruct HX as (H1 & _). destruct (H1 _ Hf) as (Ht & q' & Hq). exists (snd (cX c)). rewrite Hq in *. auto.
  - destruct HY as (H1 & _). destruct (H1 _ Hf) as (Ht & q' & Hq). exists (snd (cY c)). rewrite Hq in *. auto.
  - destruct HM as (H1 & _). destruct (H1 _ Hf) as (Ht & q' & Hq). exists (snd (cM c)). rewrite Hq in *. auto.
Qed.

Lemma cell_opt_R P rx ry c q0 :
  cellOK false (R P false rx ry) c -> ele (R P false rx ry q0) (fst (cget c (prev_of q0))).
Proof.
  intros (HB & HX & HY & HM). destruct q0 as [|s q']; cbn [prev_of].
  - destruct HB as (_ & H2 & _). apply H2. reflexivity.
  - destruct s; cbn [cget].
    + rewrite R_SB. exact I.
    + apply HX.
    + apply HY.
    + apply HM.
Qed.

(** ------------------------------------------------------------------ backward scores are scores of suffixes *)

Definition trans_to (P : params) (s prev : st) : ez :=
  match prev with SB => te P s | _ => tr P s prev end.

(** the forward score of a suffix path entered from state [s] = the transition
    into its first state (or to END) + its score in the mirrored problem *)
Lemma fscore_mirror P : forall p s xs ys,
  fscore P s p xs ys = eplus (trans_to P s (prev_of p)) (rscore (mirror P) false p xs ys).
Proof.
  induction p as [|s1 p IH]; intros s xs ys.
  - cbn [fscore rscore prev_of trans_to]. destruct xs, ys; try (rewrite eplus_none_r; reflexivity).
    rewrite eplus_0_r. reflexivity.
  - destruct s1; cbn [fscore rscore prev_of].
    + rewrite eplus_none_r. reflexivity.
    + destruct xs as [|a xs]; [rewrite eplus_none_r; reflexivity|].
      rewrite IH. unfold ttr. cbn [andb]. cbn [trans_to mirror tr gx].
      change (match prev_of p with SB => te P SX | _ => tr P SX (prev_of p) end) with (trans_to P SX (prev_of p)).
      rewrite <- !eplus_assoc. reflexivity.
    + destruct ys as [|b ys]; [rewrite eplus_none_r; reflexivity|].
      rewrite IH. unfold ttr. cbn [andb]. cbn [trans_to mirror tr gy].
      change (match prev_of p with SB => te P SY | _ => tr P SY (prev_of p) end) with (trans_to P SY (prev_of p)).
      rewrite <- !eplus_assoc. reflexivity.
    + destruct xs as [|a xs]; [rewrite eplus_none_r; reflexivity|].
      destruct ys as [|b ys]; [rewrite eplus_none_r; reflexivity|].
      rewrite IH. unfold ttr. cbn [andb]. cbn [trans_to mirror tr em].
      change (match prev_of p with SB => te P SM | _ => tr P SM (prev_of p) end) with (trans_to P SM (prev_of p)).
      rewrite <- !eplus_assoc. reflexivity.
Qed.

Lemma back_cell_OK P xs ys k j :
  (k <= length xs)%nat -> (j <= length ys)%nat ->
  cellOK false (R (mirror P) false (skipn k xs) (skipn j ys))
         (cell_at (table (mirror P) false (rev xs) (rev ys)) (length xs - k) (length ys - j)).
Proof.
  intros Hk Hj.
  pose proof (cell_at_OK (mirror P) false (rev xs) (rev ys) (length xs - k) (length ys - j)) as H.
  rewrite !rev_length in H. specialize (H ltac:(lia) ltac:(lia)).
  rewrite (rev_firstn_rev xs k Hk), (rev_firstn_rev ys j Hj) in H. exact H.
Qed.

Lemma bwd_val_unfold P xs ys k j s :
  bwd_val P xs ys k j s =
  emaxl (map (fun prev => eplus (fst (cget (cell_at (table (mirror P) false (rev xs) (rev ys)) (length xs - k) (length ys - j)) prev))
                                (trans_to P s prev)) source_states).
Proof. reflexivity. Qed.

(** ------------------------------------------------------------------ every middle entry is the score of a path through its cell *)

Lemma middle_entry_path P xs ys k j s v :
  (k <= length xs)%nat -> (j <= length ys)%nat ->
  eplus (fwd_val P xs ys k j s) (bwd_val P xs ys k j s) = Some v ->
  exists q0 p2 r0,
    prev_of q0 = s /\
    rscore P false q0 (rev (firstn k xs)) (rev (firstn j ys)) = Some r0 /\
    gscore P (rev p2 ++ q0) (rev xs) (rev ys) = Some v.
Proof.
  intros Hk Hj Hv.
  apply eplus_some_inv in Hv. destruct Hv as (f & b & Hf & Hb & ->).
  (* forward part *)
  unfold fwd_val in Hf.
  destruct (cell_att _ _ _ _ (cell_at_OK P false xs ys k j Hk Hj) Hf) as (q0 & Hq0 & Hs).
  (* backward part *)
  rewrite bwd_val_unfold in Hb.
  destruct (emaxl_spec (map (fun prev => eplus (fst (cget (cell_at (table (mirror P) false (rev xs) (rev ys)) (length xs - k) (length ys - j)) prev))
                                                (trans_to P s prev)) source_states)) as (_ & [Hn | Hin]).
  { rewrite Hn in Hb. discriminate. }
  rewrite Hb in Hin. apply in_map_iff in Hin. destruct Hin as (prev & Hprev & _).
  apply eplus_some_inv in Hprev. destruct Hprev as (w & t & Hw & Ht & Eb).
  destruct (cell_att _ _ _ _ (back_cell_OK P xs ys k j Hk Hj) Hw) as (p2 & Hp2 & Hprev2).
  exists q0, p2, f. split; [exact Hs|]. split; [exact Hq0|].
  pose proof (fscore_gscore_gen P p2 q0 _ _ f (skipn k xs) (skipn j ys) Hq0) as G.
  rewrite <- !rev_app_distr, !firstn_skipn in G. rewrite <- G.
  rewrite Hs, fscore_mirror, Hprev2. unfold R in Hp2. rewrite Hp2, Ht. cbn. f_equal. lia.
Qed.

(** ------------------------------------------------------------------ an optimal path crosses row k in some cell *)

Lemma split_count : forall q k, (k <= count_x q)%nat -> exists q1 q0, q = q1 ++ q0 /\ count_x q0 = k.
Proof.
  induction q as [|s q IH]; intros k Hk.
  - exists [], []. unfold count_x in *. cbn in *. split; [reflexivity | lia].
  - destruct (Nat.eq_dec k (count_x (s :: q))) as [E | E].
    + exists [], (s :: q). auto.
    + assert (Hk' : (k <= count_x q)%nat).
      { unfold count_x in *. cbn in Hk, E. destruct (consumes_x s); cbn in *; lia. }
      destruct (IH k Hk') as (q1 & q0 & -> & Hc). exists (s :: q1), q0. auto.
Qed.

Lemma opt_through_row P xs ys k z p :
  (k <= length xs)%nat -> align_global P xs ys = (Some z, p) ->
  exists j s, (j <= length ys)%nat /\
              ele (Some z) (eplus (fwd_val P xs ys k j s) (bwd_val P xs ys k j s)).
Proof.
  intros Hk Hal.
  pose proof (global_score_is_path_score _ _ _ _ _ Hal) as Hg.
  assert (Hr : exists zr, rscore P false (rev p) (rev xs) (rev ys) = Some zr).
  { unfold gscore in Hg. apply eplus_some_inv in Hg. destruct Hg as (? & zr & _ & H & _). eauto. }
  destruct Hr as (zr & Hr).
  pose proof (rscore_some_fits _ _ _ _ _ Hr) as (Cx & _ & _). rewrite rev_length in Cx.
  destruct (split_count (rev p) k ltac:(lia)) as (q1 & q0 & Eq & Ck).
  rewrite Eq in Hr.
  destruct (rscore_prefix _ _ _ _ _ _ Hr) as (r1x & r1y & rx0 & ry0 & z0 & Ex & Ey & Lx & Ly & H0).
  pose proof (rscore_some_fits _ _ _ _ _ H0) as (Fx & Fy & _).
  (* the cell *)
  set (j := length ry0).
  assert (Hj : (j <= length ys)%nat).
  { apply (f_equal (@length Z)) in Ey. rewrite rev_length, app_length in Ey. unfold j. lia. }
  assert (Exs : xs = rev rx0 ++ rev r1x).
  { rewrite <- rev_app_distr, <- Ex. symmetry. apply rev_involutive. }
  assert (Eys : ys = rev ry0 ++ rev r1y).
  { rewrite <- rev_app_distr, <- Ey. symmetry. apply rev_involutive. }
  assert (Kx : k = length (rev rx0)) by (rewrite rev_length; lia).
  assert (Ky : j = length (rev ry0)) by (rewrite rev_length; reflexivity).
  assert (F1 : rev (firstn k xs) = rx0).
  { rewrite Exs, Kx, firstn_length_app. apply rev_involutive. }
  assert (F2 : rev (firstn j ys) = ry0).
  { rewrite Eys, Ky, firstn_length_app. apply rev_involutive. }
  assert (S1 : skipn k xs = rev r1x) by (rewrite Exs, Kx; apply skipn_length_app).
  assert (S2 : skipn j ys = rev r1y) by (rewrite Eys, Ky; apply skipn_length_app).
  exists j, (prev_of q0). split; [exact Hj|].
  (* the whole score splits at the cell *)
  pose proof (fscore_gscore_gen P (rev q1) q0 rx0 ry0 z0 (rev r1x) (rev r1y) H0) as G.
  rewrite !rev_involutive, <- Ex, <- Ey, <- Eq in G. rewrite Hg in G.
  rewrite <- G.
  (* forward part *)
  pose proof (cell_opt_R P _ _ _ q0 (cell_at_OK P false xs ys k j Hk Hj)) as HF.
  rewrite F1, F2 in HF. unfold R in HF at 1. rewrite H0 in HF.
  (* backward part *)
  pose proof (cell_opt_R (mirror P) _ _ _ (rev q1) (back_cell_OK P xs ys k j Hk Hj)) as HB.
  rewrite S1, S2 in HB. unfold R in HB at 1.
  assert (HBv : ele (fscore P (prev_of q0) (rev q1) (rev r1x) (rev r1y)) (bwd_val P xs ys k j (prev_of q0))).
  { rewrite fscore_mirror, bwd_val_unfold.
    destruct (emaxl_spec (map (fun prev => eplus (fst (cget (cell_at (table (mirror P) false (rev xs) (rev ys)) (length xs - k) (length ys - j)) prev))
                                                  (trans_to P (prev_of q0) prev)) source_states)) as (Hall & _).
    eapply ele_trans; [| apply Hall; apply in_map_iff; exists (prev_of (rev q1)); split; [reflexivity | apply all_states]].
    rewrite (eplus_comm (fst _)). apply eplus_mono_r. exact HB. }
  eapply ele_trans; [apply eplus_mono_r; exact HBv|].
  apply eplus_mono_l. exact HF.
Qed.

(** ------------------------------------------------------------------ the divide step *)

Lemma In_middle P xs ys k j s :
  (j <= length ys)%nat -> In (eplus (fwd_val P xs ys k j s) (bwd_val P xs ys k j s)) (middle P xs ys k).
Proof.
  intros Hj. unfold middle. cbv zeta. apply in_flat_map. exists j. split.
  - apply in_seq. lia.
  - apply in_map_iff. exists s. split; [reflexivity | apply all_states].
Qed.

Lemma hirsch_score_is_opt P xs ys k :
  (k <= length xs)%nat -> hirsch_score P xs ys k = fst (align_global P xs ys).
Proof.
  intros Hk. unfold hirsch_score.
  destruct (emaxl_spec (middle P xs ys k)) as (Hall & Hin).
  apply ele_antisym.
  - (* no middle entry exceeds the optimum *)
    destruct (emaxl (middle P xs ys k)) as [v|] eqn:E; [|exact I].
    destruct Hin as [Hin | Hin]; [discriminate|].
    unfold middle in Hin. cbv zeta in Hin. apply in_flat_map in Hin. destruct Hin as (j & Hj & Hin).
    apply in_seq in Hj. apply in_map_iff in Hin. destruct Hin as (s & Hs & _).
    destruct (middle_entry_path P xs ys k j s v Hk ltac:(lia) Hs) as (q0 & p2 & r0 & _ & _ & G).
    rewrite <- G. apply global_alignment_optimal.
  - (* an optimal path crosses row k somewhere *)
    destruct (align_global P xs ys) as [v p] eqn:E. cbn [fst].
    destruct v as [z|]; [|exact I].
    destruct (opt_through_row P xs ys k z p Hk E) as (j & s & Hj & Hle).
    eapply ele_trans; [exact Hle|]. apply Hall. apply In_middle. exact Hj.
Qed.

(** a cell whose forward + backward score is the optimum lies on an optimal path *)
Lemma hirsch_anchor_on_optimal_path P xs ys k j s z :
  (k <= length xs)%nat -> (j <= length ys)%nat ->
  fst (align_global P xs ys) = Some z ->
  eplus (fwd_val P xs ys k j s) (bwd_val P xs ys k j s) = Some z ->
  exists p1 p2,
    fscore P SB (p1 ++ p2) xs ys = Some z /\
    count_x p1 = k /\ count_y p1 = j /\ prev_of (rev p1) = s.
Proof.
  intros Hk Hj _ Hv.
  destruct (middle_entry_path P xs ys k j s z Hk Hj Hv) as (q0 & p2 & r0 & Hs & Hq0 & G).
  exists (rev q0), p2.
  rewrite fscore_is_gscore, rev_app_distr, !rev_involutive.
  split; [exact G|].
  apply rscore_some_fits in Hq0. destruct Hq0 as (Cx & Cy & _).
  rewrite rev_length, firstn_length in Cx, Cy.
  unfold count_x, count_y in *. rewrite !filter_length_rev.
  repeat split; try lia. exact Hs.
Qed.
