(** C08 — sequence index -> alignment index ([IndelMap.get_align_index],
    location.py l.1223-1269) agrees with reading the gapped string. *)
From CG3 Require Import Lib.PyZ Lib.Val Model.IndelMap Spec.IndelMapSpec Proofs.IndelMapProofs Proofs.IndelMapSlice.

Local Open Scope Z_scope.

(** * Part 7: small list facts *)

(** inside the list the default of [znth] is irrelevant *)
Lemma znth_indep {A} (d d' : A) l i : 0 <= i < zlen l -> znth d l i = znth d' l i.
Proof.
  intros H. unfold znth. destruct (i <? 0) eqn:E; [lia|].
  apply nth_indep. unfold zlen in H. lia.
Qed.

(** [numpy.where(v == l)] on a strictly increasing array: no hit / exactly one hit *)
Lemma where_eq_none l : forall i0 v,
  (forall i, 0 <= i < zlen l -> znth 0 l i <> v) -> where_eq i0 l v = [].
Proof.
  induction l as [|x l IH]; intros i0 v H; cbn [where_eq]; auto.
  rewrite zlen_cons in H. pose proof (zlen_nonneg l) as Hn.
  destruct (x =? v) eqn:E.
  - exfalso. apply (H 0); [lia|]. rewrite znth_0. lia.
  - cbn [app]. apply IH. intros i Hi. specialize (H (i + 1) ltac:(lia)).
    rewrite znth_pos in H by lia. replace (i + 1 - 1) with i in H by lia. exact H.
Qed.

Lemma where_eq_one l : forall i0 v k,
  (forall i j, 0 <= i -> i < j -> j < zlen l -> znth 0 l i < znth 0 l j) ->
  0 <= k < zlen l -> znth 0 l k = v -> where_eq i0 l v = [i0 + k].
Proof.
  induction l as [|x l IH]; intros i0 v k Hm Hk Hv.
  - znil. lia.
  - rewrite zlen_cons in *. cbn [where_eq]. pose proof (zlen_nonneg l) as Hn.
    assert (Hm' : forall i j, 0 <= i -> i < j -> j < zlen l -> znth 0 l i < znth 0 l j).
    { intros i j Hi Hij Hj. specialize (Hm (i + 1) (j + 1) ltac:(lia) ltac:(lia) ltac:(lia)).
      rewrite !znth_pos in Hm by lia.
      replace (i + 1 - 1) with i in Hm by lia. replace (j + 1 - 1) with j in Hm by lia. exact Hm. }
    destruct (Z.eq_dec k 0) as [->|Hne].
    + rewrite znth_0 in Hv. destruct (x =? v) eqn:E; [|lia]. rewrite where_eq_none.
      * cbn [app]. f_equal. lia.
      * intros i Hi. specialize (Hm 0 (i + 1) ltac:(lia) ltac:(lia) ltac:(lia)).
        rewrite znth_0 in Hm. rewrite znth_pos in Hm by lia.
        replace (i + 1 - 1) with i in Hm by lia. lia.
    + rewrite znth_pos in Hv by lia. destruct (x =? v) eqn:E.
      * exfalso. specialize (Hm 0 k ltac:(lia) ltac:(lia) ltac:(lia)).
        rewrite znth_0 in Hm. rewrite znth_pos in Hm by lia. lia.
      * cbn [app]. rewrite (IH (i0 + 1) v (k - 1) Hm' ltac:(lia) Hv). f_equal. lia.
Qed.

(** * Part 8: the value [get_align_index] returns, in index form *)

(** the code after the [slice_stop] branch (l.1259-1269) *)
Definition ai_tail (m : imap) (s : Z) : res Z :=
  let cum := cum_gap_lengths m in
  let gp := gap_pos m in
  if s >=? zlast gp then Ok (s + zlast cum)
  else
    let index := ss_left gp s in
    let gap_lengths :=
      if s <? pyget gp index
      then (if index =? 0 then 0 else pyget cum (index - 1))
      else pyget cum index in
    Ok (s + gap_lengths).

Section AlignIndexVal.
  Variable m : imap.
  Hypothesis Hwfi : WFi m.
  Local Notation n := (num_gaps m).

  (** [gap_pos] searched from the left: [ix] is the first gap at or after [s] *)
  Lemma ss_left_gp s :
    exists ix, ss_left (gap_pos m) s = ix /\ 0 <= ix <= n /\
      (forall i, 0 <= i < ix -> P m i < s) /\ (ix < n -> s <= P m ix).
  Proof.
    pose proof (ss_left_spec (gap_pos m) s) as (S1 & S2 & S3).
    exists (ss_left (gap_pos m) s). split; [reflexivity|]. split; [exact S1|]. split.
    - intros i Hi. apply S2. exact Hi.
    - intros Hix. apply S3. exact Hix.
  Qed.

  Lemma ai_tail_val s : 0 < n -> P m 0 <= s ->
    exists j, 0 < j <= n /\ P m (j - 1) <= s /\ (j < n -> s < P m j) /\
              ai_tail m s = Ok (s + Cp m j).
  Proof.
    intros Hn H0. unfold ai_tail. rewrite (zlast_gp m) by lia. rewrite (zlast_cum m Hwfi) by lia.
    destruct (s >=? P m (n - 1)) eqn:E1.
    { exists n. split; [lia|]. split; [lia|]. split; [lia|]. rewrite (Cp_pos m) by lia. reflexivity. }
    destruct (ss_left_gp s) as (ix & -> & S1 & S2 & S3).
    assert (Hix : ix < n).
    { destruct (Z.eq_dec ix n) as [E|]; [|lia]. specialize (S2 (n - 1) ltac:(lia)). lia. }
    specialize (S3 Hix).
    rewrite !(pyget_nonneg _ ix) by lia. fold (P m ix). fold (C m ix).
    destruct (s <? P m ix) eqn:E2.
    - assert (Hpos : 0 < ix).
      { destruct (Z.eq_dec ix 0) as [E|]; [|lia]. rewrite E in E2. lia. }
      destruct (ix =? 0) eqn:E3; [lia|]. rewrite pyget_nonneg by lia. fold (C m (ix - 1)).
      exists ix. split; [lia|]. split; [specialize (S2 (ix - 1) ltac:(lia)); lia|].
      split; [lia|]. rewrite (Cp_pos m) by lia. reflexivity.
    - exists (ix + 1). split; [lia|]. replace (ix + 1 - 1) with ix by lia. split; [lia|]. split.
      + intros L. pose proof (P_mono m Hwfi ix (ix + 1)). lia.
      + rewrite (Cp_succ m) by lia. reflexivity.
  Qed.

  (** without [slice_stop]: [j] = number of gaps inserted at or before [s] *)
  Lemma align_index_val s : 0 <= s ->
    exists j, 0 <= j <= n /\ (0 < j -> P m (j - 1) <= s) /\ (j < n -> s < P m j) /\
              get_align_index m s false = Ok (s + Cp m j).
  Proof.
    intros Hs. pose proof (n_nonneg m) as Hn.
    assert (E : get_align_index m s false =
                if (n =? 0) || (s <? P m 0) then Ok s else ai_tail m s).
    { unfold get_align_index, ai_tail. cbv zeta. destruct (s <? 0) eqn:E0; [lia|]. rewrite E0.
      cbn [andb]. reflexivity. }
    rewrite E. destruct (n =? 0) eqn:En.
    { cbn [orb]. exists 0. rewrite Cp_0. split; [lia|]. split; [lia|]. split; [lia|]. f_equal. lia. }
    cbn [orb]. destruct (s <? P m 0) eqn:E0.
    { exists 0. rewrite Cp_0. split; [lia|]. split; [lia|]. split; [lia|]. f_equal. lia. }
    destruct (ai_tail_val s ltac:(lia) ltac:(lia)) as (j & Hj & H1 & H2 & Ht).
    exists j. split; [lia|]. split; [intros _; exact H1|]. split; [exact H2|exact Ht].
  Qed.

  (** with [slice_stop]: [j] = number of gaps inserted strictly before [s] *)
  Lemma align_stop_val s : 0 <= s ->
    exists j, 0 <= j <= n /\ (0 < j -> P m (j - 1) < s) /\ (j < n -> s <= P m j) /\
              get_align_index m s true = Ok (s + Cp m j).
  Proof.
    intros Hs. pose proof (n_nonneg m) as Hn.
    unfold get_align_index. cbv zeta. destruct (s <? 0) eqn:Es; [lia|]. rewrite Es.
    change (znth 0 (gap_pos m) 0) with (P m 0).
    destruct (n =? 0) eqn:En.
    { cbn [orb]. exists 0. rewrite Cp_0. split; [lia|]. split; [lia|]. split; [lia|]. f_equal. lia. }
    cbn [orb]. destruct (s <? P m 0) eqn:E0.
    { exists 0. rewrite Cp_0. split; [lia|]. split; [lia|]. split; [lia|]. f_equal. lia. }
    cbn [andb].
    destruct (ss_left_gp s) as (ix & Eix & S1 & S2 & S3).
    assert (Hmono : forall i j, 0 <= i -> i < j -> j < zlen (gap_pos m) ->
                      znth 0 (gap_pos m) i < znth 0 (gap_pos m) j).
    { intros i j Hi Hij Hj. apply (P_mono m Hwfi i j); auto. }
    destruct (Z_lt_dec ix n) as [Lix|Lix].
    - specialize (S3 Lix). destruct (Z.eq_dec (P m ix) s) as [Ehit|Emiss].
      + (* [s] is a gap position: exactly one match *)
        pose proof (where_eq_one (gap_pos m) 0 s ix Hmono ltac:(unfold num_gaps in *; lia) Ehit) as Hw.
        rewrite Z.add_0_l in Hw. rewrite Hw.
        change (zlen [ix] =? 0) with false. cbn [negb].
        rewrite !(pyget_nonneg _ ix) by lia. fold (P m ix). fold (C m ix).
        exists ix. split; [lia|]. split.
        { intros Hpos. specialize (S2 (ix - 1) ltac:(lia)). exact S2. }
        split; [lia|]. f_equal.
        destruct (ix =? 0) eqn:E3.
        * assert (ix = 0) as -> by lia. rewrite Cp_0. lia.
        * rewrite pyget_nonneg by lia. fold (C m (ix - 1)). rewrite (Cp_pos m) by lia. lia.
      + (* no match: fall through to the common code *)
        rewrite where_eq_none.
        2:{ intros i Hi. change (znth 0 (gap_pos m) i) with (P m i).
            destruct (Z_lt_dec i ix) as [L|L].
            - specialize (S2 i ltac:(lia)). lia.
            - destruct (Z.eq_dec i ix) as [->|Hne]; [exact Emiss|].
              pose proof (P_mono m Hwfi ix i ltac:(lia) ltac:(lia) ltac:(unfold num_gaps; lia)). lia. }
        change (zlen (@nil Z) =? 0) with true. cbn [negb].
        destruct (ai_tail_val s ltac:(lia) ltac:(lia)) as (j & Hj & H1 & H2 & Ht).
        unfold ai_tail in Ht. cbv zeta in Ht. rewrite Ht.
        exists j. split; [lia|]. split; [|split; [|reflexivity]].
        * intros _. assert (P m (j - 1) <> s); [|lia].
          intros Heq. destruct (Z_lt_dec (j - 1) ix) as [L|L].
          -- specialize (S2 (j - 1) ltac:(lia)). lia.
          -- destruct (Z.eq_dec (j - 1) ix) as [E|Hne]; [rewrite E in Heq; lia|].
             pose proof (P_mono m Hwfi ix (j - 1) ltac:(lia) ltac:(lia) ltac:(lia)). lia.
        * intros L. specialize (H2 L). lia.
    - (* every gap position is below [s] *)
      assert (ix = n) as -> by lia.
      rewrite where_eq_none.
      2:{ intros i Hi. change (znth 0 (gap_pos m) i) with (P m i).
          specialize (S2 i ltac:(unfold num_gaps; lia)). lia. }
      change (zlen (@nil Z) =? 0) with true. cbn [negb].
      destruct (ai_tail_val s ltac:(lia) ltac:(lia)) as (j & Hj & H1 & H2 & Ht).
      unfold ai_tail in Ht. cbv zeta in Ht. rewrite Ht.
      exists j. split; [lia|]. split; [|split; [|reflexivity]].
      * intros _. specialize (S2 (j - 1) ltac:(lia)). exact S2.
      * intros L. specialize (H2 L). lia.
  Qed.
End AlignIndexVal.

(** * Part 9: agreement with the gapped string *)

Section AlignIndexSpec.
  Variable m : imap.
  Hypothesis Hwf : WF m.
  Let Hwfi : WFi m := proj1 (WF_WFi m) Hwf.
  Local Notation n := (num_gaps m).

  Lemma Cp_range j : 0 <= j <= n -> 0 <= Cp m j <= Cp m n.
  Proof.
    intros Hj. pose proof (Cp_mono m Hwfi 0 j ltac:(lia) ltac:(lia) ltac:(lia)) as A.
    pose proof (Cp_mono m Hwfi j n ltac:(lia) ltac:(lia) ltac:(lia)) as B.
    rewrite Cp_0 in A. lia.
  Qed.

  (** an alignment position between gap [j-1] and gap [j] is a residue *)
  Lemma not_gap_at j x : 0 <= j <= n ->
    (0 < j -> ge m (j - 1) <= x) -> (j < n -> x < gs m j) ->
    forall k, 0 <= k < n -> ~ (gs m k <= x < ge m k).
  Proof.
    intros Hj H1 H2 k Hk Hc. destruct (Z_lt_dec k j) as [L|L].
    - pose proof (ge_mono_le m Hwfi k (j - 1)). lia.
    - pose proof (gs_mono_le m Hwfi j k). lia.
  Qed.

  (** [s + Cp j] with [P (j-1) <= s <= P j] has exactly [s] residues in front *)
  Lemma residues_at j s : 0 <= j <= n -> 0 <= s <= parent_length m ->
    (0 < j -> P m (j - 1) <= s) -> (j < n -> s <= P m j) ->
    residues (firstn (Z.to_nat (s + Cp m j)) (abs m)) = s.
  Proof.
    intros Hj Hs H1 H2. pose proof (Cp_range j Hj) as Hc.
    pose proof (len_eq m Hwfi) as Hlen.
    set (a := s + Cp m j) in *.
    destruct (seq_index_nn_rel m Hwfi a ltac:(lia)) as (s' & _ & Hrel).
    rewrite <- (seq_rel_residues m Hwf a ltac:(lia) ltac:(lia) s' Hrel).
    destruct Hrel as (_ & R2). rewrite (R2 j); [unfold a; lia|lia| |].
    - intros Hpos. specialize (H1 Hpos). unfold ge, a. rewrite (Cp_pos m j) by lia. lia.
    - intros L. specialize (H2 L). unfold gs, a. lia.
  Qed.

  (** 1. [get_align_index(s)] is the alignment column of residue number [s] *)
  Lemma align_index_spec' s : 0 <= s < parent_length m ->
    exists a, get_align_index m s false = Ok a /\ is_align_index (abs m) s a.
  Proof.
    intros Hs. destruct (align_index_val m Hwfi s ltac:(lia)) as (j & Hj & H1 & H2 & E).
    exists (s + Cp m j). split; [exact E|].
    pose proof (Cp_range j Hj) as Hc. pose proof (len_eq m Hwfi) as Hlen.
    unfold is_align_index. rewrite (zlen_abs m Hwf). split; [lia|]. split.
    - rewrite (znth_indep false true) by (rewrite (zlen_abs m Hwf); lia).
      apply (abs_not_in_gap m Hwf); [lia|]. apply (not_gap_at j); [exact Hj| |].
      + intros Hpos. specialize (H1 Hpos). unfold ge. rewrite (Cp_pos m j) by lia. lia.
      + intros L. specialize (H2 L). unfold gs. lia.
    - apply residues_at; [exact Hj|lia|exact H1|]. intros L. specialize (H2 L). lia.
  Qed.

  (** 2. [get_align_index(s, slice_stop=True)] is the shortest prefix holding [s] residues *)
  Lemma align_stop_spec' s : 0 <= s <= parent_length m ->
    exists a, get_align_index m s true = Ok a /\ is_align_stop (abs m) s a.
  Proof.
    intros Hs. destruct (align_stop_val m Hwfi s ltac:(lia)) as (j & Hj & H1 & H2 & E).
    exists (s + Cp m j). split; [exact E|].
    pose proof (Cp_range j Hj) as Hc. pose proof (len_eq m Hwfi) as Hlen.
    unfold is_align_stop. rewrite (zlen_abs m Hwf). split; [lia|]. split.
    - apply residues_at; [exact Hj|lia| |exact H2]. intros Hpos. specialize (H1 Hpos). lia.
    - destruct (Z.eq_dec (s + Cp m j) 0) as [E0|Hne]; [left; exact E0|right].
      rewrite (znth_indep false true) by (rewrite (zlen_abs m Hwf); lia).
      apply (abs_not_in_gap m Hwf); [lia|]. apply (not_gap_at j); [exact Hj| |].
      + intros Hpos. specialize (H1 Hpos). unfold ge. rewrite (Cp_pos m j) by lia. lia.
      + intros L. specialize (H2 L). unfold gs. lia.
  Qed.
End AlignIndexSpec.

Lemma align_index_spec m s : WF m -> 0 <= s < parent_length m ->
  exists a, get_align_index m s false = Ok a /\ is_align_index (abs m) s a.
Proof. intros Hwf Hs. apply align_index_spec'; assumption. Qed.

Lemma align_stop_spec m s : WF m -> 0 <= s <= parent_length m ->
  exists a, get_align_index m s true = Ok a /\ is_align_stop (abs m) s a.
Proof. intros Hwf Hs. apply align_stop_spec'; assumption. Qed.

(** ** the specifications pin the value down: both predicates have at most one solution *)

Lemma residues_firstn_mono k : forall a b, 0 <= a -> a <= b ->
  residues (firstn (Z.to_nat a) k) <= residues (firstn (Z.to_nat b) k).
Proof.
  induction k as [|x k IH]; intros a b Ha Hab.
  - rewrite !firstn_nil. lia.
  - destruct (Z.eq_dec a 0) as [->|Hne].
    + cbn [Z.to_nat firstn residues]. apply residues_nonneg.
    + replace (Z.to_nat a) with (S (Z.to_nat (a - 1))) by lia.
      replace (Z.to_nat b) with (S (Z.to_nat (b - 1))) by lia.
      rewrite !firstn_cons. specialize (IH (a - 1) (b - 1) ltac:(lia) ltac:(lia)).
      destruct x; cbn [residues]; lia.
Qed.

Lemma residues_firstn_step k a b : 0 <= a -> a < b -> a < zlen k -> znth false k a = true ->
  residues (firstn (Z.to_nat a) k) < residues (firstn (Z.to_nat b) k).
Proof.
  intros Ha Hab Hlen Hres.
  pose proof (residues_firstn_mono k (a + 1) b ltac:(lia) ltac:(lia)) as Hm.
  rewrite residues_firstn_succ in Hm by lia.
  rewrite (znth_indep true false) in Hm by lia. rewrite Hres in Hm. lia.
Qed.

Lemma is_align_index_unique k s a a' :
  is_align_index k s a -> is_align_index k s a' -> a = a'.
Proof.
  intros (Ha & Ra & Sa) (Ha' & Ra' & Sa').
  destruct (Z_lt_dec a a') as [L|L].
  - pose proof (residues_firstn_step k a a' ltac:(lia) L ltac:(lia) Ra). lia.
  - destruct (Z_lt_dec a' a) as [L'|L']; [|lia].
    pose proof (residues_firstn_step k a' a ltac:(lia) L' ltac:(lia) Ra'). lia.
Qed.

Lemma is_align_stop_unique k s a a' :
  is_align_stop k s a -> is_align_stop k s a' -> a = a'.
Proof.
  intros (Ha & Sa & Ra) (Ha' & Sa' & Ra').
  destruct (Z_lt_dec a a') as [L|L].
  - destruct Ra' as [E|Ra']; [lia|].
    destruct (Z.eq_dec a (a' - 1)) as [E|Hne].
    + pose proof (residues_firstn_step k (a' - 1) a' ltac:(lia) ltac:(lia) ltac:(lia) Ra') as Hs.
      rewrite <- E in Hs. lia.
    + pose proof (residues_firstn_mono k a (a' - 1) ltac:(lia) ltac:(lia)).
      pose proof (residues_firstn_step k (a' - 1) a' ltac:(lia) ltac:(lia) ltac:(lia) Ra'). lia.
  - destruct (Z_lt_dec a' a) as [L'|L']; [|lia].
    destruct Ra as [E|Ra]; [lia|].
    pose proof (residues_firstn_mono k a' (a - 1) ltac:(lia) ltac:(lia)).
    pose proof (residues_firstn_step k (a - 1) a ltac:(lia) ltac:(lia) ltac:(lia) Ra). lia.
Qed.

(** * Part 10: negative indices, round trip *)

(** 3. a negative sequence index counts from the end ([seq_index += parent_length]) *)
Lemma align_index_neg_gen m s b : - parent_length m <= s < 0 ->
  get_align_index m s b = get_align_index m (s + parent_length m) b.
Proof.
  intros H. unfold get_align_index. cbv zeta.
  destruct (s <? 0) eqn:E1; [|lia].
  destruct (s + parent_length m <? 0) eqn:E2; [lia|].
  rewrite E2. reflexivity.
Qed.

Lemma align_index_neg m s : - parent_length m <= s < 0 ->
  get_align_index m s false = get_align_index m (s + parent_length m) false.
Proof. apply align_index_neg_gen. Qed.

(** 4. beyond the left end: IndexError.  ([s < 0] is needed when nothing is
    assumed about the sign of [parent_length]; it follows for a well-formed map) *)
Lemma align_index_out_of_range_gen m s b : s < 0 -> s < - parent_length m ->
  get_align_index m s b = Err E_Index.
Proof.
  intros H0 H. unfold get_align_index. cbv zeta.
  destruct (s <? 0) eqn:E1; [|lia].
  destruct (s + parent_length m <? 0) eqn:E2; [|lia]. reflexivity.
Qed.

Lemma align_index_out_of_range m s b : 0 <= parent_length m -> s < - parent_length m ->
  get_align_index m s b = Err E_Index.
Proof. intros Hp H. apply align_index_out_of_range_gen; lia. Qed.

Lemma align_index_out_of_range_wf m s b : WF m -> s < - parent_length m ->
  get_align_index m s b = Err E_Index.
Proof. intros (Hp & _) H. apply align_index_out_of_range; assumption. Qed.

(** 5. sequence -> alignment -> sequence is the identity *)
Lemma seq_align_roundtrip m s : WF m -> 0 <= s < parent_length m ->
  exists a, get_align_index m s false = Ok a /\ get_seq_index m a = Ok s.
Proof.
  intros Hwf Hs. destruct (align_index_spec m s Hwf Hs) as (a & E & Ha & _ & Hr).
  exists a. split; [exact E|]. rewrite (zlen_abs m Hwf) in Ha.
  rewrite (get_seq_index_spec m Hwf a) by lia. f_equal. exact Hr.
Qed.

(** the same for a slice stop (including [s = parent_length]) *)
Lemma seq_align_stop_roundtrip m s : WF m -> 0 <= s <= parent_length m ->
  exists a, get_align_index m s true = Ok a /\ get_seq_index m a = Ok s.
Proof.
  intros Hwf Hs. destruct (align_stop_spec m s Hwf Hs) as (a & E & Ha & Hr & _).
  exists a. split; [exact E|]. rewrite (zlen_abs m Hwf) in Ha.
  rewrite (get_seq_index_spec m Hwf a) by lia. f_equal. exact Hr.
Qed.

(** negative index of a well-formed map, end to end *)
Lemma align_index_neg_spec m s : WF m -> - parent_length m <= s < 0 ->
  exists a, get_align_index m s false = Ok a /\
            is_align_index (abs m) (s + parent_length m) a.
Proof.
  intros Hwf Hs. rewrite align_index_neg by exact Hs. apply align_index_spec; [exact Hwf|lia].
Qed.

(** * a concrete instance: "A--CG" *)
Example ex_mask : list bool := [true; false; false; true; true].

Example ex_WF : WF (from_mask ex_mask).
Proof. split; cbn; lia. Qed.

Example ex_abs : abs (from_mask ex_mask) = ex_mask.
Proof. reflexivity. Qed.

Example ex_align_index :
  get_align_index (from_mask ex_mask) 0 false = Ok 0 /\
  get_align_index (from_mask ex_mask) 1 false = Ok 3 /\
  get_align_index (from_mask ex_mask) 2 false = Ok 4 /\
  get_align_index (from_mask ex_mask) (-1) false = Ok 4 /\
  get_align_index (from_mask ex_mask) (-4) false = Err E_Index /\
  get_align_index (from_mask ex_mask) 1 true = Ok 1 /\
  get_align_index (from_mask ex_mask) 3 true = Ok 5 /\
  is_align_index ex_mask 1 3 /\ is_align_stop ex_mask 1 1 /\
  get_seq_index (from_mask ex_mask) 3 = Ok 1.
Proof. vm_compute. repeat split; intros; try discriminate; auto. Qed.
