(** C01 - proofs: the view kernel of Model/View.v implements Python slice
    semantics on the plain string. *)
From CG3 Require Import Lib.PyZ Lib.Val Lib.PySlice Model.View Spec.ViewSpec.

Local Ltac bdestr x H := destruct x eqn:H.

(** * lengths *)

Lemma cdiv_mul x t : 0 < t -> cdiv (x * t) t = x.
Proof. intros Ht. apply cdiv_uniq; [lia|]. nia. Qed.

Lemma cdiv_le_0 x s : 0 < s -> x <= 0 -> cdiv x s <= 0.
Proof. intros Hs Hx. pose proof (cdiv_spec x s Hs). nia. Qed.

Lemma cdiv_eq_0 x s : 0 < s -> 0 <= x -> cdiv x s = 0 -> x = 0.
Proof. intros Hs Hx H. pose proof (cdiv_spec x s Hs). rewrite H in *. lia. Qed.

Lemma vlen_fwd v : 0 < step v -> start v <= stop v -> vlen v = cdiv (stop v - start v) (step v).
Proof. intros. unfold vlen. now apply pylen_forward. Qed.

Lemma vlen_rev v : step v < 0 -> stop v <= start v -> vlen v = cdiv (start v - stop v) (- step v).
Proof.
  intros Hs Hle. unfold vlen.
  rewrite <- (pylen_forward (stop v) (start v) (- step v)) by lia.
  f_equal. rewrite <- (Z.div_opp_opp (start v - stop v) (step v)) by lia. f_equal. lia.
Qed.

Lemma vlen_nonneg v : 0 <= vlen v.
Proof. unfold vlen. lia. Qed.

Lemma vlen_mk s e c n off : vlen (mkV s e c n off) = Z.abs ((s - e) / c).
Proof. reflexivity. Qed.

(** facts about a well-formed forward view *)
Lemma wf_fwd_facts v : WF v -> 0 < step v ->
  0 <= seq_len v /\ 0 <= start v <= stop v /\ stop v <= seq_len v /\
  vlen v = cdiv (stop v - start v) (step v) /\ 0 <= vlen v /\
  step v * (vlen v - 1) < stop v - start v <= step v * vlen v.
Proof.
  intros (Hn & [(Hs & Hb & He)|(Hs & _)]) Hpos; [|lia].
  pose proof (vlen_fwd v Hpos ltac:(lia)) as HL.
  pose proof (cdiv_spec (stop v - start v) (step v) Hpos) as Hc. rewrite <- HL in Hc.
  pose proof (vlen_nonneg v). repeat split; try lia; assumption.
Qed.

Lemma wf_rev_facts v : WF v -> step v < 0 ->
  0 <= seq_len v /\ - seq_len v - 1 <= stop v <= start v /\ start v <= -1 /\
  vlen v = cdiv (start v - stop v) (- step v) /\ 0 <= vlen v /\
  (- step v) * (vlen v - 1) < start v - stop v <= (- step v) * vlen v.
Proof.
  intros (Hn & [(Hs & _)|(Hs & Hb & He)]) Hneg; [lia|].
  pose proof (vlen_rev v Hneg ltac:(lia)) as HL.
  pose proof (cdiv_spec (start v - stop v) (- step v) ltac:(lia)) as Hc. rewrite <- HL in Hc.
  pose proof (vlen_nonneg v). repeat split; try lia; assumption.
Qed.

Lemma wf_step_nz v : WF v -> step v <> 0.
Proof. intros (_ & [(H1 & _)|(H2 & _)]); lia. Qed.

Lemma wf_empty_iff v : WF v -> (vlen v = 0 <-> start v = stop v).
Proof.
  intros Hwf. destruct (Z_lt_le_dec 0 (step v)) as [Hpos|Hneg].
  - destruct (wf_fwd_facts v Hwf Hpos) as (_ & Hb & _ & _ & _ & Hc). split; intros H.
    + rewrite H in Hc. lia.
    + nia.
  - pose proof (wf_step_nz v Hwf) as Hnz. assert (Hneg' : step v < 0) by lia.
    destruct (wf_rev_facts v Hwf Hneg') as (_ & Hb & _ & _ & _ & Hc). split; intros H.
    + rewrite H in Hc. lia.
    + nia.
Qed.

(** the [assert]s of [parent_start]/[parent_stop] hold on every well-formed view *)
Lemma asserts_hold v : WF v -> step v < 0 -> stop v < 0 /\ start v < 0.
Proof. intros (_ & [(H & _)|(_ & H1 & H2)]) Hs; lia. Qed.

(** * the constructor *)

Lemma mk_view_pos_spec n s e c off : 0 < c -> 0 <= s -> 0 <= e <= n ->
  mk_view n (Some s) (Some e) (Some c) off =
  Ok (if s <? e then mkV s e c n off else mkV 0 0 1 n off).
Proof.
  intros Hc Hs He. unfold mk_view.
  destruct c as [|c'|c'] eqn:Ec; try lia. rewrite <- Ec in *. clear Ec c'.
  replace (c >? 0) with true by lia. unfold input_vals_pos_step.
  bdestr ((s >? 0) && (s >=? n)) E1.
  { replace (s <? e) with false by lia. reflexivity. }
  replace ((e <? 0) && (Z.abs e >=? n)) with false by lia.
  replace (s <? 0) with false by lia.
  bdestr (e >? 0) E2.
  - replace (Z.min n e) with e by lia.
    bdestr (s >=? e) E3; [replace (s <? e) with false by lia|replace (s <? e) with true by lia]; reflexivity.
  - replace (e <? 0) with false by lia.
    replace (s >=? e) with true by lia. replace (s <? e) with false by lia. reflexivity.
Qed.

Lemma mk_view_neg_spec n s e c off : c < 0 -> - n <= s <= -1 -> - n - 1 <= e <= -1 ->
  mk_view n (Some s) (Some e) (Some c) off =
  Ok (if s <? e then mkV 0 0 1 n off else mkV s e c n off).
Proof.
  intros Hc Hs He. unfold mk_view.
  destruct c as [|c'|c'] eqn:Ec; try lia. rewrite <- Ec in *. clear Ec c'.
  replace (c >? 0) with false by lia. unfold input_vals_neg_step.
  replace (s >=? n) with false by lia. replace (s >=? 0) with false by lia.
  replace (s <? - n) with false by lia. replace (e >=? 0) with false by lia.
  replace (Z.max e (- n - 1)) with e by lia. reflexivity.
Qed.

Lemma WF_zero n off : 0 <= n -> WF (mkV 0 0 1 n off).
Proof. intros Hn. split; [assumption|]. left. cbn. lia. Qed.

Lemma vlen_zero n off : vlen (mkV 0 0 1 n off) = 0.
Proof. reflexivity. Qed.

(** the constructor establishes the invariant, for arbitrary arguments *)
Lemma wf_mk_view_lemma n a b c off v : 0 <= n -> mk_view n a b c off = Ok v -> WF v.
Proof.
  intros Hn. unfold mk_view.
  destruct c as [[|c'|c']|]; try discriminate.
  - (* positive step *)
    set (c := Z.pos c'). replace (c >? 0) with true by lia.
    unfold input_vals_pos_step.
    set (s0 := match a with None => 0 | Some s => s end).
    bdestr ((s0 >? 0) && (s0 >=? n)) E1; [intros [= <-]; now apply WF_zero|].
    set (e0 := match b with None => n | Some e => e end).
    bdestr ((e0 <? 0) && (Z.abs e0 >=? n)) E2; [intros [= <-]; now apply WF_zero|].
    set (s1 := if s0 <? 0 then Z.max (n + s0) 0 else s0).
    set (e1 := if e0 >? 0 then Z.min n e0 else if e0 <? 0 then e0 + n else e0).
    bdestr (s1 >=? e1) E3; intros [= <-]; [now apply WF_zero|].
    split; [assumption|]. left. cbn [step start stop seq_len].
    subst s1 e1. destruct (s0 <? 0) eqn:E4; destruct (e0 >? 0) eqn:E5; destruct (e0 <? 0) eqn:E6; lia.
  - (* negative step *)
    set (c := Z.neg c'). replace (c >? 0) with false by lia.
    unfold input_vals_neg_step.
    set (s' := match a with
               | None => Some (-1)
               | Some s => if s >=? n then Some (-1) else if s >=? 0 then Some (s - n)
                           else if s <? - n then None else Some s
               end).
    assert (Hs' : match s' with None => True | Some s => - n <= s <= -1 \/ (n = 0 /\ s = -1) end).
    { subst s'. destruct a as [s|]; [|lia].
      destruct (s >=? n) eqn:E1; [lia|]. destruct (s >=? 0) eqn:E2; [lia|].
      destruct (s <? - n) eqn:E3; [exact I|lia]. }
    destruct s' as [s|]; [|intros [= <-]; now apply WF_zero].
    set (e0 := match b with None => - n - 1 | Some e => if e >=? 0 then e - n else e end).
    bdestr (s <? Z.max e0 (- n - 1)) E4; intros [= <-]; [now apply WF_zero|].
    split; [assumption|]. right. cbn [step start stop seq_len]. lia.
  - (* default step 1 *)
    replace (1 >? 0) with true by lia.
    unfold input_vals_pos_step.
    set (s0 := match a with None => 0 | Some s => s end).
    bdestr ((s0 >? 0) && (s0 >=? n)) E1; [intros [= <-]; now apply WF_zero|].
    set (e0 := match b with None => n | Some e => e end).
    bdestr ((e0 <? 0) && (Z.abs e0 >=? n)) E2; [intros [= <-]; now apply WF_zero|].
    set (s1 := if s0 <? 0 then Z.max (n + s0) 0 else s0).
    set (e1 := if e0 >? 0 then Z.min n e0 else if e0 <? 0 then e0 + n else e0).
    bdestr (s1 >=? e1) E3; intros [= <-]; [now apply WF_zero|].
    split; [assumption|]. left. cbn [step start stop seq_len].
    subst s1 e1. destruct (s0 <? 0) eqn:E4; destruct (e0 >? 0) eqn:E5; destruct (e0 <? 0) eqn:E6; lia.
Qed.
