(** C01 - proofs: the view kernel of Model/View.v implements Python slice
    semantics on the plain string. *)
From CG3 Require Import Lib.PyZ Lib.Val Lib.PySlice Model.View Spec.ViewSpec.

Local Ltac bdestr x H := destruct x eqn:H.

(** * lengths *)

Lemma cdiv_mul x t : 0 < t -> cdiv (x * t) t = x.
Proof. intros Ht. apply cdiv_uniq; [lia|]. nia. Qed.

Lemma cdiv_le_0 x s : 0 < s -> x <= 0 -> cdiv x s <= 0.
Proof. intros Hs Hx. pose proof (cdiv_spec x s Hs). nia. Qed.

Lemma cdiv_eq_0 x s : 0 < s -> 0 <= x -> cdiv x s = 0 -> x = 0.
Proof. intros Hs Hx H. pose proof (cdiv_spec x s Hs). rewrite H in *. lia. Qed.

Lemma vlen_fwd v : 0 < step v -> start v <= stop v -> vlen v = cdiv (stop v - start v) (step v).
Proof. intros. unfold vlen. now apply pylen_forward. Qed.

Lemma vlen_rev v : step v < 0 -> stop v <= start v -> vlen v = cdiv (start v - stop v) (- step v).
Proof.
  intros Hs Hle. unfold vlen.
  rewrite <- (pylen_forward (stop v) (start v) (- step v)) by lia.
  f_equal. rewrite <- (Z.div_opp_opp (start v - stop v) (step v)) by lia. f_equal. lia.
Qed.

Lemma vlen_nonneg v : 0 <= vlen v.
Proof. unfold vlen. lia. Qed.

Lemma vlen_mk s e c n off : vlen (mkV s e c n off) = Z.abs ((s - e) / c).
Proof. reflexivity. Qed.

(** facts about a well-formed forward view *)
Lemma wf_fwd_facts v : WF v -> 0 < step v ->
  0 <= seq_len v /\ 0 <= start v <= stop v /\ stop v <= seq_len v /\
  vlen v = cdiv (stop v - start v) (step v) /\ 0 <= vlen v /\
  step v * (vlen v - 1) < stop v - start v <= step v * vlen v.
Proof.
  intros (Hn & [(Hs & Hb & He)|(Hs & _)]) Hpos; [|lia].
  pose proof (vlen_fwd v Hpos ltac:(lia)) as HL.
  pose proof (cdiv_spec (stop v - start v) (step v) Hpos) as Hc. rewrite <- HL in Hc.
  pose proof (vlen_nonneg v). repeat split; try lia; assumption.
Qed.

Lemma wf_rev_facts v : WF v -> step v < 0 ->
  0 <= seq_len v /\ - seq_len v - 1 <= stop v <= start v /\ start v <= -1 /\
  vlen v = cdiv (start v - stop v) (- step v) /\ 0 <= vlen v /\
  (- step v) * (vlen v - 1) < start v - stop v <= (- step v) * vlen v.
Proof.
  intros (Hn & [(Hs & _)|(Hs & Hb & He)]) Hneg; [lia|].
  pose proof (vlen_rev v Hneg ltac:(lia)) as HL.
  pose proof (cdiv_spec (start v - stop v) (- step v) ltac:(lia)) as Hc. rewrite <- HL in Hc.
  pose proof (vlen_nonneg v). repeat split; try lia; assumption.
Qed.

Lemma wf_step_nz v : WF v -> step v <> 0.
Proof. intros (_ & [(H1 & _)|(H2 & _)]); lia. Qed.

Lemma wf_empty_iff v : WF v -> (vlen v = 0 <-> start v = stop v).
Proof.
  intros Hwf. destruct (Z_lt_le_dec 0 (step v)) as [Hpos|Hneg].
  - destruct (wf_fwd_facts v Hwf Hpos) as (_ & Hb & _ & _ & _ & Hc). split; intros H.
    + rewrite H in Hc. lia.
    + nia.
  - pose proof (wf_step_nz v Hwf) as Hnz. assert (Hneg' : step v < 0) by lia.
    destruct (wf_rev_facts v Hwf Hneg') as (_ & Hb & _ & _ & _ & Hc). split; intros H.
    + rewrite H in Hc. lia.
    + nia.
Qed.

(** the [assert]s of [parent_start]/[parent_stop] hold on every well-formed view *)
Lemma asserts_hold v : WF v -> step v < 0 -> stop v < 0 /\ start v < 0.
Proof. intros (_ & [(H & _)|(_ & H1 & H2)]) Hs; lia. Qed.

(** * the constructor *)

Lemma mk_view_pos_spec n s e c off : 0 < c -> 0 <= s -> 0 <= e <= n ->
  mk_view n (Some s) (Some e) (Some c) off =
  Ok (if s <? e then mkV s e c n off else mkV 0 0 1 n off).
Proof.
  intros Hc Hs He. unfold mk_view.
  destruct c as [|c'|c'] eqn:Ec; try lia. rewrite <- Ec in *. clear Ec c'.
  replace (c >? 0) with true by lia. unfold input_vals_pos_step.
  bdestr ((s >? 0) && (s >=? n)) E1.
  { replace (s <? e) with false by lia. reflexivity. }
  replace ((e <? 0) && (Z.abs e >=? n)) with false by lia.
  replace (s <? 0) with false by lia.
  bdestr (e >? 0) E2.
  - replace (Z.min n e) with e by lia.
    bdestr (s >=? e) E3; [replace (s <? e) with false by lia|replace (s <? e) with true by lia]; reflexivity.
  - replace (e <? 0) with false by lia.
    replace (s >=? e) with true by lia. replace (s <? e) with false by lia. reflexivity.
Qed.

Lemma mk_view_neg_spec n s e c off : c < 0 -> - n <= s <= -1 -> - n - 1 <= e <= -1 ->
  mk_view n (Some s) (Some e) (Some c) off =
  Ok (if s <? e then mkV 0 0 1 n off else mkV s e c n off).
Proof.
  intros Hc Hs He. unfold mk_view.
  destruct c as [|c'|c'] eqn:Ec; try lia. rewrite <- Ec in *. clear Ec c'.
  replace (c >? 0) with false by lia. unfold input_vals_neg_step.
  replace (s >=? n) with false by lia. replace (s >=? 0) with false by lia.
  replace (s <? - n) with false by lia. replace (e >=? 0) with false by lia.
  replace (Z.max e (- n - 1)) with e by lia. destruct (s <? e); reflexivity.
Qed.

Lemma WF_zero n off : 0 <= n -> WF (mkV 0 0 1 n off).
Proof. intros Hn. split; [assumption|]. left. cbn. lia. Qed.

Lemma vlen_zero n off : vlen (mkV 0 0 1 n off) = 0.
Proof. reflexivity. Qed.

(** the constructor establishes the invariant, for arbitrary arguments *)
Lemma wf_mk_view_lemma n a b c off v : 0 <= n -> mk_view n a b c off = Ok v -> WF v.
Proof.
  intros Hn. unfold mk_view.
  destruct c as [[|c'|c']|]; try discriminate.
  - (* positive step *)
    set (c := Z.pos c'). replace (c >? 0) with true by lia.
    unfold input_vals_pos_step.
    set (s0 := match a with None => 0 | Some s => s end).
    bdestr ((s0 >? 0) && (s0 >=? n)) E1; [intros [= <-]; now apply WF_zero|].
    set (e0 := match b with None => n | Some e => e end).
    bdestr ((e0 <? 0) && (Z.abs e0 >=? n)) E2; [intros [= <-]; now apply WF_zero|].
    set (s1 := if s0 <? 0 then Z.max (n + s0) 0 else s0).
    set (e1 := if e0 >? 0 then Z.min n e0 else if e0 <? 0 then e0 + n else e0).
    bdestr (s1 >=? e1) E3; intros [= <-]; [now apply WF_zero|].
    split; [assumption|]. left. cbn [step start stop seq_len].
    subst s1 e1. destruct (s0 <? 0) eqn:E4; destruct (e0 >? 0) eqn:E5; destruct (e0 <? 0) eqn:E6; lia.
  - (* negative step *)
    set (c := Z.neg c'). replace (c >? 0) with false by lia.
    unfold input_vals_neg_step.
    set (s' := match a with
               | None => Some (-1)
               | Some s => if s >=? n then Some (-1) else if s >=? 0 then Some (s - n)
                           else if s <? - n then None else Some s
               end).
    assert (Hs' : match s' with None => True | Some s => - n <= s <= -1 \/ (n = 0 /\ s = -1) end).
    { subst s'. destruct a as [s|]; [|lia].
      destruct (s >=? n) eqn:E1; [lia|]. destruct (s >=? 0) eqn:E2; [lia|].
      destruct (s <? - n) eqn:E3; [exact I|lia]. }
    destruct s' as [s|]; [|intros [= <-]; now apply WF_zero].
    set (e0 := match b with None => - n - 1 | Some e => if e >=? 0 then e - n else e end).
    bdestr (s <? Z.max e0 (- n - 1)) E4; intros [= <-]; [now apply WF_zero|].
    split; [assumption|]. right. cbn [step start stop seq_len]. lia.
  - (* default step 1 *)
    replace (1 >? 0) with true by lia.
    unfold input_vals_pos_step.
    set (s0 := match a with None => 0 | Some s => s end).
    bdestr ((s0 >? 0) && (s0 >=? n)) E1; [intros [= <-]; now apply WF_zero|].
    set (e0 := match b with None => n | Some e => e end).
    bdestr ((e0 <? 0) && (Z.abs e0 >=? n)) E2; [intros [= <-]; now apply WF_zero|].
    set (s1 := if s0 <? 0 then Z.max (n + s0) 0 else s0).
    set (e1 := if e0 >? 0 then Z.min n e0 else if e0 <? 0 then e0 + n else e0).
    bdestr (s1 >=? e1) E3; intros [= <-]; [now apply WF_zero|].
    split; [assumption|]. left. cbn [step start stop seq_len].
    subst s1 e1. destruct (s0 <? 0) eqn:E4; destruct (e0 >? 0) eqn:E5; destruct (e0 <? 0) eqn:E6; lia.
Qed.

(** * the invariant is preserved *)

Lemma wf_zero_slice fl v v' : WF v -> zero_slice fl v = Ok v' -> WF v'.
Proof.
  intros Hwf. destruct fl; cbn [zero_slice]; intros H.
  - apply (wf_mk_view_lemma 0 None None None 0 v'); [lia|exact H].
  - apply (wf_mk_view_lemma (seq_len v) (Some 0) (Some 0) None 0 v'); [apply Hwf|exact H].
Qed.

Lemma wf_rebuild v s e c v' : WF v -> rebuild v s e c = Ok v' -> WF v'.
Proof. intros Hwf H. apply (wf_mk_view_lemma _ _ _ _ _ _ (proj1 Hwf) H). Qed.

Lemma wf_copy_view fl v v' : WF v -> copy_view fl v = Ok v' -> WF v'.
Proof.
  intros Hwf. destruct fl; cbn [copy_view]; intros H.
  - apply (wf_mk_view_lemma _ _ _ _ _ _ (proj1 Hwf) H).
  - now inversion H; subst.
Qed.

Lemma wf_getitem_int_lemma v i v' : WF v -> getitem_int v i = Ok v' -> WF v'.
Proof.
  intros Hwf. unfold getitem_int, bind.
  destruct (get_index v i false) as [[[s e] c]|]; [|discriminate].
  apply wf_rebuild; assumption.
Qed.

Lemma wf_getitem_slice_lemma fl v a b c v' : WF v -> getitem_slice fl v a b c = Ok v' -> WF v'.
Proof.
  intros Hwf.
  assert (Hmain : (if vlen v =? 0 then Ok v else
      if opt_eqb a b then zero_slice fl v else
      let slice_step := match c with None => 1 | Some x => x end in
      if slice_step >? 0 then get_slice fl v a b slice_step
      else if slice_step <? 0 then get_reverse_slice fl v a b slice_step
      else Err E_Value) = Ok v' -> WF v').
  { destruct (vlen v =? 0); [intros [= <-]; exact Hwf|].
    destruct (opt_eqb a b); [apply wf_zero_slice; exact Hwf|].
    cbv zeta. set (k := match c with None => 1 | Some x => x end).
    destruct (k >? 0).
    - unfold get_slice. destruct (step v >? 0).
      + unfold get_forward_slice_from_forward.
        repeat match goal with |- (if ?x then zero_slice _ _ else _) = _ -> _ =>
          destruct x; [apply wf_zero_slice; exact Hwf|] end.
        apply wf_rebuild; exact Hwf.
      + destruct (step v <? 0); [|discriminate].
        unfold get_forward_slice_from_reverse.
        repeat match goal with |- (if ?x then zero_slice _ _ else _) = _ -> _ =>
          destruct x; [apply wf_zero_slice; exact Hwf|] end.
        apply wf_rebuild; exact Hwf.
    - destruct (k <? 0); [|discriminate].
      unfold get_reverse_slice. destruct (step v <? 0).
      + unfold get_reverse_slice_from_reverse. cbv zeta.
        repeat match goal with |- (if ?x then zero_slice _ _ else _) = _ -> _ =>
          destruct x; [apply wf_zero_slice; exact Hwf|] end.
        apply wf_rebuild; exact Hwf.
      + destruct (step v >? 0); [|discriminate].
        unfold get_reverse_slice_from_forward. cbv zeta.
        repeat match goal with |- (if ?x then zero_slice _ _ else _) = _ -> _ =>
          destruct x; [apply wf_zero_slice; exact Hwf|] end.
        apply wf_rebuild; exact Hwf. }
  unfold getitem_slice.
  destruct a; [exact Hmain|]. destruct b; [exact Hmain|]. destruct c; [exact Hmain|].
  apply wf_copy_view; exact Hwf.
Qed.

(** * Python-level algebra used below (no view notions) *)

Lemma range_len_pos_char s e c m : 0 < c ->
  (e <= s /\ m = 0) \/ (s < e /\ c * (m - 1) < e - s <= c * m) -> range_len s e c = m.
Proof.
  intros Hc [[H1 ->]|[H1 H2]].
  - now apply range_len_pos_empty.
  - rewrite range_len_pos_cdiv by lia. apply cdiv_uniq; assumption.
Qed.

Lemma range_len_neg_char s e c m : c < 0 ->
  (s <= e /\ m = 0) \/ (e < s /\ (- c) * (m - 1) < s - e <= (- c) * m) -> range_len s e c = m.
Proof.
  intros Hc [[H1 ->]|[H1 H2]].
  - now apply range_len_neg_empty.
  - rewrite range_len_neg_cdiv by lia. apply cdiv_uniq; [lia|assumption].
Qed.

Lemma range_len_pos_cases s e c : 0 < c ->
  (e <= s /\ range_len s e c = 0) \/
  (s < e /\ 0 < range_len s e c /\ c * (range_len s e c - 1) < e - s <= c * range_len s e c).
Proof.
  intros Hc. destruct (Z_lt_le_dec s e) as [H|H].
  - right. pose proof (range_len_pos_spec s e c Hc H). split; [assumption|]. split; [nia|assumption].
  - left. split; [assumption|]. now apply range_len_pos_empty.
Qed.

Lemma range_len_neg_cases s e c : c < 0 ->
  (s <= e /\ range_len s e c = 0) \/
  (e < s /\ 0 < range_len s e c /\ (- c) * (range_len s e c - 1) < s - e <= (- c) * range_len s e c).
Proof.
  intros Hc. destruct (Z_lt_le_dec e s) as [H|H].
  - right. pose proof (range_len_neg_spec s e c Hc H). split; [assumption|]. split; [nia|assumption].
  - left. split; [assumption|]. now apply range_len_neg_empty.
Qed.

Lemma gather_prog_eq {A} (p : list A) f1 f2 st n1 n2 :
  n1 = n2 -> (0 < n1 -> f1 = f2) ->
  gather p (prog f1 st (Z.to_nat n1)) = gather p (prog f2 st (Z.to_nat n2)).
Proof.
  intros <- Hf. destruct (Z_lt_le_dec 0 n1) as [H|H].
  - now rewrite (Hf H).
  - replace (Z.to_nat n1) with O by lia. reflexivity.
Qed.

Lemma py_slice_empty {A} (l : list A) a b c :
  range_len (adjust_bound (zlen l) c false a) (adjust_bound (zlen l) c true b) c = 0 ->
  py_slice l a b c = [].
Proof. intros H. rewrite py_slice_unfold, H. reflexivity. Qed.

(** a Python slice of a gathered progression is a gathered progression *)
Lemma py_slice_gather_prog {A} (p : list A) f st L a b c : c <> 0 -> 0 <= L ->
  (forall i, In i (prog f st (Z.to_nat L)) -> 0 <= i < zlen p) ->
  py_slice (gather p (prog f st (Z.to_nat L))) a b c =
  gather p (prog (f + adjust_bound L c false a * st) (st * c)
              (Z.to_nat (range_len (adjust_bound L c false a) (adjust_bound L c true b) c))).
Proof.
  intros Hc HL Hin.
  assert (Hlen : zlen (gather p (prog f st (Z.to_nat L))) = L).
  { unfold zlen. rewrite gather_length, prog_length by assumption. lia. }
  rewrite py_slice_unfold, Hlen.
  apply gather_prog_prog; [assumption|].
  intros j Hj. rewrite Z2Nat.id by assumption.
  apply (py_range_in_bounds L a b c j HL Hc). exact Hj.
Qed.

(** * the value of a view in normal form *)

Lemma value_fwd {A} v (p : list A) : WF v -> 0 < step v -> zlen p = seq_len v ->
  value v p = gather p (prog (start v) (step v) (Z.to_nat (vlen v))).
Proof.
  intros Hwf Hpos Hp. destruct (wf_fwd_facts v Hwf Hpos) as (Hn & Hb & He & HL & HL0 & Hc).
  unfold value. rewrite py_slice_unfold, Hp.
  assert (H1 : adjust_bound (seq_len v) (step v) false (Some (start v)) = Z.min (start v) (seq_len v)).
  { unfold adjust_bound. replace (start v <? 0) with false by lia.
    destruct (start v >=? seq_len v) eqn:E; replace (step v <? 0) with false by lia; lia. }
  assert (H2 : adjust_bound (seq_len v) (step v) true (Some (stop v)) = stop v).
  { unfold adjust_bound. replace (stop v <? 0) with false by lia.
    destruct (stop v >=? seq_len v) eqn:E; replace (step v <? 0) with false by lia; lia. }
  rewrite H1, H2.
  apply gather_prog_eq.
  - apply range_len_pos_char; [assumption|]. destruct (Z.eq_dec (vlen v) 0) as [E|E]; [left|right]; nia.
  - intros Hm. assert (Hr := range_len_pos_cases (Z.min (start v) (seq_len v)) (stop v) (step v) Hpos). lia.
Qed.

Lemma value_rev {A} v (p : list A) : WF v -> step v < 0 -> zlen p = seq_len v ->
  value v p = gather p (prog (start v + seq_len v) (step v) (Z.to_nat (vlen v))).
Proof.
  intros Hwf Hneg Hp. destruct (wf_rev_facts v Hwf Hneg) as (Hn & Hb & He & HL & HL0 & Hc).
  unfold value. rewrite py_slice_unfold, Hp.
  assert (H1 : adjust_bound (seq_len v) (step v) false (Some (start v)) = Z.max (start v + seq_len v) (-1)).
  { unfold adjust_bound. replace (start v <? 0) with true by lia. replace (step v <? 0) with true by lia.
    destruct (start v + seq_len v <? 0) eqn:E; lia. }
  assert (H2 : adjust_bound (seq_len v) (step v) true (Some (stop v)) = stop v + seq_len v).
  { unfold adjust_bound. replace (stop v <? 0) with true by lia. replace (step v <? 0) with true by lia.
    destruct (stop v + seq_len v <? 0) eqn:E; lia. }
  rewrite H1, H2.
  apply gather_prog_eq.
  - apply range_len_neg_char; [assumption|]. destruct (Z.eq_dec (vlen v) 0) as [E|E]; [left|right]; nia.
  - intros Hm. assert (Hr := range_len_neg_cases (Z.max (start v + seq_len v) (-1)) (stop v + seq_len v) (step v) Hneg). lia.
Qed.

(** every displayed index is a valid index of the parent *)
Lemma value_fwd_in_range v : WF v -> 0 < step v ->
  forall i, In i (prog (start v) (step v) (Z.to_nat (vlen v))) -> 0 <= i < seq_len v.
Proof.
  intros Hwf Hpos i Hi. destruct (wf_fwd_facts v Hwf Hpos) as (Hn & Hb & He & HL & HL0 & Hc).
  apply prog_In in Hi. destruct Hi as (k & Hk & ->). rewrite Z2Nat.id in Hk by assumption. nia.
Qed.

Lemma value_rev_in_range v : WF v -> step v < 0 ->
  forall i, In i (prog (start v + seq_len v) (step v) (Z.to_nat (vlen v))) -> 0 <= i < seq_len v.
Proof.
  intros Hwf Hneg i Hi. destruct (wf_rev_facts v Hwf Hneg) as (Hn & Hb & He & HL & HL0 & Hc).
  apply prog_In in Hi. destruct Hi as (k & Hk & ->). rewrite Z2Nat.id in Hk by assumption. nia.
Qed.

(** [len(view)] is the length of the displayed string *)
Lemma len_value_lemma {A} v (p : list A) : WF v -> zlen p = seq_len v -> zlen (value v p) = vlen v.
Proof.
  intros Hwf Hp. pose proof (vlen_nonneg v) as HL.
  destruct (Z_lt_le_dec 0 (step v)) as [Hpos|Hneg].
  - rewrite value_fwd by assumption. unfold zlen at 1.
    rewrite gather_length, prog_length; [lia|].
    intros i Hi. rewrite Hp. now apply value_fwd_in_range.
  - assert (Hneg' : step v < 0) by (pose proof (wf_step_nz v Hwf); lia).
    rewrite value_rev by assumption. unfold zlen at 1.
    rewrite gather_length, prog_length; [lia|].
    intros i Hi. rewrite Hp. now apply value_rev_in_range.
Qed.

(** * arithmetic of slicing a view: index space vs parent coordinates *)

Lemma adj_pos_spec L c st x : 0 < c -> 0 <= L ->
  match x with
  | None => adjust_bound L c st x = (if st then L else 0)
  | Some i => (i < 0 -> adjust_bound L c st x = Z.max 0 (i + L)) /\ (0 <= i -> adjust_bound L c st x = Z.min L i)
  end.
Proof.
  intros Hc HL. unfold adjust_bound. replace (c <? 0) with false by lia.
  destruct x as [i|]; [|reflexivity].
  destruct (i <? 0) eqn:E1; [destruct (i + L <? 0) eqn:E2; lia|].
  destruct (i >=? L) eqn:E3; lia.
Qed.

Lemma adj_neg_spec L c st x : c < 0 -> 0 <= L ->
  match x with
  | None => adjust_bound L c st x = (if st then -1 else L - 1)
  | Some i => (i < 0 -> adjust_bound L c st x = Z.max (-1) (i + L)) /\ (0 <= i -> adjust_bound L c st x = Z.min (L - 1) i)
  end.
Proof.
  intros Hc HL. unfold adjust_bound. replace (c <? 0) with true by lia.
  destruct x as [i|]; [|reflexivity].
  destruct (i <? 0) eqn:E1; [destruct (i + L <? 0) eqn:E2; lia|].
  destruct (i >=? L) eqn:E3; lia.
Qed.

Lemma adj_pos_nonneg n K st s : 0 < K -> 0 <= n -> 0 <= s -> adjust_bound n K st (Some s) = Z.min n s.
Proof. intros HK Hn Hs. now destruct (adj_pos_spec n K st (Some s) HK Hn) as [_ H]; apply H. Qed.

Lemma adj_neg_neg n K st s : K < 0 -> 0 <= n -> s < 0 -> adjust_bound n K st (Some s) = Z.max (-1) (s + n).
Proof. intros HK Hn Hs. now destruct (adj_neg_spec n K st (Some s) HK Hn) as [H _]; apply H. Qed.

Lemma mulr_le C x y : 0 < C -> x <= y -> x * C <= y * C.
Proof. intros. apply Z.mul_le_mono_nonneg_r; lia. Qed.

Lemma mulr_lt C x y : 0 < C -> x < y -> x * C < y * C.
Proof. intros. apply Z.mul_lt_mono_pos_r; lia. Qed.

Lemma mulr_le_inv C x y : 0 < C -> x * C <= y * C -> x <= y.
Proof. intros HC H. apply (Z.mul_le_mono_pos_r x y C HC). exact H. Qed.

Lemma mulr_lt_inv C x y : 0 < C -> x * C < y * C -> x < y.
Proof. intros HC H. apply (Z.mul_lt_mono_pos_r C x y HC). exact H. Qed.

(** count of an ascending range whose bounds are the images of index bounds
    under a scaling by [D] (up to the slack of a non-aligned stop) *)
Lemma core_asc D c t m first stop : 0 < D -> 0 < c ->
  (t <= 0 /\ m = 0 /\ stop <= first) \/
  (0 < t /\ c * (m - 1) < t <= c * m /\ D * (t - 1) < stop - first <= D * t) ->
  range_len first stop (D * c) = m.
Proof.
  intros HD Hc [(Ht & -> & Hs)|(Ht & Hm & Hd)].
  - apply range_len_pos_empty; nia.
  - apply range_len_pos_char; [nia|]. right. split; [nia|].
    assert (D * (c * (m - 1)) <= D * (t - 1)) by (apply Z.mul_le_mono_nonneg_l; lia).
    assert (D * t <= D * (c * m)) by (apply Z.mul_le_mono_nonneg_l; lia).
    split; lia.
Qed.

Lemma core_desc D c t m first stop : 0 < D -> 0 < c ->
  (t <= 0 /\ m = 0 /\ first <= stop) \/
  (0 < t /\ c * (m - 1) < t <= c * m /\ D * (t - 1) < first - stop <= D * t) ->
  range_len first stop (- (D * c)) = m.
Proof.
  intros HD Hc H. rewrite <- range_len_opp. rewrite Z.opp_involutive.
  apply core_asc with (t := t); [assumption|assumption|].
  destruct H as [H|H]; [left|right]; lia.
Qed.

(** ** forward slice of a forward view *)

Lemma ff_scale S E C L c sg ep sidx eidx m :
  0 < C -> 0 < c -> 0 < L -> C * (L - 1) < E - S <= C * L ->
  0 <= sg -> sidx = Z.min sg L -> eidx = Z.max 0 (Z.min ep L) ->
  (eidx <= sidx /\ m = 0) \/ (sidx < eidx /\ 0 < m /\ c * (m - 1) < eidx - sidx <= c * m) ->
  range_len (S + sg * C) (Z.min E (S + ep * C)) (C * c) = m /\
  (0 < m -> sidx = sg /\ sg < L /\ sg < ep).
Proof.
  intros HC Hc HL HLc Hsg Hsidx Heidx Hm.
  split.
  - apply core_asc with (t := eidx - sidx); [assumption|assumption|].
    destruct Hm as [[Hle Hm]|(Hlt & Hm0 & Hm)].
    + left. split; [lia|]. split; [assumption|].
      destruct (Z_le_gt_dec ep sg) as [H|H].
      * pose proof (mulr_le C ep sg HC H). lia.
      * assert (H1 : L <= sg) by lia. pose proof (mulr_le C L sg HC H1). lia.
    + right. split; [lia|]. split; [assumption|].
      assert (Hsl : sg < L) by lia. assert (Hsidx' : sidx = sg) by lia.
      destruct (Z_le_gt_dec L ep) as [H|H].
      * assert (Heidx' : eidx = L) by lia. pose proof (mulr_le C L ep HC H).
        replace (Z.min E (S + ep * C)) with E by lia. rewrite Heidx', Hsidx'.
        clear - HLc. lia.
      * assert (Heidx' : eidx = ep) by lia. assert (H1 : ep + 1 <= L) by lia.
        pose proof (mulr_le C (ep + 1) L HC H1).
        replace (Z.min E (S + ep * C)) with (S + ep * C) by lia. rewrite Heidx', Hsidx'.
        clear - HC. lia.
  - intros Hm0. destruct Hm as [[_ Hm]|(Hlt & _)]; lia.
Qed.

(** * the constructor stores Python's adjusted slice indices *)

Lemma ivp_spec n a b K : 0 < K -> 0 <= n ->
  input_vals_pos_step n a b K =
  (if adjust_bound n K false a <? adjust_bound n K true b
   then (adjust_bound n K false a, adjust_bound n K true b, K) else (0, 0, 1)).
Proof.
  intros HK Hn.
  pose proof (adj_pos_spec n K false a HK Hn) as Ha.
  pose proof (adj_pos_spec n K true b HK Hn) as Hb.
  set (A := adjust_bound n K false a) in *. set (B := adjust_bound n K true b) in *.
  unfold input_vals_pos_step.
  set (s0 := match a with None => 0 | Some s => s end).
  set (e0 := match b with None => n | Some e => e end).
  assert (HA : (s0 < 0 -> A = Z.max 0 (s0 + n)) /\ (0 <= s0 -> A = Z.min n s0)).
  { subst s0. destruct a; [exact Ha|]. cbv beta iota in Ha. lia. }
  assert (HB : (e0 < 0 -> B = Z.max 0 (e0 + n)) /\ (0 <= e0 -> B = Z.min n e0)).
  { subst e0. destruct b; [exact Hb|]. cbv beta iota in Hb. lia. }
  clearbody A B s0 e0. clear Ha Hb.
  destruct ((s0 >? 0) && (s0 >=? n)) eqn:E1.
  { replace (A <? B) with false by lia. reflexivity. }
  destruct ((e0 <? 0) && (Z.abs e0 >=? n)) eqn:E2.
  { replace (A <? B) with false by lia. reflexivity. }
  assert (H1 : (if s0 <? 0 then Z.max (n + s0) 0 else s0) = A) by (destruct (s0 <? 0) eqn:E; lia).
  assert (H2 : (if e0 >? 0 then Z.min n e0 else if e0 <? 0 then e0 + n else e0) = B)
    by (destruct (e0 >? 0) eqn:E; [lia|destruct (e0 <? 0) eqn:E'; lia]).
  rewrite H1, H2.
  destruct (A >=? B) eqn:E3; [replace (A <? B) with false by lia|replace (A <? B) with true by lia]; reflexivity.
Qed.

Lemma ivn_spec n a b K s e K' : K < 0 -> 0 <= n ->
  input_vals_neg_step n a b K = (s, e, K') ->
  (adjust_bound n K true b < adjust_bound n K false a /\
   s = adjust_bound n K false a - n /\ e = adjust_bound n K true b - n /\ K' = K) \/
  (adjust_bound n K false a <= adjust_bound n K true b /\ s = e /\ (K' = K \/ K' = 1)).
Proof.
  intros HK Hn.
  pose proof (adj_neg_spec n K false a HK Hn) as Ha.
  pose proof (adj_neg_spec n K true b HK Hn) as Hb.
  set (A := adjust_bound n K false a) in *. set (B := adjust_bound n K true b) in *.
  unfold input_vals_neg_step.
  clearbody A B.
  destruct a as [s0|];
    [destruct Ha as [Ha1 Ha2]; destruct (s0 >=? n) eqn:E1;
       [|destruct (s0 >=? 0) eqn:E2; [|destruct (s0 <? - n) eqn:E3]]
    |cbv beta iota in Ha];
  (destruct b as [e0|]; [destruct Hb as [Hb1 Hb2]; destruct (e0 >=? 0) eqn:E4|cbv beta iota in Hb]);
  try match goal with |- context[if ?c then _ else _] => destruct c eqn:E5 end;
  intros [= <- <- <-]; lia.
Qed.

Lemma value_zero {A} n off (p : list A) : value (mkV 0 0 1 n off) p = [].
Proof.
  unfold value. cbn [start stop step]. apply py_slice_empty.
  apply range_len_pos_empty; [lia|].
  unfold adjust_bound. replace (0 <? 0) with false by lia. replace (1 <? 0) with false by lia.
  destruct (0 >=? zlen p); lia.
Qed.

Lemma mk_view_step_unfold n a b K off : K <> 0 ->
  mk_view n a b (Some K) off =
  (let '(s, e, c) := if K >? 0 then input_vals_pos_step n a b K else input_vals_neg_step n a b K in
   Ok (mkV s e c n off)).
Proof. intros HK. destruct K; [lia|reflexivity|reflexivity]. Qed.

(** the constructor realises exactly Python's [p[a:b:c]] *)
Lemma value_mk_view_step {A} (p : list A) n a b K off v : zlen p = n -> K <> 0 ->
  mk_view n a b (Some K) off = Ok v -> value v p = py_slice p a b K.
Proof.
  intros Hp HK. pose proof (zlen_nonneg p) as Hn. rewrite Hp in Hn.
  rewrite (mk_view_step_unfold n a b K off HK).
  destruct (Z_lt_le_dec 0 K) as [HK'|HK'].
  - replace (K >? 0) with true by lia.
    rewrite (ivp_spec n a b K HK' Hn).
    pose proof (adjust_bound_pos n K false a Hn HK') as HA.
    pose proof (adjust_bound_pos n K true b Hn HK') as HB.
    rewrite py_slice_unfold, Hp.
    set (A0 := adjust_bound n K false a) in *. set (B0 := adjust_bound n K true b) in *.
    destruct (A0 <? B0) eqn:E; cbv beta iota; intros [= <-].
    + unfold value. cbn [start stop step]. rewrite py_slice_unfold, Hp.
      rewrite !adj_pos_nonneg by lia.
      replace (Z.min n A0) with A0 by lia. replace (Z.min n B0) with B0 by lia. reflexivity.
    + rewrite value_zero. rewrite range_len_pos_empty by lia. reflexivity.
  - assert (HK'' : K < 0) by lia. clear HK'. rename HK'' into HK'. replace (K >? 0) with false by lia.
    destruct (input_vals_neg_step n a b K) as [[s e] K2] eqn:Eiv.
    pose proof (ivn_spec n a b K s e K2 HK' Hn Eiv) as Hspec.
    pose proof (adjust_bound_neg n K false a Hn HK') as HA.
    pose proof (adjust_bound_neg n K true b Hn HK') as HB.
    rewrite py_slice_unfold, Hp.
    set (A0 := adjust_bound n K false a) in *. set (B0 := adjust_bound n K true b) in *.
    cbv beta iota. intros [= <-]. unfold value. cbn [start stop step].
    destruct Hspec as [(Hlt & -> & -> & ->)|(Hle & -> & HK2)].
    + rewrite py_slice_unfold, Hp.
      rewrite !adj_neg_neg by lia.
      replace (Z.max (-1) (A0 - n + n)) with A0 by lia. replace (Z.max (-1) (B0 - n + n)) with B0 by lia.
      reflexivity.
    + rewrite (range_len_neg_empty A0 B0 K) by lia. cbn [Z.to_nat prog gather flat_map].
      apply py_slice_empty.
      set (x := adjust_bound (zlen p) K2 false (Some e)).
      assert (Hx : adjust_bound (zlen p) K2 true (Some e) = x) by reflexivity.
      rewrite Hx. destruct HK2 as [->| ->].
      * apply range_len_neg_empty; lia.
      * apply range_len_pos_empty; lia.
Qed.

Lemma value_mk_view_lemma {A} (p : list A) n a b c off v : zlen p = n -> c <> Some 0 ->
  mk_view n a b c off = Ok v ->
  value v p = py_slice p a b (match c with Some k => k | None => 1 end).
Proof.
  intros Hp Hc. destruct c as [K|].
  - apply value_mk_view_step; [assumption|congruence].
  - intros H. apply (value_mk_view_step p n a b 1 off v Hp); [lia|exact H].
Qed.

Lemma zero_slice_eq fl v :
  zero_slice fl v = Ok (mkV 0 0 1 (match fl with FSeqView => 0 | FSeqDataView => seq_len v end) 0).
Proof. destruct fl; reflexivity. Qed.

Lemma value_zero_slice {A} fl v v' (p : list A) : zero_slice fl v = Ok v' -> value v' p = [].
Proof. rewrite zero_slice_eq. intros [= <-]. apply value_zero. Qed.

(** ** the four direction cases of [__getitem__(slice)] *)

Lemma value_ff {A} fl v (p : list A) a b c v' :
  WF v -> 0 < step v -> zlen p = seq_len v -> 0 < vlen v -> 0 < c ->
  get_forward_slice_from_forward fl v
    (match a with Some x => x | None => 0 end) (match b with Some x => x | None => vlen v end) c = Ok v' ->
  value v' p = py_slice (value v p) a b c.
Proof.
  intros Hwf HC Hp HL Hc.
  destruct (wf_fwd_facts v Hwf HC) as (Hn & HSE & HEn & _ & _ & HLc).
  rewrite (value_fwd v p Hwf HC Hp).
  rewrite py_slice_gather_prog;
    [|lia|lia|intros i Hi; rewrite Hp; now apply value_fwd_in_range].
  unfold get_forward_slice_from_forward, rebuild.
  set (S := start v) in *. set (E := stop v) in *. set (C := step v) in *. set (L := vlen v) in *.
  set (n := seq_len v) in *.
  set (a0 := match a with Some x => x | None => 0 end).
  set (b0 := match b with Some x => x | None => L end).
  set (s := if a0 >=? 0 then S + a0 * C else Z.max (S + L * C + a0 * C) S).
  set (e := if b0 >? E then E else if b0 >=? 0 then S + b0 * C else S + L * C + b0 * C).
  set (sidx := adjust_bound L c false a). set (eidx := adjust_bound L c true b).
  set (m := range_len sidx eidx c).
  pose proof (adj_pos_spec L c false a Hc ltac:(lia)) as Ha. fold sidx in Ha.
  pose proof (adj_pos_spec L c true b Hc ltac:(lia)) as Hb. fold eidx in Hb.
  pose proof (range_len_pos_cases sidx eidx c Hc) as Hm. fold m in Hm.
  clearbody sidx eidx m S E C L n.
  (* index form of the model's start *)
  assert (Hs : exists sg, s = S + sg * C /\ 0 <= sg /\ sidx = Z.min sg L).
  { subst s a0. clear - Ha HC HL. destruct a as [x|].
    - destruct Ha as [Ha1 Ha2]. destruct (x >=? 0) eqn:Ex.
      + exists x. split; [reflexivity|]. lia.
      + exists (Z.max (L + x) 0). split; [|lia].
        assert (Hr : S + L * C + x * C = S + (L + x) * C) by ring. rewrite Hr.
        destruct (Z.max_spec (L + x) 0) as [[H1 ->]|[H1 ->]].
        * pose proof (mulr_le C (L + x) 0 HC ltac:(lia)). lia.
        * pose proof (mulr_le C 0 (L + x) HC ltac:(lia)). lia.
    - exists 0. cbv beta iota in Ha. split; [reflexivity|]. lia. }
  destruct Hs as (sg & Hs & Hsg0 & Hsidx).
  assert (He : exists ep, Z.min E e = Z.min E (S + ep * C) /\ (e < 0 -> ep < 0) /\
                          (e < s -> S + ep * C < s \/ E < s) /\ eidx = Z.max 0 (Z.min ep L)).
  { subst e b0. clear - Hb HC HL HLc HSE. destruct b as [y|].
    - destruct Hb as [Hb1 Hb2]. destruct (y >? E) eqn:Ey1; [|destruct (y >=? 0) eqn:Ey2].
      + exists y. assert (H0 : 0 < y) by lia.
        assert (y * 1 <= y * C) by (apply Z.mul_le_mono_nonneg_l; lia).
        assert ((L - 1) * 1 <= (L - 1) * C) by (apply Z.mul_le_mono_nonneg_l; lia).
        split; [lia|]. split; [lia|]. split; [lia|]. lia.
      + exists y. split; [reflexivity|]. pose proof (mulr_le C 0 y HC ltac:(lia)).
        split; [lia|]. split; [lia|]. lia.
      + exists (L + y). split; [f_equal; ring|].
        split; [intros H; destruct (Z_lt_le_dec (L + y) 0) as [H'|H']; [assumption|];
                pose proof (mulr_le C 0 (L + y) HC H'); lia|].
        split; [intros; left; lia|]. lia.
    - exists L. cbv beta iota in Hb. pose proof (mulr_le C 1 L HC ltac:(lia)).
      replace (L >? E) with false by nia. replace (L >=? 0) with true by lia.
      split; [reflexivity|]. split; [lia|]. split; [lia|]. lia. }
  destruct He as (ep & He & Heneg & Hes & Heidx).
  destruct (ff_scale S E C L c sg ep sidx eidx m HC Hc HL HLc Hsg0 Hsidx Heidx Hm) as [Hcount Hpos].
  assert (Hnz : 0 < m -> 0 <= s /\ 0 <= e /\ s <= e /\ s <= n).
  { intros Hm0. destruct (Hpos Hm0) as (_ & HsgL & Hsgep).
    pose proof (mulr_le C 0 sg HC Hsg0). pose proof (mulr_le C sg (L - 1) HC ltac:(lia)).
    pose proof (mulr_le C (sg + 1) ep HC ltac:(lia)).
    clear - Hs HSE HEn HLc Heneg Hes H H0 H1 HsgL Hsgep Hsg0.
    assert (0 <= s) by lia. assert (s <= n) by lia. assert (0 <= e) by lia. assert (~ e < s) by lia. lia. }
  clearbody s e. clear Ha Hb a0 b0.
  destruct ((s <? 0) || (e <? 0)) eqn:Ez1;
    [intros Hz; rewrite (value_zero_slice fl v v' p Hz);
     replace (Z.to_nat m) with O by lia; reflexivity|].
  destruct (e <? s) eqn:Ez2;
    [intros Hz; rewrite (value_zero_slice fl v v' p Hz);
     replace (Z.to_nat m) with O by lia; reflexivity|].
  destruct (s >? n) eqn:Ez3;
    [intros Hz; rewrite (value_zero_slice fl v v' p Hz);
     replace (Z.to_nat m) with O by lia; reflexivity|].
  intros Hmk.
  assert (HCc : 0 < C * c) by (apply Z.mul_pos_pos; assumption).
  rewrite (value_mk_view_step p n _ _ (C * c) _ v' Hp ltac:(clear - HCc; lia) Hmk).
  rewrite py_slice_unfold, Hp.
  rewrite !adj_pos_nonneg by (clear - HCc Hn Ez1 HSE; lia).
  replace (Z.min n s) with s by (clear - Ez3; lia).
  replace (Z.min n (Z.min E e)) with (Z.min E e) by (clear - HEn; lia).
  rewrite He, Hs, Hcount.
  apply gather_prog_eq; [reflexivity|].
  intros Hm0. destruct (Hpos Hm0) as (-> & _). reflexivity.
Qed.

(** ** forward slice of a reverse view (mirror image of the previous case) *)

Lemma mulr_le_neg C x y : C < 0 -> x <= y -> y * C <= x * C.
Proof. intros. apply Z.mul_le_mono_nonpos_r; lia. Qed.

Lemma fr_scale n S E C L c sg ep sidx eidx m :
  C < 0 -> 0 < c -> 0 < L -> (- C) * (L - 1) < S - E <= (- C) * L -> - n - 1 <= E ->
  0 <= sg -> sidx = Z.min sg L -> eidx = Z.max 0 (Z.min ep L) ->
  (eidx <= sidx /\ m = 0) \/ (sidx < eidx /\ 0 < m /\ c * (m - 1) < eidx - sidx <= c * m) ->
  range_len (Z.max (-1) (S + sg * C + n)) (Z.max E (S + ep * C) + n) (C * c) = m /\
  (0 < m -> sidx = sg /\ sg < L /\ sg < ep /\ Z.max (-1) (S + sg * C + n) = S + sg * C + n).
Proof.
  intros HC Hc HL HLc HEn Hsg Hsidx Heidx Hm.
  assert (HD : 0 < - C) by lia.
  destruct (ff_scale (- S - n) (- E - n) (- C) L c sg ep sidx eidx m HD Hc HL ltac:(lia) Hsg Hsidx Heidx Hm)
    as [Hcount Hpos].
  assert (Hfirst : 0 < m -> Z.max (-1) (S + sg * C + n) = S + sg * C + n).
  { intros Hm0. destruct (Hpos Hm0) as (_ & HsgL & _).
    pose proof (mulr_le_neg C sg (L - 1) HC ltac:(lia)). lia. }
  split.
  - destruct (Z_lt_le_dec 0 m) as [Hm0|Hm0].
    + rewrite (Hfirst Hm0). rewrite <- range_len_opp.
      replace (- (S + sg * C + n)) with (- S - n + sg * - C) by ring.
      replace (- (Z.max E (S + ep * C) + n)) with (Z.min (- E - n) (- S - n + ep * - C)) by lia.
      replace (- (C * c)) with (- C * c) by ring. exact Hcount.
    + destruct Hm as [[Hle Hm]|(Hlt & Hm1 & _)]; [|lia]. subst m.
      apply range_len_neg_empty; [nia|].
      destruct (Z_le_gt_dec ep sg) as [H|H].
      * pose proof (mulr_le_neg C ep sg HC H). lia.
      * assert (H1 : L <= sg) by lia. pose proof (mulr_le_neg C L sg HC H1). lia.
  - intros Hm0. destruct (Hpos Hm0) as (H1 & H2 & H3). repeat split; try assumption. now apply Hfirst.
Qed.

Lemma value_fr {A} fl v (p : list A) a b c v' :
  WF v -> step v < 0 -> zlen p = seq_len v -> 0 < vlen v -> 0 < c ->
  get_forward_slice_from_reverse fl v
    (match a with Some x => x | None => 0 end) (match b with Some x => x | None => vlen v end) c = Ok v' ->
  value v' p = py_slice (value v p) a b c.
Proof.
  intros Hwf HC Hp HL Hc.
  destruct (wf_rev_facts v Hwf HC) as (Hn & HSE & HS1 & _ & _ & HLc).
  rewrite (value_rev v p Hwf HC Hp).
  rewrite py_slice_gather_prog;
    [|lia|lia|intros i Hi; rewrite Hp; now apply value_rev_in_range].
  unfold get_forward_slice_from_reverse, rebuild.
  set (S := start v) in *. set (E := stop v) in *. set (C := step v) in *. set (L := vlen v) in *.
  set (n := seq_len v) in *.
  set (a0 := match a with Some x => x | None => 0 end).
  set (b0 := match b with Some x => x | None => L end).
  set (s := if a0 >=? 0 then S + a0 * C else if Z.abs a0 >? L then S else S + L * C + a0 * C).
  set (e := if b0 >=? 0 then S + b0 * C else S + L * C + b0 * C).
  set (sidx := adjust_bound L c false a). set (eidx := adjust_bound L c true b).
  set (m := range_len sidx eidx c).
  pose proof (adj_pos_spec L c false a Hc ltac:(lia)) as Ha. fold sidx in Ha.
  pose proof (adj_pos_spec L c true b Hc ltac:(lia)) as Hb. fold eidx in Hb.
  pose proof (range_len_pos_cases sidx eidx c Hc) as Hm. fold m in Hm.
  clearbody sidx eidx m S E C L n.
  assert (Hs : exists sg, s = S + sg * C /\ 0 <= sg /\ sidx = Z.min sg L).
  { subst s a0. clear - Ha HC HL. destruct a as [x|].
    - destruct Ha as [Ha1 Ha2]. destruct (x >=? 0) eqn:Ex.
      + exists x. split; [reflexivity|]. lia.
      + destruct (Z.abs x >? L) eqn:Ex2.
        * exists 0. split; [ring|]. lia.
        * exists (L + x). split; [ring|]. lia.
    - exists 0. cbv beta iota in Ha. split; [reflexivity|]. lia. }
  destruct Hs as (sg & Hs & Hsg0 & Hsidx).
  assert (He : exists ep, e = S + ep * C /\ eidx = Z.max 0 (Z.min ep L)).
  { subst e b0. clear - Hb HC HL. destruct b as [y|].
    - destruct Hb as [Hb1 Hb2]. destruct (y >=? 0) eqn:Ey2.
      + exists y. split; [reflexivity|]. lia.
      + exists (L + y). split; [ring|]. lia.
    - exists L. cbv beta iota in Hb. replace (L >=? 0) with true by lia. split; [reflexivity|]. lia. }
  destruct He as (ep & He & Heidx).
  destruct (fr_scale n S E C L c sg ep sidx eidx m HC Hc HL HLc ltac:(lia) Hsg0 Hsidx Heidx Hm) as [Hcount Hpos].
  assert (Hnz : 0 < m -> s < 0 /\ e < 0).
  { intros Hm0. destruct (Hpos Hm0) as (_ & HsgL & Hsgep & _).
    pose proof (mulr_le_neg C 0 sg HC Hsg0). pose proof (mulr_le_neg C 0 ep HC ltac:(lia)).
    clear - Hs He HS1 H H0. lia. }
  clearbody s e. clear Ha Hb a0 b0.
  destruct ((s >=? 0) || (e >=? 0)) eqn:Ez1;
    [intros Hz; rewrite (value_zero_slice fl v v' p Hz);
     replace (Z.to_nat m) with O by lia; reflexivity|].
  intros Hmk.
  assert (HCc : C * c < 0) by (apply Z.mul_neg_pos; assumption).
  rewrite (value_mk_view_step p n _ _ (C * c) _ v' Hp ltac:(clear - HCc; lia) Hmk).
  rewrite py_slice_unfold, Hp.
  rewrite !adj_neg_neg by (clear - HCc Hn Ez1 HSE HS1; lia).
  replace (Z.max (-1) (Z.max E e + n)) with (Z.max E e + n) by (clear - HSE; lia).
  rewrite He, Hs, Hcount.
  apply gather_prog_eq; [reflexivity|].
  intros Hm0. destruct (Hpos Hm0) as (-> & _ & _ & ->). ring.
Qed.

(** ** reverse slice of a forward view *)

Lemma rf_scale S C L c sg ep sidx eidx m :
  0 < C -> c < 0 -> 0 < L -> 0 <= S ->
  sg <= L - 1 -> sidx = Z.max (-1) sg -> eidx = Z.max (-1) (Z.min (L - 1) ep) ->
  (sidx <= eidx /\ m = 0) \/ (eidx < sidx /\ 0 < m /\ (- c) * (m - 1) < sidx - eidx <= (- c) * m) ->
  range_len (Z.max (-1) (S + sg * C)) (Z.max (-1) (Z.max (S + ep * C) (S - 1))) (C * c) = m /\
  (0 < m -> sidx = sg /\ 0 <= sg /\ ep < sg /\ Z.max (-1) (S + sg * C) = S + sg * C).
Proof.
  intros HC Hc HL HS Hsg Hsidx Heidx Hm.
  assert (Hpos : 0 < m -> sidx = sg /\ 0 <= sg /\ ep < sg /\ Z.max (-1) (S + sg * C) = S + sg * C).
  { intros Hm0. destruct Hm as [[_ Hm]|(Hlt & _)]; [lia|].
    assert (H0 : 0 <= sg) by lia. pose proof (mulr_le C 0 sg HC H0). lia. }
  split; [|exact Hpos].
  replace (C * c) with (- (C * - c)) by ring.
  apply core_desc with (t := sidx - eidx); [assumption|lia|].
  destruct Hm as [[Hle Hm]|(Hlt & Hm0 & Hm)].
  - left. split; [lia|]. split; [assumption|].
    destruct (Z_lt_le_dec sg 0) as [H|H].
    + pose proof (mulr_le C sg (-1) HC ltac:(lia)). lia.
    + assert (H1 : sg <= ep) by lia. pose proof (mulr_le C sg ep HC H1). lia.
  - right. split; [lia|]. split; [lia|].
    destruct (Hpos Hm0) as (Hs1 & Hs2 & Hs3 & Hs4). rewrite Hs4.
    destruct (Z_lt_le_dec ep 0) as [H|H].
    + pose proof (mulr_le C ep (-1) HC ltac:(lia)).
      replace (Z.max (-1) (Z.max (S + ep * C) (S - 1))) with (S - 1) by lia.
      replace eidx with (-1) by lia. rewrite Hs1. clear - HC. lia.
    + pose proof (mulr_le C 0 ep HC H).
      replace (Z.max (-1) (Z.max (S + ep * C) (S - 1))) with (S + ep * C) by lia.
      replace eidx with ep by lia. rewrite Hs1. clear - HC. lia.
Qed.

(** index forms of the model's reverse-slice start and stop (shared by the
    forward and the reverse view case) *)
Lemma rev_start_index L c a sidx : c < 0 -> 0 < L ->
  sidx = adjust_bound L c false a ->
  let a0 := match a with Some x => x | None => -1 end in
  exists sg, (if a0 >=? L then L - 1 else if a0 >=? 0 then a0 else L + a0) = sg /\
             sg <= L - 1 /\ sidx = Z.max (-1) sg.
Proof.
  intros Hc HL -> a0. pose proof (adj_neg_spec L c false a Hc ltac:(lia)) as Ha.
  subst a0. destruct a as [x|].
  - destruct Ha as [Ha1 Ha2]. destruct (x >=? L) eqn:E1; [|destruct (x >=? 0) eqn:E2].
    + exists (L - 1). split; [reflexivity|]. lia.
    + exists x. split; [reflexivity|]. lia.
    + exists (L + x). split; [reflexivity|]. lia.
  - cbv beta iota in Ha. exists (L - 1). replace (-1 >=? L) with false by lia.
    replace (-1 >=? 0) with false by lia. split; [lia|]. lia.
Qed.

Lemma rev_stop_index L c b eidx : c < 0 -> 0 < L ->
  eidx = adjust_bound L c true b ->
  let b0 := match b with Some x => x | None => - L - 1 end in
  exists ep, (if b0 >=? 0 then b0 else L + b0) = ep /\ eidx = Z.max (-1) (Z.min (L - 1) ep) /\
             (0 <= b0 -> ep = b0) /\ (b0 < 0 -> ep = L + b0).
Proof.
  intros Hc HL -> b0. pose proof (adj_neg_spec L c true b Hc ltac:(lia)) as Hb.
  subst b0. destruct b as [y|].
  - destruct Hb as [Hb1 Hb2]. destruct (y >=? 0) eqn:E1.
    + exists y. split; [reflexivity|]. lia.
    + exists (L + y). split; [reflexivity|]. lia.
  - cbv beta iota in Hb. exists (-1). replace (- L - 1 >=? 0) with false by lia. split; [lia|]. lia.
Qed.

Lemma value_rf {A} fl v (p : list A) a b c v' :
  WF v -> 0 < step v -> zlen p = seq_len v -> 0 < vlen v -> c < 0 ->
  get_reverse_slice_from_forward fl v
    (match a with Some x => x | None => -1 end) (match b with Some x => x | None => - vlen v - 1 end) c = Ok v' ->
  value v' p = py_slice (value v p) a b c.
Proof.
  intros Hwf HC Hp HL Hc.
  destruct (wf_fwd_facts v Hwf HC) as (Hn & HSE & HEn & _ & _ & HLc).
  rewrite (value_fwd v p Hwf HC Hp).
  rewrite py_slice_gather_prog;
    [|lia|lia|intros i Hi; rewrite Hp; now apply value_fwd_in_range].
  unfold get_reverse_slice_from_forward, rebuild.
  set (S := start v) in *. set (E := stop v) in *. set (C := step v) in *. set (L := vlen v) in *.
  set (n := seq_len v) in *.
  set (sidx := adjust_bound L c false a). set (eidx := adjust_bound L c true b).
  set (m := range_len sidx eidx c).
  destruct (rev_start_index L c a sidx Hc HL eq_refl) as (sg & Hsg & HsgL & Hsidx).
  destruct (rev_stop_index L c b eidx Hc HL eq_refl) as (ep & Hep & Heidx & Hep1 & Hep2).
  pose proof (range_len_neg_cases sidx eidx c Hc) as Hm. fold m in Hm.
  set (a0 := match a with Some x => x | None => -1 end) in *.
  set (b0 := match b with Some x => x | None => - L - 1 end) in *.
  clearbody sidx eidx m S E C L n a0 b0.
  set (s := if a0 >=? L then S + L * C - C - n else if a0 >=? 0 then S + a0 * C - n else S + L * C + a0 * C - n).
  assert (Hs : s = S + sg * C - n).
  { subst s. clear - Hsg. destruct (a0 >=? L); [|destruct (a0 >=? 0)]; subst sg; ring. }
  set (e := if b0 >=? 0 then S + b0 * C - n else S + L * C + b0 * C - n).
  assert (He : e = S + ep * C - n).
  { subst e. clear - Hep. destruct (b0 >=? 0); subst ep; ring. }
  destruct (rf_scale S C L c sg ep sidx eidx m HC Hc HL ltac:(lia) HsgL Hsidx Heidx Hm) as [Hcount Hpos].
  pose proof (mulr_le C 1 L HC ltac:(lia)) as HCL.
  assert (Hnz : 0 < m -> b0 < n /\ s < 0 /\ e < 0).
  { intros Hm0. destruct (Hpos Hm0) as (_ & Hsg0 & Hepsg & _).
    pose proof (mulr_le C sg (L - 1) HC HsgL). pose proof (mulr_le C ep (L - 1) HC ltac:(lia)).
    assert ((L - 1) * 1 <= (L - 1) * C) by (apply Z.mul_le_mono_nonneg_l; lia).
    clear - Hs He HSE HEn HLc H H0 H1 Hep1 Hep2 Hepsg HsgL. lia. }
  clearbody s e.
  destruct (b0 >=? n) eqn:Ez0;
    [intros Hz; rewrite (value_zero_slice fl v v' p Hz);
     replace (Z.to_nat m) with O by lia; reflexivity|].
  destruct ((s >=? 0) || (e >=? 0)) eqn:Ez1;
    [intros Hz; rewrite (value_zero_slice fl v v' p Hz);
     replace (Z.to_nat m) with O by lia; reflexivity|].
  intros Hmk.
  assert (HCc : C * c < 0) by (apply Z.mul_pos_neg; assumption).
  rewrite (value_mk_view_step p n _ _ (C * c) _ v' Hp ltac:(clear - HCc; lia) Hmk).
  rewrite py_slice_unfold, Hp.
  rewrite !adj_neg_neg by (clear - HCc Hn Ez1 HSE HEn; lia).
  rewrite He, Hs.
  replace (S + sg * C - n + n) with (S + sg * C) by ring.
  replace (Z.max (S + ep * C - n) (S - n - 1) + n) with (Z.max (S + ep * C) (S - 1)) by lia.
  rewrite Hcount.
  apply gather_prog_eq; [reflexivity|].
  intros Hm0. destruct (Hpos Hm0) as (-> & _ & _ & ->). reflexivity.
Qed.

(** ** reverse slice of a reverse view (the result is a forward view) *)

Lemma rr_scale S' C L c sg ep sidx eidx m :
  C < 0 -> c < 0 -> 0 < L ->
  sg <= L - 1 -> sidx = Z.max (-1) sg -> eidx = Z.max (-1) (Z.min (L - 1) ep) ->
  (sidx <= eidx /\ m = 0) \/ (eidx < sidx /\ 0 < m /\ (- c) * (m - 1) < sidx - eidx <= (- c) * m) ->
  let e := if ep <? 0 then S' + 1 else S' + ep * C in
  (0 < m -> sidx = sg /\ 0 <= sg /\ ep < sg /\ S' + sg * C < e /\ range_len (S' + sg * C) e (C * c) = m) /\
  (m = 0 -> e <= S' + sg * C).
Proof.
  intros HC Hc HL Hsg Hsidx Heidx Hm e.
  split.
  - intros Hm0. destruct Hm as [[_ Hm]|(Hlt & _ & Hm)]; [lia|].
    assert (H0 : 0 <= sg) by lia. assert (H1 : sidx = sg) by lia. assert (H2 : ep < sg) by lia.
    pose proof (mulr_le_neg C 0 sg HC H0) as H3.
    assert (H4 : S' + sg * C < e).
    { subst e. destruct (ep <? 0) eqn:E; [lia|].
      pose proof (mulr_le_neg C (ep + 1) sg HC ltac:(lia)). lia. }
    repeat split; try assumption.
    replace (C * c) with ((- C) * (- c)) by ring.
    apply core_asc with (t := sidx - eidx); [lia|lia|].
    right. split; [lia|]. split; [assumption|]. rewrite H1.
    subst e. destruct (ep <? 0) eqn:E.
    + replace eidx with (-1) by lia. clear - HC. lia.
    + replace eidx with ep by lia. clear - HC. lia.
  - intros Hm0. destruct Hm as [[Hle _]|(_ & Hm1 & _)]; [|lia].
    subst e. destruct (Z_lt_le_dec sg 0) as [H|H].
    + pose proof (mulr_le_neg C sg (-1) HC ltac:(lia)).
      destruct (ep <? 0) eqn:E; [lia|]. pose proof (mulr_le_neg C 0 ep HC ltac:(lia)). lia.
    + assert (H1 : sg <= ep) by lia. replace (ep <? 0) with false by lia.
      pose proof (mulr_le_neg C sg ep HC H1). lia.
Qed.

Lemma value_rr {A} fl v (p : list A) a b c v' :
  WF v -> step v < 0 -> zlen p = seq_len v -> 0 < vlen v -> c < 0 ->
  get_reverse_slice_from_reverse fl v
    (match a with Some x => x | None => -1 end) (match b with Some x => x | None => - vlen v - 1 end) c = Ok v' ->
  value v' p = py_slice (value v p) a b c.
Proof.
  intros Hwf HC Hp HL Hc.
  destruct (wf_rev_facts v Hwf HC) as (Hn & HSE & HS1 & _ & _ & HLc).
  rewrite (value_rev v p Hwf HC Hp).
  rewrite py_slice_gather_prog;
    [|lia|lia|intros i Hi; rewrite Hp; now apply value_rev_in_range].
  unfold get_reverse_slice_from_reverse, rebuild. cbv zeta.
  set (S := start v) in *. set (E := stop v) in *. set (C := step v) in *. set (L := vlen v) in *.
  set (n := seq_len v) in *.
  set (sidx := adjust_bound L c false a). set (eidx := adjust_bound L c true b).
  set (m := range_len sidx eidx c).
  destruct (rev_start_index L c a sidx Hc HL eq_refl) as (sg & Hsg & HsgL & Hsidx).
  destruct (rev_stop_index L c b eidx Hc HL eq_refl) as (ep & Hep & Heidx & Hep1 & Hep2).
  pose proof (range_len_neg_cases sidx eidx c Hc) as Hm. fold m in Hm.
  set (a0 := match a with Some x => x | None => -1 end) in *.
  set (b0 := match b with Some x => x | None => - L - 1 end) in *.
  clearbody sidx eidx m S E C L n a0 b0.
  set (s := if a0 >=? L then n + S + L * C + Z.abs C else if a0 >=? 0 then n + (S + a0 * C) else n + (S + L * C + a0 * C)).
  assert (Hs : s = S + n + sg * C).
  { subst s. clear - Hsg HC. destruct (a0 >=? L); [|destruct (a0 >=? 0)]; subst sg; lia. }
  set (e0 := if b0 >=? 0 then n + (S + b0 * C) else n + (S + L * C + b0 * C)).
  assert (He0 : e0 = S + n + ep * C).
  { subst e0. clear - Hep. destruct (b0 >=? 0); subst ep; ring. }
  destruct (rr_scale (S + n) C L c sg ep sidx eidx m HC Hc HL HsgL Hsidx Heidx Hm) as [Hpos Hzero].
  cbv zeta in Hpos, Hzero.
  set (e := if (b0 <? 0) && (e0 >? n + S) then n + S + 1 else e0).
  assert (He : e = if ep <? 0 then S + n + 1 else S + n + ep * C).
  { subst e. rewrite He0. clear - Hep1 Hep2 HC.
    destruct (Z_lt_le_dec b0 0) as [Hb|Hb].
    - replace (b0 <? 0) with true by lia. cbn [andb].
      destruct (ep <? 0) eqn:E.
      + pose proof (mulr_le_neg C ep (-1) HC ltac:(lia)). replace (S + n + ep * C >? n + S) with true by lia. ring.
      + pose proof (mulr_le_neg C 0 ep HC ltac:(lia)). replace (S + n + ep * C >? n + S) with false by lia. reflexivity.
    - replace (b0 <? 0) with false by lia. cbn [andb]. replace (ep <? 0) with false by lia. reflexivity. }
  rewrite <- He in Hpos, Hzero. rewrite <- Hs in Hpos, Hzero.
  assert (Hnz : 0 < m -> ~ (0 <= b0 /\ e0 <= n + E) /\ s < e /\ 0 <= s <= n - 1 /\ e <= n).
  { intros Hm0. destruct (Hpos Hm0) as (_ & Hsg0 & Hepsg & Hse & _).
    pose proof (mulr_le_neg C sg (L - 1) HC HsgL). pose proof (mulr_le_neg C ep (L - 1) HC ltac:(lia)).
    pose proof (mulr_le_neg C 0 sg HC Hsg0).
    assert (e <= S + n + 1).
    { rewrite He. destruct (ep <? 0) eqn:E'; [lia|]. pose proof (mulr_le_neg C 0 ep HC ltac:(lia)). lia. }
    clear - Hs He0 HSE HS1 HLc H H0 H1 H2 Hep1 Hepsg Hse. lia. }
  clearbody s e e0.
  destruct ((b0 >=? 0) && (e0 <=? n + E)) eqn:Ez0;
    [intros Hz; rewrite (value_zero_slice fl v v' p Hz);
     replace (Z.to_nat m) with O by lia; reflexivity|].
  destruct ((e <? s) || (s >? n) || (Z.min s e <? 0)) eqn:Ez1;
    [intros Hz; rewrite (value_zero_slice fl v v' p Hz);
     replace (Z.to_nat m) with O by lia; reflexivity|].
  intros Hmk.
  assert (HCc : 0 < C * c) by (apply Z.mul_neg_neg; assumption).
  rewrite (value_mk_view_step p n _ _ (C * c) _ v' Hp ltac:(clear - HCc; lia) Hmk).
  rewrite py_slice_unfold, Hp.
  rewrite !adj_pos_nonneg by (clear - HCc Hn Ez1; lia).
  destruct (Z_lt_le_dec 0 m) as [Hm0|Hm0].
  - destruct (Hpos Hm0) as (Hsx & _ & _ & _ & Hcount). destruct (Hnz Hm0) as (_ & _ & Hsn & Hen).
    replace (Z.min n s) with s by (clear - Hsn; lia). replace (Z.min n e) with e by (clear - Hen; lia).
    rewrite Hcount. apply gather_prog_eq; [reflexivity|]. intros _. rewrite Hs, Hsx. ring.
  - assert (Hm1 : m = 0) by (destruct Hm as [[_ H]|(_ & H & _)]; lia).
    rewrite (range_len_pos_empty (Z.min n s) (Z.min n e)) by (specialize (Hzero Hm1); clear - Hzero HCc; lia).
    rewrite Hm1. reflexivity.
Qed.

(** * [__getitem__(slice)]: the headline theorem *)

Lemma value_same_bounds {A} s c n off (p : list A) : c <> 0 -> value (mkV s s c n off) p = [].
Proof.
  intros Hc. unfold value. cbn [start stop step]. apply py_slice_empty.
  assert (H : adjust_bound (zlen p) c true (Some s) = adjust_bound (zlen p) c false (Some s)) by reflexivity.
  rewrite H. set (x := adjust_bound (zlen p) c false (Some s)).
  destruct (Z_lt_le_dec 0 c); [apply range_len_pos_empty|apply range_len_neg_empty]; lia.
Qed.

Lemma value_empty {A} v (p : list A) : WF v -> vlen v = 0 -> value v p = [].
Proof.
  intros Hwf H0. pose proof (proj1 (wf_empty_iff v Hwf) H0) as Hse.
  destruct v as [s e c n off]. cbn [start stop] in Hse. subst e.
  apply value_same_bounds. exact (wf_step_nz _ Hwf).
Qed.

Lemma py_slice_same_bounds {A} (l : list A) x c : c <> 0 -> py_slice l (Some x) (Some x) c = [].
Proof.
  intros Hc. apply py_slice_empty.
  assert (H : adjust_bound (zlen l) c true (Some x) = adjust_bound (zlen l) c false (Some x)) by reflexivity.
  rewrite H. set (y := adjust_bound (zlen l) c false (Some x)).
  destruct (Z_lt_le_dec 0 c); [apply range_len_pos_empty|apply range_len_neg_empty]; lia.
Qed.

(** a copy of an empty view is empty (whatever it is read from) *)
Lemma mk_view_same_bounds n s K off v : 0 <= n -> K <> 0 ->
  mk_view n (Some s) (Some s) (Some K) off = Ok v -> start v = stop v.
Proof.
  intros Hn HK. rewrite (mk_view_step_unfold n _ _ K off HK).
  assert (HAB : adjust_bound n K true (Some s) = adjust_bound n K false (Some s)) by reflexivity.
  destruct (Z_lt_le_dec 0 K) as [HK'|HK'].
  - replace (K >? 0) with true by lia. rewrite (ivp_spec n _ _ K HK' Hn), HAB.
    rewrite Z.ltb_irrefl. intros [= <-]. reflexivity.
  - assert (HK'' : K < 0) by lia. replace (K >? 0) with false by lia.
    destruct (input_vals_neg_step n (Some s) (Some s) K) as [[s1 e1] K1] eqn:E.
    pose proof (ivn_spec n _ _ K s1 e1 K1 HK'' Hn E) as Hsp. rewrite HAB in Hsp.
    intros [= <-]. cbn [start stop]. lia.
Qed.

Lemma value_copy_view {A} fl v v' (p : list A) : WF v -> Fits v p ->
  copy_view fl v = Ok v' -> value v' p = value v p.
Proof.
  intros Hwf Hfit. destruct fl; cbn [copy_view]; [|now intros [= <-]].
  intros Hmk. pose proof (wf_step_nz v Hwf) as Hnz.
  destruct Hfit as [H0|Hp].
  - rewrite (value_empty v p Hwf H0).
    pose proof (proj1 (wf_empty_iff v Hwf) H0) as Hse. rewrite <- Hse in Hmk.
    pose proof (mk_view_same_bounds _ _ _ _ _ (proj1 Hwf) Hnz Hmk) as Hse'.
    pose proof (wf_mk_view_lemma _ _ _ _ _ _ (proj1 Hwf) Hmk) as Hwf'.
    apply value_empty; [assumption|]. now apply (wf_empty_iff v' Hwf').
  - rewrite (value_mk_view_step p (seq_len v) _ _ (step v) _ v' Hp Hnz Hmk). reflexivity.
Qed.

Definition step_of (c : option Z) : Z := match c with Some k => k | None => 1 end.

Lemma value_getitem_slice_lemma {A} fl v (p : list A) a b c v' :
  WF v -> Fits v p -> c <> Some 0 ->
  getitem_slice fl v a b c = Ok v' ->
  value v' p = py_slice (value v p) a b (step_of c).
Proof.
  intros Hwf Hfit Hc.
  assert (Hmain : (if vlen v =? 0 then Ok v else
      if opt_eqb a b then zero_slice fl v else
      let slice_step := match c with None => 1 | Some x => x end in
      if slice_step >? 0 then get_slice fl v a b slice_step
      else if slice_step <? 0 then get_reverse_slice fl v a b slice_step
      else Err E_Value) = Ok v' -> value v' p = py_slice (value v p) a b (step_of c)).
  { destruct (vlen v =? 0) eqn:E0.
    { intros [= <-]. rewrite (value_empty v p Hwf ltac:(lia)). now rewrite py_slice_nil. }
    assert (HL : 0 < vlen v) by (pose proof (vlen_nonneg v); lia).
    assert (Hp : zlen p = seq_len v) by (destruct Hfit; [lia|assumption]).
    assert (Hk : step_of c <> 0) by (destruct c as [k|]; cbn; [congruence|lia]).
    destruct (opt_eqb a b) eqn:Eab.
    { intros Hz. rewrite (value_zero_slice fl v v' p Hz).
      destruct a as [x|]; [|discriminate]. destruct b as [y|]; [|discriminate].
      cbn in Eab. assert (x = y) by lia. subst y. now rewrite py_slice_same_bounds. }
    cbv zeta. fold (step_of c). set (k := step_of c) in *.
    pose proof (wf_step_nz v Hwf) as Hnz.
    destruct (k >? 0) eqn:Ek.
    - unfold get_slice. destruct (step v >? 0) eqn:Es.
      + apply value_ff; try assumption; lia.
      + replace (step v <? 0) with true by lia. apply value_fr; try assumption; lia.
    - replace (k <? 0) with true by lia. unfold get_reverse_slice.
      destruct (step v <? 0) eqn:Es.
      + apply value_rr; try assumption; lia.
      + replace (step v >? 0) with true by lia. apply value_rf; try assumption; lia. }
  unfold getitem_slice.
  destruct a; [exact Hmain|]. destruct b; [exact Hmain|]. destruct c; [exact Hmain|].
  intros Hcp. rewrite (value_copy_view fl v v' p Hwf Hfit Hcp). cbn [step_of]. now rewrite py_slice_full.
Qed.

(** the parent may be forgotten only by an empty view *)
Lemma seq_len_mk_view n a b c off v : mk_view n a b c off = Ok v -> seq_len v = n /\ offset v = off.
Proof.
  unfold mk_view. destruct c as [[|k|k]|]; [discriminate| | |];
    (destruct (if _ >? 0 then _ else _) as [[s1 e1] c1]; intros [= <-]; split; reflexivity).
Qed.

Lemma vlen_copy_view fl v v' : WF v -> vlen v = 0 -> copy_view fl v = Ok v' -> vlen v' = 0.
Proof.
  intros Hwf H0. destruct fl; cbn [copy_view]; [|now intros [= <-]].
  intros Hmk. pose proof (wf_step_nz v Hwf) as Hnz.
  pose proof (proj1 (wf_empty_iff v Hwf) H0) as Hse. rewrite <- Hse in Hmk.
  pose proof (mk_view_same_bounds _ _ _ _ _ (proj1 Hwf) Hnz Hmk) as Hse'.
  pose proof (wf_mk_view_lemma _ _ _ _ _ _ (proj1 Hwf) Hmk) as Hwf'.
  now apply (wf_empty_iff v' Hwf').
Qed.

Lemma shape_getitem_slice fl v a b c v' :
  WF v -> getitem_slice fl v a b c = Ok v' ->
  (vlen v' = 0 \/ (seq_len v' = seq_len v /\ offset v' = offset v)) /\ (vlen v = 0 -> vlen v' = 0).
Proof.
  intros Hwf.
  assert (Hz : forall w, zero_slice fl v = Ok w -> vlen w = 0 \/ (seq_len w = seq_len v /\ offset w = offset v)).
  { intros w. rewrite zero_slice_eq. intros [= <-]. left. reflexivity. }
  assert (Hr : forall s e k w, rebuild v s e k = Ok w -> vlen w = 0 \/ (seq_len w = seq_len v /\ offset w = offset v)).
  { intros s e k w H. right. exact (seq_len_mk_view _ _ _ _ _ _ H). }
  assert (Hmain : (if vlen v =? 0 then Ok v else
      if opt_eqb a b then zero_slice fl v else
      let slice_step := match c with None => 1 | Some x => x end in
      if slice_step >? 0 then get_slice fl v a b slice_step
      else if slice_step <? 0 then get_reverse_slice fl v a b slice_step
      else Err E_Value) = Ok v' ->
      (vlen v' = 0 \/ (seq_len v' = seq_len v /\ offset v' = offset v)) /\ (vlen v = 0 -> vlen v' = 0)).
  { destruct (vlen v =? 0) eqn:E0; [intros [= <-]; split; [right; split; reflexivity|tauto]|].
    intros H. split; [|lia]. revert H.
    destruct (opt_eqb a b); [apply Hz|].
    cbv zeta. set (k := match c with None => 1 | Some x => x end).
    destruct (k >? 0).
    - unfold get_slice. destruct (step v >? 0).
      + unfold get_forward_slice_from_forward.
        repeat match goal with |- (if ?x then zero_slice _ _ else _) = _ -> _ =>
          destruct x; [apply Hz|] end.
        apply Hr.
      + destruct (step v <? 0); [|discriminate].
        unfold get_forward_slice_from_reverse.
        repeat match goal with |- (if ?x then zero_slice _ _ else _) = _ -> _ =>
          destruct x; [apply Hz|] end.
        apply Hr.
    - destruct (k <? 0); [|discriminate].
      unfold get_reverse_slice. destruct (step v <? 0).
      + unfold get_reverse_slice_from_reverse. cbv zeta.
        repeat match goal with |- (if ?x then zero_slice _ _ else _) = _ -> _ =>
          destruct x; [apply Hz|] end.
        apply Hr.
      + destruct (step v >? 0); [|discriminate].
        unfold get_reverse_slice_from_forward. cbv zeta.
        repeat match goal with |- (if ?x then zero_slice _ _ else _) = _ -> _ =>
          destruct x; [apply Hz|] end.
        apply Hr. }
  unfold getitem_slice.
  destruct a; [exact Hmain|]. destruct b; [exact Hmain|]. destruct c; [exact Hmain|].
  intros Hcp. split.
  - right. destruct fl; cbn [copy_view] in Hcp; [exact (seq_len_mk_view _ _ _ _ _ _ Hcp)|].
    inversion Hcp; subst; split; reflexivity.
  - intros H0. exact (vlen_copy_view fl v v' Hwf H0 Hcp).
Qed.

Lemma fits_getitem_slice {A} fl v (p : list A) a b c v' :
  WF v -> Fits v p -> getitem_slice fl v a b c = Ok v' -> Fits v' p.
Proof.
  intros Hwf Hfit H. destruct (shape_getitem_slice fl v a b c v' Hwf H) as [[H0|[Hn _]] Hz].
  - left; exact H0.
  - destruct Hfit as [H0|Hp]; [left; exact (Hz H0)|right; congruence].
Qed.

(** * non-vacuity: concrete instances of the hypotheses, evaluated *)

Definition ex_p : list Z := [65; 67; 71; 84; 65; 67; 71; 84; 78; 82].       (* "ACGTACGTNR" *)
Definition ex_v : view := mkV (-2) (-9) (-3) 10 17.                         (* [8:1:-3], offset 17 *)
Definition ex_v3 : view := mkV 5 9 3 10 17.                                 (* ...[::-1][1:] *)

Example ex_mk_view : mk_view (zlen ex_p) (Some 8) (Some 1) (Some (-3)) 17 = Ok ex_v.
Proof. reflexivity. Qed.

Example ex_wf : WF ex_v /\ Fits ex_v ex_p /\ WF ex_v3.
Proof.
  unfold WF, Fits, ex_v, ex_v3. cbn [start stop step seq_len].
  split; [lia|]. split; [right; reflexivity|lia].
Qed.

(** a reversed strided view of a 10-mer; a 3-deep chain evaluates as Python
    does: "ACGTACGTNR"[8:1:-3] = "NCG", [::-1] = "GCN", [1:] = "CN" *)
Example ex_chain :
  value ex_v ex_p = [78; 67; 71] /\ vlen ex_v = 3 /\
  bind (getitem_slice FSeqView ex_v None None (Some (-1)))
       (fun v2 => getitem_slice FSeqView v2 (Some 1) None None) = Ok ex_v3 /\
  value ex_v3 ex_p = [67; 78].
Proof. repeat split. Qed.
