(** C01 - proofs: the view kernel of Model/View.v implements Python slice
    semantics on the plain string. *)
From CG3 Require Import Lib.PyZ Lib.Val Lib.PySlice Model.View Spec.ViewSpec.

Local Ltac bdestr x H := destruct x eqn:H.

(** * lengths *)

Lemma cdiv_mul x t : 0 < t -> cdiv (x * t) t = x.
Proof. intros Ht. apply cdiv_uniq; [lia|]. nia. Qed.

Lemma cdiv_le_0 x s : 0 < s -> x <= 0 -> cdiv x s <= 0.
Proof. intros Hs Hx. pose proof (cdiv_spec x s Hs). nia. Qed.

Lemma cdiv_eq_0 x s : 0 < s -> 0 <= x -> cdiv x s = 0 -> x = 0.
Proof. intros Hs Hx H. pose proof (cdiv_spec x s Hs). rewrite H in *. lia. Qed.

Lemma vlen_fwd v : 0 < step v -> start v <= stop v -> vlen v = cdiv (stop v - start v) (step v).
Proof. intros. unfold vlen. now apply pylen_forward. Qed.

Lemma vlen_rev v : step v < 0 -> stop v <= start v -> vlen v = cdiv (start v - stop v) (- step v).
Proof.
  intros Hs Hle. unfold vlen.
  rewrite <- (pylen_forward (stop v) (start v) (- step v)) by lia.
  f_equal. rewrite <- (Z.div_opp_opp (start v - stop v) (step v)) by lia. f_equal. lia.
Qed.

Lemma vlen_nonneg v : 0 <= vlen v.
Proof. unfold vlen. lia. Qed.

Lemma vlen_mk s e c n off : vlen (mkV s e c n off) = Z.abs ((s - e) / c).
Proof. reflexivity. Qed.

(** facts about a well-formed forward view *)
Lemma wf_fwd_facts v : WF v -> 0 < step v ->
  0 <= seq_len v /\ 0 <= start v <= stop v /\ stop v <= seq_len v /\
  vlen v = cdiv (stop v - start v) (step v) /\ 0 <= vlen v /\
  step v * (vlen v - 1) < stop v - start v <= step v * vlen v.
Proof.
  intros (Hn & [(Hs & Hb & He)|(Hs & _)]) Hpos; [|lia].
  pose proof (vlen_fwd v Hpos ltac:(lia)) as HL.
  pose proof (cdiv_spec (stop v - start v) (step v) Hpos) as Hc. rewrite <- HL in Hc.
  pose proof (vlen_nonneg v). repeat split; try lia; assumption.
Qed.

Lemma wf_rev_facts v : WF v -> step v < 0 ->
  0 <= seq_len v /\ - seq_len v - 1 <= stop v <= start v /\ start v <= -1 /\
  vlen v = cdiv (start v - stop v) (- step v) /\ 0 <= vlen v /\
  (- step v) * (vlen v - 1) < start v - stop v <= (- step v) * vlen v.
Proof.
  intros (Hn & [(Hs & _)|(Hs & Hb & He)]) Hneg; [lia|].
  pose proof (vlen_rev v Hneg ltac:(lia)) as HL.
  pose proof (cdiv_spec (start v - stop v) (- step v) ltac:(lia)) as Hc. rewrite <- HL in Hc.
  pose proof (vlen_nonneg v). repeat split; try lia; assumption.
Qed.

Lemma wf_step_nz v : WF v -> step v <> 0.
Proof. intros (_ & [(H1 & _)|(H2 & _)]); lia. Qed.

Lemma wf_empty_iff v : WF v -> (vlen v = 0 <-> start v = stop v).
Proof.
  intros Hwf. destruct (Z_lt_le_dec 0 (step v)) as [Hpos|Hneg].
  - destruct (wf_fwd_facts v Hwf Hpos) as (_ & Hb & _ & _ & _ & Hc). split; intros H.
    + rewrite H in Hc. lia.
    + nia.
  - pose proof (wf_step_nz v Hwf) as Hnz. assert (Hneg' : step v < 0) by lia.
    destruct (wf_rev_facts v Hwf Hneg') as (_ & Hb & _ & _ & _ & Hc). split; intros H.
    + rewrite H in Hc. lia.
    + nia.
Qed.

(** the [assert]s of [parent_start]/[parent_stop] hold on every well-formed view *)
Lemma asserts_hold v : WF v -> step v < 0 -> stop v < 0 /\ start v < 0.
Proof. intros (_ & [(H & _)|(_ & H1 & H2)]) Hs; lia. Qed.

(** * the constructor *)

Lemma mk_view_pos_spec n s e c off : 0 < c -> 0 <= s -> 0 <= e <= n ->
  mk_view n (Some s) (Some e) (Some c) off =
  Ok (if s <? e then mkV s e c n off else mkV 0 0 1 n off).
Proof.
  intros Hc Hs He. unfold mk_view.
  destruct c as [|c'|c'] eqn:Ec; try lia. rewrite <- Ec in *. clear Ec c'.
  replace (c >? 0) with true by lia. unfold input_vals_pos_step.
  bdestr ((s >? 0) && (s >=? n)) E1.
  { replace (s <? e) with false by lia. reflexivity. }
  replace ((e <? 0) && (Z.abs e >=? n)) with false by lia.
  replace (s <? 0) with false by lia.
  bdestr (e >? 0) E2.
  - replace (Z.min n e) with e by lia.
    bdestr (s >=? e) E3; [replace (s <? e) with false by lia|replace (s <? e) with true by lia]; reflexivity.
  - replace (e <? 0) with false by lia.
    replace (s >=? e) with true by lia. replace (s <? e) with false by lia. reflexivity.
Qed.

Lemma mk_view_neg_spec n s e c off : c < 0 -> - n <= s <= -1 -> - n - 1 <= e <= -1 ->
  mk_view n (Some s) (Some e) (Some c) off =
  Ok (if s <? e then mkV 0 0 1 n off else mkV s e c n off).
Proof.
  intros Hc Hs He. unfold mk_view.
  destruct c as [|c'|c'] eqn:Ec; try lia. rewrite <- Ec in *. clear Ec c'.
  replace (c >? 0) with false by lia. unfold input_vals_neg_step.
  replace (s >=? n) with false by lia. replace (s >=? 0) with false by lia.
  replace (s <? - n) with false by lia. replace (e >=? 0) with false by lia.
  replace (Z.max e (- n - 1)) with e by lia. destruct (s <? e); reflexivity.
Qed.

Lemma WF_zero n off : 0 <= n -> WF (mkV 0 0 1 n off).
Proof. intros Hn. split; [assumption|]. left. cbn. lia. Qed.

Lemma vlen_zero n off : vlen (mkV 0 0 1 n off) = 0.
Proof. reflexivity. Qed.

(** the constructor establishes the invariant, for arbitrary arguments *)
Lemma wf_mk_view_lemma n a b c off v : 0 <= n -> mk_view n a b c off = Ok v -> WF v.
Proof.
  intros Hn. unfold mk_view.
  destruct c as [[|c'|c']|]; try discriminate.
  - (* positive step *)
    set (c := Z.pos c'). replace (c >? 0) with true by lia.
    unfold input_vals_pos_step.
    set (s0 := match a with None => 0 | Some s => s end).
    bdestr ((s0 >? 0) && (s0 >=? n)) E1; [intros [= <-]; now apply WF_zero|].
    set (e0 := match b with None => n | Some e => e end).
    bdestr ((e0 <? 0) && (Z.abs e0 >=? n)) E2; [intros [= <-]; now apply WF_zero|].
    set (s1 := if s0 <? 0 then Z.max (n + s0) 0 else s0).
    set (e1 := if e0 >? 0 then Z.min n e0 else if e0 <? 0 then e0 + n else e0).
    bdestr (s1 >=? e1) E3; intros [= <-]; [now apply WF_zero|].
    split; [assumption|]. left. cbn [step start stop seq_len].
    subst s1 e1. destruct (s0 <? 0) eqn:E4; destruct (e0 >? 0) eqn:E5; destruct (e0 <? 0) eqn:E6; lia.
  - (* negative step *)
    set (c := Z.neg c'). replace (c >? 0) with false by lia.
    unfold input_vals_neg_step.
    set (s' := match a with
               | None => Some (-1)
               | Some s => if s >=? n then Some (-1) else if s >=? 0 then Some (s - n)
                           else if s <? - n then None else Some s
               end).
    assert (Hs' : match s' with None => True | Some s => - n <= s <= -1 \/ (n = 0 /\ s = -1) end).
    { subst s'. destruct a as [s|]; [|lia].
      destruct (s >=? n) eqn:E1; [lia|]. destruct (s >=? 0) eqn:E2; [lia|].
      destruct (s <? - n) eqn:E3; [exact I|lia]. }
    destruct s' as [s|]; [|intros [= <-]; now apply WF_zero].
    set (e0 := match b with None => - n - 1 | Some e => if e >=? 0 then e - n else e end).
    bdestr (s <? Z.max e0 (- n - 1)) E4; intros [= <-]; [now apply WF_zero|].
    split; [assumption|]. right. cbn [step start stop seq_len]. lia.
  - (* default step 1 *)
    replace (1 >? 0) with true by lia.
    unfold input_vals_pos_step.
    set (s0 := match a with None => 0 | Some s => s end).
    bdestr ((s0 >? 0) && (s0 >=? n)) E1; [intros [= <-]; now apply WF_zero|].
    set (e0 := match b with None => n | Some e => e end).
    bdestr ((e0 <? 0) && (Z.abs e0 >=? n)) E2; [intros [= <-]; now apply WF_zero|].
    set (s1 := if s0 <? 0 then Z.max (n + s0) 0 else s0).
    set (e1 := if e0 >? 0 then Z.min n e0 else if e0 <? 0 then e0 + n else e0).
    bdestr (s1 >=? e1) E3; intros [= <-]; [now apply WF_zero|].
    split; [assumption|]. left. cbn [step start stop seq_len].
    subst s1 e1. destruct (s0 <? 0) eqn:E4; destruct (e0 >? 0) eqn:E5; destruct (e0 <? 0) eqn:E6; lia.
Qed.

(** * the invariant is preserved *)

Lemma wf_zero_slice fl v v' : WF v -> zero_slice fl v = Ok v' -> WF v'.
Proof.
  intros Hwf. destruct fl; cbn [zero_slice]; intros H.
  - apply (wf_mk_view_lemma 0 None None None 0 v'); [lia|exact H].
  - apply (wf_mk_view_lemma (seq_len v) (Some 0) (Some 0) None 0 v'); [apply Hwf|exact H].
Qed.

Lemma wf_rebuild v s e c v' : WF v -> rebuild v s e c = Ok v' -> WF v'.
Proof. intros Hwf H. apply (wf_mk_view_lemma _ _ _ _ _ _ (proj1 Hwf) H). Qed.

Lemma wf_copy_view fl v v' : WF v -> copy_view fl v = Ok v' -> WF v'.
Proof.
  intros Hwf. destruct fl; cbn [copy_view]; intros H.
  - apply (wf_mk_view_lemma _ _ _ _ _ _ (proj1 Hwf) H).
  - now inversion H; subst.
Qed.

Lemma wf_getitem_int_lemma v i v' : WF v -> getitem_int v i = Ok v' -> WF v'.
Proof.
  intros Hwf. unfold getitem_int, bind.
  destruct (get_index v i false) as [[[s e] c]|]; [|discriminate].
  apply wf_rebuild; assumption.
Qed.

Lemma wf_getitem_slice_lemma fl v a b c v' : WF v -> getitem_slice fl v a b c = Ok v' -> WF v'.
Proof.
  intros Hwf.
  assert (Hmain : (if vlen v =? 0 then Ok v else
      if opt_eqb a b then zero_slice fl v else
      let slice_step := match c with None => 1 | Some x => x end in
      if slice_step >? 0 then get_slice fl v a b slice_step
      else if slice_step <? 0 then get_reverse_slice fl v a b slice_step
      else Err E_Value) = Ok v' -> WF v').
  { destruct (vlen v =? 0); [intros [= <-]; exact Hwf|].
    destruct (opt_eqb a b); [apply wf_zero_slice; exact Hwf|].
    cbv zeta. set (k := match c with None => 1 | Some x => x end).
    destruct (k >? 0).
    - unfold get_slice. destruct (step v >? 0).
      + unfold get_forward_slice_from_forward.
        repeat match goal with |- (if ?x then zero_slice _ _ else _) = _ -> _ =>
          destruct x; [apply wf_zero_slice; exact Hwf|] end.
        apply wf_rebuild; exact Hwf.
      + destruct (step v <? 0); [|discriminate].
        unfold get_forward_slice_from_reverse.
        repeat match goal with |- (if ?x then zero_slice _ _ else _) = _ -> _ =>
          destruct x; [apply wf_zero_slice; exact Hwf|] end.
        apply wf_rebuild; exact Hwf.
    - destruct (k <? 0); [|discriminate].
      unfold get_reverse_slice. destruct (step v <? 0).
      + unfold get_reverse_slice_from_reverse. cbv zeta.
        repeat match goal with |- (if ?x then zero_slice _ _ else _) = _ -> _ =>
          destruct x; [apply wf_zero_slice; exact Hwf|] end.
        apply wf_rebuild; exact Hwf.
      + destruct (step v >? 0); [|discriminate].
        unfold get_reverse_slice_from_forward. cbv zeta.
        repeat match goal with |- (if ?x then zero_slice _ _ else _) = _ -> _ =>
          destruct x; [apply wf_zero_slice; exact Hwf|] end.
        apply wf_rebuild; exact Hwf. }
  unfold getitem_slice.
  destruct a; [exact Hmain|]. destruct b; [exact Hmain|]. destruct c; [exact Hmain|].
  apply wf_copy_view; exact Hwf.
Qed.

(** * Python-level algebra used below (no view notions) *)

Lemma range_len_pos_char s e c m : 0 < c ->
  (e <= s /\ m = 0) \/ (s < e /\ c * (m - 1) < e - s <= c * m) -> range_len s e c = m.
Proof.
  intros Hc [[H1 ->]|[H1 H2]].
  - now apply range_len_pos_empty.
  - rewrite range_len_pos_cdiv by lia. apply cdiv_uniq; assumption.
Qed.

Lemma range_len_neg_char s e c m : c < 0 ->
  (s <= e /\ m = 0) \/ (e < s /\ (- c) * (m - 1) < s - e <= (- c) * m) -> range_len s e c = m.
Proof.
  intros Hc [[H1 ->]|[H1 H2]].
  - now apply range_len_neg_empty.
  - rewrite range_len_neg_cdiv by lia. apply cdiv_uniq; [lia|assumption].
Qed.

Lemma range_len_pos_cases s e c : 0 < c ->
  (e <= s /\ range_len s e c = 0) \/
  (s < e /\ 0 < range_len s e c /\ c * (range_len s e c - 1) < e - s <= c * range_len s e c).
Proof.
  intros Hc. destruct (Z_lt_le_dec s e) as [H|H].
  - right. pose proof (range_len_pos_spec s e c Hc H). split; [assumption|]. split; [nia|assumption].
  - left. split; [assumption|]. now apply range_len_pos_empty.
Qed.

Lemma range_len_neg_cases s e c : c < 0 ->
  (s <= e /\ range_len s e c = 0) \/
  (e < s /\ 0 < range_len s e c /\ (- c) * (range_len s e c - 1) < s - e <= (- c) * range_len s e c).
Proof.
  intros Hc. destruct (Z_lt_le_dec e s) as [H|H].
  - right. pose proof (range_len_neg_spec s e c Hc H). split; [assumption|]. split; [nia|assumption].
  - left. split; [assumption|]. now apply range_len_neg_empty.
Qed.

Lemma gather_prog_eq {A} (p : list A) f1 f2 st n1 n2 :
  n1 = n2 -> (0 < n1 -> f1 = f2) ->
  gather p (prog f1 st (Z.to_nat n1)) = gather p (prog f2 st (Z.to_nat n2)).
Proof.
  intros <- Hf. destruct (Z_lt_le_dec 0 n1) as [H|H].
  - now rewrite (Hf H).
  - replace (Z.to_nat n1) with O by lia. reflexivity.
Qed.

Lemma py_slice_empty {A} (l : list A) a b c :
  range_len (adjust_bound (zlen l) c false a) (adjust_bound (zlen l) c true b) c = 0 ->
  py_slice l a b c = [].
Proof. intros H. rewrite py_slice_unfold, H. reflexivity. Qed.

(** a Python slice of a gathered progression is a gathered progression *)
Lemma py_slice_gather_prog {A} (p : list A) f st L a b c : c <> 0 -> 0 <= L ->
  (forall i, In i (prog f st (Z.to_nat L)) -> 0 <= i < zlen p) ->
  py_slice (gather p (prog f st (Z.to_nat L))) a b c =
  gather p (prog (f + adjust_bound L c false a * st) (st * c)
              (Z.to_nat (range_len (adjust_bound L c false a) (adjust_bound L c true b) c))).
Proof.
  intros Hc HL Hin.
  assert (Hlen : zlen (gather p (prog f st (Z.to_nat L))) = L).
  { unfold zlen. rewrite gather_length, prog_length by assumption. lia. }
  rewrite py_slice_unfold, Hlen.
  apply gather_prog_prog; [assumption|].
  intros j Hj. rewrite Z2Nat.id by assumption.
  apply (py_range_in_bounds L a b c j HL Hc). exact Hj.
Qed.

(** * the value of a view in normal form *)

Lemma value_fwd {A} v (p : list A) : WF v -> 0 < step v -> zlen p = seq_len v ->
  value v p = gather p (prog (start v) (step v) (Z.to_nat (vlen v))).
Proof.
  intros Hwf Hpos Hp. destruct (wf_fwd_facts v Hwf Hpos) as (Hn & Hb & He & HL & HL0 & Hc).
  unfold value. rewrite py_slice_unfold, Hp.
  assert (H1 : adjust_bound (seq_len v) (step v) false (Some (start v)) = Z.min (start v) (seq_len v)).
  { unfold adjust_bound. replace (start v <? 0) with false by lia.
    destruct (start v >=? seq_len v) eqn:E; replace (step v <? 0) with false by lia; lia. }
  assert (H2 : adjust_bound (seq_len v) (step v) true (Some (stop v)) = stop v).
  { unfold adjust_bound. replace (stop v <? 0) with false by lia.
    destruct (stop v >=? seq_len v) eqn:E; replace (step v <? 0) with false by lia; lia. }
  rewrite H1, H2.
  apply gather_prog_eq.
  - apply range_len_pos_char; [assumption|]. destruct (Z.eq_dec (vlen v) 0) as [E|E]; [left|right]; nia.
  - intros Hm. assert (Hr := range_len_pos_cases (Z.min (start v) (seq_len v)) (stop v) (step v) Hpos). lia.
Qed.

Lemma value_rev {A} v (p : list A) : WF v -> step v < 0 -> zlen p = seq_len v ->
  value v p = gather p (prog (start v + seq_len v) (step v) (Z.to_nat (vlen v))).
Proof.
  intros Hwf Hneg Hp. destruct (wf_rev_facts v Hwf Hneg) as (Hn & Hb & He & HL & HL0 & Hc).
  unfold value. rewrite py_slice_unfold, Hp.
  assert (H1 : adjust_bound (seq_len v) (step v) false (Some (start v)) = Z.max (start v + seq_len v) (-1)).
  { unfold adjust_bound. replace (start v <? 0) with true by lia. replace (step v <? 0) with true by lia.
    destruct (start v + seq_len v <? 0) eqn:E; lia. }
  assert (H2 : adjust_bound (seq_len v) (step v) true (Some (stop v)) = stop v + seq_len v).
  { unfold adjust_bound. replace (stop v <? 0) with true by lia. replace (step v <? 0) with true by lia.
    destruct (stop v + seq_len v <? 0) eqn:E; lia. }
  rewrite H1, H2.
  apply gather_prog_eq.
  - apply range_len_neg_char; [assumption|]. destruct (Z.eq_dec (vlen v) 0) as [E|E]; [left|right]; nia.
  - intros Hm. assert (Hr := range_len_neg_cases (Z.max (start v + seq_len v) (-1)) (stop v + seq_len v) (step v) Hneg). lia.
Qed.

(** every displayed index is a valid index of the parent *)
Lemma value_fwd_in_range v : WF v -> 0 < step v ->
  forall i, In i (prog (start v) (step v) (Z.to_nat (vlen v))) -> 0 <= i < seq_len v.
Proof.
  intros Hwf Hpos i Hi. destruct (wf_fwd_facts v Hwf Hpos) as (Hn & Hb & He & HL & HL0 & Hc).
  apply prog_In in Hi. destruct Hi as (k & Hk & ->). rewrite Z2Nat.id in Hk by assumption. nia.
Qed.

Lemma value_rev_in_range v : WF v -> step v < 0 ->
  forall i, In i (prog (start v + seq_len v) (step v) (Z.to_nat (vlen v))) -> 0 <= i < seq_len v.
Proof.
  intros Hwf Hneg i Hi. destruct (wf_rev_facts v Hwf Hneg) as (Hn & Hb & He & HL & HL0 & Hc).
  apply prog_In in Hi. destruct Hi as (k & Hk & ->). rewrite Z2Nat.id in Hk by assumption. nia.
Qed.

(** [len(view)] is the length of the displayed string *)
Lemma len_value_lemma {A} v (p : list A) : WF v -> zlen p = seq_len v -> zlen (value v p) = vlen v.
Proof.
  intros Hwf Hp. pose proof (vlen_nonneg v) as HL.
  destruct (Z_lt_le_dec 0 (step v)) as [Hpos|Hneg].
  - rewrite value_fwd by assumption. unfold zlen at 1.
    rewrite gather_length, prog_length; [lia|].
    intros i Hi. rewrite Hp. now apply value_fwd_in_range.
  - assert (Hneg' : step v < 0) by (pose proof (wf_step_nz v Hwf); lia).
    rewrite value_rev by assumption. unfold zlen at 1.
    rewrite gather_length, prog_length; [lia|].
    intros i Hi. rewrite Hp. now apply value_rev_in_range.
Qed.
