(** C12 — finite check of the degenerate-codon specification, include_stop = False
    (split over two files so that they build in parallel). *)
From CG3 Require Import Lib.PyZ Lib.Val Model.GeneticCode Spec.GeneticCodeSpec Proofs.GeneticCodeProofs
  Proofs.GeneticCodeDegenDefs.
From CG3gen Require Import GCTables.

Lemma degenerate_checked_false : forallb (degenerate_check false) new_codes = true.
Proof. vm_cast_no_check (eq_refl true). Qed.

Lemma degenerate_first_code_checked_false : degenerate_check_on (product3 iupac_syms) false first_code = true.
Proof. vm_cast_no_check (eq_refl true). Qed.
