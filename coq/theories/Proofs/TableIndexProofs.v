(** C20 proofs about the [index_name] / title / legend model of Model/TableIndex.v:
    activation of an index (the column moves to the front, its values are
    pairwise different), lookups through the index, the operations that keep
    the index (filtered, sorted) or drop it (transposed), and the delimited
    round trip with a title row and a legend row. *)
From Coq Require Import Permutation Sorting.Sorted QArith.
From CG3 Require Import Lib.PyZ Lib.Chars Lib.StableSort Lib.Val Model.Csv Model.Table Model.TableLoad Model.TableRun Model.TableIndex
     Spec.TableSpec Proofs.TableBase Proofs.CsvProofs Proofs.TableProofs Proofs.TableSortProofs Proofs.TableOpsProofs Proofs.TableLoadProofs.
Import ListNotations.
Open Scope Z_scope.

(* the invariant of an activated indexed table: the index column is first and its values are pairwise different *)
Definition index_ok (t : table) (ix : option str) : Prop :=
  match ix with None => True | Some n => (exists rest, hdr t = n :: rest) /\ unique_col (col_of t n) = true end.

(* ------------------------------------------------------------------ move_front *)

Lemma assoc_get_col t (c : str) :
  wf t -> In c (hdr t) -> assoc_get (hdr t) (cols t) c = Some (col_of t c).
Proof. intros [Hl _] Hin. unfold col_of. apply assoc_get_pos; assumption. Qed.

Lemma front_incl (n : str) (h : list str) :
  In n h -> incl (n :: filter (fun c => negb (str_eqb c n)) h) h.
Proof.
  intros Hin c [Hc|Hc]; [subst c; exact Hin|]. apply filter_In in Hc. apply Hc.
Qed.

Lemma front_NoDup (n : str) (h : list str) :
  NoDup h -> NoDup (n :: filter (fun c => negb (str_eqb c n)) h).
Proof.
  intros Hnd. constructor; [|apply NoDup_filter; exact Hnd].
  intros Hc. apply filter_In in Hc. destruct Hc as [_ Hc]. rewrite str_eqb_refl in Hc. discriminate.
Qed.

Lemma move_front_eq t (n : str) : wf t -> In n (hdr t) ->
  move_front n t =
  mkT (n :: filter (fun c => negb (str_eqb c n)) (hdr t))
      (map (col_of t) (n :: filter (fun c => negb (str_eqb c n)) (hdr t))) (nrows t).
Proof.
  intros Hwf Hin. unfold move_front. cbv zeta. f_equal.
  apply map_ext_in. intros c Hc.
  rewrite (assoc_get_col t c Hwf); [reflexivity|]. apply (front_incl n (hdr t) Hin). exact Hc.
Qed.

Lemma filter_front_id (n : str) (rest : list str) :
  ~ In n rest -> filter (fun c => negb (str_eqb c n)) rest = rest.
Proof.
  induction rest as [|x rest IH]; intros Hn; [reflexivity|].
  cbn [filter]. destruct (str_eqb x n) eqn:E.
  - apply str_eqb_eq in E. subst x. exfalso. apply Hn. left. reflexivity.
  - cbn [negb]. f_equal. apply IH. intros H. apply Hn. right. exact H.
Qed.

(* the column order does not change when the index column is already first *)
Lemma move_front_id t (n : str) (rest : list str) : wf t -> hdr t = n :: rest -> move_front n t = t.
Proof.
  intros Hwf Hh.
  assert (Hin : In n (hdr t)) by (rewrite Hh; left; reflexivity).
  rewrite (move_front_eq t n Hwf Hin).
  assert (Hf : n :: filter (fun c => negb (str_eqb c n)) (hdr t) = hdr t).
  { rewrite Hh. cbn [filter]. rewrite str_eqb_refl. cbn [negb]. f_equal. apply filter_front_id.
    destruct Hwf as [_ [_ Hnd]]. rewrite Hh in Hnd. inversion Hnd as [|? ? Hx _]. exact Hx. }
  rewrite Hf. rewrite (TableProofs.cols_of_hdr t Hwf). destruct t; reflexivity.
Qed.

(* ------------------------------------------------------------------ 1-3: activation *)

Theorem activate_set : forall t (n : str), wf t -> In n (hdr t) -> unique_col (col_of t n) = true ->
  activate t (Some n) = Ok (mkIT (move_front n t) (Some n)) /\
  wf (move_front n t) /\
  hdr (move_front n t) = n :: filter (fun c => negb (str_eqb c n)) (hdr t) /\
  rows (move_front n t) =
    spec_get_columns (hdr t) (rows t) (n :: filter (fun c => negb (str_eqb c n)) (hdr t)) /\
  index_ok (move_front n t) (Some n).
Proof.
  intros t n Hwf Hin Hu.
  pose proof (front_incl n (hdr t) Hin) as Hincl.
  pose proof (front_NoDup n (hdr t) (proj2 (proj2 Hwf))) as Hnd.
  split.
  - unfold activate. rewrite (assoc_get_col t n Hwf Hin), Hu. reflexivity.
  - rewrite (move_front_eq t n Hwf Hin). cbn [hdr]. split; [|split; [reflexivity|split]].
    + unfold wf. cbn [hdr cols nrows]. split; [rewrite map_length; reflexivity|]. split; [|exact Hnd].
      rewrite Forall_forall. intros v Hv. apply in_map_iff in Hv. destruct Hv as [c [Hc Hcin]]. subst v.
      apply col_of_length; [exact Hwf|apply Hincl; exact Hcin].
    + rewrite rows_mkT. unfold spec_get_columns, rows, array. rewrite map_map.
      apply map_ext. intros i. apply row_at_cols_proj.
    + cbn [index_ok hdr]. split; [eexists; reflexivity|].
      unfold col_of at 1. cbn [hdr cols pos]. rewrite str_eqb_refl. cbn [map nth]. exact Hu.
Qed.

Theorem activate_idem : forall t ix, wf t -> index_ok t ix -> activate t ix = Ok (mkIT t ix).
Proof.
  intros t ix Hwf Hix. destruct ix as [n|]; [|reflexivity].
  destruct Hix as [[rest Hh] Hu].
  assert (Hin : In n (hdr t)) by (rewrite Hh; left; reflexivity).
  unfold activate. rewrite (assoc_get_col t n Hwf Hin), Hu.
  rewrite (move_front_id t n rest Hwf Hh). reflexivity.
Qed.

Theorem activate_rejects : forall t (n : str), wf t ->
  (~ In n (hdr t) \/ unique_col (col_of t n) = false) -> activate t (Some n) = Er E_Value.
Proof.
  intros t n Hwf H. unfold activate.
  destruct (mem_str n (hdr t)) eqn:Em.
  - apply mem_str_In in Em. destruct H as [H|H]; [contradiction|].
    rewrite (assoc_get_col t n Hwf Em), H. reflexivity.
  - apply mem_str_false in Em. rewrite (assoc_get_none _ _ _ Em). reflexivity.
Qed.

(* ------------------------------------------------------------------ 4: title / legend / index round trip *)

Lemma concat_strs_single (x : str) : concat_strs [x] = x.
Proof. cbn [concat_strs]. apply app_nil_r. Qed.

Lemma split_last_cons2 {A} (a b : A) (m : list A) :
  split_last (a :: b :: m) =
  match split_last (b :: m) with Some (i, y) => Some (a :: i, y) | None => None end.
Proof. reflexivity. Qed.

Lemma split_last_snoc {A} (l : list A) (x : A) : split_last (l ++ [x]) = Some (l, x).
Proof.
  induction l as [|a l IH]; [reflexivity|].
  cbn [app]. destruct (l ++ [x]) as [|b m] eqn:E; [destruct l; discriminate|].
  rewrite split_last_cons2, IH. reflexivity.
Qed.

Lemma load_delimited_tl_written (title legend : str) t :
  load_delimited_tl (write_records_tl title legend t) (negb (is_nil title)) (negb (is_nil legend)) =
  Ok (title, hdr t, map (map csv_cell_text) (array t), legend).
Proof.
  unfold write_records_tl, write_records, load_delimited_tl.
  destruct title as [|c s]; cbn [is_nil negb app bind fst snd].
  - destruct legend as [|c' s']; cbn [is_nil negb].
    + rewrite app_nil_r. reflexivity.
    + rewrite split_last_snoc, concat_strs_single. reflexivity.
  - rewrite concat_strs_single. destruct legend as [|c' s']; cbn [is_nil negb].
    + rewrite app_nil_r. reflexivity.
    + rewrite split_last_snoc, concat_strs_single. reflexivity.
Qed.

Lemma single_record_okb (s : str) : field_okb s = true -> rows_okb [[s]] = true.
Proof. intros H. unfold rows_okb, row_okb. cbn [forallb is_nil negb]. rewrite H. reflexivity. Qed.

Lemma write_records_tl_okb (title legend : str) t :
  wf t -> hdr t <> [] -> forallb field_okb (hdr t) = true -> forallb typed_col_okb (cols t) = true ->
  field_okb title = true -> field_okb legend = true ->
  rows_okb (write_records_tl title legend t) = true.
Proof.
  intros Hwf Hne Hh Hc Ht Hl. unfold write_records_tl, rows_okb. rewrite !forallb_app.
  apply andb_true_intro. split; [|apply andb_true_intro; split].
  - destruct title; [reflexivity|apply single_record_okb; exact Ht].
  - apply write_records_okb; assumption.
  - destruct legend; [reflexivity|apply single_record_okb; exact Hl].
Qed.

Theorem table_title_legend_index_roundtrip : forall d (title legend : str) t ix,
  delim_okb d = true -> wf t -> hdr t <> [] ->
  forallb field_okb (hdr t) = true -> forallb typed_col_okb (cols t) = true ->
  field_okb title = true -> field_okb legend = true ->
  index_ok t ix ->
  write_then_load_tl d title legend (mkIT t ix) = Ok (title, legend, mkIT t ix).
Proof.
  intros d title legend t ix Hd Hwf Hne Hh Hc Ht Hl Hix.
  unfold write_then_load_tl. cbn [base iname].
  rewrite (csv_roundtrip d _ Hd (write_records_tl_okb title legend t Hwf Hne Hh Hc Ht Hl)).
  unfold load_table_tl. rewrite load_delimited_tl_written. cbn [bind].
  change (hdr t :: map (map csv_cell_text) (array t)) with (write_records t).
  rewrite (load_written_records t Hwf Hne Hc). cbn [bind].
  rewrite (activate_idem t ix Hwf Hix). reflexivity.
Qed.

(* ------------------------------------------------------------------ 5: lookup through the index *)

Lemma find_label_some label col : forall k i, find_label label col k = Some i ->
  exists j, i = (k + j)%nat /\ (j < length col)%nat /\ cell_eqb (nth j col CN) label = true /\
            (forall j', (j' < j)%nat -> cell_eqb (nth j' col CN) label = false).
Proof.
  induction col as [|x col IH]; intros k i H; [discriminate|].
  cbn [find_label] in H. destruct (cell_eqb x label) eqn:E.
  - inversion H; subst. exists 0%nat. split; [lia|]. split; [cbn [length]; lia|]. split; [exact E|].
    intros j' Hj'. lia.
  - destruct (IH _ _ H) as [j [Hi [Hj [He Hlt]]]]. exists (S j).
    split; [lia|]. split; [cbn [length]; lia|]. split; [exact He|].
    intros j' Hj'. destruct j' as [|j']; [exact E|]. cbn [nth]. apply Hlt. lia.
Qed.

Lemma find_label_none label col : forall k,
  (forall x, In x col -> cell_eqb x label = false) -> find_label label col k = None.
Proof.
  induction col as [|x col IH]; intros k H; [reflexivity|].
  cbn [find_label]. rewrite (H x (or_introl eq_refl)). apply IH. intros y Hy. apply H. right. exact Hy.
Qed.

(* a cell of a row is the cell of its column *)
Lemma nth_rows_col t (c : str) i : (i < nrows t)%nat ->
  nth (pos c (hdr t)) (nth i (rows t) []) CN = nth i (col_of t c) CN.
Proof.
  intros Hi. unfold rows, array. rewrite (nth_map_seq (row_at (cols t)) (nrows t) i [] Hi).
  rewrite nth_row_at. reflexivity.
Qed.

Theorem it_lookup_spec : forall t (n c : str) label v,
  wf t -> index_ok t (Some n) -> In c (hdr t) ->
  it_lookup (mkIT t (Some n)) label c = Ok v ->
  exists i, (i < nrows t)%nat /\ cell_eqb (nth i (col_of t n) CN) label = true /\
            (forall j, (j < i)%nat -> cell_eqb (nth j (col_of t n) CN) label = false) /\
            v = nth (pos c (hdr t)) (nth i (rows t) []) CN.
Proof.
  intros t n c label v Hwf [[rest Hh] Hu] Hc H.
  assert (Hn : In n (hdr t)) by (rewrite Hh; left; reflexivity).
  unfold it_lookup in H. cbn [iname base] in H.
  rewrite (get_col_ok t n Hwf Hn) in H. cbn [bind] in H.
  destruct (find_label label (col_of t n) 0) as [i|] eqn:Ef; [|discriminate].
  rewrite (get_col_ok t c Hwf Hc) in H. cbn [bind] in H. inversion H as [Hv].
  destruct (find_label_some _ _ _ _ Ef) as [j [Hi [Hj [He Hlt]]]]. cbn [Nat.add] in Hi. subst j.
  rewrite (col_of_length t n Hwf Hn) in Hj.
  exists i. split; [exact Hj|]. split; [exact He|]. split; [exact Hlt|].
  symmetry. apply nth_rows_col. exact Hj.
Qed.

Theorem it_lookup_missing : forall t (n c : str) label,
  wf t -> index_ok t (Some n) ->
  (forall x, In x (col_of t n) -> cell_eqb x label = false) ->
  it_lookup (mkIT t (Some n)) label c = Er E_Key.
Proof.
  intros t n c label Hwf [[rest Hh] Hu] H.
  assert (Hn : In n (hdr t)) by (rewrite Hh; left; reflexivity).
  unfold it_lookup. cbn [iname base]. rewrite (get_col_ok t n Hwf Hn). cbn [bind].
  rewrite (find_label_none label (col_of t n) 0%nat H). reflexivity.
Qed.

(* ------------------------------------------------------------------ 8: transposed drops the index *)

(* the header of the transposed table comes from the column [select_as_header]
   names (the first column by default), whatever the index is (fix C20-9) *)
Theorem it_transposed_spec : forall t ix (new : str) (select : option str) (sah : str),
  wf t -> hdr t <> [] ->
  sah = match select with Some (c :: s) => c :: s | _ => hd [] (hdr t) end ->
  In sah (hdr t) ->
  length (dedup [] (map (proj (hdr t) [sah]) (rows t))) = nrows t ->
  NoDup (spec_transposed_header (hdr t) (rows t) new sah) ->
  (forall r, In r (rows t) ->
     coerce_col (proj (hdr t) (filter (fun c => negb (str_eqb c sah)) (hdr t)) r) =
     proj (hdr t) (filter (fun c => negb (str_eqb c sah)) (hdr t)) r) ->
  exists t', it_transposed (mkIT t ix) new select = Ok (mkIT t' None) /\
             hdr t' = spec_transposed_header (hdr t) (rows t) new sah /\ wf t' /\
             rows t' = spec_transposed (hdr t) (rows t) sah.
Proof.
  intros t ix new select sah Hwf Hne Hsah Hin Hlen Hnd Hco.
  destruct (transposed_spec t new select sah Hwf Hne Hsah Hin Hlen Hnd Hco) as [t' [H1 H2]].
  exists t'. split; [|exact H2]. unfold it_transposed. cbn [base]. rewrite H1. reflexivity.
Qed.

(* ------------------------------------------------------------------ unique_col = pairwise different cells *)

Definition uniq_keys (l : list (list cell)) : Prop := ForallOrdPairs (fun a b => key_eqb a b = false) l.

(* the cells of a column are pairwise different for Python's == *)
Definition pairwise_ne (col : list cell) : Prop := ForallOrdPairs (fun a b => cell_eqb a b = false) col.

Lemma dedup_length_le l : forall seen, (length (dedup seen l) <= length l)%nat.
Proof.
  induction l as [|k l IH]; intros seen; [cbn; lia|].
  cbn [dedup]. destruct (existsb (key_eqb k) seen).
  - specialize (IH seen). cbn [length]. lia.
  - specialize (IH (k :: seen)). cbn [length]. lia.
Qed.

(* nothing is dropped iff no key is seen already and the keys are pairwise different *)
Lemma dedup_full l : forall seen,
  length (dedup seen l) = length l <->
  (Forall (fun k => existsb (key_eqb k) seen = false) l /\ uniq_keys l).
Proof.
  induction l as [|k l IH]; intros seen; cbn [dedup].
  - split; [intros _; split; constructor|reflexivity].
  - destruct (existsb (key_eqb k) seen) eqn:E.
    + split.
      * intros H. pose proof (dedup_length_le l seen) as Hle. cbn [length] in H. lia.
      * intros [HF _]. inversion HF as [|? ? Hk _]. congruence.
    + cbn [length]. split.
      * intros H. assert (H' : length (dedup (k :: seen) l) = length l) by lia.
        apply IH in H'. destruct H' as [HF HU]. split.
        -- constructor; [exact E|]. rewrite Forall_forall in *. intros x Hx. specialize (HF x Hx).
           cbn [existsb] in HF. apply orb_false_iff in HF. apply HF.
        -- constructor; [|exact HU]. rewrite Forall_forall in *. intros x Hx. specialize (HF x Hx).
           cbn [existsb] in HF. apply orb_false_iff in HF. rewrite keq_sym. apply HF.
      * intros [HF HU]. inversion HF as [|? ? Hk HF']; subst. inversion HU as [|? ? Hkl HU']; subst.
        f_equal. apply IH. split; [|exact HU'].
        rewrite Forall_forall in *. intros x Hx. cbn [existsb]. apply orb_false_iff.
        split; [rewrite keq_sym; apply Hkl; exact Hx|apply HF'; exact Hx].
Qed.

Lemma uniq_keys_cells col : uniq_keys (map (fun c => [c]) col) <-> pairwise_ne col.
Proof.
  unfold uniq_keys, pairwise_ne. induction col as [|a col IH]; cbn [map]; split; intros H; try constructor.
  - inversion H as [|? ? HF HU]; subst. rewrite Forall_forall in *. intros x Hx.
    specialize (HF [x] (in_map (fun c => [c]) col x Hx)). cbn [key_eqb] in HF. rewrite andb_true_r in HF. exact HF.
  - inversion H as [|? ? HF HU]; subst. apply IH. exact HU.
  - inversion H as [|? ? HF HU]; subst. rewrite Forall_forall in *. intros k Hk.
    apply in_map_iff in Hk. destruct Hk as [x [Hx Hin]]. subst k. cbn [key_eqb]. rewrite andb_true_r.
    apply HF. exact Hin.
  - inversion H as [|? ? HF HU]; subst. apply IH. exact HU.
Qed.

Theorem unique_col_iff : forall col, unique_col col = true <-> pairwise_ne col.
Proof.
  intros col. rewrite <- uniq_keys_cells. unfold unique_col. rewrite Nat.eqb_eq.
  rewrite <- (map_length (fun c => [c]) col). rewrite dedup_full. split.
  - intros [_ H]. exact H.
  - intros H. split; [|exact H]. rewrite Forall_forall. intros k _. reflexivity.
Qed.

Lemma ceq_sym a b : cell_eqb a b = cell_eqb b a.
Proof. pose proof (keq_sym [a] [b]) as H. cbn [key_eqb] in H. rewrite !andb_true_r in H. exact H. Qed.

(* pairwise distinctness is inherited by selections ... *)
Lemma FOP_map_filter {A B} (R : B -> B -> Prop) (g : A -> B) (p : A -> bool) l :
  ForallOrdPairs R (map g l) -> ForallOrdPairs R (map g (filter p l)).
Proof.
  induction l as [|a l IH]; cbn [map filter]; intros H; [constructor|].
  inversion H as [|? ? HF HU]; subst. destruct (p a).
  - cbn [map]. constructor; [|apply IH; exact HU].
    rewrite Forall_forall in *. intros y Hy. apply HF.
    apply in_map_iff in Hy. destruct Hy as [x [Hx Hin]]. subst y. apply in_map.
    apply filter_In in Hin. apply Hin.
  - apply IH. exact HU.
Qed.

(* ... and invariant under permutations *)
Lemma FOP_perm {A} (R : A -> A -> Prop) : (forall a b, R a b -> R b a) ->
  forall l l', Permutation l l' -> ForallOrdPairs R l -> ForallOrdPairs R l'.
Proof.
  intros Hsym l l' Hp. induction Hp as [|x l l' Hp IH|x y l|l l' l'' Hp1 IH1 Hp2 IH2]; intros H.
  - constructor.
  - inversion H as [|? ? HF HU]; subst. constructor; [|apply IH; exact HU].
    rewrite Forall_forall in *. intros z Hz. apply HF. apply (Permutation_in z (Permutation_sym Hp)). exact Hz.
  - inversion H as [|? ? HFy HUx]; subst. inversion HUx as [|? ? HFx HU]; subst.
    inversion HFy as [|? ? Hyx HFy']; subst.
    constructor; [constructor; [apply Hsym; exact Hyx|exact HFx]|].
    constructor; [exact HFy'|exact HU].
  - apply IH2. apply IH1. exact H.
Qed.

Lemma pairwise_ne_filter {A} (g : A -> cell) (p : A -> bool) l :
  pairwise_ne (map g l) -> pairwise_ne (map g (filter p l)).
Proof. apply FOP_map_filter. Qed.

Lemma pairwise_ne_perm {A} (g : A -> cell) l l' :
  Permutation l l' -> pairwise_ne (map g l) -> pairwise_ne (map g l').
Proof.
  intros Hp. apply FOP_perm.
  - intros a b H. rewrite ceq_sym. exact H.
  - apply Permutation_map. exact Hp.
Qed.

(* a column is the list of its cells in the rows *)
Lemma col_of_rows t (c : str) : wf t -> In c (hdr t) ->
  col_of t c = map (fun r => nth (pos c (hdr t)) r CN) (rows t).
Proof.
  intros Hwf Hin. unfold rows, array. rewrite map_map.
  rewrite <- (map_nth_seq (col_of t c) CN) at 1. rewrite (col_of_length t c Hwf Hin).
  apply map_ext. intros i. rewrite nth_row_at. reflexivity.
Qed.

(* the index survives any rearrangement of the rows that keeps the header and
   sends the index column to a column with pairwise different cells *)
Lemma index_ok_rows t t' ix :
  wf t -> wf t' -> hdr t' = hdr t -> index_ok t ix ->
  (forall g : list cell -> cell, pairwise_ne (map g (rows t)) -> pairwise_ne (map g (rows t'))) ->
  index_ok t' ix.
Proof.
  intros Hwf Hwf' Hh Hix Hg. destruct ix as [n|]; [|exact I].
  destruct Hix as [[rest Hr] Hu].
  assert (Hin : In n (hdr t)) by (rewrite Hr; left; reflexivity).
  split; [exists rest; rewrite Hh; exact Hr|].
  apply unique_col_iff. rewrite (col_of_rows t' n Hwf') by (rewrite Hh; exact Hin).
  rewrite Hh. apply Hg. rewrite <- (col_of_rows t n Hwf Hin). apply unique_col_iff. exact Hu.
Qed.

(* ------------------------------------------------------------------ 6: filtered keeps the index *)

Theorem it_filtered_spec : forall t ix f columns,
  wf t -> index_ok t ix ->
  incl (default_cols t columns) (hdr t) -> NoDup (default_cols t columns) ->
  default_cols t columns <> [] ->
  exists t', it_filtered (mkIT t ix) f columns = Ok (mkIT t' ix) /\ hdr t' = hdr t /\ wf t' /\
             index_ok t' ix /\
             rows t' = spec_filtered (hdr t) (rows t) f (default_cols t columns).
Proof.
  intros t ix f columns Hwf Hix Hincl Hnd Hne.
  destruct (filtered_spec t f columns Hwf Hincl Hnd Hne) as [t' [Hf [Hh [Hwf' Hrows]]]].
  exists t'.
  assert (Hix' : index_ok t' ix).
  { apply (index_ok_rows t t' ix Hwf Hwf' Hh Hix). intros g Hg. rewrite Hrows.
    unfold spec_filtered. apply pairwise_ne_filter. exact Hg. }
  split; [|split; [exact Hh|split; [exact Hwf'|split; [exact Hix'|exact Hrows]]]].
  unfold it_filtered. cbn [base iname]. rewrite Hf. cbn [bind]. apply activate_idem; assumption.
Qed.

(* ------------------------------------------------------------------ 7: sorted keeps the index *)

Theorem it_sorted_keeps_index : forall t ix columns reverse t',
  wf t -> (hdr t = [] -> nrows t = 0%nat) -> index_ok t ix ->
  sorted t columns reverse = Ok t' ->
  NoDup (snd (sort_columns t columns reverse)) ->
  (forall c, In c (snd (sort_columns t columns reverse)) -> In c (fst (sort_columns t columns reverse)) ->
             dec_normal_col (col_of t c)) ->
  it_sorted (mkIT t ix) columns reverse = Ok (mkIT t' ix) /\ index_ok t' ix.
Proof.
  intros t ix columns reverse t' Hwf Hne Hix Hs Hnd Hdn.
  destruct (sorted_is_stable_sort t columns reverse t' Hwf Hne Hs Hnd Hdn) as [Hh [Hwf' [_ Hrows]]].
  assert (Hix' : index_ok t' ix).
  { apply (index_ok_rows t t' ix Hwf Hwf' Hh Hix). intros g Hg. rewrite Hrows.
    apply (pairwise_ne_perm g (rows t)); [|exact Hg].
    apply Permutation_sym. apply spec_sorted_perm. }
  split; [|exact Hix'].
  unfold it_sorted. cbn [base iname]. rewrite Hs. cbn [bind]. apply activate_idem; assumption.
Qed.

(* ------------------------------------------------------------------ 9: examples *)

(* columns a = [10; 20; 30], k = ["x"; "y"; "z"], b = [True; False; True] *)
Definition ex_t : table :=
  mkT [[97]; [107]; [98]]
      [[CI 10; CI 20; CI 30]; [CS [120]; CS [121]; CS [122]]; [CB true; CB false; CB true]] 3.

(* the same table indexed by k *)
Definition ex_it : itable :=
  mkIT (mkT [[107]; [97]; [98]]
            [[CS [120]; CS [121]; CS [122]]; [CI 10; CI 20; CI 30]; [CB true; CB false; CB true]] 3)
       (Some [107]).

(* index_name = "k": the second column moves to the front *)
Example ex_activate : activate ex_t (Some [107]) = Ok ex_it.
Proof. vm_compute. reflexivity. Qed.

(* index_name = "b": True occurs twice; index_name = "q": no such column *)
Example ex_activate_rejected :
  activate ex_t (Some [98]) = Er E_Value /\ activate ex_t (Some [113]) = Er E_Value.
Proof. split; vm_compute; reflexivity. Qed.

(* table["y", "a"] = 20 ; table["w", "a"] raises KeyError *)
Example ex_lookup :
  it_lookup ex_it (CS [121]) [97] = Ok (CI 20) /\ it_lookup ex_it (CS [119]) [97] = Er E_Key.
Proof. split; vm_compute; reflexivity. Qed.

(* an inner join on k with a table holding "x" twice: the kept index is no longer unique *)
Example ex_join_duplicates_index :
  joined (base ex_it) (mkT [[107]; [113]] [[CS [120]; CS [120]]; [CI 1; CI 2]] 2) None None true right_ =
    Ok (mkT [[107]; [97]; [98]; right_ ++ [113]]
            [[CS [120]; CS [120]]; [CI 10; CI 10]; [CB true; CB true]; [CI 1; CI 2]] 2) /\
  it_joined ex_it (mkT [[107]; [113]] [[CS [120]; CS [120]]; [CI 1; CI 2]] 2) None None true right_ =
    Er E_Value.
Proof. split; vm_compute; reflexivity. Qed.

(* an inner join that matches every key once keeps the index; the cross join drops it *)
Example ex_join_keeps_index :
  it_joined ex_it (mkT [[107]; [113]] [[CS [122]; CS [120]]; [CI 1; CI 2]] 2) None None true right_ =
    Ok (mkIT (mkT [[107]; [97]; [98]; right_ ++ [113]]
                  [[CS [120]; CS [122]]; [CI 10; CI 30]; [CB true; CB true]; [CI 2; CI 1]] 2)
             (Some [107])) /\
  match it_joined ex_it (mkT [[107]; [113]] [[CS [122]; CS [120]]; [CI 1; CI 2]] 2) None None false right_ with
  | Ok r => iname r = None /\ nrows (base r) = 6%nat
  | Er _ => False
  end.
Proof. split; [vm_compute; reflexivity|vm_compute; split; reflexivity]. Qed.

(* transposed(select_as_header="a") of the table indexed by k: the header comes from column a *)
Example ex_transposed :
  it_transposed ex_it [110] (Some [97]) =
  Ok (mkIT (mkT [[110]; [49; 48]; [50; 48]; [51; 48]]
                [[CS [107]; CS [98]]; [CS [120]; CB true]; [CS [121]; CB false]; [CS [122]; CB true]] 2)
           None).
Proof. vm_compute. reflexivity. Qed.

(* title "T", legend "L 1": the text written, and what load_table(..., with_title, with_legend, index_name) returns *)
Example ex_title_legend_text :
  fmt_rows 44 (write_records_tl [84] [76; 32; 49] (base ex_it)) =
  [84; 10; 107; 44; 97; 44; 98; 10; 120; 44; 49; 48; 44; 84; 114; 117; 101; 10;
   121; 44; 50; 48; 44; 70; 97; 108; 115; 101; 10; 122; 44; 51; 48; 44; 84; 114; 117; 101; 10;
   76; 32; 49; 10].
Proof. vm_compute. reflexivity. Qed.

Example ex_title_legend_roundtrip :
  write_then_load_tl 44 [84] [76; 32; 49] ex_it = Ok ([84], [76; 32; 49], ex_it).
Proof. vm_compute. reflexivity. Qed.

(* the same instance through the theorem: its hypotheses hold for the example *)
Example ex_it_wf : wf (base ex_it).
Proof.
  split; [reflexivity|]. split; [repeat constructor|].
  repeat constructor; cbn [In]; intros H; repeat (destruct H as [H|H]; [discriminate H|]); exact H.
Qed.

Example ex_it_index_ok : index_ok (base ex_it) (iname ex_it).
Proof. split; [eexists; reflexivity|vm_compute; reflexivity]. Qed.

Example ex_title_legend_by_theorem : forall (title legend : str),
  field_okb title = true -> field_okb legend = true ->
  write_then_load_tl 9 title legend ex_it = Ok (title, legend, ex_it).
Proof.
  intros title legend Ht Hl.
  apply (table_title_legend_index_roundtrip 9 title legend (base ex_it) (iname ex_it));
    [reflexivity|exact ex_it_wf|discriminate|reflexivity|vm_compute; reflexivity|exact Ht|exact Hl|exact ex_it_index_ok].
Qed.

(* filtered through the theorem: the rows with a > 10 keep the index k *)
Example ex_filtered :
  it_filtered ex_it (fun r => match r with [CI a] => 10 <? a | _ => false end) (Some [[97]]) =
  Ok (mkIT (mkT [[107]; [97]; [98]] [[CS [121]; CS [122]]; [CI 20; CI 30]; [CB false; CB true]] 2) (Some [107])).
Proof. vm_compute. reflexivity. Qed.

(* sorted by a, descending: the index k stays *)
Example ex_sorted :
  it_sorted ex_it (Some [[97]]) (Some [[97]]) =
  Ok (mkIT (mkT [[107]; [97]; [98]]
                [[CS [122]; CS [121]; CS [120]]; [CI 30; CI 20; CI 10]; [CB true; CB false; CB true]] 3)
           (Some [107])).
Proof. vm_compute. reflexivity. Qed.

(* ------------------------------------------------------------------ inner_join on the two index columns *)

(* self.inner_join(other), both indexed (any two index names; other may also hold a data column named
   like self's index): the nested-loop join on self[si] == other[oi], other's remaining columns prefixed *)
Theorem inner_join_on_indexes : forall self other (si oi : str) prefix,
  wf self -> wf other -> In si (hdr self) -> In oi (hdr other) -> hdr self <> [] ->
  NoDup (spec_join_header (hdr self) (hdr other) [oi] prefix) ->
  exists b,
    inner_join self other (Some [si]) (Some [oi]) prefix = Ok b /\ wf b /\
    hdr b = spec_join_header (hdr self) (hdr other) [oi] prefix /\
    rows b = spec_inner_join (hdr self) (rows self) (hdr other) (rows other) [si] [oi] /\
    it_inner_join_index (mkIT self (Some si)) (mkIT other (Some oi)) prefix = activate b (Some si).
Proof.
  intros self other si oi prefix Hws Hwo Hsi Hoi Hne Hnd.
  destruct (inner_join_nested_loop self other (Some [si]) (Some [oi]) prefix [si] [oi] Hws Hwo) as [b [Hb [Hwb [Hh Hr]]]].
  - apply join_keys_explicit. reflexivity.
  - discriminate.
  - discriminate.
  - constructor; [intros []|constructor].
  - constructor; [intros []|constructor].
  - intros c [Hc|[]]. subst. exact Hsi.
  - intros c [Hc|[]]. subst. exact Hoi.
  - exact Hne.
  - exact Hnd.
  - exists b. split; [exact Hb|]. split; [exact Hwb|]. split; [exact Hh|]. split; [exact Hr|].
    unfold it_inner_join_index. cbn [iname base].
    exact (f_equal (fun r => bind r (fun b0 => activate b0 (Some si))) Hb).
Qed.

Theorem inner_join_needs_both_indexes : forall self other prefix,
  iname self = None \/ iname other = None -> it_inner_join_index self other prefix = Er E_Value.
Proof.
  intros self other prefix [H|H]; unfold it_inner_join_index; rewrite H; [reflexivity|].
  destruct (iname self); reflexivity.
Qed.
