(** C08 — the constructors / whole-map operations of IndelMap against the
    gap-mask semantics: [from_mask], [len], [mul], [add], [spans],
    [nucleic_reversed], canonicity. *)
From CG3 Require Import Lib.PyZ Lib.Val Model.IndelMap Spec.IndelMapSpec Proofs.IndelMapProofs.

Local Open Scope Z_scope.

(** * Part 0: small list facts *)

Lemma repeat_snoc {A} (x : A) n : repeat x (S n) = repeat x n ++ [x].
Proof. induction n as [|n IH]; [reflexivity|]. cbn [repeat app] in *. now rewrite <- IH. Qed.

Lemma repeat_add {A} (x : A) a b : repeat x (a + b)%nat = repeat x a ++ repeat x b.
Proof. induction a as [|a IH]; [reflexivity|]. cbn [repeat app Nat.add]. now rewrite IH. Qed.

Lemma rev_repeat' {A} (x : A) n : rev (repeat x n) = repeat x n.
Proof.
  induction n as [|n IH]; [reflexivity|].
  cbn [repeat rev]. rewrite IH. now rewrite <- repeat_snoc.
Qed.

(** [repeat x (a + b)] on Z *)
Lemma repeat_Zadd {A} (x : A) a b : 0 <= a -> 0 <= b ->
  repeat x (Z.to_nat (a + b)) = repeat x (Z.to_nat a) ++ repeat x (Z.to_nat b).
Proof. intros. rewrite Z2Nat.inj_add by lia. apply repeat_add. Qed.

Lemma repeat_Zsucc {A} (x : A) a : 0 <= a ->
  repeat x (Z.to_nat (a + 1)) = repeat x (Z.to_nat a) ++ [x].
Proof. intros. rewrite repeat_Zadd by lia. reflexivity. Qed.

Lemma repeat_Zsucc_l {A} (x : A) a : 0 <= a ->
  repeat x (Z.to_nat (a + 1)) = x :: repeat x (Z.to_nat a).
Proof. intros. replace (Z.to_nat (a + 1)) with (S (Z.to_nat a)) by lia. reflexivity. Qed.

Lemma count_true_nonneg k : 0 <= count_true k.
Proof. induction k as [|b k IH]; cbn [count_true]; [lia|]. destruct b; lia. Qed.

(** * Part 1: [from_mask] *)

(** the two arrays [from_mask] builds from the regex matches, with the
    cumulative length [pc] already seen *)
Definition bcl (pc : Z) (ms : list (Z * Z)) : list Z := cumsum_from pc (map snd ms).
Definition bgp (pc : Z) (ms : list (Z * Z)) : list Z := sub2 (map fst ms) (pc :: bcl pc ms).

Lemma bcl_nil pc : bcl pc [] = [].
Proof. reflexivity. Qed.
Lemma bgp_nil pc : bgp pc [] = [].
Proof. reflexivity. Qed.
Lemma bcl_cons pc s n ms : bcl pc ((s, n) :: ms) = (pc + n) :: bcl (pc + n) ms.
Proof. reflexivity. Qed.
Lemma bgp_cons pc s n ms : bgp pc ((s, n) :: ms) = (s - pc) :: bgp (pc + n) ms.
Proof. reflexivity. Qed.

Lemma from_mask_unfold k :
  from_mask k = mk_imap (bgp 0 (gap_matches 0 None k)) (bcl 0 (gap_matches 0 None k)) (count_true k).
Proof. reflexivity. Qed.

(** [r] residues and [pc] gap characters have been read (not counting the
    current run); [pp] is the previous gap position *)
Lemma gap_matches_expand k : forall i pc pp r,
  pp <= r ->
  (i = r + pc ->
   expand pp pc (bgp pc (gap_matches i None k)) (bcl pc (gap_matches i None k)) (r + count_true k)
   = repeat true (Z.to_nat (r - pp)) ++ k) /\
  (forall s n, s = r + pc -> i = s + n -> 1 <= n ->
   expand pp pc (bgp pc (gap_matches i (Some (s, n)) k)) (bcl pc (gap_matches i (Some (s, n)) k))
          (r + count_true k)
   = repeat true (Z.to_nat (r - pp)) ++ repeat false (Z.to_nat n) ++ k).
Proof.
  induction k as [|b k IH]; intros i pc pp r Hpp.
  - cbn [gap_matches count_true]. split.
    + intros _. rewrite bgp_nil, bcl_nil. cbn [expand]. rewrite app_nil_r. f_equal. lia.
    + intros s n Hs Hi Hn. rewrite bgp_cons, bcl_cons, bgp_nil, bcl_nil. cbn [expand].
      replace (s - pc - pp) with (r - pp) by lia.
      replace (pc + n - pc) with n by lia.
      replace (r + 0 - (s - pc)) with 0 by lia. reflexivity.
  - destruct b; cbn [gap_matches count_true].
    + (* residue *)
      replace (r + (1 + count_true k)) with ((r + 1) + count_true k) by lia. split.
      * intros Hi. destruct (IH (i + 1) pc pp (r + 1)) as [IHa _]; [lia|].
        rewrite IHa by lia.
        replace (r + 1 - pp) with ((r - pp) + 1) by lia. rewrite repeat_Zsucc by lia.
        rewrite <- app_assoc. reflexivity.
      * intros s n Hs Hi Hn. rewrite bgp_cons, bcl_cons. cbn [expand].
        destruct (IH (i + 1) (pc + n) (s - pc) (r + 1)) as [IHa _]; [lia|].
        rewrite IHa by lia.
        replace (s - pc - pp) with (r - pp) by lia.
        replace (pc + n - pc) with n by lia.
        replace (r + 1 - (s - pc)) with 1 by lia. reflexivity.
    + (* gap character *)
      replace (r + (0 + count_true k)) with (r + count_true k) by lia.
      split.
      * intros Hi. destruct (IH (i + 1) pc pp r) as [_ IHb]; [lia|].
        rewrite (IHb i 1) by lia. reflexivity.
      * intros s n Hs Hi Hn. destruct (IH (i + 1) pc pp r) as [_ IHb]; [lia|].
        rewrite (IHb s (n + 1)) by lia.
        rewrite repeat_Zsucc by lia. rewrite <- app_assoc. reflexivity.
Qed.

Lemma abs_from_mask (k : list bool) : abs (from_mask k) = k.
Proof.
  rewrite from_mask_unfold. unfold abs.
  cbn [gap_pos cum_gap_lengths parent_length].
  destruct (gap_matches_expand k 0 0 0 0) as [H _]; [lia|].
  replace (count_true k) with (0 + count_true k) by lia.
  rewrite H by lia. reflexivity.
Qed.

Lemma gap_matches_wf k : forall i pc pp r,
  pp < r ->
  (i = r + pc ->
   wf_from pp pc (bgp pc (gap_matches i None k)) (bcl pc (gap_matches i None k)) (r + count_true k)) /\
  (forall s n, s = r + pc -> i = s + n -> 1 <= n ->
   wf_from pp pc (bgp pc (gap_matches i (Some (s, n)) k)) (bcl pc (gap_matches i (Some (s, n)) k))
          (r + count_true k)).
Proof.
  induction k as [|b k IH]; intros i pc pp r Hpp.
  - cbn [gap_matches count_true]. split.
    + intros _. rewrite bgp_nil, bcl_nil. cbn [wf_from]. lia.
    + intros s n Hs Hi Hn. rewrite bgp_cons, bcl_cons, bgp_nil, bcl_nil. cbn [wf_from]. lia.
  - pose proof (count_true_nonneg k) as Hk.
    destruct b; cbn [gap_matches count_true].
    + replace (r + (1 + count_true k)) with ((r + 1) + count_true k) by lia. split.
      * intros Hi. destruct (IH (i + 1) pc pp (r + 1)) as [IHa _]; [lia|]. apply IHa. lia.
      * intros s n Hs Hi Hn. rewrite bgp_cons, bcl_cons. cbn [wf_from].
        destruct (IH (i + 1) (pc + n) (s - pc) (r + 1)) as [IHa _]; [lia|].
        split; [lia|]. split; [lia|]. apply IHa. lia.
    + replace (r + (0 + count_true k)) with (r + count_true k) by lia.
      split.
      * intros Hi. destruct (IH (i + 1) pc pp r) as [_ IHb]; [lia|].
        apply IHb; lia.
      * intros s n Hs Hi Hn. destruct (IH (i + 1) pc pp r) as [_ IHb]; [lia|].
        apply IHb; lia.
Qed.

Lemma wf_from_mask (k : list bool) : WF (from_mask k).
Proof.
  rewrite from_mask_unfold. unfold WF.
  cbn [gap_pos cum_gap_lengths parent_length].
  split; [apply count_true_nonneg|].
  destruct (gap_matches_wf k 0 0 (-1) 0) as [H _]; [lia|].
  replace (count_true k) with (0 + count_true k) by lia. apply H. lia.
Qed.

Example wf_example_1 : WF (from_mask [true; false; false; true]).
Proof. apply wf_from_mask. Qed.
Example wf_example_2 : WF (from_mask [false; true; true; false; true; false; false]).
Proof. apply wf_from_mask. Qed.

(** * Part 2: structural facts about [expand] and [wf_from] *)

(** last element, [d] for the empty list *)
Fixpoint lastd (d : Z) (l : list Z) : Z :=
  match l with [] => d | x :: t => lastd x t end.

Lemma lastd_app d l1 l2 : lastd d (l1 ++ l2) = lastd (lastd d l1) l2.
Proof. revert d; induction l1 as [|x l1 IH]; intros d; cbn [lastd app]; auto. Qed.

Lemma lastd_map (f : Z -> Z) d l : lastd (f d) (map f l) = f (lastd d l).
Proof. revert d; induction l as [|x l IH]; intros d; cbn [lastd map]; auto. Qed.

Lemma lastd_cons_indep d d' x l : lastd d (x :: l) = lastd d' (x :: l).
Proof. reflexivity. Qed.

Lemma zlast_cons2 x y l : zlast (x :: y :: l) = zlast (y :: l).
Proof.
  unfold zlast, pyget. change (-1 <? 0) with true. cbv iota.
  rewrite (zlen_cons x). pose proof (zlen_nonneg l) as Hl. rewrite zlen_cons in *.
  rewrite znth_pos by lia. f_equal. lia.
Qed.

Lemma zlast_lastd d l : forall x, zlast (x :: l) = lastd d (x :: l).
Proof.
  induction l as [|y l IH]; intros x.
  - reflexivity.
  - rewrite zlast_cons2. rewrite IH. reflexivity.
Qed.

Lemma lastd_le_Forall (b : Z) l : forall d, d <= b -> Forall (fun p => p <= b) l -> lastd d l <= b.
Proof.
  induction l as [|x l IH]; intros d Hd HF; cbn [lastd]; [lia|].
  inversion HF as [|? ? Hx HF']; subst. apply IH; auto.
Qed.

(** weak-at-the-head well-formedness: [WF m] is [wf0 0 0 ...] *)
Definition wf0 (pp pc : Z) (gp cl : list Z) (plen : Z) : Prop :=
  pp <= plen /\ wf_from (pp - 1) pc gp cl plen.

Lemma WF_wf0 m : WF m -> wf0 0 0 (gap_pos m) (cum_gap_lengths m) (parent_length m).
Proof. exact (fun H => H). Qed.

Lemma wf0_WF gp cl plen : wf0 0 0 gp cl plen -> WF (mk_imap gp cl plen).
Proof. exact (fun H => H). Qed.

Lemma wf_from_weaken pp' pp pc gp cl plen :
  wf_from pp pc gp cl plen -> pp' <= pp -> wf_from pp' pc gp cl plen.
Proof.
  destruct gp as [|p gp]; destruct cl as [|c cl]; cbn [wf_from]; try tauto; [lia|].
  intros (H1 & H2 & H3) Hle. split; [lia|]. split; assumption.
Qed.

Lemma wf_from_le gp : forall pp pc cl plen, wf_from pp pc gp cl plen -> pp <= plen.
Proof.
  induction gp as [|p gp IH]; intros pp pc cl plen H; destruct cl as [|c cl]; cbn [wf_from] in H;
    try tauto.
  destruct H as (H1 & H2 & H3). apply IH in H3. lia.
Qed.

Lemma wf_from_wf0 pp pc gp cl plen : wf_from pp pc gp cl plen -> wf0 pp pc gp cl plen.
Proof.
  intros H. split; [eapply wf_from_le; eauto|]. eapply wf_from_weaken; [eauto|lia].
Qed.

(** the only way to take a [wf0] apart *)
Lemma wf0_inv pp pc gp cl plen : wf0 pp pc gp cl plen ->
  (gp = [] /\ cl = [] /\ pp <= plen) \/
  (exists p c gp' cl', gp = p :: gp' /\ cl = c :: cl' /\ pp <= p /\ pc < c /\
                       wf_from p c gp' cl' plen).
Proof.
  intros [Hle H]. destruct gp as [|p gp]; destruct cl as [|c cl]; cbn [wf_from] in H; try tauto.
  right. exists p, c, gp, cl. destruct H as (H1 & H2 & H3).
  split; [reflexivity|]. split; [reflexivity|]. split; [lia|]. split; assumption.
Qed.

Lemma wf_from_length gp : forall pp pc cl plen, wf_from pp pc gp cl plen -> length gp = length cl.
Proof.
  induction gp as [|p gp IH]; intros pp pc cl plen H; destruct cl as [|c cl]; cbn [wf_from] in H;
    try tauto.
  destruct H as (_ & _ & H). cbn [length]. f_equal. eapply IH; eauto.
Qed.

Lemma wf_from_Forall gp : forall pp pc cl plen, wf_from pp pc gp cl plen ->
  Forall (fun p => p <= plen) gp.
Proof.
  induction gp as [|p gp IH]; intros pp pc cl plen H; [constructor|].
  destruct cl as [|c cl]; cbn [wf_from] in H; [tauto|]. destruct H as (_ & _ & H).
  constructor; [eapply wf_from_le; eauto|eapply IH; eauto].
Qed.

Lemma wf_from_lastd gp : forall pp pc cl plen, wf_from pp pc gp cl plen -> lastd pp gp <= plen.
Proof.
  intros pp pc cl plen H. apply lastd_le_Forall; [eapply wf_from_le; eauto|eapply wf_from_Forall; eauto].
Qed.

Lemma post_init_ok gp cl plen :
  length gp = length cl -> Forall (fun p => p <= plen) gp ->
  post_init gp cl plen = Ok (mk_imap gp cl plen).
Proof.
  intros Hl HF. unfold post_init.
  assert (E : zlen gp =? zlen cl = true) by (unfold zlen; lia). rewrite E. cbn [negb].
  destruct gp as [|x gp]; [reflexivity|].
  rewrite (zlast_lastd plen).
  assert (lastd plen (x :: gp) <= plen) by (apply lastd_le_Forall; [lia|assumption]).
  assert (E2 : lastd plen (x :: gp) >? plen = false) by lia. rewrite E2.
  rewrite andb_false_r. reflexivity.
Qed.

Lemma post_init_wf pp pc gp cl plen :
  wf_from pp pc gp cl plen -> post_init gp cl plen = Ok (mk_imap gp cl plen).
Proof.
  intros H. apply post_init_ok; [eapply wf_from_length; eauto|eapply wf_from_Forall; eauto].
Qed.

(** the part of the string up to and including the last gap *)
Fixpoint egaps (pp pc : Z) (gp cl : list Z) : list bool :=
  match gp, cl with
  | p :: gp', c :: cl' =>
      repeat true (Z.to_nat (p - pp)) ++ repeat false (Z.to_nat (c - pc)) ++ egaps p c gp' cl'
  | _, _ => []
  end.

Lemma expand_app gp1 : forall pp pc cl1 g2 c2 plen, length gp1 = length cl1 ->
  expand pp pc (gp1 ++ g2) (cl1 ++ c2) plen
  = egaps pp pc gp1 cl1 ++ expand (lastd pp gp1) (lastd pc cl1) g2 c2 plen.
Proof.
  induction gp1 as [|p gp1 IH]; intros pp pc cl1 g2 c2 plen Hl; destruct cl1 as [|c cl1];
    cbn [length] in Hl; try discriminate.
  - reflexivity.
  - cbn [app expand egaps lastd]. rewrite IH by lia. rewrite <- !app_assoc. reflexivity.
Qed.

Lemma expand_egaps gp pp pc cl plen : length gp = length cl ->
  expand pp pc gp cl plen = egaps pp pc gp cl ++ repeat true (Z.to_nat (plen - lastd pp gp)).
Proof.
  intros Hl. rewrite <- (app_nil_r gp) at 1. rewrite <- (app_nil_r cl) at 1.
  rewrite expand_app by assumption. reflexivity.
Qed.

(** [expand] only looks at differences *)
Lemma expand_shift a b gp : forall pp pc cl plen,
  expand (a + pp) (b + pc) (map (fun p => a + p) gp) (map (fun c => b + c) cl) (a + plen)
  = expand pp pc gp cl plen.
Proof.
  induction gp as [|p gp IH]; intros pp pc cl plen.
  - cbn [map expand]. f_equal. f_equal. lia.
  - destruct cl as [|c cl]; cbn [map expand].
    + f_equal. f_equal. lia.
    + rewrite IH. f_equal; [f_equal; f_equal; lia|]. f_equal. f_equal. f_equal. lia.
Qed.

Lemma wf_from_shift a b gp : forall pp pc cl plen,
  wf_from pp pc gp cl plen ->
  wf_from (a + pp) (b + pc) (map (fun p => a + p) gp) (map (fun c => b + c) cl) (a + plen).
Proof.
  induction gp as [|p gp IH]; intros pp pc cl plen H; destruct cl as [|c cl]; cbn [map wf_from] in *;
    try tauto; [lia|].
  destruct H as (H1 & H2 & H3). split; [lia|]. split; [lia|]. apply IH. assumption.
Qed.

(** more residues in front *)
Lemma expand_more_front d pp pc gp cl plen : 0 <= d -> wf0 pp pc gp cl plen ->
  expand (pp - d) pc gp cl plen = repeat true (Z.to_nat d) ++ expand pp pc gp cl plen.
Proof.
  intros Hd H. destruct (wf0_inv _ _ _ _ _ H) as [(-> & -> & Hle)|(p & c & gp' & cl' & -> & -> & Hp & Hc & Hw)].
  - cbn [expand]. replace (plen - (pp - d)) with (d + (plen - pp)) by lia.
    apply repeat_Zadd; lia.
  - cbn [expand]. replace (p - (pp - d)) with (d + (p - pp)) by lia.
    rewrite repeat_Zadd by lia. rewrite <- app_assoc. reflexivity.
Qed.

(** * Part 3: [len] *)

Lemma zlen_expand gp : forall pp pc cl plen, wf0 pp pc gp cl plen ->
  zlen (expand pp pc gp cl plen) = (plen - pp) + (lastd pc cl - pc).
Proof.
  induction gp as [|p gp IH]; intros pp pc cl plen H;
    destruct (wf0_inv _ _ _ _ _ H) as [(E1 & -> & Hle)|(p' & c & gp' & cl' & E1 & -> & Hp & Hc & Hw)];
    try discriminate.
  - cbn [expand lastd]. rewrite zlen_repeat. lia.
  - injection E1 as <- <-. cbn [expand lastd]. rewrite !zlen_app, !zlen_repeat.
    rewrite IH by (apply wf_from_wf0; assumption). lia.
Qed.

Lemma len_spec m : WF m -> len m = zlen (abs m).
Proof.
  intros H. apply WF_wf0 in H. unfold abs. rewrite zlen_expand by assumption.
  unfold len, num_gaps.
  destruct (wf0_inv _ _ _ _ _ H) as [(E1 & E2 & Hle)|(p & c & gp' & cl' & E1 & E2 & Hp & Hc & Hw)];
    rewrite E1, E2.
  - change (zlen (@nil Z) =? 0) with true. cbn [lastd]. lia.
  - rewrite zlen_cons. pose proof (zlen_nonneg gp') as Hn.
    assert (E : 1 + zlen gp' =? 0 = false) by lia. rewrite E.
    rewrite (zlast_lastd 0). lia.
Qed.

Example len_spec_example : len (from_mask [true; false; false; true]) = 4.
Proof. reflexivity. Qed.

(** * Part 4: [mul] *)

Lemma to_nat_mul a s : 0 <= s -> Z.to_nat (a * s) = (Z.to_nat a * Z.to_nat s)%nat.
Proof.
  intros Hs. destruct (Z_le_gt_dec 0 a) as [Ha|Ha].
  - apply Z2Nat.inj_mul; lia.
  - assert (a * s <= 0) by nia. replace (Z.to_nat (a * s)) with O by lia.
    replace (Z.to_nat a) with O by lia. reflexivity.
Qed.

Lemma stretch_app {A} s (a b : list A) : stretch s (a ++ b) = stretch s a ++ stretch s b.
Proof. unfold stretch. apply flat_map_app. Qed.

Lemma stretch_repeat {A} s (x : A) n : stretch s (repeat x n) = repeat x (n * Z.to_nat s)%nat.
Proof.
  unfold stretch. induction n as [|n IH]; [reflexivity|].
  cbn [repeat flat_map]. rewrite IH. rewrite <- repeat_add. reflexivity.
Qed.

Lemma expand_scale s gp : 0 <= s -> forall pp pc cl plen,
  expand (pp * s) (pc * s) (map (fun p => p * s) gp) (map (fun c => c * s) cl) (plen * s)
  = stretch s (expand pp pc gp cl plen).
Proof.
  intros Hs. induction gp as [|p gp IH]; intros pp pc cl plen.
  - cbn [map expand]. rewrite stretch_repeat. f_equal. rewrite <- to_nat_mul by lia. f_equal. lia.
  - destruct cl as [|c cl]; cbn [map expand].
    + rewrite stretch_repeat. f_equal. rewrite <- to_nat_mul by lia. f_equal. lia.
    + rewrite IH. rewrite !stretch_app, !stretch_repeat. rewrite <- !to_nat_mul by lia.
      f_equal; [f_equal; f_equal; lia|]. f_equal. f_equal. f_equal. lia.
Qed.

Lemma wf_from_scale s gp : 1 <= s -> forall pp pc cl plen,
  wf_from pp pc gp cl plen ->
  wf_from (pp * s) (pc * s) (map (fun p => p * s) gp) (map (fun c => c * s) cl) (plen * s).
Proof.
  intros Hs. induction gp as [|p gp IH]; intros pp pc cl plen H; destruct cl as [|c cl];
    cbn [map wf_from] in *; try tauto; [nia|].
  destruct H as (H1 & H2 & H3). split; [nia|]. split; [nia|]. apply IH. assumption.
Qed.

Lemma wf0_scale s pp pc gp cl plen : 1 <= s ->
  wf0 pp pc gp cl plen ->
  wf0 (pp * s) (pc * s) (map (fun p => p * s) gp) (map (fun c => c * s) cl) (plen * s).
Proof.
  intros Hs H.
  destruct (wf0_inv _ _ _ _ _ H) as [(-> & -> & Hle)|(p & c & gp' & cl' & -> & -> & Hp & Hc & Hw)].
  - split; [nia|]. cbn [map wf_from]. nia.
  - split; [apply wf_from_le in Hw; nia|]. cbn [map wf_from].
    split; [nia|]. split; [nia|]. apply wf_from_scale; assumption.
Qed.

Lemma mul_spec m s : WF m -> 1 <= s ->
  exists m', mul m s = Ok m' /\ WF m' /\ abs m' = stretch s (abs m).
Proof.
  intros H Hs. apply WF_wf0 in H.
  apply (wf0_scale s _ _ _ _ _ Hs) in H. change (0 * s) with 0 in H.
  eexists. split; [|split].
  - unfold mul. eapply post_init_wf. destruct H as [_ H]. exact H.
  - apply wf0_WF. exact H.
  - unfold abs. cbn [gap_pos cum_gap_lengths parent_length].
    rewrite <- expand_scale by lia. reflexivity.
Qed.

Example mul_spec_example :
  exists m', mul (from_mask [true; false; false; true]) 3 = Ok m' /\ WF m' /\
             abs m' = stretch 3 [true; false; false; true].
Proof.
  destruct (mul_spec (from_mask [true; false; false; true]) 3) as (m' & H1 & H2 & H3);
    [apply wf_from_mask|lia|].
  exists m'. rewrite abs_from_mask in H3. auto.
Qed.

(** * Part 5: [add] *)

Lemma cum_length_lastd m : WF m ->
  (if num_gaps m =? 0 then 0 else zlast (cum_gap_lengths m)) = lastd 0 (cum_gap_lengths m).
Proof.
  intros H. apply WF_wf0 in H. unfold num_gaps.
  destruct (wf0_inv _ _ _ _ _ H) as [(E1 & E2 & Hle)|(p & c & gp' & cl' & E1 & E2 & Hp & Hc & Hw)];
    rewrite E1, E2.
  - reflexivity.
  - rewrite zlen_cons. pose proof (zlen_nonneg gp') as Hn.
    assert (E : 1 + zlen gp' =? 0 = false) by lia. rewrite E.
    apply zlast_lastd.
Qed.

Lemma Forall_map' {A B} (f : A -> B) (P : B -> Prop) l :
  Forall (fun x => P (f x)) l -> Forall P (map f l).
Proof. induction 1; cbn [map]; constructor; auto. Qed.

Lemma wf0_Forall pp pc gp cl plen : wf0 pp pc gp cl plen -> Forall (fun p => p <= plen) gp.
Proof. intros [_ H]. eapply wf_from_Forall; eauto. Qed.

Lemma wf0_length pp pc gp cl plen : wf0 pp pc gp cl plen -> length gp = length cl.
Proof. intros [_ H]. eapply wf_from_length; eauto. Qed.

Lemma wf0_lastd pp pc gp cl plen : wf0 pp pc gp cl plen -> lastd pp gp <= plen.
Proof. intros H. apply lastd_le_Forall; [apply H|eapply wf0_Forall; eauto]. Qed.

Lemma wf0_shift a b pp pc gp cl plen : wf0 pp pc gp cl plen ->
  wf0 (a + pp) (b + pc) (map (fun p => a + p) gp) (map (fun c => b + c) cl) (a + plen).
Proof.
  intros [Hle H]. split; [lia|]. replace (a + pp - 1) with (a + (pp - 1)) by lia.
  apply wf_from_shift. assumption.
Qed.

Lemma add_ok m1 m2 : WF m1 -> WF m2 ->
  add m1 m2 = Ok (mk_imap (gap_pos m1 ++ map (fun p => parent_length m1 + p) (gap_pos m2))
                          (cum_gap_lengths m1 ++
                           map (fun c => lastd 0 (cum_gap_lengths m1) + c) (cum_gap_lengths m2))
                          (parent_length m1 + parent_length m2)).
Proof.
  intros H1 H2. unfold add. rewrite (cum_length_lastd m1 H1).
  apply WF_wf0 in H1. apply WF_wf0 in H2.
  apply post_init_ok.
  - rewrite !app_length, !map_length.
    rewrite (wf0_length _ _ _ _ _ H1), (wf0_length _ _ _ _ _ H2). reflexivity.
  - apply Forall_app. split.
    + eapply Forall_impl; [|eapply wf0_Forall; exact H1]. cbv beta. intros a Ha.
      destruct H2 as [H2 _]. lia.
    + apply Forall_map'. eapply Forall_impl; [|eapply wf0_Forall; exact H2]. cbv beta. intros a Ha. lia.
Qed.

Lemma add_abs m1 m2 : WF m1 -> WF m2 ->
  exists m', add m1 m2 = Ok m' /\ abs m' = abs m1 ++ abs m2.
Proof.
  intros H1 H2. eexists. split; [apply add_ok; assumption|].
  apply WF_wf0 in H1. apply WF_wf0 in H2.
  pose proof (wf0_length _ _ _ _ _ H1) as Hl1.
  pose proof (wf0_lastd _ _ _ _ _ H1) as Hlast.
  unfold abs. cbn [gap_pos cum_gap_lengths parent_length].
  rewrite expand_app by assumption.
  rewrite (expand_egaps (gap_pos m1)) by assumption. rewrite <- app_assoc. f_equal.
  set (lp := lastd 0 (gap_pos m1)) in *. set (L := lastd 0 (cum_gap_lengths m1)).
  set (a := parent_length m1) in *.
  pose proof (wf0_shift a L _ _ _ _ _ H2) as Hs.
  pose proof (expand_more_front (a - lp) _ _ _ _ _ ltac:(lia) Hs) as E.
  rewrite expand_shift in E. rewrite <- E. f_equal; lia.
Qed.

Lemma wf_from_app gp1 : forall pp pc cl1 plen1 g2 c2 plen,
  wf_from pp pc gp1 cl1 plen1 ->
  wf_from (lastd pp gp1) (lastd pc cl1) g2 c2 plen ->
  wf_from pp pc (gp1 ++ g2) (cl1 ++ c2) plen.
Proof.
  induction gp1 as [|p gp1 IH]; intros pp pc cl1 plen1 g2 c2 plen H1 H2; destruct cl1 as [|c cl1];
    cbn [wf_from] in H1.
  - exact H2.
  - tauto.
  - tauto.
  - destruct H1 as (A & B & H1). cbn [app wf_from]. split; [assumption|]. split; [assumption|].
    eapply IH; [exact H1|exact H2].
Qed.

Lemma egaps_ends_false gp : forall pp pc cl plen pp',
  wf_from pp pc gp cl plen -> gp <> [] -> exists k', egaps pp' pc gp cl = k' ++ [false].
Proof.
  induction gp as [|p gp IH]; intros pp pc cl plen pp' H Hne; [congruence|].
  destruct cl as [|c cl]; cbn [wf_from] in H; [tauto|]. destruct H as (A & B & H).
  cbn [egaps]. destruct gp as [|p2 gp].
  - destruct cl as [|c2 cl]; cbn [wf_from] in H; [|tauto]. cbn [egaps]. rewrite app_nil_r.
    replace (c - pc) with ((c - pc - 1) + 1) by lia. rewrite repeat_Zsucc by lia.
    eexists. rewrite app_assoc. reflexivity.
  - destruct (IH p c cl plen p H) as (k' & Ek); [congruence|]. rewrite Ek.
    eexists. rewrite !app_assoc. reflexivity.
Qed.

Lemma add_wf m1 m2 : WF m1 -> WF m2 ->
  ~ (ends_in_gap (abs m1) /\ starts_with_gap (abs m2)) ->
  exists m', add m1 m2 = Ok m' /\ WF m'.
Proof.
  intros H1 H2 Hn. eexists. split; [apply add_ok; assumption|].
  apply WF_wf0 in H1. apply WF_wf0 in H2. apply wf0_WF.
  pose proof (wf0_length _ _ _ _ _ H1) as Hl1.
  set (a := parent_length m1) in *. set (L := lastd 0 (cum_gap_lengths m1)).
  assert (Hlast : lastd (0 - 1) (gap_pos m1) <= a).
  { apply lastd_le_Forall; [destruct H1; lia|eapply wf0_Forall; exact H1]. }
  split; [destruct H1, H2; lia|].
  destruct H1 as [Ha H1].
  eapply wf_from_app; [exact H1|]. fold L.
  destruct (wf0_inv _ _ _ _ _ H2) as [(E1 & E2 & Hle)|(p & c & gp' & cl' & E1 & E2 & Hp & Hc & Hw)];
    rewrite E1, E2; cbn [map wf_from].
  - lia.
  - split; [|split; [lia|apply wf_from_shift; assumption]].
    destruct (Z.eq_dec p 0) as [->|Hp0]; [|lia].
    destruct (Z.eq_dec (lastd (0 - 1) (gap_pos m1)) a) as [Elast|]; [|lia].
    exfalso. apply Hn. split.
    + (* m1 ends in a gap *)
      unfold abs. rewrite expand_egaps by assumption.
      destruct (gap_pos m1) as [|p1 gp1] eqn:Egp.
      { cbn [lastd] in Elast. lia. }
      destruct (egaps_ends_false (p1 :: gp1) _ _ _ _ 0 H1) as (k' & Ek); [congruence|].
      rewrite Ek. exists k'. fold a.
      rewrite (lastd_cons_indep 0 (0 - 1)). rewrite Elast.
      replace (a - a) with 0 by lia. cbn [Z.to_nat repeat]. rewrite app_nil_r. reflexivity.
    + (* m2 starts with a gap *)
      unfold abs. rewrite E1, E2. cbn [expand].
      replace (0 - 0) with 0 by lia. cbn [Z.to_nat repeat app].
      replace (c - 0) with ((c - 1) + 1) by lia. rewrite repeat_Zsucc_l by lia.
      eexists. reflexivity.
Qed.

Lemma add_not_wf : exists m1 m2 m',
  WF m1 /\ WF m2 /\ add m1 m2 = Ok m' /\ ~ WF m' /\ spans_mask m' <> abs m1 ++ abs m2.
Proof.
  exists (from_mask [false]), (from_mask [false]), (mk_imap [0; 0] [1; 2] 0).
  split; [apply wf_from_mask|]. split; [apply wf_from_mask|]. split; [reflexivity|]. split.
  - unfold WF. cbn [gap_pos cum_gap_lengths parent_length wf_from]. lia.
  - vm_compute. discriminate.
Qed.

Example add_abs_example :
  exists m', add (from_mask [true; false]) (from_mask [false; true]) = Ok m' /\
             abs m' = [true; false; false; true].
Proof.
  destruct (add_abs (from_mask [true; false]) (from_mask [false; true])) as (m' & H1 & H2);
    try apply wf_from_mask.
  exists m'. rewrite !abs_from_mask in H2. auto.
Qed.

Example add_wf_example :
  exists m', add (from_mask [true; false]) (from_mask [true; false; true]) = Ok m' /\ WF m'.
Proof.
  apply add_wf; try apply wf_from_mask. rewrite !abs_from_mask.
  intros [_ [k' Hk]]. discriminate.
Qed.

(** * Part 6: [spans] spells the string *)

Lemma spans_loop_mask gp : forall pp pc cl plen, wf_from pp pc gp cl plen -> 0 <= pp ->
  concat (map span_mask (spans_loop pp pc gp cl)) = egaps pp pc gp cl.
Proof.
  induction gp as [|p gp IH]; intros pp pc cl plen H Hpp; destruct cl as [|c cl];
    cbn [wf_from] in H.
  - reflexivity.
  - tauto.
  - tauto.
  - destruct H as (A & B & H). cbn [spans_loop egaps].
    assert (E : p =? 0 = false) by lia. rewrite E.
    cbn [app map concat span_mask]. rewrite (IH p c cl plen H) by lia.
    reflexivity.
Qed.

Lemma spans_mask_spec m : WF m -> spans_mask m = abs m.
Proof.
  intros H. apply WF_wf0 in H.
  pose proof (wf0_length _ _ _ _ _ H) as Hl. pose proof (wf0_lastd _ _ _ _ _ H) as Hlast.
  unfold spans_mask, spans, abs, num_gaps.
  destruct (wf0_inv _ _ _ _ _ H) as [(E1 & E2 & Hle)|(p & c & gp' & cl' & E1 & E2 & Hp & Hc & Hw)].
  - rewrite E1, E2. change (zlen (@nil Z) =? 0) with true. cbv iota.
    cbn [map concat span_mask expand]. apply app_nil_r.
  - rewrite expand_egaps by assumption. rewrite E1, E2 in *.
    rewrite zlen_cons. pose proof (zlen_nonneg gp') as Hn.
    assert (E : 1 + zlen gp' =? 0 = false) by lia. rewrite E.
    rewrite map_app, concat_app. rewrite (zlast_lastd 0). f_equal.
    + destruct (Z.eq_dec p 0) as [->|Hp0].
      * cbn [spans_loop egaps]. change (0 =? 0) with true. cbv iota.
        cbn [app map concat span_mask]. rewrite (spans_loop_mask _ _ _ _ _ Hw) by lia.
        replace (0 - 0) with 0 by lia. replace (c - 0) with c by lia. reflexivity.
      * apply (spans_loop_mask _ _ _ _ (parent_length m)); [|lia].
        cbn [wf_from]. split; [lia|]. split; [lia|]. assumption.
    + destruct (lastd 0 (p :: gp') <? parent_length m) eqn:Elt.
      * cbn [map concat span_mask]. apply app_nil_r.
      * replace (parent_length m - lastd 0 (p :: gp')) with 0 by lia. reflexivity.
Qed.

Example spans_mask_example :
  spans_mask (from_mask [false; true; true; false; true]) = [false; true; true; false; true].
Proof. rewrite spans_mask_spec by apply wf_from_mask. apply abs_from_mask. Qed.

(** * Part 7: [nucleic_reversed] *)

(** the string and well-formedness in terms of gap lengths rather than
    cumulative gap lengths *)
Fixpoint expandL (pp : Z) (gp ls : list Z) (plen : Z) : list bool :=
  match gp, ls with
  | p :: gp', l :: ls' =>
      repeat true (Z.to_nat (p - pp)) ++ repeat false (Z.to_nat l) ++ expandL p gp' ls' plen
  | _, _ => repeat true (Z.to_nat (plen - pp))
  end.

Fixpoint egapsL (pp : Z) (gp ls : list Z) : list bool :=
  match gp, ls with
  | p :: gp', l :: ls' =>
      repeat true (Z.to_nat (p - pp)) ++ repeat false (Z.to_nat l) ++ egapsL p gp' ls'
  | _, _ => []
  end.

Fixpoint wfL (pp : Z) (gp ls : list Z) (plen : Z) : Prop :=
  match gp, ls with
  | [], [] => pp <= plen
  | p :: gp', l :: ls' => pp < p /\ 0 < l /\ wfL p gp' ls' plen
  | _, _ => False
  end.

Lemma length_diffs_from cl : forall pc, length (diffs_from pc cl) = length cl.
Proof. induction cl as [|c cl IH]; intros pc; cbn [diffs_from length]; auto. Qed.

Lemma expand_expandL gp : forall pp pc cl plen,
  expand pp pc gp cl plen = expandL pp gp (diffs_from pc cl) plen.
Proof.
  induction gp as [|p gp IH]; intros pp pc cl plen; destruct cl as [|c cl];
    cbn [expand expandL diffs_from]; try reflexivity.
  rewrite IH. reflexivity.
Qed.

Lemma expand_cumsum gp : forall pp pc ls plen,
  expand pp pc gp (cumsum_from pc ls) plen = expandL pp gp ls plen.
Proof.
  induction gp as [|p gp IH]; intros pp pc ls plen; destruct ls as [|l ls];
    cbn [expand expandL cumsum_from]; try reflexivity.
  rewrite IH. replace (pc + l - pc) with l by lia. reflexivity.
Qed.

Lemma wf_from_wfL gp : forall pp pc cl plen,
  wf_from pp pc gp cl plen -> wfL pp gp (diffs_from pc cl) plen.
Proof.
  induction gp as [|p gp IH]; intros pp pc cl plen H; destruct cl as [|c cl];
    cbn [wf_from wfL diffs_from] in *; try tauto.
  destruct H as (A & B & H). split; [lia|]. split; [lia|]. apply IH. assumption.
Qed.

Lemma wfL_cumsum gp : forall pp pc ls plen,
  wfL pp gp ls plen -> wf_from pp pc gp (cumsum_from pc ls) plen.
Proof.
  induction gp as [|p gp IH]; intros pp pc ls plen H; destruct ls as [|l ls];
    cbn [wf_from wfL cumsum_from] in *; try tauto.
  destruct H as (A & B & H). split; [lia|]. split; [lia|]. apply IH. assumption.
Qed.

Lemma expandL_app gp1 : forall pp ls1 g2 l2 plen, length gp1 = length ls1 ->
  expandL pp (gp1 ++ g2) (ls1 ++ l2) plen = egapsL pp gp1 ls1 ++ expandL (lastd pp gp1) g2 l2 plen.
Proof.
  induction gp1 as [|p gp1 IH]; intros pp ls1 g2 l2 plen Hl; destruct ls1 as [|l ls1];
    cbn [length] in Hl; try discriminate.
  - reflexivity.
  - cbn [app expandL egapsL lastd]. rewrite IH by lia. rewrite <- !app_assoc. reflexivity.
Qed.

Lemma expandL_egapsL gp pp ls plen : length gp = length ls ->
  expandL pp gp ls plen = egapsL pp gp ls ++ repeat true (Z.to_nat (plen - lastd pp gp)).
Proof.
  intros Hl. rewrite <- (app_nil_r gp) at 1. rewrite <- (app_nil_r ls) at 1.
  rewrite expandL_app by assumption. reflexivity.
Qed.

(** reversal of the string, in the lengths view: an identity that needs no
    well-formedness *)
Lemma rev_expandL gp : forall pp ls plen, length gp = length ls ->
  rev (expandL pp gp ls plen)
  = expandL 0 (rev (map (fun p => plen - p) gp)) (rev ls) (plen - pp).
Proof.
  induction gp as [|p gp IH]; intros pp ls plen Hl; destruct ls as [|l ls];
    cbn [length] in Hl; try discriminate.
  - cbn [map rev expandL]. rewrite rev_repeat'. f_equal. f_equal. lia.
  - cbn [map rev expandL]. rewrite !rev_app_distr, !rev_repeat'.
    rewrite IH by lia.
    assert (Hl' : length (rev (map (fun p0 => plen - p0) gp)) = length (rev ls)).
    { rewrite !rev_length, map_length. lia. }
    rewrite expandL_egapsL by assumption. rewrite expandL_app by assumption.
    cbn [expandL]. rewrite <- !app_assoc.
    replace (plen - pp - (plen - p)) with (p - pp) by lia. reflexivity.
Qed.

Lemma wfL_snoc G : forall a L Q x l Q',
  wfL a G L Q -> Q < x -> 0 < l -> x <= Q' -> wfL a (G ++ [x]) (L ++ [l]) Q'.
Proof.
  induction G as [|g G IH]; intros a L Q x l Q' H Hx Hl HQ; destruct L as [|l0 L];
    cbn [wfL] in H.
  - cbn [app wfL]. lia.
  - tauto.
  - tauto.
  - destruct H as (A & B & H). cbn [app wfL]. split; [lia|]. split; [lia|].
    eapply IH; eauto.
Qed.

Lemma wfL_rev gp : forall pp ls plen, wfL pp gp ls plen ->
  wfL (-1) (rev (map (fun p => plen - p) gp)) (rev ls) (plen - pp - 1).
Proof.
  induction gp as [|p gp IH]; intros pp ls plen H; destruct ls as [|l ls]; cbn [wfL] in H.
  - cbn [map rev wfL]. lia.
  - tauto.
  - tauto.
  - destruct H as (A & B & H). cbn [map rev].
    eapply wfL_snoc; [apply IH; exact H| lia | lia | lia].
Qed.

Lemma nrev_ok m : WF m ->
  nucleic_reversed m
  = Ok (mk_imap (rev (map (fun p => parent_length m - p) (gap_pos m)))
                (cumsum_from 0 (rev (diffs_from 0 (cum_gap_lengths m))))
                (parent_length m))
  /\ wf0 0 0 (rev (map (fun p => parent_length m - p) (gap_pos m)))
             (cumsum_from 0 (rev (diffs_from 0 (cum_gap_lengths m))))
             (parent_length m).
Proof.
  intros H. apply WF_wf0 in H.
  assert (Hw : wf0 0 0 (rev (map (fun p => parent_length m - p) (gap_pos m)))
             (cumsum_from 0 (rev (diffs_from 0 (cum_gap_lengths m))))
             (parent_length m)).
  { destruct H as [Hp H]. split; [assumption|]. apply wfL_cumsum.
    apply wf_from_wfL in H. apply wfL_rev in H.
    replace (parent_length m - (0 - 1) - 1) with (parent_length m) in H by lia. exact H. }
  split; [|exact Hw].
  unfold nucleic_reversed, post_init_lengths, get_gap_lengths, cumsum.
  destruct (zlen (gap_pos m) =? 0) eqn:E.
  - assert (E1 : gap_pos m = []) by (apply zlen_0_nil; lia).
    pose proof (wf0_length _ _ _ _ _ H) as Hl. rewrite E1 in Hl.
    assert (E2 : cum_gap_lengths m = []) by (destruct (cum_gap_lengths m); [reflexivity|discriminate]).
    rewrite E1, E2. reflexivity.
  - destruct Hw as [_ Hw]. eapply post_init_wf. exact Hw.
Qed.

Lemma nrev_spec m : WF m ->
  exists m', nucleic_reversed m = Ok m' /\ WF m' /\ abs m' = rev (abs m).
Proof.
  intros H. destruct (nrev_ok m H) as [Hok Hw]. apply WF_wf0 in H.
  eexists. split; [exact Hok|]. split; [apply wf0_WF; exact Hw|].
  unfold abs. cbn [gap_pos cum_gap_lengths parent_length].
  rewrite expand_cumsum. rewrite expand_expandL.
  rewrite rev_expandL.
  - replace (parent_length m - 0) with (parent_length m) by lia. reflexivity.
  - rewrite length_diffs_from. eapply wf0_length; eauto.
Qed.

Example nrev_example :
  exists m', nucleic_reversed (from_mask [false; true; true; false; false; true]) = Ok m' /\ WF m' /\
             abs m' = [true; false; false; true; true; false].
Proof.
  destruct (nrev_spec (from_mask [false; true; true; false; false; true])) as (m' & H1 & H2 & H3);
    [apply wf_from_mask|].
  exists m'. rewrite abs_from_mask in H3. auto.
Qed.

(** * Part 8: canonicity — a well-formed map is the one [from_mask] builds *)

Definition optl {A} (o : option A) : list A := match o with Some r => [r] | None => [] end.

(** the regex matches of the string of a map *)
Fixpoint ms (pc : Z) (gp cl : list Z) : list (Z * Z) :=
  match gp, cl with
  | p :: gp', c :: cl' => (p + pc, c - pc) :: ms c gp' cl'
  | _, _ => []
  end.

Lemma gm_true i cur k : gap_matches i cur (true :: k) = optl cur ++ gap_matches (i + 1) None k.
Proof. destruct cur; reflexivity. Qed.

Lemma gm_trues_nat rest n : forall i,
  gap_matches i None (repeat true n ++ rest) = gap_matches (i + Z.of_nat n) None rest.
Proof.
  induction n as [|n IH]; intros i.
  - cbn [repeat app]. f_equal. lia.
  - cbn [repeat app gap_matches]. rewrite IH. f_equal. lia.
Qed.

Lemma gm_trues d i cur rest : 1 <= d ->
  gap_matches i cur (repeat true (Z.to_nat d) ++ rest) = optl cur ++ gap_matches (i + d) None rest.
Proof.
  intros Hd. replace (Z.to_nat d) with (S (Z.to_nat (d - 1))) by lia.
  cbn [repeat app]. rewrite gm_true, gm_trues_nat. f_equal. f_equal. lia.
Qed.

Lemma gm_all_true n i cur : gap_matches i cur (repeat true n) = optl cur.
Proof.
  destruct n as [|n].
  - destruct cur; reflexivity.
  - cbn [repeat]. rewrite gm_true. rewrite <- (app_nil_r (repeat true n)).
    rewrite gm_trues_nat. cbn [gap_matches]. apply app_nil_r.
Qed.

Lemma gm_falses_nat rest n : forall i s c,
  gap_matches i (Some (s, c)) (repeat false n ++ rest)
  = gap_matches (i + Z.of_nat n) (Some (s, c + Z.of_nat n)) rest.
Proof.
  induction n as [|n IH]; intros i s c.
  - cbn [repeat app]. f_equal; [lia|]. f_equal. f_equal. lia.
  - cbn [repeat app gap_matches]. rewrite IH. f_equal; [lia|]. f_equal. f_equal. lia.
Qed.

Lemma gm_falses d i rest : 1 <= d ->
  gap_matches i None (repeat false (Z.to_nat d) ++ rest) = gap_matches (i + d) (Some (i, d)) rest.
Proof.
  intros Hd. replace (Z.to_nat d) with (S (Z.to_nat (d - 1))) by lia.
  cbn [repeat app gap_matches]. rewrite gm_falses_nat. f_equal; [lia|]. f_equal. f_equal. lia.
Qed.

Lemma gm_expand gp : forall pp pc cl plen cur, wf_from pp pc gp cl plen ->
  gap_matches (pp + pc) cur (expand pp pc gp cl plen) = optl cur ++ ms pc gp cl.
Proof.
  induction gp as [|p gp IH]; intros pp pc cl plen cur H; destruct cl as [|c cl];
    cbn [wf_from] in H.
  - cbn [expand ms]. rewrite gm_all_true. symmetry. apply app_nil_r.
  - tauto.
  - tauto.
  - destruct H as (A & B & H). cbn [expand ms].
    rewrite gm_trues by lia. f_equal. rewrite gm_falses by lia.
    replace (pp + pc + (p - pp) + (c - pc)) with (p + c) by lia.
    rewrite (IH p c cl plen _ H). cbn [optl app]. f_equal. f_equal. lia.
Qed.

Lemma gm_abs gp cl plen : wf0 0 0 gp cl plen ->
  gap_matches 0 None (expand 0 0 gp cl plen) = ms 0 gp cl.
Proof.
  intros H.
  destruct (wf0_inv _ _ _ _ _ H) as [(-> & -> & Hle)|(p & c & gp' & cl' & -> & -> & Hp & Hc & Hw)].
  - cbn [expand ms]. apply gm_all_true.
  - destruct (Z.eq_dec p 0) as [->|Hp0].
    + cbn [expand ms]. replace (0 - 0) with 0 by lia. cbn [Z.to_nat repeat app].
      replace (c - 0) with c by lia. rewrite gm_falses by lia.
      rewrite (gm_expand gp' 0 c cl' plen _ Hw). reflexivity.
    + assert (Hw' : wf_from 0 0 (p :: gp') (c :: cl') plen).
      { cbn [wf_from]. split; [lia|]. split; [lia|]. assumption. }
      pose proof (gm_expand _ _ _ _ _ None Hw') as E. change (0 + 0) with 0 in E.
      rewrite E. reflexivity.
Qed.

Lemma bcl_ms gp : forall pc cl, length gp = length cl -> bcl pc (ms pc gp cl) = cl.
Proof.
  induction gp as [|p gp IH]; intros pc cl Hl; destruct cl as [|c cl]; cbn [length] in Hl;
    try discriminate.
  - reflexivity.
  - cbn [ms]. rewrite bcl_cons. replace (pc + (c - pc)) with c by lia. rewrite IH by lia. reflexivity.
Qed.

Lemma bgp_ms gp : forall pc cl, length gp = length cl -> bgp pc (ms pc gp cl) = gp.
Proof.
  induction gp as [|p gp IH]; intros pc cl Hl; destruct cl as [|c cl]; cbn [length] in Hl;
    try discriminate.
  - reflexivity.
  - cbn [ms]. rewrite bgp_cons. replace (pc + (c - pc)) with c by lia. rewrite IH by lia.
    f_equal. lia.
Qed.

Lemma count_true_app a b : count_true (a ++ b) = count_true a + count_true b.
Proof. induction a as [|x a IH]; cbn [app count_true]; [reflexivity|]. rewrite IH. lia. Qed.

Lemma count_true_repeat_true n : count_true (repeat true n) = Z.of_nat n.
Proof. induction n as [|n IH]; cbn [repeat count_true]; [reflexivity|]. rewrite IH. lia. Qed.

Lemma count_true_repeat_false n : count_true (repeat false n) = 0.
Proof. induction n as [|n IH]; cbn [repeat count_true]; [reflexivity|]. rewrite IH. lia. Qed.

Lemma count_true_expand gp : forall pp pc cl plen, wf0 pp pc gp cl plen ->
  count_true (expand pp pc gp cl plen) = plen - pp.
Proof.
  induction gp as [|p gp IH]; intros pp pc cl plen H;
    destruct (wf0_inv _ _ _ _ _ H) as [(E1 & -> & Hle)|(p' & c & gp' & cl' & E1 & -> & Hp & Hc & Hw)];
    try discriminate.
  - cbn [expand]. rewrite count_true_repeat_true. lia.
  - injection E1 as <- <-. cbn [expand].
    rewrite !count_true_app, count_true_repeat_true, count_true_repeat_false.
    rewrite IH by (apply wf_from_wf0; assumption). lia.
Qed.

Lemma from_mask_abs m : WF m -> from_mask (abs m) = m.
Proof.
  intros H. apply WF_wf0 in H. destruct m as [gp cl plen].
  cbn [gap_pos cum_gap_lengths parent_length] in H.
  rewrite from_mask_unfold. unfold abs. cbn [gap_pos cum_gap_lengths parent_length].
  rewrite gm_abs by assumption.
  rewrite bgp_ms, bcl_ms by (eapply wf0_length; eauto).
  rewrite (count_true_expand _ _ _ _ _ H). f_equal. lia.
Qed.

(** consequences: [abs] is injective on well-formed maps, and every string
    has exactly one well-formed representation *)
Lemma abs_inj m1 m2 : WF m1 -> WF m2 -> abs m1 = abs m2 -> m1 = m2.
Proof.
  intros H1 H2 E. rewrite <- (from_mask_abs m1 H1), <- (from_mask_abs m2 H2). now rewrite E.
Qed.

Example from_mask_abs_example :
  from_mask (abs (mk_imap [0; 2] [1; 3] 3)) = mk_imap [0; 2] [1; 3] 3.
Proof. apply from_mask_abs. unfold WF. cbn [gap_pos cum_gap_lengths parent_length wf_from]. lia. Qed.

(** * Part 9: corollaries *)

(** [add] at full strength when no gap run is split across the joint *)
Lemma add_spec m1 m2 : WF m1 -> WF m2 ->
  ~ (ends_in_gap (abs m1) /\ starts_with_gap (abs m2)) ->
  exists m', add m1 m2 = Ok m' /\ WF m' /\ abs m' = abs m1 ++ abs m2.
Proof.
  intros H1 H2 Hn.
  destruct (add_abs m1 m2 H1 H2) as (m' & Ha & Habs).
  destruct (add_wf m1 m2 H1 H2 Hn) as (m'' & Ha' & Hwf).
  rewrite Ha in Ha'. injection Ha' as <-. exists m'. auto.
Qed.

(** the well-formed maps are exactly the maps [from_mask] builds *)
Lemma WF_iff_from_mask m : WF m <-> exists k, m = from_mask k.
Proof.
  split.
  - intros H. exists (abs m). symmetry. apply from_mask_abs. assumption.
  - intros (k & ->). apply wf_from_mask.
Qed.
