(** C12 — finite check of the degenerate-codon specification, include_stop = True
    (split over two files so that they build in parallel). *)
From CG3 Require Import Lib.PyZ Lib.Val Model.GeneticCode Spec.GeneticCodeSpec Proofs.GeneticCodeProofs
  Proofs.GeneticCodeDegenDefs.
From CG3gen Require Import GCTables.

Lemma degenerate_checked_true : forallb (degenerate_check true) new_codes = true.
Proof. vm_cast_no_check (eq_refl true). Qed.

Lemma degenerate_first_code_checked_true : degenerate_check_on (product3 iupac_syms) true first_code = true.
Proof. vm_cast_no_check (eq_refl true). Qed.
