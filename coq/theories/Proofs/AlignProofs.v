(** C18 — proofs about the pairwise Viterbi model: the table invariant (every
    cell entry holds the best score over all paths that end there in that state,
    and a path attaining it), optimality and validity of the global result. *)
From CG3 Require Import Lib.PyZ Lib.Val Lib.MaxPlus Model.PairAlign Spec.AlignSpec.

(** ------------------------------------------------------------------ pick *)

Lemma pick_spec cands : forall init,
  (pick init cands = init \/ In (pick init cands) cands) /\
  ele (fst init) (fst (pick init cands)) /\
  (forall c, In c cands -> ele (fst c) (fst (pick init cands))).
Proof.
  induction cands as [|c cs IH]; intros init; simpl.
  - split; [left; reflexivity|]. split; [apply ele_refl | intros c []].
  - unfold pick in *. simpl.
    destruct (egtb (fst c) (fst init)) eqn:E.
    + destruct (IH c) as (Hin & Hge & Hall).
      apply egtb_true in E. destruct E as [E _].
      split; [|split].
      * destruct Hin as [-> | Hin]; [right; left; reflexivity | right; right; exact Hin].
      * eapply ele_trans; eauto.
      * intros c' [<- | Hc']; auto.
    + destruct (IH init) as (Hin & Hge & Hall).
      apply egtb_false in E.
      split; [|split].
      * destruct Hin as [-> | Hin]; [left; reflexivity | right; right; exact Hin].
      * exact Hge.
      * intros c' [<- | Hc']; auto. eapply ele_trans; eauto.
Qed.

(** ------------------------------------------------------------------ cell invariant *)

Section Inv.
Variable P : params.
Variable local : bool.

Definition tgtT := list st -> ez.

Definition entryOK (tgt : tgtT) (s : st) (e : entry) : Prop :=
  (forall z, fst e = Some z -> tgt (snd e) = Some z /\ exists q', snd e = s :: q') /\
  (forall q', ele (tgt (s :: q')) (fst e)).

Definition beginOK (tgt : tgtT) (e : entry) : Prop :=
  (forall z, fst e = Some z -> tgt [] = Some z /\ snd e = []) /\
  (local = false -> ele (tgt []) (fst e)) /\
  (local = true -> fst e = None).

Definition cellOK (tgt : tgtT) (c : cell) : Prop :=
  beginOK tgt (cB c) /\ entryOK tgt SX (cX c) /\ entryOK tgt SY (cY c) /\ entryOK tgt SM (cM c).

Definition R (rx ry : list Z) : tgtT := fun q => rscore P local q rx ry.

Lemma R_SB rx ry q : R rx ry (SB :: q) = None.
Proof. reflexivity. Qed.

Lemma R_nil_local rx ry : local = true -> R rx ry [] = Some 0.
Proof. unfold R. intros ->. reflexivity. Qed.

Lemma cget_OK tgt c p : cellOK tgt c -> p <> SB -> entryOK tgt p (cget c p).
Proof. intros (HB & HX & HY & HM) Hp. destruct p; simpl; auto. congruence. Qed.

Lemma In_cands src s r :
  In r (cands P src s) -> exists p, r = (eplus (fst (cget src p)) (tr P p s), snd (cget src p)).
Proof.
  unfold cands, source_states. cbn [map In]. intros [H|[H|[H|[H|[]]]]]; subst r;
    [exists SB | exists SX | exists SY | exists SM]; reflexivity.
Qed.

Lemma cand_in src s p :
  In (eplus (fst (cget src p)) (tr P p s), snd (cget src p)) (cands P src s).
Proof. unfold cands, source_states. destruct p; simpl; auto. Qed.

Lemma ttr_nonB p s : p <> SB -> ttr P local p s = tr P p s.
Proof. unfold ttr. destruct p; try congruence; intros _; simpl; rewrite ?andb_false_r; reflexivity. Qed.

Lemma step_ok tgt_src tgt_new src s d :
  s <> SB ->
  cellOK tgt_src src ->
  (local = true -> tgt_src [] = Some 0) ->
  (forall q, tgt_src (SB :: q) = None) ->
  (forall q', tgt_new (s :: q') = eplus d (eplus (ttr P local (prev_of q') s) (tgt_src q'))) ->
  entryOK tgt_new s (step P local src s d).
Proof.
  intros Hs Hsrc Hloc HSB Hrec.
  unfold step.
  set (init := if local && st_eqb s SM then (tr P SB s, []) else dead_entry).
  destruct (pick_spec (cands P src s) init) as (Hin & Hge & Hall).
  set (r := pick init (cands P src s)) in *.
  split.
  - (* attained *)
    cbn [fst snd]. intros z Hz.
    apply eplus_some_inv in Hz. destruct Hz as (v & dz & Hv & Hd & ->).
    split; [|eexists; reflexivity].
    rewrite Hrec.
    destruct Hin as [Hin | Hin].
    + (* the initial candidate *)
      rewrite Hin in *. subst init.
      destruct (local && st_eqb s SM) eqn:E.
      * apply andb_true_iff in E. destruct E as [El Es].
        destruct s; try discriminate. cbn [fst snd prev_of] in *.
        unfold ttr. rewrite El. cbn. rewrite (Hloc El), Hd, Hv. cbn. f_equal. lia.
      * cbn in Hv. discriminate.
    + apply In_cands in Hin. destruct Hin as (p & Hr). rewrite Hr in *. cbn [fst snd] in *.
      apply eplus_some_inv in Hv. destruct Hv as (w & t & Hw & Ht & ->).
      destruct (st_eqb p SB) eqn:Ep.
      * destruct p; try discriminate. cbn [cget] in *.
        destruct Hsrc as ((HB1 & HB2 & HB3) & _).
        destruct local eqn:El.
        { rewrite (HB3 eq_refl) in Hw. discriminate. }
        destruct (HB1 _ Hw) as (Ht0 & Hnil). rewrite Hnil. cbn [prev_of].
        unfold ttr. cbn. rewrite Ht0, Ht, Hd. cbn. f_equal. lia.
      * assert (Hp : p <> SB) by (destruct p; try discriminate; congruence).
        destruct (cget_OK _ _ _ Hsrc Hp) as (Hatt & _).
        destruct (Hatt _ Hw) as (Htq & q'' & Hq). rewrite Hq in *. cbn [prev_of].
        rewrite (ttr_nonB _ _ Hp), Htq, Ht, Hd. cbn. f_equal. lia.
  - (* optimal *)
    intros q'. cbn [fst]. rewrite Hrec.
    rewrite (eplus_comm (fst r) d). apply eplus_mono_r.
    destruct q' as [|p q''].
    + cbn [prev_of].
      destruct local eqn:El.
      * unfold ttr. cbn [andb st_eqb].
        destruct (st_eqb s SM) eqn:Es; cbn [negb andb].
        -- destruct s; try discriminate. rewrite (Hloc eq_refl).
           subst init. cbn [andb st_eqb] in Hge. cbn [fst] in Hge.
           destruct (tr P SB SM); cbn; auto. cbn in Hge.
           replace (z + 0) with z by lia. exact Hge.
        -- exact I.
      * unfold ttr. cbn [andb].
        destruct Hsrc as ((HB1 & HB2 & HB3) & _).
        eapply ele_trans; [| apply (Hall _ (cand_in src s SB))].
        cbn [fst cget]. rewrite (eplus_comm (tr P SB s)). apply eplus_mono_l. apply HB2. exact El.
    + cbn [prev_of].
      destruct (st_eqb p SB) eqn:Ep.
      * destruct p; try discriminate. rewrite HSB. rewrite eplus_none_r. exact I.
      * assert (Hp : p <> SB) by (destruct p; try discriminate; congruence).
        rewrite (ttr_nonB _ _ Hp).
        destruct (cget_OK _ _ _ Hsrc Hp) as (_ & Hopt).
        eapply ele_trans; [| apply (Hall _ (cand_in src s p))].
        cbn [fst]. rewrite (eplus_comm (tr P p s)). apply eplus_mono_l. apply Hopt.
Qed.

Lemma dead_entry_OK tgt s : (forall q', tgt (s :: q') = None) -> entryOK tgt s dead_entry.
Proof.
  intros H. split.
  - cbn. intros z Hz. discriminate.
  - intros q'. rewrite H. exact I.
Qed.

Lemma begin_nonorigin_OK rx ry :
  (rx <> [] \/ ry <> []) -> beginOK (R rx ry) (begin_entry local false).
Proof.
  intros Hne. unfold begin_entry. cbn [andb]. split; [|split].
  - cbn. intros z Hz. discriminate.
  - intros El. unfold R. rewrite El. cbn.
    destruct rx, ry; cbn; auto; destruct Hne; congruence.
  - reflexivity.
Qed.

Lemma begin_origin_OK : beginOK (R [] []) (begin_entry local true).
Proof.
  unfold begin_entry, R, beginOK. destruct local eqn:El; cbn.
  - split; [intros z Hz; discriminate|]. split; [intros H; discriminate | reflexivity].
  - split; [intros z Hz; inversion Hz; auto|]. split; [intros _; lia | intros H; discriminate].
Qed.

(** the three kinds of cells *)
Lemma mkcell_inner_OK a b rx ry up diag left :
  cellOK (R rx (b :: ry)) up -> cellOK (R rx ry) diag -> cellOK (R (a :: rx) ry) left ->
  cellOK (R (a :: rx) (b :: ry)) (mkcell P local false (Some a) (Some b) up diag left).
Proof.
  intros Hup Hdiag Hleft. unfold mkcell. split; [|split; [|split]]; cbn [cB cX cY cM].
  - apply begin_nonorigin_OK. left. discriminate.
  - eapply step_ok; eauto; try discriminate.
    + apply R_nil_local.
  - eapply step_ok; eauto; try discriminate.
    + apply R_nil_local.
  - eapply step_ok; eauto; try discriminate.
    + apply R_nil_local.
Qed.

Lemma mkcell_row0_OK b ry up diag left :
  cellOK (R [] ry) left ->
  cellOK (R [] (b :: ry)) (mkcell P local false None (Some b) up diag left).
Proof.
  intros Hleft. unfold mkcell. split; [|split; [|split]]; cbn [cB cX cY cM].
  - apply begin_nonorigin_OK. right. discriminate.
  - apply dead_entry_OK. reflexivity.
  - eapply step_ok; eauto; try discriminate.
    + apply R_nil_local.
  - apply dead_entry_OK. reflexivity.
Qed.

Lemma mkcell_col0_OK a rx up diag left :
  cellOK (R rx []) up ->
  cellOK (R (a :: rx) []) (mkcell P local false (Some a) None up diag left).
Proof.
  intros Hup. unfold mkcell. split; [|split; [|split]]; cbn [cB cX cY cM].
  - apply begin_nonorigin_OK. left. discriminate.
  - eapply step_ok; eauto; try discriminate.
    + apply R_nil_local.
  - apply dead_entry_OK. reflexivity.
  - apply dead_entry_OK. reflexivity.
Qed.

Lemma mkcell_origin_OK up diag left :
  cellOK (R [] []) (mkcell P local true None None up diag left).
Proof.
  unfold mkcell. split; [|split; [|split]]; cbn [cB cX cY cM].
  - apply begin_origin_OK.
  - apply dead_entry_OK. reflexivity.
  - apply dead_entry_OK. reflexivity.
  - apply dead_entry_OK. reflexivity.
Qed.

(** ------------------------------------------------------------------ rows *)

(** [RowOK rx ry ys cs]: the cells [cs] belong to the y-prefixes obtained by
    extending the (reversed) prefix [ry] with the residues [ys] one at a time *)
Inductive RowOK (rx : list Z) : list Z -> list Z -> list cell -> Prop :=
| RowNil ry : RowOK rx ry [] []
| RowCons ry b ys c cs :
    cellOK (R rx (b :: ry)) c -> RowOK rx (b :: ry) ys cs -> RowOK rx ry (b :: ys) (c :: cs).

Definition FullRow (rx ys : list Z) (row : list cell) : Prop :=
  exists c0 cs, row = c0 :: cs /\ cellOK (R rx []) c0 /\ RowOK rx [] ys cs.

Lemma fill_OK a rx : forall ys ry ups diag left,
  RowOK rx ry ys ups -> cellOK (R rx ry) diag -> cellOK (R (a :: rx) ry) left ->
  RowOK (a :: rx) ry ys (fill P local (Some a) ups diag left ys).
Proof.
  induction ys as [|b ys IH]; intros ry ups diag left Hups Hdiag Hleft.
  - inversion Hups; subst. cbn. constructor.
  - inversion Hups as [|ry' b' ys' c cs Hc Hcs]; subst. cbn [fill].
    constructor.
    + apply mkcell_inner_OK; assumption.
    + apply IH; try assumption. apply mkcell_inner_OK; assumption.
Qed.

Lemma fill0_OK : forall ys ry ups diag left,
  length ups = length ys -> cellOK (R [] ry) left ->
  RowOK [] ry ys (fill P local None ups diag left ys).
Proof.
  induction ys as [|b ys IH]; intros ry ups diag left Hlen Hleft.
  - destruct ups; cbn; constructor.
  - destruct ups as [|up ups]; [discriminate|]. cbn [fill].
    constructor.
    + apply mkcell_row0_OK; assumption.
    + apply IH; [cbn in Hlen; lia|]. apply mkcell_row0_OK; assumption.
Qed.

Lemma row0_OK ys : FullRow [] ys (row0 P local ys).
Proof.
  unfold row0, next_row, dead_row. eexists _, _. split; [reflexivity|]. split.
  - apply mkcell_origin_OK.
  - apply fill0_OK; [apply map_length | apply mkcell_origin_OK].
Qed.

Lemma next_row_OK a rx ys prev :
  FullRow rx ys prev -> FullRow (a :: rx) ys (next_row P local false (Some a) prev ys).
Proof.
  intros (c0 & cs & -> & Hc0 & Hcs). unfold next_row.
  eexists _, _. split; [reflexivity|]. split.
  - apply mkcell_col0_OK. assumption.
  - apply fill_OK; try assumption. apply mkcell_col0_OK. assumption.
Qed.

Lemma RowOK_last rx : forall ys ry cs c0,
  RowOK rx ry ys cs -> cellOK (R rx ry) c0 -> cellOK (R rx (rev ys ++ ry)) (last (c0 :: cs) dead).
Proof.
  induction ys as [|b ys IH]; intros ry cs c0 Hcs Hc0.
  - inversion Hcs; subst. cbn. assumption.
  - inversion Hcs as [|ry' b' ys' c cs' Hc Hcs']; subst.
    cbn [rev]. rewrite <- app_assoc. cbn [app].
    change (last (c0 :: c :: cs') dead) with (last (c :: cs') dead).
    apply IH; assumption.
Qed.

Lemma FullRow_last rx ys row :
  FullRow rx ys row -> cellOK (R rx (rev ys)) (last row dead).
Proof.
  intros (c0 & cs & -> & Hc0 & Hcs).
  rewrite <- (app_nil_r (rev ys)). apply RowOK_last; assumption.
Qed.

Lemma rows_from_last ys : forall xs rx prev,
  FullRow rx ys prev ->
  FullRow (rev xs ++ rx) ys (last (prev :: rows_from P local prev xs ys) []).
Proof.
  induction xs as [|a xs IH]; intros rx prev Hprev.
  - cbn. assumption.
  - cbn [rows_from rev]. rewrite <- app_assoc. cbn [app].
    set (r := next_row P local false (Some a) prev ys).
    change (last (prev :: r :: rows_from P local r xs ys) []) with (last (r :: rows_from P local r xs ys) []).
    apply IH. apply next_row_OK. assumption.
Qed.

Lemma table_last_OK xs ys :
  cellOK (R (rev xs) (rev ys)) (last_cell (table P local xs ys)).
Proof.
  unfold last_cell, table. apply FullRow_last.
  rewrite <- (app_nil_r (rev xs)). apply rows_from_last. apply row0_OK.
Qed.

End Inv.

(** ------------------------------------------------------------------ the global result *)

Lemma finish_OK P rx ry c :
  cellOK false (R P false rx ry) c ->
  (forall z, fst (finish P c) = Some z -> gscore P (snd (finish P c)) rx ry = Some z) /\
  (forall q, ele (gscore P q rx ry) (fst (finish P c))).
Proof.
  intros Hc. unfold finish.
  set (cs := map (fun p => (eplus (fst (cget c p)) (te P p), snd (cget c p))) source_states).
  destruct (pick_spec cs dead_entry) as (Hin & Hge & Hall).
  set (r := pick dead_entry cs) in *.
  assert (Hcand : forall p, In (eplus (fst (cget c p)) (te P p), snd (cget c p)) cs).
  { intros p. unfold cs, source_states. destruct p; cbn; auto. }
  split.
  - intros z Hz. destruct Hin as [Hin | Hin].
    + rewrite Hin in Hz. discriminate.
    + unfold cs in Hin. apply in_map_iff in Hin. destruct Hin as (p & Hr & _). symmetry in Hr.
      rewrite Hr in *. cbn [fst snd] in *.
      apply eplus_some_inv in Hz. destruct Hz as (w & t & Hw & Ht & ->).
      unfold gscore.
      destruct (st_eqb p SB) eqn:Ep.
      * destruct p; try discriminate. cbn [cget] in *.
        destruct Hc as ((HB1 & _) & _). destruct (HB1 _ Hw) as (Ht0 & Hnil).
        rewrite Hnil. cbn [prev_of]. unfold R in Ht0. rewrite Ht0, Ht. cbn. f_equal. lia.
      * assert (Hp : p <> SB) by (destruct p; try discriminate; congruence).
        destruct (cget_OK _ _ _ _ Hc Hp) as (Hatt & _).
        destruct (Hatt _ Hw) as (Htq & q'' & Hq). rewrite Hq in *. cbn [prev_of].
        unfold R in Htq. rewrite Htq, Ht. cbn. f_equal. lia.
  - intros q. unfold gscore.
    destruct q as [|p q'].
    + cbn [prev_of]. destruct Hc as ((_ & HB2 & _) & _).
      eapply ele_trans; [| apply (Hall _ (Hcand SB))]. cbn [fst cget].
      rewrite (eplus_comm (te P SB)). apply eplus_mono_l. apply HB2. reflexivity.
    + cbn [prev_of].
      destruct (st_eqb p SB) eqn:Ep.
      * destruct p; try discriminate. cbn. rewrite eplus_none_r. exact I.
      * assert (Hp : p <> SB) by (destruct p; try discriminate; congruence).
        destruct (cget_OK _ _ _ _ Hc Hp) as (_ & Hopt).
        eapply ele_trans; [| apply (Hall _ (Hcand p))]. cbn [fst].
        rewrite (eplus_comm (te P p)). apply eplus_mono_l. apply Hopt.
Qed.

(** reported score = score of the returned path; no path scores higher *)
Lemma align_global_sound P xs ys :
  (forall z, fst (align_global P xs ys) = Some z ->
             gscore P (rev (snd (align_global P xs ys))) (rev xs) (rev ys) = Some z) /\
  (forall q, ele (gscore P q (rev xs) (rev ys)) (fst (align_global P xs ys))).
Proof.
  unfold align_global. cbn [fst snd]. rewrite rev_involutive.
  apply finish_OK. apply table_last_OK.
Qed.

Lemma align_global_none P xs ys :
  fst (align_global P xs ys) = None -> forall q, gscore P q (rev xs) (rev ys) = None.
Proof.
  intros H q. destruct (align_global_sound P xs ys) as (_ & Hopt).
  specialize (Hopt q). rewrite H in Hopt. destruct (gscore P q (rev xs) (rev ys)); [destruct Hopt | reflexivity].
Qed.

(** ------------------------------------------------------------------ finite score => the path fits *)

Lemma rscore_some_fits P : forall q rx ry z,
  rscore P false q rx ry = Some z ->
  count_x q = length rx /\ count_y q = length ry /\ ~ In SB q.
Proof.
  induction q as [|s q IH]; intros rx ry z H.
  - cbn in H. destruct rx, ry; try discriminate. cbn. auto.
  - destruct s; cbn [rscore] in H; try discriminate.
    + destruct rx as [|a rx]; [discriminate|].
      apply eplus_some_inv in H. destruct H as (? & ? & _ & H & _).
      apply eplus_some_inv in H. destruct H as (? & ? & _ & H & _).
      destruct (IH _ _ _ H) as (Hx & Hy & HB).
      unfold count_x, count_y in *. cbn. repeat split; try lia.
      intros [E|E]; [discriminate | auto].
    + destruct ry as [|b ry]; [discriminate|].
      apply eplus_some_inv in H. destruct H as (? & ? & _ & H & _).
      apply eplus_some_inv in H. destruct H as (? & ? & _ & H & _).
      destruct (IH _ _ _ H) as (Hx & Hy & HB).
      unfold count_x, count_y in *. cbn. repeat split; try lia.
      intros [E|E]; [discriminate | auto].
    + destruct rx as [|a rx]; [discriminate|]. destruct ry as [|b ry]; [discriminate|].
      apply eplus_some_inv in H. destruct H as (? & ? & _ & H & _).
      apply eplus_some_inv in H. destruct H as (? & ? & _ & H & _).
      destruct (IH _ _ _ H) as (Hx & Hy & HB).
      unfold count_x, count_y in *. cbn. repeat split; try lia.
      intros [E|E]; [discriminate | auto].
Qed.

Lemma filter_length_rev {A} (f : A -> bool) (l : list A) :
  length (filter f (rev l)) = length (filter f l).
Proof.
  induction l as [|a l IH]; [reflexivity|].
  cbn [rev]. rewrite filter_app, app_length, IH. cbn. destruct (f a); cbn; lia.
Qed.

Lemma gscore_some_fits P q xs ys z :
  gscore P q (rev xs) (rev ys) = Some z -> fits (rev q) xs ys.
Proof.
  unfold gscore. intros H.
  apply eplus_some_inv in H. destruct H as (? & ? & _ & H & _).
  apply rscore_some_fits in H. destruct H as (Hx & Hy & HB).
  unfold fits, count_x, count_y in *.
  rewrite !filter_length_rev. rewrite !rev_length in *.
  repeat split; auto. intros Hin. apply HB. apply in_rev. exact Hin.
Qed.

(** ------------------------------------------------------------------ rows of a fitting path *)

Lemma rows_of_valid : forall p xs ys,
  fits p xs ys ->
  Forall (fun a => a <> GAP) xs -> Forall (fun a => a <> GAP) ys ->
  length (fst (rows_of p xs ys)) = length (snd (rows_of p xs ys)) /\
  degap (fst (rows_of p xs ys)) = xs /\ degap (snd (rows_of p xs ys)) = ys /\
  path_of_rows (fst (rows_of p xs ys)) (snd (rows_of p xs ys)) = p.
Proof.
  induction p as [|s p IH]; intros xs ys (Hx & Hy & HB) Fx Fy.
  - unfold count_x, count_y in *. cbn in *. destruct xs, ys; try discriminate. cbn. auto.
  - assert (HB' : ~ In SB p) by (intros H; apply HB; right; exact H).
    destruct s.
    + exfalso. apply HB. left. reflexivity.
    + (* X *)
      unfold count_x, count_y in Hx, Hy. cbn in Hx, Hy.
      destruct xs as [|a xs]; [discriminate|].
      inversion Fx as [|? ? Ha Fx']; subst.
      destruct (IH xs ys) as (Hl & H1 & H2 & H3); [repeat split; unfold count_x, count_y; auto; cbn in Hx; lia | auto | auto |].
      cbn [rows_of]. destruct (rows_of p xs ys) as [r1 r2]. cbn [fst snd] in *.
      assert (Ea : (a =? GAP) = false) by (apply Z.eqb_neq; exact Ha).
      repeat split.
      * cbn. lia.
      * unfold degap in *. cbn. rewrite Ea. cbn. f_equal. exact H1.
      * unfold degap in *. cbn. exact H2.
      * cbn. unfold state_of_col. rewrite Ea. cbn. f_equal. exact H3.
    + (* Y *)
      unfold count_x, count_y in Hx, Hy. cbn in Hx, Hy.
      destruct ys as [|b ys]; [discriminate|].
      inversion Fy as [|? ? Hb Fy']; subst.
      destruct (IH xs ys) as (Hl & H1 & H2 & H3); [repeat split; unfold count_x, count_y; auto; cbn in Hy; lia | auto | auto |].
      cbn [rows_of]. destruct (rows_of p xs ys) as [r1 r2]. cbn [fst snd] in *.
      assert (Eb : (b =? GAP) = false) by (apply Z.eqb_neq; exact Hb).
      repeat split.
      * cbn. lia.
      * unfold degap in *. cbn. exact H1.
      * unfold degap in *. cbn. rewrite Eb. cbn. f_equal. exact H2.
      * cbn. unfold state_of_col. rewrite Eb. cbn. f_equal. exact H3.
    + (* M *)
      unfold count_x, count_y in Hx, Hy. cbn in Hx, Hy.
      destruct xs as [|a xs]; [discriminate|]. destruct ys as [|b ys]; [discriminate|].
      inversion Fx as [|? ? Ha Fx']; subst. inversion Fy as [|? ? Hb Fy']; subst.
      destruct (IH xs ys) as (Hl & H1 & H2 & H3); [repeat split; unfold count_x, count_y; auto; cbn in Hx, Hy; lia | auto | auto |].
      cbn [rows_of]. destruct (rows_of p xs ys) as [r1 r2]. cbn [fst snd] in *.
      assert (Ea : (a =? GAP) = false) by (apply Z.eqb_neq; exact Ha).
      assert (Eb : (b =? GAP) = false) by (apply Z.eqb_neq; exact Hb).
      repeat split.
      * cbn. lia.
      * unfold degap in *. cbn. rewrite Ea. cbn. f_equal. exact H1.
      * unfold degap in *. cbn. rewrite Eb. cbn. f_equal. exact H2.
      * cbn. unfold state_of_col. rewrite Ea, Eb. cbn. f_equal. exact H3.
Qed.

(** ------------------------------------------------------------------ headline statements (global) *)

Definition residues (l : list Z) : Prop := Forall (fun a => a <> GAP) l.

Lemma global_score_is_path_score P xs ys z p :
  align_global P xs ys = (Some z, p) -> gscore P (rev p) (rev xs) (rev ys) = Some z.
Proof.
  intros H. destruct (align_global_sound P xs ys) as (Hatt & _).
  rewrite H in Hatt. cbn [fst snd] in Hatt. apply Hatt. reflexivity.
Qed.

Lemma global_alignment_valid P xs ys z p :
  residues xs -> residues ys ->
  align_global P xs ys = (Some z, p) ->
  valid_rows (fst (rows_of p xs ys)) (snd (rows_of p xs ys)) xs ys /\
  path_of_rows (fst (rows_of p xs ys)) (snd (rows_of p xs ys)) = p.
Proof.
  intros Fx Fy H.
  pose proof (global_score_is_path_score _ _ _ _ _ H) as Hs.
  apply gscore_some_fits in Hs. rewrite rev_involutive in Hs.
  destruct (rows_of_valid p xs ys Hs Fx Fy) as (Hl & H1 & H2 & H3).
  split; [|exact H3]. unfold valid_rows. repeat split; auto.
  rewrite H3. destruct Hs as (_ & _ & HB). exact HB.
Qed.

Lemma global_alignment_optimal P xs ys q :
  ele (gscore P q (rev xs) (rev ys)) (fst (align_global P xs ys)).
Proof. apply align_global_sound. Qed.

(** the same, said about gapped rows: whatever two rows one writes down, the
    score of the path they spell is not above the reported score *)
Lemma global_rows_optimal P xs ys r1 r2 :
  ele (gscore P (rev (path_of_rows r1 r2)) (rev xs) (rev ys)) (fst (align_global P xs ys)).
Proof. apply align_global_sound. Qed.

(** ------------------------------------------------------------------ non-vacuity *)

(** a classic-style score table (d = 10, e = 2 style, integers): X<->Y forbidden *)
Definition ex_params : params :=
  {| tr := fun p s => match p, s with
                      | SB, SX | SB, SY => Some (-10) | SB, SM => Some (-1)
                      | SX, SX | SY, SY => Some (-3) | SX, SM | SY, SM => Some (-1)
                      | SM, SX | SM, SY => Some (-11) | SM, SM => Some 0
                      | _, _ => None end;
     te := fun _ => Some 0;
     em := fun a b => if a =? b then Some 10 else Some (-8);
     gx := fun _ => Some 0; gy := fun _ => Some 0 |}.

Lemma global_example :
  align_global ex_params [0; 1; 2; 3] [0; 1; 3] = (Some 17, [SM; SM; SX; SM]) /\
  residues [0; 1; 2; 3] /\ residues [0; 1; 3] /\
  rows_of [SM; SM; SX; SM] [0; 1; 2; 3] [0; 1; 3] = ([0; 1; 2; 3], [0; 1; GAP; 3]).
Proof.
  split; [vm_compute; reflexivity|]. split; [|split].
  - repeat constructor; discriminate.
  - repeat constructor; discriminate.
  - reflexivity.
Qed.
