(** C08 — [merge_maps], general (unbounded) proof.

    Two well-formed maps over the same sequence are merged by adding, residue
    by residue, the number of gap characters in front of each residue (and
    after the last one): [abs (merge m1 m2) = mask_merge (abs m1) (abs m2)].

    Route: the "gap function" of a map is [g r = length_at gp lengths r];
    [P g pp n] lists [g pp; ...; g (pp + n)].
      (1) [profile (abs m) = P g 0 plen]           ([profile_abs])
      (2) [abs m = unprofile (P g 0 plen)]         ([abs_unprofile])
      (3) [profile (unprofile p) = p], [unprofile (profile k) = k]
      (4) [union1d] is strictly increasing with membership the union, so the
          gap function of the merged arrays is the pointwise sum
    and the theorem follows from (2) on the result and (1) on the operands. *)
From CG3 Require Import Lib.PyZ Lib.Val Model.IndelMap Spec.IndelMapSpec Spec.IndelMapStringOps Proofs.IndelMapProofs Proofs.IndelMapOps.

(** * Part 1: [profile] / [unprofile] on strings *)

Lemma profile_from_falses n : forall acc k,
  profile_from acc (repeat false n ++ k) = profile_from (acc + Z.of_nat n) k.
Proof.
  induction n as [|n IH]; intros acc k.
  - cbn [repeat app]. f_equal. lia.
  - cbn [repeat app profile_from]. rewrite IH. f_equal. lia.
Qed.

Lemma profile_from_falsesZ g acc k : 0 <= g ->
  profile_from acc (repeat false (Z.to_nat g) ++ k) = profile_from (acc + g) k.
Proof. intros Hg. rewrite profile_from_falses. f_equal. lia. Qed.

Lemma unprofile_cons2 g h t :
  unprofile (g :: h :: t) = repeat false (Z.to_nat g) ++ true :: unprofile (h :: t).
Proof. reflexivity. Qed.

Lemma unprofile_one g : unprofile [g] = repeat false (Z.to_nat g).
Proof. reflexivity. Qed.

(** [profile] inverts [unprofile] on non-empty lists of non-negative counts *)
Lemma profile_unprofile p : p <> [] -> Forall (fun g => 0 <= g) p ->
  profile (unprofile p) = p.
Proof.
  unfold profile. induction p as [|g t IH]; intros Hne HF; [congruence|].
  inversion HF as [|? ? Hg HF']; subst.
  destruct t as [|h t].
  - rewrite unprofile_one. rewrite <- (app_nil_r (repeat false _)).
    rewrite profile_from_falsesZ by assumption. reflexivity.
  - rewrite unprofile_cons2. rewrite profile_from_falsesZ by assumption.
    cbn [profile_from]. rewrite IH by (congruence || assumption). reflexivity.
Qed.

Lemma profile_from_nonempty k : forall acc, profile_from acc k <> [].
Proof.
  induction k as [|b k IH]; intros acc; cbn [profile_from]; [congruence|].
  destruct b; [congruence|apply IH].
Qed.

(** [unprofile] inverts [profile] *)
Lemma unprofile_profile_from k : forall acc, 0 <= acc ->
  unprofile (profile_from acc k) = repeat false (Z.to_nat acc) ++ k.
Proof.
  induction k as [|b k IH]; intros acc Hacc.
  - cbn [profile_from]. rewrite unprofile_one. rewrite app_nil_r. reflexivity.
  - destruct b; cbn [profile_from].
    + destruct (profile_from 0 k) as [|h t] eqn:E.
      * exfalso. eapply profile_from_nonempty; eauto.
      * rewrite unprofile_cons2. rewrite <- E. rewrite IH by lia. reflexivity.
    + rewrite IH by lia. rewrite repeat_Zsucc by assumption.
      rewrite <- app_assoc. reflexivity.
Qed.

Lemma unprofile_profile k : unprofile (profile k) = k.
Proof. unfold profile. rewrite unprofile_profile_from by lia. reflexivity. Qed.

Lemma profile_from_nonneg k : forall acc, 0 <= acc -> Forall (fun g => 0 <= g) (profile_from acc k).
Proof.
  induction k as [|b k IH]; intros acc Hacc; cbn [profile_from].
  - constructor; [assumption|constructor].
  - destruct b; [constructor; [assumption|apply IH; lia]|apply IH; lia].
Qed.

Lemma count_true_count_res k : count_true k = count_res k.
Proof.
  induction k as [|b k IH]; [reflexivity|]. cbn [count_true count_res].
  destruct b; lia.
Qed.

(** * Part 2: the gap function of a map and its listing *)

(** [g pp; g (pp + 1); ...; g (pp + n)] *)
Definition P (g : Z -> Z) (pp : Z) (n : nat) : list Z := map g (zrange_aux pp (S n)).

Lemma P_0 g pp : P g pp 0 = [g pp].
Proof. reflexivity. Qed.

Lemma P_S g pp n : P g pp (S n) = g pp :: P g (pp + 1) n.
Proof. reflexivity. Qed.

Lemma P_zrange g plen : 0 <= plen ->
  P g 0 (Z.to_nat plen) = map g (zrange 0 (plen + 1)).
Proof.
  intros H. unfold P, zrange. f_equal. f_equal. lia.
Qed.

Lemma P_ext g g' n : forall pp,
  (forall r, pp <= r <= pp + Z.of_nat n -> g r = g' r) -> P g pp n = P g' pp n.
Proof.
  induction n as [|n IH]; intros pp H.
  - rewrite !P_0. f_equal. apply H. lia.
  - rewrite !P_S. f_equal; [apply H; lia|]. apply IH. intros r Hr. apply H. lia.
Qed.

Lemma P_zip g1 g2 n : forall pp,
  zip_with Z.add (P g1 pp n) (P g2 pp n) = P (fun r => g1 r + g2 r) pp n.
Proof.
  induction n as [|n IH]; intros pp.
  - reflexivity.
  - rewrite !P_S. cbn [zip_with]. rewrite IH. reflexivity.
Qed.

Lemma P_nonneg g n : (forall r, 0 <= g r) -> forall pp, Forall (fun x => 0 <= x) (P g pp n).
Proof.
  intros Hg. induction n as [|n IH]; intros pp.
  - rewrite P_0. constructor; [apply Hg|constructor].
  - rewrite P_S. constructor; [apply Hg|apply IH].
Qed.

Lemma P_nonempty g pp n : P g pp n <> [].
Proof. destruct n; [rewrite P_0|rewrite P_S]; congruence. Qed.

Lemma unprofile_P_0 g pp : unprofile (P g pp 0) = repeat false (Z.to_nat (g pp)).
Proof. reflexivity. Qed.

Lemma unprofile_P_S g pp n :
  unprofile (P g pp (S n)) = repeat false (Z.to_nat (g pp)) ++ true :: unprofile (P g (pp + 1) n).
Proof.
  rewrite P_S. destruct (P g (pp + 1) n) as [|h t] eqn:E.
  - exfalso. eapply P_nonempty; eauto.
  - apply unprofile_cons2.
Qed.

(** residues with no gap in front of them *)
Lemma unprofile_P_skip g n d : forall pp,
  (forall r, pp <= r < pp + Z.of_nat d -> g r = 0) ->
  unprofile (P g pp (d + n)) = repeat true d ++ unprofile (P g (pp + Z.of_nat d) n).
Proof.
  induction d as [|d IH]; intros pp H.
  - cbn [Nat.add repeat app]. f_equal. f_equal. lia.
  - cbn [Nat.add]. rewrite unprofile_P_S. rewrite H by lia.
    cbn [Z.to_nat repeat app]. f_equal. rewrite IH by (intros r Hr; apply H; lia).
    f_equal. f_equal. f_equal. lia.
Qed.

(** the gap run in front of residue [p] split off *)
Lemma unprofile_P_head g g' p l n :
  0 <= l -> 0 <= g' p -> g p = l + g' p -> (forall r, p < r -> g r = g' r) ->
  unprofile (P g p n) = repeat false (Z.to_nat l) ++ unprofile (P g' p n).
Proof.
  intros Hl Hg' Hp Hr. destruct n as [|n].
  - rewrite !unprofile_P_0. rewrite Hp. apply repeat_Zadd; assumption.
  - rewrite !unprofile_P_S. rewrite Hp. rewrite repeat_Zadd by assumption.
    rewrite <- app_assoc. f_equal. f_equal. f_equal. f_equal.
    apply P_ext. intros r Hrr. apply Hr. lia.
Qed.

(** ** [length_at] *)

Lemma length_at_nil L r : length_at [] L r = 0.
Proof. reflexivity. Qed.

Lemma length_at_cons p gp l L r :
  length_at (p :: gp) (l :: L) r = if p =? r then l else length_at gp L r.
Proof. unfold length_at. cbn [lookup]. destruct (p =? r); reflexivity. Qed.

Lemma length_at_cons_nil p gp r : length_at (p :: gp) [] r = 0.
Proof. reflexivity. Qed.

Lemma length_at_notin gp : forall L r, ~ In r gp -> length_at gp L r = 0.
Proof.
  induction gp as [|p gp IH]; intros L r Hn; [reflexivity|].
  destruct L as [|l L]; [reflexivity|]. rewrite length_at_cons.
  destruct (p =? r) eqn:E.
  - exfalso. apply Hn. left. lia.
  - apply IH. intros Hin. apply Hn. right. assumption.
Qed.

Lemma length_at_map f U : forall r, In r U -> length_at U (map f U) r = f r.
Proof.
  induction U as [|p U IH]; intros r Hin; [destruct Hin|].
  cbn [map]. rewrite length_at_cons. destruct (p =? r) eqn:E.
  - f_equal. lia.
  - apply IH. destruct Hin as [Hin|Hin]; [lia|assumption].
Qed.

(** ** facts carried by [wfL] *)

Lemma wfL_le gp : forall pp L plen, wfL pp gp L plen -> pp <= plen.
Proof.
  induction gp as [|p gp IH]; intros pp L plen H; destruct L as [|l L]; cbn [wfL] in H; try tauto.
  destruct H as (H1 & H2 & H3). apply IH in H3. lia.
Qed.

Lemma wfL_weaken pp' pp gp L plen : wfL pp gp L plen -> pp' <= pp -> wfL pp' gp L plen.
Proof.
  destruct gp as [|p gp]; destruct L as [|l L]; cbn [wfL]; try tauto; [lia|].
  intros (H1 & H2 & H3) Hle. split; [lia|]. split; assumption.
Qed.

Lemma wfL_In gp : forall pp L plen r, wfL pp gp L plen -> In r gp ->
  pp < r <= plen /\ 0 < length_at gp L r.
Proof.
  induction gp as [|p gp IH]; intros pp L plen r H Hin; [destruct Hin|].
  destruct L as [|l L]; cbn [wfL] in H; [tauto|]. destruct H as (H1 & H2 & H3).
  rewrite length_at_cons. destruct (p =? r) eqn:E.
  - assert (p = r) by lia. subst r. apply wfL_le in H3. lia.
  - destruct Hin as [Hin|Hin]; [lia|]. destruct (IH _ _ _ _ H3 Hin) as [Ha Hb].
    split; [lia|assumption].
Qed.

Lemma wfL_notin gp pp L plen r : wfL pp gp L plen -> r <= pp -> length_at gp L r = 0.
Proof.
  intros H Hr. apply length_at_notin. intros Hin.
  destruct (wfL_In _ _ _ _ _ H Hin) as [Ha _]. lia.
Qed.

Lemma wfL_nonneg gp pp L plen r : wfL pp gp L plen -> 0 <= length_at gp L r.
Proof.
  intros H. destruct (in_dec Z.eq_dec r gp) as [Hin|Hn].
  - destruct (wfL_In _ _ _ _ _ H Hin) as [_ Hb]. lia.
  - rewrite length_at_notin by assumption. lia.
Qed.

(** ** the string of a map in terms of its gap function *)

Lemma expandL_unprofile gp : forall pp L plen, pp <= plen -> wfL (pp - 1) gp L plen ->
  expandL pp gp L plen = unprofile (P (length_at gp L) pp (Z.to_nat (plen - pp))).
Proof.
  induction gp as [|p gp IH]; intros pp L plen Hle H; destruct L as [|l L]; cbn [wfL] in H;
    try tauto.
  - cbn [expandL].
    rewrite <- (Nat.add_0_r (Z.to_nat (plen - pp))) at 2.
    rewrite unprofile_P_skip by (intros r _; reflexivity).
    rewrite unprofile_P_0. rewrite length_at_nil. cbn [Z.to_nat repeat]. rewrite app_nil_r.
    reflexivity.
  - destruct H as (H1 & H2 & H3). pose proof (wfL_le _ _ _ _ H3) as Hp.
    cbn [expandL].
    replace (Z.to_nat (plen - pp)) with (Z.to_nat (p - pp) + Z.to_nat (plen - p))%nat by lia.
    rewrite unprofile_P_skip.
    2:{ intros r Hr. rewrite length_at_cons. destruct (p =? r) eqn:E; [lia|].
        eapply wfL_notin; [exact H3|lia]. }
    f_equal. replace (pp + Z.of_nat (Z.to_nat (p - pp))) with p by lia.
    rewrite (unprofile_P_head (length_at (p :: gp) (l :: L)) (length_at gp L) p l).
    + f_equal. apply IH; [assumption|]. eapply wfL_weaken; [exact H3|lia].
    + lia.
    + eapply wfL_nonneg; exact H3.
    + rewrite length_at_cons. rewrite Z.eqb_refl.
      rewrite (wfL_notin _ _ _ _ p H3) by lia. lia.
    + intros r Hr. rewrite length_at_cons. destruct (p =? r) eqn:E; [lia|reflexivity].
Qed.

(** the two readings of a well-formed map: (2) and (1) of the header *)
Definition gapfun (m : imap) (r : Z) : Z := length_at (gap_pos m) (get_gap_lengths m) r.

Lemma WF_wfL m : WF m ->
  0 <= parent_length m /\ wfL (-1) (gap_pos m) (get_gap_lengths m) (parent_length m).
Proof.
  intros [H0 H]. split; [assumption|]. unfold get_gap_lengths. apply wf_from_wfL. assumption.
Qed.

Lemma gapfun_nonneg m r : WF m -> 0 <= gapfun m r.
Proof. intros H. destruct (WF_wfL m H) as [_ HL]. eapply wfL_nonneg; exact HL. Qed.

Lemma abs_unprofile m : WF m ->
  abs m = unprofile (P (gapfun m) 0 (Z.to_nat (parent_length m))).
Proof.
  intros H. destruct (WF_wfL m H) as [H0 HL]. unfold abs. rewrite expand_expandL.
  rewrite expandL_unprofile; [|assumption|exact HL].
  unfold gapfun, get_gap_lengths. rewrite Z.sub_0_r. reflexivity.
Qed.

Lemma profile_abs m : WF m ->
  profile (abs m) = P (gapfun m) 0 (Z.to_nat (parent_length m)).
Proof.
  intros H. rewrite abs_unprofile by assumption. apply profile_unprofile.
  - apply P_nonempty.
  - apply P_nonneg. intros r. apply gapfun_nonneg. assumption.
Qed.

(** the form with [zrange]: the number of gap characters in front of residue
    [r], and after the last residue for [r = parent_length m] *)
Lemma profile_abs_zrange m : WF m ->
  profile (abs m) =
  map (fun r => length_at (gap_pos m) (get_gap_lengths m) r) (zrange 0 (parent_length m + 1)).
Proof.
  intros H. rewrite profile_abs by assumption. destruct H as [H0 _].
  rewrite P_zrange by assumption. reflexivity.
Qed.

(** * Part 3: [union1d] *)

Fixpoint ssorted (lo : Z) (l : list Z) : Prop :=
  match l with [] => True | x :: t => lo < x /\ ssorted x t end.

Lemma insert_ssorted x l : forall lo, lo < x -> ssorted lo l -> ssorted lo (insert_sorted_unique x l).
Proof.
  induction l as [|y t IH]; intros lo Hlo H; cbn [insert_sorted_unique].
  - cbn [ssorted]. auto.
  - cbn [ssorted] in H. destruct H as [Hy Ht].
    destruct (x <? y) eqn:E1.
    + cbn [ssorted]. split; [assumption|]. split; [lia|assumption].
    + destruct (x =? y) eqn:E2.
      * cbn [ssorted]. split; assumption.
      * cbn [ssorted]. split; [assumption|]. apply IH; [lia|assumption].
Qed.

Lemma insert_In x l : forall z, In z (insert_sorted_unique x l) <-> z = x \/ In z l.
Proof.
  induction l as [|y t IH]; intros z; cbn [insert_sorted_unique].
  - cbn [In]. intuition.
  - destruct (x <? y) eqn:E1.
    + cbn [In]. intuition.
    + destruct (x =? y) eqn:E2.
      * assert (x = y) by lia. subst y. cbn [In]. intuition.
      * cbn [In]. rewrite IH. intuition.
Qed.

Lemma fold_insert_ssorted lo l : Forall (fun x => lo < x) l ->
  ssorted lo (fold_right insert_sorted_unique [] l).
Proof.
  induction l as [|x l IH]; intros HF; cbn [fold_right].
  - exact I.
  - inversion HF as [|? ? Hx HF']; subst. apply insert_ssorted; [assumption|]. apply IH. assumption.
Qed.

Lemma fold_insert_In l : forall z, In z (fold_right insert_sorted_unique [] l) <-> In z l.
Proof.
  induction l as [|x l IH]; intros z; cbn [fold_right].
  - reflexivity.
  - rewrite insert_In. rewrite IH. cbn [In]. intuition.
Qed.

Lemma union1d_In a b z : In z (union1d a b) <-> In z a \/ In z b.
Proof. unfold union1d. rewrite fold_insert_In. apply in_app_iff. Qed.

Lemma union1d_ssorted lo a b :
  Forall (fun x => lo < x) a -> Forall (fun x => lo < x) b -> ssorted lo (union1d a b).
Proof.
  intros Ha Hb. unfold union1d. apply fold_insert_ssorted. apply Forall_app. split; assumption.
Qed.

Lemma wfL_of_ssorted f plen U : forall pp, ssorted pp U -> pp <= plen ->
  (forall p, In p U -> p <= plen /\ 0 < f p) -> wfL pp U (map f U) plen.
Proof.
  induction U as [|p U IH]; intros pp Hs Hle HU; cbn [map wfL].
  - assumption.
  - cbn [ssorted] in Hs. destruct Hs as [Hp Hs].
    destruct (HU p (or_introl eq_refl)) as [Hpl Hfp].
    split; [assumption|]. split; [assumption|].
    apply IH; [assumption|assumption|]. intros q Hq. apply HU. right. assumption.
Qed.

Lemma wfL_Forall_lo gp pp L plen : wfL pp gp L plen -> Forall (fun x => pp < x) gp.
Proof.
  intros H. apply Forall_forall. intros x Hin.
  destruct (wfL_In _ _ _ _ _ H Hin) as [Ha _]. lia.
Qed.

(** the merged arrays, in the gap-lengths view *)
Lemma merge_wfL gp1 L1 gp2 L2 plen :
  wfL (-1) gp1 L1 plen -> wfL (-1) gp2 L2 plen ->
  let U := union1d gp1 gp2 in
  let GL := map (fun p => length_at gp1 L1 p + length_at gp2 L2 p) U in
  wfL (-1) U GL plen /\
  forall r, length_at U GL r = length_at gp1 L1 r + length_at gp2 L2 r.
Proof.
  intros H1 H2 U GL. split.
  - apply wfL_of_ssorted.
    + apply union1d_ssorted; eapply wfL_Forall_lo; eauto.
    + apply wfL_le in H1. assumption.
    + intros p Hp. apply union1d_In in Hp.
      pose proof (wfL_nonneg _ _ _ _ p H1) as N1. pose proof (wfL_nonneg _ _ _ _ p H2) as N2.
      destruct Hp as [Hp|Hp].
      * destruct (wfL_In _ _ _ _ _ H1 Hp) as [Ha Hb]. lia.
      * destruct (wfL_In _ _ _ _ _ H2 Hp) as [Ha Hb]. lia.
  - intros r. destruct (in_dec Z.eq_dec r U) as [Hin|Hn].
    + unfold GL. rewrite length_at_map by assumption. reflexivity.
    + rewrite length_at_notin by assumption.
      rewrite (length_at_notin gp1), (length_at_notin gp2); [reflexivity| |];
        intros Hin; apply Hn; apply union1d_In; auto.
Qed.

(** * Part 4: the theorem *)

Theorem merge_maps_spec m1 m2 : WF m1 -> WF m2 -> parent_length m1 = parent_length m2 ->
  exists m', merge_maps m1 m2 None = Ok m' /\ WF m' /\ abs m' = mask_merge (abs m1) (abs m2).
Proof.
  intros W1 W2 Hpl.
  destruct (WF_wfL m1 W1) as [H0 HL1]. destruct (WF_wfL m2 W2) as [_ HL2].
  rewrite <- Hpl in HL2.
  destruct (merge_wfL _ _ _ _ _ HL1 HL2) as [HW Hg].
  set (U := union1d (gap_pos m1) (gap_pos m2)) in *.
  set (GL := map (fun p => length_at (gap_pos m1) (get_gap_lengths m1) p +
                           length_at (gap_pos m2) (get_gap_lengths m2) p) U) in *.
  set (plen := parent_length m1) in *.
  exists (mk_imap U (cumsum GL) plen).
  assert (HWF : WF (mk_imap U (cumsum GL) plen)).
  { split; [exact H0|]. cbn [gap_pos cum_gap_lengths parent_length]. unfold cumsum.
    apply wfL_cumsum. exact HW. }
  split; [|split].
  - unfold merge_maps, post_init_lengths. fold U. fold GL. fold plen.
    destruct HWF as [_ HWF]. cbn [gap_pos cum_gap_lengths parent_length] in HWF.
    eapply post_init_wf. exact HWF.
  - exact HWF.
  - unfold mask_merge. rewrite (profile_abs m1 W1), (profile_abs m2 W2).
    rewrite <- Hpl. fold plen. rewrite P_zip.
    unfold abs. cbn [gap_pos cum_gap_lengths parent_length]. unfold cumsum.
    rewrite expand_cumsum. rewrite expandL_unprofile; [|exact H0|exact HW].
    rewrite Z.sub_0_r. f_equal. apply P_ext. intros r _. unfold gapfun. apply Hg.
Qed.

Lemma parent_length_from_mask k : parent_length (from_mask k) = count_res k.
Proof. unfold from_mask. cbn [parent_length]. apply count_true_count_res. Qed.

Theorem merge_from_mask k1 k2 : count_res k1 = count_res k2 ->
  merge_maps (from_mask k1) (from_mask k2) None = Ok (from_mask (mask_merge k1 k2)).
Proof.
  intros Hc.
  destruct (merge_maps_spec (from_mask k1) (from_mask k2)) as (m' & Hm & HW & Ha).
  - apply wf_from_mask.
  - apply wf_from_mask.
  - rewrite !parent_length_from_mask. assumption.
  - rewrite Hm. f_equal. rewrite !abs_from_mask in Ha. rewrite <- Ha.
    symmetry. apply from_mask_abs. assumption.
Qed.

(** the hypotheses are satisfiable by a non-trivial instance, and the
    statement computes there *)
Example merge_maps_example :
  merge_maps (from_mask [true; false; true]) (from_mask [false; true; true; false]) None
  = Ok (from_mask [false; true; false; true; false]).
Proof. apply (merge_from_mask [true; false; true] [false; true; true; false]). reflexivity. Qed.
