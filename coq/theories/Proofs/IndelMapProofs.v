(** C08 — proofs that the IndelMap model agrees with the gap-mask semantics. *)
From CG3 Require Import Lib.PyZ Lib.Val Model.IndelMap Spec.IndelMapSpec.

Local Open Scope Z_scope.

(** * Part 1: Z-indexed list facts *)

Lemma zlen_nonneg {A} (l : list A) : 0 <= zlen l.
Proof. unfold zlen; lia. Qed.

Lemma zlen_nil {A} : zlen (@nil A) = 0.
Proof. reflexivity. Qed.

Lemma zlen_cons {A} (x : A) l : zlen (x :: l) = 1 + zlen l.
Proof. unfold zlen; simpl length; lia. Qed.

Lemma zlen_app {A} (a b : list A) : zlen (a ++ b) = zlen a + zlen b.
Proof. unfold zlen; rewrite app_length; lia. Qed.

Lemma zlen_map {A B} (f : A -> B) l : zlen (map f l) = zlen l.
Proof. unfold zlen; now rewrite map_length. Qed.

Lemma zlen_rev {A} (l : list A) : zlen (rev l) = zlen l.
Proof. unfold zlen; now rewrite rev_length. Qed.

Lemma zlen_repeat {A} (x : A) n : zlen (repeat x n) = Z.of_nat n.
Proof. unfold zlen; now rewrite repeat_length. Qed.

Lemma zlen_0_nil {A} (l : list A) : zlen l = 0 -> l = [].
Proof. destruct l; auto. rewrite zlen_cons. pose proof (zlen_nonneg l). lia. Qed.

Lemma znth_nil {A} (d : A) i : znth d [] i = d.
Proof. unfold znth. destruct (i <? 0); auto. destruct (Z.to_nat i); auto. Qed.

Lemma znth_0 {A} (d : A) x l : znth d (x :: l) 0 = x.
Proof. reflexivity. Qed.

Lemma znth_pos {A} (d : A) x l i : 0 < i -> znth d (x :: l) i = znth d l (i - 1).
Proof.
  intros H. unfold znth.
  destruct (i <? 0) eqn:E1; [lia|]. destruct (i - 1 <? 0) eqn:E2; [lia|].
  replace (Z.to_nat i) with (S (Z.to_nat (i - 1))) by lia. reflexivity.
Qed.

Lemma znth_neg {A} (d : A) l i : i < 0 -> znth d l i = d.
Proof. intros; unfold znth. destruct (i <? 0) eqn:E; auto; lia. Qed.

Lemma znth_beyond {A} (d : A) l i : zlen l <= i -> znth d l i = d.
Proof.
  intros H. unfold znth. pose proof (zlen_nonneg l). destruct (i <? 0) eqn:E; auto.
  apply nth_overflow. unfold zlen in *. lia.
Qed.

Lemma znth_app_l {A} (d : A) a b i : i < zlen a -> znth d (a ++ b) i = znth d a i.
Proof.
  intros H. unfold znth. destruct (i <? 0) eqn:E; auto.
  apply app_nth1. unfold zlen in *. lia.
Qed.

Lemma znth_app_r {A} (d : A) a b i : zlen a <= i -> znth d (a ++ b) i = znth d b (i - zlen a).
Proof.
  intros H. unfold znth. pose proof (zlen_nonneg a).
  destruct (i <? 0) eqn:E; [lia|]. destruct (i - zlen a <? 0) eqn:E2; [lia|].
  rewrite app_nth2 by (unfold zlen in *; lia). f_equal. unfold zlen in *. lia.
Qed.

Lemma znth_map {A B} (f : A -> B) (d : A) (d' : B) l i :
  0 <= i < zlen l -> znth d' (map f l) i = f (znth d l i).
Proof.
  intros H. unfold znth. destruct (i <? 0) eqn:E; [lia|].
  rewrite nth_indep with (d' := f d) by (rewrite map_length; unfold zlen in *; lia).
  apply map_nth.
Qed.

Lemma znth_repeat {A} (d x : A) n i : 0 <= i < Z.of_nat n -> znth d (repeat x n) i = x.
Proof.
  intros H. unfold znth. destruct (i <? 0) eqn:E; [lia|].
  rewrite nth_indep with (d' := x) by (rewrite repeat_length; lia). apply nth_repeat.
Qed.

Lemma znth_rev {A} (d : A) l i : 0 <= i < zlen l -> znth d (rev l) i = znth d l (zlen l - 1 - i).
Proof.
  intros H. unfold znth. destruct (i <? 0) eqn:E; [lia|].
  destruct (zlen l - 1 - i <? 0) eqn:E2; [lia|].
  rewrite rev_nth by (unfold zlen in *; lia). f_equal. unfold zlen in *. lia.
Qed.

(** extensionality on Z indices *)
Lemma list_ext_znth {A} (d : A) (l1 l2 : list A) :
  zlen l1 = zlen l2 -> (forall i, 0 <= i < zlen l1 -> znth d l1 i = znth d l2 i) -> l1 = l2.
Proof.
  intros Hl H. apply nth_ext with (d := d) (d' := d).
  - unfold zlen in Hl. lia.
  - intros n Hn. specialize (H (Z.of_nat n)). unfold znth in H.
    destruct (Z.of_nat n <? 0) eqn:E; [lia|]. rewrite Nat2Z.id in H. apply H. unfold zlen. lia.
Qed.

(** zslice / msub *)
Lemma zslice_msub {A} (l : list A) a b : zslice l a b = msub l a b.
Proof. reflexivity. Qed.

Lemma zlen_firstn {A} (l : list A) n : zlen (firstn n l) = Z.min (Z.of_nat n) (zlen l).
Proof. unfold zlen. rewrite firstn_length. lia. Qed.

Lemma zlen_skipn {A} (l : list A) n : zlen (skipn n l) = Z.max 0 (zlen l - Z.of_nat n).
Proof. unfold zlen. rewrite skipn_length. lia. Qed.

Lemma zlen_zslice {A} (l : list A) a b :
  0 <= a -> a <= b -> b <= zlen l -> zlen (zslice l a b) = b - a.
Proof. intros. unfold zslice. rewrite zlen_firstn, zlen_skipn. lia. Qed.

Lemma nth_firstn_lt {A} (d : A) l : forall n i, (i < n)%nat -> nth i (firstn n l) d = nth i l d.
Proof.
  induction l as [|x l IH]; intros n i H.
  - rewrite firstn_nil. reflexivity.
  - destruct n; [lia|]. destruct i; simpl; auto. apply IH. lia.
Qed.

Lemma nth_skipn' {A} (d : A) l : forall n i, nth i (skipn n l) d = nth (i + n) l d.
Proof.
  induction l as [|x l IH]; intros n i.
  - rewrite skipn_nil. destruct i; destruct n; reflexivity.
  - destruct n; simpl.
    + now rewrite Nat.add_0_r.
    + rewrite IH. now rewrite Nat.add_succ_r.
Qed.

Lemma znth_firstn {A} (d : A) l n i : i < Z.of_nat n -> znth d (firstn n l) i = znth d l i.
Proof.
  intros H. unfold znth. destruct (i <? 0) eqn:E; auto.
  apply nth_firstn_lt. lia.
Qed.

Lemma znth_skipn {A} (d : A) l n i : 0 <= i -> znth d (skipn n l) i = znth d l (i + Z.of_nat n).
Proof.
  intros H. unfold znth. destruct (i <? 0) eqn:E; [lia|]. destruct (i + Z.of_nat n <? 0) eqn:E2; [lia|].
  rewrite nth_skipn'. f_equal. lia.
Qed.

Lemma znth_zslice {A} (d : A) l a b i :
  0 <= a -> 0 <= i < b - a -> znth d (zslice l a b) i = znth d l (a + i).
Proof.
  intros Ha Hi. unfold zslice. rewrite znth_firstn by lia. rewrite znth_skipn by lia. f_equal. lia.
Qed.

Lemma zslice_empty {A} (l : list A) a b : b <= a -> zslice l a b = [].
Proof. intros. unfold zslice. replace (Z.to_nat (b - a)) with O by lia. reflexivity. Qed.

Lemma zslice_cons_pos {A} (h : A) t a b : 0 < a -> zslice (h :: t) a b = zslice t (a - 1) (b - 1).
Proof.
  intros. unfold zslice. replace (Z.to_nat a) with (S (Z.to_nat (a - 1))) by lia.
  simpl skipn. f_equal. lia.
Qed.

Lemma zslice_cons_0 {A} (h : A) t b : 0 < b -> zslice (h :: t) 0 b = h :: zslice t 0 (b - 1).
Proof.
  intros. unfold zslice. simpl skipn. replace (Z.to_nat (b - 0)) with (S (Z.to_nat (b - 1 - 0))) by lia.
  reflexivity.
Qed.

Lemma zslice_nil {A} a b : zslice (@nil A) a b = [].
Proof. unfold zslice. rewrite skipn_nil, firstn_nil. reflexivity. Qed.

Lemma firstn_zslice {A} (l : list A) a b k :
  0 <= k <= b - a -> firstn (Z.to_nat k) (zslice l a b) = zslice l a (a + k).
Proof.
  intros. unfold zslice. rewrite firstn_firstn. f_equal. lia.
Qed.

Lemma zslice_full {A} (l : list A) b : zlen l <= b -> zslice l 0 b = l.
Proof.
  intros. unfold zslice. simpl skipn. apply firstn_all2. unfold zlen in *. lia.
Qed.

Lemma zslice_to_end {A} (l : list A) a b : 0 <= a -> zlen l <= b -> zslice l a b = skipn (Z.to_nat a) l.
Proof.
  intros. unfold zslice. apply firstn_all2. rewrite skipn_length. unfold zlen in *. lia.
Qed.

(** * Part 2: the numpy idioms of the model *)

(* [rewrite zlen_nil] unifies [zlen []] with any literal [0] up to conversion: use [change] *)
Ltac znil := repeat match goal with
  | H : context [zlen (@nil ?A)] |- _ => change (zlen (@nil A)) with 0 in H
  | |- context [zlen (@nil ?A)] => change (zlen (@nil A)) with 0
  end.

Lemma pyget_nonneg l i : 0 <= i -> pyget l i = znth 0 l i.
Proof. intros. unfold pyget. destruct (i <? 0) eqn:E; auto; lia. Qed.

Lemma zlast_znth l : 0 < zlen l -> zlast l = znth 0 l (zlen l - 1).
Proof. intros. unfold zlast, pyget. simpl. f_equal; lia. Qed.

Lemma zlen_add2 a b : zlen (add2 a b) = Z.min (zlen a) (zlen b).
Proof.
  revert b; induction a as [|x a IH]; intros b.
  - simpl. znil. pose proof (zlen_nonneg b). lia.
  - destruct b as [|y b]; simpl add2.
    + znil. rewrite zlen_cons. pose proof (zlen_nonneg a). lia.
    + rewrite !zlen_cons, IH. lia.
Qed.

Lemma znth_add2 a : forall b i, 0 <= i < Z.min (zlen a) (zlen b) ->
  znth 0 (add2 a b) i = znth 0 a i + znth 0 b i.
Proof.
  induction a as [|x a IH]; intros b i H.
  { znil. pose proof (zlen_nonneg b). lia. }
  destruct b as [|y b].
  { znil. rewrite zlen_cons in H. pose proof (zlen_nonneg a). lia. }
  rewrite !zlen_cons in H.
  simpl add2. destruct (Z.eq_dec i 0) as [->|Hi].
  - reflexivity.
  - rewrite !znth_pos by lia. apply IH. lia.
Qed.

Lemma zlen_sub2 a b : zlen (sub2 a b) = Z.min (zlen a) (zlen b).
Proof.
  revert b; induction a as [|x a IH]; intros b.
  - simpl. znil. pose proof (zlen_nonneg b). lia.
  - destruct b as [|y b]; simpl sub2.
    + znil. rewrite zlen_cons. pose proof (zlen_nonneg a). lia.
    + rewrite !zlen_cons, IH. lia.
Qed.

Lemma znth_sub2 a : forall b i, 0 <= i < Z.min (zlen a) (zlen b) ->
  znth 0 (sub2 a b) i = znth 0 a i - znth 0 b i.
Proof.
  induction a as [|x a IH]; intros b i H.
  { znil. pose proof (zlen_nonneg b). lia. }
  destruct b as [|y b].
  { znil. rewrite zlen_cons in H. pose proof (zlen_nonneg a). lia. }
  rewrite !zlen_cons in H.
  simpl sub2. destruct (Z.eq_dec i 0) as [->|Hi].
  - reflexivity.
  - rewrite !znth_pos by lia. apply IH. lia.
Qed.

Lemma zlen_diffs prev l : zlen (diffs_from prev l) = zlen l.
Proof. revert prev; induction l; intros; simpl; rewrite ?zlen_cons, ?IHl; auto. Qed.

Lemma zlen_cumsum_from acc l : zlen (cumsum_from acc l) = zlen l.
Proof. revert acc; induction l; intros; simpl; rewrite ?zlen_cons, ?IHl; auto. Qed.

Lemma zlen_sub_at l : forall i d, zlen (sub_at l i d) = zlen l.
Proof.
  induction l as [|x l IH]; intros; simpl; auto.
  destruct (i =? 0); rewrite !zlen_cons; auto. now rewrite IH.
Qed.

Lemma cumsum_from_diffs acc prev l :
  cumsum_from acc (diffs_from prev l) = map (fun c => c - prev + acc) l.
Proof.
  revert acc prev; induction l as [|x l IH]; intros; simpl; auto.
  f_equal; [lia|]. rewrite IH. apply map_ext. intros; lia.
Qed.

Definition zsum (l : list Z) : Z := fold_right Z.add 0 l.

Lemma znth_cumsum_from l : forall acc j, 0 <= j < zlen l ->
  znth 0 (cumsum_from acc l) j = acc + zsum (firstn (Z.to_nat (j + 1)) l).
Proof.
  induction l as [|x l IH]; intros acc j H.
  - znil. lia.
  - rewrite zlen_cons in H. simpl cumsum_from.
    destruct (Z.eq_dec j 0) as [->|Hj].
    + simpl. rewrite znth_0. lia.
    + rewrite znth_pos by lia. rewrite IH by lia.
      replace (Z.to_nat (j + 1)) with (S (Z.to_nat (j - 1 + 1))) by lia.
      simpl. lia.
Qed.

(** previous cumulative value: [cum[j-1]], [prev] for [j = 0] *)
Definition cpv (prev : Z) (cl : list Z) (j : Z) : Z := if j <=? 0 then prev else znth 0 cl (j - 1).

Lemma zsum_zslice_diffs cl : forall prev x y, 0 <= x -> x <= y -> y <= zlen cl ->
  zsum (zslice (diffs_from prev cl) x y) = cpv prev cl y - cpv prev cl x.
Proof.
  induction cl as [|c cl IH]; intros prev x y Hx Hxy Hy.
  - znil. assert (x = 0) by lia. assert (y = 0) by lia. subst.
    unfold cpv. simpl. lia.
  - rewrite zlen_cons in Hy. simpl diffs_from.
    destruct (Z.eq_dec x 0) as [->|Hx0].
    + destruct (Z.eq_dec y 0) as [->|Hy0].
      * rewrite zslice_empty by lia. simpl. lia.
      * rewrite zslice_cons_0 by lia. simpl zsum. rewrite IH by lia.
        unfold cpv. destruct (y <=? 0) eqn:E1; [lia|]. destruct (y - 1 <=? 0) eqn:E2.
        -- assert (y = 1) by lia. subst. simpl. rewrite ?znth_0. lia.
        -- change (0 <=? 0) with true; cbv iota. rewrite (znth_pos 0 c cl (y - 1)) by lia. lia.
    + rewrite zslice_cons_pos by lia. rewrite IH by lia.
      unfold cpv. destruct (x <=? 0) eqn:E1; [lia|]. destruct (y <=? 0) eqn:E2; [lia|].
      destruct (x - 1 <=? 0) eqn:E3; destruct (y - 1 <=? 0) eqn:E4; try lia.
      * assert (x = 1) by lia. assert (y = 1) by lia. subst. simpl. rewrite ?znth_0. lia.
      * assert (x = 1) by lia. subst. rewrite (znth_pos 0 c cl (y - 1)) by lia. simpl. rewrite ?znth_0. lia.
      * rewrite (znth_pos 0 c cl (y - 1)) by lia. rewrite (znth_pos 0 c cl (x - 1)) by lia. lia.
Qed.

Lemma zsum_zslice_sub_at L : forall i d x y, 0 <= i < zlen L -> 0 <= x -> x <= y ->
  zsum (zslice (sub_at L i d) x y) = zsum (zslice L x y) - (if (x <=? i) && (i <? y) then d else 0).
Proof.
  induction L as [|h L IH]; intros i d x y Hi Hx Hxy.
  - znil. lia.
  - rewrite zlen_cons in Hi. simpl sub_at.
    destruct (i =? 0) eqn:Ei.
    + assert (i = 0) by lia. subst i.
      destruct (Z.eq_dec x 0) as [->|Hx0].
      * destruct (Z.eq_dec y 0) as [->|Hy0].
        -- rewrite !zslice_empty by lia. simpl. lia.
        -- rewrite !zslice_cons_0 by lia. simpl zsum.
           destruct ((0 <=? 0) && (0 <? y)) eqn:E; lia.
      * rewrite !zslice_cons_pos by lia. destruct ((x <=? 0) && (0 <? y)) eqn:E; lia.
    + destruct (Z.eq_dec x 0) as [->|Hx0].
      * destruct (Z.eq_dec y 0) as [->|Hy0].
        -- rewrite !zslice_empty by lia. simpl. destruct ((0 <=? i) && (i <? 0)) eqn:E; lia.
        -- rewrite !zslice_cons_0 by lia. simpl zsum. rewrite IH by lia.
           destruct ((0 <=? i - 1) && (i - 1 <? y - 1)) eqn:E1; destruct ((0 <=? i) && (i <? y)) eqn:E2; lia.
      * rewrite !zslice_cons_pos by lia. rewrite IH by lia.
        destruct ((x - 1 <=? i - 1) && (i - 1 <? y - 1)) eqn:E1; destruct ((x <=? i) && (i <? y)) eqn:E2; lia.
Qed.

(** searchsorted *)
Lemma ss_left_spec l v :
  0 <= ss_left l v <= zlen l /\
  (forall i, 0 <= i < ss_left l v -> znth 0 l i < v) /\
  (ss_left l v < zlen l -> v <= znth 0 l (ss_left l v)).
Proof.
  induction l as [|x l IH]; cbn [ss_left].
  - znil. split; [lia|split]; intros; lia.
  - rewrite zlen_cons. destruct IH as (H1 & H2 & H3). destruct (x <? v) eqn:E.
    + split; [lia|split].
      * intros i Hi. destruct (Z.eq_dec i 0) as [->|Hne]; [rewrite znth_0; lia|].
        rewrite znth_pos by lia. apply H2. lia.
      * intros Hlt. rewrite znth_pos by lia. replace (1 + ss_left l v - 1) with (ss_left l v) by lia.
        apply H3. lia.
    + pose proof (zlen_nonneg l). split; [lia|split]; [intros; lia|]. intros _. rewrite znth_0. lia.
Qed.

Lemma ss_right_spec l v :
  0 <= ss_right l v <= zlen l /\
  (forall i, 0 <= i < ss_right l v -> znth 0 l i <= v) /\
  (ss_right l v < zlen l -> v < znth 0 l (ss_right l v)).
Proof.
  induction l as [|x l IH]; cbn [ss_right].
  - znil. split; [lia|split]; intros; lia.
  - rewrite zlen_cons. destruct IH as (H1 & H2 & H3). destruct (x <=? v) eqn:E.
    + split; [lia|split].
      * intros i Hi. destruct (Z.eq_dec i 0) as [->|Hne]; [rewrite znth_0; lia|].
        rewrite znth_pos by lia. apply H2. lia.
      * intros Hlt. rewrite znth_pos by lia. replace (1 + ss_right l v - 1) with (ss_right l v) by lia.
        apply H3. lia.
    + pose proof (zlen_nonneg l). split; [lia|split]; [intros; lia|]. intros _. rewrite znth_0. lia.
Qed.

(** * Part 3: well-formedness in index form, monotonicity *)

Definition P (m : imap) (j : Z) : Z := znth 0 (gap_pos m) j.
Definition C (m : imap) (j : Z) : Z := znth 0 (cum_gap_lengths m) j.
(** cumulative gap length before gap [j] *)
Definition Cp (m : imap) (j : Z) : Z := cpv 0 (cum_gap_lengths m) j.
(** alignment coordinates of gap [j] *)
Definition gs (m : imap) (j : Z) : Z := P m j + Cp m j.
Definition ge (m : imap) (j : Z) : Z := P m j + C m j.

Lemma wf_from_index gp : forall pp pc cl plen,
  wf_from pp pc gp cl plen <->
  (zlen gp = zlen cl /\
   (zlen gp = 0 -> pp <= plen) /\
   (0 < zlen gp -> pp < znth 0 gp 0 /\ pc < znth 0 cl 0 /\ znth 0 gp (zlen gp - 1) <= plen) /\
   (forall j, 0 <= j -> j + 1 < zlen gp ->
      znth 0 gp j < znth 0 gp (j + 1) /\ znth 0 cl j < znth 0 cl (j + 1))).
Proof.
  induction gp as [|p gp IH]; intros pp pc cl plen.
  - destruct cl as [|c cl]; cbn [wf_from]; znil.
    + split.
      * intros H. split; [reflexivity|]. split; [auto|]. split; intros; lia.
      * intros (_ & H & _). auto.
    + rewrite zlen_cons. pose proof (zlen_nonneg cl). split; [tauto|]. intros (H' & _). lia.
  - destruct cl as [|c cl]; cbn [wf_from].
    + rewrite zlen_cons. znil. pose proof (zlen_nonneg gp). split; [tauto|]. intros (H' & _). lia.
    + rewrite !zlen_cons. rewrite IH. pose proof (zlen_nonneg gp) as Hn. split.
      * intros (Hpp & Hpc & Hl & H0 & H1 & Hs).
        split; [lia|]. split; [lia|]. split.
        -- intros _. rewrite !znth_0. split; [lia|]. split; [lia|].
           destruct (Z.eq_dec (zlen gp) 0) as [E|E].
           ++ rewrite E. replace (1 + 0 - 1) with 0 by lia. rewrite znth_0. auto.
           ++ rewrite znth_pos by lia. replace (1 + zlen gp - 1 - 1) with (zlen gp - 1) by lia.
              apply H1. lia.
        -- intros j Hj Hj1. destruct (Z.eq_dec j 0) as [->|Hne].
           ++ rewrite !znth_0. rewrite !(znth_pos 0 _ _ (0 + 1)) by lia.
              replace (0 + 1 - 1) with 0 by lia. destruct H1 as (A & B & _); [lia|]. lia.
           ++ rewrite !(znth_pos 0 _ _ j) by lia. rewrite !(znth_pos 0 _ _ (j + 1)) by lia.
              replace (j + 1 - 1) with (j - 1 + 1) by lia. apply Hs; lia.
      * intros (Hl & _ & H1 & Hs). destruct H1 as (A & B & D); [lia|]. rewrite !znth_0 in *.
        split; [lia|]. split; [lia|]. split; [lia|]. split; [|split].
        -- intros E. rewrite E in D. replace (1 + 0 - 1) with 0 in D by lia. rewrite znth_0 in D. auto.
        -- intros Hpos. specialize (Hs 0). rewrite !znth_0 in Hs.
           rewrite !(znth_pos 0 _ _ (0 + 1)) in Hs by lia. replace (0 + 1 - 1) with 0 in Hs by lia.
           destruct Hs as (S1 & S2); [lia|lia|]. split; [lia|]. split; [lia|].
           rewrite znth_pos in D by lia. replace (1 + zlen gp - 1 - 1) with (zlen gp - 1) in D by lia. auto.
        -- intros j Hj Hj1. specialize (Hs (j + 1)).
           rewrite !(znth_pos 0 _ _ (j + 1)) in Hs by lia. rewrite !(znth_pos 0 _ _ (j + 1 + 1)) in Hs by lia.
           replace (j + 1 - 1) with j in Hs by lia. replace (j + 1 + 1 - 1) with (j + 1) in Hs by lia.
           apply Hs; lia.
Qed.

Definition WFi (m : imap) : Prop :=
  zlen (gap_pos m) = zlen (cum_gap_lengths m) /\
  0 <= parent_length m /\
  (0 < num_gaps m -> 0 <= P m 0 /\ 0 < C m 0 /\ P m (num_gaps m - 1) <= parent_length m) /\
  (forall j, 0 <= j -> j + 1 < num_gaps m -> P m j < P m (j + 1) /\ C m j < C m (j + 1)).

Lemma WF_WFi m : WF m <-> WFi m.
Proof.
  unfold WF, WFi, num_gaps, P, C. rewrite wf_from_index. split.
  - intros (Hp & Hl & H0 & H1 & Hs). split; [auto|]. split; [auto|]. split; [|auto].
    intros Hn. destruct (H1 Hn) as (A & B & D). lia.
  - intros (Hl & Hp & H1 & Hs). split; [auto|]. split; [auto|]. split; [lia|]. split; [|auto].
    intros Hn. destruct (H1 Hn) as (A & B & D). lia.
Qed.

Section WithWF.
  Variable m : imap.
  Hypothesis Hwf : WFi m.

  Let n := num_gaps m.

  Lemma wfi_len : zlen (cum_gap_lengths m) = n.
  Proof. destruct Hwf as (H & _). unfold n, num_gaps. lia. Qed.

  Lemma wfi_plen : 0 <= parent_length m.
  Proof. destruct Hwf as (_ & H & _). auto. Qed.

  Lemma n_nonneg : 0 <= n.
  Proof. apply zlen_nonneg. Qed.

  Lemma PC_mono i k : 0 <= i -> 0 <= k -> i + 1 + k < n ->
    P m i < P m (i + 1 + k) /\ C m i < C m (i + 1 + k).
  Proof.
    intros Hi Hk. revert k Hk.
    apply (natlike_ind (fun k => i + 1 + k < n -> P m i < P m (i + 1 + k) /\ C m i < C m (i + 1 + k))).
    - intros H. replace (i + 1 + 0) with (i + 1) by lia.
      destruct Hwf as (_ & _ & _ & Hs). apply Hs; fold n; lia.
    - intros k Hk IH H. destruct IH as (A & B); [lia|].
      destruct Hwf as (_ & _ & _ & Hs). destruct (Hs (i + 1 + k)) as (A' & B'); [lia|fold n; lia|].
      replace (i + 1 + Z.succ k) with (i + 1 + k + 1) by lia. lia.
  Qed.

  Lemma P_mono i j : 0 <= i -> i < j -> j < n -> P m i < P m j.
  Proof.
    intros. replace j with (i + 1 + (j - i - 1)) by lia. apply PC_mono; lia.
  Qed.

  Lemma C_mono i j : 0 <= i -> i < j -> j < n -> C m i < C m j.
  Proof.
    intros. replace j with (i + 1 + (j - i - 1)) by lia. apply PC_mono; lia.
  Qed.

  Lemma P_bounds j : 0 <= j < n -> 0 <= P m j <= parent_length m.
  Proof.
    intros H. destruct Hwf as (_ & _ & H1 & _). destruct H1 as (A & B & D); [fold n; lia|]. fold n in D.
    assert (P m 0 <= P m j).
    { destruct (Z.eq_dec j 0) as [->|]; [lia|]. pose proof (P_mono 0 j). lia. }
    assert (P m j <= P m (n - 1)).
    { destruct (Z.eq_dec j (n - 1)) as [->|]; [lia|]. pose proof (P_mono j (n - 1)). lia. }
    lia.
  Qed.

  Lemma C_pos j : 0 <= j < n -> 0 < C m j.
  Proof.
    intros H. destruct Hwf as (_ & _ & H1 & _). destruct H1 as (A & B & D); [fold n; lia|].
    destruct (Z.eq_dec j 0) as [->|]; [lia|]. pose proof (C_mono 0 j). lia.
  Qed.

  Lemma Cp_0 : Cp m 0 = 0.
  Proof. reflexivity. Qed.

  Lemma Cp_succ j : 0 <= j -> Cp m (j + 1) = C m j.
  Proof.
    intros. unfold Cp, cpv, C. destruct (j + 1 <=? 0) eqn:E; [lia|]. f_equal. lia.
  Qed.

  Lemma Cp_pos j : 0 < j -> Cp m j = C m (j - 1).
  Proof.
    intros. unfold Cp, cpv, C. destruct (j <=? 0) eqn:E; [lia|]. reflexivity.
  Qed.

  Lemma Cp_lt_C j : 0 <= j < n -> 0 <= Cp m j < C m j.
  Proof.
    intros H. destruct (Z.eq_dec j 0) as [->|Hne].
    - rewrite Cp_0. pose proof (C_pos 0). lia.
    - rewrite Cp_pos by lia. pose proof (C_pos (j - 1)). pose proof (C_mono (j - 1) j). lia.
  Qed.

  Lemma Cp_mono i j : 0 <= i -> i <= j -> j <= n -> Cp m i <= Cp m j.
  Proof.
    intros Hi Hij Hj. destruct (Z.eq_dec i j) as [->|Hne]; [lia|].
    destruct (Z.eq_dec i 0) as [->|Hi0].
    - rewrite Cp_0. rewrite Cp_pos by lia. pose proof (C_pos (j - 1)). lia.
    - rewrite !Cp_pos by lia. destruct (Z.eq_dec (i - 1) (j - 1)); [lia|].
      pose proof (C_mono (i - 1) (j - 1)). lia.
  Qed.

  Lemma gs_lt_ge j : 0 <= j < n -> 0 <= gs m j < ge m j.
  Proof.
    intros H. unfold gs, ge. pose proof (Cp_lt_C j H). pose proof (P_bounds j H). lia.
  Qed.

  Lemma ge_lt_gs i j : 0 <= i -> i < j -> j < n -> ge m i < gs m j.
  Proof.
    intros. unfold gs, ge. pose proof (P_mono i j). pose proof (Cp_mono (i + 1) j).
    rewrite Cp_succ in * by lia. lia.
  Qed.

  Lemma ge_mono i j : 0 <= i -> i < j -> j < n -> ge m i < ge m j.
  Proof. intros. pose proof (ge_lt_gs i j). pose proof (gs_lt_ge j). lia. Qed.

  Lemma gs_mono i j : 0 <= i -> i < j -> j < n -> gs m i < gs m j.
  Proof. intros. pose proof (ge_lt_gs i j). pose proof (gs_lt_ge i). lia. Qed.

  Lemma zlen_gap_ends : zlen (gap_ends m) = n.
  Proof. unfold gap_ends. rewrite zlen_add2, wfi_len. unfold n, num_gaps. lia. Qed.

  Lemma zlen_gap_starts : zlen (gap_starts m) = n.
  Proof.
    unfold gap_starts. rewrite zlen_add2, zlen_cons, wfi_len. unfold n, num_gaps.
    pose proof (zlen_nonneg (gap_pos m)). lia.
  Qed.

  Lemma znth_gap_ends j : 0 <= j < n -> znth 0 (gap_ends m) j = ge m j.
  Proof.
    intros. unfold gap_ends. rewrite znth_add2; [reflexivity|]. rewrite wfi_len. unfold n, num_gaps in *. lia.
  Qed.

  Lemma znth_gap_starts j : 0 <= j < n -> znth 0 (gap_starts m) j = gs m j.
  Proof.
    intros. unfold gap_starts. rewrite znth_add2.
    - unfold gs, P, Cp, cpv. f_equal. destruct (Z.eq_dec j 0) as [->|Hne].
      + rewrite znth_0. reflexivity.
      + rewrite znth_pos by lia. destruct (j <=? 0) eqn:E; [lia|]. reflexivity.
    - rewrite zlen_cons, wfi_len. unfold n, num_gaps in *. lia.
  Qed.

  Lemma zlast_gap_ends : 0 < n -> zlast (gap_ends m) = ge m (n - 1).
  Proof.
    intros. rewrite zlast_znth by (rewrite zlen_gap_ends; lia). rewrite zlen_gap_ends.
    apply znth_gap_ends. lia.
  Qed.

  Lemma zlast_cum : 0 < n -> zlast (cum_gap_lengths m) = C m (n - 1).
  Proof. intros. rewrite zlast_znth by (rewrite wfi_len; lia). rewrite wfi_len. reflexivity. Qed.

  Lemma zlast_gp : 0 < n -> zlast (gap_pos m) = P m (n - 1).
  Proof. intros. rewrite zlast_znth by (unfold n, num_gaps in *; lia). reflexivity. Qed.

  (** total length *)
  Lemma len_eq : len m = parent_length m + Cp m n.
  Proof.
    unfold len. fold n. destruct (n =? 0) eqn:E.
    - assert (n = 0) by lia. rewrite H. rewrite Cp_0. reflexivity.
    - pose proof n_nonneg. rewrite zlast_cum by lia. rewrite Cp_pos by lia. reflexivity.
  Qed.

  Lemma ge_le_len j : 0 <= j < n -> ge m j <= len m.
  Proof.
    intros. rewrite len_eq. unfold ge. pose proof (P_bounds j H). pose proof (Cp_mono (j + 1) n).
    rewrite Cp_succ in * by lia. lia.
  Qed.

End WithWF.
