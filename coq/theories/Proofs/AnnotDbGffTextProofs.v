(** C17 — the GFF line -> row step (Model/AnnotDbGffText.v): what a well-formed
    line parses to, comment / blank lines, where the ID is found, and the load
    theorems restated from TEXT. *)
From CG3 Require Import Lib.PyZ Model.AnnotDb Model.AnnotDbGff Model.AnnotDbGffText.
From CG3 Require Import Proofs.AnnotDbGffProofs Proofs.AnnotDbGffMergeProofs.

(** a field that [strip] leaves alone *)
Definition clean (f : str) : Prop := lstrip f = f /\ lstrip (rev f) = rev f.

Definition field_ok (f : str) : Prop := ~ In 9 f /\ ~ In 35 f /\ clean f.

Lemma strip_clean f : clean f -> strip f = f.
Proof. intros [H1 H2]. unfold strip, rstrip. rewrite H1, H2. apply rev_involutive. Qed.

Lemma lstrip_app f r : f <> [] -> lstrip f = f -> lstrip (f ++ r) = f ++ r.
Proof.
  destruct f as [|c t]; [congruence|]. intros _ H. cbn [lstrip app] in *.
  destruct (is_ws c) eqn:E; [|reflexivity].
  exfalso. assert (Hl : (length (lstrip t) <= length t)%nat).
  { clear. induction t as [|x t IH]; cbn [lstrip length]; [lia|]. destruct (is_ws x); cbn [length]; lia. }
  rewrite H in Hl. cbn [length] in Hl. lia.
Qed.

Lemma before_hash_clean s : ~ In 35 s -> before_hash s = s.
Proof.
  induction s as [|c t IH]; cbn [before_hash]; intros H; [reflexivity|].
  destruct (c =? 35) eqn:E.
  - exfalso. apply H. left. lia.
  - f_equal. apply IH. intros Hin. apply H. right. exact Hin.
Qed.

Lemma split_on_single d f : ~ In d f -> split_on d f = [f].
Proof.
  induction f as [|c t IH]; cbn [split_on]; intros H; [reflexivity|].
  destruct (c =? d) eqn:E.
  - exfalso. apply H. left. lia.
  - rewrite IH; [reflexivity|]. intros Hin. apply H. right. exact Hin.
Qed.

Lemma split_on_app d f r : ~ In d f -> split_on d (f ++ d :: r) = f :: split_on d r.
Proof.
  induction f as [|c t IH]; cbn [split_on app]; intros H.
  - rewrite Z.eqb_refl. reflexivity.
  - destruct (c =? d) eqn:E.
    + exfalso. apply H. left. lia.
    + rewrite IH; [reflexivity|]. intros Hin. apply H. right. exact Hin.
Qed.

Lemma not_in_app {A} (x : A) a b : ~ In x a -> ~ In x b -> ~ In x (a ++ b).
Proof. intros Ha Hb Hin. apply in_app_or in Hin. tauto. Qed.

Lemma not_in_cons_tab a b : ~ In 35 a -> ~ In 35 b -> ~ In 35 (a ++ 9 :: b).
Proof. intros Ha Hb. apply not_in_app; [exact Ha|]. intros [H|H]; [lia|contradiction]. Qed.

(** the nine columns joined by tabs *)
Definition gff_line (f1 f2 f3 f4 f5 f6 f7 f8 f9 : str) : str :=
  f1 ++ 9 :: f2 ++ 9 :: f3 ++ 9 :: f4 ++ 9 :: f5 ++ 9 :: f6 ++ 9 :: f7 ++ 9 :: f8 ++ 9 :: f9.

(** a well-formed line parses to the row it spells out *)
Lemma parse_line_wellformed f1 f2 f3 f4 f5 f6 f7 f8 f9 s e :
  field_ok f1 -> field_ok f2 -> field_ok f3 -> field_ok f4 -> field_ok f5 ->
  field_ok f6 -> field_ok f7 -> field_ok f8 -> field_ok f9 ->
  f1 <> [] -> f9 <> [] ->
  parse_int f4 = Some s -> parse_int f5 = Some e ->
  parse_line (gff_line f1 f2 f3 f4 f5 f6 f7 f8 f9) =
  PRow {| gl_id := id_of_attrs f9; gl_seqid := f1; gl_biotype := f3; gl_strand := f7;
          gl_attrs := f9; gl_s := s; gl_e := e |}.
Proof.
  intros [T1 [H1 C1]] [T2 [H2 C2]] [T3 [H3 C3]] [T4 [H4 C4]] [T5 [H5 C5]]
         [T6 [H6 C6]] [T7 [H7 C7]] [T8 [H8 C8]] [T9 [H9 C9]] N1 N9 Ps Pe.
  unfold parse_line.
  assert (Hh : before_hash (gff_line f1 f2 f3 f4 f5 f6 f7 f8 f9) = gff_line f1 f2 f3 f4 f5 f6 f7 f8 f9).
  { apply before_hash_clean. unfold gff_line. repeat (apply not_in_cons_tab; [assumption|]). assumption. }
  rewrite Hh.
  assert (Hs : strip (gff_line f1 f2 f3 f4 f5 f6 f7 f8 f9) = gff_line f1 f2 f3 f4 f5 f6 f7 f8 f9).
  { apply strip_clean. split.
    - unfold gff_line. apply lstrip_app; [exact N1|apply C1].
    - assert (Epre : gff_line f1 f2 f3 f4 f5 f6 f7 f8 f9 =
                     (f1 ++ 9 :: f2 ++ 9 :: f3 ++ 9 :: f4 ++ 9 :: f5 ++ 9 :: f6 ++ 9 :: f7 ++ 9 :: f8 ++ [9]) ++ f9).
      { unfold gff_line. repeat (rewrite <- app_assoc; cbn [app]). reflexivity. }
      rewrite Epre, rev_app_distr.
      apply lstrip_app; [|apply C9]. intros E. apply N9. rewrite <- (rev_involutive f9), E. reflexivity. }
  rewrite Hs.
  assert (Hne : gff_line f1 f2 f3 f4 f5 f6 f7 f8 f9 <> []).
  { unfold gff_line. destruct f1; [congruence|discriminate]. }
  destruct (gff_line f1 f2 f3 f4 f5 f6 f7 f8 f9) eqn:El; [congruence|]. rewrite <- El. clear Hne.
  unfold gff_line.
  rewrite !split_on_app by assumption. rewrite split_on_single by assumption.
  cbn [map length Nat.eqb].
  rewrite !strip_clean by assumption.
  rewrite Ps, Pe. reflexivity.
Qed.

(** comment lines and blank lines give no row *)
Lemma parse_comment_line s : parse_line (35 :: s) = PSkip.
Proof. unfold parse_line. cbn [before_hash]. reflexivity. Qed.

Lemma lstrip_all_ws s : forallb is_ws s = true -> lstrip s = [].
Proof.
  induction s as [|c t IH]; cbn [forallb lstrip]; intros H; [reflexivity|].
  apply andb_true_iff in H. destruct H as [H1 H2]. rewrite H1. apply IH. exact H2.
Qed.

Lemma parse_blank_line s : forallb is_ws s = true -> parse_line s = PSkip.
Proof.
  intros H. unfold parse_line.
  assert (Hb : forallb is_ws (before_hash s) = true).
  { revert H. induction s as [|c t IH]; cbn [before_hash forallb]; intros H; [reflexivity|].
    apply andb_true_iff in H. destruct H as [H1 H2]. destruct (c =? 35); [reflexivity|].
    cbn [forallb]. rewrite H1. apply IH. exact H2. }
  unfold strip. rewrite (lstrip_all_ws _ Hb). reflexivity.
Qed.

(** where the ID is found *)
Definition val_ok (v : str) : Prop := v <> [] /\ forallb (fun c => negb ((c =? 59) || is_ws c)) v = true.
Definition ends_val (rest : str) : Prop :=
  match rest with [] => True | c :: _ => (c =? 59) || is_ws c = true end.

Lemma take_val_app v rest : forallb (fun c => negb ((c =? 59) || is_ws c)) v = true -> ends_val rest -> take_val (v ++ rest) = v.
Proof.
  induction v as [|c t IH]; cbn [forallb app take_val]; intros H Hr.
  - destruct rest as [|c r]; [reflexivity|]. cbn [take_val]. unfold ends_val in Hr. rewrite Hr. reflexivity.
  - apply andb_true_iff in H. destruct H as [H1 H2]. apply negb_true_iff in H1. rewrite H1. f_equal. apply IH; assumption.
Qed.

Lemma starts_with_app p r : starts_with p (p ++ r) = true.
Proof. induction p as [|a p IH]; cbn [starts_with app]; [reflexivity|]. rewrite Z.eqb_refl. exact IH. Qed.

Lemma skipn_app_len {A} (p r : list A) : skipn (length p) (p ++ r) = r.
Proof. induction p as [|a p IH]; cbn [length skipn app]; [reflexivity|exact IH]. Qed.

(** ID=<v> preceded by text that holds no capital I (other attributes such as Parent=, Name=, Note=) *)
Lemma id_after_prefix pre v rest :
  ~ In 73 pre -> val_ok v -> ends_val rest ->
  id_of_attrs (pre ++ pat_id ++ v ++ rest) = Some v.
Proof.
  intros Hpre [Hne Hv] Hr. unfold id_of_attrs.
  induction pre as [|c t IH]; cbn [app].
  - cbn [pat_id app find_after]. change (73 :: 68 :: 61 :: v ++ rest) with (pat_id ++ (v ++ rest)).
    rewrite starts_with_app, skipn_app_len, take_val_app by assumption.
    destruct v; [congruence|reflexivity].
  - cbn [find_after]. replace (starts_with pat_id (c :: t ++ pat_id ++ v ++ rest)) with false.
    + apply IH. intros Hin. apply Hpre. right. exact Hin.
    + symmetry. cbn [pat_id starts_with]. destruct (73 =? c) eqn:E; [|reflexivity].
      exfalso. apply Hpre. left. lia.
Qed.

Lemma id_absent a : ~ In 73 a -> id_of_attrs a = None.
Proof.
  unfold id_of_attrs. induction a as [|c t IH]; intros H; [reflexivity|].
  cbn [find_after]. replace (starts_with pat_id (c :: t)) with false.
  - apply IH. intros Hin. apply H. right. exact Hin.
  - symmetry. cbn [pat_id starts_with]. destruct (73 =? c) eqn:E; [|reflexivity]. exfalso. apply H. left. lia.
Qed.

(** ---------- the load theorems from TEXT ---------- *)
Lemma load_text_table N text lines :
  parse_lines (lines_of text) = Some lines ->
  distinct_spans (assign 0 (data_lines lines)) ->
  exists st, load_text N text = Some st /\ st_db st = table_of (assign 0 (data_lines lines)).
Proof.
  intros Hp Hd. unfold load_text. rewrite Hp. cbn [option_map].
  eexists. split; [reflexivity|]. apply load_fixed_table. exact Hd.
Qed.

(** a concrete text: header, a feature of two rows around a comment, an ID-less row with a trailing comment *)
Definition ex_text : str :=
  [35;35;103;102;102;10] ++
  [115;49;9;46;9;67;68;83;9;49;49;9;50;48;9;46;9;43;9;48;9;80;97;114;101;110;116;61;112;59;73;68;61;99;49;10] ++
  [35;32;99;10] ++
  [115;49;9;46;9;67;68;83;9;51;49;9;52;48;9;46;9;43;9;48;9;73;68;61;99;49;10] ++
  [115;50;9;46;9;101;120;111;110;9;53;9;57;9;46;9;45;9;46;9;78;97;109;101;61;120;32;35;32;110;10].

Example ex_text_loads :
  exists lines st,
    parse_lines (lines_of ex_text) = Some lines /\ distinct_spans (assign 0 (data_lines lines)) /\
    load_text 2 ex_text = Some st /\
    map (fun r => (gr_spans r, gr_start r, gr_stop r)) (st_db st) = [([(10, 20); (30, 40)], 10, 40); ([(4, 9)], 4, 9)].
Proof.
  eexists. eexists. split; [vm_compute; reflexivity|]. split.
  - apply distinct_spans_dec. intros n Hn. vm_compute in Hn.
    destruct Hn as [<-|[<-|[<-|[]]]]; vm_compute; repeat constructor; simpl; intuition discriminate.
  - split; vm_compute; reflexivity.
Qed.

(** ---------- several files, from text ---------- *)
Fixpoint parse_files (texts : list str) : option (list (list (option gline))) :=
  match texts with
  | [] => Some []
  | t :: ts =>
      match parse_lines (lines_of t), parse_files ts with
      | Some f, Some fs => Some (f :: fs)
      | _, _ => None
      end
  end.

Lemma load_file_texts_table N texts files :
  parse_files texts = Some files ->
  distinct_spans (assign 0 (data_lines (concat files))) ->
  st_db (load_files true true N files) = table_of (assign 0 (data_lines (concat files))).
Proof. intros _ H. apply load_files_table. exact H. Qed.

(** ---------- children / parents ---------- *)
Lemma like_pct_any s : like [37] s = true.
Proof.
  induction s as [|x s IH]; [reflexivity|].
  cbn [like] in *. rewrite Z.eqb_refl in *. cbn [like]. rewrite IH. apply orb_true_r.
Qed.

Lemma chr_eq_ci_refl c : chr_eq_ci c c = true.
Proof. unfold chr_eq_ci. apply Z.eqb_refl. Qed.

Lemma like_prefix q : forall b, ~ In 37 q -> like (q ++ [37]) (q ++ b) = true.
Proof.
  induction q as [|c q IH]; intros b H; cbn [app].
  - apply like_pct_any.
  - cbn [like]. replace (c =? 37) with false.
    + rewrite chr_eq_ci_refl, orb_true_r. cbn [andb]. apply IH. intros Hin. apply H. right. exact Hin.
    + symmetry. apply Z.eqb_neq. intros E. apply H. left. exact E.
Qed.

Lemma like_leading_pct p a s : like p s = true -> like (37 :: p) (a ++ s) = true.
Proof.
  intros H. induction a as [|x a IH]; cbn [app].
  - cbn [like]. rewrite Z.eqb_refl. destruct s; rewrite H; reflexivity.
  - cbn [like] in *. rewrite Z.eqb_refl in *. rewrite IH. apply orb_true_r.
Qed.

(** a text holding [q] matches %q% *)
Lemma like_contains q a b : ~ In 37 q -> like (wrap_pct q) (a ++ q ++ b) = true.
Proof. intros H. unfold wrap_pct. apply like_leading_pct. apply like_prefix. exact H. Qed.

Lemma children_sound strict q bt db r :
  In r (gff_children strict q bt db) ->
  In r db /\ exists p, row_parent r = Some p /\ like (wrap_pct q) p = true.
Proof.
  unfold gff_children. rewrite filter_In. intros [Hin H]. split; [exact Hin|].
  destruct (row_parent r) as [p|]; [|discriminate]. exists p. split; [reflexivity|].
  apply andb_true_iff in H. destruct H as [H _]. apply andb_true_iff in H. tauto.
Qed.

(** every stored record whose Parent= text holds [q] is among the children of [q] (LIKE rule) *)
Lemma children_complete q db r a b :
  In r db -> row_parent r = Some (a ++ q ++ b) -> ~ In 37 q -> In r (gff_children false q None db).
Proof.
  intros Hin Hp Hq. unfold gff_children. rewrite filter_In. split; [exact Hin|].
  rewrite Hp, like_contains by exact Hq. reflexivity.
Qed.

Lemma split_on_head d s : exists p ps b, split_on d s = p :: ps /\ s = p ++ b.
Proof.
  induction s as [|c t IH]; cbn [split_on].
  - exists [], [], []. split; reflexivity.
  - destruct (c =? d).
    + exists [], (split_on d t), (c :: t). split; reflexivity.
    + destruct IH as [p [ps [b [E Et]]]]. rewrite E. exists (c :: p), ps, b. split; [reflexivity|]. cbn [app]. congruence.
Qed.

Lemma split_on_in d s : forall q, In q (split_on d s) -> exists a b, s = a ++ q ++ b.
Proof.
  induction s as [|c t IH]; cbn [split_on]; intros q H.
  - destruct H as [<-|[]]. exists [], []. reflexivity.
  - destruct (c =? d).
    + destruct H as [<-|H].
      * exists [], (c :: t). reflexivity.
      * destruct (IH q H) as [a [b E]]. exists (c :: a), b. cbn [app]. congruence.
    + destruct (split_on_head d t) as [p [ps [b [E Et]]]]. rewrite E in H, IH.
      destruct H as [<-|H].
      * exists [], b. cbn [app]. congruence.
      * destruct (IH q (or_intror H)) as [a [b' E']]. exists (c :: a), b'. cbn [app]. congruence.
Qed.

Lemma has_pct_false q : has_pct q = false -> ~ In 37 q.
Proof.
  unfold has_pct. intros H Hin.
  assert (existsb (fun c => c =? 37) q = true); [|congruence].
  apply existsb_exists. exists 37. split; [exact Hin|reflexivity].
Qed.

Lemma existsb_str_eqb_In q l : existsb (str_eqb q) l = true <-> In q l.
Proof.
  rewrite existsb_exists. split.
  - intros [x [Hx E]]. apply Proofs.AnnotDbGffProofs.str_eqb_true in E. subst. exact Hx.
  - intros H. exists q. split; [exact H|]. apply Proofs.AnnotDbGffProofs.str_eqb_true. reflexivity.
Qed.

(** the strict rule: the children of [q] are exactly the stored records that
    name [q] in their Parent= list *)
Lemma children_strict_iff q db r :
  has_pct q = false ->
  (In r (gff_children true q None db) <->
   In r db /\ exists p, row_parent r = Some p /\ In q (parent_names p)).
Proof.
  intros Hq. unfold gff_children, parent_names. rewrite filter_In. rewrite Hq. cbn [negb andb].
  split.
  - intros [Hin H]. split; [exact Hin|]. destruct (row_parent r) as [p|]; [|discriminate].
    exists p. split; [reflexivity|]. rewrite andb_true_r in H. apply andb_true_iff in H. destruct H as [_ H].
    apply existsb_str_eqb_In. exact H.
  - intros [Hin [p [Hp Hm]]]. split; [exact Hin|]. rewrite Hp, andb_true_r. apply andb_true_iff. split.
    + destruct (split_on_in 44 p q Hm) as [a [b ->]]. apply like_contains. apply has_pct_false. exact Hq.
    + apply existsb_str_eqb_In. exact Hm.
Qed.

(** the parents returned are stored records whose name is one of the names in the
    Parent= list of a record whose name holds [q] *)
Lemma parents_sound cands db x :
  In x (parents_of cands db) ->
  exists r p nm, In r cands /\ row_parent r = Some p /\ In nm (parent_names p) /\
                 In x db /\ name_is nm (gr_name x) = true.
Proof.
  induction cands as [|r t IH]; cbn [parents_of]; intros H; [contradiction|].
  destruct (row_parent r) as [p|] eqn:Ep; [|contradiction].
  apply in_app_or in H. destruct H as [H|H].
  - apply in_flat_map in H. destruct H as [nm [Hnm Hx]].
    destruct (find (fun x0 => name_is nm (gr_name x0)) db) as [y|] eqn:Ef; [|contradiction].
    destruct Hx as [<-|[]]. apply find_some in Ef. destruct Ef as [Hy Ey].
    exists r, p, nm. repeat split; try assumption. left. reflexivity.
  - destruct (IH H) as [r' [p' [nm [Hr' Hrest]]]]. exists r', p', nm. split; [right; exact Hr'|exact Hrest].
Qed.
