(** C15 — the neighbour-joining selection criterion picks a cherry on every binary tree metric
    (Saitou-Nei / Studier-Keppler), hence nj is consistent. *)
From Coq Require Import QArith Qminmax List Bool Arith ZArith Lia Lqa.
From CG3 Require Import Model.NJ Spec.DistSpec Spec.SplitSpec Proofs.NJProofs Proofs.NJRunProofs Proofs.NJCompleteProofs
     Proofs.UPGMAProofs Proofs.NJQuartetProofs.
Import ListNotations.
Open Scope Q_scope.

(** ------------------------------------------------------------------ counting *)

Lemma cnt_S L p : cnt (S L) p = (cnt L p + (if p L then 1 else 0))%nat.
Proof.
  unfold cnt. rewrite seq_S, filter_app, app_length. cbn [filter plus]. destruct (p L); reflexivity.
Qed.

Lemma cnt_ext L p q : (forall k, (k < L)%nat -> p k = q k) -> cnt L p = cnt L q.
Proof.
  induction L as [|L IH]; intros H; [reflexivity|]. rewrite !cnt_S, IH by (intros; apply H; lia).
  rewrite (H L) by lia. reflexivity.
Qed.

Lemma cnt_mono L p q : (forall k, (k < L)%nat -> p k = true -> q k = true) -> (cnt L p <= cnt L q)%nat.
Proof.
  induction L as [|L IH]; intros H; [reflexivity|]. rewrite !cnt_S.
  assert (cnt L p <= cnt L q)%nat by (apply IH; intros; apply H; [lia|assumption]).
  destruct (p L) eqn:E; [rewrite (H L) by (try lia; assumption); lia|destruct (q L); lia].
Qed.

Lemma cnt_compl L p : (cnt L p + cnt L (fun k => negb (p k)) = L)%nat.
Proof. induction L as [|L IH]; [reflexivity|]. rewrite !cnt_S. destruct (p L); cbn [negb]; lia. Qed.

Lemma cnt_le_L L p : (cnt L p <= L)%nat.
Proof. pose proof (cnt_compl L p). lia. Qed.

Lemma cnt_remove L p k : (k < L)%nat -> p k = true ->
  cnt L p = S (cnt L (fun x => p x && negb (Nat.eqb x k))).
Proof.
  induction L as [|L IH]; intros Hk Hp; [lia|]. rewrite !cnt_S.
  destruct (Nat.eq_dec k L) as [->|Hn].
  - rewrite Hp, Nat.eqb_refl, andb_false_r.
    rewrite (cnt_ext L (fun x => p x && negb (Nat.eqb x L)) p).
    + lia.
    + intros x Hx. destruct (Nat.eqb_spec x L); [lia|]. rewrite andb_true_r. reflexivity.
  - rewrite IH by (try lia; assumption). destruct (Nat.eqb_spec L k); [congruence|]. rewrite andb_true_r. lia.
Qed.

Lemma cnt_pos L p k : (k < L)%nat -> p k = true -> (1 <= cnt L p)%nat.
Proof. intros Hk Hp. rewrite (cnt_remove L p k Hk Hp). lia. Qed.

Lemma cnt_ge2 L p k k' : (k < L)%nat -> (k' < L)%nat -> k <> k' -> p k = true -> p k' = true -> (2 <= cnt L p)%nat.
Proof.
  intros Hk Hk' Hne Hp Hp'. rewrite (cnt_remove L p k Hk Hp).
  assert (1 <= cnt L (fun x => p x && negb (Nat.eqb x k)))%nat; [|lia].
  apply (cnt_pos L _ k' Hk'). rewrite Hp'. destruct (Nat.eqb_spec k' k); [congruence|reflexivity].
Qed.

Lemma cnt_ex L p : (1 <= cnt L p)%nat -> exists k, (k < L)%nat /\ p k = true.
Proof.
  induction L as [|L IH]; intros H; [cbn in H; lia|]. rewrite cnt_S in H.
  destruct (p L) eqn:E; [exists L; split; [lia|exact E]|].
  destruct IH as (k & Hk & Hp); [lia|]. exists k. split; [lia|exact Hp].
Qed.

Lemma cnt_strict L p q k : (forall x, (x < L)%nat -> p x = true -> q x = true) ->
  (k < L)%nat -> q k = true -> p k = false -> (cnt L p < cnt L q)%nat.
Proof.
  intros Hsub Hk Hq Hp. rewrite (cnt_remove L q k Hk Hq).
  assert (cnt L p <= cnt L (fun x => q x && negb (Nat.eqb x k)))%nat; [|lia].
  apply cnt_mono. intros x Hx Hpx. rewrite (Hsub x Hx Hpx).
  destruct (Nat.eqb_spec x k); [congruence|reflexivity].
Qed.

Lemma cnt_one_unique L p k k' : cnt L p = 1%nat -> (k < L)%nat -> (k' < L)%nat -> p k = true -> p k' = true -> k = k'.
Proof.
  intros H1 Hk Hk' Hp Hp'. destruct (Nat.eq_dec k k'); [assumption|].
  pose proof (cnt_ge2 L p k k' Hk Hk' n Hp Hp'). lia.
Qed.

(** sides *)
Lemma side_pos L s x : (x < L)%nat -> (1 <= side L s x)%nat.
Proof. intros Hx. apply (cnt_pos L _ x Hx). apply eqb_reflx. Qed.

Lemma side_le L s x : (side L s x <= L)%nat.
Proof. apply cnt_le_L. Qed.

Lemma side_same L s x y : s x = s y -> side L s x = side L s y.
Proof. intros E. unfold side. rewrite E. reflexivity. Qed.

Lemma side_opp L s x y : s x <> s y -> (side L s x + side L s y = L)%nat.
Proof.
  intros E. unfold side. pose proof (cnt_compl L (fun k => Bool.eqb (s k) (s x))) as H.
  rewrite (cnt_ext L (fun k => Bool.eqb (s k) (s y)) (fun k => negb (Bool.eqb (s k) (s x)))); [exact H|].
  intros k _. destruct (s k), (s x), (s y); try reflexivity; congruence.
Qed.

Lemma proper_sides L s x : proper L s -> (x < L)%nat -> (side L s x < L)%nat.
Proof.
  intros (k & k' & Hk & Hk' & Hne) Hx.
  assert (exists z, (z < L)%nat /\ s z <> s x) as (z & Hz & Hzx).
  { destruct (bool_dec (s k) (s x)); [exists k'; split; [assumption|congruence]|exists k; auto]. }
  pose proof (side_opp L s x z (not_eq_sym Hzx)). pose proof (side_pos L s z Hz). lia.
Qed.

(** ------------------------------------------------------------------ sums *)

Lemma qsumf_ext {A} (f g : A -> Q) l : (forall x, In x l -> f x == g x) -> qsum (map f l) == qsum (map g l).
Proof.
  induction l as [|x l IH]; intros H; cbn [map qsum fold_right]; [reflexivity|].
  rewrite (H x) by (left; reflexivity). fold (qsum (map f l)) (qsum (map g l)). rewrite IH; [reflexivity|].
  intros; apply H; right; assumption.
Qed.

Lemma qsumf_plus {A} (f g : A -> Q) l : qsum (map (fun x => f x + g x) l) == qsum (map f l) + qsum (map g l).
Proof. induction l as [|x l IH]; cbn [map qsum fold_right]; [ring|]. fold (qsum (map (fun x => f x + g x) l)) (qsum (map f l)) (qsum (map g l)). rewrite IH. ring. Qed.

Lemma qsumf_scal {A} c (f : A -> Q) l : qsum (map (fun x => c * f x) l) == c * qsum (map f l).
Proof. induction l as [|x l IH]; cbn [map qsum fold_right]; [ring|]. fold (qsum (map (fun x => c * f x) l)) (qsum (map f l)). rewrite IH. ring. Qed.

Lemma qsumf_zero {A} (l : list A) : qsum (map (fun _ => 0) l) == 0.
Proof. induction l as [|x l IH]; cbn [map qsum fold_right]; [reflexivity|]. fold (qsum (map (fun _ : A => 0) l)). rewrite IH. ring. Qed.

Lemma qsumf_swap {A B} (g : A -> B -> Q) la lb :
  qsum (map (fun a => qsum (map (g a) lb)) la) == qsum (map (fun b => qsum (map (fun a => g a b) la)) lb).
Proof.
  induction la as [|a la IH]; cbn [map qsum fold_right].
  - symmetry. apply qsumf_zero.
  - fold (qsum (map (fun a => qsum (map (g a) lb)) la)). rewrite IH, <- qsumf_plus. apply qsumf_ext. intros b _. reflexivity.
Qed.

Lemma qsumf_le {A} (f g : A -> Q) l : (forall x, In x l -> f x <= g x) -> qsum (map f l) <= qsum (map g l).
Proof.
  induction l as [|x l IH]; intros H; cbn [map qsum fold_right]; [apply Qle_refl|].
  fold (qsum (map f l)) (qsum (map g l)).
  apply Qplus_le_compat; [apply H; left; reflexivity|apply IH; intros; apply H; right; assumption].
Qed.

Lemma qsumf_lt {A} (f g : A -> Q) l x0 : (forall x, In x l -> f x <= g x) -> In x0 l -> f x0 < g x0 ->
  qsum (map f l) < qsum (map g l).
Proof.
  induction l as [|x l IH]; intros H Hin Hlt; [destruct Hin|]. cbn [map qsum fold_right].
  fold (qsum (map f l)) (qsum (map g l)).
  assert (Hrest : qsum (map f l) <= qsum (map g l)) by (apply qsumf_le; intros; apply H; right; assumption).
  destruct Hin as [->|Hin].
  - lra.
  - assert (qsum (map f l) < qsum (map g l)) by (apply IH; [intros; apply H; right; assumption|assumption|assumption]).
    pose proof (H x (or_introl eq_refl)). lra.
Qed.

Lemma qsum_cons x l : qsum (x :: l) = x + qsum l.
Proof. reflexivity. Qed.

Lemma qsumf_filter {A} (p : A -> bool) (f : A -> Q) l :
  qsum (map f l) == qsum (map f (filter p l)) + qsum (map f (filter (fun x => negb (p x)) l)).
Proof.
  induction l as [|x l IH]; [cbn; ring|]. cbn [map filter]. rewrite qsum_cons, IH.
  destruct (p x); cbn [negb map]; rewrite qsum_cons; ring.
Qed.

Lemma qnat_plus a b : qnat (a + b) == qnat a + qnat b.
Proof. unfold qnat. rewrite Nat2Z.inj_add, inject_Z_plus. reflexivity. Qed.

Lemma qnat_le a b : (a <= b)%nat -> qnat a <= qnat b.
Proof. intros H. unfold qnat. rewrite <- Zle_Qle. lia. Qed.

Lemma qnat_lt a b : (a < b)%nat -> qnat a < qnat b.
Proof. intros H. unfold qnat. rewrite <- Zlt_Qlt. lia. Qed.

Lemma qsum_b2q L p : qsum (map (fun k => b2q (p k)) (seq 0 L)) == qnat (cnt L p).
Proof.
  induction L as [|L IH]; [reflexivity|]. rewrite seq_S, map_app, cnt_S. cbn [map].
  assert (E : forall l x, qsum (l ++ [x]) == qsum l + x).
  { induction l as [|y l IHl]; intros x; cbn [app qsum fold_right]; [ring|]. fold (qsum (l ++ [x])) (qsum l). rewrite IHl. ring. }
  rewrite E, IH, qnat_plus. change (0 + L)%nat with L. destruct (p L); cbn [b2q]; reflexivity.
Qed.

(** weighted sums over splits *)
Lemma wsum_ext E f g : (forall e, In e E -> f e == g e) -> wsum E f == wsum E g.
Proof. intros H. unfold wsum. apply qsumf_ext. intros e He. rewrite (H e He). reflexivity. Qed.

Lemma wsum_le E f g : (forall e, In e E -> 0 < wt e) -> (forall e, In e E -> f e <= g e) -> wsum E f <= wsum E g.
Proof.
  intros Hw H. unfold wsum. apply qsumf_le. intros e He. rewrite !(Qmult_comm (wt e)).
  apply Qmult_le_compat_r; [apply H; exact He|apply Qlt_le_weak, Hw; exact He].
Qed.

Lemma wsum_lt E f g e0 : (forall e, In e E -> 0 < wt e) -> (forall e, In e E -> f e <= g e) ->
  In e0 E -> f e0 < g e0 -> wsum E f < wsum E g.
Proof.
  intros Hw H Hin Hlt. unfold wsum. apply (qsumf_lt _ _ E e0).
  - intros e He. rewrite !(Qmult_comm (wt e)). apply Qmult_le_compat_r; [apply H; exact He|apply Qlt_le_weak, Hw; exact He].
  - exact Hin.
  - rewrite !(Qmult_comm (wt e0)). apply Qmult_lt_compat_r; [apply Hw; exact Hin|exact Hlt].
Qed.

Lemma wsum_comb E N f gx gy c :
  (forall e, In e E -> N * f e - gx e - gy e == -(2#1) * c e) ->
  N * wsum E f - wsum E gx - wsum E gy == -(2#1) * wsum E c.
Proof.
  unfold wsum. induction E as [|e E IH]; intros H; cbn [map qsum fold_right]; [ring|].
  fold (qsum (map (fun e => wt e * f e) E)) (qsum (map (fun e => wt e * gx e) E))
       (qsum (map (fun e => wt e * gy e) E)) (qsum (map (fun e => wt e * c e) E)).
  set (Sf := qsum (map (fun e => wt e * f e) E)) in *. set (Sx := qsum (map (fun e => wt e * gx e) E)) in *.
  set (Sy := qsum (map (fun e => wt e * gy e) E)) in *. set (Sc := qsum (map (fun e => wt e * c e) E)) in *.
  assert (IH' : N * Sf - Sx - Sy == -(2#1) * Sc) by (apply IH; intros; apply H; right; assumption).
  assert (He : N * f e - gx e - gy e == -(2#1) * c e) by (apply H; left; reflexivity).
  assert (E1 : N * (wt e * f e + Sf) - (wt e * gx e + Sx) - (wt e * gy e + Sy)
               == wt e * (N * f e - gx e - gy e) + (N * Sf - Sx - Sy)) by ring.
  rewrite E1, He, IH'. ring.
Qed.

(** ------------------------------------------------------------------ the NJ score in terms of splits *)

(** per split: 1 if it separates x and y, else the size of the side not containing them *)
Definition cc (L : nat) (s : nat -> bool) (x y : nat) : nat :=
  if Bool.eqb (s x) (s y) then (L - side L s x)%nat else 1%nat.
Definition Ssum (L : nat) (E : list split) (x y : nat) : Q := wsum E (fun e => qnat (cc L (sg e) x y)).

Lemma colsum_splits L E d x : rep L E d -> (x < L)%nat ->
  colsum L d x == wsum E (fun e => qnat (L - side L (sg e) x)).
Proof.
  intros Hrep Hx. unfold colsum.
  rewrite (qsumf_ext _ (fun k => wsum E (fun e => b2q (sepb (sg e) k x)))).
  2:{ intros k Hk. apply in_seq in Hk. apply Hrep; lia. }
  unfold wsum. rewrite qsumf_swap. apply qsumf_ext. intros e _.
  rewrite qsumf_scal. apply Qmult_comp; [reflexivity|].
  unfold sepb. rewrite qsum_b2q.
  pose proof (cnt_compl L (fun k => Bool.eqb (sg e k) (sg e x))) as Hc. unfold side.
  replace (cnt L (fun k => negb (Bool.eqb (sg e k) (sg e x)))) with (L - cnt L (fun k => Bool.eqb (sg e k) (sg e x)))%nat by lia.
  reflexivity.
Qed.

Lemma score_as_S t E x y : (3 <= pt_L t)%nat -> rep (pt_L t) E (pt_d t) -> (x < pt_L t)%nat -> (y < pt_L t)%nat ->
  score_matrix t x y ==
  qsum (map (colsum (pt_L t) (pt_d t)) (seq 0 (pt_L t))) / (ofnat (pt_L t) - 2) / 2 + pt_score t
  - Ssum (pt_L t) E x y / (ofnat (pt_L t) - 2).
Proof.
  intros HL Hrep Hx Hy. unfold score_matrix. cbv zeta.
  set (L := pt_L t) in *. set (d := pt_d t) in *. set (N := ofnat L - 2).
  assert (HN : ~ N == 0) by (apply ofnat_minus2_nz; exact HL).
  assert (Hkey : N * d x y - colsum L d x - colsum L d y == -(2#1) * Ssum L E x y).
  { rewrite (Hrep x y Hx Hy), (colsum_splits L E d x Hrep Hx), (colsum_splits L E d y Hrep Hy).
    unfold Ssum. apply wsum_comb. intros e _. unfold cc, sepb.
    destruct (Bool.eqb (sg e x) (sg e y)) eqn:Eq; cbn [negb b2q].
    - apply eqb_prop in Eq. rewrite (side_same L (sg e) y x) by (symmetry; exact Eq). ring.
    - apply eqb_false_iff in Eq. pose proof (side_opp L (sg e) x y Eq) as Ho.
      pose proof (side_le L (sg e) x). pose proof (side_le L (sg e) y).
      assert (En : ((L - side L (sg e) x) + (L - side L (sg e) y) = L)%nat) by lia.
      assert (Eq2 : qnat (L - side L (sg e) x) + qnat (L - side L (sg e) y) == qnat L) by (rewrite <- qnat_plus, En; reflexivity).
      unfold N, ofnat. change (inject_Z (Z.of_nat L)) with (qnat L). change (qnat 1) with 1. lra. }
  assert (Erx : colsum L d x == N * d x y + (2#1) * Ssum L E x y - colsum L d y) by lra.
  rewrite Erx. field. exact HN.
Qed.

(** ------------------------------------------------------------------ the exchange argument *)

Lemma compat_fourth L s t a b k1 k2 k3 k : compat L s t ->
  (k1 < L)%nat -> s k1 = a -> t k1 = b ->
  (k2 < L)%nat -> s k2 = a -> t k2 = negb b ->
  (k3 < L)%nat -> s k3 = negb a -> t k3 = b ->
  (k < L)%nat -> s k = negb a -> t k = negb b -> False.
Proof.
  intros (a' & b' & H) H1 S1 T1 H2 S2 T2 H3 S3 T3 Hk Sk Tk.
  destruct a, b, a', b'; cbn [negb] in *;
    first [exact (H k1 H1 (conj S1 T1)) | exact (H k2 H2 (conj S2 T2)) | exact (H k3 H3 (conj S3 T3)) | exact (H k Hk (conj Sk Tk))].
Qed.

Lemma bool_neq_negb (a b : bool) : a <> b -> a = negb b.
Proof. destruct a, b; intros H; try reflexivity; congruence. Qed.

Lemma list_min {A} (f : A -> nat) (l : list A) : l <> [] -> exists x, In x l /\ forall y, In y l -> (f x <= f y)%nat.
Proof.
  induction l as [|a l IH]; intros H; [congruence|]. destruct l as [|b l].
  - exists a. split; [left; reflexivity|]. intros y [<-|[]]. lia.
  - destruct IH as (x & Hx & Hmin); [discriminate|].
    destruct (le_lt_dec (f a) (f x)).
    + exists a. split; [left; reflexivity|]. intros y [<-|Hy]; [lia|]. specialize (Hmin y Hy). lia.
    + exists x. split; [right; exact Hx|]. intros y [<-|Hy]; [lia|apply Hmin; exact Hy].
Qed.

Lemma cc_sym L s x y : cc L s x y = cc L s y x.
Proof.
  unfold cc. destruct (Bool.eqb (s x) (s y)) eqn:E.
  - apply eqb_prop in E. rewrite E, eqb_reflx. rewrite (side_same L s x y E). reflexivity.
  - rewrite eqb_false_iff in E. destruct (Bool.eqb (s y) (s x)) eqn:E'; [apply eqb_prop in E'; congruence|reflexivity].
Qed.

Section Exchange.
  Variables (L : nat) (E : list split).
  Hypothesis Hss : split_sys L E.

  Lemma cc_ge1 e x : In e E -> (x < L)%nat -> forall y, (1 <= cc L (sg e) x y)%nat.
  Proof.
    intros He Hx y. unfold cc. destruct (Bool.eqb (sg e x) (sg e y)); [|lia].
    pose proof (proper_sides L (sg e) x (ss_proper L E Hss e He) Hx). lia.
  Qed.

  Lemma Ssum_sym x y : Ssum L E x y == Ssum L E y x.
  Proof. unfold Ssum. apply wsum_ext. intros e _. rewrite cc_sym. reflexivity. Qed.

  Section Core.
    Variables (i j : nat) (e0 : split).
    Hypothesis Hi : (i < L)%nat. Hypothesis Hj : (j < L)%nat.
    Hypothesis He0 : In e0 E.
    Hypothesis Hsep : sg e0 i <> sg e0 j.
    Hypothesis HA : (2 <= side L (sg e0) i)%nat.
    Hypothesis HB : (2 <= side L (sg e0) j)%nat.
    Hypothesis Hhalf : (2 * side L (sg e0) i <= L)%nat.

    Let s0 := sg e0.
    Let inA (k : nat) : bool := Bool.eqb (s0 k) (s0 i).

    (** a split with i, j on one side that cuts off a member of A cuts off only members of A *)
    Lemma D_sub e m : In e E -> sg e i = sg e j -> (m < L)%nat -> inA m = true -> sg e m <> sg e i ->
      forall k, (k < L)%nat -> sg e k <> sg e i -> inA k = true.
    Proof.
      intros He Hij Hm HmA Hmi k Hk Hki. unfold inA in *. apply eqb_prop in HmA.
      destruct (Bool.eqb (s0 k) (s0 i)) eqn:Ek; [reflexivity|]. exfalso. apply eqb_false_iff in Ek.
      apply (compat_fourth L (sg e) s0 (sg e i) (s0 i) i j m k (ss_compat L E Hss e e0 He He0)); try assumption; try reflexivity.
      - symmetry. exact Hij.
      - apply bool_neq_negb. intros H. apply Hsep. symmetry. exact H.
      - apply bool_neq_negb. exact Hmi.
      - apply bool_neq_negb. exact Hki.
      - apply bool_neq_negb. exact Ek.
    Qed.

    Lemma A_minus_i : cnt L (fun k => inA k && negb (Nat.eqb k i)) = (side L s0 i - 1)%nat.
    Proof.
      pose proof (cnt_remove L inA i Hi (eqb_reflx _)) as H. unfold side. fold inA. lia.
    Qed.

    Lemma D_small e m : In e E -> sg e i = sg e j -> (m < L)%nat -> inA m = true -> sg e m <> sg e i ->
      (L - side L (sg e) i <= side L s0 i - 1)%nat.
    Proof.
      intros He Hij Hm HmA Hmi. rewrite <- A_minus_i.
      pose proof (cnt_compl L (fun k => Bool.eqb (sg e k) (sg e i))) as Hc. unfold side at 1.
      replace (L - cnt L (fun k => Bool.eqb (sg e k) (sg e i)))%nat with (cnt L (fun k => negb (Bool.eqb (sg e k) (sg e i)))) by lia.
      apply cnt_mono. intros k Hk Hneg. apply negb_true_iff, eqb_false_iff in Hneg.
      rewrite (D_sub e m He Hij Hm HmA Hmi k Hk Hneg). destruct (Nat.eqb_spec k i) as [->|]; [congruence|reflexivity].
    Qed.

    (** a pair (m, n) inside A \ {i}, not separated by any non-trivial split that keeps i, j together, beats (i, j) *)
    Lemma pair_beats m n : (m < L)%nat -> (n < L)%nat -> m <> n -> inA m = true -> inA n = true ->
      (forall e, In e E -> sg e i = sg e j -> sg e m <> sg e n -> (L - side L (sg e) i <= 1)%nat) ->
      Ssum L E i j < Ssum L E m n.
    Proof.
      intros Hm Hn Hmn HmA HnA Hstar. unfold Ssum. apply (wsum_lt E _ _ e0 (ss_pos L E Hss)).
      - intros e He. apply qnat_le. unfold cc at 1.
        destruct (Bool.eqb (sg e i) (sg e j)) eqn:Eij; [|apply cc_ge1; assumption].
        apply eqb_prop in Eij. unfold cc.
        destruct (Bool.eqb (sg e m) (sg e n)) eqn:Emn.
        + apply eqb_prop in Emn. destruct (bool_dec (sg e m) (sg e i)) as [Emi|Nmi].
          * rewrite (side_same L (sg e) m i Emi). lia.
          * pose proof (D_small e m He Eij Hm HmA Nmi). pose proof (side_opp L (sg e) m i Nmi).
            pose proof Hhalf as Hh. fold s0 in Hh. lia.
        + apply eqb_false_iff in Emn. apply Hstar; assumption.
      - exact He0.
      - apply qnat_lt. unfold cc. fold s0.
        destruct (Bool.eqb (s0 i) (s0 j)) eqn:Eij; [apply eqb_prop in Eij; contradiction|].
        unfold inA in HmA, HnA. apply eqb_prop in HmA. apply eqb_prop in HnA.
        replace (Bool.eqb (s0 m) (s0 n)) with true by (symmetry; apply eqb_true_iff; congruence).
        rewrite (side_same L s0 m i HmA). pose proof (side_opp L s0 i j Hsep). fold s0 in HB. lia.
    Qed.

    Lemma exch_core : exists x y, (x < L)%nat /\ (y < L)%nat /\ x <> y /\ Ssum L E i j < Ssum L E x y.
    Proof.
      pose proof A_minus_i as HAm. fold s0 in HA.
      destruct (Nat.eq_dec (side L s0 i) 2) as [A2|A3].
      - (* A = {i, m}: (i, m) is a cherry candidate that beats (i, j) *)
        destruct (cnt_ex L (fun k => inA k && negb (Nat.eqb k i))) as (m & Hm & Hpm); [lia|].
        apply andb_true_iff in Hpm. destruct Hpm as [HmA Hmi]. apply negb_true_iff, Nat.eqb_neq in Hmi.
        exists i, m. split; [exact Hi|]. split; [exact Hm|]. split; [congruence|].
        unfold Ssum. apply (wsum_lt E _ _ e0 (ss_pos L E Hss)).
        + intros e He. apply qnat_le. unfold cc at 1.
          destruct (Bool.eqb (sg e i) (sg e j)) eqn:Eij; [|apply cc_ge1; assumption].
          apply eqb_prop in Eij. unfold cc.
          destruct (Bool.eqb (sg e i) (sg e m)) eqn:Eim; [lia|]. apply eqb_false_iff in Eim.
          pose proof (D_small e m He Eij Hm HmA (not_eq_sym Eim)). lia.
        + exact He0.
        + apply qnat_lt. unfold cc. fold s0.
          destruct (Bool.eqb (s0 i) (s0 j)) eqn:Eij; [apply eqb_prop in Eij; contradiction|].
          unfold inA in HmA. apply eqb_prop in HmA.
          replace (Bool.eqb (s0 i) (s0 m)) with true by (symmetry; apply eqb_true_iff; congruence).
          pose proof (side_opp L s0 i j Hsep). fold s0 in HB. lia.
      - (* |A| >= 3 *)
        set (Fb := fun e : split => Bool.eqb (sg e i) (sg e j) && Nat.leb 2 (L - side L (sg e) i)
                                    && existsb (fun k => inA k && negb (Bool.eqb (sg e k) (sg e i))) (seq 0 L)).
        destruct (filter Fb E) as [|f0 rest] eqn:EF.
        + (* no such split: any two members of A \ {i} *)
          destruct (cnt_ex L (fun k => inA k && negb (Nat.eqb k i))) as (m & Hm & Hpm); [lia|].
          pose proof (cnt_remove L (fun k => inA k && negb (Nat.eqb k i)) m Hm Hpm) as Hrm.
          destruct (cnt_ex L (fun x => (inA x && negb (Nat.eqb x i)) && negb (Nat.eqb x m))) as (n & Hn & Hpn); [lia|].
          apply andb_true_iff in Hpm. destruct Hpm as [HmA Hmi].
          apply andb_true_iff in Hpn. destruct Hpn as [Hpn Hnm]. apply andb_true_iff in Hpn. destruct Hpn as [HnA Hni].
          apply negb_true_iff, Nat.eqb_neq in Hnm.
          exists m, n. split; [exact Hm|]. split; [exact Hn|]. split; [congruence|].
          apply pair_beats; try assumption; [congruence|].
          intros e He Eij Emn.
          assert (HnF : Fb e = false).
          { destruct (Fb e) eqn:EFb; [|reflexivity]. exfalso.
            assert (In e (filter Fb E)) by (apply filter_In; auto). rewrite EF in H. destruct H. }
          unfold Fb in HnF. rewrite (proj2 (eqb_true_iff _ _) Eij) in HnF. cbn [andb] in HnF.
          destruct (Nat.leb 2 (L - side L (sg e) i)) eqn:E2; [|apply Nat.leb_gt in E2; lia]. cbn [andb] in HnF.
          exfalso. assert (existsb (fun k => inA k && negb (Bool.eqb (sg e k) (sg e i))) (seq 0 L) = true); [|congruence].
          apply existsb_exists.
          destruct (bool_dec (sg e m) (sg e i)) as [Emi|Nmi].
          * exists n. split; [apply in_seq; lia|]. rewrite HnA. cbn [andb]. apply negb_true_iff, eqb_false_iff. congruence.
          * exists m. split; [apply in_seq; lia|]. rewrite HmA. cbn [andb]. apply negb_true_iff, eqb_false_iff. exact Nmi.
        + (* a minimal such split e*: two members of the side it cuts off *)
          destruct (list_min (fun e => (L - side L (sg e) i)%nat) (filter Fb E)) as (es & Hes & Hmin); [rewrite EF; discriminate|].
          apply filter_In in Hes. destruct Hes as [HesE HFes]. unfold Fb in HFes.
          apply andb_true_iff in HFes. destruct HFes as [HFes Hex]. apply andb_true_iff in HFes. destruct HFes as [Eij_s H2s].
          apply eqb_prop in Eij_s. apply Nat.leb_le in H2s.
          apply existsb_exists in Hex. destruct Hex as (z0 & Hz0 & Hz0p). apply in_seq in Hz0.
          apply andb_true_iff in Hz0p. destruct Hz0p as [Hz0A Hz0D]. apply negb_true_iff, eqb_false_iff in Hz0D.
          set (pD := fun k => negb (Bool.eqb (sg es k) (sg es i))).
          assert (HcD : cnt L pD = (L - side L (sg es) i)%nat).
          { pose proof (cnt_compl L (fun k => Bool.eqb (sg es k) (sg es i))) as Hc. cbv beta in Hc. unfold side, pD. lia. }
          destruct (cnt_ex L pD) as (m & Hm & Hpm); [lia|].
          pose proof (cnt_remove L pD m Hm Hpm) as Hrm.
          destruct (cnt_ex L (fun x => pD x && negb (Nat.eqb x m))) as (n & Hn & Hpn); [lia|].
          apply andb_true_iff in Hpn. destruct Hpn as [HnD Hnm]. apply negb_true_iff, Nat.eqb_neq in Hnm.
          unfold pD in Hpm, HnD. apply negb_true_iff, eqb_false_iff in Hpm. apply negb_true_iff, eqb_false_iff in HnD.
          assert (HmA : inA m = true) by (apply (D_sub es z0 HesE Eij_s ltac:(lia) Hz0A Hz0D m Hm Hpm)).
          assert (HnA : inA n = true) by (apply (D_sub es z0 HesE Eij_s ltac:(lia) Hz0A Hz0D n Hn HnD)).
          exists m, n. split; [exact Hm|]. split; [exact Hn|]. split; [congruence|].
          apply pair_beats; try assumption; [congruence|].
          intros e He Eij Emn.
          destruct (le_lt_dec (L - side L (sg e) i) 1) as [Hle|Hgt]; [exact Hle|exfalso].
          (* z: the one of m, n cut off by e; z': the other *)
          assert (exists z z', (z < L)%nat /\ (z' < L)%nat /\ inA z = true /\ sg e z <> sg e i /\ sg e z' = sg e i
                               /\ sg es z <> sg es i /\ sg es z' <> sg es i) as (z & z' & Hz & Hz' & HzA & Hzi & Hz'i & HzD & Hz'D).
          { destruct (bool_dec (sg e m) (sg e i)) as [Emi|Nmi].
            - exists n, m. repeat split; try assumption. congruence.
            - exists m, n. repeat split; try assumption.
              destruct (sg e m), (sg e n), (sg e i); try reflexivity; congruence. }
          assert (Hsub : forall k, (k < L)%nat -> negb (Bool.eqb (sg e k) (sg e i)) = true -> pD k = true).
          { intros k Hk Hkp. apply negb_true_iff, eqb_false_iff in Hkp. unfold pD. apply negb_true_iff, eqb_false_iff.
            intros Hks.
            apply (compat_fourth L (sg e) (sg es) (sg e i) (negb (sg es i)) z' i z k (ss_compat L E Hss e es He HesE)); try assumption; try reflexivity.
            - apply bool_neq_negb. exact Hz'D.
            - rewrite negb_involutive. reflexivity.
            - apply bool_neq_negb. exact Hzi.
            - apply bool_neq_negb. exact HzD.
            - apply bool_neq_negb. exact Hkp.
            - rewrite negb_involutive. exact Hks. }
          assert (Hlt : (cnt L (fun k => negb (Bool.eqb (sg e k) (sg e i))) < cnt L pD)%nat).
          { apply (cnt_strict L _ pD z' Hsub Hz').
            - unfold pD. apply negb_true_iff, eqb_false_iff. exact Hz'D.
            - apply negb_false_iff, eqb_true_iff. exact Hz'i. }
          assert (HcDe : cnt L (fun k => negb (Bool.eqb (sg e k) (sg e i))) = (L - side L (sg e) i)%nat).
          { pose proof (cnt_compl L (fun k => Bool.eqb (sg e k) (sg e i))) as Hc. cbv beta in Hc. unfold side. lia. }
          assert (HFe : Fb e = true).
          { unfold Fb. rewrite (proj2 (eqb_true_iff _ _) Eij). cbn [andb].
            replace (Nat.leb 2 (L - side L (sg e) i)) with true by (symmetry; apply Nat.leb_le; lia). cbn [andb].
            apply existsb_exists. exists z. split; [apply in_seq; lia|]. rewrite HzA. cbn [andb].
            apply negb_true_iff, eqb_false_iff. exact Hzi. }
          assert (In e (filter Fb E)) by (apply filter_In; auto).
          specialize (Hmin e H). cbv beta in Hmin. lia.
    Qed.
  End Core.

  (** a pair separated by a split with at least two tips on each side is not a maximiser of S *)
  Lemma exchange i j e0 : (i < L)%nat -> (j < L)%nat -> In e0 E -> sg e0 i <> sg e0 j ->
    (2 <= side L (sg e0) i)%nat -> (2 <= side L (sg e0) j)%nat ->
    exists x y, (x < L)%nat /\ (y < L)%nat /\ x <> y /\ Ssum L E i j < Ssum L E x y.
  Proof.
    intros Hi Hj He0 Hsep HA HB. pose proof (side_opp L (sg e0) i j Hsep) as Ho.
    destruct (le_lt_dec (2 * side L (sg e0) i) L) as [Hh|Hh].
    - apply (exch_core i j e0); assumption.
    - destruct (exch_core j i e0) as (x & y & Hx & Hy & Hxy & Hlt); try assumption; try lia; [congruence|].
      exists x, y. repeat split; try assumption. rewrite Ssum_sym. exact Hlt.
  Qed.

  Theorem max_S_is_cherry i j : (i < L)%nat -> (j < L)%nat ->
    (forall x y, (x < L)%nat -> (y < L)%nat -> x <> y -> Ssum L E x y <= Ssum L E i j) ->
    is_cherry L E i j.
  Proof.
    intros Hi Hj Hmax e He Hsep.
    destruct (Nat.eq_dec (side L (sg e) i) 1) as [?|Ni]; [left; assumption|].
    destruct (Nat.eq_dec (side L (sg e) j) 1) as [?|Nj]; [right; assumption|]. exfalso.
    pose proof (side_pos L (sg e) i Hi). pose proof (side_pos L (sg e) j Hj).
    destruct (exchange i j e Hi Hj He Hsep ltac:(lia) ltac:(lia)) as (x & y & Hx & Hy & Hxy & Hlt).
    specialize (Hmax x y Hx Hy Hxy). lra.
  Qed.
End Exchange.

(** ------------------------------------------------------------------ the selected pair is a cherry *)

Lemma ofnat_minus2_pos L : (3 <= L)%nat -> 0 < ofnat L - 2.
Proof.
  intros H. unfold ofnat. assert (inject_Z 3 <= inject_Z (Z.of_nat L)) by (rewrite <- Zle_Qle; lia).
  change (inject_Z 3) with 3 in H0. lra.
Qed.

Theorem best_pair_is_cherry t E : (3 <= pt_L t)%nat -> split_sys (pt_L t) E -> rep (pt_L t) E (pt_d t) ->
  is_cherry (pt_L t) E (fst (best_pair t)) (snd (best_pair t)).
Proof.
  intros HL Hss Hrep.
  destruct (best_pair_spec t ltac:(lia)) as (Hi & Hj & Hij & Hmin).
  apply (max_S_is_cherry (pt_L t) E Hss); try assumption.
  intros x y Hx Hy Hxy. specialize (Hmin x y Hx Hy Hxy).
  rewrite (score_as_S t E _ _ HL Hrep Hi Hj), (score_as_S t E x y HL Hrep Hx Hy) in Hmin.
  pose proof (ofnat_minus2_pos (pt_L t) HL) as HN.
  set (N := ofnat (pt_L t) - 2) in *.
  assert (Hd : Ssum (pt_L t) E x y / N <= Ssum (pt_L t) E (fst (best_pair t)) (snd (best_pair t)) / N) by lra.
  unfold Qdiv in Hd. apply Qmult_le_r in Hd; [exact Hd|]. apply Qinv_lt_0_compat. exact HN.
Qed.

Lemma sepb_sym s x y : sepb s x y = sepb s y x.
Proof. unfold sepb. destruct (s x), (s y); reflexivity. Qed.

Lemma wsum_zero E : wsum E (fun _ => 0) == 0.
Proof. unfold wsum. rewrite (qsumf_ext _ (fun _ => 0)); [apply qsumf_zero|]. intros; ring. Qed.

Lemma wsum_app E1 E2 f : wsum (E1 ++ E2) f == wsum E1 f + wsum E2 f.
Proof.
  unfold wsum. rewrite map_app. induction E1 as [|e E1 IH]; cbn [app map]; [cbn; ring|]. rewrite !qsum_cons, IH. ring.
Qed.

Definition pend (L x : nat) (e : split) : bool := Nat.eqb (side L (sg e) x) 1.

(** a pendant split of x separates x from everything and nothing else *)
Lemma pend_sep L x e k : (x < L)%nat -> (k < L)%nat -> pend L x e = true -> k <> x -> sg e k <> sg e x.
Proof.
  intros Hx Hk Hp Hkx Heq. unfold pend in Hp. apply Nat.eqb_eq in Hp.
  assert (2 <= side L (sg e) x)%nat; [|lia].
  apply (cnt_ge2 L _ k x Hk Hx Hkx); [apply eqb_true_iff; exact Heq|apply eqb_reflx].
Qed.

Lemma pend_sepb L x e k : (x < L)%nat -> (k < L)%nat -> pend L x e = true -> k <> x -> sepb (sg e) x k = true.
Proof.
  intros Hx Hk Hp Hkx. unfold sepb. apply negb_true_iff, eqb_false_iff. intros H. exact (pend_sep L x e k Hx Hk Hp Hkx (eq_sym H)).
Qed.

Lemma pend_nosep L x e k l : (x < L)%nat -> (k < L)%nat -> (l < L)%nat -> pend L x e = true -> k <> x -> l <> x ->
  sepb (sg e) k l = false.
Proof.
  intros Hx Hk Hl Hp Hkx Hlx. pose proof (pend_sep L x e k Hx Hk Hp Hkx). pose proof (pend_sep L x e l Hx Hl Hp Hlx).
  unfold sepb. destruct (sg e k), (sg e l), (sg e x); try reflexivity; congruence.
Qed.

Section CherryAt.
  Variables (L : nat) (E : list split) (d : qmat) (i j : nat).
  Hypothesis HL : (3 <= L)%nat.
  Hypothesis Hss : split_sys L E.
  Hypothesis Hrep : rep L E d.
  Hypothesis Hi : (i < L)%nat. Hypothesis Hj : (j < L)%nat. Hypothesis Hij : i <> j.
  Hypothesis Hch : is_cherry L E i j.

  Definition Ei : list split := filter (pend L i) E.
  Definition Ej : list split := filter (pend L j) (filter (fun e => negb (pend L i e)) E).
  Definition Er : list split := filter (fun e => negb (pend L j e)) (filter (fun e => negb (pend L i e)) E).
  Definition ca : Q := wsum Ei (fun _ => 1).
  Definition cb : Q := wsum Ej (fun _ => 1).
  Definition cD (k : nat) : Q := wsum Er (fun e => b2q (sepb (sg e) i k)).

  Lemma wsum_three f : wsum E f == wsum Ei f + wsum Ej f + wsum Er f.
  Proof.
    unfold wsum, Ei, Ej, Er. rewrite (qsumf_filter (pend L i) _ E).
    rewrite (qsumf_filter (pend L j) _ (filter (fun e => negb (pend L i e)) E)). ring.
  Qed.

  Lemma Er_same e : In e Er -> sg e i = sg e j.
  Proof.
    intros He. unfold Er in He. apply filter_In in He. destruct He as [He Hpj]. apply filter_In in He. destruct He as [He Hpi].
    destruct (bool_dec (sg e i) (sg e j)) as [?|Hn]; [assumption|exfalso].
    unfold pend in Hpi, Hpj. apply negb_true_iff, Nat.eqb_neq in Hpi. apply negb_true_iff, Nat.eqb_neq in Hpj.
    destruct (Hch e He Hn); contradiction.
  Qed.

  Lemma in_Ei e : In e Ei -> In e E /\ pend L i e = true.
  Proof. unfold Ei. apply filter_In. Qed.
  Lemma in_Ej e : In e Ej -> In e E /\ pend L j e = true.
  Proof. unfold Ej. intros H. apply filter_In in H. destruct H as [H Hp]. apply filter_In in H. tauto. Qed.

  Lemma d_ij : d i j == ca + cb.
  Proof.
    rewrite (Hrep i j Hi Hj), wsum_three. unfold ca, cb.
    rewrite (wsum_ext Ei _ (fun _ => 1)), (wsum_ext Ej _ (fun _ => 1)), (wsum_ext Er _ (fun _ => 0)), wsum_zero; [ring| | |].
    - intros e He. unfold sepb. rewrite (Er_same e He), eqb_reflx. reflexivity.
    - intros e He. destruct (in_Ej e He) as [_ Hp]. rewrite sepb_sym, (pend_sepb L j e i Hj Hi Hp Hij). reflexivity.
    - intros e He. destruct (in_Ei e He) as [_ Hp]. rewrite (pend_sepb L i e j Hi Hj Hp (not_eq_sym Hij)). reflexivity.
  Qed.

  Lemma d_ik k : (k < L)%nat -> k <> i -> k <> j -> d i k == ca + cD k.
  Proof.
    intros Hk Hki Hkj. rewrite (Hrep i k Hi Hk), wsum_three. unfold ca, cD.
    rewrite (wsum_ext Ei _ (fun _ => 1)), (wsum_ext Ej _ (fun _ => 0)), wsum_zero; [ring| |].
    - intros e He. destruct (in_Ej e He) as [_ Hp]. rewrite (pend_nosep L j e i k Hj Hi Hk Hp Hij Hkj). reflexivity.
    - intros e He. destruct (in_Ei e He) as [_ Hp]. rewrite (pend_sepb L i e k Hi Hk Hp Hki). reflexivity.
  Qed.

  Lemma d_jk k : (k < L)%nat -> k <> i -> k <> j -> d j k == cb + cD k.
  Proof.
    intros Hk Hki Hkj. rewrite (Hrep j k Hj Hk), wsum_three. unfold cb, cD.
    rewrite (wsum_ext Ei _ (fun _ => 0)), (wsum_ext Ej _ (fun _ => 1)), wsum_zero,
            (wsum_ext Er _ (fun e => b2q (sepb (sg e) i k))); [ring| | |].
    - intros e He. unfold sepb. rewrite (Er_same e He). reflexivity.
    - intros e He. destruct (in_Ej e He) as [_ Hp]. rewrite (pend_sepb L j e k Hj Hk Hp Hkj). reflexivity.
    - intros e He. destruct (in_Ei e He) as [_ Hp]. rewrite (pend_nosep L i e j k Hi Hj Hk Hp (not_eq_sym Hij) Hki). reflexivity.
  Qed.

  Lemma rep_sym x y : (x < L)%nat -> (y < L)%nat -> d x y == d y x.
  Proof.
    intros Hx Hy. rewrite (Hrep x y Hx Hy), (Hrep y x Hy Hx). apply wsum_ext. intros e _. rewrite sepb_sym. reflexivity.
  Qed.

  Lemma rep_diag x : (x < L)%nat -> d x x == 0.
  Proof.
    intros Hx. rewrite (Hrep x x Hx Hx), (wsum_ext E _ (fun _ => 0)), wsum_zero; [reflexivity|].
    intros e _. unfold sepb. rewrite eqb_reflx. reflexivity.
  Qed.

  Lemma cherry_at_of_is_cherry : cherry_at L d i j ca cb cD.
  Proof.
    constructor; try assumption.
    - exact d_ij.
    - rewrite (rep_sym j i Hj Hi). exact d_ij.
    - intros k Hk. apply rep_diag. exact Hk.
    - intros k Hk Hki Hkj. repeat split.
      + rewrite (rep_sym k i Hk Hi). apply d_ik; assumption.
      + apply d_ik; assumption.
      + rewrite (rep_sym k j Hk Hj). apply d_jk; assumption.
      + apply d_jk; assumption.
  Qed.

  Lemma pend_weight_pos x (Ex : list split) : (x < L)%nat ->
    (forall e, In e Ex -> In e E) -> (exists e, In e Ex) -> 0 < wsum Ex (fun _ => 1).
  Proof.
    intros Hx Hsub (e & He). rewrite <- (wsum_zero Ex).
    apply (wsum_lt Ex _ _ e); [intros e' He'; apply (ss_pos L E Hss), Hsub, He'| |exact He|]; intros; lra.
  Qed.

  Lemma ca_pos : 0 < ca.
  Proof.
    unfold ca. apply (pend_weight_pos i); [exact Hi|intros e He; apply in_Ei in He; tauto|].
    destruct (ss_pend L E Hss i Hi) as (e & He & Hs). exists e. unfold Ei. apply filter_In. split; [exact He|].
    unfold pend. apply Nat.eqb_eq. exact Hs.
  Qed.

  Lemma cb_pos : 0 < cb.
  Proof.
    unfold cb. apply (pend_weight_pos j); [exact Hj|intros e He; apply in_Ej in He; tauto|].
    destruct (ss_pend L E Hss j Hj) as (e & He & Hs). exists e. unfold Ej. apply filter_In. split.
    - apply filter_In. split; [exact He|]. unfold pend. apply negb_true_iff, Nat.eqb_neq.
      assert (Hp : pend L j e = true) by (unfold pend; apply Nat.eqb_eq; exact Hs).
      pose proof (pend_sep L j e i Hj Hi Hp Hij) as Hne. pose proof (side_opp L (sg e) i j Hne). lia.
    - unfold pend. apply Nat.eqb_eq. exact Hs.
  Qed.
End CherryAt.

(** ------------------------------------------------------------------ contraction of a cherry keeps a binary tree metric *)

Lemma cnt_false L p : (forall k, (k < L)%nat -> p k = false) -> cnt L p = 0%nat.
Proof.
  induction L as [|L IH]; intros H; [reflexivity|]. rewrite cnt_S, IH by (intros; apply H; lia). rewrite (H L) by lia. reflexivity.
Qed.

Lemma cnt_change_one n p q j : (j < n)%nat -> (forall k, (k < n)%nat -> k <> j -> q k = p k) ->
  (cnt n q + (if p j then 1 else 0) = cnt n p + (if q j then 1 else 0))%nat.
Proof.
  intros Hj Hagree.
  assert (E : cnt n (fun x => q x && negb (Nat.eqb x j)) = cnt n (fun x => p x && negb (Nat.eqb x j))).
  { apply cnt_ext. intros k Hk. destruct (Nat.eqb_spec k j); [rewrite !andb_false_r; reflexivity|]. rewrite (Hagree k Hk n0). reflexivity. }
  destruct (p j) eqn:Pj; destruct (q j) eqn:Qj;
    try rewrite (cnt_remove n p j Hj Pj); try rewrite (cnt_remove n q j Hj Qj); try lia.
  - rewrite (cnt_ext n q (fun x => q x && negb (Nat.eqb x j))); [lia|].
    intros k Hk. destruct (Nat.eqb_spec k j) as [->|]; [rewrite Qj; reflexivity|rewrite andb_true_r; reflexivity].
  - rewrite (cnt_ext n p (fun x => p x && negb (Nat.eqb x j))); [lia|].
    intros k Hk. destruct (Nat.eqb_spec k j) as [->|]; [rewrite Pj; reflexivity|rewrite andb_true_r; reflexivity].
  - rewrite (cnt_ext n q (fun x => q x && negb (Nat.eqb x j))), (cnt_ext n p (fun x => p x && negb (Nat.eqb x j))); [lia| |].
    + intros k Hk. destruct (Nat.eqb_spec k j) as [->|]; [rewrite Pj; reflexivity|rewrite andb_true_r; reflexivity].
    + intros k Hk. destruct (Nat.eqb_spec k j) as [->|]; [rewrite Qj; reflexivity|rewrite andb_true_r; reflexivity].
Qed.

Lemma cnt_ren L j p : (1 <= L)%nat -> (j < L)%nat ->
  (cnt (L - 1) (fun k => p (ren L j k)) + (if p j then 1 else 0) = cnt L p)%nat.
Proof.
  intros HL Hj. destruct L as [|n]; [lia|]. replace (S n - 1)%nat with n by lia. rewrite cnt_S.
  destruct (Nat.eq_dec j n) as [->|Hn].
  - rewrite (cnt_ext n (fun k => p (ren (S n) n k)) p); [reflexivity|].
    intros k Hk. unfold ren. destruct (Nat.eqb_spec k n); [lia|reflexivity].
  - pose proof (cnt_change_one n p (fun k => p (ren (S n) j k)) j ltac:(lia)) as H.
    rewrite H.
    + cbv beta. unfold ren. rewrite Nat.eqb_refl. replace (S n - 1)%nat with n by lia. lia.
    + intros k Hk Hkj. unfold ren. destruct (Nat.eqb_spec k j); [contradiction|reflexivity].
Qed.

Definition inv_ren (L j x : nat) : nat := if Nat.eqb x (L - 1) then j else x.

Lemma ren_inv L j x : (j < L)%nat -> (x < L)%nat -> x <> j -> (inv_ren L j x < L - 1)%nat /\ ren L j (inv_ren L j x) = x.
Proof.
  intros Hj Hx Hxj. unfold inv_ren, ren. destruct (Nat.eqb_spec x (L - 1)) as [->|Hn].
  - rewrite Nat.eqb_refl. split; [lia|reflexivity].
  - destruct (Nat.eqb_spec x j); [contradiction|]. split; [lia|reflexivity].
Qed.

Lemma inv_ren_ren L j k : (j < L)%nat -> (k < L - 1)%nat -> inv_ren L j (ren L j k) = k.
Proof.
  intros Hj Hk. unfold inv_ren, ren. destruct (Nat.eqb_spec k j) as [->|Hn].
  - rewrite Nat.eqb_refl. reflexivity.
  - destruct (Nat.eqb_spec k (L - 1)); [lia|reflexivity].
Qed.

Lemma wsum_map (g : split -> split) E f : (forall e, wt (g e) = wt e) -> wsum (map g E) f == wsum E (fun e => f (g e)).
Proof.
  intros Hw. unfold wsum. rewrite map_map. apply qsumf_ext. intros e _. rewrite Hw. reflexivity.
Qed.

Section Contract.
  Variables (L : nat) (E : list split) (d : qmat) (i j : nat).
  Hypothesis HL : (4 <= L)%nat.
  Hypothesis Hss : split_sys L E.
  Hypothesis Hrep : rep L E d.
  Hypothesis Hi : (i < L)%nat. Hypothesis Hj : (j < L)%nat. Hypothesis Hij : i <> j.
  Hypothesis Hch : is_cherry L E i j.

  Let R := Er L E i j.
  Definition restrict (e : split) : split := (fun k => sg e (ren L j k), wt e).
  Definition E2 : list split := map restrict R.

  Lemma in_R e : In e R <-> In e E /\ pend L i e = false /\ pend L j e = false.
  Proof.
    unfold R, Er. rewrite !filter_In, !negb_true_iff. tauto.
  Qed.

  Lemma R_same e : In e R -> sg e i = sg e j.
  Proof. intros He. unfold R in He. eapply Er_same; eassumption. Qed.

  Lemma in_E2 e2 : In e2 E2 -> exists e, In e R /\ e2 = restrict e.
  Proof. unfold E2. intros H. apply in_map_iff in H. destruct H as (e & <- & He). exists e. auto. Qed.

  Lemma ren_ok k : (k < L - 1)%nat -> (ren L j k < L)%nat /\ ren L j k <> j.
  Proof. intros Hk. apply ren_lt; assumption. Qed.

  (** the reduced matrix is the metric of the restricted system *)
  Lemma contract_rep : rep (L - 1) E2 (join_matrix L d i j).
  Proof.
    intros k l Hk Hl.
    assert (Hca : cherry_at L d i j (ca L E i) (cb L E i j) (cD L E i j))
      by (apply cherry_at_of_is_cherry; first [assumption|lia]).
    rewrite (join_matrix_exact L d i j _ _ _ k l Hca Hk Hl).
    destruct (ren_ok k Hk) as [Hx Hxj]. destruct (ren_ok l Hl) as [Hy Hyj].
    unfold E2. rewrite (wsum_map restrict R) by reflexivity.
    rewrite (wsum_ext R _ (fun e => b2q (sepb (sg e) (ren L j k) (ren L j l)))) by (intros; reflexivity).
    remember (ren L j k) as x eqn:Ex. remember (ren L j l) as y eqn:Ey.
    unfold contracted.
    destruct (Nat.eqb_spec x i) as [->|Hxi]; destruct (Nat.eqb_spec y i) as [->|Hyi].
    - symmetry. rewrite (wsum_ext R _ (fun _ => 0)), wsum_zero; [reflexivity|].
      intros e _. unfold sepb. rewrite eqb_reflx. reflexivity.
    - reflexivity.
    - unfold cD. apply wsum_ext. intros e _. rewrite sepb_sym. reflexivity.
    - rewrite (Hrep x y Hx Hy), (wsum_three L E i j).
      rewrite (wsum_ext (Ei L E i) _ (fun _ => 0)), (wsum_ext (Ej L E i j) _ (fun _ => 0)), !wsum_zero; [fold R; ring| |].
      + intros e He. apply in_Ej in He. destruct He as [_ Hp]. rewrite (pend_nosep L j e x y Hj Hx Hy Hp Hxj Hyj). reflexivity.
      + intros e He. apply in_Ei in He. destruct He as [_ Hp]. rewrite (pend_nosep L i e x y Hi Hx Hy Hp Hxi Hyi). reflexivity.
  Qed.

  Lemma side_restrict e k : (k < L - 1)%nat ->
    (side (L - 1) (sg (restrict e)) k + (if Bool.eqb (sg e j) (sg e (ren L j k)) then 1 else 0) = side L (sg e) (ren L j k))%nat.
  Proof.
    intros Hk. unfold side. cbn [restrict sg fst].
    exact (cnt_ren L j (fun x => Bool.eqb (sg e x) (sg e (ren L j k))) ltac:(lia) Hj).
  Qed.

  (** the edge above the cherry: {i, j} | rest belongs to the system (the tree is binary) *)
  Lemma pair_split : exists e, In e R /\ side L (sg e) i = 2%nat.
  Proof.
    set (tau := fun x => Nat.eqb x i || Nat.eqb x j).
    assert (Hprop : proper L tau).
    { assert (exists z, (z < L)%nat /\ z <> i /\ z <> j) as (z & Hz & Hzi & Hzj).
      { destruct (Nat.eq_dec i 0), (Nat.eq_dec j 0), (Nat.eq_dec i 1), (Nat.eq_dec j 1);
          first [exists 0%nat; lia | exists 1%nat; lia | exists 2%nat; lia]. }
      exists i, z. split; [exact Hi|]. split; [exact Hz|]. unfold tau. rewrite Nat.eqb_refl. cbn [orb].
      destruct (Nat.eqb_spec z i); [contradiction|]. destruct (Nat.eqb_spec z j); [contradiction|]. discriminate. }
    assert (Htau : forall x, tau x = true -> x = i \/ x = j).
    { intros x Hx. unfold tau in Hx. apply orb_true_iff in Hx. destruct Hx as [Hx|Hx]; apply Nat.eqb_eq in Hx; auto. }
    assert (Hcomp : forall e, In e E -> compat L (sg e) tau).
    { intros e He. destruct (bool_dec (sg e i) (sg e j)) as [Es|Ns].
      - exists (negb (sg e i)), true. intros x Hx [H1 H2]. destruct (Htau x H2) as [->| ->].
        + destruct (sg e i); discriminate.
        + rewrite <- Es in H1. destruct (sg e i); discriminate.
      - destruct (Hch e He Ns) as [H1|H1].
        + exists (sg e i), false. intros x Hx [H2 H3].
          assert (x = i); [|subst x; unfold tau in H3; rewrite Nat.eqb_refl in H3; discriminate].
          destruct (Nat.eq_dec x i) as [?|Hn]; [assumption|exfalso].
          exact (pend_sep L i e x Hi Hx (proj2 (Nat.eqb_eq _ _) H1) Hn H2).
        + exists (sg e j), false. intros x Hx [H2 H3].
          assert (x = j); [|subst x; unfold tau in H3; rewrite Nat.eqb_refl, orb_true_r in H3; discriminate].
          destruct (Nat.eq_dec x j) as [?|Hn]; [assumption|exfalso].
          exact (pend_sep L j e x Hj Hx (proj2 (Nat.eqb_eq _ _) H1) Hn H2). }
    destruct (ss_max L E Hss tau Hprop Hcomp) as (e & He & Hsame).
    assert (Hcnt : cnt L tau = 2%nat).
    { assert (Ti : tau i = true) by (unfold tau; rewrite Nat.eqb_refl; reflexivity).
      rewrite (cnt_remove L tau i Hi Ti).
      assert (Tj : (fun x => tau x && negb (Nat.eqb x i)) j = true).
      { cbv beta. unfold tau. rewrite Nat.eqb_refl, orb_true_r. destruct (Nat.eqb_spec j i); [congruence|reflexivity]. }
      rewrite (cnt_remove L _ j Hj Tj). rewrite cnt_false; [reflexivity|].
      intros k Hk. cbv beta. destruct (tau k) eqn:Tk; [|reflexivity]. destruct (Htau k Tk) as [->| ->].
      - rewrite Nat.eqb_refl. reflexivity.
      - rewrite Nat.eqb_refl, andb_false_r. reflexivity. }
    assert (Hside : side L (sg e) i = 2%nat).
    { rewrite <- Hcnt. unfold side. apply cnt_ext. intros k Hk.
      assert (Ti : tau i = true) by (unfold tau; rewrite Nat.eqb_refl; reflexivity).
      destruct Hsame as [Hs|Hs]; rewrite (Hs k Hk), (Hs i Hi), Ti; destruct (tau k); reflexivity. }
    assert (Hsij : sg e i = sg e j).
    { assert (Ti : tau i = true) by (unfold tau; rewrite Nat.eqb_refl; reflexivity).
      assert (Tj : tau j = true) by (unfold tau; rewrite Nat.eqb_refl, orb_true_r; reflexivity).
      destruct Hsame as [Hs|Hs]; rewrite (Hs i Hi), (Hs j Hj), Ti, Tj; reflexivity. }
    exists e. split; [|exact Hside]. apply in_R. split; [exact He|]. unfold pend.
    rewrite (side_same L (sg e) j i (eq_sym Hsij)), Hside. split; reflexivity.
  Qed.

  Lemma contract_sys : split_sys (L - 1) E2.
  Proof.
    constructor.
    - intros e2 H2. destruct (in_E2 e2 H2) as (e & He & ->). apply in_R in He. cbn. apply (ss_pos L E Hss). tauto.
    - intros e2 H2. destruct (in_E2 e2 H2) as (e & He & ->).
      destruct (ss_proper L E Hss e (proj1 (proj1 (in_R e) He))) as (x & y & Hx & Hy & Hxy).
      pose proof (R_same e He) as Hs.
      assert (Hfix : forall z, (z < L)%nat -> exists k, (k < L - 1)%nat /\ sg e (ren L j k) = sg e z).
      { intros z Hz. destruct (Nat.eq_dec z j) as [->|Hzj].
        - destruct (ren_inv L j i Hj Hi Hij) as [Hk Ek]. exists (inv_ren L j i). split; [exact Hk|]. rewrite Ek. exact Hs.
        - destruct (ren_inv L j z Hj Hz Hzj) as [Hk Ek]. exists (inv_ren L j z). split; [exact Hk|]. rewrite Ek. reflexivity. }
      destruct (Hfix x Hx) as (k & Hk & Ek). destruct (Hfix y Hy) as (k' & Hk' & Ek').
      exists k, k'. split; [exact Hk|]. split; [exact Hk'|]. cbn [restrict sg fst]. congruence.
    - intros e2 f2 H2 H2'. destruct (in_E2 e2 H2) as (e & He & ->). destruct (in_E2 f2 H2') as (f & Hf & ->).
      destruct (ss_compat L E Hss e f (proj1 (proj1 (in_R e) He)) (proj1 (proj1 (in_R f) Hf))) as (a & b & H).
      exists a, b. intros k Hk. cbn [restrict sg fst]. apply H. apply ren_ok. exact Hk.
    - intros k Hk. destruct (ren_ok k Hk) as [Hx Hxj]. destruct (Nat.eq_dec (ren L j k) i) as [Exi|Nxi].
      + destruct pair_split as (e & He & Hside). exists (restrict e). split; [unfold E2; apply in_map; exact He|].
        pose proof (side_restrict e k Hk) as Hsr. rewrite Exi in Hsr.
        rewrite (proj2 (eqb_true_iff _ _) (eq_sym (R_same e He))) in Hsr. lia.
      + destruct (ss_pend L E Hss (ren L j k) Hx) as (e & He & Hside).
        assert (Hp : pend L (ren L j k) e = true) by (unfold pend; apply Nat.eqb_eq; exact Hside).
        assert (HeR : In e R).
        { apply in_R. split; [exact He|]. unfold pend.
          pose proof (pend_sep L _ e i Hx Hi Hp (not_eq_sym Nxi)) as Hsi. pose proof (side_opp L (sg e) i _ Hsi).
          pose proof (pend_sep L _ e j Hx Hj Hp (not_eq_sym Hxj)) as Hsj. pose proof (side_opp L (sg e) j _ Hsj).
          split; apply Nat.eqb_neq; lia. }
        exists (restrict e). split; [unfold E2; apply in_map; exact HeR|].
        pose proof (side_restrict e k Hk) as Hsr.
        pose proof (pend_sep L _ e j Hx Hj Hp (not_eq_sym Hxj)) as Hsj.
        rewrite (proj2 (eqb_false_iff _ _) Hsj) in Hsr. lia.
    - intros tau' Hprop' Hcomp'.
      set (tau := fun x => if Nat.eqb x j then tau' (inv_ren L j i) else tau' (inv_ren L j x)).
      assert (Htau_ren : forall k, (k < L - 1)%nat -> tau (ren L j k) = tau' k).
      { intros k Hk. destruct (ren_ok k Hk) as [_ Hn]. unfold tau. destruct (Nat.eqb_spec (ren L j k) j); [contradiction|].
        rewrite inv_ren_ren by assumption. reflexivity. }
      assert (Htau_j : tau j = tau i).
      { unfold tau. rewrite Nat.eqb_refl. destruct (Nat.eqb_spec i j); [contradiction|reflexivity]. }
      assert (Hprop : proper L tau).
      { destruct Hprop' as (k & k' & Hk & Hk' & Hne). exists (ren L j k), (ren L j k').
        split; [apply ren_ok; exact Hk|]. split; [apply ren_ok; exact Hk'|]. rewrite !Htau_ren by assumption. exact Hne. }
      assert (Hcomp : forall e, In e E -> compat L (sg e) tau).
      { intros e He. destruct (pend L i e) eqn:Pi.
        - exists (sg e i), (negb (tau i)). intros x Hx [H1 H2].
          assert (x = i); [|subst x; destruct (tau i); discriminate].
          destruct (Nat.eq_dec x i) as [?|Hn]; [assumption|exfalso]. exact (pend_sep L i e x Hi Hx Pi Hn H1).
        - destruct (pend L j e) eqn:Pj.
          + exists (sg e j), (negb (tau j)). intros x Hx [H1 H2].
            assert (x = j); [|subst x; destruct (tau j); discriminate].
            destruct (Nat.eq_dec x j) as [?|Hn]; [assumption|exfalso]. exact (pend_sep L j e x Hj Hx Pj Hn H1).
          + assert (HeR : In e R) by (apply in_R; auto).
            destruct (Hcomp' (restrict e) ltac:(unfold E2; apply in_map; exact HeR)) as (a & b & H).
            exists a, b. intros x Hx [H1 H2].
            assert (Hred : forall z, (z < L)%nat -> z <> j -> sg e z = a -> tau z = b -> False).
            { intros z Hz Hzj Hz1 Hz2. destruct (ren_inv L j z Hj Hz Hzj) as [Hk Ek].
              apply (H (inv_ren L j z) Hk). cbn [restrict sg fst]. rewrite Ek. split; [exact Hz1|].
              rewrite <- Htau_ren by exact Hk. rewrite Ek. exact Hz2. }
            destruct (Nat.eq_dec x j) as [->|Hxj].
            * apply (Hred i Hi Hij); [rewrite (R_same e HeR); exact H1|rewrite <- Htau_j; exact H2].
            * exact (Hred x Hx Hxj H1 H2). }
      destruct (ss_max L E Hss tau Hprop Hcomp) as (e & He & Hsame).
      assert (Hsij : sg e i = sg e j).
      { destruct Hsame as [Hs|Hs]; rewrite (Hs i Hi), (Hs j Hj), Htau_j; reflexivity. }
      assert (Hside2 : (2 <= side L (sg e) i)%nat).
      { apply (cnt_ge2 L _ i j Hi Hj Hij); [apply eqb_reflx|apply eqb_true_iff; symmetry; exact Hsij]. }
      assert (HeR : In e R).
      { apply in_R. split; [exact He|]. unfold pend. rewrite (side_same L (sg e) j i (eq_sym Hsij)).
        split; apply Nat.eqb_neq; lia. }
      exists (restrict e). split; [unfold E2; apply in_map; exact HeR|].
      destruct Hsame as [Hs|Hs]; [left|right]; intros k Hk; cbn [restrict sg fst];
        rewrite (Hs (ren L j k)) by (apply ren_ok; exact Hk); rewrite Htau_ren by exact Hk; reflexivity.
  Qed.
End Contract.

(** ------------------------------------------------------------------ every run on a binary tree metric is a good run *)

Lemma rep_symm L E d x y : rep L E d -> (x < L)%nat -> (y < L)%nat -> d x y == d y x.
Proof.
  intros Hrep Hx Hy. rewrite (Hrep x y Hx Hy), (Hrep y x Hy Hx). apply wsum_ext. intros e _. rewrite sepb_sym. reflexivity.
Qed.

Lemma rep_diag0 L E d x : rep L E d -> (x < L)%nat -> d x x == 0.
Proof.
  intros Hrep Hx. rewrite (Hrep x x Hx Hx), (wsum_ext E _ (fun _ => 0)), wsum_zero; [reflexivity|].
  intros e _. unfold sepb. rewrite eqb_reflx. reflexivity.
Qed.

Lemma wsum_lin3 E f g h : wsum E (fun e => f e + g e - h e) == wsum E f + wsum E g - wsum E h.
Proof.
  unfold wsum. induction E as [|e E IH]; cbn [map]; [cbn; ring|]. rewrite !qsum_cons, IH. ring.
Qed.

(** on three tips the star length of tip k is positive *)
Lemma tri_pos E d k a b : split_sys 3 E -> rep 3 E d -> (k < 3)%nat -> (a < 3)%nat -> (b < 3)%nat ->
  k <> a -> k <> b -> a <> b -> 0 < d k a + d k b - d a b.
Proof.
  intros Hss Hrep Hk Ha Hb Hka Hkb Hab.
  rewrite (Hrep k a Hk Ha), (Hrep k b Hk Hb), (Hrep a b Ha Hb), <- wsum_lin3, <- (wsum_zero E).
  destruct (ss_pend 3 E Hss k Hk) as (ep & Hep & Hside).
  assert (Hp : pend 3 k ep = true) by (unfold pend; apply Nat.eqb_eq; exact Hside).
  apply (wsum_lt E _ _ ep (ss_pos 3 E Hss)).
  - intros e _. unfold sepb. destruct (sg e k), (sg e a), (sg e b); cbn; lra.
  - exact Hep.
  - rewrite (pend_sepb 3 k ep a Hk Ha Hp (not_eq_sym Hka)), (pend_sepb 3 k ep b Hk Hb Hp (not_eq_sym Hkb)),
            (pend_nosep 3 k ep a b Hk Ha Hb Hp (not_eq_sym Hka) (not_eq_sym Hkb)). cbn. lra.
Qed.

Lemma final_pos E d : split_sys 3 E -> rep 3 E d -> Forall (fun l => 0 < l) (final_lengths d).
Proof.
  intros Hss Hrep.
  destruct (final_lengths_sums d) as (l0 & l1 & l2 & El & S01 & S02 & S12).
  { intros k l Hk Hl. apply (rep_symm 3 E); assumption. }
  { intros k Hk. apply (rep_diag0 3 E); assumption. }
  pose proof (tri_pos E d 0 1 2 Hss Hrep ltac:(lia) ltac:(lia) ltac:(lia) ltac:(lia) ltac:(lia) ltac:(lia)) as P0.
  pose proof (tri_pos E d 1 0 2 Hss Hrep ltac:(lia) ltac:(lia) ltac:(lia) ltac:(lia) ltac:(lia) ltac:(lia)) as P1.
  pose proof (tri_pos E d 2 0 1 Hss Hrep ltac:(lia) ltac:(lia) ltac:(lia) ltac:(lia) ltac:(lia) ltac:(lia)) as P2.
  pose proof (rep_symm 3 E d 1 0 Hrep ltac:(lia) ltac:(lia)). pose proof (rep_symm 3 E d 2 0 Hrep ltac:(lia) ltac:(lia)).
  pose proof (rep_symm 3 E d 2 1 Hrep ltac:(lia) ltac:(lia)).
  rewrite El. repeat constructor; lra.
Qed.

Theorem btm_good_run : forall k t, pt_L t = (3 + k)%nat -> binary_tree_metric (3 + k) (pt_d t) -> good_run t.
Proof.
  induction k as [|k IH]; intros t HL (E & Hss & Hrep).
  - apply good_final; [exact HL|]. apply (final_pos E); assumption.
  - rewrite <- HL in Hss, Hrep.
    destruct (best_pair_spec t ltac:(lia)) as (Hi & Hj & Hij & _).
    pose proof (best_pair_is_cherry t E ltac:(lia) Hss Hrep) as Hch.
    set (i := fst (best_pair t)) in *. set (j := snd (best_pair t)) in *.
    assert (Hca : cherry_at (pt_L t) (pt_d t) i j (ca (pt_L t) E i) (cb (pt_L t) E i j) (cD (pt_L t) E i j))
      by (apply cherry_at_of_is_cherry; first [assumption|lia]).
    assert (Pa : 0 < ca (pt_L t) E i) by (apply ca_pos; first [assumption|lia]).
    assert (Pb : 0 < cb (pt_L t) E i j) by (apply cb_pos; first [assumption|lia]).
    destruct (join_exact t i j _ _ _ ltac:(lia) Hca (Qlt_le_weak _ _ Pa) (Qlt_le_weak _ _ Pb)) as (la & lb & Hla & Hlb & Ej).
    eapply (good_step t _ _ _ _ ltac:(lia) Pa Pb Hca Ej).
    apply IH; cbn [pt_L pt_d]; [lia|].
    replace (3 + k)%nat with (pt_L t - 1)%nat by lia.
    exists (E2 (pt_L t) E i j). split.
    + apply contract_sys; first [assumption|lia].
    + apply (contract_rep (pt_L t) E (pt_d t) i j); first [assumption|lia].
Qed.

(** UNCONDITIONAL consistency of neighbour joining: for the metric of every binary tree with
    positive branch lengths on n >= 3 tips, nj returns a tree with positive branch lengths,
    exactly the input's tips, every pair of tips listed, every listed path length = input distance *)
Theorem nj_consistent n d : (3 <= n)%nat -> binary_tree_metric n d ->
  exists T, nj n d = Some T /\ pos_tree T /\
    Permutation.Permutation (names T) (map Z.of_nat (seq 0 n)) /\
    (forall x y, (x < n)%nat -> (y < n)%nat -> x <> y ->
       exists q, (In (Z.of_nat x, Z.of_nat y, q) (tip_dists T) \/ In (Z.of_nat y, Z.of_nat x, q) (tip_dists T)) /\ q == d x y) /\
    (forall x y q, In (x, y, q) (tip_dists T) -> q == d (Z.to_nat x) (Z.to_nat y)).
Proof.
  intros Hn Hbtm. pose proof Hbtm as (E & Hss & Hrep).
  apply nj_good_run_complete; [exact Hn| | |].
  - intros k l Hk Hl. apply (rep_symm n E); assumption.
  - intros k Hk. apply (rep_diag0 n E); assumption.
  - apply (btm_good_run (n - 3)); cbn [star_tree pt_L pt_d]; [lia|].
    replace (3 + (n - 3))%nat with n by lia. exact Hbtm.
Qed.

(** the selection theorem on its own: on a binary tree metric with >= 3 tips every pair the score
    criterion can select is a cherry of the metric with positive pendant lengths *)
Theorem nj_picks_a_cherry t : (3 <= pt_L t)%nat -> binary_tree_metric (pt_L t) (pt_d t) ->
  exists a b D, 0 < a /\ 0 < b /\ cherry_at (pt_L t) (pt_d t) (fst (best_pair t)) (snd (best_pair t)) a b D.
Proof.
  intros HL (E & Hss & Hrep).
  destruct (best_pair_spec t ltac:(lia)) as (Hi & Hj & Hij & _).
  pose proof (best_pair_is_cherry t E HL Hss Hrep) as Hch.
  exists (ca (pt_L t) E (fst (best_pair t))), (cb (pt_L t) E (fst (best_pair t)) (snd (best_pair t))),
         (cD (pt_L t) E (fst (best_pair t)) (snd (best_pair t))).
  split; [apply ca_pos; first [assumption|lia]|]. split; [apply cb_pos; first [assumption|lia]|].
  apply cherry_at_of_is_cherry; first [assumption|lia].
Qed.

(** ... and so is every other minimiser of the score (whatever the tie order of argsort) *)
Theorem every_score_minimiser_is_a_cherry t E i j : (3 <= pt_L t)%nat ->
  split_sys (pt_L t) E -> rep (pt_L t) E (pt_d t) -> (i < pt_L t)%nat -> (j < pt_L t)%nat -> i <> j ->
  (forall x y, (x < pt_L t)%nat -> (y < pt_L t)%nat -> x <> y -> score_matrix t i j <= score_matrix t x y) ->
  is_cherry (pt_L t) E i j /\
  exists a b D, 0 < a /\ 0 < b /\ cherry_at (pt_L t) (pt_d t) i j a b D.
Proof.
  intros HL Hss Hrep Hi Hj Hij Hmin.
  assert (Hch : is_cherry (pt_L t) E i j).
  { apply (max_S_is_cherry (pt_L t) E Hss); try assumption.
    intros x y Hx Hy Hxy. specialize (Hmin x y Hx Hy Hxy).
    rewrite (score_as_S t E i j HL Hrep Hi Hj), (score_as_S t E x y HL Hrep Hx Hy) in Hmin.
    pose proof (ofnat_minus2_pos (pt_L t) HL) as HN. set (N := ofnat (pt_L t) - 2) in *.
    assert (Hd : Ssum (pt_L t) E x y / N <= Ssum (pt_L t) E i j / N) by lra.
    unfold Qdiv in Hd. apply Qmult_le_r in Hd; [exact Hd|]. apply Qinv_lt_0_compat. exact HN. }
  split; [exact Hch|].
  exists (ca (pt_L t) E i), (cb (pt_L t) E i j), (cD (pt_L t) E i j).
  split; [apply ca_pos; first [assumption|lia]|]. split; [apply cb_pos; first [assumption|lia]|].
  apply cherry_at_of_is_cherry; first [assumption|lia].
Qed.
