(** C13 — the sqlite data store model refines the dictionary specification. *)
From Coq Require Import ZArith List Bool Lia.
From CG3 Require Import Lib.PyZ Lib.Val Lib.Chars Model.DataStore Model.SqlStore Spec.DataStoreSpec.
Import ListNotations.

(** ------------------------------------------------------------------ lists of strings *)

Lemma mem_str_In x l : mem_str x l = true <-> In x l.
Proof.
  unfold mem_str. rewrite existsb_exists. split.
  - intros [y [Hy He]]. apply str_eqb_eq in He. now subst.
  - intros H. exists x. split; [assumption|apply str_eqb_refl].
Qed.

Lemma mem_str_false x l : mem_str x l = false <-> ~ In x l.
Proof.
  rewrite <- mem_str_In. destruct (mem_str x l); split; congruence.
Qed.

Lemma remove_first_In x y l : NoDup l -> (In y (remove_first x l) <-> In y l /\ y <> x).
Proof.
  induction l as [|h t IH]; intros Hnd; cbn [remove_first].
  - cbn. tauto.
  - inversion Hnd as [|? ? Hh Ht]; subst.
    destruct (str_eqb_spec x h) as [->|Hn].
    + split.
      * intros Hy. split; [now right|]. intros ->. contradiction.
      * intros [[->|Hy] Hne]; [congruence|assumption].
    + cbn [In]. rewrite (IH Ht). split.
      * intros [->|[Hy Hne]]; split; auto.
      * intros [[->|Hy] Hne]; auto.
Qed.

Lemma remove_first_NoDup x l : NoDup l -> NoDup (remove_first x l).
Proof.
  induction l as [|h t IH]; intros Hnd; cbn [remove_first]; [constructor|].
  inversion Hnd as [|? ? Hh Ht]; subst.
  destruct (str_eqb x h); [assumption|].
  constructor; [|auto]. intros Hin. apply remove_first_In in Hin; tauto.
Qed.

Lemma NoDup_snoc (x : str) l : NoDup l -> ~ In x l -> NoDup (l ++ [x]).
Proof.
  intros Hl Hx. induction l as [|h t IH]; cbn; [constructor; [tauto|constructor]|].
  inversion Hl; subst. constructor.
  - rewrite in_app_iff. cbn. intros [H|[H|[]]]; [contradiction|subst; apply Hx; now left].
  - apply IH; [assumption|]. intros H. apply Hx. now right.
Qed.

(** ------------------------------------------------------------------ looking a row up by its key *)

Definition lookup (rows : list row) (x : str) : option row :=
  find (fun r => str_eqb (r_id r) x) rows.

Lemma lookup_None rows x : (forall r, In r rows -> r_id r <> x) -> lookup rows x = None.
Proof.
  induction rows as [|h t IH]; intros H; cbn; [reflexivity|].
  destruct (str_eqb_spec (r_id h) x) as [E|E].
  - exfalso. apply (H h); [now left|assumption].
  - apply IH. intros r Hr. apply H. now right.
Qed.

Lemma lookup_Some rows x r : lookup rows x = Some r -> In r rows /\ r_id r = x.
Proof.
  intros H. apply find_some in H. destruct H as [H1 H2]. apply str_eqb_eq in H2. tauto.
Qed.

Lemma lookup_In rows x : In x (map r_id rows) <-> lookup rows x <> None.
Proof.
  induction rows as [|h t IH]; cbn; [split; [tauto|congruence]|].
  destruct (str_eqb_spec (r_id h) x) as [E|E].
  - split; [congruence|auto].
  - rewrite <- IH. tauto.
Qed.

Lemma lookup_app rows r x :
  lookup (rows ++ [r]) x =
  match lookup rows x with
  | Some r' => Some r'
  | None => if str_eqb (r_id r) x then Some r else None
  end.
Proof.
  induction rows as [|h t IH]; cbn; [reflexivity|].
  destruct (str_eqb (r_id h) x); [reflexivity|apply IH].
Qed.

Lemma lookup_map f rows x :
  (forall r, r_id (f r) = r_id r) ->
  lookup (map f rows) x = option_map f (lookup rows x).
Proof.
  intros Hf. induction rows as [|h t IH]; cbn; [reflexivity|].
  rewrite Hf. destruct (str_eqb (r_id h) x); [reflexivity|apply IH].
Qed.

Lemma lookup_filter q rows x :
  NoDup (map r_id rows) ->
  lookup (filter q rows) x =
  match lookup rows x with
  | Some r => if q r then Some r else None
  | None => None
  end.
Proof.
  induction rows as [|h t IH]; intros Hnd; cbn; [reflexivity|].
  inversion Hnd as [|? ? Hh Ht]; subst.
  destruct (q h) eqn:Eq; cbn; destruct (str_eqb_spec (r_id h) x) as [E|E].
  - now rewrite Eq.
  - now apply IH.
  - rewrite Eq. apply lookup_None. intros r Hr. apply filter_In in Hr. destruct Hr as [Hr _].
    intros Hx. apply Hh. rewrite E, <- Hx. now apply in_map.
  - now apply IH.
Qed.

Lemma NoDup_map_filter (q : row -> bool) rows :
  NoDup (map r_id rows) -> NoDup (map r_id (filter q rows)).
Proof.
  induction rows as [|h t IH]; intros Hnd; cbn; [constructor|].
  inversion Hnd as [|? ? Hh Ht]; subst.
  destruct (q h); cbn; [|auto].
  constructor; [|auto]. intros Hin. apply Hh. apply in_map_iff in Hin.
  destruct Hin as [r [E Hr]]. apply filter_In in Hr. rewrite <- E. apply in_map. tauto.
Qed.

Lemma In_select rows b x :
  NoDup (map r_id rows) ->
  (In x (map r_id (filter (fun r => Bool.eqb (r_completed r) b) rows)) <->
   exists r, lookup rows x = Some r /\ r_completed r = b).
Proof.
  intros Hnd. rewrite lookup_In. rewrite lookup_filter by assumption.
  destruct (lookup rows x) as [r|]; [|split; [congruence|intros [r [H _]]; congruence]].
  destruct (Bool.eqb (r_completed r) b) eqn:E.
  - apply eqb_prop in E. split; [intros _; eauto|congruence].
  - split; [congruence|]. intros [r' [H1 H2]]. inversion H1; subst.
    rewrite eqb_reflx in E. congruence.
Qed.

(** ------------------------------------------------------------------ the abstraction *)

Definition tabC (rows : list row) : table := fun x =>
  match lookup rows x with
  | Some r => if r_completed r then Some (r_data r) else None
  | None => None
  end.

Definition tabN (rows : list row) : table := fun x =>
  match lookup rows x with
  | Some r => if r_completed r then None else Some (r_data r)
  | None => None
  end.

Definition cache_full (c : list str) (t : table) : Prop :=
  NoDup c /\ forall y, In y c <-> present (t y) = true.

Definition cache_ok (c : list str) (t : table) : Prop := c = [] \/ cache_full c t.

(** a record name the sqlite store can serve: non-empty, and [read] finds its table *)
Definition sql_wf_id (x : str) : bool :=
  nonempty x && str_eqb (path_parent x) [ch_dot] && str_eqb (path_name x) x.

Definition sql_wf_op (o : op) : bool :=
  match o with
  | OWrite id _ | OWriteNC id _ =>
      str_eqb (strip_table s_results id) (sql_lid id) && sql_wf_id (sql_lid id)
  | ODrop id => nonempty id
  | _ => true
  end.

Record inv (s : sqlstore) : Prop := mkInv {
  inv_nd : NoDup (map r_id (q_rows s));
  inv_md5 : forall r, In r (q_rows s) -> r_md5 r = r_data r;
  inv_ns : forall r, In r (q_rows s) -> sql_wf_id (r_id r) = true;
  inv_cc : cache_ok (q_completed s) (tabC (q_rows s));
  inv_nc : cache_ok (q_ncache s) (tabN (q_rows s)) }.

Definition R (s : sqlstore) (d : dict) : Prop :=
  q_mode s = dm d /\ (forall x, dc d x = tabC (q_rows s) x) /\ (forall x, dn d x = tabN (q_rows s) x) /\ inv s.

Lemma cache_full_ext c t t' : (forall y, present (t y) = present (t' y)) -> cache_full c t -> cache_full c t'.
Proof.
  intros E [H1 H2]. split; [assumption|]. intros y. rewrite <- E. apply H2.
Qed.

Lemma select_full rows :
  NoDup (map r_id rows) ->
  cache_full (map r_id (filter (fun r => Bool.eqb (r_completed r) true) rows)) (tabC rows) /\
  cache_full (map r_id (filter (fun r => Bool.eqb (r_completed r) false) rows)) (tabN rows).
Proof.
  intros Hnd. split; (split; [now apply NoDup_map_filter|]); intros y;
    rewrite In_select by assumption; unfold tabC, tabN; destruct (lookup rows y) as [r|];
    try (split; [intros [r' [H _]]; congruence|cbn; congruence]);
    destruct (r_completed r) eqn:E; cbn [present]; split; intros H;
    try congruence; try (eexists; split; [reflexivity|assumption]);
    destruct H as [r' [H1 H2]]; inversion H1; subst; congruence.
Qed.

Lemma cache_full_nil_select c t : cache_full c t -> c = [] -> forall l, cache_full l t -> l = [].
Proof.
  intros [_ H] -> l [_ Hl]. destruct l as [|y l']; [reflexivity|].
  exfalso. assert (In y []) by (apply H, Hl; now left). contradiction.
Qed.

(** the two member properties: afterwards both caches are complete *)
Lemma members_spec s :
  inv s ->
  exists c n,
    sq_members s = (mkQ (q_mode s) (q_rows s) (q_logs s) c n (q_logid s), c ++ n) /\
    cache_full c (tabC (q_rows s)) /\ cache_full n (tabN (q_rows s)).
Proof.
  intros [Hnd _ _ Hc Hn]. destruct (select_full _ Hnd) as [Sc Sn].
  unfold sq_members, sq_completed_prop, sq_nc_prop, select_members.
  destruct s as [m rows logs cc nc lid]; cbn [q_completed q_ncache q_rows q_mode q_logs q_logid qwith_completed qwith_ncache] in *.
  destruct cc as [|c0 cc]; destruct nc as [|n0 nc]; cbn [q_completed q_ncache q_rows q_mode q_logs q_logid qwith_completed qwith_ncache].
  - eexists _, _. split; [reflexivity|]. split; assumption.
  - destruct Hn as [Hn|Hn]; [discriminate|]. eexists _, _. split; [reflexivity|]. split; assumption.
  - destruct Hc as [Hc|Hc]; [discriminate|]. eexists _, _. split; [reflexivity|]. split; assumption.
  - destruct Hc as [Hc|Hc]; [discriminate|]. destruct Hn as [Hn|Hn]; [discriminate|].
    eexists _, _. split; [reflexivity|]. split; assumption.
Qed.

Definition has_row (rows : list row) (x : str) : bool :=
  match lookup rows x with Some _ => true | None => false end.

Lemma mem_members rows c n x :
  cache_full c (tabC rows) -> cache_full n (tabN rows) -> mem_str x (c ++ n) = has_row rows x.
Proof.
  intros [_ Hc] [_ Hn]. unfold has_row.
  destruct (mem_str x (c ++ n)) eqn:E.
  - apply mem_str_In in E. apply in_app_iff in E. destruct E as [E|E]; [apply Hc in E|apply Hn in E];
      unfold tabC, tabN in E; destruct (lookup rows x); cbn in E; congruence.
  - apply mem_str_false in E. rewrite in_app_iff in E.
    destruct (lookup rows x) as [r|] eqn:L; [|reflexivity]. exfalso. apply E.
    destruct (r_completed r) eqn:B; [left; apply Hc|right; apply Hn]; unfold tabC, tabN; now rewrite L, B.
Qed.

Lemma contains_spec s x :
  inv s ->
  exists c n,
    sq_contains s x = (mkQ (q_mode s) (q_rows s) (q_logs s) c n (q_logid s), has_row (q_rows s) x) /\
    cache_full c (tabC (q_rows s)) /\ cache_full n (tabN (q_rows s)).
Proof.
  intros Hi. destruct (members_spec s Hi) as [c [n [E [Hc Hn]]]].
  exists c, n. unfold sq_contains. rewrite E. rewrite (mem_members _ _ _ _ Hc Hn). auto.
Qed.

Lemma row_exists_has s x : row_exists s x = has_row (q_rows s) x.
Proof.
  unfold row_exists, has_row, lookup. induction (q_rows s) as [|h t IH]; cbn; [reflexivity|].
  destruct (str_eqb (r_id h) x); cbn; [reflexivity|apply IH].
Qed.

Lemma full_ok c t : cache_full c t -> cache_ok c t.
Proof. intros; now right. Qed.

(** ------------------------------------------------------------------ effect of the three SQL statements on the tables *)

Definition upd_row (x data : str) (b : bool) (lid : Z) (r : row) : row :=
  if str_eqb (r_id r) x then mkRow (r_id r) data data b lid else r.

Lemma upd_row_id x data b lid r : r_id (upd_row x data b lid r) = r_id r.
Proof. unfold upd_row. destruct (str_eqb (r_id r) x); reflexivity. Qed.

Lemma tab_update rows x data b lid y :
  has_row rows x = true ->
  tabC (map (upd_row x data b lid) rows) y = (if str_eqb y x then (if b then Some data else None) else tabC rows y) /\
  tabN (map (upd_row x data b lid) rows) y = (if str_eqb y x then (if b then None else Some data) else tabN rows y).
Proof.
  intros Hx. unfold tabC, tabN. rewrite lookup_map by apply upd_row_id.
  destruct (lookup rows y) as [r|] eqn:L; cbn [option_map].
  - apply lookup_Some in L. destruct L as [_ <-]. unfold upd_row.
    destruct (str_eqb (r_id r) x); cbn [r_completed r_data]; destruct b; auto.
  - destruct (str_eqb_spec y x) as [->|_]; [|auto]. unfold has_row in Hx. rewrite L in Hx. discriminate.
Qed.

Lemma tab_insert rows x data b lid y :
  has_row rows x = false ->
  tabC (rows ++ [mkRow x data data b lid]) y = (if str_eqb y x then (if b then Some data else None) else tabC rows y) /\
  tabN (rows ++ [mkRow x data data b lid]) y = (if str_eqb y x then (if b then None else Some data) else tabN rows y).
Proof.
  intros Hx. unfold tabC, tabN. rewrite lookup_app. cbn [r_id].
  destruct (lookup rows y) as [r|] eqn:L.
  - destruct (str_eqb_spec y x) as [->|_]; [|auto]. unfold has_row in Hx. rewrite L in Hx. discriminate.
  - rewrite (str_eqb_sym x y). destruct (str_eqb y x); cbn [r_completed r_data]; destruct b; auto.
Qed.

Lemma tab_delete_one rows k y :
  NoDup (map r_id rows) ->
  let keep := fun r => r_completed r || negb (str_eqb (r_id r) k) in
  tabC (filter keep rows) y = tabC rows y /\
  tabN (filter keep rows) y = (if str_eqb y k then None else tabN rows y).
Proof.
  intros Hnd keep. unfold tabC, tabN. rewrite lookup_filter by assumption.
  destruct (lookup rows y) as [r|] eqn:L.
  - apply lookup_Some in L. destruct L as [_ <-]. unfold keep.
    destruct (r_completed r) eqn:B; cbn [orb]; rewrite ?B.
    + destruct (str_eqb (r_id r) k); auto.
    + destruct (str_eqb (r_id r) k); cbn [negb]; rewrite ?B; auto.
  - destruct (str_eqb y k); auto.
Qed.

Lemma tab_delete_all rows y :
  NoDup (map r_id rows) ->
  tabC (filter r_completed rows) y = tabC rows y /\ tabN (filter r_completed rows) y = None.
Proof.
  intros Hnd. unfold tabC, tabN. rewrite lookup_filter by assumption.
  destruct (lookup rows y) as [r|] eqn:L; [|auto].
  destruct (r_completed r) eqn:B; rewrite ?B; auto.
Qed.

Lemma NoDup_map_upd x data b lid rows :
  NoDup (map r_id rows) -> NoDup (map r_id (map (upd_row x data b lid) rows)).
Proof.
  intros H. rewrite map_map.
  replace (map (fun r => r_id (upd_row x data b lid r)) rows) with (map r_id rows); [assumption|].
  apply map_ext. intros r. symmetry. apply upd_row_id.
Qed.

Lemma NoDup_insert rows r :
  NoDup (map r_id rows) -> has_row rows (r_id r) = false -> NoDup (map r_id (rows ++ [r])).
Proof.
  intros Hnd Hx. rewrite map_app. cbn [map]. apply NoDup_snoc; [assumption|].
  rewrite lookup_In. unfold has_row in Hx. destruct (lookup rows (r_id r)); congruence.
Qed.

Ltac splits := repeat match goal with |- _ /\ _ => split end.

(** ------------------------------------------------------------------ the methods *)

Lemma init_log_fields s :
  q_rows (sq_init_log s) = q_rows s /\ q_mode (sq_init_log s) = q_mode s /\
  q_completed (sq_init_log s) = q_completed s /\ q_ncache (sq_init_log s) = q_ncache s.
Proof. unfold sq_init_log. destruct (q_logid s); cbn; auto. Qed.

Lemma init_log_inv s : inv s -> inv (sq_init_log s).
Proof.
  intros [H1 H2 H3 H4 H5]. destruct (init_log_fields s) as [E1 [E2 [E3 E4]]].
  constructor; rewrite ?E1, ?E3, ?E4; assumption.
Qed.

(** what [_write(table_name=results)] does: the caches it leaves are complete
    for the rows as they were BEFORE the statement *)
Lemma write_row_spec v s x data b :
  v_sqlupd v = true -> inv s -> sql_wf_id x = true ->
  let s' := fst (sq_write_row v s x data b) in
  let r := snd (sq_write_row v s x data b) in
  q_mode s' = q_mode s /\
  cache_full (q_completed s') (tabC (q_rows s)) /\ cache_full (q_ncache s') (tabN (q_rows s)) /\
  NoDup (map r_id (q_rows s')) /\ (forall r, In r (q_rows s') -> r_md5 r = r_data r) /\
  (forall r, In r (q_rows s') -> sql_wf_id (r_id r) = true) /\
  ((r = ROk (Some x) /\ (mode_eqb (q_mode s) MA = false \/ has_row (q_rows s) x = false) /\
    forall y,
      tabC (q_rows s') y = (if str_eqb y x then (if b then Some data else None) else tabC (q_rows s) y) /\
      tabN (q_rows s') y = (if str_eqb y x then (if b then None else Some data) else tabN (q_rows s) y))
   \/ (r = RExc E_Other /\ q_rows s' = q_rows s /\ mode_eqb (q_mode s) MA = true /\ has_row (q_rows s) x = true)).
Proof.
  intros Hv Hi Hx. destruct v as [f1 f2 f3 f4 f5 f6]. cbn [v_sqlupd] in Hv. subst f6.
  pose proof (init_log_inv s Hi) as Hi0. destruct (init_log_fields s) as [E1 [E2 [E3 E4]]].
  destruct (contains_spec (sq_init_log s) x Hi0) as [c [n [Ec [Hc Hn]]]].
  unfold sq_write_row. cbn zeta. rewrite Ec. cbn [v_sqlupd q_mode q_rows qwith_rows].
  rewrite row_exists_has. cbn [q_rows]. rewrite E1, E2 in *.
  destruct Hi as [Hnd Hmd Hns _ _].
  set (lid := match q_logid (sq_init_log s) with Some z => z | None => 0 end).
  destruct (has_row (q_rows s) x) eqn:Hr; cbn [andb].
  - destruct (mode_eqb (q_mode s) MA) eqn:Hm; cbn [negb fst snd q_mode q_rows q_completed q_ncache].
    + splits; auto.
    + splits; auto.
      * fold (upd_row x data b lid). now apply NoDup_map_upd.
      * intros r Hin. apply in_map_iff in Hin. destruct Hin as [r0 [<- Hr0]].
        destruct (str_eqb (r_id r0) x); cbn; auto.
      * intros r Hin. apply in_map_iff in Hin. destruct Hin as [r0 [<- Hr0]].
        destruct (str_eqb (r_id r0) x); cbn [r_id]; auto.
      * left. split; [reflexivity|]. split; [now left|]. intros y.
        fold (upd_row x data b lid). now apply tab_update.
  - cbn [fst snd q_mode q_rows q_completed q_ncache]. splits; auto.
    + change x with (r_id (mkRow x data data b lid)) at 1. apply NoDup_insert; assumption.
    + intros r Hin. apply in_app_iff in Hin. destruct Hin as [Hin|[<-|[]]]; cbn; auto.
    + intros r Hin. apply in_app_iff in Hin. destruct Hin as [Hin|[<-|[]]]; cbn [r_id]; auto.
    + left. split; [reflexivity|]. split; [now right|]. intros y. now apply tab_insert.
Qed.

(** ------------------------------------------------------------------ caches follow the tables *)

Definition teq (t t' : table) : Prop := forall y, t y = t' y.

Lemma cache_full_teq c t t' : teq t t' -> cache_full c t -> cache_full c t'.
Proof. intros E. apply cache_full_ext. intros y. now rewrite E. Qed.

Lemma cache_add_full c t k v :
  cache_full c t -> cache_full (if mem_str k c then c else c ++ [k]) (t_set t k (Some v)).
Proof.
  intros [Hnd H]. destruct (mem_str k c) eqn:E.
  - apply mem_str_In in E. split; [assumption|]. intros y. unfold t_set.
    destruct (str_eqb_spec y k) as [->|Hn]; [cbn; tauto|apply H].
  - apply mem_str_false in E. split; [now apply NoDup_snoc|]. intros y. unfold t_set.
    rewrite in_app_iff. cbn [In]. destruct (str_eqb_spec y k) as [->|Hn]; [cbn; tauto|].
    rewrite H. split; [intros [?|[?|[]]]; [assumption|congruence]|auto].
Qed.

Lemma cache_keep_full c t k :
  cache_full c t -> present (t k) = false -> cache_full c (t_set t k None).
Proof.
  intros Hc Hk. eapply cache_full_ext; [|exact Hc]. intros y. unfold t_set.
  destruct (str_eqb_spec y k) as [->|Hn]; [now rewrite Hk|reflexivity].
Qed.

Lemma cache_remove_full c t k :
  cache_full c t -> cache_full (if mem_str k c then remove_first k c else c) (t_set t k None).
Proof.
  intros [Hnd H]. destruct (mem_str k c) eqn:E.
  - split; [now apply remove_first_NoDup|]. intros y. rewrite remove_first_In by assumption.
    unfold t_set. destruct (str_eqb_spec y k) as [->|Hn]; [cbn; split; [tauto|congruence]|].
    rewrite H. tauto.
  - apply mem_str_false in E. apply cache_keep_full; [now split|].
    destruct (present (t k)) eqn:P; [|reflexivity]. exfalso. apply E, H, P.
Qed.

Lemma has_row_tabs rows x : has_row rows x = present (tabC rows x) || present (tabN rows x).
Proof.
  unfold has_row, tabC, tabN. destruct (lookup rows x) as [r|]; [|reflexivity].
  destruct (r_completed r); reflexivity.
Qed.

Lemma check_writable_spec s x :
  inv s ->
  (q_mode s = MR /\ sq_check_writable s x = (s, Some E_IO)) \/
  (q_mode s <> MR /\ exists c n,
     cache_full c (tabC (q_rows s)) /\ cache_full n (tabN (q_rows s)) /\
     sq_check_writable s x =
       (mkQ (q_mode s) (q_rows s) (q_logs s) c n (q_logid s),
        if has_row (q_rows s) x && mode_eqb (q_mode s) MA then Some E_IO else None)).
Proof.
  intros Hi. unfold sq_check_writable.
  destruct (contains_spec s x Hi) as [c [n [E [Hc Hn]]]].
  destruct (q_mode s) eqn:M.
  - left. auto.
  - right. split; [congruence|]. exists c, n. rewrite E. cbn [mode_eqb]. rewrite andb_false_r. auto.
  - right. split; [congruence|]. exists c, n. rewrite E. cbn [mode_eqb]. rewrite andb_true_r.
    destruct (has_row (q_rows s) x); auto.
Qed.

Lemma inv_refreshed s c n :
  inv s -> cache_full c (tabC (q_rows s)) -> cache_full n (tabN (q_rows s)) ->
  inv (mkQ (q_mode s) (q_rows s) (q_logs s) c n (q_logid s)).
Proof.
  intros [H1 H2 H3 _ _] Hc Hn. constructor; cbn; auto using full_ok.
Qed.

Lemma wf_id_nonempty x : sql_wf_id x = true -> x <> [].
Proof. intros H ->. discriminate. Qed.

(** DELETE of one not-completed row *)
Lemma drop_one_spec s k :
  inv s -> q_mode s <> MR -> k <> [] ->
  exists s',
    sq_drop s k = (s', None) /\ inv s' /\ q_mode s' = q_mode s /\
    q_completed s' = q_completed s /\
    teq (tabC (q_rows s')) (tabC (q_rows s)) /\
    teq (tabN (q_rows s')) (t_set (tabN (q_rows s)) k None).
Proof.
  intros [Hnd Hmd Hns Hcc Hnc] Hm Hk. unfold sq_drop.
  destruct (q_mode s) eqn:M; [congruence| |];
    destruct k as [|k0 k']; try congruence;
    (eexists; split; [reflexivity|]);
    pose proof (tab_delete_one (q_rows s) (k0 :: k')) as T; cbn zeta in T;
    (split; [constructor; cbn [q_rows q_completed q_ncache qwith_rows qwith_ncache];
             [now apply NoDup_map_filter
             |intros r Hr; apply filter_In in Hr; apply Hmd; tauto
             |intros r Hr; apply filter_In in Hr; apply Hns; tauto
             |destruct Hcc as [->|Hcc]; [now left|right; eapply cache_full_teq; [|exact Hcc]; intros y; symmetry; now apply T]
             |now left]|]);
    cbn [q_rows q_completed q_ncache q_mode qwith_rows qwith_ncache];
    (split; [assumption|]); (split; [reflexivity|]);
    (split; intros y; [now apply T|unfold t_set; now apply T]).
Qed.

Lemma drop_all_spec s :
  inv s -> q_mode s <> MR ->
  exists s',
    sq_drop s [] = (s', None) /\ inv s' /\ q_mode s' = q_mode s /\
    teq (tabC (q_rows s')) (tabC (q_rows s)) /\
    teq (tabN (q_rows s')) t_empty.
Proof.
  intros [Hnd Hmd Hns Hcc Hnc] Hm. unfold sq_drop.
  destruct (q_mode s) eqn:M; [congruence| |];
    (eexists; split; [reflexivity|]);
    pose proof (tab_delete_all (q_rows s)) as T;
    (split; [constructor; cbn [q_rows q_completed q_ncache qwith_rows qwith_ncache];
             [now apply NoDup_map_filter
             |intros r Hr; apply filter_In in Hr; apply Hmd; tauto
             |intros r Hr; apply filter_In in Hr; apply Hns; tauto
             |destruct Hcc as [->|Hcc]; [now left|right; eapply cache_full_teq; [|exact Hcc]; intros y; symmetry; now apply T]
             |now left]|]);
    cbn [q_rows q_completed q_ncache q_mode qwith_rows qwith_ncache];
    (split; [assumption|]);
    (split; intros y; now apply T).
Qed.

(** ------------------------------------------------------------------ one step preserves the abstraction *)

Lemma R_refreshed s d c n :
  R s d -> cache_full c (tabC (q_rows s)) -> cache_full n (tabN (q_rows s)) ->
  R (mkQ (q_mode s) (q_rows s) (q_logs s) c n (q_logid s)) d.
Proof.
  intros [Hm [HC [HN Hi]]] Hc Hn. split; [exact Hm|]. split; [exact HC|]. split; [exact HN|].
  now apply inv_refreshed.
Qed.

Lemma present_has s d k :
  R s d -> has_row (q_rows s) k = present (dc d k) || present (dn d k).
Proof. intros [_ [HC [HN _]]]. rewrite has_row_tabs, HC, HN. reflexivity. Qed.

Lemma step_write v s d id data :
  v_sqlupd v = true -> R s d -> sql_wf_op (OWrite id data) = true ->
  R (fst (sq_write v s id data)) (sp_step sql_policy d (AWrite (sql_lid id) data)).
Proof.
  intros Hv HR Hwf. cbn [sql_wf_op] in Hwf. apply andb_true_iff in Hwf. destruct Hwf as [Hk Hwk].
  apply str_eqb_eq in Hk. unfold sq_write. rewrite Hk. set (k := sql_lid id) in *.
  pose proof HR as [Hm [HC [HN Hi]]].
  destruct (check_writable_spec s k Hi) as [[M E]|[M [c [n [Hc [Hn E]]]]]]; rewrite E.
  - cbn [fst sp_step]. rewrite <- Hm, M. exact HR.
  - pose proof (R_refreshed s d c n HR Hc Hn) as HR1.
    pose proof (present_has s d k HR) as Hp.
    destruct (has_row (q_rows s) k && mode_eqb (q_mode s) MA) eqn:B.
    + cbn [fst sp_step]. apply andb_true_iff in B. destruct B as [B1 B2].
      destruct (q_mode s) eqn:M'; try discriminate. rewrite <- Hm.
      cbn [sql_policy append_completes_nc negb]. rewrite andb_true_r, <- Hp, B1. exact HR1.
    + set (s1 := mkQ (q_mode s) (q_rows s) (q_logs s) c n (q_logid s)) in *.
      destruct HR1 as [_ [_ [_ Hi1]]].
      destruct (drop_one_spec s1 k Hi1 M (wf_id_nonempty k Hwk)) as [s2 [E2 [Hi2 [M2 [C2 [TC2 TN2]]]]]].
      rewrite E2.
      assert (M2' : q_mode s2 = q_mode s) by (rewrite M2; reflexivity).
      pose proof (write_row_spec v s2 k data true Hv Hi2 Hwk) as W. cbn zeta in W.
      destruct (sq_write_row v s2 k data true) as [s3 r]. cbn [fst snd] in W.
      destruct W as [M3 [Hc3 [Hn3 [Hnd3 [Hmd3 [Hns3 [[-> [_ T3]]|[-> [E3 [MA3 H3]]]]]]]]]].
      * (* written *)
        assert (D : sp_step sql_policy d (AWrite k data) =
                    mkDict (dm d) (t_set (dc d) k (Some data)) (t_set (dn d) k None)).
        { cbn [sp_step]. rewrite <- Hm. cbn [s1 q_mode] in M2.
          destruct (q_mode s) eqn:M'; [congruence|reflexivity|].
          cbn [mode_eqb] in B. rewrite andb_true_r in B. rewrite Hp in B.
          cbn [sql_policy append_completes_nc negb]. rewrite andb_true_r, B. reflexivity. }
        rewrite D.
        assert (TC : teq (tabC (q_rows s3)) (t_set (dc d) k (Some data))).
        { intros y. destruct (T3 y) as [T _]. rewrite T. unfold t_set. rewrite TC2. cbn [s1 q_rows]. now rewrite HC. }
        assert (TN : teq (tabN (q_rows s3)) (t_set (dn d) k None)).
        { intros y. destruct (T3 y) as [_ T]. rewrite T. unfold t_set. rewrite TN2. cbn [s1 q_rows]. unfold t_set.
          rewrite HN. destruct (str_eqb y k); reflexivity. }
        assert (Hcc : cache_full (if mem_str k (q_completed s3) then q_completed s3 else q_completed s3 ++ [k])
                                 (tabC (q_rows s3))).
        { eapply cache_full_teq; [|apply (cache_add_full _ (tabC (q_rows s2)) k data Hc3)].
          intros y. destruct (T3 y) as [T _]. rewrite T. reflexivity. }
        assert (Hnn : cache_full (q_ncache s3) (tabN (q_rows s3))).
        { eapply cache_full_teq; [|apply (cache_keep_full _ (tabN (q_rows s2)) k Hn3)].
          - intros y. destruct (T3 y) as [_ T]. rewrite T. reflexivity.
          - rewrite TN2. unfold t_set. now rewrite str_eqb_refl. }
        destruct (mem_str k (q_completed s3)) eqn:Mem; cbn [fst].
        -- split; [cbn [dm]; congruence|]. split; [intros x; cbn [dc]; now rewrite TC|].
           split; [intros x; cbn [dn]; now rewrite TN|]. constructor; auto using full_ok.
        -- destruct s3 as [m3 rows3 logs3 c3 n3 lid3]. unfold qwith_completed. cbn [q_mode q_rows q_logs q_completed q_ncache q_logid] in *.
           split; [cbn [dm q_mode]; congruence|]. split; [intros x; cbn [dc q_rows]; now rewrite TC|].
           split; [intros x; cbn [dn q_rows]; now rewrite TN|]. constructor; cbn; auto using full_ok.
      * (* INSERT refused: impossible, the row would have been seen by _check_writable *)
        exfalso. rewrite M2 in MA3. cbn [s1 q_mode] in MA3. rewrite MA3, andb_true_r in B.
        rewrite has_row_tabs in H3. rewrite TC2, TN2 in H3. unfold t_set in H3. rewrite str_eqb_refl in H3.
        cbn [present] in H3. rewrite orb_false_r in H3. cbn [s1 q_rows] in H3.
        rewrite has_row_tabs, H3 in B. discriminate.
Qed.

Lemma step_write_nc v s d id data :
  v_sqlupd v = true -> R s d -> sql_wf_op (OWriteNC id data) = true ->
  R (fst (sq_write_nc v s id data)) (sp_step sql_policy d (AWriteNC (sql_lid id) data)).
Proof.
  intros Hv HR Hwf. cbn [sql_wf_op] in Hwf. apply andb_true_iff in Hwf. destruct Hwf as [Hk Hwk].
  apply str_eqb_eq in Hk. unfold sq_write_nc. rewrite Hk. set (k := sql_lid id) in *.
  pose proof HR as [Hm [HC [HN Hi]]].
  destruct (check_writable_spec s k Hi) as [[M E]|[M [c [n [Hc [Hn E]]]]]]; rewrite E.
  - cbn [fst sp_step]. rewrite <- Hm, M. exact HR.
  - pose proof (R_refreshed s d c n HR Hc Hn) as HR1.
    pose proof (present_has s d k HR) as Hp.
    destruct (has_row (q_rows s) k && mode_eqb (q_mode s) MA) eqn:B.
    + cbn [fst sp_step]. apply andb_true_iff in B. destruct B as [B1 B2].
      destruct (q_mode s) eqn:M'; try discriminate. rewrite <- Hm.
      cbn [sql_policy append_rewrites_nc negb]. rewrite andb_true_r.
      rewrite <- Hp, B1. exact HR1.
    + set (s1 := mkQ (q_mode s) (q_rows s) (q_logs s) c n (q_logid s)) in *.
      destruct HR1 as [_ [_ [_ Hi1]]].
      pose proof (write_row_spec v s1 k data false Hv Hi1 Hwk) as W. cbn zeta in W.
      destruct (sq_write_row v s1 k data false) as [s3 r]. cbn [fst snd] in W.
      assert (M1 : q_mode s1 = q_mode s) by reflexivity.
      assert (R1 : q_rows s1 = q_rows s) by reflexivity.
      destruct W as [M3 [Hc3 [Hn3 [Hnd3 [Hmd3 [Hns3 [[-> [_ T3]]|[-> [E3 [MA3 H3]]]]]]]]]].
      * assert (D : exists dc', sp_step sql_policy d (AWriteNC k data) = mkDict (dm d) dc' (t_set (dn d) k (Some data))
                                /\ teq dc' (t_set (dc d) k None)).
        { cbn [sp_step]. rewrite <- Hm.
          destruct (q_mode s) eqn:M'; [congruence| |].
          - eexists. split; [reflexivity|]. intros y. reflexivity.
          - cbn [mode_eqb] in B. rewrite andb_true_r in B. rewrite Hp in B.
            cbn [sql_policy append_rewrites_nc negb]. rewrite andb_true_r. rewrite B.
            eexists. split; [reflexivity|]. intros y. unfold t_set.
            destruct (str_eqb_spec y k) as [->|]; [|reflexivity].
            apply orb_false_iff in B. destruct B as [B _]. destruct (dc d k); [discriminate|reflexivity]. }
        destruct D as [dc' [D Edc]]. rewrite D.
        assert (TC : teq (tabC (q_rows s3)) dc').
        { intros y. destruct (T3 y) as [T _]. rewrite T, Edc. unfold t_set. rewrite R1. now rewrite HC. }
        assert (TN : teq (tabN (q_rows s3)) (t_set (dn d) k (Some data))).
        { intros y. destruct (T3 y) as [_ T]. rewrite T. unfold t_set. rewrite R1. now rewrite HN. }
        assert (Hcc : cache_full (if mem_str k (q_completed s3) then remove_first k (q_completed s3) else q_completed s3)
                                 (tabC (q_rows s3))).
        { eapply cache_full_teq; [|apply (cache_remove_full _ (tabC (q_rows s1)) k Hc3)].
          intros y. destruct (T3 y) as [T _]. rewrite T. reflexivity. }
        assert (Hnn : cache_full (if mem_str k (q_ncache s3) then q_ncache s3 else q_ncache s3 ++ [k])
                                 (tabN (q_rows s3))).
        { eapply cache_full_teq; [|apply (cache_add_full _ (tabN (q_rows s1)) k data Hn3)].
          intros y. destruct (T3 y) as [_ T]. rewrite T. reflexivity. }
        destruct v as [f1 f2 f3 f4 f5 f6]. cbn [v_sqlupd] in Hv. subst f6. cbn [v_sqlupd].
        destruct s3 as [m3 rows3 logs3 c3 n3 lid3].
        cbn [q_mode q_rows q_logs q_completed q_ncache q_logid] in *.
        destruct (mem_str k c3); unfold qwith_completed, qwith_ncache;
          cbn [q_mode q_rows q_logs q_completed q_ncache q_logid];
          destruct (mem_str k n3); cbn [fst q_mode q_rows q_logs q_completed q_ncache q_logid];
          (split; [cbn [dm q_mode]; congruence|]); (split; [intros x; cbn [dc q_rows]; now rewrite TC|]);
          (split; [intros x; cbn [dn q_rows]; now rewrite TN|]); constructor; cbn; auto using full_ok.
      * (* INSERT refused: impossible *)
        exfalso. rewrite M1 in MA3. rewrite R1 in H3. rewrite MA3, H3 in B. discriminate.
Qed.

Lemma step_write_log s d id data :
  R s d -> R (fst (sq_write_log s id data)) d.
Proof.
  intros HR. unfold sq_write_log. pose proof HR as [Hm [HC [HN Hi]]].
  destruct (check_writable_spec s (strip_table s_logs id) Hi) as [[M E]|[M [c [n [Hc [Hn E]]]]]]; rewrite E.
  - exact HR.
  - pose proof (R_refreshed s d c n HR Hc Hn) as HR1.
    destruct (_ && _); [exact HR1|]. cbn [fst].
    set (s1 := mkQ (q_mode s) (q_rows s) (q_logs s) c n (q_logid s)) in *.
    destruct (init_log_fields s1) as [E1 [E2 [E3 E4]]].
    destruct HR1 as [Hm1 [HC1 [HN1 [I1 I2 I3 I4 I5]]]].
    split; [cbn; now rewrite E2|]. split; [intros x; cbn [qwith_logs q_rows]; rewrite E1; apply HC1|].
    split; [intros x; cbn [qwith_logs q_rows]; rewrite E1; apply HN1|].
    constructor; cbn [qwith_logs q_rows q_completed q_ncache]; rewrite ?E1, ?E3, ?E4; assumption.
Qed.

Lemma step_drop s d id :
  R s d -> id <> [] ->
  R (fst (let (s1, e) := sq_drop s id in (s1, match e with Some c => RExc c | None => ROk None end)))
    (sp_step sql_policy d (ADrop id)).
Proof.
  intros HR Hid. pose proof HR as [Hm [HC [HN Hi]]].
  destruct (q_mode s) eqn:M.
  - unfold sq_drop. rewrite M. cbn [fst sp_step]. rewrite <- Hm. exact HR.
  - destruct (drop_one_spec s id Hi) as [s2 [E2 [Hi2 [M2 [C2 [TC2 TN2]]]]]]; [congruence|assumption|].
    rewrite E2. cbn [fst sp_step]. rewrite <- Hm.
    split; [cbn [dm]; congruence|]. split; [intros x; cbn [dc]; now rewrite TC2|].
    split; [intros x; cbn [dn]; rewrite TN2; unfold t_set; now rewrite HN|assumption].
  - destruct (drop_one_spec s id Hi) as [s2 [E2 [Hi2 [M2 [C2 [TC2 TN2]]]]]]; [congruence|assumption|].
    rewrite E2. cbn [fst sp_step]. rewrite <- Hm.
    split; [cbn [dm]; congruence|]. split; [intros x; cbn [dc]; now rewrite TC2|].
    split; [intros x; cbn [dn]; rewrite TN2; unfold t_set; now rewrite HN|assumption].
Qed.

Lemma step_drop_all s d :
  R s d ->
  R (fst (let (s1, e) := sq_drop s [] in (s1, match e with Some c => RExc c | None => ROk None end)))
    (sp_step sql_policy d ADropAll).
Proof.
  intros HR. pose proof HR as [Hm [HC [HN Hi]]].
  destruct (q_mode s) eqn:M.
  - unfold sq_drop. rewrite M. cbn [fst sp_step]. rewrite <- Hm. exact HR.
  - destruct (drop_all_spec s Hi) as [s2 [E2 [Hi2 [M2 [TC2 TN2]]]]]; [congruence|].
    rewrite E2. cbn [fst sp_step]. rewrite <- Hm.
    split; [cbn [dm]; congruence|]. split; [intros x; cbn [dc]; now rewrite TC2|].
    split; [intros x; cbn [dn]; now rewrite TN2|assumption].
  - destruct (drop_all_spec s Hi) as [s2 [E2 [Hi2 [M2 [TC2 TN2]]]]]; [congruence|].
    rewrite E2. cbn [fst sp_step]. rewrite <- Hm.
    split; [cbn [dm]; congruence|]. split; [intros x; cbn [dc]; now rewrite TC2|].
    split; [intros x; cbn [dn]; now rewrite TN2|assumption].
Qed.

Lemma step_reopen s d m : R s d -> R (sq_reopen s m) (sp_step sql_policy d (AReopen m)).
Proof.
  intros [Hm [HC [HN [I1 I2 I3 I4 I5]]]]. split; [reflexivity|]. split; [exact HC|]. split; [exact HN|].
  constructor; cbn; auto; now left.
Qed.

Lemma step_R v s d o :
  v_sqlupd v = true -> R s d -> sql_wf_op o = true ->
  R (fst (sq_step v s o)) (sp_step sql_policy d (sql_aop o)).
Proof.
  intros Hv HR Hwf. destruct o as [id data|id data|id data|id| |m]; cbn [sq_step sql_aop].
  - now apply step_write.
  - now apply step_write_nc.
  - apply step_write_log. exact HR.
  - apply step_drop; [assumption|]. cbn in Hwf. intros ->. discriminate.
  - now apply step_drop_all.
  - now apply step_reopen.
Qed.

(** ------------------------------------------------------------------ every history; observations *)

Definition sq_run (v : variant) (s : sqlstore) (ops : list op) : sqlstore :=
  fold_left (fun s o => fst (sq_step v s o)) ops s.

Lemma R_new m : R (sq_new m) (d_new m).
Proof.
  split; [reflexivity|]. split; [reflexivity|]. split; [reflexivity|].
  constructor; cbn; try (now left); try constructor; intros r [].
Qed.

Lemma run_R v ops : forall s d,
  v_sqlupd v = true -> forallb sql_wf_op ops = true -> R s d ->
  R (sq_run v s ops) (sp_run sql_policy d (map sql_aop ops)).
Proof.
  induction ops as [|o ops IH]; intros s d Hv Hwf HR; [exact HR|].
  cbn [forallb] in Hwf. apply andb_true_iff in Hwf. destruct Hwf as [Ho Hops].
  cbn [sq_run sp_run fold_left map]. apply IH; [assumption|assumption|]. now apply step_R.
Qed.

(** what a client observes: the two member listings (after the lazy refresh),
    and content and checksum of every member *)
Definition sql_obs_match (s : sqlstore) (d : dict) : Prop :=
  let '(s1, c) := sq_completed_prop s in
  let '(s2, n) := sq_nc_prop s1 in
  q_mode s2 = dm d /\
  NoDup c /\ NoDup n /\
  (forall x, In x c <-> present (dc d x) = true) /\
  (forall x, In x n <-> present (dn d x) = true) /\
  (forall x v, dc d x = Some v -> sq_read s2 x = inl v /\ sq_md5 s2 x = Some v) /\
  (forall x v, dn d x = Some v -> sq_read s2 x = inl v /\ sq_md5 s2 x = Some v) /\
  (forall x, dc d x = None -> dn d x = None -> sq_md5 s2 x = None).

Lemma obs_R s d : R s d -> sql_obs_match s d.
Proof.
  intros [Hm [HC [HN Hi]]]. pose proof Hi as [Hnd Hmd Hns Hcc Hnc].
  destruct (select_full _ Hnd) as [Sc Sn].
  unfold sql_obs_match, sq_completed_prop, sq_nc_prop, select_members.
  assert (Obs : forall c n, cache_full c (tabC (q_rows s)) -> cache_full n (tabN (q_rows s)) ->
     let s2 := mkQ (q_mode s) (q_rows s) (q_logs s) c n (q_logid s) in
     q_mode s2 = dm d /\ NoDup c /\ NoDup n /\
     (forall x, In x c <-> present (dc d x) = true) /\
     (forall x, In x n <-> present (dn d x) = true) /\
     (forall x v, dc d x = Some v -> sq_read s2 x = inl v /\ sq_md5 s2 x = Some v) /\
     (forall x v, dn d x = Some v -> sq_read s2 x = inl v /\ sq_md5 s2 x = Some v) /\
     (forall x, dc d x = None -> dn d x = None -> sq_md5 s2 x = None)).
  { intros c n [Hc1 Hc2] [Hn1 Hn2] s2. splits; auto.
    - intros x. rewrite HC. apply Hc2.
    - intros x. rewrite HN. apply Hn2.
    - intros x v Hx. rewrite HC in Hx. unfold tabC in Hx.
      destruct (lookup (q_rows s) x) as [r|] eqn:L; [|discriminate].
      destruct (r_completed r); [|discriminate]. inversion Hx; subst.
      pose proof (lookup_Some _ _ _ L) as [Hin Hid]. pose proof (Hns r Hin) as W.
      rewrite Hid in W. unfold sql_wf_id in W. apply andb_true_iff in W. destruct W as [W W3].
      apply andb_true_iff in W. destruct W as [W1 W2]. apply str_eqb_eq in W3.
      unfold sq_read, sq_md5, find_row. rewrite W2, W3. cbn [q_rows s2]. fold (lookup (q_rows s) x). rewrite L.
      split; [reflexivity|]. now rewrite (Hmd r Hin).
    - intros x v Hx. rewrite HN in Hx. unfold tabN in Hx.
      destruct (lookup (q_rows s) x) as [r|] eqn:L; [|discriminate].
      destruct (r_completed r); [discriminate|]. inversion Hx; subst.
      pose proof (lookup_Some _ _ _ L) as [Hin Hid]. pose proof (Hns r Hin) as W.
      rewrite Hid in W. unfold sql_wf_id in W. apply andb_true_iff in W. destruct W as [W W3].
      apply andb_true_iff in W. destruct W as [W1 W2]. apply str_eqb_eq in W3.
      unfold sq_read, sq_md5, find_row. rewrite W2, W3. cbn [q_rows s2]. fold (lookup (q_rows s) x). rewrite L.
      split; [reflexivity|]. now rewrite (Hmd r Hin).
    - intros x H1 H2. rewrite HC in H1. rewrite HN in H2. unfold tabC, tabN in *.
      unfold sq_md5, find_row. cbn [q_rows s2]. fold (lookup (q_rows s) x).
      destruct (lookup (q_rows s) x) as [r|]; [|reflexivity]. destruct (r_completed r); discriminate. }
  destruct s as [m rows logs cc nc lid];
    cbn [q_completed q_ncache q_rows q_mode q_logs q_logid qwith_completed qwith_ncache] in *.
  destruct cc as [|c0 cc]; destruct nc as [|n0 nc];
    cbn [q_completed q_ncache q_rows q_mode q_logs q_logid qwith_completed qwith_ncache].
  - apply Obs; assumption.
  - destruct Hnc as [Hnc|Hnc]; [discriminate|]. apply Obs; assumption.
  - destruct Hcc as [Hcc|Hcc]; [discriminate|]. apply Obs; assumption.
  - destruct Hcc as [Hcc|Hcc]; [discriminate|]. destruct Hnc as [Hnc|Hnc]; [discriminate|]. apply Obs; assumption.
Qed.

(** the headline: after ANY history of well-formed operations on a new store
    (re-opens included) the sqlite store shows exactly the dictionary *)
Theorem sql_refines_dict_all v m ops :
  v_sqlupd v = true -> forallb sql_wf_op ops = true ->
  sql_obs_match (sq_run v (sq_new m) ops) (sp_run sql_policy (d_new m) (map sql_aop ops)).
Proof.
  intros Hv Hwf. apply obs_R. apply run_R; [assumption|assumption|apply R_new].
Qed.

(** non-vacuity of the well-formedness condition *)
Example sql_wf_example :
  forallb sql_wf_op
    [OWriteNC [98;97] [100]; OWrite [97] [101]; OWrite (s_results_slash ++ [98;97]) [102];
     ODrop [97]; OReopen MA; OWriteNC [97;46;102;97;115;116;97] [103]; ODropAll; OWriteLog [108] [104]] = true.
Proof. reflexivity. Qed.

(** the pinned code (no C13-6): a not-completed write over a completed record
    in overwrite mode updates the data but leaves it listed as completed *)
Lemma sql_pinned_refuted :
  exists ops, forallb sql_wf_op ops = true /\
    let s := sq_run pinned (sq_new MW) ops in
    let d := sp_run sql_policy (d_new MW) (map sql_aop ops) in
    dn d [97] = Some [101] /\ snd (sq_nc_prop (fst (sq_completed_prop s))) = [].
Proof.
  exists [OWrite [97] [100]; OWriteNC [97] [101]; OReopen MR]. vm_compute. auto.
Qed.

(** ------------------------------------------------------------------ a syntactic class of well-formed operations:
    identifiers that are non-empty and contain no '/' *)

Lemma split1_none c s : ~ In c s -> split1 c s = None.
Proof.
  induction s as [|x t IH]; intros H; cbn [split1]; [reflexivity|].
  destruct (Z.eqb_spec x c) as [->|Hn]; [exfalso; apply H; now left|].
  rewrite IH; [reflexivity|]. intros Hin. apply H. now right.
Qed.

Lemma rsplit1_none c s : ~ In c s -> rsplit1 c s = None.
Proof.
  intros H. unfold rsplit1. rewrite split1_none; [reflexivity|]. intros Hin. apply H. now apply in_rev.
Qed.

Lemma startswith_In s p c : startswith s p = true -> In c p -> In c s.
Proof.
  revert s. induction p as [|y p IH]; intros s H Hin; [contradiction|].
  destruct s as [|x s]; cbn in H; [discriminate|].
  apply andb_true_iff in H. destruct H as [H1 H2]. apply Z.eqb_eq in H1. subst.
  destruct Hin as [->|Hin]; [now left|right; now apply IH].
Qed.

Definition plain_id (x : str) : bool := nonempty x && negb (existsb (Z.eqb ch_slash) x).

Lemma plain_id_spec x : plain_id x = true -> x <> [] /\ ~ In ch_slash x.
Proof.
  unfold plain_id. intros H. apply andb_true_iff in H. destruct H as [H1 H2]. split.
  - intros ->. discriminate.
  - intros Hin. apply negb_true_iff in H2. assert (existsb (Z.eqb ch_slash) x = true); [|congruence].
    apply existsb_exists. exists ch_slash. split; [assumption|apply Z.eqb_refl].
Qed.

Lemma plain_id_wf x : plain_id x = true -> sql_wf_id x = true.
Proof.
  intros H. destruct (plain_id_spec x H) as [Hne Hns]. unfold sql_wf_id, path_parent, path_name.
  rewrite (rsplit1_none _ _ Hns). rewrite !str_eqb_refl. destruct x; [congruence|reflexivity].
Qed.

Definition plain_op (o : op) : bool :=
  match o with
  | OWrite id _ | OWriteNC id _ | ODrop id => plain_id id
  | _ => true
  end.

Lemma plain_op_wf o : plain_op o = true -> sql_wf_op o = true.
Proof.
  destruct o as [id d|id d|id d|id| |m]; cbn [plain_op sql_wf_op]; intros H; try reflexivity.
  - destruct (plain_id_spec id H) as [Hne Hns].
    assert (E1 : strip_table s_results id = id).
    { unfold strip_table, path_name. rewrite (rsplit1_none _ _ Hns). destruct (startswith id s_results); reflexivity. }
    assert (E2 : sql_lid id = id).
    { unfold sql_lid. destruct (startswith id s_results_slash) eqn:E; [|reflexivity].
      exfalso. apply Hns. apply (startswith_In id s_results_slash ch_slash E). cbn. tauto. }
    rewrite E1, E2, str_eqb_refl. now apply plain_id_wf.
  - destruct (plain_id_spec id H) as [Hne Hns].
    assert (E1 : strip_table s_results id = id).
    { unfold strip_table, path_name. rewrite (rsplit1_none _ _ Hns). destruct (startswith id s_results); reflexivity. }
    assert (E2 : sql_lid id = id).
    { unfold sql_lid. destruct (startswith id s_results_slash) eqn:E; [|reflexivity].
      exfalso. apply Hns. apply (startswith_In id s_results_slash ch_slash E). cbn. tauto. }
    rewrite E1, E2, str_eqb_refl. now apply plain_id_wf.
  - destruct (plain_id_spec id H) as [Hne _]. destruct id; [congruence|reflexivity].
Qed.

Theorem sql_refines_dict_plain v m ops :
  v_sqlupd v = true -> forallb plain_op ops = true ->
  sql_obs_match (sq_run v (sq_new m) ops) (sp_run sql_policy (d_new m) (map sql_aop ops)).
Proof.
  intros Hv H. apply sql_refines_dict_all; [assumption|].
  apply forallb_forall. intros o Ho. apply plain_op_wf. rewrite forallb_forall in H. now apply H.
Qed.
