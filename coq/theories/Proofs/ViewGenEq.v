(** Translator tie for C01: the view kernel REGENERATED from the current source text
    (coq/gen/ViewGen.v, written on every run by harness/translators/py2gallina.py from
    cogent3/core/sequence.py, new_sequence.py and new_alignment.py) is proved equal, for
    ALL arguments, to the hand-written model of Model/View.v about which the C01 theorems
    are proved; the headline theorems are then transported to the generated functions.

    [ViewGen.Old]  sequence.py      SliceRecordABC + SeqView      (flavour FSeqView)
    [ViewGen.New]  new_sequence.py  SliceRecordABC + SeqView      (flavour FSeqView)
    [ViewGen.Sdv]  new_alignment.py SeqDataView over new_sequence.SliceRecordABC (FSeqDataView)

    The three parts are textually parallel.  Every equality is extensional and is proved
    by unfolding both sides, rewriting the already-proved equalities of the callees, a case
    split on every comparison ([crush]) and [lia]; nothing refers to the shape of the
    generated text beyond the names of the definitions, so a semantics-preserving edit of
    the Python source (renamed locals, reordered independent assignments, if/elif rewritten
    as a conditional expression ...) leaves this file compiling, while an edit that changes
    the value of some function on some argument makes the corresponding lemma fail: the
    check then reports the tie as broken and searches for the concrete input.

    Differences between generated code and model that are *proved* immaterial here:
    - [parent_start]/[parent_stop] carry the two [assert]s of the source as
      [Err E_Other]; the model drops them.  [parent_start_eq] states the exact relation for
      all views, [parent_start_wf] that the asserts never fire on a well-formed view.
    - the SeqView constructors take [len(seq)] and an optional [seq_len] and raise
      AssertionError when they differ; the model's [mk_view] has one length.
      [init_eq_none]/[init_eq_some] cover the two ways the kernel calls the constructor,
      [init_seq_len] shows the field [_seq_len] always holds [len(seq)] (which is what lets
      the translator read [len(self.seq)] as that field).
    - [_get_slice]/[_get_reverse_slice] receive the whole slice object; its [step]
      component is unused ([get_slice_eq] quantifies over it). *)
From CG3 Require Import Lib.PyZ Lib.Val Lib.PySlice Model.View Spec.ViewSpec Proofs.ViewProofs Proofs.ViewSeqProofs.
From CG3gen Require ViewGen.

Ltac break_opt := match goal with
  | |- context[match ?x with Some _ => _ | None => _ end] => is_var x; destruct x
  end.
(* innermost first: never destruct a condition that still contains a conditional *)
Ltac break_if := match goal with
  | |- context[if ?c then _ else _] =>
      lazymatch c with context[if _ then _ else _] => fail | _ => destruct c eqn:? end
  end.
Ltac finish := first [ reflexivity | (exfalso; lia) | (f_equal; lia) | (repeat f_equal; lia) ].
Ltac crush := cbv zeta; repeat break_opt; repeat (break_if; cbv zeta); finish.
Ltac split_triple := match goal with |- context[let '(_, _) := ?t in _] => destruct t as [[? ?] ?] end.

(** * ViewGen.Old: SliceRecordABC + SeqView of sequence.py *)
Module OldEq.
Module G := ViewGen.Old.
Definition fl := FSeqView.

Lemma ivp_eq n a b c : G.input_vals_pos_step n a b c = input_vals_pos_step n a b c.
Proof. unfold G.input_vals_pos_step, input_vals_pos_step. crush. Qed.

Lemma ivn_eq n a b c : G.input_vals_neg_step n a b c = input_vals_neg_step n a b c.
Proof. unfold G.input_vals_neg_step, input_vals_neg_step. crush. Qed.

Lemma init_eq_none n a b c off : G.init n a b c off None = mk_view n a b c off.
Proof.
  unfold G.init, mk_view.
  destruct c as [[|k|k]|]; cbn [Z.eqb]; rewrite ?ivp_eq, ?ivn_eq; finish.
Qed.

Lemma init_eq_some n a b c off : G.init n a b c off (Some n) = mk_view n a b c off.
Proof.
  unfold G.init, mk_view.
  destruct c as [[|k|k]|]; cbn [Z.eqb]; cbv beta iota; rewrite ?ivp_eq, ?ivn_eq, ?Z.eqb_refl; cbn [negb]; cbv zeta;
  try reflexivity; split_triple; destruct (n =? 0) eqn:E; try reflexivity; f_equal; f_equal; lia.
Qed.

(** whatever [seq_len] argument it is given, the constructor either raises or stores
    [len(seq)] in [_seq_len]: reading [len(self.seq)] as that field is sound *)
Lemma init_seq_len n a b c off sl v : G.init n a b c off sl = Ok v -> seq_len v = n.
Proof.
  unfold G.init.
  destruct c as [k|]; [destruct (k =? 0); [discriminate|]|]; cbv zeta; split_triple;
  (destruct sl as [s|]; [destruct (s =? n) eqn:E1; cbn [negb]; [|discriminate]; destruct (s =? 0) eqn:E2|]);
  intros H; inversion H; subst; cbn [seq_len]; lia.
Qed.

Lemma len_eq v : G.len v = vlen v.
Proof. unfold G.len, vlen. finish. Qed.
Lemma is_reversed_eq v : G.is_reversed v = is_reversed v.
Proof. unfold G.is_reversed, is_reversed. crush. Qed.
Lemma prop_seq_len_eq v : G.prop_seq_len v = seq_len v.
Proof. unfold G.prop_seq_len. finish. Qed.
Lemma prop_offset_eq v : G.prop_offset v = offset v.
Proof. unfold G.prop_offset. finish. Qed.

Ltac props := rewrite ?len_eq, ?is_reversed_eq, ?prop_seq_len_eq, ?prop_offset_eq.

Lemma parent_start_eq v : G.parent_start v =
  if is_reversed v && negb (stop v <? 0) then Err E_Other else Ok (parent_start v).
Proof. unfold G.parent_start, parent_start. props. unfold is_reversed. crush. Qed.

Lemma parent_stop_eq v : G.parent_stop v =
  if is_reversed v && negb (start v <? 0) then Err E_Other else Ok (parent_stop v).
Proof. unfold G.parent_stop, parent_stop. props. unfold is_reversed. crush. Qed.

(** the asserts of the source never fire on a well-formed view *)
Lemma parent_start_wf v : WF v -> G.parent_start v = Ok (parent_start v).
Proof.
  intros Hwf. rewrite parent_start_eq. unfold is_reversed. destruct (step v <? 0) eqn:E; [|reflexivity].
  destruct (asserts_hold v Hwf ltac:(lia)) as [H1 H2]. replace (stop v <? 0) with true by lia. reflexivity.
Qed.

Lemma parent_stop_wf v : WF v -> G.parent_stop v = Ok (parent_stop v).
Proof.
  intros Hwf. rewrite parent_stop_eq. unfold is_reversed. destruct (step v <? 0) eqn:E; [|reflexivity].
  destruct (asserts_hold v Hwf ltac:(lia)) as [H1 H2]. replace (start v <? 0) with true by lia. reflexivity.
Qed.

Lemma get_index_eq v i ib : G.get_index v i ib = get_index v i ib.
Proof.
  unfold G.get_index, get_index. props. generalize (vlen_nonneg v). generalize (vlen v) as L. intros L HL. destruct ib; crush.
Qed.

Lemma zero_slice_eq v : G.zero_slice v = zero_slice fl v.
Proof. unfold G.zero_slice, zero_slice, fl. apply init_eq_none. Qed.

Lemma copy_eq v : G.copy v = copy_view fl v.
Proof. unfold G.copy, copy_view, fl. props. apply init_eq_some. Qed.

Lemma absolute_position_eq v i ib : G.absolute_position v i ib = absolute_position v i ib.
Proof.
  unfold G.absolute_position, absolute_position. rewrite get_index_eq. props.
  destruct (vlen v =? 0); [finish|]. destruct (i <? 0); [finish|].
  destruct (get_index v i ib) as [[[x y] z]|e]; [|reflexivity]. cbn [bind]. props. crush.
Qed.

Lemma relative_position_eq v i sf : G.relative_position v i sf = relative_position v i sf.
Proof. unfold G.relative_position, relative_position. props. crush. Qed.

Ltac kernel v := props; rewrite ?zero_slice_eq, ?init_eq_some; unfold rebuild; generalize (vlen_nonneg v); generalize (vlen v) as L; intros L HL.

Lemma ff_eq v a b c : G.get_forward_slice_from_forward v a b c = get_forward_slice_from_forward fl v a b c.
Proof. unfold G.get_forward_slice_from_forward, get_forward_slice_from_forward. kernel v. crush. Qed.

Lemma fr_eq v a b c : G.get_forward_slice_from_reverse v a b c = get_forward_slice_from_reverse fl v a b c.
Proof. unfold G.get_forward_slice_from_reverse, get_forward_slice_from_reverse. kernel v. crush. Qed.

Lemma rf_eq v a b c : G.get_reverse_slice_from_forward v a b c = get_reverse_slice_from_forward fl v a b c.
Proof. unfold G.get_reverse_slice_from_forward, get_reverse_slice_from_forward. kernel v. crush. Qed.

Lemma rr_eq v a b c : G.get_reverse_slice_from_reverse v a b c = get_reverse_slice_from_reverse fl v a b c.
Proof. unfold G.get_reverse_slice_from_reverse, get_reverse_slice_from_reverse. kernel v. crush. Qed.

Lemma get_slice_eq v a b c' c : G.get_slice v a b c' c = get_slice fl v a b c.
Proof. unfold G.get_slice, get_slice. rewrite ?len_eq, ?ff_eq, ?fr_eq. crush. Qed.

Lemma get_reverse_slice_eq v a b c' c : G.get_reverse_slice v a b c' c = get_reverse_slice fl v a b c.
Proof. unfold G.get_reverse_slice, get_reverse_slice. rewrite ?len_eq, ?rr_eq, ?rf_eq. crush. Qed.

Lemma getitem_int_eq v i : G.getitem_int v i = getitem_int v i.
Proof.
  unfold G.getitem_int, getitem_int. rewrite get_index_eq.
  destruct (get_index v i false) as [[[x y] z]|e]; [|reflexivity]. cbn [bind]. props. apply init_eq_some.
Qed.

Lemma getitem_slice_eq v a b c : G.getitem_slice v a b c = getitem_slice fl v a b c.
Proof.
  unfold G.getitem_slice, getitem_slice.
  destruct a, b, c; cbn [opt_eqb]; rewrite ?len_eq, ?copy_eq, ?zero_slice_eq, ?get_slice_eq, ?get_reverse_slice_eq; crush.
Qed.

(** every generated function is the model function, for all arguments *)
Lemma kernel_eq_model :
  (forall v a b c, G.getitem_slice v a b c = getitem_slice fl v a b c) /\
  (forall v i, G.getitem_int v i = getitem_int v i) /\
  (forall v i ib, G.get_index v i ib = get_index v i ib) /\
  (forall v i ib, G.absolute_position v i ib = absolute_position v i ib) /\
  (forall v i sf, G.relative_position v i sf = relative_position v i sf) /\
  (forall v, G.len v = vlen v) /\
  (forall n a b c off, G.init n a b c off None = mk_view n a b c off) /\
  (forall v, G.parent_start v = if is_reversed v && negb (stop v <? 0) then Err E_Other else Ok (parent_start v)) /\
  (forall v, G.parent_stop v = if is_reversed v && negb (start v <? 0) then Err E_Other else Ok (parent_stop v)).
Proof.
  repeat split; intros;
  first [apply getitem_slice_eq | apply getitem_int_eq | apply get_index_eq | apply absolute_position_eq
        | apply relative_position_eq | apply len_eq | apply init_eq_none | apply parent_start_eq | apply parent_stop_eq].
Qed.

(** ** the C01 theorems transported to the generated kernel *)

Lemma wf_init n a b c off v : 0 <= n -> G.init n a b c off None = Ok v -> WF v.
Proof. rewrite init_eq_none. apply wf_mk_view_lemma. Qed.

Lemma value_init {A} (p : list A) n a b c off v : zlen p = n -> c <> Some 0 ->
  G.init n a b c off None = Ok v -> value v p = py_slice p a b (step_of c).
Proof. rewrite init_eq_none. apply value_mk_view_lemma. Qed.

Lemma wf_value_init {A} (p : list A) n a b c off v : zlen p = n -> c <> Some 0 ->
  G.init n a b c off None = Ok v -> WF v /\ value v p = py_slice p a b (step_of c).
Proof.
  intros Hn Hc H. split; [|exact (value_init p n a b c off v Hn Hc H)].
  apply (wf_init n a b c off v); [|exact H]. subst n. unfold zlen. lia.
Qed.

Lemma wf_getitem_slice v a b c v' : WF v -> G.getitem_slice v a b c = Ok v' -> WF v'.
Proof. rewrite getitem_slice_eq. apply wf_getitem_slice_lemma. Qed.

Lemma wf_getitem_int v i v' : WF v -> G.getitem_int v i = Ok v' -> WF v'.
Proof. rewrite getitem_int_eq. apply wf_getitem_int_lemma. Qed.

Lemma fits_preserved {A} v (p : list A) a b c v' :
  WF v -> Fits v p -> G.getitem_slice v a b c = Ok v' -> Fits v' p.
Proof. rewrite getitem_slice_eq. apply fits_getitem_slice. Qed.

Lemma len_value {A} v (p : list A) : WF v -> zlen p = seq_len v -> zlen (value v p) = G.len v.
Proof. rewrite len_eq. apply len_value_lemma. Qed.

Lemma value_getitem_slice {A} v (p : list A) a b c v' :
  WF v -> Fits v p -> c <> Some 0 -> G.getitem_slice v a b c = Ok v' ->
  WF v' /\ Fits v' p /\ value v' p = py_slice (value v p) a b (step_of c).
Proof.
  rewrite getitem_slice_eq. intros Hwf Hf Hc H. split; [|split].
  - exact (wf_getitem_slice_lemma fl v a b c v' Hwf H).
  - exact (fits_getitem_slice fl v p a b c v' Hwf Hf H).
  - exact (value_getitem_slice_lemma fl v p a b c v' Hwf Hf Hc H).
Qed.

Lemma getitem_slice_total v a b c e : WF v -> c <> Some 0 -> G.getitem_slice v a b c <> Err e.
Proof. rewrite getitem_slice_eq. apply getitem_slice_no_err. Qed.

Lemma value_getitem_int {A} v (p : list A) i : WF v -> zlen p = seq_len v ->
  match G.getitem_int v i with
  | Ok v' => WF v' /\ exists y, py_getitem (value v p) i = Some y /\ value v' p = [y]
  | Err _ => py_getitem (value v p) i = None
  end.
Proof.
  intros Hwf Hp. pose proof (value_getitem_int_lemma v p i Hwf Hp) as H.
  pose proof (wf_getitem_int_lemma v i) as Hw. rewrite getitem_int_eq.
  destruct (getitem_int v i) as [v'|e]; [split; [apply (Hw v' Hwf eq_refl)|exact H]|exact H].
Qed.

Lemma parent_segment {A} v (p : list A) : WF v -> zlen p = seq_len v ->
  exists ps pe, G.parent_start v = Ok ps /\ G.parent_stop v = Ok pe /\
    0 <= ps - offset v <= pe - offset v /\ pe - offset v <= seq_len v /\
    value v p = strided (seg p (ps - offset v) (pe - offset v)) (step v).
Proof.
  intros Hwf Hp. exists (parent_start v), (parent_stop v).
  rewrite parent_start_wf, parent_stop_wf by assumption.
  pose proof (seg_bounds v Hwf) as Hb. unfold seg_lo, seg_hi in Hb.
  repeat split; try lia. exact (parent_segment_lemma v p Hwf Hp).
Qed.

Lemma abs_rel_inverse v i : WF v -> 0 <= offset v -> 0 <= i < G.len v ->
  exists a, G.absolute_position v i false = Ok a /\ G.relative_position v a false = Ok i.
Proof.
  rewrite len_eq. intros Hwf Ho Hi. destruct (abs_rel_inverse_lemma v i Hwf Ho Hi) as [a [H1 H2]].
  exists a. rewrite absolute_position_eq, relative_position_eq. auto.
Qed.

End OldEq.

(** * ViewGen.New: SliceRecordABC + SeqView of new_sequence.py *)
Module NewEq.
Module G := ViewGen.New.
Definition fl := FSeqView.

Lemma ivp_eq n a b c : G.input_vals_pos_step n a b c = input_vals_pos_step n a b c.
Proof. unfold G.input_vals_pos_step, input_vals_pos_step. crush. Qed.

Lemma ivn_eq n a b c : G.input_vals_neg_step n a b c = input_vals_neg_step n a b c.
Proof. unfold G.input_vals_neg_step, input_vals_neg_step. crush. Qed.

Lemma init_eq_none n a b c off : G.init n a b c off None = mk_view n a b c off.
Proof.
  unfold G.init, mk_view.
  destruct c as [[|k|k]|]; cbn [Z.eqb]; rewrite ?ivp_eq, ?ivn_eq; finish.
Qed.

Lemma init_eq_some n a b c off : G.init n a b c off (Some n) = mk_view n a b c off.
Proof.
  unfold G.init, mk_view.
  destruct c as [[|k|k]|]; cbn [Z.eqb]; cbv beta iota; rewrite ?ivp_eq, ?ivn_eq, ?Z.eqb_refl; cbn [negb]; cbv zeta;
  try reflexivity; split_triple; destruct (n =? 0) eqn:E; try reflexivity; f_equal; f_equal; lia.
Qed.

(** whatever [seq_len] argument it is given, the constructor either raises or stores
    [len(seq)] in [_seq_len]: reading [len(self.seq)] as that field is sound *)
Lemma init_seq_len n a b c off sl v : G.init n a b c off sl = Ok v -> seq_len v = n.
Proof.
  unfold G.init.
  destruct c as [k|]; [destruct (k =? 0); [discriminate|]|]; cbv zeta; split_triple;
  (destruct sl as [s|]; [destruct (s =? n) eqn:E1; cbn [negb]; [|discriminate]; destruct (s =? 0) eqn:E2|]);
  intros H; inversion H; subst; cbn [seq_len]; lia.
Qed.

Lemma len_eq v : G.len v = vlen v.
Proof. unfold G.len, vlen. finish. Qed.
Lemma is_reversed_eq v : G.is_reversed v = is_reversed v.
Proof. unfold G.is_reversed, is_reversed. crush. Qed.
Lemma prop_seq_len_eq v : G.prop_seq_len v = seq_len v.
Proof. unfold G.prop_seq_len. finish. Qed.
Lemma prop_offset_eq v : G.prop_offset v = offset v.
Proof. unfold G.prop_offset. finish. Qed.

Ltac props := rewrite ?len_eq, ?is_reversed_eq, ?prop_seq_len_eq, ?prop_offset_eq.

Lemma parent_start_eq v : G.parent_start v =
  if is_reversed v && negb (stop v <? 0) then Err E_Other else Ok (parent_start v).
Proof. unfold G.parent_start, parent_start. props. unfold is_reversed. crush. Qed.

Lemma parent_stop_eq v : G.parent_stop v =
  if is_reversed v && negb (start v <? 0) then Err E_Other else Ok (parent_stop v).
Proof. unfold G.parent_stop, parent_stop. props. unfold is_reversed. crush. Qed.

(** the asserts of the source never fire on a well-formed view *)
Lemma parent_start_wf v : WF v -> G.parent_start v = Ok (parent_start v).
Proof.
  intros Hwf. rewrite parent_start_eq. unfold is_reversed. destruct (step v <? 0) eqn:E; [|reflexivity].
  destruct (asserts_hold v Hwf ltac:(lia)) as [H1 H2]. replace (stop v <? 0) with true by lia. reflexivity.
Qed.

Lemma parent_stop_wf v : WF v -> G.parent_stop v = Ok (parent_stop v).
Proof.
  intros Hwf. rewrite parent_stop_eq. unfold is_reversed. destruct (step v <? 0) eqn:E; [|reflexivity].
  destruct (asserts_hold v Hwf ltac:(lia)) as [H1 H2]. replace (start v <? 0) with true by lia. reflexivity.
Qed.

Lemma get_index_eq v i ib : G.get_index v i ib = get_index v i ib.
Proof.
  unfold G.get_index, get_index. props. generalize (vlen_nonneg v). generalize (vlen v) as L. intros L HL. destruct ib; crush.
Qed.

Lemma zero_slice_eq v : G.zero_slice v = zero_slice fl v.
Proof. unfold G.zero_slice, zero_slice, fl. apply init_eq_none. Qed.

Lemma copy_eq v : G.copy v = copy_view fl v.
Proof. unfold G.copy, copy_view, fl. props. apply init_eq_some. Qed.

Lemma absolute_position_eq v i ib : G.absolute_position v i ib = absolute_position v i ib.
Proof.
  unfold G.absolute_position, absolute_position. rewrite get_index_eq. props.
  destruct (vlen v =? 0); [finish|]. destruct (i <? 0); [finish|].
  destruct (get_index v i ib) as [[[x y] z]|e]; [|reflexivity]. cbn [bind]. props. crush.
Qed.

Lemma relative_position_eq v i sf : G.relative_position v i sf = relative_position v i sf.
Proof. unfold G.relative_position, relative_position. props. crush. Qed.

Ltac kernel v := props; rewrite ?zero_slice_eq, ?init_eq_some; unfold rebuild; generalize (vlen_nonneg v); generalize (vlen v) as L; intros L HL.

Lemma ff_eq v a b c : G.get_forward_slice_from_forward v a b c = get_forward_slice_from_forward fl v a b c.
Proof. unfold G.get_forward_slice_from_forward, get_forward_slice_from_forward. kernel v. crush. Qed.

Lemma fr_eq v a b c : G.get_forward_slice_from_reverse v a b c = get_forward_slice_from_reverse fl v a b c.
Proof. unfold G.get_forward_slice_from_reverse, get_forward_slice_from_reverse. kernel v. crush. Qed.

Lemma rf_eq v a b c : G.get_reverse_slice_from_forward v a b c = get_reverse_slice_from_forward fl v a b c.
Proof. unfold G.get_reverse_slice_from_forward, get_reverse_slice_from_forward. kernel v. crush. Qed.

Lemma rr_eq v a b c : G.get_reverse_slice_from_reverse v a b c = get_reverse_slice_from_reverse fl v a b c.
Proof. unfold G.get_reverse_slice_from_reverse, get_reverse_slice_from_reverse. kernel v. crush. Qed.

Lemma get_slice_eq v a b c' c : G.get_slice v a b c' c = get_slice fl v a b c.
Proof. unfold G.get_slice, get_slice. rewrite ?len_eq, ?ff_eq, ?fr_eq. crush. Qed.

Lemma get_reverse_slice_eq v a b c' c : G.get_reverse_slice v a b c' c = get_reverse_slice fl v a b c.
Proof. unfold G.get_reverse_slice, get_reverse_slice. rewrite ?len_eq, ?rr_eq, ?rf_eq. crush. Qed.

Lemma getitem_int_eq v i : G.getitem_int v i = getitem_int v i.
Proof.
  unfold G.getitem_int, getitem_int. rewrite get_index_eq.
  destruct (get_index v i false) as [[[x y] z]|e]; [|reflexivity]. cbn [bind]. props. apply init_eq_some.
Qed.

Lemma getitem_slice_eq v a b c : G.getitem_slice v a b c = getitem_slice fl v a b c.
Proof.
  unfold G.getitem_slice, getitem_slice.
  destruct a, b, c; cbn [opt_eqb]; rewrite ?len_eq, ?copy_eq, ?zero_slice_eq, ?get_slice_eq, ?get_reverse_slice_eq; crush.
Qed.

(** every generated function is the model function, for all arguments *)
Lemma kernel_eq_model :
  (forall v a b c, G.getitem_slice v a b c = getitem_slice fl v a b c) /\
  (forall v i, G.getitem_int v i = getitem_int v i) /\
  (forall v i ib, G.get_index v i ib = get_index v i ib) /\
  (forall v i ib, G.absolute_position v i ib = absolute_position v i ib) /\
  (forall v i sf, G.relative_position v i sf = relative_position v i sf) /\
  (forall v, G.len v = vlen v) /\
  (forall n a b c off, G.init n a b c off None = mk_view n a b c off) /\
  (forall v, G.parent_start v = if is_reversed v && negb (stop v <? 0) then Err E_Other else Ok (parent_start v)) /\
  (forall v, G.parent_stop v = if is_reversed v && negb (start v <? 0) then Err E_Other else Ok (parent_stop v)).
Proof.
  repeat split; intros;
  first [apply getitem_slice_eq | apply getitem_int_eq | apply get_index_eq | apply absolute_position_eq
        | apply relative_position_eq | apply len_eq | apply init_eq_none | apply parent_start_eq | apply parent_stop_eq].
Qed.

(** ** the C01 theorems transported to the generated kernel *)

Lemma wf_init n a b c off v : 0 <= n -> G.init n a b c off None = Ok v -> WF v.
Proof. rewrite init_eq_none. apply wf_mk_view_lemma. Qed.

Lemma value_init {A} (p : list A) n a b c off v : zlen p = n -> c <> Some 0 ->
  G.init n a b c off None = Ok v -> value v p = py_slice p a b (step_of c).
Proof. rewrite init_eq_none. apply value_mk_view_lemma. Qed.

Lemma wf_value_init {A} (p : list A) n a b c off v : zlen p = n -> c <> Some 0 ->
  G.init n a b c off None = Ok v -> WF v /\ value v p = py_slice p a b (step_of c).
Proof.
  intros Hn Hc H. split; [|exact (value_init p n a b c off v Hn Hc H)].
  apply (wf_init n a b c off v); [|exact H]. subst n. unfold zlen. lia.
Qed.

Lemma wf_getitem_slice v a b c v' : WF v -> G.getitem_slice v a b c = Ok v' -> WF v'.
Proof. rewrite getitem_slice_eq. apply wf_getitem_slice_lemma. Qed.

Lemma wf_getitem_int v i v' : WF v -> G.getitem_int v i = Ok v' -> WF v'.
Proof. rewrite getitem_int_eq. apply wf_getitem_int_lemma. Qed.

Lemma fits_preserved {A} v (p : list A) a b c v' :
  WF v -> Fits v p -> G.getitem_slice v a b c = Ok v' -> Fits v' p.
Proof. rewrite getitem_slice_eq. apply fits_getitem_slice. Qed.

Lemma len_value {A} v (p : list A) : WF v -> zlen p = seq_len v -> zlen (value v p) = G.len v.
Proof. rewrite len_eq. apply len_value_lemma. Qed.

Lemma value_getitem_slice {A} v (p : list A) a b c v' :
  WF v -> Fits v p -> c <> Some 0 -> G.getitem_slice v a b c = Ok v' ->
  WF v' /\ Fits v' p /\ value v' p = py_slice (value v p) a b (step_of c).
Proof.
  rewrite getitem_slice_eq. intros Hwf Hf Hc H. split; [|split].
  - exact (wf_getitem_slice_lemma fl v a b c v' Hwf H).
  - exact (fits_getitem_slice fl v p a b c v' Hwf Hf H).
  - exact (value_getitem_slice_lemma fl v p a b c v' Hwf Hf Hc H).
Qed.

Lemma getitem_slice_total v a b c e : WF v -> c <> Some 0 -> G.getitem_slice v a b c <> Err e.
Proof. rewrite getitem_slice_eq. apply getitem_slice_no_err. Qed.

Lemma value_getitem_int {A} v (p : list A) i : WF v -> zlen p = seq_len v ->
  match G.getitem_int v i with
  | Ok v' => WF v' /\ exists y, py_getitem (value v p) i = Some y /\ value v' p = [y]
  | Err _ => py_getitem (value v p) i = None
  end.
Proof.
  intros Hwf Hp. pose proof (value_getitem_int_lemma v p i Hwf Hp) as H.
  pose proof (wf_getitem_int_lemma v i) as Hw. rewrite getitem_int_eq.
  destruct (getitem_int v i) as [v'|e]; [split; [apply (Hw v' Hwf eq_refl)|exact H]|exact H].
Qed.

Lemma parent_segment {A} v (p : list A) : WF v -> zlen p = seq_len v ->
  exists ps pe, G.parent_start v = Ok ps /\ G.parent_stop v = Ok pe /\
    0 <= ps - offset v <= pe - offset v /\ pe - offset v <= seq_len v /\
    value v p = strided (seg p (ps - offset v) (pe - offset v)) (step v).
Proof.
  intros Hwf Hp. exists (parent_start v), (parent_stop v).
  rewrite parent_start_wf, parent_stop_wf by assumption.
  pose proof (seg_bounds v Hwf) as Hb. unfold seg_lo, seg_hi in Hb.
  repeat split; try lia. exact (parent_segment_lemma v p Hwf Hp).
Qed.

Lemma abs_rel_inverse v i : WF v -> 0 <= offset v -> 0 <= i < G.len v ->
  exists a, G.absolute_position v i false = Ok a /\ G.relative_position v a false = Ok i.
Proof.
  rewrite len_eq. intros Hwf Ho Hi. destruct (abs_rel_inverse_lemma v i Hwf Ho Hi) as [a [H1 H2]].
  exists a. rewrite absolute_position_eq, relative_position_eq. auto.
Qed.

End NewEq.

(** * ViewGen.Sdv: SeqDataView (new_alignment.py) over new_sequence.SliceRecordABC *)
Module SdvEq.
Module G := ViewGen.Sdv.
Definition fl := FSeqDataView.

Lemma ivp_eq n a b c : G.input_vals_pos_step n a b c = input_vals_pos_step n a b c.
Proof. unfold G.input_vals_pos_step, input_vals_pos_step. crush. Qed.

Lemma ivn_eq n a b c : G.input_vals_neg_step n a b c = input_vals_neg_step n a b c.
Proof. unfold G.input_vals_neg_step, input_vals_neg_step. crush. Qed.

Lemma init_eq n a b c off : G.init n a b c off = mk_view n a b c off.
Proof.
  unfold G.init, mk_view, G.checked_seq_len.
  destruct c as [[|k|k]|]; cbn [Z.eqb bind]; rewrite ?ivp_eq, ?ivn_eq; finish.
Qed.

Lemma init_seq_len n a b c off v : G.init n a b c off = Ok v -> seq_len v = n.
Proof. rewrite init_eq. intros H. apply (seq_len_mk_view _ _ _ _ _ _ H). Qed.

Lemma len_eq v : G.len v = vlen v.
Proof. unfold G.len, vlen. finish. Qed.
Lemma is_reversed_eq v : G.is_reversed v = is_reversed v.
Proof. unfold G.is_reversed, is_reversed. crush. Qed.
Lemma prop_seq_len_eq v : G.prop_seq_len v = seq_len v.
Proof. unfold G.prop_seq_len. finish. Qed.
Lemma prop_offset_eq v : G.prop_offset v = offset v.
Proof. unfold G.prop_offset. finish. Qed.

Ltac props := rewrite ?len_eq, ?is_reversed_eq, ?prop_seq_len_eq, ?prop_offset_eq.

Lemma parent_start_eq v : G.parent_start v =
  if is_reversed v && negb (stop v <? 0) then Err E_Other else Ok (parent_start v).
Proof. unfold G.parent_start, parent_start. props. unfold is_reversed. crush. Qed.

Lemma parent_stop_eq v : G.parent_stop v =
  if is_reversed v && negb (start v <? 0) then Err E_Other else Ok (parent_stop v).
Proof. unfold G.parent_stop, parent_stop. props. unfold is_reversed. crush. Qed.

(** the asserts of the source never fire on a well-formed view *)
Lemma parent_start_wf v : WF v -> G.parent_start v = Ok (parent_start v).
Proof.
  intros Hwf. rewrite parent_start_eq. unfold is_reversed. destruct (step v <? 0) eqn:E; [|reflexivity].
  destruct (asserts_hold v Hwf ltac:(lia)) as [H1 H2]. replace (stop v <? 0) with true by lia. reflexivity.
Qed.

Lemma parent_stop_wf v : WF v -> G.parent_stop v = Ok (parent_stop v).
Proof.
  intros Hwf. rewrite parent_stop_eq. unfold is_reversed. destruct (step v <? 0) eqn:E; [|reflexivity].
  destruct (asserts_hold v Hwf ltac:(lia)) as [H1 H2]. replace (start v <? 0) with true by lia. reflexivity.
Qed.

Lemma get_index_eq v i ib : G.get_index v i ib = get_index v i ib.
Proof.
  unfold G.get_index, get_index. props. generalize (vlen_nonneg v). generalize (vlen v) as L. intros L HL. destruct ib; crush.
Qed.

Lemma zero_slice_eq v : G.zero_slice v = zero_slice fl v.
Proof. unfold G.zero_slice, zero_slice, fl. apply init_eq. Qed.

Lemma copy_eq v : Ok (G.copy v) = copy_view fl v.
Proof. reflexivity. Qed.

Lemma absolute_position_eq v i ib : G.absolute_position v i ib = absolute_position v i ib.
Proof.
  unfold G.absolute_position, absolute_position. rewrite get_index_eq. props.
  destruct (vlen v =? 0); [finish|]. destruct (i <? 0); [finish|].
  destruct (get_index v i ib) as [[[x y] z]|e]; [|reflexivity]. cbn [bind]. props. crush.
Qed.

Lemma relative_position_eq v i sf : G.relative_position v i sf = relative_position v i sf.
Proof. unfold G.relative_position, relative_position. props. crush. Qed.

Ltac kernel v := props; rewrite ?zero_slice_eq, ?init_eq; unfold rebuild; generalize (vlen_nonneg v); generalize (vlen v) as L; intros L HL.

Lemma ff_eq v a b c : G.get_forward_slice_from_forward v a b c = get_forward_slice_from_forward fl v a b c.
Proof. unfold G.get_forward_slice_from_forward, get_forward_slice_from_forward. kernel v. crush. Qed.

Lemma fr_eq v a b c : G.get_forward_slice_from_reverse v a b c = get_forward_slice_from_reverse fl v a b c.
Proof. unfold G.get_forward_slice_from_reverse, get_forward_slice_from_reverse. kernel v. crush. Qed.

Lemma rf_eq v a b c : G.get_reverse_slice_from_forward v a b c = get_reverse_slice_from_forward fl v a b c.
Proof. unfold G.get_reverse_slice_from_forward, get_reverse_slice_from_forward. kernel v. crush. Qed.

Lemma rr_eq v a b c : G.get_reverse_slice_from_reverse v a b c = get_reverse_slice_from_reverse fl v a b c.
Proof. unfold G.get_reverse_slice_from_reverse, get_reverse_slice_from_reverse. kernel v. crush. Qed.

Lemma get_slice_eq v a b c' c : G.get_slice v a b c' c = get_slice fl v a b c.
Proof. unfold G.get_slice, get_slice. rewrite ?len_eq, ?ff_eq, ?fr_eq. crush. Qed.

Lemma get_reverse_slice_eq v a b c' c : G.get_reverse_slice v a b c' c = get_reverse_slice fl v a b c.
Proof. unfold G.get_reverse_slice, get_reverse_slice. rewrite ?len_eq, ?rr_eq, ?rf_eq. crush. Qed.

Lemma getitem_int_eq v i : G.getitem_int v i = getitem_int v i.
Proof.
  unfold G.getitem_int, getitem_int. rewrite get_index_eq.
  destruct (get_index v i false) as [[[x y] z]|e]; [|reflexivity]. cbn [bind]. props. apply init_eq.
Qed.

Lemma getitem_slice_eq v a b c : G.getitem_slice v a b c = getitem_slice fl v a b c.
Proof.
  unfold G.getitem_slice, getitem_slice.
  destruct a, b, c; cbn [opt_eqb]; rewrite ?len_eq, ?copy_eq, ?zero_slice_eq, ?get_slice_eq, ?get_reverse_slice_eq; crush.
Qed.

(** every generated function is the model function, for all arguments *)
Lemma kernel_eq_model :
  (forall v a b c, G.getitem_slice v a b c = getitem_slice fl v a b c) /\
  (forall v i, G.getitem_int v i = getitem_int v i) /\
  (forall v i ib, G.get_index v i ib = get_index v i ib) /\
  (forall v i ib, G.absolute_position v i ib = absolute_position v i ib) /\
  (forall v i sf, G.relative_position v i sf = relative_position v i sf) /\
  (forall v, G.len v = vlen v) /\
  (forall n a b c off, G.init n a b c off = mk_view n a b c off) /\
  (forall v, G.parent_start v = if is_reversed v && negb (stop v <? 0) then Err E_Other else Ok (parent_start v)) /\
  (forall v, G.parent_stop v = if is_reversed v && negb (start v <? 0) then Err E_Other else Ok (parent_stop v)).
Proof.
  repeat split; intros;
  first [apply getitem_slice_eq | apply getitem_int_eq | apply get_index_eq | apply absolute_position_eq
        | apply relative_position_eq | apply len_eq | apply init_eq | apply parent_start_eq | apply parent_stop_eq].
Qed.

(** ** the C01 theorems transported to the generated kernel *)

Lemma wf_init n a b c off v : 0 <= n -> G.init n a b c off = Ok v -> WF v.
Proof. rewrite init_eq. apply wf_mk_view_lemma. Qed.

Lemma value_init {A} (p : list A) n a b c off v : zlen p = n -> c <> Some 0 ->
  G.init n a b c off = Ok v -> value v p = py_slice p a b (step_of c).
Proof. rewrite init_eq. apply value_mk_view_lemma. Qed.

Lemma wf_value_init {A} (p : list A) n a b c off v : zlen p = n -> c <> Some 0 ->
  G.init n a b c off = Ok v -> WF v /\ value v p = py_slice p a b (step_of c).
Proof.
  intros Hn Hc H. split; [|exact (value_init p n a b c off v Hn Hc H)].
  apply (wf_init n a b c off v); [|exact H]. subst n. unfold zlen. lia.
Qed.

Lemma wf_getitem_slice v a b c v' : WF v -> G.getitem_slice v a b c = Ok v' -> WF v'.
Proof. rewrite getitem_slice_eq. apply wf_getitem_slice_lemma. Qed.

Lemma wf_getitem_int v i v' : WF v -> G.getitem_int v i = Ok v' -> WF v'.
Proof. rewrite getitem_int_eq. apply wf_getitem_int_lemma. Qed.

Lemma fits_preserved {A} v (p : list A) a b c v' :
  WF v -> Fits v p -> G.getitem_slice v a b c = Ok v' -> Fits v' p.
Proof. rewrite getitem_slice_eq. apply fits_getitem_slice. Qed.

Lemma len_value {A} v (p : list A) : WF v -> zlen p = seq_len v -> zlen (value v p) = G.len v.
Proof. rewrite len_eq. apply len_value_lemma. Qed.

Lemma value_getitem_slice {A} v (p : list A) a b c v' :
  WF v -> Fits v p -> c <> Some 0 -> G.getitem_slice v a b c = Ok v' ->
  WF v' /\ Fits v' p /\ value v' p = py_slice (value v p) a b (step_of c).
Proof.
  rewrite getitem_slice_eq. intros Hwf Hf Hc H. split; [|split].
  - exact (wf_getitem_slice_lemma fl v a b c v' Hwf H).
  - exact (fits_getitem_slice fl v p a b c v' Hwf Hf H).
  - exact (value_getitem_slice_lemma fl v p a b c v' Hwf Hf Hc H).
Qed.

Lemma getitem_slice_total v a b c e : WF v -> c <> Some 0 -> G.getitem_slice v a b c <> Err e.
Proof. rewrite getitem_slice_eq. apply getitem_slice_no_err. Qed.

Lemma value_getitem_int {A} v (p : list A) i : WF v -> zlen p = seq_len v ->
  match G.getitem_int v i with
  | Ok v' => WF v' /\ exists y, py_getitem (value v p) i = Some y /\ value v' p = [y]
  | Err _ => py_getitem (value v p) i = None
  end.
Proof.
  intros Hwf Hp. pose proof (value_getitem_int_lemma v p i Hwf Hp) as H.
  pose proof (wf_getitem_int_lemma v i) as Hw. rewrite getitem_int_eq.
  destruct (getitem_int v i) as [v'|e]; [split; [apply (Hw v' Hwf eq_refl)|exact H]|exact H].
Qed.

Lemma parent_segment {A} v (p : list A) : WF v -> zlen p = seq_len v ->
  exists ps pe, G.parent_start v = Ok ps /\ G.parent_stop v = Ok pe /\
    0 <= ps - offset v <= pe - offset v /\ pe - offset v <= seq_len v /\
    value v p = strided (seg p (ps - offset v) (pe - offset v)) (step v).
Proof.
  intros Hwf Hp. exists (parent_start v), (parent_stop v).
  rewrite parent_start_wf, parent_stop_wf by assumption.
  pose proof (seg_bounds v Hwf) as Hb. unfold seg_lo, seg_hi in Hb.
  repeat split; try lia. exact (parent_segment_lemma v p Hwf Hp).
Qed.

Lemma abs_rel_inverse v i : WF v -> 0 <= offset v -> 0 <= i < G.len v ->
  exists a, G.absolute_position v i false = Ok a /\ G.relative_position v a false = Ok i.
Proof.
  rewrite len_eq. intros Hwf Ho Hi. destruct (abs_rel_inverse_lemma v i Hwf Ho Hi) as [a [H1 H2]].
  exists a. rewrite absolute_position_eq, relative_position_eq. auto.
Qed.

End SdvEq.
