(** C17 — count_distinct: the GROUP BY counts are the counts of a linear scan. *)
From CG3 Require Import Lib.PyZ Model.AnnotDb.

Lemma str_eqb_iff a : forall b, str_eqb a b = true <-> a = b.
Proof.
  induction a as [|x a IH]; intros [|y b]; simpl; split; intros H; try congruence; try discriminate.
  - apply andb_true_iff in H. destruct H as [H1 H2]. apply IH in H2. assert (x = y) by lia. congruence.
  - inversion H; subst. apply andb_true_iff. split; [lia|]. apply IH. reflexivity.
Qed.

Lemma ostr_eqb_iff a b : ostr_eqb a b = true <-> a = b.
Proof.
  destruct a as [x|], b as [y|]; simpl; split; intros H; try discriminate; try congruence.
  - apply str_eqb_iff in H. congruence.
  - inversion H; subst. apply str_eqb_iff. reflexivity.
Qed.

Lemma oostr_eqb_iff a b : oostr_eqb a b = true <-> a = b.
Proof.
  destruct a as [x|], b as [y|]; simpl; split; intros H; try discriminate; try congruence.
  - apply ostr_eqb_iff in H. congruence.
  - inversion H; subst. apply ostr_eqb_iff. reflexivity.
Qed.

Lemma key_eqb_iff a b : key_eqb a b = true <-> a = b.
Proof.
  destruct a as [[a1 a2] a3], b as [[b1 b2] b3]. unfold key_eqb; simpl. split; intros H.
  - apply andb_true_iff in H. destruct H as [H H3]. apply andb_true_iff in H. destruct H as [H1 H2].
    apply oostr_eqb_iff in H1, H2, H3. congruence.
  - inversion H; subst. rewrite !(proj2 (oostr_eqb_iff _ _) eq_refl). reflexivity.
Qed.

Lemma key_eqb_refl a : key_eqb a a = true.
Proof. apply key_eqb_iff. reflexivity. Qed.

Lemma key_eqb_neq a b : key_eqb a b = false <-> a <> b.
Proof.
  split; intros H.
  - intros E. apply key_eqb_iff in E. congruence.
  - destruct (key_eqb a b) eqn:E; [|reflexivity]. apply key_eqb_iff in E. contradiction.
Qed.

Fixpoint lookup (k : key) (acc : list (key * Z)) : Z :=
  match acc with
  | [] => 0
  | (k', n) :: t => if key_eqb k k' then n else lookup k t
  end.

(** number of keys of a scan equal to [k] *)
Definition countk (k : key) (ks : list key) : Z := zlen (filter (key_eqb k) ks).

Lemma lookup_bump k k' acc :
  lookup k (bump k' acc) = lookup k acc + (if key_eqb k k' then 1 else 0).
Proof.
  induction acc as [|[k'' n] t IH]; cbn [bump lookup].
  - destruct (key_eqb k k'); lia.
  - destruct (key_eqb k' k'') eqn:E1; cbn [lookup].
    + apply key_eqb_iff in E1. subst k''. destruct (key_eqb k k'); lia.
    + destruct (key_eqb k k'') eqn:E2.
      * apply key_eqb_iff in E2. subst k''.
        replace (key_eqb k k') with false; [lia|].
        symmetry. apply key_eqb_neq. intros E. subst k'. rewrite key_eqb_refl in E1. discriminate.
      * exact IH.
Qed.

Lemma countk_cons k k' ks : countk k (k' :: ks) = countk k ks + (if key_eqb k k' then 1 else 0).
Proof. unfold countk, zlen. cbn [filter]. destruct (key_eqb k k'); cbn [length]; lia. Qed.

Lemma lookup_fold k ks : forall acc,
  lookup k (fold_left (fun acc k => bump k acc) ks acc) = lookup k acc + countk k ks.
Proof.
  induction ks as [|k' ks IH]; intros acc; cbn [fold_left].
  - unfold countk, zlen; simpl; lia.
  - rewrite IH, lookup_bump, countk_cons. lia.
Qed.

Lemma lookup_group_count k ks : lookup k (group_count ks) = countk k ks.
Proof. unfold group_count. rewrite lookup_fold. simpl. lia. Qed.

Lemma bump_keys k acc x : In x (map fst (bump k acc)) -> x = k \/ In x (map fst acc).
Proof.
  induction acc as [|[k' n] t IH]; cbn [bump map fst In]; intros H.
  - destruct H as [H|[]]. left. congruence.
  - destruct (key_eqb k k'); cbn [map fst In] in H.
    + right. exact H.
    + destruct H as [H|H]; [right; left; exact H|]. destruct (IH H) as [E|E]; [left; exact E|right; right; exact E].
Qed.

Lemma bump_nodup k acc : NoDup (map fst acc) -> NoDup (map fst (bump k acc)).
Proof.
  induction acc as [|[k' n] t IH]; cbn [bump map fst]; intros H.
  - repeat constructor. intros [].
  - inversion H as [|? ? Hn Ht]; subst. destruct (key_eqb k k') eqn:E; cbn [map fst].
    + constructor; assumption.
    + constructor; [|apply IH; exact Ht].
      intros Hin. apply bump_keys in Hin. destruct Hin as [Hin|Hin]; [|contradiction].
      subst k'. rewrite key_eqb_refl in E. discriminate.
Qed.

Lemma group_count_nodup ks : NoDup (map fst (group_count ks)).
Proof.
  unfold group_count. assert (H : NoDup (map fst (@nil (key * Z)))) by constructor.
  revert H. generalize (@nil (key * Z)). induction ks as [|k ks IH]; intros acc H; cbn [fold_left]; [exact H|].
  apply IH. apply bump_nodup. exact H.
Qed.

Lemma lookup_in k n acc : NoDup (map fst acc) -> In (k, n) acc -> lookup k acc = n.
Proof.
  induction acc as [|[k' m] t IH]; cbn [map fst In lookup]; intros Hnd Hin; [contradiction|].
  inversion Hnd as [|? ? Hn Ht]; subst. destruct Hin as [E|Hin].
  - inversion E; subst. rewrite key_eqb_refl. reflexivity.
  - replace (key_eqb k k') with false; [apply IH; assumption|].
    symmetry. apply key_eqb_neq. intros E. subst k'. apply Hn.
    change k with (fst (k, n)). apply in_map. exact Hin.
Qed.

Lemma lookup_nonzero k acc : lookup k acc <> 0 -> In (k, lookup k acc) acc.
Proof.
  induction acc as [|[k' m] t IH]; cbn [lookup In]; intros H; [congruence|].
  destruct (key_eqb k k') eqn:E.
  - apply key_eqb_iff in E. subst k'. left. reflexivity.
  - right. apply IH. exact H.
Qed.

(** every output row (key, n): n is the number of scanned keys equal to key *)
Lemma group_count_sound ks k n : In (k, n) (group_count ks) -> n = countk k ks.
Proof.
  intros H. rewrite <- lookup_group_count. symmetry. apply lookup_in; [apply group_count_nodup|exact H].
Qed.

(** every key met by the scan has its output row *)
Lemma group_count_complete ks k : In k ks -> In (k, countk k ks) (group_count ks).
Proof.
  intros H. rewrite <- lookup_group_count. apply lookup_nonzero. rewrite lookup_group_count.
  unfold countk, zlen. assert (In k (filter (key_eqb k) ks)) by (apply filter_In; split; [exact H|apply key_eqb_refl]).
  destruct (filter (key_eqb k) ks); [contradiction|]. cbn [length]. lia.
Qed.

Fixpoint zsum (l : list Z) : Z := match l with [] => 0 | x :: t => x + zsum t end.

Lemma zsum_bump k acc : zsum (map snd (bump k acc)) = zsum (map snd acc) + 1.
Proof.
  induction acc as [|[k' n] t IH]; cbn [bump map snd zsum]; [lia|].
  destruct (key_eqb k k'); cbn [map snd zsum]; lia.
Qed.

(** the counts add up to the number of scanned records *)
Lemma group_count_total ks : zsum (map snd (group_count ks)) = zlen ks.
Proof.
  unfold group_count.
  assert (H : forall acc, zsum (map snd (fold_left (fun acc k => bump k acc) ks acc)) = zsum (map snd acc) + zlen ks).
  { induction ks as [|k ks IH]; intros acc; cbn [fold_left].
    - unfold zlen; simpl; lia.
    - rewrite IH, zsum_bump. unfold zlen. cbn [length]. rewrite Nat2Z.inj_succ. lia. }
  rewrite H. simpl. lia.
Qed.

(** the rows count_distinct reports for one table *)
Definition cd_rows (t : Z) (db : list row) (sa ba na : cdarg) : list (key * Z) :=
  group_count (map (cd_key sa ba na) (filter (cd_match sa ba na) (rows_of t db))).

Lemma count_distinct_tables tables db sa ba na :
  is_col sa || is_col ba || is_col na = true ->
  count_distinct tables db sa ba na = Some (flat_map (fun t => cd_rows t db sa ba na) tables).
Proof. intros H. unfold count_distinct. rewrite H. reflexivity. Qed.

Lemma countk_map k (f : row -> key) rows :
  countk k (map f rows) = zlen (filter (fun r => key_eqb k (f r)) rows).
Proof.
  unfold countk, zlen. f_equal. induction rows as [|r rows IH]; simpl; [reflexivity|].
  destruct (key_eqb k (f r)); simpl; rewrite IH; reflexivity.
Qed.

Lemma cd_rows_sound t db sa ba na k n :
  In (k, n) (cd_rows t db sa ba na) ->
  n = zlen (filter (fun r => key_eqb k (cd_key sa ba na r)) (filter (cd_match sa ba na) (rows_of t db))).
Proof. intros H. apply group_count_sound in H. rewrite countk_map in H. exact H. Qed.

Lemma cd_rows_complete t db sa ba na r :
  In r (rows_of t db) -> cd_match sa ba na r = true ->
  exists n, In (cd_key sa ba na r, n) (cd_rows t db sa ba na) /\ 0 < n.
Proof.
  intros Hr Hm.
  assert (Hin : In (cd_key sa ba na r) (map (cd_key sa ba na) (filter (cd_match sa ba na) (rows_of t db)))).
  { apply in_map. apply filter_In. split; assumption. }
  exists (countk (cd_key sa ba na r) (map (cd_key sa ba na) (filter (cd_match sa ba na) (rows_of t db)))).
  split; [apply group_count_complete; exact Hin|].
  unfold countk, zlen.
  set (fl := filter (key_eqb (cd_key sa ba na r)) (map (cd_key sa ba na) (filter (cd_match sa ba na) (rows_of t db)))).
  assert (Hf : In (cd_key sa ba na r) fl).
  { apply filter_In. split; [exact Hin|apply key_eqb_refl]. }
  destruct fl; [contradiction|]. cbn [length]. lia.
Qed.

Lemma cd_rows_total t db sa ba na :
  zsum (map snd (cd_rows t db sa ba na)) = zlen (filter (cd_match sa ba na) (rows_of t db)).
Proof. unfold cd_rows. rewrite group_count_total. unfold zlen. rewrite map_length. reflexivity. Qed.

Lemma cd_rows_keys_distinct t db sa ba na : NoDup (map fst (cd_rows t db sa ba na)).
Proof. apply group_count_nodup. Qed.
