(** C08 — the FeatureMap headline theorems restated on the GENERATED functions
    (coq/gen/FeatureMapGen.v, regenerated from the current source text on every run),
    transported through the equalities of Proofs/FeatureMapGenEq.v. *)
From CG3 Require Import Lib.PyZ Lib.Val Model.IndelMap Model.NumpyPrims Model.FeatureMap Model.FeatureMapPrims Spec.FeatureMapSpec.
From CG3 Require Import Proofs.IndelMapProofs Proofs.FeatureMapBounded Proofs.FeatureMapProofs Proofs.FeatureMapCovInv
                        Proofs.FeatureMapGenEq.
From CG3gen Require Import FeatureMapGen.
Import GF.

Local Open Scope Z_scope.

Lemma gen_fm_inverse_spec fm : in_parent fm = true -> disjoint_spans fm = true ->
  exists c, g_fm_inverse fm = Ok c /\ den c = inverse_den (fplen fm) (den fm) /\
            fplen c = zlen (den fm) /\ in_parent c = true.
Proof. intros H1 H2. rewrite fm_inverse_eq. now apply fm_inverse_spec. Qed.

Lemma gen_fm_shadow_spec fm : 0 <= fplen fm -> in_parent fm = true -> disjoint_spans fm = true ->
  exists g, g_fm_shadow fm = Ok g /\ den g = map Some (complement (fplen fm) (positions fm)) /\
            fplen g = fplen fm /\ in_parent g = true /\ all_forward g = true.
Proof. intros H0 H1 H2. rewrite fm_shadow_eq. now apply fm_shadow_spec. Qed.

Lemma gen_fm_nucleic_reversed_spec fm : in_parent fm = true ->
  exists c, g_fm_nucleic_reversed fm = Ok c /\ in_parent c = true /\ fplen c = fplen fm /\
            zlen (den c) = zlen (den fm) /\
            (all_forward fm = true -> den c = rev (map (flip (fplen fm)) (den fm))).
Proof. intros H. rewrite fm_nucleic_reversed_eq. now apply fm_nucleic_reversed_spec. Qed.

Lemma gen_fm_gaps_spec fm : in_parent fm = true ->
  exists c, g_fm_gaps fm = Ok c /\ den c = map Some (lost_cells 0 (den fm)) /\ fplen c = flen fm /\
            in_parent c = true /\ all_forward c = true.
Proof. intros H. rewrite fm_gaps_eq. now apply fm_gaps_spec. Qed.

Lemma gen_from_locations locs n : g_from_locations locs n = from_locations locs n.
Proof. apply from_locations_eq. Qed.
