(** C11 — invariances of the column likelihood of [Model/Lik.v]:
    reordering of children, splitting an edge (time-homogeneity as a
    premise), moving the root (pulley principle; reversibility as a premise),
    relabelling of taxa/edges and the order of the alignment rows.

    Everything for an arbitrary commutative semiring [o] ([sr_laws o] is a
    section hypothesis, hence a premise), every rose tree, every number of
    states [n]. *)
From Coq Require Import Permutation.
From CG3 Require Import Lib.PyZ Lib.Semiring Lib.LikTree Model.Lik Spec.SumProduct Proofs.LikProofs.
Local Open Scope nat_scope.

Set Implicit Arguments.

(* ------------------------------------------------------------------ generic tree facts *)

Lemma tree_all_impl (L E : Type) (PL PL' : L -> Prop) (PE PE' : E -> Prop) (t : tree L E) :
  (forall l, PL l -> PL' l) -> (forall e, PE e -> PE' e) ->
  tree_all PL PE t -> tree_all PL' PE' t.
Proof.
  intros HL HE. induction t as [l|ch IH] using tree_ind'; intros H.
  - cbn [tree_all] in *. auto.
  - rewrite tree_all_node in *. rewrite Forall_forall in *.
    intros ec Hin. destruct (H ec Hin) as [He Hc]. split; [auto|]. now apply (IH ec Hin).
Qed.

Lemma tmap_comp (L E L' E' L'' E'' : Type) (f1 : L -> L') (g1 : E -> E')
      (f2 : L' -> L'') (g2 : E' -> E'') (t : tree L E) :
  tmap f2 g2 (tmap f1 g1 t) = tmap (fun l => f2 (f1 l)) (fun e => g2 (g1 e)) t.
Proof.
  induction t as [l|ch IH] using tree_ind'; cbn [tmap]; [reflexivity|].
  f_equal. rewrite map_map. apply map_ext_in. intros ec Hin. cbn [fst snd].
  rewrite Forall_forall in IH. now rewrite (IH ec Hin).
Qed.

(* ------------------------------------------------------------------ name-keyed lookup *)

Lemma lookup_perm (A : Type) (d : A) k al al' :
  NoDup (map fst al) -> Permutation al al' -> lookup d k al = lookup d k al'.
Proof.
  intros Hnd HP. revert Hnd.
  induction HP as [|[k1 v1] l l' HP IH|[k1 v1] [k2 v2] l|l l' l'' HP1 IH1 HP2 IH2]; intros Hnd.
  - reflexivity.
  - cbn [lookup]. destruct (k1 =? k)%Z; [reflexivity|]. apply IH.
    cbn [map] in Hnd. now inversion Hnd.
  - cbn [lookup]. destruct (Z.eqb_spec k2 k) as [E2|E2]; destruct (Z.eqb_spec k1 k) as [E1|E1];
      try reflexivity.
    exfalso. cbn [map fst] in Hnd. inversion Hnd as [|? ? Hnin _]; subst.
    apply Hnin. cbn [In]. left. reflexivity.
  - rewrite IH1 by exact Hnd. apply IH2.
    eapply Permutation_NoDup; [|exact Hnd]. apply Permutation_map. exact HP1.
Qed.

Lemma lookup_relabel (A : Type) (d : A) (f : Z -> Z) k al :
  (forall a b, f a = f b -> a = b) ->
  lookup d (f k) (map (fun kv => (f (fst kv), snd kv)) al) = lookup d k al.
Proof.
  intros Hinj. induction al as [|[k' v] al IH]; cbn [map lookup fst snd]; [reflexivity|].
  destruct (Z.eqb_spec k' k) as [E|E].
  - subst k'. now rewrite Z.eqb_refl.
  - destruct (Z.eqb_spec (f k') (f k)) as [E'|E']; [|exact IH].
    exfalso. apply E. now apply Hinj.
Qed.

(* ------------------------------------------------------------------ the invariances *)

Section Inv.
  Variable R : Type.
  Variable o : sr_ops R.
  Hypothesis L : sr_laws o.
  Variable n : nat.

  Local Infix "⊕" := (sr_add o) (at level 50, left associativity).
  Local Infix "⊗" := (sr_mul o) (at level 40, left associativity).
  Local Notation Σ := (big_sum o).
  Local Notation Π := (big_prod o).
  Local Notation vf := (vfun o).
  Local Notation mf := (mfun o).
  Local Notation states := (seq 0 n).

  Lemma sr_ring_theory :
    semi_ring_theory (sr_zero o) (sr_one o) (sr_add o) (sr_mul o) eq.
  Proof.
    constructor.
    - apply (sr_add_0_l L).
    - apply (sr_add_comm L).
    - apply (sr_add_assoc L).
    - apply (sr_mul_1_l L).
    - apply (sr_mul_0_l L).
    - apply (sr_mul_comm L).
    - apply (sr_mul_assoc L).
    - apply (sr_distr_r L).
  Qed.
  Add Ring sr_ring : sr_ring_theory.

  (** equality of two length-[n] vectors from equality of their entries *)
  Lemma vec_ext (u v : list R) :
    length u = n -> length v = n -> (forall i, i < n -> vf u i = vf v i) -> u = v.
  Proof. intros Hu Hv H. exact (nth_ext_len R (sr_zero o) n u v Hu Hv H). Qed.

  (* ---------------------------------------------------------------- A. children order *)

  Theorem partial_perm_root (ch ch' : list (mat R * ptree R)) :
    wf n (Node ch) -> Permutation ch ch' ->
    partial o n (Node ch) = partial o n (Node ch').
  Proof.
    intros Hwf HP.
    assert (Hwf' : wf n (Node ch')) by (exact (ok_node_perm _ _ ch ch' HP Hwf)).
    apply vec_ext; try (now apply (partial_length R o L n)).
    intros i Hi.
    rewrite (partial_node_spec R o L n ch i Hwf Hi), (partial_node_spec R o L n ch' i Hwf' Hi).
    apply (big_prod_perm L). exact HP.
  Qed.

  Theorem partial_ctx pre (e : mat R) (c c' : ptree R) post :
    partial o n c = partial o n c' ->
    partial o n (Node (pre ++ (e, c) :: post)) = partial o n (Node (pre ++ (e, c') :: post)).
  Proof.
    intros H. rewrite !(partial_node R o n), !map_app. cbn [map fst snd]. now rewrite H.
  Qed.

  Theorem partial_reorder1 (t t' : ptree R) :
    wf n t -> reorder1 t t' -> partial o n t = partial o n t'.
  Proof.
    intros Hwf H. revert Hwf.
    induction H as [t t' H|pre e c c' post H IH]; intros Hwf.
    - destruct H as [ch ch' HP]. now apply partial_perm_root.
    - apply partial_ctx. apply IH.
      destruct (proj1 (ok_node_mid _ _ pre e c post) Hwf) as [[_ Hc] _]. exact Hc.
  Qed.

  Theorem partial_reorder (t t' : ptree R) :
    wf n t -> reorder t t' -> partial o n t = partial o n t'.
  Proof.
    intros Hwf H. revert Hwf. induction H as [t|t t' t'' H1 _ IH]; intros Hwf; [reflexivity|].
    rewrite (@partial_reorder1 t t' Hwf H1). apply IH. exact (ok_reorder1 _ _ t t' H1 Hwf).
  Qed.

  Theorem col_lik_reorder (t t' : ptree R) (pi : list R) :
    wf n t -> reorder t t' -> col_lik o n t pi = col_lik o n t' pi.
  Proof. intros Hwf H. unfold col_lik. now rewrite (@partial_reorder t t' Hwf H). Qed.

  (* ---------------------------------------------------------------- B. edge split *)

  (** [Pe = Pa · Pb] (time-homogeneity: P(t1 + t2) = P(t1) P(t2)) *)
  Definition is_product (Pe Pa Pb : mat R) : Prop :=
    forall i k, i < n -> k < n ->
      mf Pe i k = Σ (fun j => mf Pa i j ⊗ mf Pb j k) states.

  Theorem child_term_split (Pe Pa Pb : mat R) (plh : list R) :
    wfmat n Pe -> wfmat n Pa -> wfmat n Pb -> length plh = n -> is_product Pe Pa Pb ->
    child_term o Pe plh = child_term o Pa (child_term o Pb plh).
  Proof.
    intros He Ha Hb Hl Hprod.
    assert (Hlb : length (child_term o Pb plh) = n)
      by (rewrite child_term_length; exact (proj1 Hb)).
    apply vec_ext.
    - rewrite child_term_length. exact (proj1 He).
    - rewrite child_term_length. exact (proj1 Ha).
    - intros i Hi.
      rewrite (child_term_spec R o L n Pe plh i He Hl Hi).
      rewrite (child_term_spec R o L n Pa _ i Ha Hlb Hi).
      transitivity (Σ (fun k => Σ (fun j => mf Pa i j ⊗ mf Pb j k ⊗ vf plh k) states) states).
      + apply big_sum_ext. intros k Hk. apply in_seq in Hk.
        rewrite (Hprod i k) by lia. apply (big_sum_mul_r L).
      + rewrite (big_sum_swap L). apply big_sum_ext. intros j Hj. apply in_seq in Hj.
        rewrite (child_term_spec R o L n Pb plh j Hb Hl) by lia.
        rewrite (big_sum_mul_l L). apply big_sum_ext. intros k _. ring.
  Qed.

  Theorem partial_unary (P : mat R) (c : ptree R) :
    partial o n (Node [(P, c)]) = child_term o P (partial o n c).
  Proof. reflexivity. Qed.

  Theorem partial_split_root (Pe Pa Pb : mat R) (t t' : ptree R) :
    wf n t -> wfmat n Pa -> wfmat n Pb -> is_product Pe Pa Pb ->
    split_root Pe Pa Pb t t' -> partial o n t = partial o n t'.
  Proof.
    intros Hwf Ha Hb Hprod H. destruct H as [pre c post].
    destruct (proj1 (ok_node_mid _ _ pre Pe c post) Hwf) as [[He Hc] _].
    rewrite (partial_node R o n (pre ++ (Pe, c) :: post)).
    rewrite (partial_node R o n (pre ++ (Pa, Node [(Pb, c)]) :: post)).
    rewrite !map_app. cbn [map fst snd]. rewrite partial_unary.
    rewrite (@child_term_split Pe Pa Pb (partial o n c) He Ha Hb (partial_length R o L n c Hc) Hprod). reflexivity.
  Qed.

  Theorem partial_split_edge (Pe Pa Pb : mat R) (t t' : ptree R) :
    wf n t -> wfmat n Pa -> wfmat n Pb -> is_product Pe Pa Pb ->
    split_edge Pe Pa Pb t t' -> partial o n t = partial o n t'.
  Proof.
    intros Hwf Ha Hb Hprod H. revert Hwf.
    induction H as [t t' H|pre e c c' post H IH]; intros Hwf.
    - now apply (@partial_split_root Pe Pa Pb t t' Hwf Ha Hb Hprod).
    - apply partial_ctx. apply IH.
      destruct (proj1 (ok_node_mid _ _ pre e c post) Hwf) as [[_ Hc] _]. exact Hc.
  Qed.

  Theorem col_lik_split_edge (Pe Pa Pb : mat R) (t t' : ptree R) (pi : list R) :
    wf n t -> wfmat n Pa -> wfmat n Pb -> is_product Pe Pa Pb ->
    split_edge Pe Pa Pb t t' -> col_lik o n t pi = col_lik o n t' pi.
  Proof.
    intros Hwf Ha Hb Hprod H. unfold col_lik.
    now rewrite (@partial_split_edge Pe Pa Pb t t' Hwf Ha Hb Hprod H).
  Qed.

  (* ---------------------------------------------------------------- C. re-rooting *)

  (** detailed balance: π_i P_ij = π_j P_ji *)
  Definition reversible (pi : list R) (P : mat R) : Prop :=
    forall i j, i < n -> j < n -> vf pi i ⊗ mf P i j = vf pi j ⊗ mf P j i.

  Definition wf_rev (pi : list R) (t : ptree R) : Prop :=
    tree_all (fun p => length p = n) (fun P => wfmat n P /\ reversible pi P) t.

  Lemma wf_rev_wf pi t : wf_rev pi t -> wf n t.
  Proof. apply tree_all_impl; [auto|]. intros P [HP _]. exact HP. Qed.

  (** the root's partial likelihood with one child singled out *)
  Lemma partial_root_mid pre (P : mat R) (c : ptree R) post i :
    wf n (Node (pre ++ (P, c) :: post)) -> i < n ->
    vf (partial o n (Node (pre ++ (P, c) :: post))) i
    = Σ (fun j => mf P i j ⊗ vf (partial o n c) j) states
      ⊗ vf (partial o n (Node (pre ++ post))) i.
  Proof.
    intros Hwf Hi.
    destruct (proj1 (ok_node_mid _ _ pre P c post) Hwf) as [_ Hrest].
    rewrite (partial_node_spec R o L n _ i Hwf Hi).
    rewrite (big_prod_perm L _ (Permutation_sym (Permutation_middle pre post (P, c)))).
    rewrite big_prod_cons. cbn [fst snd].
    now rewrite <- (partial_node_spec R o L n (pre ++ post) i Hrest Hi).
  Qed.

  Lemma partial_root_last ch1 (P : mat R) (c : ptree R) i :
    wf n (Node (ch1 ++ [(P, c)])) -> i < n ->
    vf (partial o n (Node (ch1 ++ [(P, c)]))) i
    = vf (partial o n (Node ch1)) i
      ⊗ Σ (fun j => mf P i j ⊗ vf (partial o n c) j) states.
  Proof.
    intros Hwf Hi.
    destruct (proj1 (ok_node_mid _ _ ch1 P c []) Hwf) as [_ Hrest].
    rewrite app_nil_r in Hrest.
    rewrite (@partial_root_mid ch1 P c [] i Hwf Hi), app_nil_r. ring.
  Qed.

  Theorem col_lik_reroot_step (t t' : ptree R) (pi : list R) :
    length pi = n -> wf_rev pi t -> reroot_step t t' ->
    col_lik o n t pi = col_lik o n t' pi.
  Proof.
    intros Hpi Hwr Hstep.
    pose proof (ok_reroot_step _ _ t t' Hstep Hwr) as Hwr'.
    pose proof (@wf_rev_wf pi t Hwr) as Hwf. pose proof (@wf_rev_wf pi t' Hwr') as Hwf'.
    destruct Hstep as [pre P ch1 post].
    destruct (proj1 (ok_node_mid _ _ pre P (Node ch1) post) Hwr) as [[[HP Hrev] _] _].
    rewrite (col_lik_spec R o L n _ pi Hwf Hpi), (col_lik_spec R o L n _ pi Hwf' Hpi).
    set (a := partial o n (Node (pre ++ post))).
    set (b := partial o n (Node ch1)).
    transitivity (Σ (fun i => Σ (fun j => mf P i j ⊗ vf b j ⊗ vf a i ⊗ vf pi i) states) states).
    { apply big_sum_ext. intros i Hi. apply in_seq in Hi.
      rewrite (@partial_root_mid pre P (Node ch1) post i Hwf) by lia. fold a b.
      rewrite !(big_sum_mul_r L). reflexivity. }
    transitivity (Σ (fun j => Σ (fun i => vf b j ⊗ (mf P j i ⊗ vf a i) ⊗ vf pi j) states) states).
    2:{ apply big_sum_ext. intros j Hj. apply in_seq in Hj.
        rewrite (@partial_root_last ch1 P (Node (pre ++ post)) j Hwf') by lia. fold a b.
        rewrite (big_sum_mul_l L), (big_sum_mul_r L). reflexivity. }
    rewrite (big_sum_swap L). apply big_sum_ext. intros j Hj. apply in_seq in Hj.
    apply big_sum_ext. intros i Hi. apply in_seq in Hi.
    transitivity (vf pi i ⊗ mf P i j ⊗ (vf b j ⊗ vf a i)); [ring|].
    rewrite (Hrev i j) by lia. ring.
  Qed.

  Theorem col_lik_reroot_path (p : list nat) (t t' : ptree R) (pi : list R) :
    length pi = n -> wf_rev pi t -> reroot_path p t = Some t' ->
    col_lik o n t pi = col_lik o n t' pi.
  Proof.
    intros Hpi. revert t. induction p as [|k p IH]; intros t Hwr H; cbn [reroot_path] in H.
    - now injection H as ->.
    - destruct (reroot_child k t) as [t1|] eqn:E; [|discriminate].
      apply reroot_child_step in E.
      rewrite (@col_lik_reroot_step t t1 pi Hpi Hwr E). apply IH; [|exact H].
      exact (ok_reroot_step _ _ t t1 E Hwr).
  Qed.

  (* ---------------------------------------------------------------- D. names *)

  Theorem lik_column_perm_rows (prof : motif -> list R) (psub : Z -> mat R) (pi : list R)
          (t : tree Z Z) (col col' : column) :
    NoDup (map fst col) -> Permutation col col' ->
    lik_column o n prof psub pi t col = lik_column o n prof psub pi t col'.
  Proof.
    intros Hnd HP. unfold lik_column, bind. f_equal.
    apply tmap_ext; [|reflexivity]. intros nm _. f_equal. now apply lookup_perm.
  Qed.

  Theorem lik_column_relabel (f : Z -> Z) (prof : motif -> list R) (psub psub' : Z -> mat R)
          (pi : list R) (t : tree Z Z) (col : column) :
    (forall a b, f a = f b -> a = b) -> (forall e, psub' (f e) = psub e) ->
    lik_column o n prof psub' pi (tmap f f t) (map (fun kv => (f (fst kv), snd kv)) col)
    = lik_column o n prof psub pi t col.
  Proof.
    intros Hinj Hps. unfold lik_column, bind. rewrite tmap_comp. f_equal.
    apply tmap_ext.
    - intros nm _. f_equal. now apply lookup_relabel.
    - intros e _. apply Hps.
  Qed.
End Inv.

(* ------------------------------------------------------------------ non-vacuity *)

Definition inv_ex_P : mat Z := [[3; 1]; [1; 3]]%Z.
Definition inv_ex_PP : mat Z := [[10; 6]; [6; 10]]%Z.
Definition inv_ex_pi : list Z := [1; 1]%Z.
Definition inv_ex_tree : ptree Z :=
  Node [(inv_ex_P, Leaf [1; 0]%Z);
        (inv_ex_P, Node [(inv_ex_P, Leaf [0; 1]%Z); (inv_ex_P, Leaf [1; 1]%Z)])].

Local Ltac two_states i Hi :=
  destruct i as [|[|i]]; [| |exfalso; lia]; clear Hi.

Example inv_ex_reversible : reversible Z_ops 2 inv_ex_pi inv_ex_P.
Proof. intros i j Hi Hj. two_states i Hi; two_states j Hj; reflexivity. Qed.

Example inv_ex_wfmat : wfmat 2 inv_ex_P.
Proof. split; [reflexivity|]. repeat constructor. Qed.

Example inv_ex_wf_rev : wf_rev Z_ops 2 inv_ex_pi inv_ex_tree.
Proof.
  unfold wf_rev, inv_ex_tree. cbn [tree_all fst snd].
  pose proof inv_ex_reversible. pose proof inv_ex_wfmat. intuition.
Qed.

Example inv_ex_is_product : is_product Z_ops 2 inv_ex_PP inv_ex_P inv_ex_P.
Proof. intros i k Hi Hk. two_states i Hi; two_states k Hk; reflexivity. Qed.

Example inv_ex_reroot :
  reroot_path [1] inv_ex_tree
  = Some (Node [(inv_ex_P, Leaf [0; 1]%Z); (inv_ex_P, Leaf [1; 1]%Z);
                (inv_ex_P, Node [(inv_ex_P, Leaf [1; 0]%Z)])]).
Proof. reflexivity. Qed.

(** both rootings give the same number, as [col_lik_reroot_path] says *)
Example inv_ex_reroot_value :
  col_lik Z_ops 2 inv_ex_tree inv_ex_pi = 112%Z /\
  (forall t', reroot_path [1] inv_ex_tree = Some t' -> col_lik Z_ops 2 t' inv_ex_pi = 112%Z).
Proof.
  split; [reflexivity|]. intros t' H. rewrite inv_ex_reroot in H. injection H as <-. reflexivity.
Qed.

Example inv_ex_reroot_by_theorem t' :
  reroot_path [1] inv_ex_tree = Some t' -> col_lik Z_ops 2 inv_ex_tree inv_ex_pi = col_lik Z_ops 2 t' inv_ex_pi.
Proof. apply (col_lik_reroot_path Z_laws); [reflexivity|exact inv_ex_wf_rev]. Qed.

(** splitting the first edge of a cherry with [inv_ex_PP = inv_ex_P · inv_ex_P] *)
Example inv_ex_split :
  split_edge inv_ex_PP inv_ex_P inv_ex_P
    (Node [(inv_ex_PP, Leaf [1; 0]%Z); (inv_ex_P, Leaf [0; 1]%Z)])
    (Node [(inv_ex_P, Node [(inv_ex_P, Leaf [1; 0]%Z)]); (inv_ex_P, Leaf [0; 1]%Z)])
  /\ col_lik Z_ops 2 (Node [(inv_ex_PP, Leaf [1; 0]%Z); (inv_ex_P, Leaf [0; 1]%Z)]) inv_ex_pi
     = col_lik Z_ops 2 (Node [(inv_ex_P, Node [(inv_ex_P, Leaf [1; 0]%Z)]); (inv_ex_P, Leaf [0; 1]%Z)]) inv_ex_pi.
Proof.
  split; [|reflexivity]. apply cc_here.
  exact (split_root_intro inv_ex_PP inv_ex_P inv_ex_P [] (Leaf [1; 0]%Z) [(inv_ex_P, Leaf [0; 1]%Z)]).
Qed.

Print Assumptions partial_perm_root.
Print Assumptions partial_ctx.
Print Assumptions partial_reorder1.
Print Assumptions partial_reorder.
Print Assumptions col_lik_reorder.
Print Assumptions child_term_split.
Print Assumptions partial_unary.
Print Assumptions partial_split_root.
Print Assumptions col_lik_split_edge.
Print Assumptions wf_rev_wf.
Print Assumptions col_lik_reroot_step.
Print Assumptions col_lik_reroot_path.
Print Assumptions lookup_perm.
Print Assumptions lik_column_perm_rows.
Print Assumptions lookup_relabel.
Print Assumptions tmap_comp.
Print Assumptions lik_column_relabel.
